/-
  Helper lemmas for C09 (clause database / logical update view).
-/
import PrologVerif.Spec.LUV
namespace PrologVerif.DB
open PrologVerif

/-! ### the procedure table as a finite map -/

theorem Procs.get_set (ps : Procs) (pi pi' : PI) (p : Proc) :
    (ps.set pi p).get pi' = if pi' = pi then some p else ps.get pi' := by
  induction ps with
  | nil =>
    simp only [Procs.set, Procs.get]
    by_cases h : pi = pi'
    · simp [h]
    · have : ¬ pi' = pi := fun e => h e.symm
      simp [h, this]
  | cons kv ps ih =>
    obtain ⟨k, v⟩ := kv
    simp only [Procs.set]
    by_cases hk : k = pi
    · subst hk
      simp only [if_true, Procs.get]
      by_cases h : k = pi'
      · simp [h]
      · have : ¬ pi' = k := fun e => h e.symm
        simp [h, this]
    · simp only [hk, if_false, Procs.get, ih]
      by_cases h : k = pi'
      · subst h
        have : ¬ k = pi := hk
        simp [this]
      · simp [h]

theorem Procs.get_del (ps : Procs) (pi pi' : PI) :
    (ps.del pi).get pi' = if pi' = pi then none else ps.get pi' := by
  induction ps with
  | nil => simp [Procs.del, Procs.get]
  | cons kv ps ih =>
    obtain ⟨k, v⟩ := kv
    simp only [Procs.del]
    by_cases hk : k = pi
    · subst hk
      simp only [if_true, ih, Procs.get]
      by_cases h : pi' = k
      · simp [h]
      · have : ¬ k = pi' := fun e => h e.symm
        simp [h, this]
    · simp only [hk, if_false, Procs.get, ih]
      by_cases h : k = pi'
      · subst h
        simp [hk]
      · simp [h]

/-! ### identities -/

def ids (cs : List Stored) : List Nat := cs.map (·.id)

/-- identities of one procedure are pairwise different and already allocated -/
def IdsOK (n : Nat) (cs : List Stored) : Prop := (ids cs).Nodup ∧ ∀ c ∈ cs, c.id < n

/-- the invariant of the database: clause identities are unique (per procedure) and below the counter -/
def Inv (m : State) : Prop := ∀ pi p, m.procs.get pi = some p → IdsOK m.nextId p.clauses

theorem ids_stamp (n : Nat) (rs : List (Term × Term)) : ids (stamp n rs) = List.range' n rs.length := by
  induction rs generalizing n with
  | nil => rfl
  | cons r rs ih => simp [stamp, ids, List.range'_succ] at *; exact ih (n + 1)

theorem raws_stamp (n : Nat) (rs : List (Term × Term)) : (stamp n rs).map (·.raw) = rs.map (·.1) := by
  induction rs generalizing n with
  | nil => rfl
  | cons r rs ih => simp [stamp, ih]

theorem pairs_stamp (n : Nat) (rs : List (Term × Term)) :
    (stamp n rs).map (fun c => (c.raw, c.body)) = rs := by
  induction rs generalizing n with
  | nil => rfl
  | cons r rs ih => simp [stamp, ih]

theorem zip_map_const (l : List Term) (c : Term) :
    (l.map fun _ => c).zip l = l.map fun a => (c, a) := by
  induction l with
  | nil => rfl
  | cons a l ih => simp [ih]

/-- the clauses `compile` makes of a term, paired with the bodies they execute: one per
    alternative, in the order of the alternatives -/
theorem compile_zip {c : Term} {raws : List Term} (h : compile c = .ok raws) :
    raws.zip (altsOf c) = (altsOf c).map (fun a => (c, a)) ∧ raws.length = (altsOf c).length := by
  unfold compile at h
  split at h
  · rename_i hd b
    split at h
    · simp only [Except.ok.injEq] at h
      subst h
      simp only [altsOf]
      exact ⟨zip_map_const _ _, by simp⟩
    · cases h
  · rename_i hne
    simp only [Except.ok.injEq] at h
    subst h
    have : altsOf c = [.atom "true"] := by
      unfold altsOf
      split
      · rename_i hd b; exact absurd rfl (hne hd b)
      · rfl
    rw [this]
    exact ⟨rfl, rfl⟩

theorem mem_stamp {n : Nat} {rs : List (Term × Term)} {c : Stored} (h : c ∈ stamp n rs) :
    n ≤ c.id ∧ c.id < n + rs.length := by
  have : c.id ∈ ids (stamp n rs) := List.mem_map_of_mem h
  rw [ids_stamp, List.mem_range'_1] at this
  exact this

theorem idsOK_mono {n n' : Nat} {cs : List Stored} (h : IdsOK n cs) (hn : n ≤ n') : IdsOK n' cs :=
  ⟨h.1, fun c hc => Nat.lt_of_lt_of_le (h.2 c hc) hn⟩

theorem idsOK_stamp_append (n : Nat) (rs : List (Term × Term)) (cs : List Stored) (h : IdsOK n cs) (front : Bool) :
    IdsOK (n + rs.length) (if front then stamp n rs ++ cs else cs ++ stamp n rs) := by
  have hdis : ∀ a ∈ ids cs, ∀ b ∈ ids (stamp n rs), a ≠ b := by
    intro a ha b hb
    rw [ids_stamp, List.mem_range'_1] at hb
    simp only [ids, List.mem_map] at ha
    obtain ⟨c, hc, rfl⟩ := ha
    have := h.2 c hc
    omega
  have hnd : (ids (stamp n rs)).Nodup := by rw [ids_stamp]; exact List.nodup_range'
  constructor
  · cases front
    · simp only [Bool.false_eq_true, if_false, ids, List.map_append]
      exact List.nodup_append.mpr ⟨h.1, hnd, hdis⟩
    · simp only [if_true, ids, List.map_append]
      exact List.nodup_append.mpr ⟨hnd, h.1, fun a ha b hb => (hdis b hb a ha).symm⟩
  · intro c hc
    have hc' : c ∈ stamp n rs ∨ c ∈ cs := by
      cases front
      · simp at hc; exact hc.symm
      · simp at hc; exact hc
    rcases hc' with hc' | hc'
    · exact (mem_stamp hc').2
    · have := h.2 c hc'; omega

theorem idsOK_sublist {n : Nat} {cs cs' : List Stored} (h : IdsOK n cs) (hs : cs'.Sublist cs) : IdsOK n cs' :=
  ⟨List.Nodup.sublist (List.Sublist.map _ hs) h.1, fun c hc => h.2 c (hs.subset hc)⟩

/-- with unique identities, deleting the position where an identity sits = filtering it out -/
theorem eraseIdx_eq_filter (cs : List Stored) (j : Nat) (x : Nat) (hnd : (ids cs).Nodup)
    (hj : (cs[j]?).map (·.id) = some x) : cs.eraseIdx j = cs.filter (fun c => c.id ≠ x) := by
  induction cs generalizing j with
  | nil => simp at hj
  | cons c cs ih =>
    simp only [ids, List.map_cons, List.nodup_cons] at hnd
    cases j with
    | zero =>
      simp at hj
      subst hj
      have hne : ∀ d ∈ cs, d.id ≠ c.id := fun d hd e => hnd.1 (e ▸ List.mem_map_of_mem hd)
      simp only [List.eraseIdx_cons_zero, List.filter_cons, ne_eq, not_true_eq_false, decide_false,
        Bool.false_eq_true, if_false]
      symm
      apply List.filter_eq_self.mpr
      intro d hd
      simpa using hne d hd
    | succ j =>
      simp only [List.getElem?_cons_succ] at hj
      have hne : c.id ≠ x := by
        intro e
        cases hcj : cs[j]? with
        | none => simp [hcj] at hj
        | some d =>
          simp [hcj] at hj
          apply hnd.1
          rw [e, ← hj]
          exact List.mem_map_of_mem (List.mem_of_getElem? hcj)
      simp only [List.eraseIdx_cons_succ, ih j hnd.2 hj]
      simp [hne]

/-- what `clauses.indexOf` returns when identities are unique: `-1` iff the clause is gone,
    otherwise THE position of the clause, whatever the hint -/
theorem indexOf_spec (cs : List Stored) (c : Stored) (hint : Int) (hnd : (ids cs).Nodup) :
    (indexOf cs c hint = -1 ∧ cs.any (fun d => d.id = c.id) = false) ∨
    (∃ j : Nat, indexOf cs c hint = (j : Int) ∧ j < cs.length ∧
      cs.eraseIdx j = cs.filter (fun d => d.id ≠ c.id) ∧ cs.any (fun d => d.id = c.id) = true) := by
  unfold indexOf
  split
  · rename_i hh
    obtain ⟨h0, h1, h2⟩ := hh
    right
    refine ⟨hint.toNat, by omega, by omega, eraseIdx_eq_filter cs _ _ hnd h2, ?_⟩
    cases hg : cs[hint.toNat]? with
    | none => simp [hg] at h2
    | some d =>
      simp [hg] at h2
      exact List.any_eq_true.mpr ⟨d, List.mem_of_getElem? hg, by simp [h2]⟩
  · cases hf : cs.findIdx? (fun d => d.id = c.id) with
    | none =>
      left
      refine ⟨rfl, ?_⟩
      rw [List.findIdx?_eq_none_iff] at hf
      rw [List.any_eq_false]
      intro d hd
      simpa using hf d hd
    | some i =>
      right
      rw [List.findIdx?_eq_some_iff_getElem] at hf
      obtain ⟨hi, hp, _⟩ := hf
      have hg : (cs[i]?).map (·.id) = some c.id := by
        rw [List.getElem?_eq_getElem hi]; simpa using hp
      refine ⟨i, rfl, hi, eraseIdx_eq_filter cs _ _ hnd hg, ?_⟩
      exact List.any_eq_true.mpr ⟨cs[i], List.getElem_mem hi, by simpa using hp⟩

/-! ### abstraction to the specification's state -/

def absIter : Iter → LUV.Iter
  | .call g r p => .call g r p
  | .retract p pi r _ _ => .retract p pi r
  | .closed => .closed

def abs (m : State) : LUV.State := ⟨m.procs, m.nextId, m.nextVar, m.iters.map absIter⟩

@[simp] theorem abs_procs (m : State) : (abs m).procs = m.procs := rfl
@[simp] theorem abs_fresh (m : State) : (abs m).fresh = m.nextId := rfl
@[simp] theorem abs_nextVar (m : State) : (abs m).nextVar = m.nextVar := rfl
@[simp] theorem abs_iters (m : State) : (abs m).iters = m.iters.map absIter := rfl

theorem assertMerge_refines (m : State) (c : Term) (front : Bool) :
    LUV.insert (abs m) c front = (abs (ofErr (assertMerge m c front)).1, (ofErr (assertMerge m c front)).2) := by
  unfold LUV.insert assertMerge
  cases hpi : clausePI c with
  | error e => simp [ofErr]
  | ok pi =>
    cases hc : compile c with
    | error e => simp [ofErr]
    | ok raws =>
      simp only [abs_procs, LUV.isStatic, LUV.clausesOf, (compile_zip hc).1]
      rcases Option.eq_none_or_eq_some (m.procs.get pi) with hg | ⟨⟨dyn, cs⟩, hg⟩
      · simp [hg, ofErr, abs]
      · cases dyn <;> simp [hg, ofErr, abs]

theorem abolish_refines (m : State) (pi : Term) :
    LUV.abolish (abs m) pi = (abs (ofErr (abolish m pi)).1, (ofErr (abolish m pi)).2) := by
  unfold LUV.abolish abolish
  split <;> simp only [ofErr]
  · -- name atom, arity integer
    rename_i n a
    by_cases ha : a < 0
    · simp [ha, ofErr]
    · simp only [ha, if_false, abs_procs]
      rcases Option.eq_none_or_eq_some (m.procs.get ⟨n, a.toNat⟩) with hg | ⟨⟨dyn, cs⟩, hg⟩
      · simp [hg, ofErr]
      · cases dyn <;> simp [hg, ofErr, abs]
  all_goals (first | rfl | skip)

theorem pushIter_refines (m : State) (it : Iter) :
    LUV.opened (abs m) (absIter it) = (abs (pushIter m it).1, (pushIter m it).2) := by
  simp [LUV.opened, pushIter, abs]

theorem openCall_refines (m : State) (g : Term) :
    LUV.startCall (abs m) g = (abs (openCall m g).1, (openCall m g).2) := by
  unfold LUV.startCall openCall
  cases piArg g with
  | error e => rfl
  | ok pi =>
    simp only [abs_procs]
    rcases Option.eq_none_or_eq_some (m.procs.get pi) with hg | ⟨p, hg⟩
    · simp [hg]
    · simp only [hg]
      exact pushIter_refines m (.call g p.clauses [])

theorem headOf_rulify (t : Term) :
    ∃ b, rulify t = .app ":-" (.cons (headOf t) (.cons b .nil)) := by
  unfold rulify headOf
  split
  · exact ⟨_, rfl⟩
  · exact ⟨_, rfl⟩

theorem openRetract_refines (m : State) (t : Term) :
    LUV.startRetract (abs m) t = (abs (openRetract m t).1, (openRetract m t).2) := by
  unfold LUV.startRetract openRetract
  obtain ⟨b, hb⟩ := headOf_rulify t
  rw [hb]
  simp only
  cases piArg (headOf t) with
  | error e => rfl
  | ok pi =>
    simp only [abs_procs, LUV.isStatic, LUV.clausesOf]
    rcases Option.eq_none_or_eq_some (m.procs.get pi) with hg | ⟨⟨dyn, cs⟩, hg⟩
    · simp only [hg]
      exact pushIter_refines m (.retract t pi [] 0 0)
    · cases dyn
      · simp [hg]
      · simp only [hg]
        exact pushIter_refines m (.retract t pi cs 0 0)

theorem close_refines (m : State) (h : Nat) :
    LUV.step (abs m) (.close h) = (abs (close m h).1, (close m h).2) := by
  unfold LUV.step close
  by_cases hh : h < m.iters.length
  · simp [hh, abs, List.map_set, absIter]
  · simp [hh]

theorem nextCall_refines (m : State) (h : Nat) (g : Term) (rest : List Stored) :
    LUV.redoCall (abs m) h g rest = (abs (nextCall m h g rest).1, (nextCall m h g rest).2) := by
  induction rest generalizing m with
  | nil => simp [LUV.redoCall, nextCall, abs, List.map_set, absIter]
  | cons c rest ih =>
    unfold LUV.redoCall nextCall
    simp only [abs_nextVar]
    cases clauseAnswers m.nextVar g c with
    | cons a more => simp [abs, List.map_set, absIter]
    | nil => exact ih { m with nextVar := m.nextVar + maxVar c.raw }

theorem sliceDelete_nat (cs : List Stored) (j : Nat) (hj : j < cs.length) :
    sliceDelete cs (j : Int) = some (cs.eraseIdx j) := by
  unfold sliceDelete
  have : (0 : Int) ≤ (j : Int) ∧ (j : Int) + 1 ≤ (cs.length : Int) := by omega
  simp [this]

theorem inv_nextVar {m : State} (hinv : Inv m) (n : Nat) : Inv { m with nextVar := n } :=
  fun pi p hg => hinv pi p hg

/-- the repaired `Retract` does what the logical update view says, in every state whose
    identities are unique -/
theorem nextRetract_refines (m : State) (hinv : Inv m) (h : Nat) (pat : Term) (pi : PI)
    (rest : List Stored) (i d : Nat) :
    LUV.redoRetract (abs m) h pat pi rest =
      (abs (nextRetract .fixed m h pat pi rest i d).1, (nextRetract .fixed m h pat pi rest i d).2) := by
  induction rest generalizing m i d with
  | nil => simp [LUV.redoRetract, nextRetract, abs, List.map_set, absIter]
  | cons c rest ih =>
    unfold LUV.redoRetract nextRetract
    simp only [abs_nextVar]
    have hinv1 := inv_nextVar hinv (m.nextVar + maxVar c.raw)
    have ih1 := fun i d => ih { m with nextVar := m.nextVar + maxVar c.raw } hinv1 i d
    cases unify fuelU [] (rulify pat) (rulify (shift m.nextVar c.raw)) with
    | none => exact ih1 (i + 1) d
    | some σ =>
      simp only [abs_procs, LUV.present, LUV.clausesOf, LUV.erase]
      rcases Option.eq_none_or_eq_some (m.procs.get pi) with hg | ⟨p, hg⟩
      · simp only [hg, List.any_nil, Bool.false_eq_true, if_false]
        exact ih1 (i + 1) d
      · simp only [hg]
        rcases indexOf_spec p.clauses c ((i : Int) - d) (hinv pi p hg).1 with ⟨hj, hany⟩ | ⟨j, hj, hlt, her, hany⟩
        · simp only [hj, hany, Bool.false_eq_true, if_false]
          have : (Variant.fixed = Variant.fixed ∧ (-1 : Int) < 0) := ⟨rfl, by omega⟩
          simp only [this, and_self, if_true]
          exact ih1 (i + 1) d
        · have hnot : ¬ (Variant.fixed = Variant.fixed ∧ (j : Int) < 0) := by
            intro ⟨_, hh⟩; omega
          have hnn : ¬ ((j : Int) < 0) := by omega
          simp only [hj, hany, if_true, hnot, if_false, sliceDelete_nat _ _ hlt, her]
          simp [abs, List.map_set, absIter, hnn]

/-! ### the invariant is preserved by every operation (both variants) -/

theorem nextCall_frame (m : State) (h : Nat) (g : Term) (rest : List Stored) :
    (nextCall m h g rest).1.procs = m.procs ∧ (nextCall m h g rest).1.nextId = m.nextId := by
  induction rest generalizing m with
  | nil => simp [nextCall]
  | cons c rest ih =>
    unfold nextCall
    simp only
    split
    · simp
    · exact ih _

theorem sliceDelete_sublist {cs cs' : List Stored} {j : Int} (h : sliceDelete cs j = some cs') :
    cs'.Sublist cs := by
  unfold sliceDelete at h
  split at h
  · simp only [Option.some.injEq] at h
    subst h
    exact List.eraseIdx_sublist _ _
  · simp at h

theorem inv_set_sublist {m : State} (hinv : Inv m) {pi : PI} {p : Proc} (hg : m.procs.get pi = some p)
    {cs : List Stored} (hs : cs.Sublist p.clauses) (its : List Iter) (nv : Nat) :
    Inv { procs := m.procs.set pi { p with clauses := cs }, nextId := m.nextId, nextVar := nv, iters := its } := by
  intro pi' p' hg'
  simp only [Procs.get_set] at hg'
  split at hg'
  · simp only [Option.some.injEq] at hg'
    subst hg'
    exact idsOK_sublist (hinv pi p hg) hs
  · exact hinv pi' p' hg'

theorem nextRetract_inv (v : Variant) (m : State) (hinv : Inv m) (h : Nat) (pat : Term) (pi : PI)
    (rest : List Stored) (i d : Nat) : Inv (nextRetract v m h pat pi rest i d).1 := by
  revert hinv
  fun_induction nextRetract v m h pat pi rest i d with
  | case1 st i d => exact fun hinv pi p hg => hinv pi p hg
  | case2 st0 c rest i d raw st hu ih => exact fun hinv => ih (inv_nextVar hinv _)
  | case3 st0 c rest i d raw st σ hu hg ih => exact fun hinv => ih (inv_nextVar hinv _)
  | case4 st0 c rest i d raw st σ hu p hg j hj ih => exact fun hinv => ih (inv_nextVar hinv _)
  | case5 st0 c rest i d raw st σ hu p hg j hj hsd => exact fun hinv pi p hg => hinv pi p hg
  | case6 st0 c rest i d raw st σ hu p hg j hj cs hsd =>
    exact fun hinv => inv_set_sublist (inv_nextVar hinv _) hg (sliceDelete_sublist hsd) _ _

theorem ofErr_fst (x : State × Option Term) : (ofErr x).1 = x.1 := by
  obtain ⟨st, e⟩ := x
  cases e <;> rfl

theorem assertMerge_inv (m : State) (hinv : Inv m) (c : Term) (front : Bool) :
    Inv (assertMerge m c front).1 := by
  fun_cases assertMerge m c front with
  | case1 e h => exact hinv
  | case2 pi h e hc => exact hinv
  | case3 pi h raws hc p hd => exact hinv
  | case4 pi h raws hc p hd added cs =>
    intro pi' p' hg'
    simp only [Procs.get_set] at hg'
    split at hg'
    · simp only [Option.some.injEq] at hg'
      subst hg'
      have hlen : (raws.zip (altsOf c)).length = raws.length := by
        rw [List.length_zip, ← (compile_zip hc).2]; simp
      rw [← hlen]
      apply idsOK_stamp_append
      simp only [p]
      split
      · rename_i p0 hg; exact hinv pi p0 hg
      · exact ⟨List.nodup_nil, fun c hc => by simp at hc⟩
    · exact idsOK_mono (hinv pi' p' hg') (Nat.le_add_right _ _)

theorem abolish_inv (m : State) (hinv : Inv m) (pi : Term) : Inv (abolish m pi).1 := by
  have key : ∀ k : PI, Inv { m with procs := m.procs.del k } := by
    intro k pi' p' hg'
    simp only [Procs.get_del] at hg'
    split at hg'
    · simp at hg'
    · exact hinv pi' p' hg'
  fun_cases abolish m pi
  all_goals first
    | exact hinv
    | exact key _

theorem step_inv (v : Variant) (m : State) (hinv : Inv m) (o : Op) : Inv (step v m o).1 := by
  cases o with
  | asserta c => simp only [step, ofErr_fst]; exact assertMerge_inv m hinv c true
  | assertz c => simp only [step, ofErr_fst]; exact assertMerge_inv m hinv c false
  | abolish pi => simp only [step, ofErr_fst]; exact abolish_inv m hinv pi
  | openCall g =>
    simp only [step]
    fun_cases openCall m g
    all_goals exact fun pi p hg => hinv pi p hg
  | openRetract t =>
    simp only [step]
    fun_cases openRetract m t
    all_goals exact fun pi p hg => hinv pi p hg
  | next h =>
    simp only [step]
    fun_cases next v m h with
    | case1 g rest a more hh => exact fun pi p hg => hinv pi p hg
    | case2 g rest hh =>
      intro pi p hg
      have hf := nextCall_frame m h g rest
      rw [hf.1] at hg
      rw [hf.2]
      exact hinv pi p hg
    | case3 pat pi rest i d hh => exact nextRetract_inv v m hinv h _ _ _ _ _
    | case4 hh => exact hinv
    | case5 hh => exact hinv
  | close h =>
    simp only [step]
    fun_cases close m h
    · exact fun pi p hg => hinv pi p hg
    · exact hinv
  | listing pi => exact hinv

theorem run_inv (v : Variant) (m : State) (hinv : Inv m) (os : List Op) : Inv (run v m os).1 := by
  induction os generalizing m with
  | nil => exact hinv
  | cons o os ih => exact ih _ (step_inv v m hinv o)

theorem inv_empty : Inv State.empty := by
  intro pi p hg
  simp [State.empty, Procs.get] at hg

/-! ### refinement of whole histories -/

theorem step_refines (m : State) (hinv : Inv m) (o : Op) :
    LUV.step (abs m) o = (abs (step .fixed m o).1, (step .fixed m o).2) := by
  cases o with
  | asserta c => exact assertMerge_refines m c true
  | assertz c => exact assertMerge_refines m c false
  | abolish pi => exact abolish_refines m pi
  | openCall g => exact openCall_refines m g
  | openRetract t => exact openRetract_refines m t
  | next h =>
    unfold LUV.step step next
    simp only [abs_iters, List.getElem?_map]
    cases hh : m.iters[h]? with
    | none => rfl
    | some it =>
      cases it with
      | call g rest pend =>
        cases pend with
        | nil => exact nextCall_refines m h g rest
        | cons a more => simp [absIter, abs, List.map_set]
      | retract pat pi rest i d => exact nextRetract_refines m hinv h pat pi rest i d
      | closed => rfl
  | close h => exact close_refines m h
  | listing pi =>
    unfold LUV.step step listing
    simp only [abs_procs]
    cases m.procs.get pi <;> rfl

theorem run_refines (m : State) (hinv : Inv m) (os : List Op) :
    LUV.run (abs m) os = (abs (run .fixed m os).1, (run .fixed m os).2) := by
  induction os generalizing m with
  | nil => rfl
  | cons o os ih =>
    unfold LUV.run run
    simp only [step_refines m hinv o]
    rw [ih _ (step_inv .fixed m hinv o)]

/-! ### frame: what an operation does to OTHER iterators -/

theorem nextCall_iters (m : State) (h : Nat) (g : Term) (rest : List Stored) :
    ∃ k pend, (nextCall m h g rest).1.iters = m.iters.set h (.call g (rest.drop k) pend) := by
  induction rest generalizing m with
  | nil => exact ⟨0, [], rfl⟩
  | cons c rest ih =>
    unfold nextCall
    dsimp only
    split
    · exact ⟨1, _, rfl⟩
    · obtain ⟨k, pend, hk⟩ := ih { m with nextVar := m.nextVar + maxVar c.raw }
      exact ⟨k + 1, pend, hk⟩

theorem nextRetract_iters (v : Variant) (m : State) (h : Nat) (pat : Term) (pi : PI)
    (rest : List Stored) (i d : Nat) :
    ∃ it, (nextRetract v m h pat pi rest i d).1.iters = m.iters.set h it := by
  fun_induction nextRetract v m h pat pi rest i d with
  | case1 st i d => exact ⟨_, rfl⟩
  | case2 st0 c rest i d raw st hu ih => exact ih
  | case3 st0 c rest i d raw st σ hu hg ih => exact ih
  | case4 st0 c rest i d raw st σ hu p hg j hj ih => exact ih
  | case5 st0 c rest i d raw st σ hu p hg j hj hsd => exact ⟨_, rfl⟩
  | case6 st0 c rest i d raw st σ hu p hg j hj cs hsd => exact ⟨_, rfl⟩

/-- no operation other than `next h` / `close h` touches iterator `h` -/
theorem step_frame (v : Variant) (m : State) (h : Nat) (hh : h < m.iters.length) (o : Op)
    (h1 : o ≠ .next h) (h2 : o ≠ .close h) : (step v m o).1.iters[h]? = m.iters[h]? := by
  cases o with
  | asserta c =>
    simp only [step, ofErr_fst]
    fun_cases assertMerge m c true <;> rfl
  | assertz c =>
    simp only [step, ofErr_fst]
    fun_cases assertMerge m c false <;> rfl
  | abolish pi =>
    simp only [step, ofErr_fst]
    fun_cases abolish m pi <;> rfl
  | openCall g =>
    simp only [step]
    fun_cases openCall m g
    · rfl
    · rfl
    · simp [pushIter, List.getElem?_append_left hh]
  | openRetract t =>
    simp only [step]
    fun_cases openRetract m t
    · rfl
    · simp [pushIter, List.getElem?_append_left hh]
    · rfl
    · simp [pushIter, List.getElem?_append_left hh]
    · rfl
  | next h' =>
    have hne : h' ≠ h := fun e => h1 (by rw [e])
    simp only [step]
    fun_cases next v m h' with
    | case1 g rest a more hit => simp [List.getElem?_set_ne hne]
    | case2 g rest hit =>
      obtain ⟨k, pend, hk⟩ := nextCall_iters m h' g rest
      rw [hk, List.getElem?_set_ne hne]
    | case3 pat pi rest i d hit =>
      obtain ⟨it, hk⟩ := nextRetract_iters v m h' pat pi rest i d
      rw [hk, List.getElem?_set_ne hne]
    | case4 hit => rfl
    | case5 hit => rfl
  | close h' =>
    have hne : h' ≠ h := fun e => h2 (by rw [e])
    simp only [step]
    fun_cases close m h'
    · simp [List.getElem?_set_ne hne]
    · rfl
  | listing pi => rfl

theorem step_iters_length (v : Variant) (m : State) (o : Op) : m.iters.length ≤ (step v m o).1.iters.length := by
  cases o with
  | asserta c =>
    simp only [step, ofErr_fst]
    fun_cases assertMerge m c true <;> exact Nat.le_refl _
  | assertz c =>
    simp only [step, ofErr_fst]
    fun_cases assertMerge m c false <;> exact Nat.le_refl _
  | abolish pi =>
    simp only [step, ofErr_fst]
    fun_cases abolish m pi <;> exact Nat.le_refl _
  | openCall g =>
    simp only [step]
    fun_cases openCall m g <;> simp [pushIter]
  | openRetract t =>
    simp only [step]
    fun_cases openRetract m t <;> simp [pushIter]
  | next h' =>
    simp only [step]
    fun_cases next v m h' with
    | case1 g rest a more hit => simp
    | case2 g rest hit =>
      obtain ⟨k, pend, hk⟩ := nextCall_iters m h' g rest
      simp [hk]
    | case3 pat pi rest i d hit =>
      obtain ⟨it, hk⟩ := nextRetract_iters v m h' pat pi rest i d
      simp [hk]
    | case4 hit => exact Nat.le_refl _
    | case5 hit => exact Nat.le_refl _
  | close h' =>
    simp only [step]
    fun_cases close m h' <;> simp
  | listing pi => exact Nat.le_refl _

/-! ### the specification machine never panics -/

theorem LUV_redoCall_ne_panic (s : LUV.State) (h : Nat) (g : Term) (alive : List Stored) :
    (LUV.redoCall s h g alive).2 ≠ .panic := by
  induction alive generalizing s with
  | nil => simp [LUV.redoCall]
  | cons c alive ih =>
    unfold LUV.redoCall
    dsimp only
    split
    · simp
    · exact ih _

theorem LUV_redoRetract_ne_panic (s : LUV.State) (h : Nat) (pat : Term) (pi : PI) (alive : List Stored) :
    (LUV.redoRetract s h pat pi alive).2 ≠ .panic := by
  induction alive generalizing s with
  | nil => simp [LUV.redoRetract]
  | cons c alive ih =>
    unfold LUV.redoRetract
    dsimp only
    split
    · split
      · simp
      · exact ih _
    · exact ih _

theorem LUV_step_ne_panic (s : LUV.State) (o : Op) : (LUV.step s o).2 ≠ .panic := by
  cases o with
  | asserta c => simp only [LUV.step]; fun_cases LUV.insert s c true <;> simp
  | assertz c => simp only [LUV.step]; fun_cases LUV.insert s c false <;> simp
  | abolish pi => simp only [LUV.step]; fun_cases LUV.abolish s pi <;> simp
  | openCall g => simp only [LUV.step]; fun_cases LUV.startCall s g <;> simp [LUV.opened]
  | openRetract t => simp only [LUV.step]; fun_cases LUV.startRetract s t <;> simp [LUV.opened]
  | next h =>
    simp only [LUV.step]
    split
    · simp
    · exact LUV_redoCall_ne_panic _ _ _ _
    · exact LUV_redoRetract_ne_panic _ _ _ _ _
    · simp
    · simp
  | close h => simp only [LUV.step]; split <;> simp
  | listing pi => simp only [LUV.step]; split <;> simp

theorem LUV_run_no_panic (s : LUV.State) (os : List Op) : Out.panic ∉ (LUV.run s os).2 := by
  induction os generalizing s with
  | nil => simp [LUV.run]
  | cons o os ih =>
    unfold LUV.run
    simp only [List.mem_cons, not_or]
    exact ⟨fun e => LUV_step_ne_panic s o e.symm, ih _⟩

end PrologVerif.DB
