/-
  vm_well_scoped — THE VM IS WELL-SCOPED: the generic reference search (Spec/DFSG.lean `dfsP`) over
  the promises of the VM (Model/VM.lean, `VM.sem fuel`) never signals `illScoped`: every cut parent
  that `exec`'s `.cut` emits is the id of the clause-call promise of the activation the code belongs
  to (`clausesCall`), that promise (or the marker an earlier cut of the same activation put in its
  place — same id) is live when the cut is performed, and ids (drawn from `St.nextId`) are never
  reused on a path.  Hence the hypothesis `sig ≠ illScoped` of `force_dfsG` is discharged for every
  program, every query and every nested trampoline (`\+`, `findall/3`) — catch/3, call/N, assert
  included; no restriction on the program.

  STATEMENTS in this header section (definitions of the invariant: Proofs/VMScopedDefs.lean); the
  proofs follow.
-/
import PrologVerif.Proofs.VMScopedStep
import PrologVerif.Proofs.ForceDFSGInst
namespace PrologVerif.VMScoped
open PrologVerif PrologVerif.VM PrologVerif.Promise PrologVerif.DFSG

/-- a well-scoped configuration of the search: the promise `p` about to be searched on top of the
    identified frames `live`, in state `m` -/
structure ConfOK (live : List Nat) (p : Pr) (m : MS) : Prop where
  pr : PrOK live p                              -- cut parents live, continuations ordered like the stack
  fresh : p.id = 0 ∨ p.id ∉ live               -- the id of p is not in use
  bound : ∀ x ∈ live, x < m.user.nextId         -- ids in use have been drawn from `nextId`
  idb : p.id < m.user.nextId
  pos : 0 < m.user.nextId                       -- `nextId` never hands out the dummy id 0

/-- **Statement A** (the invariant is inductive along the search): from a well-scoped configuration
    the search of the VM's promises never leaves the domain of the specification -/
def VmWellScopedStatement : Prop :=
  ∀ (fuel tf k : Nat) (p : Pr) (live : List Nat) (m m' : MS) (sig : SigG Err),
    ConfOK live p m → dfsP (VM.sem fuel) tf k p live m = some (sig, m') → sig ≠ .illScoped

/-- **Statement B** (`vm_run_well_scoped`): running any query from `bootState` + any asserted program
    (this is the promise and the state `runQuery` forces) never yields `illScoped` -/
def VmRunWellScopedStatement : Prop :=
  ∀ (fuel tf k : Nat) (prog : List Term) (query : Term) (max : Nat) (cancelAt : Option Nat)
    (m' : MS) (sig : SigG Err),
    dfsP (VM.sem fuel) tf k (queryPromise prog query max cancelAt).1 []
      (queryPromise prog query max cancelAt).2 = some (sig, m') → sig ≠ .illScoped

/-- **Statement C**: the same for the nested trampolines: the promise `\+` / `findall/3` force on an
    empty stack (`callGoal goal k env m` with `k = .done` / `.findallK tmpl slot`), in any state
    whose `nextId` is positive -/
def VmNestedWellScopedStatement : Prop :=
  ∀ (fuel tf k : Nat) (goal : Term) (kont : Cont) (env : Env) (m m' : MS) (sig : SigG Err),
    ContOK [] kont → 0 < m.user.nextId →
    dfsP (VM.sem fuel) tf k (callGoal goal kont env m).1 [] (callGoal goal kont env m).2 = some (sig, m') →
    sig ≠ .illScoped

/-- how `runQuery` reports the outcome of the trampoline -/
def endOf : Promise.Res Err → End
  | .yes => .more
  | .no => .exhausted
  | .cancelled => .cancelled
  | .error (.exc (.app "error" (.cons f (.cons _ .nil)))) => .err f
  | .error (.exc t) => .ball t
  | .error (.goErr msg) => .goErr msg

/-- **Statement D** (`force_dfsG` for whole programs, hypothesis-free): whenever the reference search
    of a query terminates, `runQuery` (the trampoline, without cancellation) with enough fuel
    returns what the reference search found: the same answers, the same outcome -/
def VmRunQueryDfsStatement : Prop :=
  ∀ (fuel k : Nat) (prog : List Term) (query : Term) (max : Nat) (m' : MS) (sig : SigG Err),
    dfsP (VM.sem fuel) 0 k (queryPromise prog query max none).1 []
      (queryPromise prog query max none).2 = some (sig, m') →
    ∃ cost, cost < fuel →
      runQuery fuel prog query max = some (m'.user.answers.reverse, endOf (ForceDFSG.toRes sig))

/-! ## Proofs -/

theorem ConfOK.mono {live : List Nat} {p : Pr} {m m2 : MS} (h : ConfOK live p m)
    (hle : m.user.nextId ≤ m2.user.nextId) : ConfOK live p m2 :=
  ⟨h.pr, h.fresh, fun x hx => Nat.lt_of_lt_of_le (h.bound x hx) hle, Nat.lt_of_lt_of_le h.idb hle,
    Nat.lt_of_lt_of_le h.pos hle⟩

theorem afterChild_id (p : Pr) : (afterChild { p with cutParent := none }).id = p.id := by
  unfold afterChild; split <;> rfl

theorem afterChild_cutParent (p : Pr) : (afterChild { p with cutParent := none }).cutParent = none := by
  unfold afterChild; split <;> rfl

theorem afterChild_recover (p : Pr) : (afterChild { p with cutParent := none }).recover = p.recover := by
  unfold afterChild; split <;> rfl

theorem afterChild_delayed (p : Pr) : ∀ t ∈ (afterChild { p with cutParent := none }).delayed, t ∈ p.delayed := by
  intro t ht
  unfold afterChild at ht
  split at ht
  · exact ht
  · exact List.mem_of_mem_tail ht

/-- the frame a promise leaves on the stack (its cut performed) is well-scoped on what the cut leaves -/
theorem PrOK_afterChild {live : List Nat} {p : Pr} (h : PrOK live p) :
    PrOK (cutLive p.cutParent live) (afterChild { p with cutParent := none }) := by
  obtain ⟨_, h2, h3⟩ := h
  refine ⟨?_, ?_, ?_⟩
  · intro c hc; rw [afterChild_cutParent] at hc; cases hc
  · intro t ht
    rw [afterChild_cutParent, afterChild_id]
    exact h2 t (afterChild_delayed p t ht)
  · intro hd hr
    rw [afterChild_cutParent]
    rw [afterChild_recover] at hr
    exact h3 hd hr

theorem absorb_ne_illScoped {id : Nat} {r : SigG Err} {m : MS} (h : r ≠ .illScoped) :
    (absorb id r m).1 ≠ .illScoped := by
  cases r with
  | found => simp [absorb]
  | illScoped => exact absurd rfl h
  | exhausted co => cases co with
    | none => simp [absorb]
    | some c => simp only [absorb]; split <;> simp
  | raised e co => cases co with
    | none => simp [absorb]
    | some c => simp only [absorb]; split <;> simp

theorem absorb_nextId (id : Nat) (r : SigG Err) (m : MS) : (absorb id r m).2.user.nextId = m.user.nextId := by
  cases r with
  | found => rfl
  | illScoped => rfl
  | exhausted co => cases co with
    | none => rfl
    | some c => simp only [absorb]; split <;> rfl
  | raised e co => cases co with
    | none => rfl
    | some c => simp only [absorb]; split <;> rfl

theorem afterCut_ne_illScoped {c : Nat} {r : SigG Err} (h : r ≠ .illScoped) : afterCut c r ≠ .illScoped := by
  cases r with
  | found => simp [afterCut]
  | illScoped => exact absurd rfl h
  | exhausted co => cases co <;> simp [afterCut]
  | raised e co => cases co <;> simp [afterCut]

/-- the search below a promise, at search fuel `k` -/
def WSP (fuel tf k : Nat) : Prop :=
  ∀ (p : Pr) (live : List Nat) (m m' : MS) (sig : SigG Err),
    dfsP (VM.sem fuel) tf k p live m = some (sig, m') → ConfOK live p m →
    sig ≠ .illScoped ∧ m.user.nextId ≤ m'.user.nextId

/-- the alternatives of a frame -/
def WSA (fuel tf k : Nat) : Prop :=
  ∀ (t : Thunk) (f : Pr) (live : List Nat) (m m' : MS) (sig : SigG Err),
    dfsAlts (VM.sem fuel) tf k t f live m = some (sig, m') →
    ThunkOK f.id live t → ConfOK live f m → f.cutParent = none →
    sig ≠ .illScoped ∧ m.user.nextId ≤ m'.user.nextId

theorem wsP_succ (fuel tf k : Nat) (ihA : WSA fuel tf k) : WSP fuel tf (k + 1) := by
  intro p live m m' sig h conf
  simp only [dfsP] at h
  split at h
  · -- a leaf
    split at h
    · simp only [Option.some.injEq, Prod.mk.injEq] at h; obtain ⟨rfl, rfl⟩ := h
      exact ⟨by simp, Nat.le_refl _⟩
    · simp only [Option.some.injEq, Prod.mk.injEq] at h; obtain ⟨rfl, rfl⟩ := h
      exact ⟨by split <;> simp, Nat.le_refl _⟩
  · rename_i t ts hd
    have htm : t ∈ p.delayed := by rw [hd]; exact List.mem_cons_self ..
    split at h
    · -- the id of the promise is in use: impossible, ids are fresh
      rename_i hid
      rcases conf.fresh with h0 | h0
      · exact absurd h0 hid.1
      · exact absurd (by simpa using hid.2) h0
    · have hf := PrOK_afterChild conf.pr
      have hT := conf.pr.2.1 t htm
      split at h
      · -- no cut
        rename_i hcp
        rw [hcp] at hf hT
        refine ihA t _ live (tick m) m' sig h (by rw [afterChild_id]; exact hT) ?_ (afterChild_cutParent p)
        exact ⟨hf, by rw [afterChild_id]; exact conf.fresh, conf.bound, by rw [afterChild_id]; exact conf.idb,
          conf.pos⟩
      · rename_i c hcp
        rw [hcp] at hf hT
        have hsub : ∀ x, x ∈ live.dropWhile (· ≠ c) → x ∈ live := fun x hx => (List.dropWhile_sublist _).subset hx
        split at h
        · split at h
          · cases h
          · rename_i r m2 h1
            simp only [Option.some.injEq, Prod.mk.injEq] at h; obtain ⟨rfl, rfl⟩ := h
            have := ihA t _ _ _ m2 r h1 (by rw [afterChild_id]; exact hT) ?_ (afterChild_cutParent p)
            · exact ⟨afterCut_ne_illScoped this.1, this.2⟩
            · refine ⟨hf, ?_, fun x hx => conf.bound x (hsub x hx), by rw [afterChild_id]; exact conf.idb, conf.pos⟩
              rw [afterChild_id]
              rcases conf.fresh with h0 | h0
              · exact Or.inl h0
              · exact Or.inr (fun hm => h0 (hsub _ hm))
        · -- the cut parent is not live: impossible
          rename_i hc
          exact absurd (by simpa using conf.pr.1 c hcp) hc

theorem wsA_succ (fuel tf k : Nat) (ihP : WSP fuel tf k) : WSA fuel tf (k + 1) := by
  intro t f live m m' sig h hT conf hfc
  simp only [dfsAlts] at h
  split at h
  · cases h
  · rename_i q m1 hev
    have hev' : VM.evalThunk fuel t m = some (q, m1) := hev
    obtain ⟨hq, hidq⟩ := (stepOK fuel).evalThunk f.id live t m hT conf.pos q m1 hev'
    have hm1 : m.user.nextId ≤ m1.user.nextId := (stepMono fuel).evalThunk t m q m1 hev'
    have hpb : ∀ x ∈ push f.id live, x < m.user.nextId := by
      intro x hx
      unfold push at hx
      split at hx
      · exact conf.bound x hx
      · rcases List.mem_cons.1 hx with rfl | hx
        · exact conf.idb
        · exact conf.bound x hx
    have confq : ConfOK (push f.id live) q m1 := by
      refine ⟨hq, ?_, fun x hx => Nat.lt_of_lt_of_le (hpb x hx) hm1, ?_, Nat.lt_of_lt_of_le conf.pos hm1⟩
      · rcases hidq with h0 | ⟨h1, _⟩
        · exact Or.inl h0
        · exact Or.inr (fun hm => absurd (hpb _ hm) (by omega))
      · rcases hidq with h0 | ⟨_, h2⟩
        · rw [h0]; exact Nat.lt_of_lt_of_le conf.pos hm1
        · exact h2
    split at h
    · cases h
    · -- the first alternative is exhausted: back to the frame
      rename_i m2 h1
      have r1 := ihP q _ m1 m2 _ h1 confq
      have r2 := ihP f live m2 m' sig h (conf.mono (Nat.le_trans hm1 r1.2))
      exact ⟨r2.1, Nat.le_trans hm1 (Nat.le_trans r1.2 r2.2)⟩
    · -- an error that still looks for a handler
      rename_i e m2 h1
      have r1 := ihP q _ m1 m2 _ h1 confq
      have hm2 : m.user.nextId ≤ m2.user.nextId := Nat.le_trans hm1 r1.2
      split at h
      · simp only [Option.some.injEq, Prod.mk.injEq] at h; obtain ⟨rfl, rfl⟩ := h
        exact ⟨by simp, hm2⟩
      · rename_i hd hr
        have hk : ContOK live hd.k := by
          have := conf.pr.2.2 hd hr
          rwa [hfc] at this
        have hrm := evalRecover_mono hd e m2
        split at h
        · rename_i m3 hrec
          simp only [Option.some.injEq, Prod.mk.injEq] at h; obtain ⟨rfl, rfl⟩ := h
          have hrec' : VM.evalRecover hd e m2 = (none, m3) := hrec
          rw [hrec'] at hrm
          exact ⟨by simp, Nat.le_trans hm2 hrm⟩
        · rename_i q' m3 hrec
          have hrec' : VM.evalRecover hd e m2 = (some q', m3) := hrec
          have hok := evalRecover_ok hd e m2 hk (Nat.lt_of_lt_of_le conf.pos hm2) q' (by rw [hrec'])
          rw [hrec'] at hrm hok
          simp only at hrm hok
          have confq' : ConfOK live q' m3 := by
            refine ⟨hok.1, ?_, fun x hx => Nat.lt_of_lt_of_le (conf.bound x hx) (Nat.le_trans hm2 hrm), ?_,
              Nat.lt_of_lt_of_le conf.pos (Nat.le_trans hm2 hrm)⟩
            · rcases hok.2 with h0 | ⟨h1, _⟩
              · exact Or.inl h0
              · exact Or.inr (fun hm => absurd (conf.bound _ hm) (by omega))
            · rcases hok.2 with h0 | ⟨_, h2⟩
              · rw [h0]; exact Nat.lt_of_lt_of_le conf.pos (Nat.le_trans hm2 hrm)
              · exact h2
          have r2 := ihP q' live m3 m' sig h confq'
          exact ⟨r2.1, Nat.le_trans hm2 (Nat.le_trans hrm r2.2)⟩
    · rename_i r m2 hr1 hr2 h1
      have r1 := ihP q _ m1 m2 r h1 confq
      simp only [Option.some.injEq] at h
      have hs : sig = (absorb f.id r m2).1 := by rw [h]
      have hm : m' = (absorb f.id r m2).2 := by rw [h]
      subst hs hm
      exact ⟨absorb_ne_illScoped r1.1, by rw [absorb_nextId]; exact Nat.le_trans hm1 r1.2⟩

theorem ws_both (fuel tf : Nat) : ∀ k : Nat, WSP fuel tf k ∧ WSA fuel tf k
  | 0 => ⟨fun _ _ _ _ _ h => by simp [dfsP] at h, fun _ _ _ _ _ _ h => by simp [dfsAlts] at h⟩
  | k + 1 => ⟨wsP_succ fuel tf k (ws_both fuel tf k).2, wsA_succ fuel tf k (ws_both fuel tf k).1⟩

/-- **vm_well_scoped** (Statement A) -/
theorem vm_well_scoped : VmWellScopedStatement :=
  fun fuel tf k p live m m' sig conf h => ((ws_both fuel tf k).1 p live m m' sig h conf).1

/-! ### the initial configurations -/

theorem setProc_nextId (s : St) (f : String) (n : Nat) (p : Proc) : (setProc s f n p).nextId = s.nextId := rfl

theorem loadClauses_nextId : ∀ (ts : List Term) (s : St), (loadClauses s ts).nextId = s.nextId
  | [], _ => rfl
  | t :: ts, s => by
    unfold loadClauses
    rw [List.foldl_cons]
    have ih := loadClauses_nextId ts
    unfold loadClauses at ih
    rw [ih]
    split
    · rfl
    · split
      · exact setProc_nextId _ _ _ _
      · rfl

theorem bootState_nextId : bootState.nextId = 1 := by
  unfold bootState
  exact loadClauses_nextId Generated.bootstrapTerms {}

theorem assertStep_nextId (s : St) (c : Term) : (assertStep s c).nextId = s.nextId := by
  unfold assertStep
  split
  · exact setProc_nextId _ _ _ _
  · rfl

theorem assertProg_nextId : ∀ (prog : List Term) (s : St), (prog.foldl assertStep s).nextId = s.nextId
  | [], _ => rfl
  | c :: prog, s => by rw [List.foldl_cons, assertProg_nextId prog, assertStep_nextId]

theorem initState_nextId (prog : List Term) (cancelAt : Option Nat) : (initState prog cancelAt).nextId = 1 := by
  unfold initState
  rw [assertProg_nextId]
  simp only []
  have h1 := loadClauses_nextId [] bootState
  rw [bootState_nextId] at h1
  exact h1

/-- the promise of a goal called on an empty stack, with a continuation that mentions no activation -/
theorem confOK_callGoal (goal : Term) (kont : Cont) (env : Env) (m : MS) (hk : ContOK [] kont)
    (h0 : 0 < m.user.nextId) : ConfOK [] (callGoal goal kont env m).1 (callGoal goal kont env m).2 := by
  obtain ⟨hp, hid⟩ := callGoal_ok (L := []) goal kont env m hk h0
  have hm := callGoal_mono goal kont env m
  refine ⟨hp, Or.inr (by simp), by simp, ?_, Nat.lt_of_lt_of_le h0 hm⟩
  rcases hid with h | ⟨_, h⟩
  · rw [h]; exact Nat.lt_of_lt_of_le h0 hm
  · exact h

/-- **vm_nested_well_scoped** (Statement C) -/
theorem vm_nested_well_scoped : VmNestedWellScopedStatement :=
  fun fuel tf k goal kont env m m' sig hk h0 h =>
    vm_well_scoped fuel tf k _ [] _ m' sig (confOK_callGoal goal kont env m hk h0) h

theorem confOK_query (prog : List Term) (query : Term) (max : Nat) (cancelAt : Option Nat) :
    ConfOK [] (queryPromise prog query max cancelAt).1 (queryPromise prog query max cancelAt).2 :=
  confOK_callGoal query (.collect query max) [] _ trivial
    (by show 0 < (initState prog cancelAt).nextId; rw [initState_nextId]; exact Nat.one_pos)

/-- **vm_run_well_scoped** (Statement B) -/
theorem vm_run_well_scoped : VmRunWellScopedStatement :=
  fun fuel tf k prog query max cancelAt m' sig h =>
    vm_well_scoped fuel tf k _ [] _ m' sig (confOK_query prog query max cancelAt) h

/-! ### `force_dfsG` for the VM, without the well-scopedness hypothesis -/

/-- from a well-scoped configuration the trampoline of the VM does what the reference search does -/
theorem vm_force_dfs (fuel tf k : Nat) (p : Pr) (live : List Nat) (m m' : MS) (sig : SigG Err)
    (conf : ConfOK live p m) (h : dfsP (VM.sem fuel) tf k p live m = some (sig, m'))
    (stack : List Pr) (hlive : ForceDFSG.ids stack = live) (hnd : live.Nodup) :
    ∃ cost, ∀ n, tf ≤ n →
      force (VM.sem fuel) none (n + cost) (p :: stack) m = ForceDFSG.after (VM.sem fuel) sig stack m' n :=
  ForceDFSG.force_dfsG (VM.sem fuel) (ForceDFSG.semMono_VM fuel) tf k p live m m' sig h
    (vm_well_scoped fuel tf k p live m m' sig conf h) stack hlive hnd

theorem runQuery_eq (fuel : Nat) (prog : List Term) (query : Term) (max : Nat) (cancelAt : Option Nat) :
    runQuery fuel prog query max cancelAt =
      match force (VM.sem fuel) cancelAt fuel [(queryPromise prog query max cancelAt).1]
          (queryPromise prog query max cancelAt).2 with
      | none => none
      | some (r, m') => some (m'.user.answers.reverse, endOf r) := rfl

/-- **vm_runQuery_dfs** (Statement D) -/
theorem vm_runQuery_dfs : VmRunQueryDfsStatement := by
  intro fuel k prog query max m' sig h
  have hsig := vm_run_well_scoped fuel 0 k prog query max none m' sig h
  obtain ⟨cost, hf⟩ := ForceDFSG.force_dfsG_root (VM.sem fuel) (ForceDFSG.semMono_VM fuel) 0 k _ _ m' sig h hsig
  refine ⟨cost, fun hlt => ?_⟩
  have := hf (fuel - cost) (Nat.zero_le _) (by omega)
  rw [show fuel - cost + cost = fuel by omega] at this
  rw [runQuery_eq, this]

end PrologVerif.VMScoped
