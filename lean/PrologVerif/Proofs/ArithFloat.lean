/-
  Proofs/ArithFloat — the guard logic of the float kernels, for EVERY instance of `FloatOps`:
  float→integer functions are exact or int_overflow; * and / return the IEEE result, float_overflow
  iff it is infinite, underflow iff a non-zero exact result rounded to zero; no NaN and no infinity is
  returned as a value.  The IEEE/Go facts used are the fields of `FloatLaws` (assumptions).
-/
import PrologVerif.Proofs.Arith
namespace PrologVerif.ArithProofs
open PrologVerif.Arith PrologVerif.Generated.Arith
open PrologVerif.Spec.ExactArith (Outcome inRange checked)

variable {F : Type} [FloatOps F]

def Finite (x : F) : Prop := FloatOps.isInf x = false ∧ FloatOps.isNaN x = false

/-- The IEEE-754 / Go facts the float theorems rest on (ASSUMPTIONS about `FloatOps`, listed in the
    trusted base; the hardware instance of the driver is checked against Go on the boundary grid).
    `intVal r` is the integer an integral float denotes. -/
structure FloatLaws (F : Type) [FloatOps F] where
  /-- finite, integer-valued -/
  Integral : F → Prop
  intVal : F → Int
  floor_integral : ∀ x : F, Finite x → Integral (FloatOps.floor x)
  trunc_integral : ∀ x : F, Finite x → Integral (FloatOps.trunc x)
  round_integral : ∀ x : F, Finite x → Integral (FloatOps.round x)
  ceil_integral : ∀ x : F, Finite x → Integral (FloatOps.ceil x)
  /-- float64(maxInt) is 2^63 and the comparison of floats is exact -/
  ge_maxInt : ∀ r : F, Integral r → (fge r (FloatOps.ofInt 9223372036854775807) ↔ 9223372036854775808 ≤ intVal r)
  /-- float64(minInt) is -2^63 -/
  lt_minInt : ∀ r : F, Integral r → (flt r (FloatOps.ofInt (-9223372036854775808)) ↔ intVal r < -9223372036854775808)
  /-- Go's conversion is exact on integral values in range -/
  toInt_exact : ∀ r : F, Integral r → InRange (intVal r) → (FloatOps.toInt r).val = intVal r
  /-- finite operands never give NaN for + - *, nor for / with a non-zero divisor -/
  add_not_nan : ∀ x y : F, Finite x → Finite y → FloatOps.isNaN (FloatOps.add x y) = false
  mul_not_nan : ∀ x y : F, Finite x → Finite y → FloatOps.isNaN (FloatOps.mul x y) = false
  div_not_nan : ∀ x y : F, Finite x → Finite y → ¬ feq y (FloatOps.ofInt 0) → FloatOps.isNaN (FloatOps.div x y) = false
  neg_finite : ∀ x : F, Finite x → Finite (FloatOps.neg x)
  ofInt_finite : ∀ n : Int, InRange n → Finite (FloatOps.ofInt n : F)

/-! ### float → integer: exact or int_overflow -/

theorem ftoi_exact (L : FloatLaws F) (r : F) (hr : L.Integral r) :
    outcome (if (fge r (FloatOps.ofInt I64.maxInt.val : F)) ∨ (flt r (FloatOps.ofInt I64.minInt.val : F)) then
        (.error (Err.ev .intOverflow)) else (.ok (FloatOps.toInt r))) = some (checked (L.intVal r)) := by
  rw [I64.val_maxInt, I64.val_minInt]
  have h1 := L.ge_maxInt r hr
  have h2 := L.lt_minInt r hr
  by_cases h : inRange (L.intVal r)
  · rw [checked_pos h]
    have h' := h; rw [inRange_iff] at h'
    rw [if_neg (by rw [h1, h2]; omega)]
    simp only [outcome]
    rw [L.toInt_exact r hr h]
  · rw [checked_neg h]
    rw [inRange_iff] at h
    rw [if_pos (by rw [h1, h2]; omega)]
    rfl

/-- `floor`: the integer ⌊x⌋ exactly when it is representable, int_overflow otherwise (D6: 2^63.0 included) -/
theorem floorFtoI_exact (L : FloatLaws F) (x : F) (hx : Finite x) :
    outcome (floorFtoI x) = some (checked (L.intVal (FloatOps.floor x))) :=
  ftoi_exact L _ (L.floor_integral x hx)

theorem truncateFtoI_exact (L : FloatLaws F) (x : F) (hx : Finite x) :
    outcome (truncateFtoI x) = some (checked (L.intVal (FloatOps.trunc x))) :=
  ftoi_exact L _ (L.trunc_integral x hx)

theorem roundFtoI_exact (L : FloatLaws F) (x : F) (hx : Finite x) :
    outcome (roundFtoI x) = some (checked (L.intVal (FloatOps.round x))) :=
  ftoi_exact L _ (L.round_integral x hx)

theorem ceilingFtoI_exact (L : FloatLaws F) (x : F) (hx : Finite x) :
    outcome (ceilingFtoI x) = some (checked (L.intVal (FloatOps.ceil x))) :=
  ftoi_exact L _ (L.ceil_integral x hx)

/-! ### * and /: the IEEE result, float_overflow iff it is infinite, underflow iff a non-zero
    exact result rounded to zero -/

/-- what the property demands of a float operation whose IEEE result is `r` -/
def ieeeResult (r : F) (underflowed : Prop) [Decidable underflowed] : Except Err F :=
  if FloatOps.isInf r = true then .error (.ev .floatOverflow)
  else if underflowed then .error (.ev .underflow)
  else .ok r

theorem mulF_spec (x y : F) :
    mulF x y = ieeeResult (FloatOps.mul x y)
      ((feq (FloatOps.mul x y) (FloatOps.ofInt 0) ∧ fne x (FloatOps.ofInt 0)) ∧ fne y (FloatOps.ofInt 0)) := by
  unfold mulF ieeeResult; rfl

theorem divF_spec (x y : F) :
    divF x y = if feq y (FloatOps.ofInt 0) then .error (.ev .zeroDivisor) else
      ieeeResult (FloatOps.div x y) (feq (FloatOps.div x y) (FloatOps.ofInt 0) ∧ fne x (FloatOps.ofInt 0)) := by
  unfold divF ieeeResult; rfl

/-- `+`: a returned value is the IEEE sum and is not infinite; an infinite sum is always reported;
    float_overflow is the only error.  (Not: "only when infinite" — D22, test-pinned.) -/
theorem addF_partial (x y : F) :
    (∀ r, addF x y = .ok r → r = FloatOps.add x y ∧ FloatOps.isInf r = false) ∧
    (FloatOps.isInf (FloatOps.add x y) = true → addF x y = .error (.ev .floatOverflow)) ∧
    (∀ e, addF x y = .error e → e = .ev .floatOverflow) := by
  unfold addF
  simp only []
  refine ⟨?_, ?_, ?_⟩
  · intro r h
    split at h
    · simp at h
    split at h
    · simp at h
    split at h
    · simp at h
    · rename_i hi; injection h with h; subst h; exact ⟨rfl, by simpa using hi⟩
  · intro hinf
    split
    · rfl
    split
    · rfl
    first | rfl | rw [if_pos hinf]
  · intro e h
    split at h
    · injection h with h; exact h.symm
    split at h
    · injection h with h; exact h.symm
    split at h
    · injection h with h; exact h.symm
    · simp at h

/-- the full-strength statement for `+` (open: false on the pinned code, see D22) -/
def addF_spec_statement (F : Type) [FloatOps F] : Prop :=
  ∀ x y : F, addF x y = ieeeResult (FloatOps.add x y) False

/-! ### no NaN, no infinity as a value -/

theorem addF_finite (L : FloatLaws F) (x y r : F) (hx : Finite x) (hy : Finite y) (h : addF x y = .ok r) :
    Finite r := by
  obtain ⟨h1, h2⟩ := (addF_partial x y).1 r h
  exact ⟨h2, by rw [h1]; exact L.add_not_nan x y hx hy⟩

theorem subF_finite (L : FloatLaws F) (x y r : F) (hx : Finite x) (hy : Finite y) (h : subF x y = .ok r) :
    Finite r :=
  addF_finite L x _ r hx (L.neg_finite y hy) h

theorem mulF_finite (L : FloatLaws F) (x y r : F) (hx : Finite x) (hy : Finite y) (h : mulF x y = .ok r) :
    Finite r := by
  rw [mulF_spec] at h
  unfold ieeeResult at h
  split at h
  · simp at h
  rename_i hi
  split at h
  · simp at h
  injection h with h; subst h
  exact ⟨by simpa using hi, L.mul_not_nan x y hx hy⟩

theorem divF_finite (L : FloatLaws F) (x y r : F) (hx : Finite x) (hy : Finite y) (h : divF x y = .ok r) :
    Finite r := by
  rw [divF_spec] at h
  split at h
  · simp at h
  rename_i hy0
  unfold ieeeResult at h
  split at h
  · simp at h
  rename_i hi
  split at h
  · simp at h
  injection h with h; subst h
  exact ⟨by simpa using hi, L.div_not_nan x y hx hy hy0⟩

end PrologVerif.ArithProofs
