/-
  Model of engine/env.go `Resolve`, `unify`, `contains` over abstract terms.

  The environment is the *map* view of the persistent red-black tree (Model/Env.lean proves
  that the tree refines it): an association list, newest binding first.

  Unbounded Go recursion takes fuel: `none` = the run did not finish within the fuel.  Go's
  `Resolve` additionally carries a stop list that only matters for pure variable cycles
  (X ↦ Y ↦ X), which no sequence of `unify` calls can create (`unify` binds only unbound
  variables to resolved terms); on such an environment this model runs out of fuel instead.
-/
import PrologVerif.Basic
namespace PrologVerif

abbrev Env := List (Nat × Term)

def Env.lookup : Env → Nat → Option Term
  | [], _ => none
  | (w, t) :: e, v => if w = v then some t else Env.lookup e v

def Env.bind (e : Env) (v : Nat) (t : Term) : Env := (v, t) :: e

/-- `Env.Resolve`: follow the variable chain -/
def resolve : Nat → Env → Term → Option Term
  | fuel, e, .var v =>
    match fuel with
    | 0 => none
    | n + 1 =>
      match e.lookup v with
      | none => some (.var v)
      | some t => resolve n e t
  | _, _, t => some t

mutual
  /-- `contains(t, s, env)` with `s` a variable -/
  def contains : Nat → Env → Term → Nat → Option Bool
    | 0, _, _, _ => none
    | n + 1, e, .var w, s =>
      if w = s then some true
      else match e.lookup w with
        | none => some false
        | some t => contains n e t s
    | n + 1, e, .app _ as, s => containsArgs n e as s
    | _ + 1, _, _, _ => some false
  def containsArgs : Nat → Env → Args → Nat → Option Bool
    | 0, _, _, _ => none
    | _ + 1, _, .nil, _ => some false
    | n + 1, e, .cons t ts, s =>
      match contains n e t s with
      | none => none
      | some true => some true
      | some false => containsArgs n e ts s
end

/-- outcome of a unification attempt; Go's boolean is `res = ok`.  `occurs` can only be produced
    with the occurs check switched on. -/
inductive Res | ok | clash | occurs
  deriving DecidableEq, Repr

mutual
  /-- `Env.unify(x, y, occursCheck)`; on failure the (partially extended) environment reached so
      far is returned, exactly as the Go code does -/
  def unify : Nat → Bool → Env → Term → Term → Option (Env × Res)
    | 0, _, _, _, _ => none
    | n + 1, oc, e, x, y =>
      match resolve n e x, resolve n e y with
      | some x', some y' =>
        -- Go: switch on the type of x, then of y.  Flattened (same decision table):
        --   x variable                     → bind (or occurs / identical)
        --   y variable (x is not)          → unify(y, x)
        --   both compound                  → functor, arity, arguments left to right
        --   otherwise (atomic involved)    → x == y
        match x', y' with
        | .var v, _ =>
          if y' = .var v then some (e, .ok)
          else if oc then
            match contains n e y' v with
            | none => none
            | some true => some (e, .occurs)
            | some false => some (e.bind v y', .ok)
          else some (e.bind v y', .ok)
        | _, .var _ => unify n oc e y' x'
        | .app f as, .app g bs =>
          if f ≠ g then some (e, .clash)
          else if as.length ≠ bs.length then some (e, .clash)
          else unifyArgs n oc e as bs
        | a, b => some (e, if a = b then .ok else .clash)
      | _, _ => none
  def unifyArgs : Nat → Bool → Env → Args → Args → Option (Env × Res)
    | 0, _, _, _, _ => none
    | _ + 1, _, e, .nil, .nil => some (e, .ok)
    | _ + 1, _, e, .nil, .cons _ _ => some (e, .clash)   -- unreachable: `unify` compares arities first
    | _ + 1, _, e, .cons _ _, .nil => some (e, .clash)   -- unreachable
    | n + 1, oc, e, .cons a as, .cons b bs =>
      match unify n oc e a b with
      | none => none
      | some (e', .ok) => unifyArgs n oc e' as bs
      | some (e', r) => some (e', r)
end

mutual
  /-- apply the bindings everywhere (`simplify` on abstract terms); fuel as above -/
  def applyAll : Nat → Env → Term → Option Term
    | 0, _, _ => none
    | n + 1, e, t =>
      match resolve n e t with
      | none => none
      | some (.app f as) => (applyAllArgs n e as).map (.app f)
      | some t' => some t'
  def applyAllArgs : Nat → Env → Args → Option Args
    | 0, _, _ => none
    | _ + 1, _, .nil => some .nil
    | n + 1, e, .cons t ts =>
      match applyAll n e t, applyAllArgs n e ts with
      | some t', some ts' => some (.cons t' ts')
      | _, _ => none
end

end PrologVerif
