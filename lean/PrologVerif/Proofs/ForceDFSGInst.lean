/-
  force_dfsG, the instances.

  * `SemMono` (the only hypothesis of `force_dfsG` on the semantics record) holds for the pure
    promise trees (`PTree.sem`) and for the VM (`VM.sem fuel`): both ignore the fuel argument that
    the trampoline passes down (`VM.sem fuel` runs its thunks with its own `fuel`).
  * The old theorem is a corollary: the recursive search `DFS.dfs` over static promise trees agrees
    with the generic search `DFSG.dfsP` over the promises `PTree.evalThunk` allocates
    (`dfs_dfsP`), hence `force_dfs_from_G : ForceDFS.ForceDfsStatement` follows from `force_dfsG`.
  * Non-vacuity examples.
-/
import PrologVerif.Proofs.ForceDFS
import PrologVerif.Proofs.ForceDFSG
import PrologVerif.Model.VM
namespace PrologVerif.ForceDFSG
open PrologVerif.Promise PrologVerif.DFSG

/-! ### `SemMono` for the two instances -/

theorem semMono_PTree : SemMono PTree.sem := fun _ _ _ _ h => h

theorem semMono_VM (fuel : Nat) : SemMono (VM.sem fuel) := fun _ _ _ _ h => h

theorem evalThunk_iter (t : PTree.PT) (m : M PTree.St) : (PTree.evalThunk t m).2.iter = m.iter := by
  fun_induction PTree.evalThunk t m <;> simp_all

theorem iterPure_PTree : IterPure PTree.sem where
  thunk := by
    intro n t m q m' h
    simp only [PTree.sem, Option.some.injEq] at h
    rw [← evalThunk_iter t m, h]
  recover := by
    intro r e m
    simp only [PTree.sem, PTree.evalRecover]
    split
    · split
      · exact evalThunk_iter _ _
      · rfl
    · rfl

/-! ### one step of the generic search, as equations -/

section Steps
variable {τ ρ ε σ : Type} (sem : Sem τ ρ ε σ) (tf : Nat)

/-- what the frame `f` makes of the signal `r` of its current alternative -/
def arrive (K : Nat) (f : P τ ρ ε) (live : List Nat) (r : SigG ε) (m2 : M σ) : Option (SigG ε × M σ) :=
  match r with
  | .exhausted none => dfsP sem tf K f live m2
  | .raised e none =>
    match f.recover with
    | none => some (.raised e none, m2)
    | some h =>
      match sem.evalRecover h e m2 with
      | (none, m3) => some (.raised e none, m3)
      | (some q', m3) => dfsP sem tf K q' live m3
  | r => some (absorb f.id r m2)

theorem dfsAlts_step (K : Nat) (t : τ) (f : P τ ρ ε) (live : List Nat) (m : M σ) (q : P τ ρ ε) (m1 : M σ)
    (r : SigG ε) (m2 : M σ) (hev : sem.evalThunk tf t m = some (q, m1))
    (h1 : dfsP sem tf K q (push f.id live) m1 = some (r, m2)) :
    dfsAlts sem tf (K + 1) t f live m = arrive sem tf K f live r m2 := by
  simp only [dfsAlts, hev, h1, arrive]
  cases r with
  | found => rfl
  | illScoped => rfl
  | exhausted co => cases co <;> rfl
  | raised e co => cases co <;> rfl

theorem dfsP_leaf (K : Nat) (p : P τ ρ ε) (live : List Nat) (m : M σ) (hd : p.delayed = []) :
    dfsP sem tf (K + 1) p live m =
      match p.err with
      | some e => some (.raised e none, tick m)
      | none => some (if p.ok then .found else .exhausted none, tick m) := by
  simp only [dfsP, hd]
  rfl

theorem dfsP_step (K : Nat) (p : P τ ρ ε) (live : List Nat) (m : M σ) (t : τ) (ts : List τ)
    (hd : p.delayed = t :: ts) (hid : p.id = 0 ∨ p.id ∉ live) (hcp : p.cutParent = none) :
    dfsP sem tf (K + 1) p live m =
      dfsAlts sem tf K t (afterChild { p with cutParent := none }) live (tick m) := by
  have : ¬ (p.id ≠ 0 ∧ live.contains p.id = true) := by
    rintro ⟨h1, h2⟩
    rcases hid with h | h
    · exact h1 h
    · exact h (by simpa using h2)
  simp only [dfsP, hd, this, if_false, hcp]

theorem dfsP_step_cut (K : Nat) (p : P τ ρ ε) (live : List Nat) (m : M σ) (t : τ) (ts : List τ) (c : Nat)
    (hd : p.delayed = t :: ts) (hid : p.id = 0 ∨ p.id ∉ live) (hcp : p.cutParent = some c) (hc : c ∈ live) :
    dfsP sem tf (K + 1) p live m =
      match dfsAlts sem tf K t (afterChild { p with cutParent := none }) (live.dropWhile (· ≠ c)) (tick m) with
      | none => none
      | some (r, m') => some (afterCut c r, m') := by
  have : ¬ (p.id ≠ 0 ∧ live.contains p.id = true) := by
    rintro ⟨h1, h2⟩
    rcases hid with h | h
    · exact h1 h
    · exact h (by simpa using h2)
  have hc' : live.contains c = true := by simpa using hc
  simp only [dfsP, hd, this, if_false, hcp, hc', if_true]
  rfl

end Steps

/-! ### the recursive search over static trees is the generic search over their promises -/

open PrologVerif.PTree

/-- the signals of `Spec/DFS` as signals of `Spec/DFSG` -/
def conv : DFS.Sig → SigG Nat
  | .found => .found
  | .exhausted co => .exhausted co
  | .raised e co => .raised e co
  | .illScoped => .illScoped

theorem conv_afterCut (c : Nat) (r : DFS.Sig) : conv (DFS.afterCut c r) = afterCut c (conv r) := by
  cases r with
  | found => rfl
  | illScoped => rfl
  | exhausted co => cases co <;> rfl
  | raised e co => cases co <;> rfl

theorem conv_illScoped {r : DFS.Sig} (h : r ≠ .illScoped) : conv r ≠ .illScoped := by
  cases r <;> simp_all [conv]

theorem after_conv (sig : DFS.Sig) (stack : List Pr) (m : M St) (n : Nat) :
    after PTree.sem (conv sig) stack m n = ForceDFS.after sig stack m n := by
  cases sig with
  | found => rfl
  | illScoped => rfl
  | exhausted co => cases co <;> rfl
  | raised e co =>
    cases co <;> simp only [after, ForceDFS.after, conv, cutOpt, ForceDFS.cutOpt] <;>
      (generalize recoverStack PTree.sem e _ m = x; rcases x with ⟨_ | _, _⟩ <;> rfl)

theorem ids_eq (stack : List Pr) : ids stack = ForceDFS.ids stack := rfl

/-- the cut parent carried by a signal is not the dummy -/
def coNe0 : DFS.Sig → Prop
  | .exhausted (some c) => c ≠ 0
  | .raised _ (some c) => c ≠ 0
  | _ => True

theorem coNe0_of_sigIn {sig : DFS.Sig} {live : List Nat} (h0 : 0 ∉ live) (h : ForceDFS.sigIn sig live) :
    coNe0 sig := by
  cases sig with
  | found => trivial
  | illScoped => trivial
  | exhausted co => cases co with
    | none => trivial
    | some c => exact fun hc => h0 (hc ▸ h)
  | raised e co => cases co with
    | none => trivial
    | some c => exact fun hc => h0 (hc ▸ h)

/-- a spent frame without identity (what a cut or a catch leaves, or the repeating frame): every
    signal but plain exhaustion — and an error looking for a handler, if the frame has one —
    passes unchanged -/
theorem arrive_transparent (tf K : Nat) (f : Pr) (live : List Nat) (r : DFS.Sig) (m2 : M St)
    (hid : f.id = 0) (hne : coNe0 r) (h1 : r ≠ .exhausted none)
    (h2 : f.recover = none ∨ ∀ e, r ≠ .raised e none) :
    arrive PTree.sem tf K f live (conv r) m2 = some (conv r, m2) := by
  cases r with
  | found => rfl
  | illScoped => rfl
  | exhausted co => cases co with
    | none => exact absurd rfl h1
    | some c =>
      have : ¬ c = f.id := fun h => hne (h.trans hid)
      simp only [arrive, conv, absorb, this, if_false]
  | raised e co => cases co with
    | none =>
      rcases h2 with h2 | h2
      · simp only [arrive, conv, h2]
      · exact absurd rfl (h2 e)
    | some c =>
      have : ¬ c = f.id := fun h => hne (h.trans hid)
      simp only [arrive, conv, absorb, this, if_false]

/-- the state the generic search is in when the tree search is in `s` at poll count `i` -/
abbrev st (s : St) (i : Nat) : M St := ⟨s, i⟩

/-- `dfs` at fuel `k` is `dfsP` on the promise of the tree -/
def AgreeD (k : Nat) : Prop :=
  ∀ (t : PT) (live : List Nat) (s s' : St) (sig : DFS.Sig),
    DFS.dfs k t live s = some (sig, s') → sig ≠ .illScoped → 0 ∉ live →
    ∃ di K0, ∀ tf K i, K0 ≤ K →
      dfsP PTree.sem tf K (evalThunk t (st s i)).1 live (evalThunk t (st s i)).2 = some (conv sig, st s' (i + di))

/-- `DFS.dfsAlts` at fuel `k` is `dfsP` on the delay promise holding the remaining alternatives -/
def AgreeA (k : Nat) : Prop :=
  ∀ (id : Nat) (ts : PTs) (live0 : List Nat) (s s' : St) (sig : DFS.Sig),
    DFS.dfsAlts k id ts (id :: live0) s = some (sig, s') → sig ≠ .illScoped →
    id ≠ 0 → 0 ∉ live0 → id ∉ live0 →
    ∃ di K0, ∀ tf K i, K0 ≤ K →
      dfsP PTree.sem tf K ({ id := id, delayed := ts.toList } : Pr) live0 (st s i) = some (conv sig, st s' (i + di))

theorem sem_evalRecover : PTree.sem.evalRecover = PTree.evalRecover := rfl

/-- close `some (sig, st s i) = some (sig', st s i')` up to arithmetic on the poll counter -/
local macro "fin_st" : tactic => `(tactic| (first | rfl | (congr 3 <;> first | rfl | omega)))

theorem sem_evalThunk' (n : Nat) (t : PT) (m : M St) :
    PTree.sem.evalThunk n t m = some ((evalThunk t m).1, (evalThunk t m).2) := rfl

theorem evalThunk_snd (t : PT) (s : St) (i : Nat) :
    (evalThunk t (st s i)).2 = st (evalThunk t (st s i)).2.user i := by
  have := evalThunk_iter t (st s i)
  cases h : (evalThunk t (st s i)).2 with
  | mk u it => rw [h] at this; simp only [st] at this ⊢; rw [this]

theorem dfsP_spent (tf K : Nat) (f : Pr) (live : List Nat) (m : M St)
    (hd : f.delayed = []) (he : f.err = none) (ho : f.ok = false) :
    dfsP PTree.sem tf (K + 1) f live m = some (.exhausted none, tick m) := by
  rw [dfsP_leaf _ _ _ _ _ _ hd]
  simp [he, ho]

theorem push_zero (live : List Nat) : push 0 live = live := rfl

theorem push_pos {id : Nat} (live : List Nat) (h : id ≠ 0) : push id live = id :: live := by
  simp [push, h]

theorem tick_st (s : St) (i : Nat) : tick (st s i) = st s (i + 1) := rfl

theorem agreeD_succ (k : Nat) (ihD : AgreeD k) (ihA : AgreeA k) : AgreeD (k + 1) := by
  intro t live s s' sig h hsig h0
  cases t with
  | ok =>
    simp only [DFS.dfs, Option.some.injEq, Prod.mk.injEq] at h; obtain ⟨rfl, rfl⟩ := h
    refine ⟨1, 1, fun tf K i hK => ?_⟩
    obtain ⟨K, rfl⟩ : ∃ K', K = K' + 1 := ⟨K - 1, by omega⟩
    simp only [evalThunk]
    rw [dfsP_leaf _ _ _ _ _ _ rfl]; rfl
  | fail =>
    simp only [DFS.dfs, Option.some.injEq, Prod.mk.injEq] at h; obtain ⟨rfl, rfl⟩ := h
    refine ⟨1, 1, fun tf K i hK => ?_⟩
    obtain ⟨K, rfl⟩ : ∃ K', K = K' + 1 := ⟨K - 1, by omega⟩
    simp only [evalThunk]
    rw [dfsP_leaf _ _ _ _ _ _ rfl]; rfl
  | err e =>
    simp only [DFS.dfs, Option.some.injEq, Prod.mk.injEq] at h; obtain ⟨rfl, rfl⟩ := h
    refine ⟨1, 1, fun tf K i hK => ?_⟩
    obtain ⟨K, rfl⟩ : ∃ K', K = K' + 1 := ⟨K - 1, by omega⟩
    simp only [evalThunk]
    rw [dfsP_leaf _ _ _ _ _ _ rfl]; rfl
  | log x t =>
    simp only [DFS.dfs] at h
    obtain ⟨d1, K1, ih⟩ := ihD t live _ s' sig h hsig h0
    exact ⟨d1, K1, fun tf K i hK => by simpa only [evalThunk, st] using ih tf K i hK⟩
  | set f b t =>
    simp only [DFS.dfs] at h
    obtain ⟨d1, K1, ih⟩ := ihD t live _ s' sig h hsig h0
    exact ⟨d1, K1, fun tf K i hK => by simpa only [evalThunk, st] using ih tf K i hK⟩
  | delay id alts =>
    simp only [DFS.dfs] at h
    split at h
    · simp only [Option.some.injEq, Prod.mk.injEq] at h; obtain ⟨rfl, rfl⟩ := h
      exact absurd rfl hsig
    · rename_i hid
      have hid0 : id ≠ 0 := fun h0 => hid (Or.inl h0)
      have hnin : id ∉ live := fun h0 => hid (Or.inr (by simpa using h0))
      obtain ⟨d1, K1, ih⟩ := ihA id alts live _ s' sig h hsig hid0 h0 hnin
      exact ⟨d1, K1, fun tf K i hK => by simpa only [evalThunk, st] using ih tf K i hK⟩
  | cut parent t =>
    simp only [DFS.dfs] at h
    generalize hcdef : (if s.created.contains parent = true then parent else 0) = c at h
    split at h
    · rename_i hc
      split at h
      · simp at h
      · rename_i r s1 h1
        simp only [Option.some.injEq, Prod.mk.injEq] at h; obtain ⟨rfl, rfl⟩ := h
        have hcm : c ∈ live := by simpa using hc
        have h0' : 0 ∉ live.dropWhile (· ≠ c) := fun hm => h0 ((List.dropWhile_sublist _).subset hm)
        have hin := (ForceDFS.sigIn_both k).1 _ _ _ _ _ h1
        have hne := coNe0_of_sigIn h0' hin
        obtain ⟨d1, K1, ih⟩ := ihD t _ s s1 r h1 (ForceDFS.afterCut_illScoped hsig) h0'
        refine ⟨1 + d1 + ForceDFS.extra r, K1 + 3, fun tf K i hK => ?_⟩
        obtain ⟨K, rfl⟩ : ∃ K', K = K' + 2 := ⟨K - 2, by omega⟩
        have hev : evalThunk (.cut parent t) (st s i) = ({ delayed := [t], cutParent := some c }, st s i) := by
          simp only [evalThunk, st, hcdef]
        rw [hev]
        rw [dfsP_step_cut _ _ _ _ _ _ t [] c rfl (Or.inl rfl) rfl hcm]
        have hf : afterChild ({ ({ delayed := [t], cutParent := some c } : Pr) with cutParent := none })
            = ({ } : Pr) := rfl
        rw [hf, tick_st]
        have ih' := ih tf K (i + 1) (by omega)
        rw [evalThunk_snd] at ih'
        rw [dfsAlts_step _ _ K t _ _ _ _ _ (conv r) (st s1 (i + 1 + d1)) (sem_evalThunk' _ _ _)
          (by rw [evalThunk_snd]; exact ih')]
        by_cases hr : r = .exhausted none
        · subst hr
          simp only [arrive, conv]
          obtain ⟨K, rfl⟩ : ∃ K', K = K' + 1 := ⟨K - 1, by omega⟩
          rw [dfsP_spent _ _ _ _ _ rfl rfl rfl, tick_st]
          simp only [ForceDFS.extra_exh, DFS.afterCut, afterCut]
          fin_st
        · rw [arrive_transparent tf K _ _ r _ rfl hne hr (Or.inl rfl), ForceDFS.extra_of_ne hr]
          simp only [conv_afterCut]
          fin_st
    · simp only [Option.some.injEq, Prod.mk.injEq] at h; obtain ⟨rfl, rfl⟩ := h
      exact absurd rfl hsig
  | catch_ flag hs t =>
    simp only [DFS.dfs] at h
    have hev : ∀ i, evalThunk (.catch_ flag hs t) (st s i)
        = ({ delayed := [t], recover := some ⟨flag, hs⟩ }, st s i) := fun i => by simp only [evalThunk]
    have hf : afterChild ({ ({ delayed := [t], recover := some ⟨flag, hs⟩ } : Pr) with cutParent := none })
        = ({ recover := some ⟨flag, hs⟩ } : Pr) := rfl
    -- the common prefix: one iteration, the thunk, the search of the goal
    have pre : ∀ (r : DFS.Sig) (s1 : St) (d1 K1 : Nat),
        (∀ tf K i, K1 ≤ K → dfsP PTree.sem tf K (evalThunk t (st s i)).1 live (evalThunk t (st s i)).2
          = some (conv r, st s1 (i + d1))) →
        ∀ tf K i, K1 ≤ K →
          dfsP PTree.sem tf (K + 2) (evalThunk (.catch_ flag hs t) (st s i)).1 live
              (evalThunk (.catch_ flag hs t) (st s i)).2
            = arrive PTree.sem tf K ({ recover := some ⟨flag, hs⟩ } : Pr) live (conv r) (st s1 (i + 1 + d1)) := by
      intro r s1 d1 K1 ih tf K i hK
      rw [hev, dfsP_step _ _ _ _ _ _ t [] rfl (Or.inl rfl) rfl, hf, tick_st]
      have ih' := ih tf K (i + 1) hK
      rw [evalThunk_snd] at ih'
      exact dfsAlts_step _ _ K t _ _ _ _ _ (conv r) (st s1 (i + 1 + d1)) (sem_evalThunk' _ _ _)
        (by rw [evalThunk_snd]; exact ih')
    split at h
    · simp at h
    · -- the goal raised an error that still looks for a handler
      rename_i e s1 h1
      obtain ⟨d1, K1, ih⟩ := ihD t live s s1 _ h1 (by simp) h0
      have decline : s1.flag flag = false ∨ hs.find e = none → sig = .raised e none → s' = s1 →
          ∃ di K0, ∀ tf K i, K0 ≤ K →
            dfsP PTree.sem tf K (evalThunk (.catch_ flag hs t) (st s i)).1 live
                (evalThunk (.catch_ flag hs t) (st s i)).2 = some (conv sig, st s' (i + di)) := by
        intro hd hs1 hs2
        subst hs1 hs2
        refine ⟨1 + d1, K1 + 2, fun tf K i hK => ?_⟩
        obtain ⟨K, rfl⟩ : ∃ K', K = K' + 2 := ⟨K - 2, by omega⟩
        rw [pre _ _ _ _ ih tf K i (by omega)]
        have : PTree.evalRecover ⟨flag, hs⟩ e (st s' (i + 1 + d1)) = (none, st s' (i + 1 + d1)) := by
          unfold PTree.evalRecover
          rcases hd with hd | hd
          · simp [hd, st]
          · simp [hd]
        simp only [arrive, conv, sem_evalRecover, this]
        fin_st
      split at h
      · rename_i hfl
        split at h
        · rename_i t2 ht2
          obtain ⟨d2, K2, ih2⟩ := ihD t2 live s1 s' sig h hsig h0
          refine ⟨1 + d1 + d2, K1 + K2 + 2, fun tf K i hK => ?_⟩
          obtain ⟨K, rfl⟩ : ∃ K', K = K' + 2 := ⟨K - 2, by omega⟩
          rw [pre _ _ _ _ ih tf K i (by omega)]
          have : PTree.evalRecover ⟨flag, hs⟩ e (st s1 (i + 1 + d1))
              = (some (evalThunk t2 (st s1 (i + 1 + d1))).1, (evalThunk t2 (st s1 (i + 1 + d1))).2) := by
            unfold PTree.evalRecover
            simp [hfl, ht2, st]
          simp only [arrive, conv, sem_evalRecover, this]
          rw [ih2 tf K (i + 1 + d1) (by omega)]
          fin_st
        · rename_i hnone
          simp only [Option.some.injEq, Prod.mk.injEq] at h
          exact decline (Or.inr hnone) h.1.symm h.2.symm
      · rename_i hfl
        simp only [Option.some.injEq, Prod.mk.injEq] at h
        exact decline (Or.inl (by simpa using hfl)) h.1.symm h.2.symm
    · rename_i r hr h1
      simp only [Option.some.injEq] at h; subst h
      have hin := (ForceDFS.sigIn_both k).1 _ _ _ _ _ h1
      have hne := coNe0_of_sigIn h0 hin
      obtain ⟨d1, K1, ih⟩ := ihD t live s s' sig h1 hsig h0
      refine ⟨1 + d1 + ForceDFS.extra sig, K1 + 3, fun tf K i hK => ?_⟩
      obtain ⟨K, rfl⟩ : ∃ K', K = K' + 2 := ⟨K - 2, by omega⟩
      rw [pre _ _ _ _ ih tf K i (by omega)]
      by_cases hx : sig = .exhausted none
      · subst hx
        simp only [arrive, conv]
        obtain ⟨K, rfl⟩ : ∃ K', K = K' + 1 := ⟨K - 1, by omega⟩
        rw [dfsP_spent _ _ _ _ _ rfl rfl rfl, tick_st, ForceDFS.extra_exh]
        fin_st
      · rw [arrive_transparent tf K _ _ sig _ rfl hne hx (Or.inr (fun e he => hr e s' (by rw [he]))),
          ForceDFS.extra_of_ne hx]
        fin_st
  | rep t =>
    simp only [DFS.dfs] at h
    have hev : ∀ s i, evalThunk (.rep t) (st s i)
        = ({ delayed := [t], rep := true }, st s i) := fun s i => by simp only [evalThunk]
    have hf : afterChild ({ ({ delayed := [t], rep := true } : Pr) with cutParent := none })
        = ({ delayed := [t], rep := true } : Pr) := rfl
    have pre : ∀ (r : DFS.Sig) (s1 : St) (d1 K1 : Nat),
        (∀ tf K i, K1 ≤ K → dfsP PTree.sem tf K (evalThunk t (st s i)).1 live (evalThunk t (st s i)).2
          = some (conv r, st s1 (i + d1))) →
        ∀ tf K i, K1 ≤ K →
          dfsP PTree.sem tf (K + 2) (evalThunk (.rep t) (st s i)).1 live (evalThunk (.rep t) (st s i)).2
            = arrive PTree.sem tf K ({ delayed := [t], rep := true } : Pr) live (conv r) (st s1 (i + 1 + d1)) := by
      intro r s1 d1 K1 ih tf K i hK
      rw [hev, dfsP_step _ _ _ _ _ _ t [] rfl (Or.inl rfl) rfl, hf, tick_st]
      have ih' := ih tf K (i + 1) hK
      rw [evalThunk_snd] at ih'
      exact dfsAlts_step _ _ K t _ _ _ _ _ (conv r) (st s1 (i + 1 + d1)) (sem_evalThunk' _ _ _)
        (by rw [evalThunk_snd]; exact ih')
    split at h
    · simp at h
    · rename_i s1 h1
      obtain ⟨d1, K1, ih⟩ := ihD t live s s1 _ h1 (by simp) h0
      obtain ⟨d2, K2, ih2⟩ := ihD (.rep t) live s1 s' sig h hsig h0
      refine ⟨1 + d1 + d2, K1 + K2 + 2, fun tf K i hK => ?_⟩
      obtain ⟨K, rfl⟩ : ∃ K', K = K' + 2 := ⟨K - 2, by omega⟩
      rw [pre _ _ _ _ ih tf K i (by omega)]
      have := ih2 tf K (i + 1 + d1) (by omega)
      rw [hev] at this
      simp only [arrive, conv]
      rw [this]
      fin_st
    · rename_i r hr h1
      simp only [Option.some.injEq] at h; subst h
      have hin := (ForceDFS.sigIn_both k).1 _ _ _ _ _ h1
      have hne := coNe0_of_sigIn h0 hin
      obtain ⟨d1, K1, ih⟩ := ihD t live s s' sig h1 hsig h0
      refine ⟨1 + d1, K1 + 2, fun tf K i hK => ?_⟩
      obtain ⟨K, rfl⟩ : ∃ K', K = K' + 2 := ⟨K - 2, by omega⟩
      rw [pre _ _ _ _ ih tf K i (by omega)]
      rw [arrive_transparent tf K _ _ sig _ rfl hne (fun he => hr s' (by rw [he])) (Or.inl rfl)]
      fin_st

theorem conv_absorb (id : Nat) (r : DFS.Sig) (s : St) (i : Nat) :
    absorb id (conv r) (st s i) = (conv (DFS.absorb id r), st s (i + ForceDFS.extraAbs id r)) := by
  cases r with
  | found => rfl
  | illScoped => rfl
  | exhausted co => cases co with
    | none => rfl
    | some c =>
      by_cases hc : c = id
      · subst hc; simp [absorb, conv, DFS.absorb, ForceDFS.extraAbs, tick_st]
      · have : DFS.Sig.exhausted (some c) ≠ DFS.Sig.exhausted (some id) := by
          intro h0; injection h0 with h0; injection h0 with h0; exact hc h0
        simp [absorb, conv, DFS.absorb, ForceDFS.extraAbs, hc, this]
  | raised e co => cases co with
    | none => rfl
    | some c =>
      by_cases hc : c = id
      · subst hc; simp [absorb, conv, DFS.absorb, ForceDFS.extraAbs]
      · simp [absorb, conv, DFS.absorb, ForceDFS.extraAbs, hc]

/-- a frame without handler: every signal but plain exhaustion is absorbed as in `Spec/DFS` -/
theorem arrive_delay (tf K : Nat) (f : Pr) (live : List Nat) (r : DFS.Sig) (s : St) (i : Nat)
    (hr : f.recover = none) (h1 : r ≠ .exhausted none) :
    arrive PTree.sem tf K f live (conv r) (st s i)
      = some (conv (DFS.absorb f.id r), st s (i + ForceDFS.extraAbs f.id r)) := by
  cases r with
  | found => rfl
  | illScoped => rfl
  | exhausted co => cases co with
    | none => exact absurd rfl h1
    | some c =>
      have := conv_absorb f.id (.exhausted (some c)) s i
      simp only [conv] at this
      simp only [arrive, conv, this]
  | raised e co => cases co with
    | none => simp only [arrive, conv, hr]; rfl
    | some c =>
      have := conv_absorb f.id (.raised e (some c)) s i
      simp only [conv] at this
      simp only [arrive, conv, this]

theorem agreeA_succ (k : Nat) (ihD : AgreeD k) (ihA : AgreeA k) : AgreeA (k + 1) := by
  intro id ts live0 s s' sig h hsig hid h0 hnin
  cases ts with
  | nil =>
    simp only [DFS.dfsAlts, Option.some.injEq, Prod.mk.injEq] at h; obtain ⟨rfl, rfl⟩ := h
    refine ⟨1, 1, fun tf K i hK => ?_⟩
    obtain ⟨K, rfl⟩ : ∃ K', K = K' + 1 := ⟨K - 1, by omega⟩
    exact dfsP_spent _ _ _ _ _ rfl rfl rfl
  | cons t ts =>
    simp only [DFS.dfsAlts] at h
    have h0' : 0 ∉ id :: live0 := by
      intro hm
      rcases List.mem_cons.1 hm with h1 | h1
      · exact hid h1.symm
      · exact h0 h1
    have hf : afterChild ({ ({ id := id, delayed := t :: ts.toList } : Pr) with cutParent := none })
        = ({ id := id, delayed := ts.toList } : Pr) := rfl
    have pre : ∀ (r : DFS.Sig) (s1 : St) (d1 K1 : Nat),
        (∀ tf K i, K1 ≤ K → dfsP PTree.sem tf K (evalThunk t (st s i)).1 (id :: live0) (evalThunk t (st s i)).2
          = some (conv r, st s1 (i + d1))) →
        ∀ tf K i, K1 ≤ K →
          dfsP PTree.sem tf (K + 2) ({ id := id, delayed := t :: ts.toList } : Pr) live0 (st s i)
            = arrive PTree.sem tf K ({ id := id, delayed := ts.toList } : Pr) live0 (conv r) (st s1 (i + 1 + d1)) := by
      intro r s1 d1 K1 ih tf K i hK
      rw [dfsP_step _ _ _ _ _ _ t ts.toList rfl (Or.inr hnin) rfl, hf, tick_st]
      have ih' := ih tf K (i + 1) hK
      rw [evalThunk_snd] at ih'
      exact dfsAlts_step _ _ K t _ _ _ _ _ (conv r) (st s1 (i + 1 + d1)) (sem_evalThunk' _ _ _)
        (by rw [evalThunk_snd, push_pos _ hid]; exact ih')
    split at h
    · simp at h
    · rename_i s1 h1
      obtain ⟨d1, K1, ih⟩ := ihD t _ s s1 _ h1 (by simp) h0'
      obtain ⟨d2, K2, ih2⟩ := ihA id ts live0 s1 s' sig h hsig hid h0 hnin
      refine ⟨1 + d1 + d2, K1 + K2 + 2, fun tf K i hK => ?_⟩
      obtain ⟨K, rfl⟩ : ∃ K', K = K' + 2 := ⟨K - 2, by omega⟩
      simp only [PTs.toList]
      rw [pre _ _ _ _ ih tf K i (by omega)]
      simp only [arrive, conv]
      rw [ih2 tf K (i + 1 + d1) (by omega)]
      fin_st
    · rename_i r s1 hr h1
      simp only [Option.some.injEq, Prod.mk.injEq] at h; obtain ⟨rfl, rfl⟩ := h
      obtain ⟨d1, K1, ih⟩ := ihD t _ s s1 r h1 (ForceDFS.absorb_illScoped hsig) h0'
      refine ⟨1 + d1 + ForceDFS.extraAbs id r, K1 + 2, fun tf K i hK => ?_⟩
      obtain ⟨K, rfl⟩ : ∃ K', K = K' + 2 := ⟨K - 2, by omega⟩
      simp only [PTs.toList]
      rw [pre _ _ _ _ ih tf K i (by omega)]
      rw [arrive_delay tf K _ live0 r s1 _ rfl hr]
      show some (conv (DFS.absorb id r), st s1 (i + 1 + d1 + ForceDFS.extraAbs id r)) = _
      fin_st

theorem agree_both : ∀ k : Nat, AgreeD k ∧ AgreeA k
  | 0 => ⟨fun _ _ _ _ _ h => by simp [DFS.dfs] at h, fun _ _ _ _ _ _ h => by simp [DFS.dfsAlts] at h⟩
  | k + 1 => ⟨agreeD_succ k (agree_both k).1 (agree_both k).2, agreeA_succ k (agree_both k).1 (agree_both k).2⟩

/-- **dfs_dfsP**: on well-scoped trees the recursive search over a static promise tree is the generic
    search over the promise of the tree (same signal, same state; the poll counter advances by `di`) -/
theorem dfs_dfsP (k : Nat) (t : PT) (live : List Nat) (s s' : St) (sig : DFS.Sig)
    (h : DFS.dfs k t live s = some (sig, s')) (hsig : sig ≠ .illScoped) (h0 : 0 ∉ live) :
    ∃ di K0, ∀ tf K i, K0 ≤ K →
      dfsP PTree.sem tf K (evalThunk t ⟨s, i⟩).1 live (evalThunk t ⟨s, i⟩).2 = some (conv sig, ⟨s', i + di⟩) :=
  (agree_both k).1 t live s s' sig h hsig h0

/-- **the old theorem as a corollary** of `force_dfsG` (instance `PTree.sem`) and `dfs_dfsP` -/
theorem force_dfs_from_G : ForceDFS.ForceDfsStatement := by
  intro k t live s s' sig h hsig stack hlive hnd
  have h0 : 0 ∉ live := hlive ▸ ForceDFS.zero_not_mem_ids stack
  obtain ⟨di, K0, hag⟩ := dfs_dfsP k t live s s' sig h hsig h0
  refine ⟨di, di, fun n i => ?_⟩
  have hG := force_dfsG_cost PTree.sem semMono_PTree iterPure_PTree 0 K0 _ live _ _ _
    (hag 0 K0 i (Nat.le_refl _)) (conv_illScoped hsig) stack hlive hnd
  have hit : (evalThunk t ⟨s, i⟩).2.iter = i := evalThunk_iter t ⟨s, i⟩
  have := hG.2 n (Nat.zero_le _)
  rw [hit, show i + di - i = di by omega, after_conv] at this
  exact this

/-! ### non-vacuity: the hypotheses of `force_dfsG` are satisfiable, with every kind of signal -/

/-- `p :- (!, fail ; true)` as a promise tree: the cut discards the second alternative -/
def exCut : PT := .delay 1 (.cons (.cut 1 .fail) (.cons .ok .nil))

/-- `catch((true ; throw 7), 7, true)`, backtracked into: the handler runs -/
def exCatch : PT := .catch_ 0 (.cons 7 .ok .nil) (.delay 1 (.cons .fail (.cons (.err 7) .nil)))

example : (dfsP PTree.sem 0 10 (evalThunk exCut ⟨{}, 0⟩).1 [] (evalThunk exCut ⟨{}, 0⟩).2).map (·.1)
    = some (.exhausted none) := by decide

example : (dfsP PTree.sem 0 10 (evalThunk exCatch ⟨{}, 0⟩).1 [] (evalThunk exCatch ⟨{}, 0⟩).2).map (·.1)
    = some .found := by decide

/-- … and the conclusion, instantiated: the trampoline answers "no" on `exCut` -/
example : ∃ fuel m, force PTree.sem none fuel [(evalThunk exCut ⟨{}, 0⟩).1] (evalThunk exCut ⟨{}, 0⟩).2
    = some (.no, m) := by
  cases h : dfsP PTree.sem 0 10 (evalThunk exCut ⟨{}, 0⟩).1 [] (evalThunk exCut ⟨{}, 0⟩).2 with
  | none => exact absurd (congrArg (Option.map (·.1)) h) (by decide)
  | some r =>
    obtain ⟨sig, m'⟩ := r
    have hs : sig = .exhausted none := by
      have := congrArg (Option.map (·.1)) h
      have h2 : (dfsP PTree.sem 0 10 (evalThunk exCut ⟨{}, 0⟩).1 [] (evalThunk exCut ⟨{}, 0⟩).2).map (·.1)
        = some (.exhausted none) := by decide
      rw [h2] at this
      simpa using this.symm
    subst hs
    obtain ⟨cost, hf⟩ := force_dfsG PTree.sem semMono_PTree 0 10 _ [] _ m' _ h (by simp) [] rfl List.nodup_nil
    exact ⟨1 + cost, m', by rw [hf 1 (Nat.zero_le _)]; rfl⟩

end PrologVerif.ForceDFSG
