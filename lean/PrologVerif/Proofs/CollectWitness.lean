/-
  C11: the witness unifications of one bagof/setof group.

  `collectionOf` unifies the witness term `''(V1,…,Vn)` (the free variables) with the witness copy of
  EVERY solution of the group, one after the other.  The copies are variable-disjoint variants of
  each other, so each unification only links corresponding variables: after the j-th one a variable of
  the first copy is bound through a chain  a ↦ ρ₂ a ↦ … ↦ ρⱼ a  to the corresponding (still unbound)
  variable of the j-th copy.  This file proves that, for every number of solutions, every shape of
  witness and all sufficiently large fuel, all these unifications succeed and leave an environment in
  which the witness term and all witness copies have the same value: the last copy.
-/
import PrologVerif.Proofs.CollectUnify
namespace PrologVerif.Collect
open PrologVerif PrologVerif.CollectSpec

/-! ## chains of variable bindings -/

/-- `Walk e k t r`: Resolve goes from `t` to `r` in `k` lookups and stops there -/
inductive Walk (e : Env) : Nat → Term → Term → Prop
  | nonvar {t : Term} : (∀ v, t ≠ .var v) → Walk e 0 t t
  | unbound {v : Nat} : e.lookup v = none → Walk e 0 (.var v) (.var v)
  | step {v : Nat} {t r : Term} {k : Nat} : e.lookup v = some t → Walk e k t r → Walk e (k + 1) (.var v) r

theorem walk_resolve {e : Env} {k : Nat} {t r : Term} (h : Walk e k t r) :
    ∀ fuel, k ≤ fuel → resolve e fuel t = some r := by
  induction h with
  | @nonvar t hn =>
    intro fuel _
    cases t with
    | var v => exact absurd rfl (hn v)
    | _ => simp
  | @unbound v hl => intro fuel _; cases fuel <;> simp [resolve, hl]
  | @step v t r k hl _ ih =>
    intro fuel hk
    cases fuel with
    | zero => omega
    | succ f => simp only [resolve, hl]; exact ih f (by omega)

theorem walk_cons {e : Env} {z : Nat} {q : Term} {k : Nat} {t r : Term} (hz : e.lookup z = none)
    (hw : Walk e k t r) (hr : r ≠ .var z) : Walk ((z, q) :: e) k t r := by
  induction hw with
  | @nonvar t hn => exact .nonvar hn
  | @unbound v hl =>
    have hv : v ≠ z := by intro h; subst h; exact hr rfl
    exact .unbound (by rw [lookup_cons]; simp [hv, hl])
  | @step v t r k hl _ ih =>
    have hv : v ≠ z := by intro h; subst h; simp [hz] at hl
    exact .step (by rw [lookup_cons]; simp [hv, hl]) (ih hr)

theorem walk_cons_hit {e : Env} {z d : Nat} {k : Nat} {t : Term} (hz : e.lookup z = none)
    (hd : e.lookup d = none) (hdz : d ≠ z) (hw : Walk e k t (.var z)) :
    Walk ((z, .var d) :: e) (k + 1) t (.var d) := by
  generalize hr : Term.var z = r at hw
  induction hw with
  | @nonvar t hn => exact absurd hr.symm (hn z)
  | @unbound v hl =>
    have hv : z = v := by injection hr
    subst hv
    exact .step (by simp) (.unbound (by rw [lookup_cons]; simp [hdz, hd]))
  | @step v t r k hl _ ih =>
    have hv : v ≠ z := by intro h; subst h; simp [hz] at hl
    exact .step (by rw [lookup_cons]; simp [hv, hl]) (ih hr)

theorem value_of_walk {e : Env} {k : Nat} {t : Term} {c : Nat} (hw : Walk e k t (.var c))
    (hc : e.lookup c = none) : Value e t (.var c) := by
  generalize hr : Term.var c = r at hw
  induction hw with
  | @nonvar t hn => exact absurd hr.symm (hn c)
  | @unbound v hl =>
    have hv : c = v := by injection hr
    subst hv
    exact .unbound hc
  | @step v t r k hl _ ih => exact .bound hl (ih hr)

mutual
  theorem value_rename {e : Env} {σ τ : Nat → Nat} : ∀ (s : Term),
      (∀ a ∈ vars s, Value e (.var (σ a)) (.var (τ a))) → Value e (rename σ s) (rename τ s)
    | .var a, h => by simpa using h a (by simp)
    | .app f as, h => by
      simp only [rename_app]
      exact .app (valueArgs_rename as (by simpa using h))
    | .atom _, _ => by simp only [rename_atom]; exact .atom
    | .int _, _ => by simp only [rename_int]; exact .int
    | .flt _, _ => by simp only [rename_flt]; exact .flt
    | .str _, _ => by simp only [rename_str]; exact .str
  theorem valueArgs_rename {e : Env} {σ τ : Nat → Nat} : ∀ (as : Args),
      (∀ a ∈ varsArgs as, Value e (.var (σ a)) (.var (τ a))) → ValueArgs e (renameArgs σ as) (renameArgs τ as)
    | .nil, _ => by simp only [renameArgs_nil]; exact .nil
    | .cons t ts, h => by
      simp only [renameArgs_cons]
      exact .cons (value_rename t (fun a ha => h a (by simp [ha])))
        (valueArgs_rename ts (fun a ha => h a (by simp [ha])))
end

/-! ## fuel needed to walk a term -/

mutual
  def needT : Term → Nat
    | .app _ as => needA as + 1
    | _ => 1
  def needA : Args → Nat
    | .nil => 1
    | .cons t ts => max (needT t) (needA ts) + 1
end

theorem renameArgs_length (ρ : Nat → Nat) : ∀ (as : Args), (renameArgs ρ as).length = as.length
  | .nil => by simp [Args.length]
  | .cons t ts => by simp [Args.length, renameArgs_length ρ ts]

/-! ## one witness: the invariant -/

/-- the fixed data while one witness copy `rename ρ w₁` is unified with the witness term -/
structure Ctx where
  /-- variables of the first witness copy `w₁` -/
  D : List Nat
  /-- bindings of the free variables: `Vᵢ ↦ i-th component of w₁` -/
  B : List (Nat × Term)
  /-- `id` and the renamings of the witness copies unified so far -/
  Src : List (Nat → Nat)
  /-- where the chain of a variable of `w₁` ends at the moment (an unbound variable) -/
  r : Nat → Nat
  /-- the renaming that gives the witness copy being unified -/
  ρ : Nat → Nat
  /-- bound on the chain lengths -/
  K : Nat
  /-- variables that may be bound -/
  Kd : Nat → Prop

structure Ctx.Good (c : Ctx) : Prop where
  rinj : ∀ a ∈ c.D, ∀ b ∈ c.D, c.r a = c.r b → a = b
  disj : ∀ a ∈ c.D, ∀ b ∈ c.D, c.r a ≠ c.ρ b
  bkey : ∀ p ∈ c.B, ∀ a ∈ c.D, p.1 ≠ c.r a
  rKd : ∀ a ∈ c.D, c.Kd (c.r a)
  idIn : id ∈ c.Src

structure WInv (c : Ctx) (e : Env) : Prop where
  tfree : ∀ a ∈ c.D, e.lookup (c.ρ a) = none
  bnd : ∀ p ∈ c.B, e.lookup p.1 = some p.2
  left : ∀ a ∈ c.D, e.lookup (c.r a) = none → ∀ σ ∈ c.Src, ∃ k, k ≤ c.K ∧ Walk e k (.var (σ a)) (.var (c.r a))
  right : ∀ a ∈ c.D, e.lookup (c.r a) ≠ none → ∀ σ ∈ c.Src, ∃ k, k ≤ c.K + 1 ∧ Walk e k (.var (σ a)) (.var (c.ρ a))
  keys : ∀ v, e.lookup v ≠ none → c.Kd v

/-- the term on the left of a unification is the skeleton term itself or a free variable bound to it -/
def Alias (B : List (Nat × Term)) (x s : Term) : Prop := x = s ∨ ∃ v, x = .var v ∧ (v, s) ∈ B

def AliasArgs (B : List (Nat × Term)) : Args → Args → Prop
  | .nil, .nil => True
  | .cons x xs, .cons s as => Alias B x s ∧ AliasArgs B xs as
  | _, _ => False

theorem aliasArgs_refl (B : List (Nat × Term)) : ∀ (as : Args), AliasArgs B as as
  | .nil => by simp [AliasArgs]
  | .cons t ts => by simp [AliasArgs, Alias, aliasArgs_refl B ts]

theorem alias_walk {c : Ctx} {e : Env} (hi : WInv c e) {x s : Term} (hx : Alias c.B x s) {k : Nat} {r : Term}
    (hw : Walk e k s r) : ∃ k', k' ≤ k + 1 ∧ Walk e k' x r := by
  rcases hx with rfl | ⟨v, rfl, hv⟩
  · exact ⟨k, by omega, hw⟩
  · exact ⟨k + 1, by omega, .step (hi.bnd _ hv) hw⟩

/-- what one successful unification step guarantees -/
structure StepOut (c : Ctx) (e e' : Env) (vs : List Nat) : Prop where
  inv : WInv c e'
  done : ∀ a ∈ vs, e'.lookup (c.r a) ≠ none
  mono : ∀ b, e.lookup b ≠ none → e'.lookup b ≠ none

theorem leaf_step {c : Ctx} (hg : c.Good) {e : Env} (hi : WInv c e) {a : Nat} (ha : a ∈ c.D) {x : Term}
    (hx : Alias c.B x (.var a)) {fuel : Nat} (hf : c.K + 3 ≤ fuel) :
    ∃ e', unify e fuel x (.var (c.ρ a)) = some (e', true) ∧ StepOut c e e' [a] := by
  obtain ⟨f, rfl⟩ : ∃ f, fuel = f + 1 := ⟨fuel - 1, by omega⟩
  have hry : resolve e f (.var (c.ρ a)) = some (.var (c.ρ a)) :=
    walk_resolve (.unbound (hi.tfree a ha)) f (by omega)
  by_cases hl : e.lookup (c.r a) = none
  · -- not linked yet: bind the end of the chain to the corresponding variable of the copy
    obtain ⟨k, hk, hw⟩ := hi.left a ha hl id hg.idIn
    obtain ⟨k', hk', hw'⟩ := alias_walk hi hx hw
    have hrx : resolve e f x = some (.var (c.r a)) := walk_resolve hw' f (by omega)
    have hne : c.r a ≠ c.ρ a := hg.disj a ha a ha
    refine ⟨bind e (c.r a) (.var (c.ρ a)), ?_, ?_, ?_, ?_⟩
    · simp [unify, hrx, hry, hne]
    · refine ⟨?_, ?_, ?_, ?_, ?_⟩
      · intro b hb
        simp only [bind, lookup_cons]
        have : c.ρ b ≠ c.r a := fun h => hg.disj a ha b hb h.symm
        simp [this, hi.tfree b hb]
      · intro p hp
        simp only [bind, lookup_cons]
        simp [hg.bkey p hp a ha, hi.bnd p hp]
      · intro b hb hlb σ hσ
        simp only [bind, lookup_cons] at hlb
        split at hlb
        · simp at hlb
        · rename_i hne'
          obtain ⟨k, hk, hw⟩ := hi.left b hb hlb σ hσ
          exact ⟨k, hk, walk_cons hl hw (by intro h; injection h with h; exact hne' h)⟩
      · intro b hb hlb σ hσ
        by_cases hab : c.r b = c.r a
        · have : b = a := hg.rinj b hb a ha hab
          subst this
          obtain ⟨k, hk, hw⟩ := hi.left b hb hl σ hσ
          exact ⟨k + 1, by omega, walk_cons_hit hl (hi.tfree b hb) (fun h => hne h.symm) hw⟩
        · simp only [bind, lookup_cons, hab, if_false] at hlb
          obtain ⟨k, hk, hw⟩ := hi.right b hb hlb σ hσ
          refine ⟨k, hk, walk_cons hl hw ?_⟩
          intro h; injection h with h
          exact hg.disj a ha b hb h.symm
      · intro v hv
        simp only [bind, lookup_cons] at hv
        split at hv
        · rename_i h; subst h; exact hg.rKd a ha
        · exact hi.keys v hv
    · intro b hb
      simp only [List.mem_singleton] at hb
      subst hb
      simp [bind]
    · intro b hb
      simp only [bind, lookup_cons]
      split
      · simp
      · exact hb
  · -- already linked (the variable occurred before in this witness)
    obtain ⟨k, hk, hw⟩ := hi.right a ha hl id hg.idIn
    obtain ⟨k', hk', hw'⟩ := alias_walk hi hx hw
    have hrx : resolve e f x = some (.var (c.ρ a)) := walk_resolve hw' f (by omega)
    refine ⟨e, by simp [unify, hrx, hry], hi, ?_, fun _ h => h⟩
    intro b hb
    simp only [List.mem_singleton] at hb
    subst hb
    exact hl

theorem alias_resolve_nonvar {c : Ctx} {e : Env} (hi : WInv c e) {x s : Term} (hx : Alias c.B x s)
    (hs : ∀ v, s ≠ .var v) {f : Nat} (hf : 1 ≤ f) : resolve e f x = some s := by
  obtain ⟨k', hk', hw'⟩ := alias_walk hi hx (.nonvar hs)
  exact walk_resolve hw' f (by omega)

mutual
  /-- unifying (an alias of) a term `s` over the variables of `w₁` with `rename ρ s` succeeds and
      links every variable of `s` -/
  theorem unify_skel {c : Ctx} (hg : c.Good) : ∀ (s x : Term) (e : Env) (fuel : Nat),
      WInv c e → Alias c.B x s → (∀ a ∈ vars s, a ∈ c.D) → needT s + c.K + 2 ≤ fuel →
      ∃ e', unify e fuel x (rename c.ρ s) = some (e', true) ∧ StepOut c e e' (vars s)
    | .var a, x, e, fuel, hi, hx, hD, hf => by
      simp only [needT] at hf
      simpa using leaf_step hg hi (hD a (by simp)) hx (by omega)
    | .app f as, x, e, fuel, hi, hx, hD, hf => by
      simp only [needT] at hf
      obtain ⟨f', rfl⟩ : ∃ f', fuel = f' + 1 := ⟨fuel - 1, by omega⟩
      have hrx : resolve e f' x = some (.app f as) :=
        alias_resolve_nonvar hi hx (by intro v h; cases h) (by omega)
      obtain ⟨e', h1, h2⟩ := unifyArgs_skel hg as as e f' hi (aliasArgs_refl _ as) (by simpa using hD) (by omega)
      refine ⟨e', ?_, by simpa using h2⟩
      simp [unify, hrx, renameArgs_length, h1]
    | .atom a, x, e, fuel, hi, hx, _, hf => by
      simp only [needT] at hf
      obtain ⟨f', rfl⟩ : ∃ f', fuel = f' + 1 := ⟨fuel - 1, by omega⟩
      have hrx : resolve e f' x = some (.atom a) :=
        alias_resolve_nonvar hi hx (by intro v h; cases h) (by omega)
      exact ⟨e, by simp [unify, hrx], hi, by simp, fun _ h => h⟩
    | .int a, x, e, fuel, hi, hx, _, hf => by
      simp only [needT] at hf
      obtain ⟨f', rfl⟩ : ∃ f', fuel = f' + 1 := ⟨fuel - 1, by omega⟩
      have hrx : resolve e f' x = some (.int a) :=
        alias_resolve_nonvar hi hx (by intro v h; cases h) (by omega)
      exact ⟨e, by simp [unify, hrx], hi, by simp, fun _ h => h⟩
    | .flt a, x, e, fuel, hi, hx, _, hf => by
      simp only [needT] at hf
      obtain ⟨f', rfl⟩ : ∃ f', fuel = f' + 1 := ⟨fuel - 1, by omega⟩
      have hrx : resolve e f' x = some (.flt a) :=
        alias_resolve_nonvar hi hx (by intro v h; cases h) (by omega)
      exact ⟨e, by simp [unify, hrx], hi, by simp, fun _ h => h⟩
    | .str a, x, e, fuel, hi, hx, _, hf => by
      simp only [needT] at hf
      obtain ⟨f', rfl⟩ : ∃ f', fuel = f' + 1 := ⟨fuel - 1, by omega⟩
      have hrx : resolve e f' x = some (.str a) :=
        alias_resolve_nonvar hi hx (by intro v h; cases h) (by omega)
      exact ⟨e, by simp [unify, hrx], hi, by simp, fun _ h => h⟩
  theorem unifyArgs_skel {c : Ctx} (hg : c.Good) : ∀ (as xs : Args) (e : Env) (fuel : Nat),
      WInv c e → AliasArgs c.B xs as → (∀ a ∈ varsArgs as, a ∈ c.D) → needA as + c.K + 2 ≤ fuel →
      ∃ e', unifyArgs e fuel xs (renameArgs c.ρ as) = some (e', true) ∧ StepOut c e e' (varsArgs as)
    | .nil, xs, e, fuel, hi, hx, _, hf => by
      obtain ⟨f', rfl⟩ : ∃ f', fuel = f' + 1 := ⟨fuel - 1, by simp only [needA] at hf; omega⟩
      cases xs with
      | nil => exact ⟨e, by simp [unifyArgs], hi, by simp, fun _ h => h⟩
      | cons _ _ => simp [AliasArgs] at hx
    | .cons s as, xs, e, fuel, hi, hx, hD, hf => by
      simp only [needA] at hf
      obtain ⟨f', rfl⟩ : ∃ f', fuel = f' + 1 := ⟨fuel - 1, by omega⟩
      cases xs with
      | nil => simp [AliasArgs] at hx
      | cons x xs =>
        simp only [AliasArgs] at hx
        obtain ⟨e1, h1, o1⟩ := unify_skel hg s x e f' hi hx.1 (fun a ha => hD a (by simp [ha])) (by omega)
        obtain ⟨e2, h2, o2⟩ := unifyArgs_skel hg as xs e1 f' o1.inv hx.2 (fun a ha => hD a (by simp [ha])) (by omega)
        refine ⟨e2, by simp [unifyArgs, h1, h2], o2.inv, ?_, fun b hb => o2.mono b (o1.mono b hb)⟩
        intro a ha
        simp only [varsArgs_cons, List.mem_append] at ha
        rcases ha with ha | ha
        · exact o2.mono _ (o1.done a ha)
        · exact o2.done a ha
end

/-! ## the witness term against one copy -/

theorem ofList_length : ∀ (l : List Term), (Args.ofList l).length = l.length
  | [] => by simp [Args.ofList, Args.length]
  | _ :: l => by simp [Args.ofList, Args.length, ofList_length l]

theorem tuple_nil : tuple [] = .atom "\x00" := by simp [tuple, Term.mk]
theorem tuple_cons (a : Term) (as : List Term) : tuple (a :: as) = .app "\x00" (Args.ofList (a :: as)) := by
  simp [tuple, Term.mk]

theorem varsArgs_ofList : ∀ (l : List Term), varsArgs (Args.ofList l) = l.flatMap vars
  | [] => by simp [Args.ofList]
  | t :: l => by simp [Args.ofList, varsArgs_ofList l]

theorem vars_tuple (args : List Term) : vars (tuple args) = args.flatMap vars := by
  cases args with
  | nil => simp [tuple_nil]
  | cons a as => rw [tuple_cons, vars_app, varsArgs_ofList]

theorem aliasArgs_zip : ∀ (F : List Nat) (args : List Term) (B : List (Nat × Term)),
    args.length = F.length → (∀ p ∈ F.zip args, p ∈ B) →
    AliasArgs B (Args.ofList (F.map .var)) (Args.ofList args)
  | [], [], _, _, _ => by simp [Args.ofList, AliasArgs]
  | [], _ :: _, _, h, _ => by simp at h
  | _ :: _, [], _, h, _ => by simp at h
  | v :: F, t :: args, B, h, hB => by
    simp only [List.map_cons, Args.ofList, AliasArgs]
    refine ⟨Or.inr ⟨v, rfl, hB _ (by simp)⟩, aliasArgs_zip F args B (by simpa using h) ?_⟩
    intro p hp
    exact hB p (by simp [hp])

theorem unify_witness_step {c : Ctx} (hg : c.Good) (F : List Nat) (args : List Term)
    (hlen : args.length = F.length) (hB : ∀ p ∈ F.zip args, p ∈ c.B) {e : Env} (hi : WInv c e)
    (hD : ∀ a ∈ vars (tuple args), a ∈ c.D) {fuel : Nat} (hf : needT (tuple args) + c.K + 2 ≤ fuel) :
    ∃ e', unify e fuel (tuple (F.map .var)) (rename c.ρ (tuple args)) = some (e', true) ∧
      StepOut c e e' (vars (tuple args)) := by
  obtain ⟨f', rfl⟩ : ∃ f', fuel = f' + 1 := ⟨fuel - 1, by cases args <;> simp [tuple_nil, tuple_cons, needT] at hf <;> omega⟩
  cases args with
  | nil =>
    cases F with
    | nil => exact ⟨e, by simp [tuple_nil, unify], hi, by simp [tuple_nil], fun _ h => h⟩
    | cons _ _ => simp at hlen
  | cons t ts =>
    cases F with
    | nil => simp at hlen
    | cons v vs =>
      rw [tuple_cons] at hD hf ⊢
      simp only [needT] at hf
      obtain ⟨e', h1, h2⟩ := unifyArgs_skel hg (Args.ofList (t :: ts)) (Args.ofList ((v :: vs).map .var)) e f' hi
        (aliasArgs_zip (v :: vs) (t :: ts) c.B hlen hB) (by simpa using hD) (by omega)
      refine ⟨e', ?_, by simpa using h2⟩
      have hl : (Args.ofList (List.map Term.var (v :: vs))).length = (Args.ofList (t :: ts)).length := by
        simp only [ofList_length, List.length_map]; exact hlen.symm
      rw [show tuple (List.map Term.var (v :: vs)) = .app "\x00" (Args.ofList (List.map Term.var (v :: vs))) from by
        simp [tuple, Term.mk]]
      simp only [unify, resolve_app, rename_app, renameArgs_length, hl, ne_eq, not_true_eq_false, if_false, h1]

/-! ## the first unification binds the free variables -/

theorem resolve_self {e : Env} {t : Term} (h : ∀ a, t = .var a → e.lookup a = none) (f : Nat) :
    resolve e f t = some t := by
  cases t with
  | var a => cases f <;> simp [resolve, h a rfl]
  | _ => simp

theorem unifyArgs_first : ∀ (F : List Nat) (args : List Term) (e : Env) (fuel : Nat),
    args.length = F.length → F.Nodup → (∀ v ∈ F, e.lookup v = none) →
    (∀ t ∈ args, ∀ a ∈ vars t, a ∉ F ∧ e.lookup a = none) → F.length + 2 ≤ fuel →
    unifyArgs e fuel (Args.ofList (F.map .var)) (Args.ofList args) = some ((F.zip args).reverse ++ e, true)
  | [], [], e, fuel, _, _, _, _, hf => by
    obtain ⟨f', rfl⟩ : ∃ f', fuel = f' + 1 := ⟨fuel - 1, by omega⟩
    simp [Args.ofList, unifyArgs]
  | [], _ :: _, _, _, h, _, _, _, _ => by simp at h
  | _ :: _, [], _, _, h, _, _, _, _ => by simp at h
  | v :: F, t :: args, e, fuel, hlen, hnd, hF, ha, hf => by
    simp only [List.length_cons] at hf
    obtain ⟨f', rfl⟩ : ∃ f', fuel = f' + 1 := ⟨fuel - 1, by omega⟩
    obtain ⟨f'', rfl⟩ : ∃ f'', f' = f'' + 1 := ⟨f' - 1, by omega⟩
    obtain ⟨hv, hnd'⟩ := List.nodup_cons.mp hnd
    have hFv := hF v (by simp)
    have hrx : resolve e f'' (.var v) = some (.var v) :=
      resolve_self (by intro a h; injection h with h; rw [← h]; exact hFv) f''
    have hry : resolve e f'' t = some t :=
      resolve_self (by intro a h; exact (ha t (by simp) a (by rw [h]; simp)).2) f''
    have hne : Term.var v ≠ t := by
      intro h
      exact (ha t (by simp) v (by rw [← h]; simp)).1 (by simp)
    have hu : unify e (f'' + 1) (.var v) t = some ((v, t) :: e, true) := by
      simp [unify, hrx, hry, hne, bind]
    have ih := unifyArgs_first F args ((v, t) :: e) (f'' + 1) (by simpa using hlen) hnd'
      (by
        intro v' hv'
        have : v' ≠ v := fun h => hv (h ▸ hv')
        simp [lookup_cons, this, hF v' (by simp [hv'])])
      (by
        intro t' ht' a ha'
        obtain ⟨h1, h2⟩ := ha t' (by simp [ht']) a ha'
        have hav : a ≠ v := fun h => h1 (by simp [h])
        exact ⟨fun h => h1 (by simp [h]), by simp [lookup_cons, hav, h2]⟩)
      (by omega)
    simp only [List.map_cons, Args.ofList, unifyArgs, hu, ih, List.zip_cons_cons, List.reverse_cons,
      List.append_assoc]
    simp

theorem lookup_none_of_keys {α : Type} {a : Nat} : ∀ {e : List (Nat × α)}, (∀ p ∈ e, p.1 ≠ a) → e.lookup a = none
  | [], _ => by simp
  | (x, y) :: e, h => by
    rw [lookup_cons]
    have : a ≠ x := fun hx => h (x, y) (by simp) hx.symm
    rw [if_neg this]
    exact lookup_none_of_keys (e := e) (fun p hp => h p (List.mem_cons_of_mem _ hp))

theorem lookup_of_mem_nodup {α : Type} {v : Nat} {t : α} : ∀ {e : List (Nat × α)},
    (e.map (·.1)).Nodup → (v, t) ∈ e → e.lookup v = some t
  | [], _, h => by simp at h
  | (x, y) :: e, hnd, h => by
    simp only [List.map_cons, List.nodup_cons] at hnd
    rw [lookup_cons]
    rcases List.mem_cons.mp h with h' | h'
    · injection h' with h1 h2; subst h1; subst h2; simp
    · have : v ≠ x := by
        intro hx; subst hx
        exact hnd.1 (List.mem_map.mpr ⟨(v, t), h', rfl⟩)
      rw [if_neg this]
      exact lookup_of_mem_nodup hnd.2 h'

/-! ## all witnesses of a group -/

/-- the state between two witness unifications: every variable `a` of the first copy is linked, in at
    most `K` steps, to the unbound variable `r a` (a variable of the copy unified last), and so is
    the corresponding variable `σ a` of every copy unified so far -/
structure Between (F : List Nat) (args : List Term) (Src : List (Nat → Nat)) (r : Nat → Nat) (K : Nat)
    (U : List Nat) (e : Env) : Prop where
  rinj : ∀ a ∈ vars (tuple args), ∀ b ∈ vars (tuple args), r a = r b → a = b
  rU : ∀ a ∈ vars (tuple args), r a ∈ U
  bnd : ∀ p ∈ F.zip args, e.lookup p.1 = some p.2
  free : ∀ a ∈ vars (tuple args), e.lookup (r a) = none
  walk : ∀ a ∈ vars (tuple args), ∀ σ ∈ Src, ∃ k, k ≤ K ∧ Walk e k (.var (σ a)) (.var (r a))
  keys : ∀ v, e.lookup v ≠ none → v ∈ F ∨ v ∈ U
  idIn : id ∈ Src

theorem witnesses_fold (F : List Nat) (args : List Term) (hlen : args.length = F.length) (fuel : Nat) :
    ∀ (rest : List Term) (Src : List (Nat → Nat)) (r : Nat → Nat) (K : Nat) (U : List Nat) (e : Env),
    Between F args Src r K U e → (∀ u ∈ U, u ∉ F) →
    (∀ w ∈ rest, Variant (tuple args) w) →
    (∀ w ∈ rest, ∀ v ∈ vars w, v ∉ F ∧ v ∉ U) →
    rest.Pairwise (fun a b => ∀ v ∈ vars a, v ∉ vars b) →
    needT (tuple args) + K + rest.length + 2 ≤ fuel →
    ∃ e' Src' r' K' U', unifyWitnesses (tuple (F.map .var)) fuel rest e = some e' ∧
      Between F args Src' r' K' U' e' ∧ (∀ σ ∈ Src, σ ∈ Src') ∧
      (∀ w ∈ rest, ∃ σ ∈ Src', w = rename σ (tuple args)) ∧
      rename r' (tuple args) = rest.getLast?.getD (rename r (tuple args))
  | [], Src, r, K, U, e, hb, _, _, _, _, _ =>
    ⟨e, Src, r, K, U, by simp [unifyWitnesses], hb, fun _ h => h, by simp, by simp⟩
  | w :: ws, Src, r, K, U, e, hb, hUF, hvar, hfresh, hpw, hf => by
    obtain ⟨ρ, hρ, hw⟩ := variant_def.mp (hvar w (by simp))
    have hρw : ∀ a ∈ vars (tuple args), ρ a ∈ vars w := by
      intro a ha; rw [← hw, vars_rename]; exact List.mem_map_of_mem ha
    have hwF : ∀ v ∈ vars w, v ∉ F ∧ v ∉ U := hfresh w (by simp)
    let c : Ctx := ⟨vars (tuple args), F.zip args, Src, r, ρ, K, fun v => v ∈ F ∨ v ∈ U⟩
    have hg : c.Good := by
      refine ⟨hb.rinj, ?_, ?_, fun a ha => Or.inr (hb.rU a ha), hb.idIn⟩
      · intro a ha b hbm h
        have h1 : r a ∈ U := hb.rU a ha
        have h2 : r a = ρ b := h
        rw [h2] at h1
        exact (hwF _ (hρw b hbm)).2 h1
      · intro p hp a ha h
        have h1 : p.1 ∈ F := by
          have : (p.1, p.2) ∈ F.zip args := hp
          exact (List.of_mem_zip this).1
        have h2 : p.1 = r a := h
        rw [h2] at h1
        exact hUF _ (hb.rU a ha) h1
    have hi : WInv c e := by
      refine ⟨?_, hb.bnd, fun a ha _ σ hσ => hb.walk a ha σ hσ, fun a ha h => absurd (hb.free a ha) h, hb.keys⟩
      intro a ha
      apply Classical.byContradiction
      intro hne
      rcases hb.keys _ hne with h | h
      · exact (hwF _ (hρw a ha)).1 h
      · exact (hwF _ (hρw a ha)).2 h
    simp only [List.length_cons] at hf
    obtain ⟨e1, hu, o⟩ := unify_witness_step hg F args hlen (fun p hp => hp) hi (fun a ha => ha)
      (fuel := fuel) (by show needT (tuple args) + K + 2 ≤ fuel; omega)
    have hu' : unify e fuel (tuple (F.map .var)) w = some (e1, true) := by rw [← hw]; exact hu
    have hb' : Between F args (ρ :: Src) ρ (K + 1) (U ++ vars w) e1 := by
      refine ⟨hρ, fun a ha => List.mem_append.mpr (Or.inr (hρw a ha)), o.inv.bnd, o.inv.tfree, ?_, ?_,
        List.mem_cons_of_mem _ hb.idIn⟩
      · intro a ha σ hσ
        rcases List.mem_cons.mp hσ with rfl | hσ
        · exact ⟨0, by omega, .unbound (o.inv.tfree a ha)⟩
        · exact o.inv.right a ha (o.done a ha) σ hσ
      · intro v hv
        rcases o.inv.keys v hv with h | h
        · exact Or.inl h
        · exact Or.inr (List.mem_append.mpr (Or.inl h))
    have hUF' : ∀ u ∈ U ++ vars w, u ∉ F := by
      intro u hu
      rcases List.mem_append.mp hu with h | h
      · exact hUF u h
      · exact (hwF u h).1
    obtain ⟨hpw1, hpw2⟩ := List.pairwise_cons.mp hpw
    obtain ⟨e', Src', r', K', U', h1, h2, h3, h4, h5⟩ :=
      witnesses_fold F args hlen fuel ws (ρ :: Src) ρ (K + 1) (U ++ vars w) e1 hb' hUF'
        (fun w' hw' => hvar w' (List.mem_cons_of_mem _ hw'))
        (by
          intro w' hw' v hv
          obtain ⟨f1, f2⟩ := hfresh w' (List.mem_cons_of_mem _ hw') v hv
          refine ⟨f1, ?_⟩
          intro hm
          rcases List.mem_append.mp hm with h | h
          · exact f2 h
          · exact hpw1 w' hw' v h hv)
        hpw2 (by omega)
    refine ⟨e', Src', r', K', U', by simp [unifyWitnesses, hu', h1], h2,
      fun σ hσ => h3 σ (List.mem_cons_of_mem _ hσ), ?_, ?_⟩
    · intro w' hw'
      rcases List.mem_cons.mp hw' with rfl | hw'
      · exact ⟨ρ, h3 ρ (List.mem_cons_self ..), hw.symm⟩
      · exact h4 w' hw'
    · rw [List.getLast?_cons, Option.getD_some, h5, hw]

theorem unify_first (F : List Nat) (args : List Term) (fuel : Nat) (hlen : args.length = F.length)
    (hF : F.Nodup) (hfresh : ∀ a ∈ vars (tuple args), a ∉ F) (hf : F.length + 3 ≤ fuel) :
    unify [] fuel (tuple (F.map .var)) (tuple args) = some ((F.zip args).reverse, true) := by
  obtain ⟨f', rfl⟩ : ∃ f', fuel = f' + 1 := ⟨fuel - 1, by omega⟩
  cases args with
  | nil =>
    cases F with
    | nil => simp [tuple_nil, unify]
    | cons _ _ => simp at hlen
  | cons t ts =>
    cases F with
    | nil => simp at hlen
    | cons v vs =>
      have h := unifyArgs_first (v :: vs) (t :: ts) [] f' hlen hF (by simp)
        (by
          intro t' ht' a ha
          refine ⟨hfresh a ?_, by simp⟩
          rw [vars_tuple]
          exact List.mem_flatMap.mpr ⟨t', ht', ha⟩)
        (by simp at hf ⊢; omega)
      have hl : (Args.ofList (List.map Term.var (v :: vs))).length = (Args.ofList (t :: ts)).length := by
        simp only [ofList_length, List.length_map]; exact hlen.symm
      rw [show tuple (List.map Term.var (v :: vs)) = .app "\x00" (Args.ofList (List.map Term.var (v :: vs))) from by
        simp [tuple, Term.mk], tuple_cons]
      simp only [unify, resolve_app, hl, ne_eq, not_true_eq_false, if_false, h, List.append_nil]

theorem valueArgs_witness {e : Env} {ρ : Nat → Nat} : ∀ (F : List Nat) (args : List Term),
    args.length = F.length → (∀ p ∈ F.zip args, e.lookup p.1 = some p.2) →
    (∀ t ∈ args, Value e t (rename ρ t)) →
    ValueArgs e (Args.ofList (F.map .var)) (renameArgs ρ (Args.ofList args))
  | [], [], _, _, _ => by simp only [List.map_nil, Args.ofList, renameArgs_nil]; exact .nil
  | [], _ :: _, h, _, _ => by simp at h
  | _ :: _, [], h, _, _ => by simp at h
  | v :: F, t :: args, h, hb, hv => by
    simp only [List.map_cons, Args.ofList, renameArgs_cons]
    refine .cons (.bound (hb (v, t) (by simp)) (hv t (by simp))) ?_
    exact valueArgs_witness F args (by simpa using h) (fun p hp => hb p (by simp [hp]))
      (fun t' ht' => hv t' (by simp [ht']))

/-- **the witness unifications of one group**: `F` = the free variables (distinct), `tuple args` = the
    witness copy of the first solution of the group, `rest` = the witness copies of the others.  If
    the copies contain none of the free variables, are pairwise variable-disjoint and are variants of
    the first one, then with enough fuel every `env.Unify(witness, w)` of the loop succeeds, and in
    the resulting environment the witness term (i.e. the tuple of the free variables) and every
    witness copy have the same value: the last copy. -/
theorem witness_unify (F : List Nat) (args : List Term) (rest : List Term) (fuel : Nat)
    (hF : F.Nodup) (hlen : args.length = F.length)
    (hfresh : ∀ w ∈ tuple args :: rest, ∀ v ∈ vars w, v ∉ F)
    (hdisj : (tuple args :: rest).Pairwise (fun a b => ∀ v ∈ vars a, v ∉ vars b))
    (hvar : ∀ w ∈ rest, Variant (tuple args) w)
    (hfuel : needT (tuple args) + rest.length + F.length + 4 ≤ fuel) :
    ∃ e, unifyWitnesses (tuple (F.map .var)) fuel (tuple args :: rest) [] = some e ∧
      ∀ w ∈ tuple (F.map .var) :: tuple args :: rest,
        Value e w ((tuple args :: rest).getLast (by simp)) := by
  have hfr1 : ∀ a ∈ vars (tuple args), a ∉ F := hfresh _ (by simp)
  have hu := unify_first F args fuel hlen hF hfr1 (by omega)
  -- the environment after the first unification
  have hzipF : ∀ p ∈ (F.zip args).reverse, p.1 ∈ F := by
    intro p hp
    have : (p.1, p.2) ∈ F.zip args := List.mem_reverse.mp hp
    exact (List.of_mem_zip this).1
  have hb : Between F args [id] id 0 (vars (tuple args)) (F.zip args).reverse := by
    refine ⟨fun _ _ _ _ h => h, fun a ha => ha, ?_, ?_, ?_, ?_, by simp⟩
    · intro p hp
      refine lookup_of_mem_nodup ?_ (List.mem_reverse.mpr hp)
      rw [List.map_reverse, List.map_fst_zip (by omega)]
      have hF' : F.Pairwise (· ≠ ·) := hF
      exact List.pairwise_reverse.mpr (hF'.imp (fun h => Ne.symm h))
    · intro a ha
      exact lookup_none_of_keys (fun p hp h => hfr1 a ha (by
        have h' : p.1 = a := h
        rw [← h']; exact hzipF p hp))
    · intro a ha σ hσ
      simp only [List.mem_singleton] at hσ
      subst hσ
      exact ⟨0, Nat.le_refl _, .unbound (lookup_none_of_keys (fun p hp h => hfr1 a ha (by
        have h' : p.1 = a := h
        rw [← h']; exact hzipF p hp)))⟩
    · intro v hv
      apply Classical.byContradiction
      intro hn
      apply hv
      exact lookup_none_of_keys (fun p hp h => hn (Or.inl (h ▸ hzipF p hp)))
  obtain ⟨hd1, hd2⟩ := List.pairwise_cons.mp hdisj
  obtain ⟨e', Src', r', K', U', h1, h2, h3, h4, h5⟩ :=
    witnesses_fold F args hlen fuel rest [id] id 0 (vars (tuple args)) _ hb hfr1 hvar
      (by
        intro w hw v hv
        exact ⟨hfresh w (List.mem_cons_of_mem _ hw) v hv, fun hm => hd1 w hw v hm hv⟩)
      hd2 (by omega)
  have hlast : (tuple args :: rest).getLast (by simp) = rename r' (tuple args) := by
    have e1 := List.getLast?_eq_some_getLast (l := tuple args :: rest) (by simp)
    rw [List.getLast?_cons] at e1
    rw [h5, rename_id]
    exact (Option.some.inj e1).symm
  have hval : ∀ σ ∈ Src', ∀ (s : Term), (∀ a ∈ vars s, a ∈ vars (tuple args)) →
      Value e' (rename σ s) (rename r' s) := by
    intro σ hσ s hs
    refine value_rename s ?_
    intro a ha
    obtain ⟨k, _, hw⟩ := h2.walk a (hs a ha) σ hσ
    exact value_of_walk hw (h2.free a (hs a ha))
  refine ⟨e', by simp [unifyWitnesses, hu, h1], ?_⟩
  intro w hw
  rw [hlast]
  rcases List.mem_cons.mp hw with rfl | hw
  · -- the tuple of the free variables
    cases args with
    | nil =>
      cases F with
      | nil => simp only [List.map_nil, tuple_nil, rename_atom]; exact .atom
      | cons _ _ => simp at hlen
    | cons t ts =>
      cases F with
      | nil => simp at hlen
      | cons v vs =>
        rw [show tuple (List.map Term.var (v :: vs)) = .app "\x00" (Args.ofList (List.map Term.var (v :: vs))) from by
          simp [tuple, Term.mk], tuple_cons, rename_app]
        refine .app (valueArgs_witness (v :: vs) (t :: ts) hlen h2.bnd ?_)
        intro t' ht'
        have := hval id (h3 id (by simp)) t' (by
          intro a ha
          rw [vars_tuple]
          exact List.mem_flatMap.mpr ⟨t', ht', ha⟩)
        rwa [rename_id] at this
  · rcases List.mem_cons.mp hw with rfl | hw
    · have := hval id (h3 id (by simp)) (tuple args) (fun a ha => ha)
      rwa [rename_id] at this
    · obtain ⟨σ, hσ, rfl⟩ := h4 w hw
      exact hval σ hσ (tuple args) (fun a ha => ha)

/-! ## the witness copies of a group have the shape the theorem needs -/

theorem renameArgs_ofList (ρ : Nat → Nat) : ∀ (l : List Term),
    renameArgs ρ (Args.ofList l) = Args.ofList (l.map (rename ρ))
  | [] => by simp [Args.ofList]
  | t :: l => by simp [Args.ofList, renameArgs_ofList ρ l]

theorem rename_tuple (ρ : Nat → Nat) (l : List Term) : rename ρ (tuple l) = tuple (l.map (rename ρ)) := by
  cases l with
  | nil => simp [tuple_nil]
  | cons t l => rw [tuple_cons, rename_app, renameArgs_ofList, List.map_cons, tuple_cons]

theorem substArgs_ofList (σ : List (Nat × Term)) : ∀ (l : List Term),
    substArgs σ (Args.ofList l) = Args.ofList (l.map (subst σ))
  | [] => by simp [Args.ofList, substArgs]
  | t :: l => by simp [Args.ofList, substArgs, substArgs_ofList σ l]

theorem subst_tuple (σ : List (Nat × Term)) (l : List Term) : subst σ (tuple l) = tuple (l.map (subst σ)) := by
  cases l with
  | nil => simp [tuple_nil, subst]
  | cons t l => rw [tuple_cons, subst, substArgs_ofList, List.map_cons, tuple_cons]

theorem exists_zip_of_mem_right {α β : Type} {b : β} : ∀ {l1 : List α} {l2 : List β},
    l1.length = l2.length → b ∈ l2 → ∃ a, (a, b) ∈ l1.zip l2
  | [], [], _, h => by simp at h
  | [], _ :: _, h, _ => by simp at h
  | _ :: _, [], h, _ => by simp at h
  | x :: l1, y :: l2, hl, h => by
    rcases List.mem_cons.mp h with rfl | h
    · exact ⟨x, by simp⟩
    · obtain ⟨a, ha⟩ := exists_zip_of_mem_right (l1 := l1) (by simpa using hl) h
      exact ⟨a, by simp [ha]⟩

/-- a variant of an instance of the witness term is a tuple with one component per free variable -/
theorem shape_of_variant (F : List Nat) (σ : List (Nat × Term)) (c : Term)
    (h : Variant (subst σ (tuple (F.map .var))) c) : ∃ args, c = tuple args ∧ args.length = F.length := by
  obtain ⟨ρ, _, e⟩ := variant_def.mp h
  rw [subst_tuple, rename_tuple] at e
  exact ⟨_, e.symm, by simp⟩

end PrologVerif.Collect
