/-
  Driver/C07Spec — the ORACLE of C07: judges what the implementation answered, using only
  Spec/ExactArith (integers: exact or error) and hardware IEEE floats (the property's "IEEE-754 double
  result").  Does NOT import the translated kernels or the model, so it keeps working when the
  translation or a proof is broken.
-/
import PrologVerif.Driver.Common
import PrologVerif.Driver.C07Float
import PrologVerif.Model.Errors
import PrologVerif.Spec.ExactArith
namespace PrologVerif.Driver.C07
open PrologVerif PrologVerif.Driver PrologVerif.Spec.ExactArith

/-- a number as the oracle sees it -/
inductive SNum where
  | int (z : Int)
  | flt (f : Float)

/-- what the property demands of one operation -/
inductive Want where
  | num (n : SNum)
  | numOrUnderflow (n : SNum)             -- an exact non-zero result rounded to zero: either is accepted
  | err (formal : Term)
  | free                                  -- the property does not speak about this case

def SNum.wire : SNum → String
  | .int z => "I" ++ toString z
  | .flt f => "F" ++ hex16 f.toBits

def ofOutcome : Outcome → Want
  | .value z => .num (.int z)
  | .evalError e => .err (evaluationErr e)
  | .typeError ty c => .err (typeErr ty (.int c))

def ofOutcome? : Option Outcome → Want
  | some o => ofOutcome o
  | none => .free

def toF : SNum → Float
  | .int z => (Int.toInt64 z).toFloat
  | .flt f => f

def numTerm : SNum → Term
  | .int z => .int z
  | .flt f => .flt f.toBits

def finite (f : Float) : Bool := !f.isInf && !f.isNaN

/-- IEEE result of a float operation on finite operands: overflow iff infinite, undefined iff NaN -/
def ieee (r : Float) (underflowed : Bool) : Want :=
  if r.isNaN then .err (evaluationErr "undefined")
  else if r.isInf then .err (evaluationErr "float_overflow")
  else if underflowed then .numOrUnderflow (.flt r)
  else .num (.flt r)

def intTypeErr (x : SNum) : Want := .err (typeErr "integer" (numTerm x))
def fltTypeErr (x : SNum) : Want := .err (typeErr "float" (numTerm x))

/-- float → integer functions: exact or int_overflow -/
def ftoi (r : Float) : Want :=
  match exactInt r with
  | some z => ofOutcome (checked z)
  | none => .free

/-- `applyBin` with the executable form of `^` (Spec.ExactArith.powFast = pow, theorem C07_powFast_eq) -/
def applyBinFast (f : String) (x y : Int) : Option Outcome :=
  if f == "^" then some (powFast x y) else applyBin f x y

def intFunctors2 : List String := ["//", "rem", "mod", "div", "/\\", "\\/", "xor", "<<", ">>"]

def wantBinary (f : String) (x y : SNum) : Want :=
  match x, y with
  | .int a, .int b =>
    if f == "/" then
      if b == 0 then .err (evaluationErr "zero_divisor")
      else let r := toF x / toF y; ieee r (r == 0 && a != 0)
    else if f == "**" || f == "atan2" then .free
    else ofOutcome? (applyBinFast f a b)
  | _, _ =>
    if intFunctors2.contains f then
      -- the first non-integer argument is the culprit
      match x with
      | .flt _ => intTypeErr x
      | .int _ => intTypeErr y
    else
      let a := toF x; let b := toF y
      if !(finite a && finite b) then .free else
      match f with
      | "+" => ieee (a + b) false
      | "-" => ieee (a - b) false
      | "*" => let r := a * b; ieee r (r == 0 && a != 0 && b != 0)
      | "/" => if b == 0 then .err (evaluationErr "zero_divisor") else let r := a / b; ieee r (r == 0 && a != 0)
      | "max" => .num (if a < b then y else x)
      | "min" => .num (if a > b then y else x)
      | _ => .free

def wantUnary (f : String) (x : SNum) : Want :=
  match x with
  | .int a =>
    match f with
    | "float" => .num (.flt (toF x))
    | "floor" | "truncate" | "round" | "ceiling" | "float_integer_part" | "float_fractional_part" => fltTypeErr x
    | _ => ofOutcome? (applyUn f a)
  | .flt a =>
    if !finite a then .free else
    match f with
    | "-" => .num (.flt (-a))
    | "+" => .num x
    | "abs" => .num (.flt a.abs)
    | "sign" => .num (.flt (if a > 0 then 1 else if a < 0 then -1 else 0))
    | "float" => .num x
    | "floor" => ftoi a.floor
    | "ceiling" => ftoi a.ceil
    | "round" => ftoi a.round
    | "truncate" => ftoi (ftrunc a)
    | "\\" => intTypeErr x
    | _ => .free

/-- comparison: integers exactly, anything mixed through float conversion (as the property says) -/
def wantCompare (op : String) (x y : SNum) : Option Bool :=
  match x, y with
  | .int a, .int b => compare op a b
  | _, _ =>
    let a := toF x; let b := toF y
    match op with
    | "=:=" => some (a == b)
    | "=\\=" => some (a != b)
    | "<" => some (a < b)
    | "=<" => some (a ≤ b)
    | ">" => some (a > b)
    | ">=" => some (a ≥ b)
    | _ => none

def errLine (t : Term) : String := "err " ++ t.canon.wire

/-- Conditions under which a KNOWN, test-pinned deviation of the pinned code fires (known_findings.json
    keys on these tags, so that any other failure of the same property is still a violation):
      pow_unit_minint     `^` with base 1 or -1 and exponent -2^63 (the code negates the exponent first;
                          number_test.go "-1 ^ minInt" expects int_overflow)
      add_rounds_to_max   float `+`/`-` whose IEEE result is exactly ±MaxFloat64 (the code's pre-check
                          `x > MaxFloat64 - y` reports float_overflow; number_test.go "1.0 + maxFloat") -/
def triggersBinary (f : String) (x y : SNum) : List String :=
  match x, y with
  | .int a, .int b =>
    if f == "^" && (a == 1 || a == -1) && b == minInt then ["pow_unit_minint"] else []
  | _, _ =>
    let a := toF x; let b := toF y
    if (f == "+" || f == "-") && finite a && finite b then
      let r := if f == "+" then a + b else a - b
      if r.abs == Float.ofBits 0x7fefffffffffffff then ["add_rounds_to_max"] else []
    else []

def withTriggers (verdict : String) (ts : List String) : String :=
  if verdict.startsWith "FAIL" && !ts.isEmpty then verdict ++ " [trigger:" ++ ",".intercalate ts.eraseDups ++ "]" else verdict

/-- judge an implementation line against what is wanted; a Go panic is never acceptable, also where
    the property leaves the result open -/
def judge (w : Want) (impl : String) : String :=
  if impl.startsWith "panic" then "FAIL the implementation panicked" else
  match w with
  | .free => "-"
  | .num n => if impl == "ok " ++ n.wire then "ok" else s!"FAIL want ok {n.wire}"
  | .numOrUnderflow n =>
    if impl == "ok " ++ n.wire || impl == errLine (evaluationErr "underflow") then "ok"
    else s!"FAIL want ok {n.wire} or underflow"
  | .err t => if impl == errLine t then "ok" else s!"FAIL want {errLine t}"

/-! ### whole expression trees (c07.queries) -/

inductive TreeRes where
  | num (n : SNum)
  | err (t : Term)
  | free                    -- some operation on the way is not covered by the property

/-- inside a tree an underflowing operation raises underflow (what the code does; the property allows it) -/
def ofWant (w : Want) : TreeRes :=
  match w with
  | .num n => .num n
  | .numOrUnderflow _ => .err (evaluationErr "underflow")
  | .err t => .err t
  | .free => .free

def notEvaluable (name : String) (arity : Nat) : Term :=
  typeErr "evaluable" (Term.a2 "/" (.atom name) (.int arity))

def unaryNames : List String := ["-", "abs", "sign", "float_integer_part", "float_fractional_part", "float", "floor",
  "truncate", "round", "ceiling", "sin", "cos", "atan", "exp", "log", "sqrt", "\\", "+", "asin", "acos", "tan"]
def binaryNames : List String := ["+", "-", "*", "//", "/", "rem", "mod", "**", ">>", "<<", "/\\", "\\/", "div", "max",
  "min", "^", "atan2", "xor"]

/-- value of an expression tree according to the property: left to right, first error wins.
    An underflowing operation is treated as raising underflow (what the code does).
    Second component: the known-deviation triggers met on the way. -/
def specEval : Term → TreeRes × List String
  | .var _ => (.err instErr, [])
  | .atom a => if a = "pi" then (.num (.flt (Float.ofBits 0x400921FB54442D18)), []) else (.err (notEvaluable a 0), [])
  | .int i => (.num (.int i), [])
  | .flt b => (.num (.flt (Float.ofBits b)), [])
  | .str _ => (.free, [])
  | .app f (.cons a .nil) =>
    if !unaryNames.contains f then (.err (notEvaluable f 1), []) else
    match specEval a with
    | (.num x, ts) => (ofWant (wantUnary f x), ts)
    | r => r
  | .app f (.cons a (.cons b .nil)) =>
    if !binaryNames.contains f then (.err (notEvaluable f 2), []) else
    match specEval a with
    | (.num x, ts) =>
      match specEval b with
      | (.num y, ts') => (ofWant (wantBinary f x y), ts ++ ts' ++ triggersBinary f x y)
      | (r, ts') => (r, ts ++ ts')
    | r => r
  | .app f as => (.err (notEvaluable f as.length), [])

def parseNum : Term → Option SNum
  | .int i => some (.int i)
  | .flt b => some (.flt (Float.ofBits b))
  | _ => none

end PrologVerif.Driver.C07
