/-
  Lemmas for C02: `unify` preserves the solution set exactly.
-/
import PrologVerif.Spec.Subst
namespace PrologVerif

theorem Env.lookup_bind (e : Env) (v w : Nat) (t : Term) :
    (e.bind v t).lookup w = if v = w then some t else e.lookup w := rfl

theorem resolve_sol : ∀ (n : Nat) (e : Env) (t t' : Term) (θ : Subst),
    resolve n e t = some t' → Sol e θ → t'.subst θ = t.subst θ
  | 0, e, .var v, t', θ, h, _ => by simp [resolve] at h
  | n + 1, e, .var v, t', θ, h, hs => by
    simp only [resolve] at h
    split at h
    · simp at h; subst h; rfl
    · rename_i t2 hl
      rw [resolve_sol n e t2 t' θ h hs]
      simp [Term.subst, hs v t2 hl]
  | _, e, .atom s, t', θ, h, _ => by simp [resolve] at h; subst h; rfl
  | _, e, .int s, t', θ, h, _ => by simp [resolve] at h; subst h; rfl
  | _, e, .flt s, t', θ, h, _ => by simp [resolve] at h; subst h; rfl
  | _, e, .str s, t', θ, h, _ => by simp [resolve] at h; subst h; rfl
  | _, e, .app f as, t', θ, h, _ => by simp [resolve] at h; subst h; rfl

theorem resolve_var_unbound : ∀ (n : Nat) (e : Env) (t : Term) (v : Nat),
    resolve n e t = some (.var v) → e.lookup v = none
  | 0, e, .var w, v, h => by simp [resolve] at h
  | n + 1, e, .var w, v, h => by
    simp only [resolve] at h
    split at h
    · rename_i hl; simp at h; subst h; exact hl
    · rename_i t2 _; exact resolve_var_unbound n e t2 v h
  | _, e, .atom s, v, h => by simp [resolve] at h
  | _, e, .int s, v, h => by simp [resolve] at h
  | _, e, .flt s, v, h => by simp [resolve] at h
  | _, e, .str s, v, h => by simp [resolve] at h
  | _, e, .app f as, v, h => by simp [resolve] at h

theorem sol_bind (e : Env) (v : Nat) (t : Term) (θ : Subst) (hv : e.lookup v = none) :
    Sol (e.bind v t) θ ↔ Sol e θ ∧ θ v = t.subst θ := by
  constructor
  · intro h
    constructor
    · intro w t' hw
      apply h w t'
      rw [Env.lookup_bind]
      by_cases hvw : v = w
      · subst hvw; rw [hv] at hw; cases hw
      · simp [hvw, hw]
    · apply h v t
      simp [Env.lookup_bind]
  · rintro ⟨h1, h2⟩ w t' hw
    rw [Env.lookup_bind] at hw
    by_cases hvw : v = w
    · subst hvw; simp at hw; subst hw; exact h2
    · simp [hvw] at hw; exact h1 w t' hw

/-! size argument for the occurs check -/

mutual
  theorem contains_size : ∀ (n : Nat) (e : Env) (t : Term) (v : Nat) (θ : Subst),
      contains n e t v = some true → Sol e θ → (θ v).size ≤ (t.subst θ).size
    | 0, _, _, _, _, h, _ => by simp [contains] at h
    | n + 1, e, .var w, v, θ, h, hs => by
      simp only [contains] at h
      split at h
      · rename_i hwv; subst hwv; simp [Term.subst]
      · split at h
        · simp at h
        · rename_i t2 hl
          have := contains_size n e t2 v θ h hs
          simpa [Term.subst, hs w t2 hl] using this
    | n + 1, e, .app f as, v, θ, h, hs => by
      simp only [contains] at h
      have := containsArgs_size n e as v θ h hs
      simp only [Term.subst, Term.size]
      omega
    | n + 1, e, .atom _, v, θ, h, _ => by simp [contains] at h
    | n + 1, e, .int _, v, θ, h, _ => by simp [contains] at h
    | n + 1, e, .flt _, v, θ, h, _ => by simp [contains] at h
    | n + 1, e, .str _, v, θ, h, _ => by simp [contains] at h
  theorem containsArgs_size : ∀ (n : Nat) (e : Env) (as : Args) (v : Nat) (θ : Subst),
      containsArgs n e as v = some true → Sol e θ → (θ v).size ≤ (as.subst θ).size
    | 0, _, _, _, _, h, _ => by simp [containsArgs] at h
    | n + 1, e, .nil, v, θ, h, _ => by simp [containsArgs] at h
    | n + 1, e, .cons t ts, v, θ, h, hs => by
      simp only [containsArgs] at h
      split at h
      · simp at h
      · rename_i ht
        have := contains_size n e t v θ ht hs
        simp only [Args.subst, Args.size]; omega
      · have := containsArgs_size n e ts v θ h hs
        simp only [Args.subst, Args.size]; omega
end

/-- what a finished unification run must satisfy, by outcome -/
def UnifySpec (e : Env) (x y : Term) (e' : Env) : Res → Prop
  | .ok => ∀ θ, Sol e' θ ↔ (Sol e θ ∧ x.subst θ = y.subst θ)
  | _ => ∀ θ, Sol e θ → x.subst θ ≠ y.subst θ

def UnifyArgsSpec (e : Env) (xs ys : Args) (e' : Env) : Res → Prop
  | .ok => ∀ θ, Sol e' θ ↔ (Sol e θ ∧ xs.subst θ = ys.subst θ)
  | _ => ∀ θ, Sol e θ → xs.subst θ ≠ ys.subst θ

theorem UnifySpec.congr {e e' : Env} {x y x' y' : Term} {r : Res}
    (hx : ∀ θ, Sol e θ → x'.subst θ = x.subst θ) (hy : ∀ θ, Sol e θ → y'.subst θ = y.subst θ)
    (h : UnifySpec e x' y' e' r) : UnifySpec e x y e' r := by
  cases r with
  | ok =>
    intro θ
    rw [h θ]
    constructor
    · rintro ⟨hs, heq⟩; exact ⟨hs, by rw [← hx θ hs, ← hy θ hs]; exact heq⟩
    · rintro ⟨hs, heq⟩; exact ⟨hs, by rw [hx θ hs, hy θ hs]; exact heq⟩
  | clash => intro θ hs heq; exact h θ hs (by rw [hx θ hs, hy θ hs]; exact heq)
  | occurs => intro θ hs heq; exact h θ hs (by rw [hx θ hs, hy θ hs]; exact heq)

theorem UnifySpec.symm {e e' : Env} {x y : Term} {r : Res}
    (h : UnifySpec e x y e' r) : UnifySpec e y x e' r := by
  cases r with
  | ok => intro θ; rw [h θ]; constructor <;> rintro ⟨a, b⟩ <;> exact ⟨a, b.symm⟩
  | clash => intro θ hs heq; exact h θ hs heq.symm
  | occurs => intro θ hs heq; exact h θ hs heq.symm

theorem Args.length_subst (θ : Subst) : ∀ as : Args, (as.subst θ).length = as.length
  | .nil => rfl
  | .cons _ ts => by simp [Args.subst, Args.length, Args.length_subst θ ts]

/-- case "x resolved to an unbound variable" of `unify` -/
theorem unify_var_case (n : Nat) (oc : Bool) (e : Env) (v : Nat) (y' : Term) (e' : Env) (r : Res)
    (hv : e.lookup v = none) (hy : ∀ w, y' = .var w → e.lookup w = none)
    (h : (if y' = .var v then some (e, Res.ok)
          else if oc = true then
            match contains n e y' v with
            | none => none
            | some true => some (e, Res.occurs)
            | some false => some (e.bind v y', Res.ok)
          else some (e.bind v y', Res.ok)) = some (e', r)) :
    UnifySpec e (.var v) y' e' r := by
  have hbind : ∀ e'' r', some (e.bind v y', Res.ok) = some (e'', r') →
      UnifySpec e (.var v) y' e'' r' := by
    intro e'' r' hh
    simp only [Option.some.injEq, Prod.mk.injEq] at hh
    obtain ⟨rfl, rfl⟩ := hh
    intro θ
    rw [sol_bind e v y' θ hv]
    simp [Term.subst]
  split at h
  · rename_i heq
    simp only [Option.some.injEq, Prod.mk.injEq] at h
    obtain ⟨rfl, rfl⟩ := h
    intro θ
    simp [heq]
  · rename_i hne
    split at h
    · split at h
      · simp at h
      · rename_i hc
        simp only [Option.some.injEq, Prod.mk.injEq] at h
        obtain ⟨rfl, rfl⟩ := h
        intro θ hs heq
        simp only [Term.subst] at heq
        cases y' with
        | var w =>
          cases n with
          | zero => simp [contains] at hc
          | succ m =>
            have hw : e.lookup w = none := hy w rfl
            simp only [contains, hw] at hc
            split at hc
            · rename_i hwv; subst hwv; exact hne rfl
            · simp at hc
        | app f as =>
          cases n with
          | zero => simp [contains] at hc
          | succ m =>
            simp only [contains] at hc
            have h2 := containsArgs_size m e as v θ hc hs
            rw [heq] at h2
            simp only [Term.subst, Term.size] at h2
            omega
        | atom _ => cases n <;> simp [contains] at hc
        | int _ => cases n <;> simp [contains] at hc
        | flt _ => cases n <;> simp [contains] at hc
        | str _ => cases n <;> simp [contains] at hc
      · exact hbind _ _ h
    · exact hbind _ _ h

/-- case "both resolved to compounds" of `unify`, given the statement for the argument lists -/
theorem unify_app_case (e : Env) (f g : String) (as bs : Args) (e' : Env) (r : Res)
    (res : Option (Env × Res))
    (hargs : ∀ e' r, res = some (e', r) → UnifyArgsSpec e as bs e' r)
    (h : (if f ≠ g then some (e, Res.clash)
          else if as.length ≠ bs.length then some (e, Res.clash)
          else res) = some (e', r)) :
    UnifySpec e (.app f as) (.app g bs) e' r := by
  split at h
  · rename_i hfg
    simp only [Option.some.injEq, Prod.mk.injEq] at h
    obtain ⟨rfl, rfl⟩ := h
    intro θ _ heq
    simp only [Term.subst, Term.app.injEq] at heq
    exact hfg heq.1
  · rename_i hfg
    have hfg' : f = g := Classical.not_not.mp hfg
    subst hfg'
    split at h
    · rename_i hlen
      simp only [Option.some.injEq, Prod.mk.injEq] at h
      obtain ⟨rfl, rfl⟩ := h
      intro θ _ heq
      simp only [Term.subst, Term.app.injEq, true_and] at heq
      have := congrArg Args.length heq
      rw [Args.length_subst, Args.length_subst] at this
      exact hlen this
    · have ha := hargs e' r h
      cases r with
      | ok => intro θ; rw [ha θ]; simp [Term.subst]
      | clash => intro θ hs heq; simp only [Term.subst, Term.app.injEq, true_and] at heq; exact ha θ hs heq
      | occurs => intro θ hs heq; simp only [Term.subst, Term.app.injEq, true_and] at heq; exact ha θ hs heq

/-- case "no variable involved, not both compound": Go's `x == y` -/
theorem unify_atomic_case (e : Env) (a b : Term) (e' : Env) (r : Res)
    (ha : ∀ v, a ≠ .var v) (hb : ∀ v, b ≠ .var v)
    (hab : ∀ f as g bs, a = .app f as → b = .app g bs → False)
    (h : some (e, if a = b then Res.ok else Res.clash) = some (e', r)) :
    UnifySpec e a b e' r := by
  simp only [Option.some.injEq, Prod.mk.injEq] at h
  obtain ⟨rfl, rfl⟩ := h
  split
  · rename_i heq; subst heq; intro θ; simp
  · rename_i hne
    intro θ _ heq
    cases a with
    | var v => exact ha v rfl
    | app f as =>
      cases b with
      | var v => exact hb v rfl
      | app g bs => exact hab f as g bs rfl rfl
      | _ => simp [Term.subst] at heq
    | atom s => cases b <;> simp_all [Term.subst]
    | int s => cases b <;> simp_all [Term.subst]
    | flt s => cases b <;> simp_all [Term.subst]
    | str s => cases b <;> simp_all [Term.subst]

mutual
  /-- **the central lemma of C02**: a finished run of `unify` (checked or unchecked) preserves the
      solution set exactly — on success `Sol e' = Sol e ∩ {θ | θ unifies x and y}`, on failure that
      intersection is empty -/
  theorem unify_spec : ∀ (n : Nat) (oc : Bool) (e : Env) (x y : Term) (e' : Env) (r : Res),
      unify n oc e x y = some (e', r) → UnifySpec e x y e' r
    | 0, _, _, _, _, _, _, h => by simp [unify] at h
    | n + 1, oc, e, x, y, e', r, h => by
      simp only [unify] at h
      split at h
      · rename_i x' y' hx hy
        have hx' : ∀ θ, Sol e θ → x'.subst θ = x.subst θ := fun θ hs => resolve_sol n e x x' θ hx hs
        have hy' : ∀ θ, Sol e θ → y'.subst θ = y.subst θ := fun θ hs => resolve_sol n e y y' θ hy hs
        refine UnifySpec.congr hx' hy' ?_
        clear hx' hy'
        split at h
        · rename_i v
          exact unify_var_case n oc e v y' e' r (resolve_var_unbound n e x v hx)
            (fun w hw => resolve_var_unbound n e y w (hw ▸ hy)) h
        · exact (unify_spec n oc e _ x' e' r h).symm
        · rename_i f as g bs
          exact unify_app_case e f g as bs e' r _ (fun e' r h => unifyArgs_spec n oc e as bs e' r h) h
        · rename_i h1 h2 h3
          exact unify_atomic_case e x' y' e' r (fun v hv => h1 v hv) (fun v hv => h2 v hv) h3 h
      · simp at h
  theorem unifyArgs_spec : ∀ (n : Nat) (oc : Bool) (e : Env) (xs ys : Args) (e' : Env) (r : Res),
      unifyArgs n oc e xs ys = some (e', r) → UnifyArgsSpec e xs ys e' r
    | 0, _, _, _, _, _, _, h => by simp [unifyArgs] at h
    | n + 1, oc, e, .nil, .nil, e', r, h => by
      simp only [unifyArgs, Option.some.injEq, Prod.mk.injEq] at h
      obtain ⟨rfl, rfl⟩ := h
      intro θ; simp
    | n + 1, oc, e, .nil, .cons _ _, e', r, h => by
      simp only [unifyArgs, Option.some.injEq, Prod.mk.injEq] at h
      obtain ⟨rfl, rfl⟩ := h
      intro θ _ heq; simp [Args.subst] at heq
    | n + 1, oc, e, .cons _ _, .nil, e', r, h => by
      simp only [unifyArgs, Option.some.injEq, Prod.mk.injEq] at h
      obtain ⟨rfl, rfl⟩ := h
      intro θ _ heq; simp [Args.subst] at heq
    | n + 1, oc, e, .cons a as, .cons b bs, e', r, h => by
      simp only [unifyArgs] at h
      split at h
      · simp at h
      · rename_i e1 h1
        have hu := unify_spec n oc e a b e1 .ok h1
        have ha := unifyArgs_spec n oc e1 as bs e' r h
        cases r with
        | ok =>
          intro θ
          rw [ha θ, hu θ]
          simp only [Args.subst, Args.cons.injEq]
          constructor
          · rintro ⟨⟨h1, h2⟩, h3⟩; exact ⟨h1, h2, h3⟩
          · rintro ⟨h1, h2, h3⟩; exact ⟨⟨h1, h2⟩, h3⟩
        | clash =>
          intro θ hs heq
          simp only [Args.subst, Args.cons.injEq] at heq
          exact ha θ ((hu θ).mpr ⟨hs, heq.1⟩) heq.2
        | occurs =>
          intro θ hs heq
          simp only [Args.subst, Args.cons.injEq] at heq
          exact ha θ ((hu θ).mpr ⟨hs, heq.1⟩) heq.2
      · rename_i e1 r1 hne h1
        simp only [Option.some.injEq, Prod.mk.injEq] at h
        obtain ⟨rfl, rfl⟩ := h
        have hu := unify_spec n oc e a b e1 r1 h1
        cases r1 with
        | ok => exact absurd rfl hne
        | clash => intro θ hs heq; simp only [Args.subst, Args.cons.injEq] at heq; exact hu θ hs heq.1
        | occurs => intro θ hs heq; simp only [Args.subst, Args.cons.injEq] at heq; exact hu θ hs heq.1
end

end PrologVerif
