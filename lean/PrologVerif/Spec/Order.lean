/-
  Specification of the standard order of terms (ISO 7.2, as this engine fixes the open points)
  and of what sort/2 and keysort/2 must return.  Independent of Model/Order.lean: written as the
  textbook definition (type rank first, then by value inside a type), atoms by CODE POINTS,
  floats by their position on the real line.

  Core Lean only (linked into the driver: these functions judge the implementation's output).
-/
import PrologVerif.Basic
namespace PrologVerif.OrderSpec
open PrologVerif

/-- Var < Float < Integer < Atom < stream < Compound -/
def rank : Term → Nat
  | .var _ => 0
  | .flt _ => 1
  | .int _ => 2
  | .atom _ => 3
  | .str _ => 4
  | .app _ _ => 5

/-- a NaN bit pattern: exponent all ones, mantissa non-zero -/
def isNaN (b : UInt64) : Bool := decide (0x7FF0000000000000 < b.toNat % 2 ^ 63)

/-- position of a (non-NaN) double on the real line: sign and magnitude; -0.0 and 0.0 coincide -/
def floatKey (b : UInt64) : Int :=
  if 2 ^ 63 ≤ b.toNat then - ((b.toNat % 2 ^ 63 : Nat) : Int) else ((b.toNat % 2 ^ 63 : Nat) : Int)

def cmpOfLt {α : Type} (lt : α → α → Prop) [DecidableRel lt] (x y : α) : Ordering :=
  if lt x y then .lt else if lt y x then .gt else .eq

/-- lexicographic order of two texts by code point; a proper prefix is smaller -/
def cmpCodePoints : List Char → List Char → Ordering
  | [], [] => .eq
  | [], _ :: _ => .lt
  | _ :: _, [] => .gt
  | c :: cs, d :: ds => (cmpOfLt (· < ·) c.toNat d.toNat).then (cmpCodePoints cs ds)

mutual
  /-- the standard order -/
  def stdCompare : Term → Term → Ordering
    | .var v, .var w => cmpOfLt (· < ·) v w
    | .flt f, .flt g => cmpOfLt (· < ·) (floatKey f) (floatKey g)
    | .int i, .int j => cmpOfLt (· < ·) i j
    | .atom a, .atom b => cmpCodePoints a.toList b.toList
    | .str s, .str u => cmpOfLt (· < ·) s u
    | .app f as, .app g bs =>
      (cmpOfLt (· < ·) as.length bs.length).then
        ((cmpCodePoints f.toList g.toList).then (stdCompareArgs as bs))
    | x, y => cmpOfLt (· < ·) (rank x) (rank y)
  /-- argument lists, left to right (lexicographic) -/
  def stdCompareArgs : Args → Args → Ordering
    | .nil, .nil => .eq
    | .nil, .cons _ _ => .lt
    | .cons _ _, .nil => .gt
    | .cons a as, .cons b bs => (stdCompare a b).then (stdCompareArgs as bs)
end

mutual
  /-- structurally identical terms (what `==` means), floats by IEEE `==` (so 0.0 and -0.0 are
      identical, see DESIGN §5 "Float identity") -/
  def identical : Term → Term → Bool
    | .var v, .var w => v == w
    | .flt f, .flt g => !isNaN f && !isNaN g && floatKey f == floatKey g
    | .int i, .int j => i == j
    | .atom a, .atom b => a == b
    | .str s, .str u => s == u
    | .app f as, .app g bs => f == g && identicalArgs as bs
    | _, _ => false
  def identicalArgs : Args → Args → Bool
    | .nil, .nil => true
    | .cons a as, .cons b bs => identical a b && identicalArgs as bs
    | _, _ => false
end

mutual
  /-- no float inside the term is a NaN (an invariant of every term the engine can build once
      arithmetic never returns NaN/Inf — C07; on the pinned tree D4 breaks it) -/
  def noNaN : Term → Bool
    | .flt f => !isNaN f
    | .app _ as => noNaNArgs as
    | _ => true
  def noNaNArgs : Args → Bool
    | .nil => true
    | .cons t ts => noNaN t && noNaNArgs ts
end

mutual
  /-- the comparison of `x` and `y` reaches a pair of DISTINCT unbound variables before it is
      decided — the one situation whose outcome the property leaves implementation dependent -/
  def hingesOnVars : Term → Term → Bool
    | .var v, .var w => v != w
    | .app f as, .app g bs =>
      if as.length = bs.length ∧ f = g then hingesOnVarsArgs as bs else false
    | _, _ => false
  def hingesOnVarsArgs : Args → Args → Bool
    | .cons a as, .cons b bs =>
      if hingesOnVars a b then true else if identical a b then hingesOnVarsArgs as bs else false
    | _, _ => false
end

/-- canonical bit pattern of a float under `==`: -0.0 becomes 0.0 -/
def normBits (b : UInt64) : UInt64 := if b = 0x8000000000000000 then 0 else b

mutual
  /-- canonical form of a term under "identical modulo float ==": every -0.0 replaced by 0.0 -/
  def normZero : Term → Term
    | .flt b => .flt (normBits b)
    | .app f as => .app f (normZeroArgs as)
    | t => t
  def normZeroArgs : Args → Args
    | .nil => .nil
    | .cons t ts => .cons (normZero t) (normZeroArgs ts)
end

mutual
  /-- rename the variables of a term -/
  def renameVars (ρ : Nat → Nat) : Term → Term
    | .var v => .var (ρ v)
    | .app f as => .app f (renameVarsArgs ρ as)
    | t => t
  def renameVarsArgs (ρ : Nat → Nat) : Args → Args
    | .nil => .nil
    | .cons t ts => .cons (renameVars ρ t) (renameVarsArgs ρ ts)
end

/-! ## what the sorting built-ins must return -/

section Sorting
variable {α : Type} (cmp : α → α → Ordering)

/-- ascending (non-strictly): no later element is smaller than an earlier one.
    This is the contract of Go's `sort.Slice` / `sort.SliceStable` for a strict weak order `less`:
    `!less(x[j], x[i])` for all i < j. -/
def Ascending (l : List α) : Prop := l.Pairwise (fun a b => cmp b a ≠ .lt)

/-- strictly ascending: sorted and duplicate-free w.r.t. the order -/
def StrictAscending (l : List α) : Prop := l.Pairwise (fun a b => cmp a b = .lt)

/-- same elements up to `=` of the order -/
def SameElems (l r : List α) : Prop :=
  (∀ x ∈ l, ∃ y ∈ r, cmp x y = .eq) ∧ (∀ y ∈ r, ∃ x ∈ l, cmp x y = .eq)

/-- `r` is a sort/2 result for `l` -/
def IsSetOf (l r : List α) : Prop := StrictAscending cmp r ∧ SameElems cmp l r

/-- element-wise `=` of the order -/
def EqvLists : List α → List α → Prop
  | [], [] => True
  | a :: as, b :: bs => cmp a b = .eq ∧ EqvLists as bs
  | _, _ => False

/-- `r` is a stable sort of `l`: an ascending permutation in which, for every element, the
    subsequence of the elements equivalent to it is the same as in `l` (same relative order).
    This is the contract of `sort.SliceStable`. -/
def IsStableSortOf (l r : List α) : Prop :=
  r.Perm l ∧ Ascending cmp r ∧
  ∀ x ∈ l, r.filter (fun y => cmp x y == .eq) = l.filter (fun y => cmp x y == .eq)

end Sorting

/-! executable checks used by the driver's verdict -/

def strictAscendingB : List Term → Bool
  | [] => true
  | [_] => true
  | a :: b :: rest => (stdCompare a b == .lt) && strictAscendingB (b :: rest)

def sameElemsB (l r : List Term) : Bool :=
  l.all (fun x => r.any (fun y => stdCompare x y == .eq)) &&
  r.all (fun y => l.any (fun x => stdCompare x y == .eq))

def ascendingByB (key : Term → Term) : List Term → Bool
  | [] => true
  | [_] => true
  | a :: b :: rest => (stdCompare (key a) (key b) != .gt) && ascendingByB key (b :: rest)

end PrologVerif.OrderSpec
