/-
  Proofs/ArithPow — `intPow` (the translated square-and-multiply loop of number.go) computes the exact
  power or reports int_overflow, for every base and every non-negative exponent; the loop never runs
  out of its 64 units of fuel and never reports a spurious overflow from the last squaring.
-/
import PrologVerif.Proofs.Arith
namespace PrologVerif.ArithProofs
open PrologVerif.Arith PrologVerif.Generated.Arith
open PrologVerif.Spec.ExactArith (Outcome inRange checked)

theorem toBV_one : (1 : I64).toBV = 1#64 := by decide

theorem and_one_val (b : I64) : (I64.and b 1).val = b.val % 2 := by
  have hb := b.inRange
  unfold I64.and I64.ofBV
  rw [toBV_one]
  simp only [I64.val_ofInt]
  have h1 : (b.toBV &&& 1#64).toNat = b.toBV.toNat % 2 := by
    rw [BitVec.toNat_and]; simp [Nat.and_one_is_mod]
  have h2 : b.toBV.toNat = (b.val % 18446744073709551616).toNat := by
    unfold I64.toBV; simp [BitVec.toNat_ofInt]
  have h3 : (b.toBV &&& 1#64).toInt = ((b.toBV &&& 1#64).toNat : Int) := by
    rw [BitVec.toInt_eq_toNat_cond]
    split
    · rfl
    · omega
  rw [h3, h1, h2]
  unfold wrap InRange at *
  omega

theorem goShr_one (b : I64) : liftP (goShr b 1) = .ok (.ofInt (b.val / 2)) := by
  unfold goShr
  simp

/-! arithmetic facts -/

theorem not_inRange_mul_of_one_le {P K : Int} (hP : ¬ inRange P) (hK : 1 ≤ K) : ¬ inRange (P * K) := by
  rw [inRange_iff] at *
  by_cases h : P < -9223372036854775808
  · have : P * K ≤ P * 1 := Int.mul_le_mul_of_nonpos_left (by omega) hK
    omega
  · have : P * 1 ≤ P * K := Int.mul_le_mul_of_nonneg_left hK (by omega)
    omega

theorem sq_not_inRange {a : Int} (h : ¬ inRange (a * a)) : 9223372036854775809 ≤ a * a := by
  rw [inRange_iff] at h
  have h0 : 0 ≤ a * a := by
    rcases Int.le_total 0 a with h | h
    · exact Int.mul_nonneg h h
    · have := Int.mul_nonneg (Int.neg_nonneg.2 h) (Int.neg_nonneg.2 h)
      rwa [Int.neg_mul_neg] at this
  -- 2^63 is not a square: 3037000499^2 < 2^63 < 3037000500^2
  by_cases hlt : a * a = 9223372036854775808
  · exfalso
    rcases Int.le_total 0 a with hp | hn
    · by_cases hs : a ≤ 3037000499
      · have := Int.mul_le_mul hs hs hp (by omega : (0:Int) ≤ 3037000499)
        omega
      · have hs' : 3037000500 ≤ a := by omega
        have := Int.mul_le_mul hs' hs' (by omega) hp
        omega
    · have hp : 0 ≤ -a := by omega
      have e : a * a = (-a) * (-a) := by rw [Int.neg_mul_neg]
      by_cases hs : -a ≤ 3037000499
      · have := Int.mul_le_mul hs hs hp (by omega : (0:Int) ≤ 3037000499)
        omega
      · have hs' : 3037000500 ≤ -a := by omega
        have := Int.mul_le_mul hs' hs' (by omega) hp
        omega
  · omega

theorem not_inRange_mul_big {r M : Int} (hr : r ≠ 0) (hM : 9223372036854775809 ≤ M) : ¬ inRange (r * M) := by
  rw [inRange_iff]
  by_cases h : 1 ≤ r
  · have : 1 * M ≤ r * M := Int.mul_le_mul_of_nonneg_right h (by omega)
    omega
  · have h' : r ≤ -1 := by omega
    have : r * M ≤ -1 * M := Int.mul_le_mul_of_nonneg_right h' (by omega)
    omega

theorem one_le_pow_of_one_le {M : Int} (h : 1 ≤ M) (n : Nat) : 1 ≤ M ^ n := by
  induction n with
  | zero => simp
  | succ k ih =>
    rw [Int.pow_succ]
    have : 1 * 1 ≤ M ^ k * M := Int.mul_le_mul ih h (by omega) (by omega)
    omega

theorem le_pow_succ {M : Int} (h : 1 ≤ M) (n : Nat) : M ≤ M ^ (n + 1) := by
  rw [Int.pow_succ]
  have := one_le_pow_of_one_le h n
  have : 1 * M ≤ M ^ n * M := Int.mul_le_mul_of_nonneg_right this (by omega)
  omega

theorem sq_eq (a : Int) : a ^ 2 = a * a := by
  rw [Int.pow_succ, Int.pow_succ, Int.pow_zero, Int.one_mul]

theorem pow_even (a : Int) (m : Nat) : a ^ (2 * m) = (a * a) ^ m := by
  rw [Int.pow_mul, sq_eq]

theorem pow_odd (a : Int) (m : Nat) : a ^ (2 * m + 1) = a * (a * a) ^ m := by
  rw [Int.pow_succ, pow_even, Int.mul_comm]

theorem outcome_bind_error {e : Err} {f : I64 → Except Err I64} :
    Except.bind (.error e) f = .error e := rfl

theorem outcome_ok_iff {r : Except Err I64} {z : Int} (h : outcome r = some (.value z)) :
    ∃ v, r = .ok v ∧ v.val = z := by
  unfold outcome at h
  split at h <;> simp at h
  exact ⟨_, rfl, h⟩

theorem outcome_ovf_iff {r : Except Err I64} (h : outcome r = some (.evalError "int_overflow")) :
    r = .error (.ev .intOverflow) := by
  unfold outcome at h
  split at h <;> simp at h
  rename_i e
  cases e <;> simp [ExcVal.atom] at h
  rfl


theorem mul_ne_zero_int {a b : Int} (ha : a ≠ 0) (hb : b ≠ 0) : a * b ≠ 0 := by
  intro h
  rcases Int.mul_eq_zero.1 h with h | h <;> contradiction

theorem one_le_sq {a : Int} (ha : a ≠ 0) : 1 ≤ a * a := by
  rcases Int.lt_or_gt_of_ne ha with h | h
  · have : 1 * 1 ≤ (-a) * (-a) := Int.mul_le_mul (by omega) (by omega) (by omega) (by omega)
    rwa [Int.neg_mul_neg] at this
  · have : 1 * 1 ≤ a * a := Int.mul_le_mul (by omega) (by omega) (by omega) (by omega)
    omega

/-- the tail of one iteration (after the optional multiplication), shared by both branches -/
theorem intPow_tail (fuel : Nat) (a b r' : I64) (e : Int) (hb0 : 0 ≤ b.val)
    (hinv' : r'.val ≠ 0 ∨ a.val = 0)
    (he : e = r'.val * (a.val * a.val) ^ (b.val / 2).toNat)
    (he0 : b.val / 2 = 0 → e = r'.val)
    (IH : ∀ a' r' : I64, b.val / 2 ≠ 0 → (r'.val ≠ 0 ∨ a'.val = 0) →
      outcome (intPow_loop fuel a' (I64.ofInt (b.val / 2)) r') =
        some (checked (r'.val * a'.val ^ (b.val / 2).toNat))) :
    outcome (Except.bind (liftP (goShr b 1)) fun t =>
        let b : I64 := t
        if b = 0 then .ok r' else Except.bind (mulI a a) fun a => intPow_loop fuel a b r') =
      some (checked e) := by
  have hbr := b.inRange
  have hb2r : InRange (b.val / 2) := by unfold InRange at *; omega
  rw [goShr_one]
  simp only [Except.bind]
  by_cases hz : b.val / 2 = 0
  · have : I64.ofInt (b.val / 2) = 0 := by rw [I64.ext_iff, hz]; rfl
    rw [if_pos this, he0 hz, checked_pos r'.inRange]; rfl
  · have : ¬ I64.ofInt (b.val / 2) = 0 := by
      rw [I64.ext_iff, I64.val_ofInt, wrap_eq_self hb2r]; exact hz
    rw [if_neg this]
    have hma := mulI_exact a a
    unfold S.mul Spec.ExactArith.mul at hma
    have hm1 : 1 ≤ (b.val / 2).toNat := by omega
    obtain ⟨m, hm⟩ : ∃ m, (b.val / 2).toNat = m + 1 := ⟨(b.val / 2).toNat - 1, by omega⟩
    by_cases haa : inRange (a.val * a.val)
    · rw [checked_pos haa] at hma
      obtain ⟨a', ha', ha'v⟩ := outcome_ok_iff hma
      rw [ha']
      simp only []
      have hinv2 : r'.val ≠ 0 ∨ a'.val = 0 := by
        rcases hinv' with h | h
        · exact Or.inl h
        · right; rw [ha'v, h]; rfl
      rw [IH a' r' hz hinv2, he, ha'v]
    · rw [checked_neg haa] at hma
      rw [outcome_ovf_iff hma]
      have hane : a.val ≠ 0 := by
        intro h; apply haa; rw [h]; decide
      have hr'ne : r'.val ≠ 0 := by
        rcases hinv' with h | h
        · exact h
        · exact absurd h hane
      have hbig := sq_not_inRange haa
      have h1 : 1 ≤ a.val * a.val := by omega
      have hge : a.val * a.val ≤ (a.val * a.val) ^ (b.val / 2).toNat := by
        rw [hm]; exact le_pow_succ h1 m
      rw [he, checked_neg (not_inRange_mul_big hr'ne (by omega))]
      rfl

theorem intPow_step (fuel : Nat) (a b r : I64) (hb0 : 0 ≤ b.val) (hinv : r.val ≠ 0 ∨ a.val = 0)
    (IH : ∀ a' r' : I64, b.val / 2 ≠ 0 → (r'.val ≠ 0 ∨ a'.val = 0) →
      outcome (intPow_loop fuel a' (I64.ofInt (b.val / 2)) r') =
        some (checked (r'.val * a'.val ^ (b.val / 2).toNat))) :
    outcome (intPow_loop (fuel + 1) a b r) = some (checked (r.val * a.val ^ b.val.toNat)) := by
  have hbr := b.inRange
  have hand := and_one_val b
  rw [intPow_loop]
  split
  · -- low bit set
    rename_i hbit
    have hodd : b.val % 2 = 1 := by
      rw [ne_eq, I64.ext_iff, hand] at hbit; simp at hbit; omega
    have hn : b.val.toNat = 2 * (b.val / 2).toNat + 1 := by omega
    have hpow : r.val * a.val ^ b.val.toNat = (r.val * a.val) * (a.val * a.val) ^ (b.val / 2).toNat := by
      rw [hn, pow_odd, Int.mul_assoc]
    have hm := mulI_exact r a
    unfold S.mul Spec.ExactArith.mul at hm
    by_cases hra : inRange (r.val * a.val)
    · rw [checked_pos hra] at hm
      obtain ⟨r', hr', hr'v⟩ := outcome_ok_iff hm
      rw [hr']
      simp only [Except.bind]
      have hinv' : r'.val ≠ 0 ∨ a.val = 0 := by
        rcases hinv with h | h
        · by_cases ha : a.val = 0
          · exact Or.inr ha
          · left; rw [hr'v]; exact mul_ne_zero_int h ha
        · exact Or.inr h
      have := intPow_tail fuel a b r' (r.val * a.val ^ b.val.toNat) hb0 hinv'
        (by rw [hpow, hr'v])
        (by intro hz; rw [hpow, hz, hr'v]; simp)
        IH
      simpa only [Except.bind] using this
    · rw [checked_neg hra] at hm
      rw [outcome_ovf_iff hm]
      have hane : a.val ≠ 0 := by
        intro h; apply hra; rw [h, Int.mul_zero]; decide
      have h1 := one_le_sq hane
      rw [hpow, checked_neg (not_inRange_mul_of_one_le hra (one_le_pow_of_one_le h1 _))]
      rfl
  · -- low bit clear
    rename_i hbit
    have heven : b.val % 2 = 0 := by
      rw [ne_eq, Classical.not_not, I64.ext_iff, hand] at hbit; simpa using hbit
    have hn : b.val.toNat = 2 * (b.val / 2).toNat := by omega
    have hpow : r.val * a.val ^ b.val.toNat = r.val * (a.val * a.val) ^ (b.val / 2).toNat := by
      rw [hn, pow_even]
    have := intPow_tail fuel a b r (r.val * a.val ^ b.val.toNat) hb0 hinv
      (by rw [hpow])
      (by intro hz; rw [hpow, hz]; simp)
      IH
    simpa only [Except.bind] using this

theorem intPow_loop_exact : ∀ (k : Nat) (a b r : I64), 0 ≤ b.val → b.val < 2 ^ k → (r.val ≠ 0 ∨ a.val = 0) →
    outcome (intPow_loop (k + 1) a b r) = some (checked (r.val * a.val ^ b.val.toNat)) := by
  intro k
  induction k with
  | zero =>
    intro a b r hb0 hbk hinv
    apply intPow_step 0 a b r hb0 hinv
    intro a' r' hz
    exfalso; simp at hbk; omega
  | succ k ih =>
    intro a b r hb0 hbk hinv
    apply intPow_step (k + 1) a b r hb0 hinv
    intro a' r' hz hinv'
    have hbr := b.inRange
    have hb2r : InRange (b.val / 2) := by unfold InRange at *; omega
    have hv : (I64.ofInt (b.val / 2)).val = b.val / 2 := by rw [I64.val_ofInt, wrap_eq_self hb2r]
    have := ih a' (I64.ofInt (b.val / 2)) r' (by rw [hv]; omega) (by rw [hv, Int.pow_succ] at *; omega) hinv'
    rw [hv] at this
    exact this

theorem intPow_exact (a b : I64) (hb : 0 ≤ b.val) :
    outcome (intPow a b) = some (S.pow a.val b.val) := by
  unfold intPow S.pow Spec.ExactArith.pow
  rw [if_pos hb]
  have := intPow_loop_exact 63 a b 1 hb (by have := b.inRange; unfold InRange at this; omega) (Or.inl (by decide))
  simpa using this

end PrologVerif.ArithProofs
