/-
  Refine — THE VM MODEL REFINES THE REFERENCE INTERPRETER (property C01) on the Horn fragment
  (stage 1, `vm_refines_sld_horn`) and on Horn clauses with cut (stage 2, `vm_refines_sld_cut`).

  For every program and query of the fragment (`HornFrag`: Horn clauses over user predicates —
  defined or not —, `true`, `=`/2, conjunctions; arbitrary argument terms; `CutFrag`: + `!`), every
  `max ≥ 1` and all fuels: if `VM.runQuery` (the trampoline over the compiled clauses, bootstrap
  loaded, query compiled by `callGoal`, run on the query shifted by 10 as `Driver.C01.vmLine` does)
  and `SLD.solveQuery` (the reference interpreter, engine cut semantics) both return, then they
  return the same answers in the same order, up to renaming of variables, and end the same way.
-/
import PrologVerif.Proofs.RefineQuery
namespace PrologVerif.Refine
open PrologVerif PrologVerif.VM PrologVerif.DecompileCompile PrologVerif.Activation
  PrologVerif.RefineITree PrologVerif.RefineRobinson PrologVerif.VMScoped
  PrologVerif.Promise PrologVerif.DFSG PrologVerif.ForceDFSGConv

/-- the two ways a query ends agree (what `Driver.C01.showVMEnd` / `showEnd` print is the same) -/
def endAgree : VM.End → SLD.End → Prop
  | .exhausted, .exhausted => True
  | .more, .more => True
  | .err f1, .err f2 => f1.canon = f2.canon
  | .ball t1, .ball t2 => t1.canon = t2.canon
  | _, _ => False

/-- the state `runQuery` starts the search in -/
def startM (prog : List Term) : MS := { user := initState prog none }

theorem queryPromise_eq (prog : List Term) (query : Term) (max : Nat) (hb : bodyOK query = true)
    (hw : wfT query = true) :
    queryPromise prog (SLD.shift 10 query) max none =
      (({ id := 1, delayed := [Thunk.clause (clauseOf (qClause (SLD.shift 10 query)))
          (argList (qHead (SLD.shift 10 query))) (.collect (SLD.shift 10 query) max) [] 1] } : Pr),
       { startM prog with user := { (startM prog).user with nextId := 2 } }) := by
  unfold queryPromise
  have hb' : bodyOK (SLD.shift 10 query) = true := by rw [bodyOK_shift]; exact hb
  have hw' : wfT (SLD.shift 10 query) = true := by rw [shift_eq_rename, wfT_rename]; exact hw
  rw [callGoal_query _ _ _ hb' hw']
  simp only [clausesCall, freshId, List.map_cons, List.map_nil, startM, initState_nextId]

theorem grel_of_body {lv : Lv} {σ' : Subst} {π' : Nat → Nat} {D' : Nat → Prop} {id : Nat} (query : Term)
    (hid : lv.lev id = some 0) :
    ∀ (cs : List Term) (G1 : List (Term × Nat)),
      (∀ c ∈ cs, ∀ v, (SLD.shift 10 c).hasVar v = true → (SLD.shift 10 query).hasVar v = true) →
      Forall2 (fun g1 bg => InD D' g1.1 ∧ g1.2 = id ∧ img σ' π' g1.1 = (bg.rename (· - 10)).subst (tau0 query)) G1
        (cs.map (SLD.shift 10)) →
      GRel lv σ' π' D' G1 (cs.map (SLD.Frame.goal · 0))
  | [], G1, _, h => by cases h; exact .nil
  | c :: cs, G1, hv, h => by
    cases h with
    | cons hd' htl =>
      refine .cons ⟨hd'.1, 0, ?_, fun _ => by rw [hd'.2.1]; exact hid⟩
        (grel_of_body query hid cs _ (fun c' hc' => hv c' (by simp [hc'])) htl)
      rw [hd'.2.2, tau0_b query (hv c (by simp)), unshift]

theorem shift_conjunct_vars {query c : Term} (hc : c ∈ SLD.conjuncts query) {v : Nat}
    (hv : (SLD.shift 10 c).hasVar v = true) : (SLD.shift 10 query).hasVar v = true := by
  obtain ⟨u, hu, rfl⟩ := hasVar_shift hv
  rw [shift_eq_rename]
  exact hasVar_rename_of (π := (· + 10)) (conjuncts_vars hc hu)

/-- **the search of the query**: the VM's search of the query's promise against the reference's
    `solve` on the query's conjuncts -/
theorem vm_query (prog : List Term) (query : Term) (max : Nat) (hfrag : CutFrag prog query) (hmax : 0 < max)
    (F k : Nat) (sig : SigG Err) (m' : MS)
    (hd : dfsP (VM.sem F) 0 k (queryPromise prog (SLD.shift 10 query) max none).1 []
      (queryPromise prog (SLD.shift 10 query) max none).2 = some (sig, m'))
    (n : Nat) (r1 : SLD.Res)
    (hs : SLD.solve false (progS prog) n 1 (SLD.maxVar query)
      ((SLD.conjuncts query).map (SLD.Frame.goal · 0)) query max = some r1) :
    sig = .illScoped ∨
      (Forall2 (AnsRel (SLD.shift 10 query)) m'.user.answers.reverse r1.answers ∧
        endAgree (endOf (ForceDFSG.toRes sig)) (sldEnd r1.stop)) := by
  obtain ⟨hprog, hb, hw, hsmall⟩ := hfrag
  let query' := SLD.shift 10 query
  let B := SLD.maxVar query
  have hb' : bodyOK query' = true := by show bodyOK (SLD.shift 10 query) = true; rw [bodyOK_shift]; exact hb
  have hw' : wfT query' = true := by show wfT (SLD.shift 10 query) = true; rw [shift_eq_rename, wfT_rename]; exact hw
  have hcq := clauseOK_qClause hb' hw'
  have hcr : CRel (clauseOf (qClause query')) (qHead query') query' := by
    have := (clauseOf_spec (qClause query') hcq).2
    simpa [qClause, headBody_rule] using this
  rw [queryPromise_eq prog query max hb hw] at hd
  obtain ⟨hnv0, hans0⟩ := initState_nextVar prog
  cases k with
  | zero => simp [dfsP] at hd
  | succ k0 =>
  rw [nocut' rfl (by simp) rfl] at hd
  cases k0 with
  | zero => simp [dfsAlts] at hd
  | succ k' =>
  have ih := (t_all (tmpl := query') (max := max) (prog := prog) (F := F) hprog k')
  have hf : afterChild ({ ({ id := 1, delayed := [Thunk.clause (clauseOf (qClause query')) (argList (qHead query'))
      (.collect query' max) [] 1] } : Pr) with cutParent := none }) = ({ id := 1, delayed := [] } : Pr) := by
    simp [afterChild]
  rw [hf] at hd
  generalize hms : tick ({ startM prog with user := { (startM prog).user with nextId := 2 } } : MS) = ms at hd
  have hmsv : ms.user.nextVar = 1000000 := by rw [← hms]; exact hnv0
  have hmsa : ms.user.answers = [] := by rw [← hms]; exact hans0
  have hmst : StOK prog ms := by rw [← hms]; exact ⟨rfl, by show 0 < 2; omega⟩
  cases hev : evalThunk F (Thunk.clause (clauseOf (qClause query')) (argList (qHead query')) (.collect query' max) [] 1) ms with
  | none => rw [dfsAlts_thunk_none (sem := VM.sem F) (by exact hev)] at hd; cases hd
  | some pr =>
  obtain ⟨q0, m1⟩ := pr
  -- the relation before the activation
  have hqv : ∀ v, query'.hasVar v = true → 10 ≤ v ∧ v - 10 < B := fun v hv => qvar_bounds query hv
  have hsim0 : SimW query' 1000000 [] (fun v => .var v) (· + B) (fun v => query'.hasVar v = true) (2 * B + 11) := by
    refine ⟨mg_nil _, chainOK_nil, by omega, ?_, ?_, ?_, fun v hv => hv⟩
    · intro v hv; have := hqv v hv; omega
    · intro x y _ _ hxy; simpa using hxy
    · rintro x ⟨v, hv, hx⟩
      simp only [Term.hasVar, beq_iff_eq] at hx
      subst hx
      have := hqv v hv
      show v + B < 2 * B + 11
      omega
  have hrv0 : ∀ u, RV (fun v => Term.var v) (fun v => query'.hasVar v = true) u → query'.hasVar u = true := by
    rintro u ⟨v, hv, hu⟩
    simp only [Term.hasVar, beq_iff_eq] at hu
    subst hu; exact hv
  have hcv : ∀ x, ((qHead query').hasVar x = true ∨ query'.hasVar x = true) → query'.hasVar x = true := by
    rintro x (hx | hx)
    · exact (qHead_hasVar query' x).1 hx
    · exact hx
  have hgD : InD (fun v => query'.hasVar v = true) (qHead query') := fun v hv => (qHead_hasVar query' v).1 hv
  have hτ : MguLike (img (fun v => .var v) (· + B) (qHead query')) ((qHead query').rename (· - 10)) (tau0 query) := by
    rw [img_id]
    exact tau0_mgu query (qHead_hasVar query')
  rcases thunk_head' (max := max) hcr hsim0 F (qHead query') (.collect query' max) 1 ms (q0, m1)
      (Nat.le_of_eq hmsv.symm) hgD (qHead_shape query') ⟨rfl, rfl⟩ hev (· - 10) (2 * B + 11) (Nat.le_refl _)
      (fun x y hx hy hxy => by
        have := hqv x (hcv x hx); have := hqv y (hcv y hy)
        have hxy' : x - 10 = y - 10 := hxy
        omega)
      (fun x u hx hu => by
        have := hqv x (hcv x hx); have := hqv u (hrv0 u hu)
        show u + B ≠ x - 10
        omega)
      (fun x hx => by
        have := hqv x (hcv x hx)
        show x - 10 < 2 * B + 11
        omega) with
    ⟨N', _, _, hno⟩ | ⟨fuel', env', N', K1, Bs, hN', hcont, hBs, _, hok⟩
  · exact absurd hτ.sound (hno (tau0 query))
  · obtain ⟨σ', π', D', G1, hW', hDD', heq, hcg, hbody, hDchar⟩ := hok (tau0 query) hτ
    -- images after the activation
    have himg0 : ∀ t, InD (fun v => query'.hasVar v = true) t → img σ' π' t = t.rename (· - 10) := by
      intro t ht
      rw [heq t ht, img_id]
      exact tau0_a query ht
    have hWB : SimW query' N' env' σ' π' D' B := by
      refine ⟨hW'.mg, hW'.chain, hW'.pos, hW'.dlt, hW'.inj, ?_, hW'.tmplD⟩
      rintro x ⟨v, hv, hx⟩
      have h1 : (img σ' π' (.var v)).hasVar (π' x) = true := by
        simpa [img, Term.subst] using hasVar_rename_of hx
      rcases hDchar v hv with hv0 | ⟨x0, hx0, hx0e⟩
      · rw [himg0 (.var v) (fun w hw => by simp only [Term.hasVar, beq_iff_eq] at hw; subst hw; exact hv0)] at h1
        simp only [Term.rename, Term.subst, Term.hasVar, beq_iff_eq] at h1
        have := hqv v hv0
        omega
      · rw [hx0e, tau0_b query (t := .var x0) (fun w hw => by
          simp only [Term.hasVar, beq_iff_eq] at hw; subst hw; exact hcv _ hx0)] at h1
        simp only [Term.rename, Term.subst, Term.hasVar, beq_iff_eq] at h1
        have := hqv x0 (hcv x0 hx0)
        omega
    have hq : query = img σ' π' query' := by
      rw [himg0 query' (fun v hv => hv)]
      exact (unshift 10 query).symm
    -- the level map below the query's own frame
    let lv1 : Lv := [(1, some 0)]
    have hlev1 : lv1.lev 1 = some 0 := lev_cons_self 1 (some 0) []
    have hok0 : LvOK ([] : Lv) 0 := ⟨List.nodup_nil, fun _ h => by simp at h, .nil, fun _ h => by simp at h⟩
    have hok1 : LvOK lv1 1 := hok0.push (by decide) (by simp)
    have hG1id : ∀ it ∈ G1, it.2 = 1 := forall2_left hbody (fun a b h => h.2.1)
    have hcoG1 : CutsOK lv1 (G1 ++ []) := by
      rw [List.append_nil]
      refine ⟨fun it hit _ => ⟨0, by rw [hG1id it hit]; exact hlev1⟩, ?_⟩
      have : ∀ it ∈ G1, it.2 = 1 := hG1id
      clear hbody hcg hDchar hok
      induction G1 with
      | nil => exact .nil
      | cons a G1 ihg =>
        refine List.pairwise_cons.2 ⟨?_, ihg (fun it hit => hG1id it (by simp [hit])) (fun it hit => this it (by simp [hit]))⟩
        intro b hb _ _ la lb hla hlb
        rw [this a (by simp), hlev1] at hla
        rw [this b (by simp [hb]), hlev1] at hlb
        simp only [Option.some.injEq] at hla hlb
        omega
    have hspec1 : PSpec query' max prog lv1 1 q0 m1 [] r1 ∧ StOK prog m1 ∧ N' ≤ m1.user.nextVar := by
      have hst' : StOK prog (bump ms N') := stOK_bump hmst N'
      have hans' : (bump ms N').user.answers = [] := hmsa
      rcases hBs with hBs | ⟨hBs, hbq⟩
      · have hgr : GRel lv1 σ' π' D' (G1 ++ []) ((SLD.conjuncts query).map (SLD.Frame.goal · 0)) := by
          rw [List.append_nil]
          have hconj : SLD.conjuncts query' = (SLD.conjuncts query).map (SLD.shift 10) := conjuncts_shift 10 query
          rw [← hBs, hconj] at hbody
          exact grel_of_body query hlev1 _ _ (fun c hc v hv => shift_conjunct_vars hc hv) hbody
        have := cont_run query' max prog hprog fuel' K1 env' (bump ms N') q0 m1 hcont lv1 _ query B
          ⟨N', σ', π', D', G1 ++ [], Nat.le_refl _, hWB, hcg [] .collect, hgr, hcoG1, hq, trivial⟩ hst' n 1 r1
          (by rw [hans']; exact hs)
        rw [hans'] at this
        exact this
      · -- the query is `true`: the reference runs it, the VM has nothing to do
        subst hBs
        cases hbody
        have hqt : query = .atom "true" := by
          have : SLD.shift 10 query = .atom "true" := hbq
          cases query <;> simp_all [SLD.shift]
        have hs' : SLD.solve false (progS prog) n 1 B [SLD.Frame.goal (.atom "true") 0] query max = some r1 := by
          have := hs
          show SLD.solve false (progS prog) n 1 (SLD.maxVar query) [SLD.Frame.goal (.atom "true") 0] query max = some r1
          rw [hqt] at this ⊢
          simpa [SLD.conjuncts, SLD.wrapVar] using this
        cases n with
        | zero => rw [solve_zero] at hs'; cases hs'
        | succ n' =>
          rw [solve_true] at hs'
          have := cont_run query' max prog hprog fuel' K1 env' (bump ms N') q0 m1 hcont lv1 [] query B
            ⟨N', σ', π', D', [], Nat.le_refl _, hWB, by simpa using hcg [] .collect, .nil, CutsOK.nil _, hq, trivial⟩
            hst' n' 1 r1 (by rw [hans']; exact hs')
          rw [hans'] at this
          exact this
    obtain ⟨hspec, hst1, hnv1⟩ := hspec1
    have hd' : dfsAlts (VM.sem F) 0 (k' + 1)
        (Thunk.clause (clauseOf (qClause query')) (argList (qHead query')) (.collect query' max) [] 1)
        ({ id := 1, delayed := [] } : Pr) (([] : Lv).map Prod.fst) ms = some (sig, m') := hd
    have hlv1 : lv1.map Prod.fst = push ({ id := 1, delayed := [] } : Pr).id (([] : Lv).map Prod.fst) := by
      simp [lv1, push]
    have hfin : ∀ (m2 : MS) (sg : SigG Err), Match query' max prog lv1 [] m1 m2 sg r1 →
        (sg = .exhausted none ∨ sg ≠ .exhausted none) →
        ∀ sigF, (sg = .exhausted none → sigF = .exhausted none) →
          (sg ≠ .exhausted none → sigF = (absorb 1 sg m2).1) →
        Forall2 (AnsRel query') m2.user.answers.reverse r1.answers ∧
          endAgree (endOf (ForceDFSG.toRes sigF)) (sldEnd r1.stop) := by
      intro m2 sg hm _ sigF hF1 hF2
      obtain ⟨new, hnew, hfa⟩ := hm.ans
      refine ⟨by rw [hnew, List.append_nil]; exact hfa, ?_⟩
      rcases hm.stop with ⟨h1, h2, _⟩ | ⟨c, l, h1, h2, h3, _⟩ | ⟨h1, h2⟩ | ⟨F', c1, c2, ex, co, h1, h2⟩
      · rw [hF1 h1, h2]; trivial
      · have hc1 : c = 1 := by
          have := mem_ids_of_lev h3
          simpa [lv1] using this
        subst hc1
        rw [hF2 (by rw [h1]; simp), h1, absorb_cut_eq, h2]
        trivial
      · rw [hF2 (by rw [h1]; simp), h1, absorb_found, h2]; trivial
      · obtain ⟨co', hco'⟩ := absorb_raised 1 (.exc (errT F' c1)) co m2
        rw [hF2 (by rw [h1]; simp), h1, hco', h2]
        show endAgree (.err F') (.err F')
        rfl
    rcases after_child ih.1 hd' (by exact hev) hlv1 hspec hok1 hst1 hmax rfl with
      hill | ⟨m2, hm, hf2⟩ | ⟨sig1, m2, hm, hne, hresA⟩
    · exact Or.inl hill
    · right
      cases k' with
      | zero => simp [dfsP] at hf2
      | succ k'' =>
        rw [leaf_ok' rfl rfl] at hf2
        simp only [Option.some.injEq, Prod.mk.injEq] at hf2
        obtain ⟨rfl, rfl⟩ := hf2
        exact hfin m2 _ hm (Or.inl rfl) _ (fun _ => rfl) (fun h => absurd rfl h)
    · right
      have h1 : sig = (absorb 1 sig1 m2).1 := by rw [← hresA]
      have h2 : m' = (absorb 1 sig1 m2).2 := by rw [← hresA]
      have hans2 : m'.user.answers = m2.user.answers := by
        rw [h2]
        cases sig1 with
        | exhausted co => cases co with
          | none => rfl
          | some c => by_cases hc : c = 1 <;> simp [absorb, hc, tick]
        | raised e co => cases co with
          | none => rfl
          | some c => by_cases hc : c = 1 <;> simp [absorb, hc]
        | _ => rfl
      rw [hans2]
      exact hfin m2 sig1 hm (Or.inr hne) sig (fun h => absurd h hne) (fun _ => h1)

/-! ## the theorems -/

/-- **vm_refines_sld_cut** (stage 2; `vm_refines_sld_horn` is stage 1, the special case without cut).
    Program and query in the fragment (`CutFrag`: Horn clauses with `!` in bodies — and in the query),
    `max ≥ 1`, any fuels: if the VM
    model and the reference interpreter both return, then
    * they found the same number of answers, and the i-th answers are equal up to renaming of
      variables (`Term.canon`, as the differential streams compare them) — or the VM's `applyAll`
      ran out of its INNER fuel (100000, a constant of the model) on that answer, in which case the
      model records the unresolved query (`AnsRel`);
    * the searches end the same way (exhausted / more / the same uncaught error). -/
theorem vm_refines_sld_cut (prog : List Term) (query : Term) (max : Nat)
    (hfrag : CutFrag prog query) (hmax : 0 < max)
    (f1 f2 : Nat) (as1 as2 : List Term) (e1 : VM.End) (e2 : SLD.End)
    (h1 : VM.runQuery f1 prog (Driver.C01.shiftVars 10 query) max = some (as1, e1))
    (h2 : SLD.solveQuery f2 prog query max = some (as2, e2)) :
    Forall2 (AnsRel (Driver.C01.shiftVars 10 query)) as1 as2 ∧ endAgree e1 e2 := by
  rw [shiftVars_eq] at h1 ⊢
  obtain ⟨k, sig, m', hd, hsig, has1, he1⟩ := vm_runQuery_conv f1 prog _ max as1 e1 h1
  obtain ⟨n, r1, hs, has2, he2⟩ := solveQuery_horn prog query max f2 as2 e2 hfrag.goal hfrag.wf h2
  rcases vm_query prog query max hfrag hmax f1 k sig m' hd n r1 hs with hill | ⟨hfa, hend⟩
  · exact absurd hill hsig
  · rw [has1, has2, he1, he2]
    exact ⟨hfa, hend⟩

theorem vm_refines_sld_horn (prog : List Term) (query : Term) (max : Nat)
    (hfrag : HornFrag prog query) (hmax : 0 < max)
    (f1 f2 : Nat) (as1 as2 : List Term) (e1 : VM.End) (e2 : SLD.End)
    (h1 : VM.runQuery f1 prog (Driver.C01.shiftVars 10 query) max = some (as1, e1))
    (h2 : SLD.solveQuery f2 prog query max = some (as2, e2)) :
    Forall2 (AnsRel (Driver.C01.shiftVars 10 query)) as1 as2 ∧ endAgree e1 e2 :=
  vm_refines_sld_cut prog query max (CutFrag.of_horn hfrag) hmax f1 f2 as1 as2 e1 e2 h1 h2

/-- a term without variables -/
theorem no_vars_of_maxVar {t : Term} (h : SLD.maxVar t = 0) : ∀ v, t.hasVar v = false := by
  intro v
  cases hv : t.hasVar v with
  | false => rfl
  | true => have := hasVar_lt_maxVar t hv; omega

theorem canon_of_ansRel {tmpl : Term} {as1 as2 : List Term} (hfa : Forall2 (AnsRel tmpl) as1 as2)
    (hinner : (∀ v, tmpl.hasVar v = false) ∨ ∀ a ∈ as1, a ≠ tmpl) :
    as1.map Term.canon = as2.map Term.canon := by
  induction hfa with
  | nil => rfl
  | @cons a1 a2 as1' as2' hd _ ih =>
    simp only [List.map_cons, List.cons.injEq]
    constructor
    · rcases hd with hd | ⟨hd, σ, π, ha2⟩
      · exact hd
      · rcases hinner with hg | hne
        · have e1' : tmpl.subst σ = tmpl := closed_subst hg σ
          have e2' : tmpl.rename π = tmpl := closed_subst hg _
          rw [hd, ha2, e1', e2']
        · exact absurd hd (hne a1 (by simp))
    · apply ih
      rcases hinner with hg | hne
      · exact Or.inl hg
      · exact Or.inr (fun a ha => hne a (by simp [ha]))

/-- **the statement of the task**, under the hypothesis that excludes the inner-fuel artefact of the
    model: the query is ground, or no answer of the VM is literally the (shifted) query term.
    Then the answer sequences are equal after `Term.canon`, exactly what the three-way differential
    check compares. -/
theorem vm_refines_sld_cut_canon (prog : List Term) (query : Term) (max : Nat)
    (hfrag : CutFrag prog query) (hmax : 0 < max)
    (f1 f2 : Nat) (as1 as2 : List Term) (e1 : VM.End) (e2 : SLD.End)
    (h1 : VM.runQuery f1 prog (Driver.C01.shiftVars 10 query) max = some (as1, e1))
    (h2 : SLD.solveQuery f2 prog query max = some (as2, e2))
    (hinner : SLD.maxVar query = 0 ∨ ∀ a ∈ as1, a ≠ Driver.C01.shiftVars 10 query) :
    as1.map Term.canon = as2.map Term.canon ∧ endAgree e1 e2 := by
  obtain ⟨hfa, hend⟩ := vm_refines_sld_cut prog query max hfrag hmax f1 f2 as1 as2 e1 e2 h1 h2
  refine ⟨canon_of_ansRel hfa ?_, hend⟩
  rcases hinner with h0 | hne
  · left
    intro v
    cases hv : (Driver.C01.shiftVars 10 query).hasVar v with
    | false => rfl
    | true =>
      rw [shiftVars_eq] at hv
      obtain ⟨u, hu, _⟩ := hasVar_shift hv
      rw [no_vars_of_maxVar h0 u] at hu
      cases hu
  · exact Or.inr hne

theorem vm_refines_sld_horn_canon (prog : List Term) (query : Term) (max : Nat)
    (hfrag : HornFrag prog query) (hmax : 0 < max)
    (f1 f2 : Nat) (as1 as2 : List Term) (e1 : VM.End) (e2 : SLD.End)
    (h1 : VM.runQuery f1 prog (Driver.C01.shiftVars 10 query) max = some (as1, e1))
    (h2 : SLD.solveQuery f2 prog query max = some (as2, e2))
    (hinner : SLD.maxVar query = 0 ∨ ∀ a ∈ as1, a ≠ Driver.C01.shiftVars 10 query) :
    as1.map Term.canon = as2.map Term.canon ∧ endAgree e1 e2 :=
  vm_refines_sld_cut_canon prog query max (CutFrag.of_horn hfrag) hmax f1 f2 as1 as2 e1 e2 h1 h2 hinner

/-- the target statement without the extra hypothesis (NOT proved: in the model, `app` returns the
    unresolved template when `applyAll` exceeds the inner fuel 100000; see the report) -/
def VmRefinesSldHornStatement : Prop :=
  ∀ (prog : List Term) (query : Term) (max : Nat), CutFrag prog query → 0 < max →
    ∀ (f1 f2 : Nat) (as1 as2 : List Term) (e1 : VM.End) (e2 : SLD.End),
      VM.runQuery f1 prog (Driver.C01.shiftVars 10 query) max = some (as1, e1) →
      SLD.solveQuery f2 prog query max = some (as2, e2) →
      as1.map Term.canon = as2.map Term.canon ∧ endAgree e1 e2

end PrologVerif.Refine
