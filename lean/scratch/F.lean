#eval (Float.ofBits 0x3fb999999999999a).toFloat32.toFloat.toBits
#eval (Float.ofBits 0x7e37e43c8800759c).toFloat32.toFloat.toBits
#check @String.splitOn
