/-
  Refine, part 13 — the two top levels: what `SLD.solveQuery` reduces to on a query of the fragment,
  and the first activation of the VM (the query's own clause `tuple(FVs) :- Query`), after which the
  two machines are in the simulation relation on the query's conjuncts.
-/
import PrologVerif.Proofs.RefineTop
namespace PrologVerif.Refine
open PrologVerif PrologVerif.VM PrologVerif.DecompileCompile PrologVerif.Activation
  PrologVerif.RefineITree PrologVerif.RefineRobinson PrologVerif.VMScoped
  PrologVerif.Promise PrologVerif.DFSG PrologVerif.ForceDFSGConv

/-! ### the reference interpreter's top level -/

/-- how the reference reports the end of the search -/
def sldEnd : SLD.Stop → SLD.End
  | .exhausted | .cut _ => .exhausted
  | .full => .more
  | .raised (.app "error" (.cons formal (.cons _ .nil))) _ => .err formal
  | .raised b _ => .ball b

theorem solveQuery_call (prog : List Term) (query : Term) (max f2 : Nat) (as2 : List Term) (e2 : SLD.End)
    {fl : Bool} (hb : dbodyS fl query = true) (hw : wfT query = true) (hqnv : ∀ v, query ≠ .var v)
    (h : SLD.solveQuery f2 prog query max = some (as2, e2)) :
    ∃ n r, SLD.solveAlts false (progS prog) n 0 (SLD.maxVar query)
        ((SLD.disjuncts query).map (fun x => .frames (SLD.bodyFrames false x 0))) [] query max = some r ∧
      as2 = r.answers ∧ e2 = sldEnd r.stop := by
  unfold SLD.solveQuery at h
  simp only [Bool.false_eq_true, if_false] at h
  change (match SLD.solve false (progS prog) f2 0 (SLD.maxVar query) [.goal (SLD.call1 query) 0] query max with
    | none => none
    | some r => some (r.answers, sldEnd r.stop)) = some (as2, e2) at h
  cases f2 with
  | zero => rw [solve_zero] at h; cases h
  | succ f =>
    rw [solve_call1M _ _ _ _ _ _ _ _ _ hb (fun f hf => by rw [hf] at hw; simp [wfT] at hw) hqnv] at h
    cases hs : SLD.solveAlts false (progS prog) f 0 (SLD.maxVar query)
        ((SLD.disjuncts query).map (fun x => .frames (SLD.bodyFrames false x 0))) [] query max with
    | none => rw [hs] at h; cases h
    | some r =>
      rw [hs] at h
      simp only [Option.some.injEq, Prod.mk.injEq] at h
      exact ⟨f, r, hs, h.1.symm, h.2.symm⟩

/-! ### the VM's first activation: the query's own clause -/

theorem hasVar_shift {k w : Nat} {t : Term} (h : (SLD.shift k t).hasVar w = true) :
    ∃ v, t.hasVar v = true ∧ w = v + k := by
  rw [shift_eq_rename] at h
  obtain ⟨v, hv, rfl⟩ := hasVar_rename t h
  exact ⟨v, hv, rfl⟩

theorem unshift (k : Nat) (t : Term) : (SLD.shift k t).rename (· - k) = t := by
  rw [shift_eq_rename, rename_rename]
  have : t.rename (fun v => v + k - k) = t.rename id := rename_congr t (fun v _ => by simp)
  rw [this, Term.rename]
  exact Term.subst_id t

theorem img_id (π : Nat → Nat) (t : Term) : img (fun v => .var v) π t = t.rename π := by
  simp only [img, Term.subst_id]

section start
variable (query : Term)

theorem qvar_bounds {v : Nat} (h : (SLD.shift 10 query).hasVar v = true) : 10 ≤ v ∧ v - 10 < SLD.maxVar query := by
  obtain ⟨u, hu, rfl⟩ := hasVar_shift h
  have := hasVar_lt_maxVar query hu
  omega

end start

end PrologVerif.Refine
