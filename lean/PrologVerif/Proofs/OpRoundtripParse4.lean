/-
  P2: the parser lemma — `term(mp)` reads the tokens `qt t o` of a written term as `t` whenever the
  writer's priority for the position fits (`o.priority ≤ mp`) and the token after the term cannot continue
  it at any priority the writer relied on (`RightOK`): leaves, prefix / postfix / infix operator terms.
-/
import PrologVerif.Proofs.OpRoundtripParse3
set_option linter.unusedSimpArgs false
set_option linter.unusedVariables false
namespace PrologVerif.Write
open PrologVerif PrologVerif.Lexer PrologVerif.Ops PrologVerif.Read

theorem bp_pre {op : Op} (h : op.spec.cls = .pre) : (bindingPriorities op).2 ≤ op.pri := by
  unfold bindingPriorities
  cases hs : op.spec <;> simp_all [Spec.cls]

theorem bp_inf {op : Op} (h : op.spec.cls = .inf) :
    (bindingPriorities op).1 ≤ op.pri ∧ (bindingPriorities op).2 ≤ op.pri := by
  unfold bindingPriorities
  cases hs : op.spec <;> simp_all [Spec.cls]

theorem bp_post {op : Op} (h : op.spec.cls = .post) :
    (bindingPriorities op).1 ≤ op.pri ∧ (bindingPriorities op).2 > 1200 := by
  unfold bindingPriorities
  cases hs : op.spec <;> simp_all [Spec.cls]

theorem not_bracket_of_ne {f : String} (h1 : f ≠ "[]") (h2 : f ≠ "{}") : ¬ isBracketAtom f.toList := by
  obtain ⟨e1, e2⟩ := ofList_eq_brackets f.toList
  simp only [String.ofList_toList] at e1 e2
  rintro (h | h)
  · exact h1 (e1.2 h)
  · exact h2 (e2.2 h)

section
variable (e : Env) (G : UInt64 → GText) (P : UInt64 → Bool) (ops : Table) (dq : DoubleQuotes)

/-- the token after the term ends the reader's loop at every priority the writer relied on -/
def RightOK (o : WOpts) (rest : List Token) : Prop :=
  ∀ q, q ≤ o.priority → (∀ ro, o.right = some ro → q < ro.pri) → StopAt ops dq q rest

/-- something follows, and it is an operator or a closing token -/
def RestOK (rest : List Token) : Prop := ∃ nxt r, rest = nxt :: r ∧ FollowTok nxt

/-- an operator atom that the writer does not bracket stands where 1201 is allowed, before a closing token -/
def AtomCtx (t : Term) (o : WOpts) (mp : Nat) (rest : List Token) : Prop :=
  ∀ a, t = .atom a → defined ops a = true → o.left = none → o.right = none →
    mp = 1201 ∧ ∃ s r, rest = s :: r ∧ HardStop s

def QSpec (t : Term) (o : WOpts) : Prop :=
  ∀ (mp : Nat) (rest : List Token) (vs : Vars) (nv : Nat) (seen : List Nat),
    o.priority ≤ mp → RestOK rest → RightOK ops dq o rest → AtomCtx ops t o mp rest → VarsOK e vs nv seen →
    ∃ vs' nv', ParsesAs ops dq mp (qt e G t o) rest (t.canonAux seen).1 vs nv vs' nv' ∧
      VarsOK e vs' nv' (t.canonAux seen).2

theorem restOK_close (rest : List Token) : RestOK (closeTok :: rest) := ⟨_, _, rfl, .inr (.inr (.inr (.inr (.inr (.inr (.inr (.inl rfl)))))))⟩

theorem rightOK_hard {stop : Token} (h : HardStop stop) (o : WOpts) (rest : List Token) :
    RightOK ops dq o (stop :: rest) := fun q _ _ => stopAt_hard h ops dq q rest

theorem hardStop_close : HardStop closeTok := .inr (.inl rfl)

/-! ## leaves -/

theorem qspec_var (he : EnvOK e G P) (v : Nat) (o : WOpts) : QSpec e G ops dq (.var v) o := by
  intro mp rest vs nv seen _ _ _ _ hv
  exact parses_var e G P he ops dq mp v rest vs nv seen hv

theorem qspec_int (i : Int) (hlo : -9223372036854775808 ≤ i) (hhi : i ≤ 9223372036854775807) (o : WOpts) :
    QSpec e G ops dq (.int i) o := by
  intro mp rest vs nv seen _ _ _ _ hv
  have hint := integer_formatInt i hlo hhi
  refine ⟨vs, nv, ?_, by simpa [Term.canonAux] using hv⟩
  simp only [qt, tInt, Term.canonAux]
  split
  · rename_i hc
    simp only [Bool.and_eq_true, decide_eq_true_eq] at hc
    have hneg : ¬ i < 0 := by omega
    simp only [intTokens, hneg, if_false, List.nil_append] at hint ⊢
    exact parses_bracket true (parses_number ops dq 1201 _ (.int i) _ rfl (by simp [numberTerm, hint]; rfl) vs nv)
  · simp only [intTokens]
    by_cases hneg : i < 0
    · simp only [hneg, if_true, List.singleton_append] at hint ⊢
      exact parses_minus_number ops dq mp _ (.int i) rest rfl (by simp [numberTerm, hint]; rfl) vs nv
    · simp only [hneg, if_false, List.nil_append] at hint ⊢
      exact parses_number ops dq mp _ (.int i) rest rfl (by simp [numberTerm, hint]; rfl) vs nv

theorem qspec_flt (he : EnvOK e G P) (x : UInt64) (hx : P x = true) (o : WOpts) :
    QSpec e G ops dq (.flt x) o := by
  intro mp rest vs nv seen _ _ _ _ hv
  have hlaw := he.fltLaw x hx
  refine ⟨vs, nv, ?_, by simpa [Term.canonAux] using hv⟩
  have key : ∀ mp' rest', ParsesAs ops dq mp' (floatTokens (G x)) rest' (.flt x) vs nv vs nv := by
    intro mp' rest'
    simp only [floatTokens]
    by_cases hneg : (G x).neg = true
    · simp only [hneg, if_true, List.singleton_append] at hlaw ⊢
      exact parses_minus_number ops dq mp' _ (.flt x) rest' rfl (by simp [numberTerm, hlaw]) vs nv
    · have hneg' : (G x).neg = false := by simpa using hneg
      simp only [hneg', Bool.false_eq_true, if_false, List.nil_append] at hlaw ⊢
      exact parses_number ops dq mp' _ (.flt x) rest' rfl (by simp [numberTerm, hlaw]) vs nv
  simp only [qt, tFloat, Term.canonAux]
  split
  · exact parses_bracket true (key 1201 _)
  · exact key mp rest

theorem qspec_atom (he : EnvOK e G P) (a : String) (o : WOpts) (ho : o.ops = ops) :
    QSpec e G ops dq (.atom a) o := by
  intro mp rest vs nv seen _ hrest _ hctx hv
  have hat := atomToks_atomTokens e G P he a
  have hfs : String.ofList a.toList = a := by simp
  refine ⟨vs, nv, ?_, by simpa [Term.canonAux] using hv⟩
  simp only [qt, tAtom, Term.canonAux, ho, hfs]
  split
  · have := parses_atom_top hat ops dq closeTok hardStop_close rest vs nv
    rw [hfs] at this
    exact parses_bracket _ this
  · rename_i hc
    by_cases hd : defined ops a = true
    · have hlr : o.left = none ∧ o.right = none := by
        simp only [hd, Bool.and_true, Bool.or_eq_true, not_or, Bool.not_eq_true, Option.isSome_eq_false_iff,
          Option.isNone_iff_eq_none] at hc
        exact hc
      obtain ⟨rfl, s, r, rfl, hs⟩ := hctx a rfl hd hlr.1 hlr.2
      have := parses_atom_top hat ops dq s hs r vs nv
      rwa [hfs] at this
    · obtain ⟨nxt, r, rfl, hf⟩ := hrest
      have := parses_atom_nd hat ops dq mp (by simpa [hfs] using hd) nxt hf r vs nv
      rwa [hfs] at this

/-! ## operator terms -/

theorem qopts_sub {o : WOpts} (hq : QOpts ops o) (oc : Bool) (p : Nat) (hp : p ≤ 1200) (l r : Option Op) :
    QOpts ops { inner oc o with priority := p, left := l, right := r } := by
  cases oc <;> exact ⟨hq.ign, hq.quo, hq.nvs, hq.tab, hp⟩

theorem isPrefixOp_some {op : Op} (h : op.spec.cls = .pre) : isPrefixOp (some op) = true := by
  simp [isPrefixOp, h]

theorem isPrefixMinus_some {op : Op} (h : op.spec.cls = .pre) (hn : op.name = "-") : isPrefixMinus (some op) = true := by
  simp [isPrefixMinus, h, hn]

/-- the operator atom and the operand of `writeCompoundOpPrefix`, inside or without brackets -/
theorem prefix_core (he : EnvOK e G P) (hs : SignOK G P) (hops : tableOK ops = true) (f : String) (a0 : Term)
    (opr : Op) (hw : wfTerm a0 = true) (hn : numsOK P a0 = true) (hpre : opOf ops f .pre = some opr)
    (oa : WOpts) (ih : QSpec e G ops dq a0 oa)
    (hoap : oa.priority = (bindingPriorities opr).2) (hoal : oa.left = some opr)
    (mp : Nat) (rest : List Token) (hp : opr.pri ≤ mp) (hrest : RestOK rest) (hright : RightOK ops dq oa rest)
    (hstop : ∀ ro, oa.right = some ro → (bindingPriorities opr).2 < ro.pri)
    (vs : Vars) (nv : Nat) (seen : List Nat) (hv : VarsOK e vs nv seen) :
    ∃ vs' nv', ParsesAs ops dq mp (atomTokens e.cfg f.toList ++ qt e G a0 oa) rest
        (.app f (.cons (a0.canonAux seen).1 .nil)) vs nv vs' nv' ∧
      VarsOK e vs' nv' (a0.canonAux seen).2 := by
  have hfacts := opFacts hops hpre
  have hat := atomToks_atomTokens e G P he f
  have hb := not_bracket_of_ne hfacts.noList hfacts.noCurly
  obtain ⟨tk, htk⟩ := atomToks_single hat hb
  have hfs : String.ofList f.toList = f := by simp
  obtain ⟨nxt, X, hX, hf1, hf2, hf3⟩ := qt_first e G P he hs a0 oa hw hn
  obtain ⟨vs', nv', hpa, hv'⟩ := ih (bindingPriorities opr).2 rest vs nv seen (by omega) hrest hright
    (by intro a _ _ hl; rw [hoal] at hl; cases hl) hv
  refine ⟨vs', nv', ?_, hv'⟩
  have hst : StopAt ops dq (bindingPriorities opr).2 rest := hright _ (by omega) hstop
  rw [htk] at hat
  rw [hX] at hpa
  have := parses_prefix (mp := mp) hat hb (by rw [hfs]; exact hpre) hp
    (hf2 (by rw [hoal]; exact isPrefixOp_some hfacts.cls))
    (by intro hm; rw [hfs] at hm; exact hf3 (by rw [hoal]; exact isPrefixMinus_some hfacts.cls (hfacts.name.trans hm)))
    hpa hst
  rw [hfs] at this
  simpa [htk, hX] using this

theorem qspec_prefix (he : EnvOK e G P) (hs : SignOK G P) (hops : tableOK ops = true) (f : String) (a0 : Term)
    (opr : Op) (hw : wfTerm a0 = true) (hn : numsOK P a0 = true) (hpre : opOf ops f .pre = some opr)
    (o : WOpts) (hq : QOpts ops o) (ih : ∀ o', QOpts ops o' → QSpec e G ops dq a0 o')
    (mp : Nat) (rest : List Token) (vs : Vars) (nv : Nat) (seen : List Nat)
    (hmp : o.priority ≤ mp) (hrest : RestOK rest) (hright : RightOK ops dq o rest) (hv : VarsOK e vs nv seen) :
    ∃ vs' nv', ParsesAs ops dq mp (tPrefix e f (qt e G a0) o opr) rest
        (.app f (.cons (a0.canonAux seen).1 .nil)) vs nv vs' nv' ∧
      VarsOK e vs' nv' (a0.canonAux seen).2 := by
  have hfacts := opFacts hops hpre
  have hr := bp_pre hfacts.cls
  have hhi := hfacts.hi
  simp only [tPrefix]
  cases hoc : prefixOC o opr
  · -- no brackets
    simp only [prefixOC, Bool.or_eq_false_iff, decide_eq_false_iff_not] at hoc
    have := prefix_core e G P ops dq he hs hops f a0 opr hw hn hpre
      { inner false o with priority := (bindingPriorities opr).2, left := some opr }
      (ih _ (qopts_sub ops hq false _ (by omega) _ _)) rfl rfl mp rest (by omega) hrest
      (by
        intro q hq1 hq2
        exact hright q (by simp at hq1; omega) (by simpa [inner] using hq2))
      (by
        intro ro hro
        have hro' : o.right = some ro := by simpa [inner] using hro
        have := hoc.2
        simp only [hro', decide_eq_false_iff_not] at this
        omega)
      vs nv seen hv
    simpa using this
  · obtain ⟨vs', nv', h1, h2⟩ := prefix_core e G P ops dq he hs hops f a0 opr hw hn hpre
      { inner true o with priority := (bindingPriorities opr).2, left := some opr }
      (ih _ (qopts_sub ops hq true _ (by omega) _ _)) rfl rfl 1201 (closeTok :: rest) (by omega) (restOK_close rest)
      (rightOK_hard ops dq hardStop_close _ rest)
      (by intro ro hro; simp [inner, WOpts.bare] at hro)
      vs nv seen hv
    refine ⟨vs', nv', ?_, h2⟩
    have := parses_bracket (mp := mp) o.left.isSome h1
    simpa using this

theorem followTok_of_atomTok {s : List Char} {tk : Token} (h : AtomToks s [tk]) : FollowTok tk ∧ tk ≠ commaTok := by
  cases h with
  | name t hk hv =>
    refine ⟨?_, ?_⟩
    · rcases hk with hk | hk | hk | hk <;> simp [FollowTok, hk]
    · rintro rfl
      rcases hk with hk | hk | hk | hk <;> simp [commaTok] at hk
  | quoted t hk hv =>
    refine ⟨by simp [FollowTok, hk], ?_⟩
    rintro rfl
    simp [commaTok] at hk

theorem followTok_of_opTok {s : List Char} {tk : Token} (h : OpTokP s tk) : FollowTok tk := by
  rcases h with ⟨h, _⟩ | ⟨rfl, _⟩ | ⟨rfl, _⟩
  · exact (followTok_of_atomTok h).1
  · simp [FollowTok, commaTok]
  · simp [FollowTok, barTok]

/-- the token between the operands -/
theorem opToks_spec (he : EnvOK e G P) (f : String) (h1 : f ≠ "[]") (h2 : f ≠ "{}") :
    ∃ tk, opToks e f = [tk] ∧ OpTokP f.toList tk ∧ (tk = commaTok → f = ",") := by
  unfold opToks
  by_cases hc : f = ","
  · subst hc
    exact ⟨commaTok, by simp, .inr (.inl ⟨rfl, rfl⟩), fun _ => rfl⟩
  · by_cases hb : f = "|"
    · subst hb
      refine ⟨barTok, by simp, .inr (.inr ⟨rfl, rfl⟩), ?_⟩
      intro h; simp [barTok, commaTok] at h
    · have hat := atomToks_atomTokens e G P he f
      have hnb := not_bracket_of_ne h1 h2
      obtain ⟨tk, htk⟩ := atomToks_single hat hnb
      rw [htk] at hat
      refine ⟨tk, by simp [hc, hb, htk], .inl ⟨hat, hnb⟩, ?_⟩
      intro h
      exact absurd h (followTok_of_atomTok hat).2

/-- the operand and the operator atom of `writeCompoundOpPostfix`, inside or without brackets -/
theorem postfix_core (he : EnvOK e G P) (hops : tableOK ops = true) (f : String) (a0 : Term)
    (opr : Op) (hpost : opOf ops f .post = some opr)
    (oa : WOpts) (ih : QSpec e G ops dq a0 oa)
    (hoap : oa.priority = (bindingPriorities opr).1) (hoar : oa.right = some opr)
    (mp : Nat) (rest : List Token) (hp : opr.pri ≤ mp)
    (vs : Vars) (nv : Nat) (seen : List Nat) (hv : VarsOK e vs nv seen) :
    ∃ vs' nv', ParsesAs ops dq mp (qt e G a0 oa ++ atomTokens e.cfg f.toList) rest
        (.app f (.cons (a0.canonAux seen).1 .nil)) vs nv vs' nv' ∧
      VarsOK e vs' nv' (a0.canonAux seen).2 := by
  have hfacts := opFacts hops hpost
  have hbp := bp_post hfacts.cls
  have hat := atomToks_atomTokens e G P he f
  have hb := not_bracket_of_ne hfacts.noList hfacts.noCurly
  obtain ⟨tk, htk⟩ := atomToks_single hat hb
  have hfs : String.ofList f.toList = f := by simp
  rw [htk] at hat
  have hop : OpTokP f.toList tk := .inl ⟨hat, hb⟩
  have hinf : opOf ops (String.ofList f.toList) .inf = none := by rw [hfs]; exact hfacts.noInf rfl
  obtain ⟨vs', nv', hpa, hv'⟩ := ih mp (tk :: rest) vs nv seen (by omega)
    ⟨tk, rest, rfl, (followTok_of_atomTok hat).1⟩
    (by
      intro q hq1 hq2
      have hq3 := hq2 opr hoar
      refine stopAt_opTok hop dq q ?_ ?_ rest
      · intro o ho; rw [hinf] at ho; cases ho
      · intro o ho
        rw [hfs, hpost] at ho
        cases ho; exact hq3)
    (by intro a _ _ _ hr; rw [hoar] at hr; cases hr) hv
  refine ⟨vs', nv', ?_, hv'⟩
  have := parses_postfix hop hinf (by rw [hfs]; exact hpost) hp
    (fun h => absurd h (followTok_of_atomTok hat).2) hbp.2 hpa
  rw [hfs] at this
  simpa [htk] using this

theorem qspec_postfix (he : EnvOK e G P) (hops : tableOK ops = true) (f : String) (a0 : Term)
    (opr : Op) (hpost : opOf ops f .post = some opr)
    (o : WOpts) (hq : QOpts ops o) (ih : ∀ o', QOpts ops o' → QSpec e G ops dq a0 o')
    (mp : Nat) (rest : List Token) (vs : Vars) (nv : Nat) (seen : List Nat)
    (hmp : o.priority ≤ mp) (hv : VarsOK e vs nv seen) :
    ∃ vs' nv', ParsesAs ops dq mp (tPostfix e f (qt e G a0) o opr) rest
        (.app f (.cons (a0.canonAux seen).1 .nil)) vs nv vs' nv' ∧
      VarsOK e vs' nv' (a0.canonAux seen).2 := by
  have hfacts := opFacts hops hpost
  have hbp := bp_post hfacts.cls
  have hhi := hfacts.hi
  simp only [tPostfix]
  cases hoc : postfixOC o opr
  · simp only [postfixOC, Bool.or_eq_false_iff, decide_eq_false_iff_not] at hoc
    have := postfix_core e G P ops dq he hops f a0 opr hpost
      { inner false o with priority := (bindingPriorities opr).1, right := some opr }
      (ih _ (qopts_sub ops hq false _ (by omega) _ _)) rfl rfl mp rest (by omega) vs nv seen hv
    simpa using this
  · obtain ⟨vs', nv', h1, h2⟩ := postfix_core e G P ops dq he hops f a0 opr hpost
      { inner true o with priority := (bindingPriorities opr).1, right := some opr }
      (ih _ (qopts_sub ops hq true _ (by omega) _ _)) rfl rfl 1201 (closeTok :: rest) (by omega) vs nv seen hv
    refine ⟨vs', nv', ?_, h2⟩
    have := parses_bracket (mp := mp) o.left.isSome h1
    simpa using this

/-- the operands and the operator of `writeCompoundOpInfix`, inside or without brackets -/
theorem infix_core (he : EnvOK e G P) (hops : tableOK ops = true) (f : String) (a0 a1 : Term)
    (opr : Op) (hinf : opOf ops f .inf = some opr)
    (oa ob : WOpts) (iha : QSpec e G ops dq a0 oa) (ihb : QSpec e G ops dq a1 ob)
    (hoap : oa.priority = (bindingPriorities opr).1) (hoar : oa.right = some opr)
    (hobp : ob.priority = (bindingPriorities opr).2) (hobl : ob.left = some opr)
    (mp : Nat) (rest : List Token) (hp : opr.pri ≤ mp) (hrest : RestOK rest) (hright : RightOK ops dq ob rest)
    (hstop : ∀ ro, ob.right = some ro → (bindingPriorities opr).2 < ro.pri)
    (vs : Vars) (nv : Nat) (seen : List Nat) (hv : VarsOK e vs nv seen) :
    ∃ vs' nv', ParsesAs ops dq mp (qt e G a0 oa ++ opToks e f ++ qt e G a1 ob) rest
        (.app f (.cons (a0.canonAux seen).1 (.cons (a1.canonAux (a0.canonAux seen).2).1 .nil))) vs nv vs' nv' ∧
      VarsOK e vs' nv' (a1.canonAux (a0.canonAux seen).2).2 := by
  have hfacts := opFacts hops hinf
  have hbp := bp_inf hfacts.cls
  have hhi := hfacts.hi
  obtain ⟨tk, htk, hop, hcomma⟩ := opToks_spec e G P he f hfacts.noList hfacts.noCurly
  have hfs : String.ofList f.toList = f := by simp
  have hpostn : opOf ops (String.ofList f.toList) .post = none := by rw [hfs]; exact hfacts.noPost rfl
  obtain ⟨vs1, nv1, hpa, hv1⟩ := iha mp (tk :: (qt e G a1 ob ++ rest)) vs nv seen (by omega)
    ⟨tk, _, rfl, followTok_of_opTok hop⟩
    (by
      intro q hq1 hq2
      have hq3 := hq2 opr hoar
      refine stopAt_opTok hop dq q ?_ ?_ _
      · intro o ho
        rw [hfs, hinf] at ho
        cases ho; exact hq3
      · intro o ho; rw [hpostn] at ho; cases ho)
    (by intro a _ _ _ hr; rw [hoar] at hr; cases hr) hv
  obtain ⟨vs2, nv2, hpb, hv2⟩ := ihb (bindingPriorities opr).2 rest vs1 nv1 (a0.canonAux seen).2 (by omega) hrest hright
    (by intro a _ _ hl; rw [hobl] at hl; cases hl) hv1
  refine ⟨vs2, nv2, ?_, hv2⟩
  have hst : StopAt ops dq (bindingPriorities opr).2 rest := hright _ (by omega) hstop
  have := parses_infix hop (by rw [hfs]; exact hinf) hp
    (by
      intro h
      have := (hfacts.comma (hcomma h)).2
      omega)
    (by omega) hpa hpb hst
  rw [hfs] at this
  simpa [htk] using this

theorem qspec_infix (he : EnvOK e G P) (hops : tableOK ops = true) (f : String) (a0 a1 : Term)
    (opr : Op) (hinf : opOf ops f .inf = some opr)
    (o : WOpts) (hq : QOpts ops o) (iha : ∀ o', QOpts ops o' → QSpec e G ops dq a0 o')
    (ihb : ∀ o', QOpts ops o' → QSpec e G ops dq a1 o')
    (mp : Nat) (rest : List Token) (vs : Vars) (nv : Nat) (seen : List Nat)
    (hmp : o.priority ≤ mp) (hrest : RestOK rest) (hright : RightOK ops dq o rest) (hv : VarsOK e vs nv seen) :
    ∃ vs' nv', ParsesAs ops dq mp (tInfix e f (qt e G a0) (qt e G a1) o opr) rest
        (.app f (.cons (a0.canonAux seen).1 (.cons (a1.canonAux (a0.canonAux seen).2).1 .nil))) vs nv vs' nv' ∧
      VarsOK e vs' nv' (a1.canonAux (a0.canonAux seen).2).2 := by
  have hfacts := opFacts hops hinf
  have hbp := bp_inf hfacts.cls
  have hhi := hfacts.hi
  simp only [tInfix]
  cases hoc : infixOC o opr
  · simp only [infixOC, Bool.or_eq_false_iff, decide_eq_false_iff_not] at hoc
    have := infix_core e G P ops dq he hops f a0 a1 opr hinf
      { inner false o with priority := (bindingPriorities opr).1, right := some opr }
      { inner false o with priority := (bindingPriorities opr).2, left := some opr }
      (iha _ (qopts_sub ops hq false _ (by omega) _ _)) (ihb _ (qopts_sub ops hq false _ (by omega) _ _))
      rfl rfl rfl rfl mp rest (by omega) hrest
      (by
        intro q hq1 hq2
        exact hright q (by simp at hq1; omega) (by simpa [inner] using hq2))
      (by
        intro ro hro
        have hro' : o.right = some ro := by simpa [inner] using hro
        have := hoc.2
        simp only [hro', decide_eq_false_iff_not] at this
        omega)
      vs nv seen hv
    simpa using this
  · obtain ⟨vs', nv', h1, h2⟩ := infix_core e G P ops dq he hops f a0 a1 opr hinf
      { inner true o with priority := (bindingPriorities opr).1, right := some opr }
      { inner true o with priority := (bindingPriorities opr).2, left := some opr }
      (iha _ (qopts_sub ops hq true _ (by omega) _ _)) (ihb _ (qopts_sub ops hq true _ (by omega) _ _))
      rfl rfl rfl rfl 1201 (closeTok :: rest) (by omega) (restOK_close rest)
      (rightOK_hard ops dq hardStop_close _ rest)
      (by intro ro hro; simp [inner, WOpts.bare] at hro)
      vs nv seen hv
    refine ⟨vs', nv', ?_, h2⟩
    have := parses_bracket (mp := mp) (isPrefixOp o.left) h1
    simpa using this

end

end PrologVerif.Write
