/-
  Spec/SLD — the reference interpreter: what "standard Prolog execution" means for C01/C03/C04.

  Depth-first, left-to-right SLD resolution with clauses in database order and chronological
  backtracking, written as the textbook recursive "list of successes with a cut signal":

    * the state of a derivation is the RESOLVENT (a list of goals) and the current instance of the
      query term; a resolution step unifies the selected goal with a renamed clause head and applies
      the most general unifier to the whole resolvent — there is no environment, no trail, no stack;
    * `solve` returns the answers of the resolvent in order and how the search ended: exhausted,
      exhausted after a cut (the signal tells the enclosing predicate calls to drop their remaining
      clauses), an uncaught ball, or "enough answers";
    * control constructs are defined directly (not through library clauses), catch/throw as in
      ISO 13211-1 7.8.9/7.8.10.

  Independent of the model of the Go code: it shares only `Term` and the textbook unification
  algorithm `Robinson.solve` (with occurs check: a unification that is subject to occurs check is
  undefined in ISO 7.3.3, the interpreter then answers `none`, as it does when the fuel runs out).

  `iso : Bool` selects how far a cut is visible through control constructs:
    iso = true   ISO 7.8: `,`/2, `;`/2 and the then/else branches of `->` are transparent to cut;
    iso = false  the documented behaviour of the engine under verification: only the direct
                 conjuncts (`,` however nested) of a clause body, of a call/N goal or of one of
                 its top-level disjuncts (`;` nested to the right, an if-then-else counting as one
                 disjunct) see the clause's cut; every other `,` `;` `->` is executed as if wrapped
                 in call/1, and so are the then/else branches.
  In both modes call/N, \+, once, findall/3, catch/3 and the condition of `->` are opaque to cut.
-/
import PrologVerif.Spec.Robinson
namespace PrologVerif.SLD
open PrologVerif

/-- how a query ended -/
inductive End where
  | exhausted                 -- the search space is finite and holds no further answer
  | more                      -- stopped after `maxAnswers` answers
  | err (formal : Term)       -- uncaught error(Formal, _)
  | ball (t : Term)           -- any other uncaught ball
  deriving DecidableEq

/-! ## Terms -/

def mk2 (f : String) (a b : Term) : Term := .app f (.cons a (.cons b .nil))
def call1 (g : Term) : Term := .app "call" (.cons g .nil)
def cutT : Term := .atom "!"
def rule (h b : Term) : Term := mk2 ":-" h b
def ifThenElse (c t e : Term) : Term := mk2 ";" (mk2 "->" c t) e

/-- error(Formal, Context): the context is implementation defined and not part of the semantics -/
def errorT (formal : Term) : Term := mk2 "error" formal (.var 0)
def instErr : Term := errorT (.atom "instantiation_error")
def typeErr (type : String) (culprit : Term) : Term := errorT (mk2 "type_error" (.atom type) culprit)
def existenceErr (name : String) (arity : Nat) : Term :=
  errorT (mk2 "existence_error" (.atom "procedure") (mk2 "/" (.atom name) (.int arity)))

/-- name and arguments of a callable term -/
def functor : Term → Option (String × List Term)
  | .atom a => some (a, [])
  | .app f as => some (f, as.toList)
  | _ => none

/-- closure + extra arguments (call/N) -/
def addArgs (g : Term) (extra : List Term) : Option Term :=
  (functor g).map fun (f, as) => Term.mk f (as ++ extra)

mutual
  /-- 1 + the largest variable number -/
  def maxVar : Term → Nat
    | .var v => v + 1
    | .app _ as => maxVarArgs as
    | _ => 0
  def maxVarArgs : Args → Nat
    | .nil => 0
    | .cons t ts => max (maxVar t) (maxVarArgs ts)
end

mutual
  def shift (k : Nat) : Term → Term
    | .var v => .var (v + k)
    | .app f as => .app f (shiftArgs k as)
    | t => t
  def shiftArgs (k : Nat) : Args → Args
    | .nil => .nil
    | .cons t ts => .cons (shift k t) (shiftArgs k ts)
end

/-- a copy of `t` with new variables `nv, nv+1, …`; the next unused variable -/
def freshen (t : Term) (nv : Nat) : Term × Nat :=
  let r := t.canonAux []
  (shift nv r.1, nv + r.2.length)

def freshenAll : List Term → Nat → List Term × Nat
  | [], nv => ([], nv)
  | t :: ts, nv =>
    let (t', nv') := freshen t nv
    let (ts', nv'') := freshenAll ts nv'
    (t' :: ts', nv'')

/-- head and body of a clause term -/
def headBody : Term → Term × Term
  | .app ":-" (.cons h (.cons b .nil)) => (h, b)
  | t => (t, .atom "true")

/-! ## Bodies (ISO 7.6.2) -/

/-- a variable in goal position stands for `call/1` of it -/
def wrapVar : Term → Term
  | .var v => call1 (.var v)
  | t => t

/-- the direct conjuncts of a body: the leaves of its ','/2 tree, left to right (a conjunction is
    transparent to cut however it is nested: `((A, B), C)` is the sequence A, B, C) -/
def conjuncts : Term → List Term
  | .app "," (.cons a (.cons b .nil)) => conjuncts a ++ conjuncts b
  | t => [wrapVar t]

/-- the top-level disjuncts of a body: `;` nested to the right; an if-then-else is ONE disjunct -/
def disjuncts : Term → List Term
  | .app ";" (.cons (.app "->" (.cons c (.cons t .nil))) (.cons e .nil)) => [ifThenElse c t e]
  | .app ";" (.cons a (.cons b .nil)) => a :: disjuncts b
  | t => [t]

/-- ISO conversion of a term to a body: variables become call/1 goals, through `,` `;` `->` -/
def convert : Term → Term
  | .var v => call1 (.var v)
  | .app f (.cons a (.cons b .nil)) =>
    if f = "," ∨ f = ";" ∨ f = "->" then mk2 f (convert a) (convert b) else .app f (.cons a (.cons b .nil))
  | t => t

def isGoal : Term → Bool
  | .var _ | .atom _ | .app _ _ => true
  | _ => false

/-- can the term be converted to a body? (otherwise call/1 raises type_error(callable, Body)) -/
def okBodyIso : Term → Bool
  | .app f (.cons a (.cons b .nil)) =>
    if f = "," ∨ f = ";" ∨ f = "->" then okBodyIso a && okBodyIso b else true
  | t => isGoal t

def okBody (iso : Bool) (b : Term) : Bool :=
  if iso then okBodyIso b else (disjuncts b).all fun d => (conjuncts d).all isGoal

/-- iso = false: a clause whose body is a disjunction is stored as one clause per disjunct -/
def splitClause (c : Term) : List Term :=
  let (h, b) := headBody c
  (disjuncts b).map (rule h)

/-- member/2 and append/3 -/
def library : List Term :=
  let v := Term.var
  [ Term.mk "member" [v 0, .consT (v 0) (v 1)],
    rule (Term.mk "member" [v 0, .consT (v 1) (v 2)]) (Term.mk "member" [v 0, v 2]),
    Term.mk "append" [.nilT, v 0, v 0],
    rule (Term.mk "append" [.consT (v 0) (v 1), v 2, .consT (v 0) (v 3)]) (Term.mk "append" [v 1, v 2, v 3]) ]

/-! ## Deterministic built-in predicates -/

/-- what a built-in predicate does with the selected goal -/
inductive Step where
  | unify (a b : Term)                -- go on iff a and b unify
  | raise (ball : Term)
  | goals (alts : List (List Term))   -- replace the goal by these alternatives (each a conjunction of
                                      -- goals); `[[]]` = succeed, `[]` = fail

def test (b : Bool) : Step := if b then .goals [[]] else .goals []

def isPartialList (t : Term) : Bool :=
  match t.spine.2 with
  | .var _ => true
  | .atom "[]" => true
  | _ => false

def typeTest (f : String) (t : Term) : Option Bool :=
  match f, t with
  | "var", .var _ => some true
  | "var", _ => some false
  | "nonvar", .var _ => some false
  | "nonvar", _ => some true
  | "atom", .atom _ => some true
  | "atom", _ => some false
  | "integer", .int _ => some true
  | "integer", _ => some false
  | "compound", .app _ _ => some true
  | "compound", _ => some false
  | "callable", .atom _ | "callable", .app _ _ => some true
  | "callable", _ => some false
  | "atomic", .var _ | "atomic", .app _ _ => some false
  | "atomic", _ => some true
  | _, _ => none

def builtin (f : String) (args : List Term) : Option Step :=
  match f, args with
  | "true", [] => some (.goals [[]])
  | "fail", [] | "false", [] => some (.goals [])
  | "=", [a, b] => some (.unify a b)
  | "\\=", [a, b] => some (.goals [[ifThenElse (mk2 "=" a b) (.atom "fail") (.atom "true")]])
  | "==", [a, b] => some (test (a = b))          -- goals are fully instantiated: identity is equality
  | "\\==", [a, b] => some (test (a ≠ b))
  | "\\+", [g] => some (.goals [[ifThenElse (call1 g) (.atom "fail") (.atom "true")]])
  | "once", [g] => some (.goals [[mk2 "->" (call1 g) (.atom "true")]])
  | "throw", [b] => some (.raise (match b with | .var _ => instErr | _ => b))
  | "between", [l, h, x] =>
    match l, h, x with
    | .var _, _, _ | .int _, .var _, _ => some (.raise instErr)
    | .int lo, .int hi, .int i => some (test (lo ≤ i ∧ i ≤ hi))
    | .int lo, .int hi, .var v =>
      if hi < lo then some (.goals [])
      else if lo = hi then some (.unify (.var v) (.int lo))
      else some (.goals [[mk2 "=" (.var v) (.int lo)], [Term.mk "between" [.int (lo + 1), .int hi, .var v]]])
    | .int _, .int _, _ => some (.raise (typeErr "integer" x))
    | .int _, _, _ => some (.raise (typeErr "integer" h))
    | _, _, _ => some (.raise (typeErr "integer" l))
  | "atom_length", [a, l] =>
    match a, l with
    | .var _, _ => some (.raise instErr)
    | .atom s, .var _ => some (.unify l (.int s.length))
    | .atom s, .int i =>
      if i < 0 then some (.raise (errorT (mk2 "domain_error" (.atom "not_less_than_zero") l)))
      else some (test (i = s.length))
    | .atom _, _ => some (.raise (typeErr "integer" l))
    | _, _ => some (.raise (typeErr "atom" a))
  | _, [t] => (typeTest f t).map test
  | _, _ => none

/-! ## The search -/

/-- an element of the resolvent -/
inductive Frame where
  | goal (g : Term) (cutLevel : Nat)   -- a goal, and the depth of the predicate call whose clause it is part of
  | exitCatch (depth : Nat)            -- reached when the goal of the catch/3 called at `depth` exits

def Frame.subst (θ : List (Nat × Term)) : Frame → Frame
  | .goal g l => .goal (Robinson.applySubst θ g) l
  | f => f

/-- how the search of a resolvent ended -/
inductive Stop where
  | exhausted
  | cut (level : Nat)                          -- exhausted, and a cut of a clause of the predicate call at depth `level` was executed
  | raised (ball : Term) (exited : List Nat)   -- a ball travels up; it was thrown after the goals of the catch/3 calls at these depths had exited
  | full                                       -- enough answers

structure Res where
  answers : List Term    -- instances of the query term, in order
  stop : Stop

def Res.prepend (as : List Term) (r : Res) : Res := { r with answers := as ++ r.answers }

def raise (ball : Term) : Option Res := some ⟨[], .raised ball []⟩
def failed : Option Res := some ⟨[], .exhausted⟩

/-- a cut of level `l` was executed, then the rest of the resolvent ended as `r` -/
def afterCut (l : Nat) (r : Res) : Res :=
  match r.stop with
  | .exhausted => { r with stop := .cut l }
  | .cut c => { r with stop := .cut (min c l) }
  | _ => r

/-- the goal of the catch/3 called at depth `c` had exited when the rest of the resolvent ended as `r` -/
def afterExit (c : Nat) (r : Res) : Res :=
  match r.stop with
  | .raised b ex => { r with stop := .raised b (c :: ex) }
  | _ => r

inductive U where
  | mgu (θ : List (Nat × Term))
  | fail
  | undefined    -- subject to occurs check (ISO 7.3.3), or out of fuel

def unify (fuel : Nat) (a b : Term) : U :=
  match Robinson.solve fuel [(a, b)] [] with
  | .mgu θ => .mgu θ
  | .clash => .fail
  | _ => .undefined

/-- an alternative way to continue -/
inductive Alt where
  | clause (goal : Term) (c : Term)   -- resolve `goal` with the program clause `c`
  | frames (fs : List Frame)          -- put these goals in front of the resolvent

/-- the goals of a clause body (or of a call/N goal) activated by the predicate call at depth `d` -/
def bodyFrames (iso : Bool) (b : Term) (d : Nat) : List Frame :=
  if iso then [.goal (convert b) d] else (conjuncts b).map (.goal · d)

/-- the alternatives `call(b)` offers at depth `d` -/
def bodyAlts (iso : Bool) (b : Term) (d : Nat) : List Alt :=
  if iso then [.frames (bodyFrames iso b d)] else (disjuncts b).map fun x => .frames (bodyFrames iso x d)

def sameProc (f : String) (n : Nat) (c : Term) : Bool :=
  match functor (headBody c).1 with
  | some (g, as) => g == f && as.length == n
  | none => false

/-
  solve fuel d nv resolvent q limit
    d      depth = number of enclosing predicate calls / catch calls being executed; the continuation
           of a call is solved inside it, so depths identify the calls on the current branch
    nv     next unused variable
    q      the current instance of the query term (of the findall template in a sub-search)
    limit  stop after this many answers (0 = no limit)
  `none` = out of fuel, or a unification subject to occurs check.
-/
mutual
  def solve (iso : Bool) (prog : List Term) : Nat → Nat → Nat → List Frame → Term → Nat → Option Res
    | 0, _, _, _, _, _ => none
    | _ + 1, _, _, [], q, limit => some ⟨[q], if limit = 1 then .full else .exhausted⟩
    | n + 1, d, nv, .exitCatch c :: rest, q, limit =>
      (solve iso prog n d nv rest q limit).map (afterExit c)
    | n + 1, d, nv, .goal g l :: rest, q, limit =>
      let branch := fun (as : List Alt) => solveAlts iso prog n d nv as rest q limit
      -- call(b): a new predicate call whose clauses are the disjuncts of b — opaque to cut
      let callBody := fun (b : Term) =>
        match b with
        | .var _ => raise instErr
        | _ => if okBody iso b then branch (bodyAlts iso b d) else raise (typeErr "callable" b)
      -- a then/else branch: part of the clause in ISO, a call/1 goal in the engine
      let branchGoal := fun (t : Term) => if iso then Frame.goal t l else Frame.goal (call1 t) l
      match functor g with
      | none => raise (match g with | .var _ => instErr | _ => typeErr "callable" g)
      | some (f, args) =>
      match f, args with
      | "!", [] => (solve iso prog n d nv rest q limit).map (afterCut l)
      | ",", [a, b] => if iso then solve iso prog n d nv (.goal a l :: .goal b l :: rest) q limit else callBody g
      -- if-then(-else): the condition is solved at most once — a cut local to the construct follows it
      | ";", [.app "->" (.cons c (.cons t .nil)), e] =>
        branch [.frames [.goal (call1 c) d, .goal cutT d, branchGoal t], .frames [branchGoal e]]
      | "->", [c, t] => branch [.frames [.goal (call1 c) d, .goal cutT d, branchGoal t]]
      | ";", [a, b] => if iso then branch [.frames [.goal a l], .frames [.goal b l]] else callBody g
      | "call", c :: extra =>
        if extra.length > 7 then raise (existenceErr f args.length) else
        match addArgs c extra with
        | some b => callBody b
        | none => raise (match c with | .var _ => instErr | _ => typeErr "callable" c)
      | "findall", [t, c, r] =>
        if !isPartialList r then raise (typeErr "list" r) else
        -- a search of its own: its answers are the instances of the template
        match solve iso prog n (d + 1) nv [.goal (call1 c) d] t 0 with
        | none => none
        | some ⟨_, .raised b _⟩ => raise b
        | some ⟨ts, _⟩ =>
          let (copies, nv') := freshenAll ts nv
          solve iso prog n d nv' (.goal (mk2 "=" r (Term.list copies)) l :: rest) q limit
      | "catch", [c, catcher, recovery] =>
        match solve iso prog n (d + 1) nv (.goal (call1 c) d :: .exitCatch d :: rest) q limit with
        | none => none
        | some r =>
          match r.stop with
          | .raised b exited =>
            if exited.contains d then some r else       -- thrown by the continuation after the goal exited
            let (ball, nv') := freshen b nv             -- a copy of the ball; all bindings made since the call are gone
            match unify n catcher ball with
            | .undefined => none
            | .fail => some r
            | .mgu θ =>
              (solve iso prog n d nv' ((Frame.goal (call1 recovery) l :: rest).map (Frame.subst θ))
                (Robinson.applySubst θ q) (limit - r.answers.length)).map (Res.prepend r.answers)
          | _ => some r
      | _, _ =>
        match builtin f args with
        | some (.raise b) => raise b
        | some (.unify a b) =>
          match unify n a b with
          | .undefined => none
          | .fail => failed
          | .mgu θ => solve iso prog n d nv (rest.map (Frame.subst θ)) (Robinson.applySubst θ q) limit
        | some (.goals [gs]) => solve iso prog n d nv (gs.map (.goal · l) ++ rest) q limit
        | some (.goals alts) => branch (alts.map fun gs => .frames (gs.map (.goal · l)))
        | none =>
          -- user predicate: its clauses in database order
          match prog.filter (sameProc f args.length) with
          | [] => raise (existenceErr f args.length)
          | cs => branch (cs.map (.clause g))

  /-- try the alternatives of the predicate call at depth `d` in order -/
  def solveAlts (iso : Bool) (prog : List Term) : Nat → Nat → Nat → List Alt → List Frame → Term → Nat → Option Res
    | 0, _, _, _, _, _, _ => none
    | _ + 1, _, _, [], _, _, _ => failed
    | n + 1, d, nv, a :: as, rest, q, limit =>
      -- this alternative is exhausted after the answers `got`: backtrack into the next one
      let next := fun (got : List Term) =>
        (solveAlts iso prog n d nv as rest q (limit - got.length)).map (Res.prepend got)
      let run := fun (resolvent : List Frame) (q' : Term) (nv' : Nat) =>
        match solve iso prog n (d + 1) nv' resolvent q' limit with
        | none => none
        | some r =>
          match r.stop with
          | .exhausted => next r.answers
          | .cut c => some { r with stop := if c = d then .exhausted else .cut c }   -- the remaining alternatives are dropped
          | _ => some r
      match a with
      | .frames fs => run (fs ++ rest) q nv
      | .clause g c =>
        let (h, b) := headBody (shift nv c)     -- renamed apart
        match unify n g h with
        | .undefined => none
        | .fail => next []
        | .mgu θ => run ((bodyFrames iso b d ++ rest).map (Frame.subst θ)) (Robinson.applySubst θ q) (nv + maxVar c)
end

/-- Answers of `query` against the program `prog` (clause terms `Head :- Body` or facts, each with its
    own variable numbering), as instances of the query term in the order standard Prolog execution
    finds them, at most `maxAnswers` of them (0 = all), and how the search ended.
    `none`: out of fuel, or a unification subject to occurs check was met (undefined in ISO). -/
def solveQuery (fuel : Nat) (prog : List Term) (query : Term) (maxAnswers : Nat) (iso : Bool := false) :
    Option (List Term × End) :=
  let prog' := (if iso then prog else prog.flatMap splitClause) ++ library
  match solve iso prog' fuel 0 (maxVar query) [.goal (call1 query) 0] query maxAnswers with
  | none => none
  | some r =>
    some (r.answers,
      match r.stop with
      | .exhausted | .cut _ => .exhausted
      | .full => .more
      | .raised (.app "error" (.cons formal (.cons _ .nil))) _ => .err formal
      | .raised b _ => .ball b)

end PrologVerif.SLD
