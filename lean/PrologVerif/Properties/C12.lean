/-
  C12 — the Solutions iterator never blocks, counts answers exactly and stops on Close.

  Property theorems only (lemmas: Proofs/Solutions.lean).  Everything is about the transition
  system of Model/Solutions.lean — the `more`/`next` handshake of interpreter.go `QueryContext`
  and solutions.go `Next/Scan/Err/Close` — for ALL outcome streams `q` (finite, erroring,
  infinite), ALL call sequences `todo` and ALL schedules (every `Step` is allowed).
  `fix = true` is the protocol of the repaired tree (D14: `Solutions.done`), `fix = false` the
  protocol of the pinned tree, kept for the witness.  The specification is Spec/Iter.lean.
-/
import PrologVerif.Proofs.Solutions
/-! ### definitions needed to state the theorems (kept outside the audited namespace) -/
namespace PrologVerif.Solutions
open PrologVerif.Iter

/-- no `Next` yet: the producer waits for the first request -/
def Fresh (s : Sys) : Prop :=
  s.p = .await0 ∧ s.closed = false ∧ s.done = false ∧ s.more = 0 ∧ s.moreClosed = false ∧ s.nextClosed = false
/-- an answer was delivered: the producer waits inside the continuation -/
def Mid (s : Sys) : Prop :=
  s.p = .awaitMore ∧ s.closed = false ∧ s.done = false ∧ s.more = 0 ∧ s.moreClosed = false ∧ s.nextClosed = false
/-- a `Next` reported the end (exhaustion or error): producer gone, `more` EMPTY -/
def Done (s : Sys) : Prop :=
  s.p = .exited ∧ s.closed = false ∧ s.done = true ∧ s.more = 0 ∧ s.moreClosed = false ∧ s.nextClosed = true
/-- closed before the end: the producer is on its way out (it only has `<-more`, `close(next)` left) -/
def ClosedLive (s : Sys) : Prop :=
  s.closed = true ∧ s.done = false ∧ s.more = 0 ∧ s.moreClosed = true ∧ s.perr = none ∧
    ((s.nextClosed = false ∧ (s.p = .await0 ∨ s.p = .awaitMore ∨ s.p = .exiting)) ∨ (s.nextClosed = true ∧ s.p = .exited))
/-- closed after the end -/
def ClosedDone (s : Sys) : Prop :=
  s.p = .exited ∧ s.closed = true ∧ s.done = true ∧ s.more = 0 ∧ s.moreClosed = true ∧ s.nextClosed = true
/-- the sixth shape, reachable only on the pinned tree: producer gone and a token parked in `more`
    — the next `Next` blocks forever on its send (D14) -/
def Parked (s : Sys) : Prop :=
  s.p = .exited ∧ s.closed = false ∧ s.more = 1 ∧ s.moreClosed = false ∧ s.nextClosed = true

instance (s : Sys) : Decidable (Parked s) := by unfold Parked; infer_instance

/-- the statement of C12_no_block for an arbitrary protocol variant -/
def NoBlock (fix : Bool) : Prop :=
  ∀ (q : Query) (todo : List Op) (s : Sys), Reach fix q todo s → ¬ Finished s → ∃ s', Step fix q s s'

/-- number of steps the producer still has to take after `Close` -/
def exitRank : PPc → Nat
  | .await0 | .awaitMore => 2
  | .exiting => 1
  | .exited => 0
  | _ => 3

/-- two iterations side by side: any goroutine of either system may move (this includes every way a
    single consumer goroutine can interleave calls on the two `Solutions`) -/
inductive Reach2 (q₁ q₂ : Query) (t₁ t₂ : List Op) : Sys → Sys → Prop where
  | init : Reach2 q₁ q₂ t₁ t₂ (init t₁) (init t₂)
  | left {s₁ s₁' s₂} : Reach2 q₁ q₂ t₁ t₂ s₁ s₂ → Step true q₁ s₁ s₁' → Reach2 q₁ q₂ t₁ t₂ s₁' s₂
  | right {s₁ s₂ s₂'} : Reach2 q₁ q₂ t₁ t₂ s₁ s₂ → Step true q₂ s₂ s₂' → Reach2 q₁ q₂ t₁ t₂ s₁ s₂'

end PrologVerif.Solutions

namespace PrologVerif.C12
open PrologVerif PrologVerif.Iter PrologVerif.Solutions

/-! ### the states between two calls -/

/-- **C12_boundary_invariant**: whatever the query, the call sequence and the schedule, between two
    calls the repaired protocol is in one of five shapes (the consumer never panics, `more` is empty,
    the producer is parked at a receive, on its way out after `Close`, or gone). -/
theorem C12_boundary_invariant (q : Query) (todo : List Op) (s : Sys)
    (h : Reach true q todo s) (hc : s.c = .idle) :
    Fresh s ∨ Mid s ∨ Done s ∨ ClosedLive s ∨ ClosedDone s := by
  have hi := inv_reach h
  obtain ⟨_, hcl, hd, _, hsh⟩ := hi
  generalize specState q s = it at *
  rcases s with ⟨todo', hist, out, c, env, closed, done, more, moreClosed, nextClosed, p, pos, work, perr⟩
  simp only at hc
  subst hc
  cases p <;> simp [Shape, Quiet] at hsh
  all_goals simp [Fresh, Mid, Done, ClosedLive, ClosedDone]
  all_goals cases closed <;> simp_all
  all_goals grind

/-- the consumer never panics (no send on the closed `more`, no double `close`) -/
theorem C12_no_panic (q : Query) (todo : List Op) (s : Sys) (h : Reach true q todo s) :
    s.c ≠ .crashed := by
  have hsh := (inv_reach h).shape
  intro hc
  generalize specState q s = it at hsh
  rcases s with ⟨todo', hist, out, c, env, closed, done, more, moreClosed, nextClosed, p, pos, work, perr⟩
  simp only at hc
  subst hc
  simp [Shape] at hsh

/-! ### no call ever blocks -/

/-- **C12_no_block** (deadlock freedom): in every reachable state in which the consumer has not
    finished its call sequence — in the middle of a `Next`, or before any call, in particular a
    `Next` after exhaustion, after an error or after `Close` — some step is enabled. -/
theorem C12_no_block (q : Query) (todo : List Op) (s : Sys)
    (h : Reach true q todo s) (hf : ¬ Finished s) : ∃ s', Step true q s s' :=
  progress (inv_reach h) hf

/-- **C12_no_block_bounded** (termination under every schedule): no run is longer than 8 steps per
    call; the bound does not depend on the query (one `searching` step stands for the search). -/
theorem C12_no_block_bounded (q : Query) (todo : List Op) (n : Nat) (s : Sys)
    (h : Run true q n (init todo) s) : n ≤ 8 * todo.length := by
  have := (measure_run (inv_init q todo) h).2
  have h0 : Solutions.measure (init todo) = 8 * todo.length := by simp [Solutions.measure, cPot, pPot, init]
  omega

/-- hence: every maximal run (one that cannot be extended) has completed all calls -/
theorem C12_maximal_run_finished (q : Query) (todo : List Op) (n : Nat) (s : Sys)
    (h : Run true q n (init todo) s) (hmax : ∀ s', ¬ Step true q s s') : Finished s :=
  Classical.byContradiction fun hf =>
    let ⟨s', hs⟩ := C12_no_block q todo s (reach_of_run h) hf
    hmax s' hs

theorem C12_no_block_fixed : NoBlock true := C12_no_block

/-- **C12_call_returns** (per call): from every reachable state between two calls, under every schedule, a
    call that has not returned yet has been running for at most 9 steps of the whole system — its own
    (call, send, receive), the search step, and the producer's receive/err/close steps.  With
    C12_no_block (some step is always enabled) every call returns; in particular `Next` after exhaustion,
    after an error and after `Close` returns in its first step. -/
theorem C12_call_returns (q : Query) (todo : List Op) (s s' : Sys) (op : Op) (rest : List Op) (n : Nat)
    (h : Reach true q todo s) (hc : s.c = .idle) (ht : s.todo = op :: rest)
    (hr : Run true q n s s') (hh : s'.hist.length = s.hist.length) : n ≤ 9 :=
  call_bound (inv_reach h) hc ht hr hh

/-- the schedule that drives `[Next, Next, Next, Next, Next]` on a two-answer query into the
    deadlock on the pinned protocol (true = consumer step, false = producer step) -/
def d14Schedule : List Bool :=
  [true, true, false, false, true,            -- Next 1: call, send, recv, search, rendezvous  (true)
   true, true, false, false, true,            -- Next 2                                          (true)
   true, true, false, false, false, true,     -- Next 3: …, search = exhausted, close(next)     (false)
   true, true, true,                          -- Next 4: parks a token in `more`                (false)
   true]                                      -- Next 5: call; its send is not enabled, nobody receives

/-- **D14 on the pinned tree**: the pinned protocol does block — for a query with two answers,
    calls 1–2 return true, 3–4 false, and the fifth `Next` can never return. -/
theorem C12_no_block_pinned_witness : ¬ NoBlock false := by
  intro h
  let q := Query.ofList [.answer 1, .answer 2]
  let todo := [Op.next, .next, .next, .next, .next]
  have hdead : ((follow false q d14Schedule (init todo)).map fun s => decide (s.c = .nextSend ∧
      s.out = [.bool true, .bool true, .bool false, .bool false] ∧ Parked s ∧ succ false q s = [])) = some true := by
    decide +kernel
  obtain ⟨s, hfol, hd⟩ := Option.map_eq_some_iff.mp hdead
  obtain ⟨hc, _, _, hsucc⟩ := of_decide_eq_true hd
  have hr : Reach false q todo s := reach_follow d14Schedule _ _ .init hfol
  obtain ⟨s', hs⟩ := h q todo s hr (by simp [Finished, hc])
  have := (mem_succ false q s s').mpr hs
  simp [hsucc] at this

/-! ### return values are those of the sequential iterator -/

/-- **C12_refines_iter**: under every schedule the calls completed so far are a prefix of the call
    sequence and their return values are exactly those of Spec/Iter: `Next` is true once per answer,
    in order, and false from the first end/error/Close on; `Scan` sees the answer of the most recent
    `Next` that looked at the stream; `Err` the terminating error once a `Next` has reported it;
    `Close` nil, then ErrClosed. -/
theorem C12_refines_iter (q : Query) (todo : List Op) (s : Sys) (h : Reach true q todo s) :
    s.hist <+: todo ∧ s.out = outs q s.hist := by
  constructor
  · have := program_reach h
    exact ⟨inflight s ++ s.todo, by rw [← this, program, List.append_assoc]⟩
  · exact (inv_reach h).outs

/-- at the end of every run the log is the specification's output for the whole call sequence -/
theorem C12_refines_iter_finished (q : Query) (todo : List Op) (s : Sys) (h : Reach true q todo s)
    (hf : Finished s) : s.hist = todo ∧ s.out = outs q todo := by
  have hp := program_reach h
  have hh : s.hist = todo := by
    rw [← hp, program, hf.2]
    simp [inflight, hf.1]
  exact ⟨hh, by rw [← hh]; exact (inv_reach h).outs⟩

/-- the results do not depend on the schedule -/
theorem C12_schedule_independent (q : Query) (todo : List Op) (s₁ s₂ : Sys)
    (h₁ : Reach true q todo s₁) (h₂ : Reach true q todo s₂) (f₁ : Finished s₁) (f₂ : Finished s₂) :
    s₁.out = s₂.out := by
  rw [(C12_refines_iter_finished q todo s₁ h₁ f₁).2, (C12_refines_iter_finished q todo s₂ h₂ f₂).2]

/-- the producer never searches ahead of the consumer's requests: between two calls it has done
    exactly one search step per answer delivered, plus the one that found the end -/
theorem C12_no_speculation (q : Query) (todo : List Op) (s : Sys) (h : Reach true q todo s)
    (hc : s.c = .idle) :
    s.work = (run q s.hist).1.pos + (if (run q s.hist).1.finished = true then 1 else 0) := by
  have hi := inv_reach h
  obtain ⟨_, hcl, hd, _, hsh⟩ := hi
  simp only [specState] at *
  generalize (run q s.hist).1 = it at *
  rcases s with ⟨todo', hist, out, c, env, closed, done, more, moreClosed, nextClosed, p, pos, work, perr⟩
  simp only at hc
  subst hc
  cases p <;> simp [Shape, Quiet] at hsh
  all_goals simp_all
  all_goals grind

/-! ### Close stops the search and lets the goroutine terminate -/

/-- **C12_close_stops**: once `Close` has returned, under every schedule
    (1) no step of the system is a search step (`work` — "goals run" — never changes again) and the
        iterator stays closed;
    (2) the producer is never blocked: unless it has exited it has an enabled step;
    (3) each of its steps brings it closer to `exited`, which it reaches after at most 2 steps
        (`<-more` yields "closed", then the deferred `close(next)`). -/
theorem C12_close_stops (q : Query) (todo : List Op) (s : Sys) (h : Reach true q todo s)
    (hcl : s.closed = true) :
    (∀ s', Step true q s s' → s'.work = s.work ∧ s'.closed = true) ∧
    (s.p ≠ .exited → ∃ s', pStep q s = some s') ∧
    (∀ s', pStep q s = some s' → exitRank s'.p < exitRank s.p) ∧
    exitRank s.p ≤ 2 := by
  have hsh := (inv_reach h).shape
  generalize specState q s = it at hsh
  rcases s with ⟨todo', hist, out, c, env, closed, done, more, moreClosed, nextClosed, p, pos, work, perr⟩
  simp only at hcl
  subst hcl
  cases c <;> cases p <;> simp [Shape, Quiet] at hsh
  all_goals (
    obtain ⟨rfl, rfl, hrest⟩ := hsh
    refine ⟨?_, ?_, ?_, ?_⟩
    · intro s' hs
      rcases hs with hs | hs
      · simp only [cStep] at hs
        (repeat' split at hs) <;> simp at hs <;> subst hs <;> simp [Sys.ret]
      · simp [pStep, recvMore] at hs
        try (subst hs; simp)
    · simp [pStep, recvMore]
    · intro s' hs
      simp [pStep, recvMore] at hs
      try (subst hs; simp [exitRank])
    · simp [exitRank])

/-! ### reading `Err`/`Scan` between calls does not race with the producer -/

/-- **C12_reads_race_free**: whenever the consumer is between two calls — the only moments at which it reads
    `sols.err` (`Err`) and `s.env` (`Scan`) — the producer is parked at a receive, on its way out, or gone, and
    however long it runs on its own it never reaches its write of `sols.err` nor changes `env`: those reads
    are ordered after every write by the channel operations (no data race on `err`/`env`). -/
theorem C12_reads_race_free (q : Query) (todo : List Op) (s s' : Sys)
    (h : Reach true q todo s) (hc : s.c = .idle) (hr : PRun q s s') :
    (∀ e, s'.p ≠ .failing e) ∧ s'.perr = s.perr ∧ s'.env = s.env := by
  obtain ⟨⟨_, hp⟩, h2, h3⟩ := harmless_prun (harmless_idle (inv_reach h) hc) hr
  refine ⟨fun e he => ?_, h2, h3⟩
  rcases hp with hp | hp | hp | hp <;> simp [hp] at he

/-! ### two Solutions of one interpreter -/

/-- **C12_interleave**: the protocol state of a `Solutions` is private to it (its own channels, its own
    goroutine), so however two iterations are interleaved each one is a run of the single system and
    hence returns what it would return alone.  (What two open queries share is the database of the
    VM — property C09 — not the protocol.) -/
theorem C12_interleave (q₁ q₂ : Query) (t₁ t₂ : List Op) (s₁ s₂ : Sys)
    (h : Reach2 q₁ q₂ t₁ t₂ s₁ s₂) :
    Reach true q₁ t₁ s₁ ∧ Reach true q₂ t₂ s₂ ∧ s₁.out = outs q₁ s₁.hist ∧ s₂.out = outs q₂ s₂.hist := by
  have hr : Reach true q₁ t₁ s₁ ∧ Reach true q₂ t₂ s₂ := by
    induction h with
    | init => exact ⟨.init, .init⟩
    | left _ hs ih => exact ⟨.step ih.1 hs, ih.2⟩
    | right _ hs ih => exact ⟨ih.1, .step ih.2 hs⟩
  exact ⟨hr.1, hr.2, (inv_reach hr.1).outs, (inv_reach hr.2).outs⟩

/-! ### non-vacuity: concrete runs -/

/-- repaired protocol, two answers, seven calls: terminal states exist, all are finished, and the log is
    true, true, false, false, false; Scan unbound; Close nil -/
example : (terminals true (Query.ofList [.answer 1, .answer 2])
    [.next, .next, .next, .next, .next, .scan, .close]).map (·.out) =
    [[.bool true, .bool true, .bool false, .bool false, .bool false, .ans none, .closed false]] := by
  decide +kernel

/-- an erroring query: Err reports the error once Next has returned false, not before -/
example : (terminals true (Query.ofList [.answer 7, .error 3]) [.next, .err, .next, .err, .next]).map (·.out) =
    [[.bool true, .err none, .bool false, .err (some 3), .bool false]] := by
  decide +kernel

/-- Close in the middle of an infinite query: the answer stays scannable, Next is false, a second Close
    is ErrClosed, and in every terminal state the producer has exited after exactly one search step -/
example : (terminals true Query.nat [.next, .close, .scan, .next, .close]).map (fun s => (s.out, s.p, s.work)) =
    [([.bool true, .closed false, .ans (some 0), .bool false, .closed true], .exited, 1)] := by
  decide +kernel

end PrologVerif.C12
