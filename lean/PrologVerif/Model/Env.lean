/-
  Model of the persistent red-black tree behind `*Env` (engine/env.go: newEnvKey, lookup, bind,
  insert, balance, and the implicit `rootEnv` standing for the nil environment).
  Line by line, including the decision order of `balance`.
-/
import PrologVerif.Basic
namespace PrologVerif

inductive Color | red | black
  deriving DecidableEq, Repr

inductive RBEnv where
  | nil
  | node (c : Color) (l : RBEnv) (k : Int) (v : Term) (r : RBEnv)
  deriving DecidableEq

namespace RBEnv

/-- `newEnvKey`: Go's `/` truncates, so `k/2 != 0` iff |k| ≥ 2 -/
def newEnvKey (v : Int) : Int := if Int.tdiv v 2 ≠ 0 then -v else v

/-- `varContext = NewVariable()` is the first variable of the process; `rootEnv` binds it to `root`.
    The zero value of `color` is `red`. -/
def varContext : Int := 1
def rootEnv : RBEnv := node .red nil (newEnvKey varContext) (.atom "root") nil

def isRed : RBEnv → Bool
  | node .red _ _ _ _ => true
  | _ => false

/-- the search loop of `lookup` on a (non-nil-substituted) tree -/
def find : RBEnv → Int → Option Term
  | nil, _ => none
  | node _ l k v r, x => if x < k then find l x else if x > k then find r x else some v

/-- `balance`, in the decision order of the Go code: the right side is only inspected when the
    left child is not red -/
def balance : RBEnv → RBEnv
  | node c l kz vz d =>
    match l with
    | node .red ll ky vy lr =>
      match ll with
      | node .red a kx vx b =>
        node .red (node .black a kx vx b) ky vy (node .black lr kz vz d)
      | _ =>
        match lr with
        | node .red b ky' vy' c' =>
          node .red (node .black ll ky vy b) ky' vy' (node .black c' kz vz d)
        | _ => node c l kz vz d
    | _ =>
      match d with
      | node .red rl ky vy rr =>
        match rl with
        | node .red b kx vx c' =>
          node .red (node .black l kz vz b) kx vx (node .black c' ky vy rr)
        | _ =>
          match rr with
          | node .red c' kx vx d' =>
            node .red (node .black l kz vz rl) ky vy (node .black c' kx vx d')
          | _ => node c l kz vz d
      | _ => node c l kz vz d
  | nil => nil

/-- `insert` -/
def insert : RBEnv → Int → Term → RBEnv
  | nil, k, v => node .red nil k v nil
  | node c l k' v' r, k, v =>
    if k < k' then balance (node c (insert l k v) k' v' r)
    else if k > k' then balance (node c l k' v' (insert r k v))
    else node c l k' v r

def blacken : RBEnv → RBEnv
  | node _ l k v r => node .black l k v r
  | nil => nil

/-- `bind` (on keys): nil stands for `rootEnv` -/
def bindKey (e : RBEnv) (k : Int) (t : Term) : RBEnv :=
  blacken (insert (match e with | nil => rootEnv | e => e) k t)

/-- `lookup` (on keys) -/
def lookupKey (e : RBEnv) (k : Int) : Option Term :=
  find (match e with | nil => rootEnv | e => e) k

def bind (e : RBEnv) (v : Int) (t : Term) : RBEnv := bindKey e (newEnvKey v) t
def lookup (e : RBEnv) (v : Int) : Option Term := lookupKey e (newEnvKey v)

end RBEnv
end PrologVerif
