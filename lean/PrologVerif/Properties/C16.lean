/-
  C16 — relational built-ins enumerate exactly their relation in every call mode.

  Property theorems only (helper lemmas: Proofs/RelMatch, RelExact, RelErrors, Utf8).  Everything is
  about `Model/Rel.lean`, which mirrors the builtins of engine/builtin.go function by function; the
  tie to the source is the correspondence stream `c16.rel` and, for member/2 and select/3, the
  clauses regenerated from bootstrap.pl.

  Shape of the statements.  A call is its list of resolved argument terms `args`; the model returns
  `.error e` or `.ok ans` (the answer tuples in order).  For a relation `R` on tuples
  (Spec/Relations) `Exact R args ans` bundles the three P0 obligations of DESIGN §6:
      sound     every answer is a tuple of `R` and an instance of the call,
      complete  every tuple of `R` that is an instance of the call is an answer,
      nodup     no tuple is answered twice.
  `ErrorsOk pred args r` is the ISO error table (`R_errors`).  `C16_monotone` is the "consequently"
  of the property; per predicate it is the one-line corollary `…_monotone`.

  Mode table (ISO 8.16 / 8.5, Prologue for the list predicates):
    atom_length(+atom, ?integer)            atom_concat(?atom, ?atom, +atom) | (+atom, +atom, -atom)
    sub_atom(+atom, ?int, ?int, ?int, ?atom) atom_chars(+atom, ?list) | (-atom, +char_list)   (atom_codes alike)
    char_code(+char, ?code) | (-char, +code) between(+int, +int, ?int)     succ(+int, ?int) | (-int, +int)
    functor(+nonvar, ?, ?) | (-, +atomic, +int)   arg(+int, +compound, ?)   =..(+nonvar, ?list) | (-, +list)
    nth0/nth1(?int, +list, ?)   length(?list, ?int)   append(?list, ?, ?)   member(?, ?list)   select(?, ?list, ?list)
-/
import PrologVerif.Proofs.RelErrors
import PrologVerif.Proofs.RelList
import PrologVerif.Proofs.RelUtf8
import PrologVerif.Proofs.RelUnify
import PrologVerif.Proofs.RelSld
import PrologVerif.Proofs.RelAux
import PrologVerif.Proofs.RelOnce
namespace PrologVerif.C16
open PrologVerif PrologVerif.Rel PrologVerif.Relations

/-! ## the "consequently": instantiating further arguments selects the matching subset -/

/-- If two calls of a predicate are both answered exactly and the second is an instance of the
    first, its answers are (a permutation of) the answers of the first that match it. -/
theorem C16_monotone {R : List Term → Prop} {args args' : List Term} {ans ans' : Answers}
    (h : Exact R args ans) (h' : Exact R args' ans') (hi : IsInstance args args') :
    ans'.Perm (ans.filter fun t => decide (IsInstance args' t)) :=
  h.monotone h' hi

/-- the instance test used above is decided by the matcher that the model (and the oracle) runs -/
theorem C16_instance_decided (args t : List Term) :
    (matchL args t []).isSome = true ↔ ∃ σ : Nat → Term, t = args.map (substT σ) :=
  matchL_isSome_iff args t

/-! ## atom_length/2 -/

theorem C16_atom_length_exact {a l : Term} {ans : Answers} (h : atomLength a l = .ok ans) :
    Exact atomLengthT [a, l] ans := by
  unfold atomLength at h
  split at h
  · cases h
  · rename_i s
    split at h
    · cases h
    · cases h
      apply exact_selectCands
      · intro c hc; simp at hc; subst hc; simp [atomLengthT]
      · intro t hr hi
        obtain ⟨σ, rfl⟩ := hi
        simp only [List.map, substT_atom] at hr ⊢
        cases hl : substT σ l <;> simp [atomLengthT, hl] at hr
        simp [hr]
      · simp
  · cases h

theorem C16_atom_length_errors (a l : Term) : ErrorsOk "atom_length" [a, l] (atomLength a l) := by
  apply errorsOk_of _ _ (modeErrors_atom_length a l) rfl
  rw [nlz_eq, mustBeAtomOrVar_eq]
  have := instErr_not_mem_cpi l
  unfold atomLength
  split
  · simp [isVar]
  · cases h : checkPositiveInteger l <;> simp_all [isVar, isVarOrAtom]
  · cases a <;> simp_all [isVar, isVarOrAtom]

theorem C16_atom_length_monotone {a l a' l' : Term} {ans ans' : Answers}
    (h : atomLength a l = .ok ans) (h' : atomLength a' l' = .ok ans') (hi : IsInstance [a, l] [a', l']) :
    ans'.Perm (ans.filter fun t => decide (IsInstance [a', l'] t)) :=
  C16_monotone (C16_atom_length_exact h) (C16_atom_length_exact h') hi

example : atomLength (.atom "é€😀") (.var 0) = .ok [[.atom "é€😀", .int 3]] := by decide +kernel

/-! ## atom_concat/3 -/

theorem C16_atom_concat_exact {a1 a2 a3 : Term} {ans : Answers} (h : atomConcat a1 a2 a3 = .ok ans) :
    Exact atomConcatT [a1, a2, a3] ans := by
  unfold atomConcat at h
  split at h
  · -- atom3 unbound: atom1, atom2 must be atoms
    split at h
    · cases h
    · rename_i s1
      split at h
      · cases h
      · rename_i s2
        cases h
        apply exact_selectCands
        · intro c hc; simp at hc; subst hc
          simp [atomConcatT, concat, mkAtom, String.toList_ofList]
        · intro t hr hi
          obtain ⟨σ, rfl⟩ := hi
          simp only [List.map, substT_atom] at hr ⊢
          cases h3 : substT σ (Term.var _) <;> simp [atomConcatT, h3] at hr
          rename_i c
          simp only [concat] at hr
          simp [mkAtom, hr, String.ofList_toList]
        · simp
      · cases h
    · cases h
  · rename_i c
    split at h
    · cases h
    · split at h
      · cases h
      · cases h
        apply exact_selectCands
        · intro t ht
          simp only [List.mem_map] at ht
          obtain ⟨⟨x, y⟩, hp, rfl⟩ := ht
          simp [atomConcatT, concat, mkAtom, String.toList_ofList, mem_concatSplits.mp hp]
        · intro t hr hi
          obtain ⟨σ, rfl⟩ := hi
          simp only [List.map, substT_atom] at hr ⊢
          cases h1 : substT σ a1 <;> simp [atomConcatT, h1] at hr
          cases h2 : substT σ a2 <;> simp [h2] at hr
          rename_i x y
          simp only [List.mem_map]
          exact ⟨(x.toList, y.toList), mem_concatSplits.mpr hr, by simp [mkAtom_toList]⟩
        · apply nodup_map_on _ (concatSplits_nodup _)
          rintro ⟨x, y⟩ _ ⟨x', y'⟩ _ h
          simp only [List.cons.injEq, and_true] at h
          rw [mkAtom_inj h.1, mkAtom_inj h.2]
  · cases h

theorem C16_atom_concat_errors (a b c : Term) : ErrorsOk "atom_concat" [a, b, c] (atomConcat a b c) := by
  apply errorsOk_of _ _ (modeErrors_atom_concat a b c) rfl
  simp only [mustBeAtomOrVar_eq]
  unfold atomConcat
  split
  · split
    · simp [isVar, isVarOrAtom]
    · split
      · simp [isVar, isVarOrAtom]
      · simp [isVar, isVarOrAtom]
      · cases b <;> simp_all [isVar, isVarOrAtom]
    · cases a <;> simp_all [isVar, isVarOrAtom]
  · split
    · simp_all [isVar, isVarOrAtom]
    · split
      · simp_all [isVar, isVarOrAtom]
      · simp_all [isVar, isVarOrAtom]
  · cases c <;> simp_all [isVar, isVarOrAtom]

theorem C16_atom_concat_monotone {a b c a' b' c' : Term} {ans ans' : Answers}
    (h : atomConcat a b c = .ok ans) (h' : atomConcat a' b' c' = .ok ans')
    (hi : IsInstance [a, b, c] [a', b', c']) :
    ans'.Perm (ans.filter fun t => decide (IsInstance [a', b', c'] t)) :=
  C16_monotone (C16_atom_concat_exact h) (C16_atom_concat_exact h') hi

example : atomConcat (.var 0) (.var 1) (.atom "é€") =
    .ok [[.atom "", .atom "é€", .atom "é€"], [.atom "é", .atom "€", .atom "é€"], [.atom "é€", .atom "", .atom "é€"]] := by
  decide +kernel

/-! ## sub_atom/5 -/

theorem C16_sub_atom_exact {w b l a s : Term} {ans : Answers} (h : Rel.subAtom w b l a s = .ok ans) :
    Exact subAtomT [w, b, l, a, s] ans := by
  unfold Rel.subAtom at h
  split at h
  · cases h
  · rename_i ws
    split at h
    · cases h
    split at h
    · cases h
    split at h
    · cases h
    split at h
    · cases h
    cases h
    apply exact_selectCands
    · intro t ht
      obtain ⟨i, n, hin, rfl⟩ := mem_subAtomCands.mp ht
      simp only [subAtomT, mkAtom, String.toList_ofList, subAtom_iff]
      simp; omega
    · intro t hr hi
      obtain ⟨σ, rfl⟩ := hi
      obtain ⟨w', b', l', a', s', ht, hb, hl, ha, hsub⟩ := subAtomT_inv hr
      simp only [List.map, substT_atom, List.cons.injEq, Term.atom.injEq, and_true] at ht
      obtain ⟨rfl, hb', hl', ha', hs'⟩ := ht
      simp only [List.map, substT_atom, hb', hl', ha', hs']
      rw [subAtom_iff] at hsub
      refine mem_subAtomCands.mpr ⟨b'.toNat, l'.toNat, by omega, ?_⟩
      simp only [mkAtom_toList, List.cons.injEq, Term.int.injEq, and_true, true_and, Int.ofNat_eq_natCast]
      refine ⟨by omega, by omega, by omega, ?_⟩
      rw [← hsub.2, mkAtom_toList]
    · exact subAtomCands_nodup _
  · cases h

theorem C16_sub_atom_errors (w b l a s : Term) :
    ErrorsOk "sub_atom" [w, b, l, a, s] (Rel.subAtom w b l a s) := by
  apply errorsOk_of _ _ (modeErrors_sub_atom w b l a s) rfl
  simp only [nlz_eq, mustBeAtomOrVar_eq]
  have hb := instErr_not_mem_cpi b
  have hl := instErr_not_mem_cpi l
  have ha := instErr_not_mem_cpi a
  unfold Rel.subAtom
  split
  · simp [isVar]
  · cases h1 : checkPositiveInteger b
    · cases h2 : checkPositiveInteger l
      · cases h3 : checkPositiveInteger a
        · by_cases h4 : isVarOrAtom s = false <;> simp_all [isVar, isVarOrAtom]
        · simp_all [isVar, isVarOrAtom]
      · simp_all [isVar, isVarOrAtom]
    · simp_all [isVar, isVarOrAtom]
  · cases w <;> simp_all [isVar, isVarOrAtom]

theorem C16_sub_atom_monotone {w b l a s w' b' l' a' s' : Term} {ans ans' : Answers}
    (h : Rel.subAtom w b l a s = .ok ans) (h' : Rel.subAtom w' b' l' a' s' = .ok ans')
    (hi : IsInstance [w, b, l, a, s] [w', b', l', a', s']) :
    ans'.Perm (ans.filter fun t => decide (IsInstance [w', b', l', a', s'] t)) :=
  (C16_sub_atom_exact h).monotone (C16_sub_atom_exact h') hi

example : Rel.subAtom (.atom "é€") (.var 0) (.int 1) (.var 1) (.var 2) =
    .ok [[.atom "é€", .int 0, .int 1, .int 1, .atom "é"], [.atom "é€", .int 1, .int 1, .int 0, .atom "€"]] := by
  decide +kernel

/-! ## atom_chars/2 -/

theorem C16_atom_chars_exact {a l : Term} {ans : Answers} (h : Rel.atomChars a l = .ok ans) :
    Exact atomCharsT [a, l] ans := by
  unfold Rel.atomChars at h
  split at h
  · -- the atom is unbound: the list is a ground list of characters
    rename_i v
    split at h
    · cases h
    · rename_i cs hcs
      split at h
      · cases h
      · rename_i htl
        cases h
        have hl : l = charList cs := by
          have := list_spine l
          rw [listErr_false_none htl, charsStrict_ok hcs] at this
          exact this.symm
        subst hl
        apply exact_selectCands
        · intro c hc; simp at hc; subst hc
          simp only [mkAtom]
          rw [atomCharsT_iff]; simp [String.toList_ofList]
        · intro t hr hi
          obtain ⟨σ, rfl⟩ := hi
          simp only [List.map, substT_ground σ _ (groundT_charList cs)] at hr ⊢
          obtain ⟨x, hx⟩ := atomCharsT_atom hr
          rw [hx] at hr ⊢
          have := charList_inj ((atomCharsT_iff x _).mp hr)
          rw [this, mkAtom_toList]; simp
        · simp
  · rename_i s
    split at h
    · cases h
    · split at h
      · cases h
      · cases h
        apply exact_selectCands
        · intro c hc; simp at hc; subst hc
          rw [atomCharsT_iff]
        · intro t hr hi
          obtain ⟨σ, rfl⟩ := hi
          simp only [List.map, substT_atom] at hr ⊢
          simp [(atomCharsT_iff s _).mp hr]
        · simp
  · cases h

/-! ## atom_codes/2 -/

theorem C16_atom_codes_exact {a l : Term} {ans : Answers} (h : Rel.atomCodes a l = .ok ans) :
    Exact atomCodesT [a, l] ans := by
  unfold Rel.atomCodes at h
  split at h
  · rename_i v
    split at h
    · cases h
    · rename_i cs hcs
      split at h
      · cases h
      · rename_i htl
        cases h
        have hl : l = codeList cs := by
          have := list_spine l
          rw [listErr_false_none htl, codesStrict_ok hcs] at this
          exact this.symm
        subst hl
        apply exact_selectCands
        · intro c hc; simp at hc; subst hc
          simp only [mkAtom]
          rw [atomCodesT_iff]; simp [String.toList_ofList]
        · intro t hr hi
          obtain ⟨σ, rfl⟩ := hi
          simp only [List.map, substT_ground σ _ (groundT_codeList cs)] at hr ⊢
          obtain ⟨x, hx⟩ := atomCodesT_atom hr
          rw [hx] at hr ⊢
          have := codeList_inj ((atomCodesT_iff x _).mp hr)
          rw [this, mkAtom_toList]; simp
        · simp
  · rename_i s
    split at h
    · cases h
    · split at h
      · cases h
      · cases h
        apply exact_selectCands
        · intro c hc; simp at hc; subst hc
          rw [atomCodesT_iff]
        · intro t hr hi
          obtain ⟨σ, rfl⟩ := hi
          simp only [List.map, substT_atom] at hr ⊢
          simp [(atomCodesT_iff s _).mp hr]
        · simp
  · cases h

/-! ## char_code/2 -/

theorem C16_char_code_exact {c n : Term} {ans : Answers} (h : Rel.charCode c n = .ok ans) :
    Exact charCodeT [c, n] ans := by
  unfold Rel.charCode at h
  split at h
  · rename_i v
    split at h
    · cases h
    · rename_i cd
      split at h
      · rename_i hv
        cases h
        have hrune := runeOf_toNat hv
        apply exact_selectCands
        · intro t ht; simp at ht; subst ht
          simp only [charCodeT, Relations.charCode, charAtom, mkAtom, String.toList_ofList]
          exact hrune.symm
        · intro t hr hi
          obtain ⟨σ, rfl⟩ := hi
          simp only [List.map, substT_int] at hr ⊢
          obtain ⟨s, ch, ht, hs⟩ := charCodeT_inv hr
          simp only [List.cons.injEq, Term.int.injEq, and_true] at ht
          obtain ⟨hx, hcd⟩ := ht
          have hch : ch = runeOf cd := by
            apply char_toNat_inj
            exact (Int.ofNat_inj.mp (hrune.trans hcd)).symm
          simp [hx, charAtom, mkAtom, ← hch, ← hs, String.ofList_toList]
        · simp
      · cases h
    · cases h
  · rename_i s
    split at h
    · exact charCode_atom_aux h
    · exact charCode_atom_aux h
    · cases h
  · cases h

theorem C16_atom_chars_errors (a l : Term) : ErrorsOk "atom_chars" [a, l] (Rel.atomChars a l) := by
  apply errorsOk_of _ [] (modeErrors_atom_chars a l) rfl
  unfold Rel.atomChars
  split
  · simp only [isVar, if_true]
    cases hcs : charsStrict l.spine.1 with
    | error e => simp [charsStrict_error hcs, List.ne_nil_of_mem (charsStrict_error hcs)]
    | ok cs =>
      simp only [charsStrict_ok_errors hcs, List.append_nil, listErrors_eq]
      cases hl : listErr false l l.spine.2 <;> simp
  · simp only [isVar, mustBeAtomOrVar_eq, isVarOrAtom]
    have h1 := instErr_not_mem_charElemErrors_lax l.spine.1
    have h2 := instErr_not_mem_listErrors_true l
    cases hcs : charsLax l.spine.1 with
    | some e => simp [charsLax_some hcs, h1, h2, List.ne_nil_of_mem (charsLax_some hcs)]
    | none =>
      simp only [charsLax_none hcs, List.append_nil]
      have h3 := listErrors_eq true l
      cases hl : listErr true l l.spine.2 <;> simp_all
  · have h1 := instErr_not_mem_charElemErrors_lax l.spine.1
    have h2 := instErr_not_mem_listErrors_true l
    cases a <;> simp_all [isVar, mustBeAtomOrVar_eq, isVarOrAtom]

theorem C16_atom_codes_errors (a l : Term) : ErrorsOk "atom_codes" [a, l] (Rel.atomCodes a l) := by
  apply errorsOk_of _ [] (modeErrors_atom_codes a l) rfl
  unfold Rel.atomCodes
  split
  · simp only [isVar, if_true]
    cases hcs : codesStrict l.spine.1 with
    | error e => simp [codesStrict_error hcs, List.ne_nil_of_mem (codesStrict_error hcs)]
    | ok cs =>
      simp only [codesStrict_ok_errors hcs, List.append_nil, listErrors_eq]
      cases hl : listErr false l l.spine.2 <;> simp
  · simp only [isVar, mustBeAtomOrVar_eq, isVarOrAtom]
    have h1 := instErr_not_mem_codeElemErrors_lax l.spine.1
    have h2 := instErr_not_mem_listErrors_true l
    cases hcs : codesLax l.spine.1 with
    | some e => simp [codesLax_some hcs, h1, h2, List.ne_nil_of_mem (codesLax_some hcs)]
    | none =>
      simp only [codesLax_none hcs, List.append_nil]
      have h3 := listErrors_eq true l
      cases hl : listErr true l l.spine.2 <;> simp_all
  · have h1 := instErr_not_mem_codeElemErrors_lax l.spine.1
    have h2 := instErr_not_mem_listErrors_true l
    cases a <;> simp_all [isVar, mustBeAtomOrVar_eq, isVarOrAtom]

theorem C16_char_code_errors (c n : Term) : ErrorsOk "char_code" [c, n] (Rel.charCode c n) := by
  apply errorsOk_of _ [] (modeErrors_char_code c n) rfl
  unfold Rel.charCode
  split
  · split
    · simp [isVar]
    · rename_i cd
      by_cases hv : validRune cd
      · simp [isVar, hv, (isCharCode_iff cd).mpr hv]
      · have : isCharCode cd = false := by
          cases hc : isCharCode cd
          · rfl
          · exact absurd ((isCharCode_iff cd).mp hc) hv
        simp [isVar, hv, this]
    · cases n <;> simp_all [isVar]
  · rename_i s
    split
    · rename_i v
      rcases charCodeOfAtom_cases s (.var v) with ⟨hl, ans, ha⟩ | ⟨hl, he⟩
      · simp_all [isVar]
      · simp_all [isVar]
    · rename_i b
      rcases charCodeOfAtom_cases s (.int b) with ⟨hl, ans, ha⟩ | ⟨hl, he⟩
      · simp_all [isVar]
      · simp_all [isVar]
    · cases n <;> simp_all [isVar]
  · cases c <;> simp_all [isVar] <;> cases n <;> simp [isVar]

/-! ## between/3 -/

/-- per prefix: the first `k` alternatives are `low, low+1, …` (never beyond `high`, no wrap-around
    at max_integer: the successor is only computed while `low < high`) -/
theorem C16_between_prefix (k : Nat) (low high : Int) (h : low ≤ high) :
    betweenAlts k low high = (List.range (min k (high - low + 1).toNat)).map fun i => low + Int.ofNat i :=
  betweenAlts_prefix k low high h

/-- `k` answers are enough for the call (always true for a bound value; for an unbound one the
    whole range is enumerated) -/
def BetweenFuel (k : Nat) (lower upper : Term) : Prop :=
  ∀ low high, lower = .int low → upper = .int high → (high - low + 1).toNat ≤ k

theorem C16_between_exact {k : Nat} {l u x : Term} {ans : Answers} (hk : BetweenFuel k l u)
    (h : Rel.between k l u x = .ok ans) : Exact betweenT [l, u, x] ans := by
  unfold Rel.between at h
  split at h
  · rename_i low
    split at h
    · rename_i high
      split at h
      · rename_i hgt
        cases h
        apply exact_nil
        intro t hr hi
        obtain ⟨σ, rfl⟩ := hi
        obtain ⟨l', u', x', ht, h1, h2⟩ := betweenT_inv hr
        simp only [List.map, substT_int, List.cons.injEq, Term.int.injEq, and_true] at ht
        omega
      · rename_i hle
        split at h
        · rename_i v
          split at h
          · rename_i hout
            cases h
            apply exact_nil
            intro t hr hi
            obtain ⟨σ, rfl⟩ := hi
            obtain ⟨l', u', x', ht, h1, h2⟩ := betweenT_inv hr
            simp only [List.map, substT_int, List.cons.injEq, Term.int.injEq, and_true] at ht
            omega
          · rename_i hin
            cases h
            apply exact_single
            · simp only [betweenT, Relations.between]; omega
            · exact IsInstance.refl _
            · intro t hr hi
              obtain ⟨σ, rfl⟩ := hi
              simp [substT_int]
        · rename_i v
          cases h
          have hfuel := hk low high rfl rfl
          refine ⟨?_, ?_, ?_⟩
          · intro t ht
            simp only [List.mem_map] at ht
            obtain ⟨y, hy, rfl⟩ := ht
            rw [mem_betweenAlts (by omega) hfuel] at hy
            refine ⟨by simp only [betweenT, Relations.between]; exact hy, ?_⟩
            exact ⟨bind1 v (.int y), by simp [substT, bind1]⟩
          · intro t hr hi
            obtain ⟨σ, rfl⟩ := hi
            obtain ⟨l', u', x', ht, h1, h2⟩ := betweenT_inv hr
            simp only [List.map, substT_int, List.cons.injEq, Term.int.injEq, and_true] at ht
            obtain ⟨rfl, rfl, hx⟩ := ht
            simp only [List.map, substT_int, hx, List.mem_map]
            exact ⟨x', (mem_betweenAlts (by omega) hfuel).mpr ⟨h1, h2⟩, rfl⟩
          · apply nodup_map_on _ (betweenAlts_nodup _ _ _ (by omega))
            intro a _ b _ hab
            simpa using hab
        · cases h
    · cases h
    · cases h
  · cases h
  · cases h

theorem C16_between_errors (k : Nat) (l u x : Term) : ErrorsOk "between" [l, u, x] (Rel.between k l u x) := by
  apply errorsOk_of _ [] (modeErrors_between l u x) rfl
  unfold Rel.between
  cases l <;> cases u <;> simp [isVar, mustBeIntOrVar, isInt]
  all_goals (try (cases x <;> simp [isVar, isInt]))
  all_goals (split <;> (try split) <;> simp)

/-! ## succ/2 -/

theorem C16_succ_exact {x s : Term} {ans : Answers} (h : Rel.succ x s = .ok ans) :
    Exact succT [x, s] ans := by
  unfold Rel.succ at h
  split at h
  · rename_i v
    split at h
    · cases h
    · rename_i sv
      split at h
      · cases h
      · split at h
        · rename_i h0
          cases h
          apply exact_nil
          intro t hr hi
          obtain ⟨σ, rfl⟩ := hi
          obtain ⟨x', s', ht, hx, hs⟩ := succT_inv hr
          simp only [List.map, substT_int, List.cons.injEq, Term.int.injEq, and_true] at ht
          omega
        · cases h
          apply succ_single_aux (by omega) (by omega)
          intro σ hr
          obtain ⟨x', s', ht, hx, hs⟩ := succT_inv hr
          simp only [substT_int, List.cons.injEq, Term.int.injEq, and_true] at ht
          obtain ⟨h1, h2⟩ := ht
          simp only [h1, substT_int, Term.int.injEq, and_true]
          omega
    · cases h
  · rename_i xv
    split at h
    · cases h
    · split at h
      · cases h
      · have aux : Exact succT [Term.int xv, s] (selectCands [Term.int xv, s] [[.int xv, .int (xv + 1)]]) := by
          apply succ_single_aux rfl (by omega)
          intro σ hr
          obtain ⟨x', s', ht, hx, hs⟩ := succT_inv hr
          simp only [substT_int, List.cons.injEq, Term.int.injEq, and_true] at ht
          obtain ⟨h1, h2⟩ := ht
          simp only [substT_int, h2, Term.int.injEq, true_and]
          omega
        split at h
        · cases h; exact aux
        · split at h
          · cases h
          · cases h; exact aux
        · cases h
  · cases h

/-- succ/2 raises evaluation_error(int_overflow) exactly at max_integer: the successor of every
    other non-negative 64-bit integer is computed -/
theorem C16_succ_errors (x s : Term) (h64 : ∀ i, x = .int i → i ≤ maxInt) :
    ErrorsOk "succ" [x, s] (Rel.succ x s) := by
  cases x with
  | int xv =>
    have hx := h64 xv rfl
    apply errorsOk_of _ _ (modeErrors_succ _ s) (optionalErrors_succ_int xv s)
    unfold Rel.succ
    simp only [isVar, notLessThanZero, maxInt] at *
    by_cases h0 : xv < 0
    · simp [h0]
    · by_cases hmax : xv = 9223372036854775807
      · subst hmax; simp
      · have : ¬ xv > 9223372036854775807 - 1 := by omega
        simp only [h0, this, hmax, if_false]
        cases s <;> simp
        all_goals (split <;> simp_all)
  | var v =>
    apply errorsOk_of _ [] (modeErrors_succ _ s) rfl
    unfold Rel.succ
    cases s <;> simp [isVar, notLessThanZero]
    split <;> simp_all
    split <;> simp_all
  | atom _ => exact errorsOk_of _ [] (modeErrors_succ _ s) rfl (by simp [Rel.succ, isVar, notLessThanZero])
  | flt _ => exact errorsOk_of _ [] (modeErrors_succ _ s) rfl (by simp [Rel.succ, isVar, notLessThanZero])
  | str _ => exact errorsOk_of _ [] (modeErrors_succ _ s) rfl (by simp [Rel.succ, isVar, notLessThanZero])
  | app _ _ => exact errorsOk_of _ [] (modeErrors_succ _ s) rfl (by simp [Rel.succ, isVar, notLessThanZero])

theorem C16_succ_monotone {x s x' s' : Term} {ans ans' : Answers}
    (h : Rel.succ x s = .ok ans) (h' : Rel.succ x' s' = .ok ans') (hi : IsInstance [x, s] [x', s']) :
    ans'.Perm (ans.filter fun t => decide (IsInstance [x', s'] t)) :=
  (C16_succ_exact h).monotone (C16_succ_exact h') hi

example : Rel.succ (.var 0) (.int maxInt) = .ok [[.int (maxInt - 1), .int maxInt]] := by decide +kernel
example : Rel.succ (.int maxInt) (.var 0) = .error (evaluationErr "int_overflow") := by decide +kernel

/-! ## text is measured in characters (code points), not bytes -/

/-- atom_concat/3: the Go loop `for i := range s { s[:i], s[i:] }` + `(s, "")` over the UTF-8
    bytes of the atom yields exactly the encodings of the code-point splits the model enumerates,
    in the same order -/
theorem C16_text_is_chars_concat (cs : List Char) :
    Utf8.concatSplitsBytes (Utf8.encode cs) =
      (concatSplits cs).map fun p => (Utf8.encode p.1, Utf8.encode p.2) := by
  unfold Utf8.concatSplitsBytes concatSplits
  rw [Utf8.rangeStarts_encode _ cs 0 (Utf8.length_encode_le cs)]
  have hnil : Utf8.encode [] = [] := rfl
  simp only [List.map_map, List.map_append, List.map_cons, List.map_nil, hnil]
  congr 1
  apply List.map_congr_left
  intro k _
  have := Utf8.take_encode cs k
  simp only [Function.comp, Nat.zero_add, this.1, this.2]

/-- atom_length/2: `len([]rune(s))` is the number of code points -/
theorem C16_text_is_chars_length (cs : List Char) : Utf8.runeCount (Utf8.encode cs) = cs.length := by
  simp [Utf8.runeCount, Utf8.runes_encode _ cs (Utf8.length_encode_le cs)]

/-- sub_atom/5: `string(rs[i:j])` with `rs := []rune(s)` is the encoding of the code points i..j -/
theorem C16_text_is_chars_sub (cs : List Char) (i j : Nat) :
    Utf8.runeSlice (Utf8.encode cs) i j = Utf8.encode ((cs.drop i).take (j - i)) := by
  simp [Utf8.runeSlice, Utf8.runes_encode _ cs (Utf8.length_encode_le cs)]

/-- a byte string names one text: comparing atoms by their bytes is comparing their code points -/
theorem C16_text_encode_injective {a b : List Char} (h : Utf8.encode a = Utf8.encode b) : a = b :=
  Utf8.encode_inj h

/-- on multi-byte text byte offsets and character positions differ; the enumeration is by character -/
example : Utf8.concatSplitsBytes (Utf8.encode "é€".toList) =
    [([], [0xC3, 0xA9, 0xE2, 0x82, 0xAC]), ([0xC3, 0xA9], [0xE2, 0x82, 0xAC]), ([0xC3, 0xA9, 0xE2, 0x82, 0xAC], [])] := by
  decide +kernel

/-! ## functor/3 -/

/-- functor/3 in every mode: inspecting a term (any term, ground or not) and constructing the most
    general term `name(_,…,_)`.  `hwf`: the inspected term, if compound, has an argument. -/
theorem C16_functor_exact {t name arity : Term} {ans : Answers}
    (hwf : ∀ f, t ≠ .app f .nil) (h : Rel.functor t name arity = .ok ans) :
    ExactInst functorT [t, name, arity] ans := by
  unfold Rel.functor at h
  simp only at h
  split at h
  · -- construction
    rename_i tv
    split at h
    · cases h
    · rename_i n
      split at h
      · cases h
      · rename_i hn
        split at h
        · cases h
        · cases h
        · rename_i hnv hnc
          split at h
          · -- arity 0: T = name
            rename_i h0
            cases h
            subst h0
            have hat : isAtomic name = true := by
              cases name <;> simp_all [isAtomic, isVar, isCompound]
            have hg := groundT_of_isAtomic hat
            have hans : [Term.var tv, name, Term.int 0].map (substT (bind1 tv name)) = [name, name, .int 0] := by
              simp [substT, bind1, substT_ground _ _ hg]
            rw [hans]
            refine ⟨?_, ?_, by simp⟩
            · intro a ha; simp at ha; subst ha
              refine ⟨?_, ⟨bind1 tv name, hans.symm⟩⟩
              cases name <;> simp_all [functorT, isAtomic, isVar, isCompound]
            · rintro a hr ⟨σ, rfl⟩
              refine ⟨[name, name, .int 0], by simp, ?_⟩
              simp only [List.map, substT_int, substT_ground _ _ hg] at hr ⊢
              cases hs : σ tv <;> simp [functorT, hs, substT] at hr ⊢
              all_goals (try (rw [hs]))
              all_goals (try (simp [hr.2]; exact IsInstance.refl _))
              · obtain ⟨h1, _, h3⟩ := hr; omega
          · rename_i h0
            split at h
            · rename_i f
              split at h
              · cases h
              · rename_i hlim
                cases h
                have hn0 : 0 < n := by omega
                have hlen : (freshVars (boundL [Term.var tv, Term.atom f, Term.int n]) n.toNat).length = n.toNat := by
                  simp [freshVars]
                generalize hF : freshVars (boundL [Term.var tv, Term.atom f, Term.int n]) n.toNat = F at hlen
                have hans : [Term.var tv, Term.atom f, Term.int n].map (substT (bind1 tv (.app f (Args.ofList F)))) =
                    [.app f (Args.ofList F), .atom f, .int n] := by
                  simp [substT, bind1]
                rw [hans]
                refine ⟨?_, ?_, by simp⟩
                · intro a ha; simp at ha; subst ha
                  refine ⟨?_, ⟨_, hans.symm⟩⟩
                  simp only [functorT, length_ofList, hlen, Int.ofNat_eq_natCast]
                  refine ⟨by omega, trivial, ?_⟩
                  congr 1; omega
                · rintro a hr ⟨σ, rfl⟩
                  refine ⟨[.app f (Args.ofList F), .atom f, .int n], by simp, ?_⟩
                  simp only [List.map, substT_int, substT_atom] at hr ⊢
                  cases hs : σ tv <;> simp [functorT, hs, substT, isAtomic, isVar, isCompound] at hr ⊢
                  all_goals (try omega)
                  rename_i f' as'
                  obtain ⟨_, hf, hn'⟩ := hr
                  subst hf
                  have hl : as'.toList.length = F.length := by
                    rw [hlen, Args.length_toList]; omega
                  refine ⟨assign (boundL [Term.var tv, Term.atom f, Term.int n]) as'.toList, ?_⟩
                  simp only [List.map, substT, substA_ofList, substT_atom, substT_int]
                  have hl' : n.toNat = as'.toList.length := by rw [hl, hlen]
                  have hFmap : F.map (substT (assign (boundL [Term.var tv, Term.atom f, Term.int n]) as'.toList)) =
                      as'.toList := by rw [← hF, hl', map_assign_freshVars]
                  simp [hFmap]
            · cases h
    · cases h
  · -- inspection of a compound
    rename_i f as
    cases h
    have has : 0 < as.length := by
      cases as with
      | nil => exact absurd rfl (hwf f)
      | cons _ _ => simp [Args.length]
    apply exactInst_unifyAns
    · simp [groundT_tuple, groundT]
    · intro σ hσ
      rw [substT_tuple] at hσ
      have := tuple_inj hσ
      simp only [List.map, List.cons.injEq, and_true] at this
      simp [substT, functorT, this.1, this.2, length_substA, has]
    · intro σ hr
      simp only [List.map, substT, functorT, length_substA] at hr
      rw [substT_tuple]
      simp [hr.2.1, hr.2.2]
  · -- inspection of an atomic term
    rename_i hnv hnc
    cases h
    have hat : isAtomic t = true := by cases t <;> simp_all [isAtomic, isVar, isCompound]
    have hg := groundT_of_isAtomic hat
    apply exactInst_unifyAns
    · simp [groundT_tuple, groundT, hg]
    · intro σ hσ
      rw [substT_tuple] at hσ
      have := tuple_inj hσ
      simp only [List.map, List.cons.injEq, and_true] at this
      simp only [List.map, substT_ground σ t hg, this.1, this.2]
      cases t <;> simp_all [functorT, isAtomic, isVar, isCompound]
    · intro σ hr
      simp only [List.map, substT_ground σ t hg] at hr
      rw [substT_tuple]
      cases t <;> simp_all [functorT, isAtomic, isVar, isCompound]

theorem C16_functor_errors (t name arity : Term) :
    ErrorsOk "functor" [t, name, arity] (Rel.functor t name arity) := by
  cases t with
  | var v =>
    cases arity with
    | int i =>
      apply errorsOk_of _ _ (modeErrors_functor_var v name _) (optionalErrors_functor_var v name i)
      unfold Rel.functor
      simp only [isVar, mustBeIntOrVar, isInt, allocLimit]
      by_cases hneg : i < 0
      · simp [hneg]
      · by_cases h0 : i = 0
        · subst h0
          cases name <;> simp [isVar, isCompound, isAtomic, isAtom]
        · have hpos : i > 0 := by omega
          cases name <;> simp [isVar, isCompound, isAtomic, isAtom, hneg, h0, hpos]
          by_cases hbig : 17592186044416 < i
          · have : 1048576 < i := by omega
            simp [hbig, this]
          · simp [hbig]
    | var _ => exact errorsOk_of _ [] (modeErrors_functor_var v name _) rfl (by simp [Rel.functor, isVar])
    | atom _ => exact errorsOk_of _ [] (modeErrors_functor_var v name _) rfl (by simp [Rel.functor, isVar, mustBeIntOrVar, isInt])
    | flt _ => exact errorsOk_of _ [] (modeErrors_functor_var v name _) rfl (by simp [Rel.functor, isVar, mustBeIntOrVar, isInt])
    | str _ => exact errorsOk_of _ [] (modeErrors_functor_var v name _) rfl (by simp [Rel.functor, isVar, mustBeIntOrVar, isInt])
    | app _ _ => exact errorsOk_of _ [] (modeErrors_functor_var v name _) rfl (by simp [Rel.functor, isVar, mustBeIntOrVar, isInt])
  | atom _ => exact errorsOk_of [] [] rfl rfl (by simp [Rel.functor])
  | int _ => exact errorsOk_of [] [] rfl rfl (by simp [Rel.functor])
  | flt _ => exact errorsOk_of [] [] rfl rfl (by simp [Rel.functor])
  | str _ => exact errorsOk_of [] [] rfl rfl (by simp [Rel.functor])
  | app _ _ => exact errorsOk_of [] [] rfl rfl (by simp [Rel.functor])

/-! ## arg/3 -/

/-- arg/3 on a ground term, any pattern for the argument -/
theorem C16_arg_exact_partial {n t a : Term} {ans : Answers} (hg : groundT t = true)
    (h : Rel.arg n t a = .ok ans) : ExactInst argT [n, t, a] ans := by
  unfold Rel.arg at h
  simp only at h
  split at h
  · cases h
  · rename_i f as
    have hga : groundA as = true := by simpa [groundT] using hg
    split at h
    · cases h
    · rename_i nv
      split at h
      · rename_i hout
        cases h
        apply exactInst_nil
        rintro t' hr ⟨σ, rfl⟩
        simp only [List.map, substT_int, substT, argT, toList_substA] at hr
        obtain ⟨h1, h2⟩ := hr
        have := (List.getElem?_eq_some_iff.mp h2).1
        simp only [List.length_map, Args.length_toList] at this
        simp only [Int.ofNat_eq_natCast] at hout
        omega
      · rename_i hin
        split at h
        · cases h
        · rename_i hpos
          split at h
          · rename_i e he
            cases h
            have hge : groundT e = true := groundA_mem as hga e (List.mem_of_getElem? he)
            apply exactInst_unifyAns hge
            · intro σ hσ
              simp only [List.map, substT_int, substT, argT, toList_substA, List.getElem?_map, he,
                Option.map_some, hσ, substT_ground σ e hge]
              exact ⟨by omega, trivial⟩
            · intro σ hr
              simp only [List.map, substT_int, substT, argT, toList_substA, List.getElem?_map, he,
                Option.map_some, substT_ground σ e hge] at hr
              simpa using hr.2.symm
          · rename_i hnone
            cases h
            have := List.getElem?_eq_none_iff.mp hnone
            simp only [Args.length_toList] at this
            simp only [Int.ofNat_eq_natCast] at hin
            omega
    · cases h
  · cases h

example : Rel.arg (.int 2) (Term.a2 "f" (.atom "é") (.atom "€")) (.var 0) =
    .ok [[.int 2, Term.a2 "f" (.atom "é") (.atom "€"), .atom "€"]] := by decide +kernel

theorem C16_arg_errors (n t a : Term) : ErrorsOk "arg" [n, t, a] (Rel.arg n t a) := by
  apply errorsOk_of _ [] (modeErrors_arg n t a) rfl
  unfold Rel.arg
  cases t with
  | app f as =>
    cases n <;> simp [isVar, isCompound, notLessThanZero]
    rename_i i
    by_cases h0 : i = 0 ∨ (as.length : Int) < i
    · simp [h0]
    · simp only [h0, if_false]
      by_cases hneg : i < 0
      · simp [hneg]
      · simp only [hneg, if_false]
        split <;> simp <;> omega
  | var _ => cases n <;> simp [isVar, isCompound, notLessThanZero, instErr_ne_typeErr]
  | atom _ => cases n <;> simp [isVar, isCompound, notLessThanZero, instErr_ne_typeErr]
  | int _ => cases n <;> simp [isVar, isCompound, notLessThanZero, instErr_ne_typeErr]
  | flt _ => cases n <;> simp [isVar, isCompound, notLessThanZero, instErr_ne_typeErr]
  | str _ => cases n <;> simp [isVar, isCompound, notLessThanZero, instErr_ne_typeErr]

/-! ## =../2 -/

/-- =../2 decomposing a ground compound or any atomic term, and constructing a term from a list
    (of arbitrary, possibly non-ground, elements).  `hwf`: a compound being decomposed has an argument. -/
theorem C16_univ_exact_partial {t l : Term} {ans : Answers}
    (hg : ∀ f as, t = .app f as → groundT t = true ∧ 0 < as.length)
    (h : Rel.univ t l = .ok ans) : ExactInst univT [t, l] ans := by
  unfold Rel.univ at h
  simp only at h
  split at h
  · -- construction from a proper list
    rename_i tv
    split at h
    · cases h
    · rename_i hproper
      have htl := listErr_false_none hproper
      split at h
      · cases h
      · rename_i hocc
        have hocc' : occursT tv l = false := by simpa using hocc
        split at h
        · cases h
        · -- [e], e atomic
          rename_i e hes
          have hl : l = Term.list [e] := list_eq_of_spine hes htl
          split at h
          · cases h
          · cases h
          · rename_i hnv hnc
            cases h
            have hat : isAtomic e = true := by cases e <;> simp_all [isAtomic, isVar, isCompound]
            have hge := groundT_of_isAtomic hat
            have hans : [Term.var tv, l].map (substT (bind1 tv e)) = [e, l] := by
              simp [substT, bind1, substT_bind1_not_occurs tv e l hocc']
            rw [hans]
            refine ⟨?_, ?_, by simp⟩
            · intro a ha; simp at ha; subst ha
              refine ⟨?_, ⟨_, hans.symm⟩⟩
              rw [hl]
              cases e <;> simp_all [univT, isAtomic, isVar, isCompound]
            · rintro a hr ⟨σ, rfl⟩
              refine ⟨[e, l], by simp, ?_⟩
              have hlσ : substT σ l = l := by
                rw [hl, substT_list]; simp [substT_ground σ e hge, Term.nilT, substT]
              simp only [List.map, hlσ] at hr ⊢
              cases hs : substT σ (Term.var tv) with
              | app f' as' =>
                rw [hs, hl] at hr
                simp only [univT, list_cons, list_nil] at hr
                obtain ⟨hpos, heq⟩ := hr
                have := (consT_inj heq).2
                cases as' with
                | nil => simp [Args.length] at hpos
                | cons _ _ => simp [Args.toList, Term.nilT, Term.consT] at this
              | var _ => rw [hs] at hr; simp [univT, isAtomic, isVar] at hr
              | atom _ =>
                rw [hs, hl] at hr; simp only [univT, isAtomic, isVar, isCompound] at hr
                have := (consT_inj hr.2).1
                rw [← this]; exact IsInstance.refl _
              | int _ =>
                rw [hs, hl] at hr; simp only [univT, isAtomic, isVar, isCompound] at hr
                have := (consT_inj hr.2).1
                rw [← this]; exact IsInstance.refl _
              | flt _ =>
                rw [hs, hl] at hr; simp only [univT, isAtomic, isVar, isCompound] at hr
                have := (consT_inj hr.2).1
                rw [← this]; exact IsInstance.refl _
              | str _ =>
                rw [hs, hl] at hr; simp only [univT, isAtomic, isVar, isCompound] at hr
                have := (consT_inj hr.2).1
                rw [← this]; exact IsInstance.refl _
        · -- [f, a₁, …], f an atom
          rename_i e rest hrest hes
          have hl : l = Term.list (e :: rest) := list_eq_of_spine hes htl
          split at h
          · cases h
          · rename_i f
            cases h
            have hans : [Term.var tv, l].map (substT (bind1 tv (.app f (Args.ofList rest)))) =
                [.app f (Args.ofList rest), l] := by
              simp [substT, bind1, substT_bind1_not_occurs tv _ l hocc']
            rw [hans]
            refine ⟨?_, ?_, by simp⟩
            · intro a ha; simp at ha; subst ha
              refine ⟨?_, ⟨_, hans.symm⟩⟩
              simp only [univT, length_ofList, Args.toList_ofList, hl, and_true]
              cases rest with
              | nil => exact absurd rfl hrest
              | cons _ _ => simp
            · rintro a hr ⟨σ, rfl⟩
              refine ⟨[.app f (Args.ofList rest), l], by simp, σ, ?_⟩
              simp only [List.map, substT, substA_ofList]
              have hlσ : substT σ l = Term.list (.atom f :: rest.map (substT σ)) := by
                rw [hl, substT_list]; simp [Term.nilT, substT]
              simp only [List.map, hlσ] at hr
              cases hs : σ tv with
              | app f' as' =>
                simp only [substT, hs, univT] at hr
                have := list_inj_nil hr.2
                simp only [List.cons.injEq, Term.atom.injEq] at this
                obtain ⟨rfl, hrest'⟩ := this
                simp [substT, hs, hrest']
              | var _ => simp [substT, hs, univT, isAtomic, isVar] at hr
              | atom _ =>
                simp only [substT, hs, univT] at hr
                have := list_inj_nil hr.2
                simp at this; exact absurd this.2 hrest
              | int _ =>
                simp only [substT, hs, univT] at hr
                have := list_inj_nil hr.2
                simp at this
              | flt _ =>
                simp only [substT, hs, univT] at hr
                have := list_inj_nil hr.2
                simp at this
              | str _ =>
                simp only [substT, hs, univT] at hr
                have := list_inj_nil hr.2
                simp at this
          · cases h
  · -- decomposition of a compound
    rename_i f as
    obtain ⟨hgt, has⟩ := hg f as rfl
    split at h
    · cases h
    · cases h
      have hga : groundA as = true := by simpa [groundT] using hgt
      have hgl : groundT (Term.list (Term.atom f :: as.toList)) = true := by
        rw [groundT_list]
        simp only [List.all_cons, groundT, Bool.true_and, Term.nilT, Bool.and_true, List.all_eq_true]
        exact groundA_mem as hga
      apply exactInst_unifyAns hgl
      · intro σ hσ
        simp only [List.map, substT_ground σ _ hgt, hσ, univT, has, true_and]
      · intro σ hr
        simp only [List.map, substT_ground σ _ hgt, univT] at hr
        exact hr.2
  · -- an atomic term
    rename_i hnv hnc
    split at h
    · cases h
    · cases h
      have hat : isAtomic t = true := by cases t <;> simp_all [isAtomic, isVar, isCompound]
      have hgt := groundT_of_isAtomic hat
      have hgl : groundT (Term.list [t]) = true := by simp [groundT_consT, hgt, Term.nilT, groundT]
      apply exactInst_unifyAns hgl
      · intro σ hσ
        simp only [List.map, substT_ground σ _ hgt, hσ]
        cases t <;> simp_all [univT, isAtomic, isVar, isCompound]
      · intro σ hr
        simp only [List.map, substT_ground σ _ hgt] at hr
        cases t <;> simp_all [univT, isAtomic, isVar, isCompound]

/-- =../2 against the ISO table; a call `T =.. L` with `T` occurring in `L` (cyclic answer) is
    outside the model -/
theorem C16_univ_errors (t l : Term) (hocc : ∀ v, t = .var v → occursT v l = false) :
    ErrorsOk "univ" [t, l] (Rel.univ t l) := by
  cases t with
  | var v =>
    apply errorsOk_of _ [] (modeErrors_univ_var v l) rfl
    have hocc' := hocc v rfl
    unfold Rel.univ
    simp only [hocc', Bool.false_eq_true, if_false]
    rw [listErrors_eq]
    cases hl : listErr false l l.spine.2 with
    | some e => simp
    | none =>
      have htl := listErr_false_none hl
      simp only [htl, Term.nilT, Option.toList_none, List.nil_append]
      cases hes : l.spine.1 with
      | nil => simp
      | cons e rest =>
        cases rest with
        | nil => cases e <;> simp [isVar, isCompound]
        | cons e2 rest2 => cases e <;> simp [isVar, isAtom]
  | app f as =>
    apply errorsOk_of _ [] (modeErrors_univ_nonvar _ l rfl) rfl
    have h2 := instErr_not_mem_listErrors_true l
    have h3 := listErrors_eq true l
    unfold Rel.univ
    cases hl : listErr true l l.spine.2 <;> simp_all
  | atom _ =>
    apply errorsOk_of _ [] (modeErrors_univ_nonvar _ l rfl) rfl
    have h2 := instErr_not_mem_listErrors_true l
    have h3 := listErrors_eq true l
    unfold Rel.univ
    cases hl : listErr true l l.spine.2 <;> simp_all
  | int _ =>
    apply errorsOk_of _ [] (modeErrors_univ_nonvar _ l rfl) rfl
    have h2 := instErr_not_mem_listErrors_true l
    have h3 := listErrors_eq true l
    unfold Rel.univ
    cases hl : listErr true l l.spine.2 <;> simp_all
  | flt _ =>
    apply errorsOk_of _ [] (modeErrors_univ_nonvar _ l rfl) rfl
    have h2 := instErr_not_mem_listErrors_true l
    have h3 := listErrors_eq true l
    unfold Rel.univ
    cases hl : listErr true l l.spine.2 <;> simp_all
  | str _ =>
    apply errorsOk_of _ [] (modeErrors_univ_nonvar _ l rfl) rfl
    have h2 := instErr_not_mem_listErrors_true l
    have h3 := listErrors_eq true l
    unfold Rel.univ
    cases hl : listErr true l l.spine.2 <;> simp_all

/-! ## nth0/3, nth1/3 -/

/-- nth0/3 (`base = 0`) and nth1/3 (`base = 1`) on a ground list, index and element arbitrary
    patterns: one answer per position whose element matches -/
theorem C16_nth_exact_partial {base : Int} {n list elem : Term} {ans : Answers}
    (hg : groundT list = true) (h : Rel.nth base n list elem = .ok ans) :
    ExactInst (nthT base) [n, list, elem] ans := by
  unfold Rel.nth at h
  simp only at h
  split at h
  · split at h
    · cases h
    · cases h
      exact nth_var_aux hg
  · rename_i nv
    split at h
    · rename_i hlt
      cases h
      apply exactInst_nil
      rintro t hr ⟨σ, rfl⟩
      simp only [List.map, substT_int, nthT, Relations.nth] at hr
      omega
    · rename_i hge
      split at h
      · rename_i e he
        cases h
        have hge' := ground_spine hg e (List.mem_of_getElem? he)
        apply exactInst_unifyAns hge'
        · intro σ hσ
          simp only [List.map, substT_int, substT_ground _ _ hg, nthT, Relations.nth, hσ, he, and_true]
          omega
        · intro σ hr
          simp only [List.map, substT_int, substT_ground _ _ hg, nthT, Relations.nth, he] at hr
          simpa using hr.2.symm
      · rename_i hnone
        split at h
        · cases h
        · cases h
          apply exactInst_nil
          rintro t hr ⟨σ, rfl⟩
          simp only [List.map, substT_int, substT_ground _ _ hg, nthT, Relations.nth, hnone] at hr
          exact absurd hr.2 (by simp)
  · cases h

theorem C16_nth0_exact_partial {n list elem : Term} {ans : Answers}
    (hg : groundT list = true) (h : Rel.nth0 n list elem = .ok ans) : ExactInst (nthT 0) [n, list, elem] ans :=
  C16_nth_exact_partial hg h

theorem C16_nth1_exact_partial {n list elem : Term} {ans : Answers}
    (hg : groundT list = true) (h : Rel.nth1 n list elem = .ok ans) : ExactInst (nthT 1) [n, list, elem] ans :=
  C16_nth_exact_partial hg h

example : Rel.nth1 (.var 0) (Term.list [.atom "a", .atom "é", .atom "a"]) (.atom "a") =
    .ok [[.int 1, Term.list [.atom "a", .atom "é", .atom "a"], .atom "a"],
         [.int 3, Term.list [.atom "a", .atom "é", .atom "a"], .atom "a"]] := by decide +kernel

theorem C16_nth0_errors (n l e : Term) : ErrorsOk "nth0" [n, l, e] (Rel.nth0 n l e) := by
  have h := nth_errors_aux 0 n l e
  refine errorsOk_of _ _ rfl ?_ h
  cases n <;> rfl

theorem C16_nth1_errors (n l e : Term) : ErrorsOk "nth1" [n, l, e] (Rel.nth1 n l e) := by
  have h := nth_errors_aux 1 n l e
  refine errorsOk_of _ _ rfl ?_ h
  cases n <;> rfl

/-! ## length/2 -/

/-- length/2 when the first argument is a proper list of arbitrary (possibly non-ground) elements:
    exactly its length; the length argument may be any pattern, also a variable of the list -/
theorem C16_length_exact_list {k : Nat} {es : List Term} {len : Term} {ans : Answers}
    (h : Rel.length k (Term.list es) len = .ok ans) :
    ExactInst lengthT [Term.list es, len] ans := by
  unfold Rel.length at h
  simp only [spine_list_nil] at h
  split at h
  · cases h
  · rename_i hcpi
    have hrel : ∀ σ : Nat → Term, ∀ m : Int, lengthT [substT σ (Term.list es), .int m] ↔ m = Int.ofNat es.length := by
      intro σ m
      rw [substT_list]
      have : substT σ Term.nilT = Term.nilT := by simp [Term.nilT, substT]
      rw [this]
      simp [lengthT]
    have hmatch : ∀ skipped, es.length ≤ skipped →
        lengthSuffix k [Term.list es, len] len es.length (Term.list (es.drop skipped) Term.nilT) =
          .ok (unifyAns [Term.list es, len] len (.int (Int.ofNat es.length))) := by
      intro sk hsk
      rw [list_drop_of_ge _ hsk]
      simp [lengthSuffix, Term.nilT]
    have hexact : ExactInst lengthT [Term.list es, len]
        (unifyAns [Term.list es, len] len (.int (Int.ofNat es.length))) := by
      apply exactInst_unifyAns (by simp [groundT])
      · intro σ hσ
        simp only [List.map, hσ]
        exact (hrel σ _).mpr rfl
      · intro σ hr
        simp only [List.map] at hr
        cases hs : substT σ len <;> simp only [hs] at hr
        all_goals (try (simp [lengthT] at hr))
        rename_i m
        rw [(hrel σ m).mp hr]
    cases len with
    | var v =>
      simp only [skipMax] at h
      rw [hmatch _ (Nat.le_refl _)] at h
      cases h; exact hexact
    | int n =>
      simp only [skipMax] at h
      by_cases hlt : n.toNat < es.length
      · -- the list is longer than the given length
        have hmin : min n.toNat es.length = n.toNat := by omega
        simp only [hmin] at h
        obtain ⟨e, rest, hsuf⟩ := list_drop_of_lt Term.nilT hlt
        rw [hsuf] at h
        simp only [Term.consT, lengthSuffix] at h
        cases h
        apply exactInst_nil
        rintro t hr ⟨σ, rfl⟩
        simp only [List.map, substT_int] at hr
        have := (hrel σ n).mp hr
        simp only [Int.ofNat_eq_natCast] at this
        omega
      · have hmin : min n.toNat es.length = es.length := by omega
        simp only [hmin] at h
        rw [hmatch _ (Nat.le_refl _)] at h
        cases h; exact hexact
    | atom _ => simp [checkPositiveInteger] at hcpi
    | flt _ => simp [checkPositiveInteger] at hcpi
    | str _ => simp [checkPositiveInteger] at hcpi
    | app _ _ => simp [checkPositiveInteger] at hcpi

/-- length/2 generating a list of a given length: `length([e₁,…|T], N)` with `N` an integer binds
    the tail to `N - n` fresh, pairwise distinct variables — the most general list of that length -/
theorem C16_length_exact_rundown {k : Nat} {es : List Term} {s : Nat} {n : Int} {ans : Answers}
    (h : Rel.length k (Term.list es (.var s)) (.int n) = .ok ans) :
    ExactInst lengthT [Term.list es (.var s), .int n] ans := by
  unfold Rel.length at h
  have hsp : (Term.list es (Term.var s)).spine = (es, .var s) := by simp [spine_list]
  simp only [hsp, checkPositiveInteger, skipMax] at h
  split at h
  · cases h
  · rename_i hcpi
    have hn : 0 ≤ n := by
      by_cases hneg : n < 0
      · simp [hneg] at hcpi
      · omega
    by_cases hlt : n.toNat < es.length
    · have hmin : min n.toNat es.length = n.toNat := by omega
      simp only [hmin] at h
      obtain ⟨e, rest, hsuf⟩ := list_drop_of_lt (Term.var s) hlt
      rw [hsuf] at h
      simp only [Term.consT, lengthSuffix] at h
      cases h
      apply exactInst_nil
      rintro t hr ⟨σ, rfl⟩
      simp only [List.map, substT_int] at hr
      obtain ⟨r, _, hm⟩ := (lengthT_partial_iff es s σ n).mp hr
      simp only [Int.ofNat_eq_natCast] at hm
      omega
    · have hmin : min n.toNat es.length = es.length := by omega
      simp only [hmin] at h
      rw [list_drop_of_ge _ (Nat.le_refl _)] at h
      simp only [lengthSuffix] at h
      split at h
      · cases h
      · cases h
        generalize hb : boundL [Term.list es (Term.var s), Term.int n] = b
        have hc : (n - Int.ofNat es.length).toNat + es.length = n.toNat := by
          simp only [Int.ofNat_eq_natCast]; omega
        generalize hcc : (n - Int.ofNat es.length).toNat = c at hc
        have hans : [Term.list es (Term.var s), Term.int n].map (substT (bind1 s (Term.list (freshVars b c)))) =
            [Term.list (es.map (substT (bind1 s (Term.list (freshVars b c)))) ++ freshVars b c), .int n] := by
          simp [substT_list, substT, bind1, list_append]
        rw [hans]
        refine ⟨?_, ?_, by simp⟩
        · intro t ht
          simp at ht; subst ht
          refine ⟨?_, ⟨_, hans.symm⟩⟩
          simp only [lengthT, asList_list, List.length_append, List.length_map, freshVars, List.length_range,
            Int.ofNat_eq_natCast]
          omega
        · rintro t hr ⟨σ, rfl⟩
          refine ⟨[Term.list (es.map (substT (bind1 s (Term.list (freshVars b c)))) ++ freshVars b c), .int n],
            by simp, ?_⟩
          rw [← hans]
          simp only [List.map, substT_int] at hr
          obtain ⟨r, hσs, hm⟩ := (lengthT_partial_iff es s σ n).mp hr
          have hrl : r.length = c := by simp only [Int.ofNat_eq_natCast] at hm; omega
          subst hrl
          refine ⟨fun v => if v < b then σ v else assign b r v, ?_⟩
          have hgen := generated_instance (b := b) (γ := bind1 s (Term.list (freshVars b r.length))) (σ := σ)
            (s := s) (r := r) (by simp [bind1]) hσs (fun v hv _ => Or.inl (by simp [bind1, hv]))
          simp only [List.map, substT_int, List.cons.injEq, and_true]
          exact (hgen _ (by rw [← hb]; exact boundT_le_boundL (by simp))).symm

example : Rel.length 9 (Term.list [.atom "a"] (.var 0)) (.int 3) =
    .ok [[Term.list [.atom "a", .var 1, .var 2], .int 3]] := by decide +kernel

/-- length/2 with list tail and length both unbound — an infinite enumeration, stated per prefix:
    the first `k` answers are, in order, the most general lists of length `n, n+1, …, n+k-1`
    (`n` = number of known elements), each a tuple of the relation, pairwise different, and every
    tuple of the relation of one of these lengths that is an instance of the call is an instance of
    the answer of that length. -/
theorem C16_length_enum {k : Nat} {es : List Term} {s nv : Nat} {ans : Answers} (hne : nv ≠ s)
    (h : Rel.length k (Term.list es (.var s)) (.var nv) = .ok ans) :
    let args := [Term.list es (.var s), .var nv]
    ans = (List.range k).map (fun j => args.map (substT (addendum (boundL args) s nv es.length j))) ∧
    (∀ j, j < k → ∃ l, ans[j]? = some [l, .int (Int.ofNat (es.length + j))] ∧
        lengthT [l, .int (Int.ofNat (es.length + j))] ∧ IsInstance args [l, .int (Int.ofNat (es.length + j))]) ∧
    ans.Nodup ∧
    (∀ t, lengthT t → IsInstance args t → ∃ j, t[1]? = some (.int (Int.ofNat (es.length + j))) ∧
        (j < k → ∃ a, ans[j]? = some a ∧ IsInstance a t)) := by
  intro args
  unfold Rel.length at h
  have hsp : (Term.list es (Term.var s)).spine = (es, .var s) := by simp [spine_list]
  simp only [hsp, checkPositiveInteger, skipMax] at h
  rw [list_drop_of_ge _ (Nat.le_refl _)] at h
  simp only [lengthSuffix, hne, if_false] at h
  cases h
  generalize hb : boundL [Term.list es (Term.var s), Term.var nv] = b
  have hans : ∀ j, args.map (substT (addendum b s nv es.length j)) =
      [Term.list (es.map (substT (addendum b s nv es.length j)) ++ freshVars b j), .int (Int.ofNat (es.length + j))] := by
    intro j
    simp [args, substT_list, substT, addendum, list_append, hne]
  have hmap : (List.range k).map (fun j =>
      [Term.list es (Term.var s), Term.var nv].map (substT fun v =>
        if v = s then Term.list (freshVars b j)
        else if v = nv then .int (Int.ofNat (es.length + j)) else .var v)) =
      (List.range k).map (fun j => args.map (substT (addendum b s nv es.length j))) := rfl
  rw [hmap]
  refine ⟨rfl, ?_, ?_, ?_⟩
  · intro j hj
    refine ⟨Term.list (es.map (substT (addendum b s nv es.length j)) ++ freshVars b j), ?_, ?_, ?_⟩
    · simp [hj, hans j]
    · simp [lengthT, freshVars]
    · exact ⟨addendum b s nv es.length j, (hans j).symm⟩
  · apply nodup_map_on _ List.nodup_range
    intro i _ j _ hij
    rw [hans i, hans j] at hij
    simp only [List.cons.injEq, Term.int.injEq, and_true, Int.ofNat_eq_natCast] at hij
    omega
  · rintro t hr ⟨σ, rfl⟩
    simp only [args, List.map] at hr
    cases hs : substT σ (Term.var nv) with
    | int m =>
      rw [hs] at hr
      obtain ⟨r, hσs, hm⟩ := (lengthT_partial_iff es s σ m).mp hr
      refine ⟨r.length, by simp [args, hs, hm], ?_⟩
      intro hj
      refine ⟨args.map (substT (addendum b s nv es.length r.length)), by simp [hj], ?_⟩
      refine ⟨fun v => if v < b then σ v else assign b r v, ?_⟩
      have hgen := generated_instance (b := b) (γ := addendum b s nv es.length r.length) (σ := σ)
        (s := s) (r := r) (by simp [addendum]) hσs (by
          intro v hv _
          by_cases hvn : v = nv
          · right
            subst hvn
            simp only [substT] at hs
            simp [addendum, hv, hs, hm, groundT]
          · left; simp [addendum, hv, hvn])
      simp only [args, List.map, List.cons.injEq, and_true]
      refine ⟨(hgen _ (by rw [← hb]; exact boundT_le_boundL (by simp))).symm,
        (hgen _ (by rw [← hb]; exact boundT_le_boundL (by simp))).symm⟩
    | var _ => rw [hs] at hr; simp [lengthT] at hr
    | atom _ => rw [hs] at hr; simp [lengthT] at hr
    | flt _ => rw [hs] at hr; simp [lengthT] at hr
    | str _ => rw [hs] at hr; simp [lengthT] at hr
    | app _ _ => rw [hs] at hr; simp [lengthT] at hr

example : Rel.length 3 (Term.list [.atom "a"] (.var 0)) (.var 1) =
    .ok [[Term.list [.atom "a"], .int 1], [Term.list [.atom "a", .var 2], .int 2],
         [Term.list [.atom "a", .var 2, .var 3], .int 3]] := by decide +kernel

theorem C16_length_errors (k : Nat) (l len : Term) : ErrorsOk "length" [l, len] (Rel.length k l len) := by
  cases len with
  | int n =>
    apply errorsOk_of _ _ (modeErrors_length l _) (optionalErrors_length_int l n)
    rw [nlz_eq]
    have hinst := instErr_not_mem_cpi (.int n)
    unfold Rel.length
    cases hc : checkPositiveInteger (.int n) with
    | some e => simp
    | none =>
      simp only [hc, Option.toList_none, List.nil_append, List.not_mem_nil, false_imp_iff, and_true, true_imp_iff]
      generalize hsk : skipMax (Term.int n) l.spine.1 = sk
      have hskle : sk ≤ l.spine.1.length := by simp only [skipMax] at hsk; omega
      cases hsuf : Term.list (l.spine.1.drop sk) l.spine.2 with
      | var s =>
        obtain ⟨h1, h2⟩ := suffix_var hsuf
        have hske : sk = l.spine.1.length := by omega
        simp only [lengthSuffix, h2, hske, allocLimit]
        by_cases hbig : 17592186044416 < n - (l.spine.1.length : Int)
        · have : 1048576 < n - (l.spine.1.length : Int) := by omega
          simp [hbig, this]
        · simp [hbig]
      | atom a => simp only [lengthSuffix]; split <;> simp
      | int _ => simp [lengthSuffix]
      | flt _ => simp [lengthSuffix]
      | str _ => simp [lengthSuffix]
      | app _ _ => simp [lengthSuffix]
  | var nv =>
    apply errorsOk_of _ _ (modeErrors_length l _) (optionalErrors_length_var l nv)
    unfold Rel.length
    simp only [checkPositiveInteger, notLessThanZero, List.nil_append, List.not_mem_nil, false_imp_iff, and_true,
      true_imp_iff, skipMax]
    cases hsuf : Term.list (l.spine.1.drop l.spine.1.length) l.spine.2 with
    | var s =>
      obtain ⟨_, h2⟩ := suffix_var hsuf
      simp only [lengthSuffix, h2, Term.var.injEq]
      by_cases hnv : nv = s
      · simp [hnv]
      · have : ¬ s = nv := fun h => hnv h.symm
        simp [hnv, this]
    | atom a => simp only [lengthSuffix]; split <;> simp
    | int _ => simp [lengthSuffix]
    | flt _ => simp [lengthSuffix]
    | str _ => simp [lengthSuffix]
    | app _ _ => simp [lengthSuffix]
  | atom _ => exact errorsOk_of _ [] (modeErrors_length l _) rfl (by simp [Rel.length, checkPositiveInteger, notLessThanZero])
  | flt _ => exact errorsOk_of _ [] (modeErrors_length l _) rfl (by simp [Rel.length, checkPositiveInteger, notLessThanZero])
  | str _ => exact errorsOk_of _ [] (modeErrors_length l _) rfl (by simp [Rel.length, checkPositiveInteger, notLessThanZero])
  | app _ _ => exact errorsOk_of _ [] (modeErrors_length l _) rfl (by simp [Rel.length, checkPositiveInteger, notLessThanZero])

/-! ## member/2, select/3 (bootstrap.pl) and append/3 -/

/-- the clauses of member/2 and select/3 that the model resolves over are those of bootstrap.pl
    (regenerated from the source on every run; proved by kernel evaluation) -/
theorem C16_bootstrap_tie :
    bootClauses "member" 2 =
      [ Term.a2 "member" (.var 0) (Term.consT (.var 0) (.var 1)),
        Term.a2 ":-" (Term.a2 "member" (.var 0) (Term.consT (.var 1) (.var 2))) (Term.a2 "member" (.var 0) (.var 2)) ] ∧
    bootClauses "select" 3 =
      [ Term.a3 "select" (.var 0) (Term.consT (.var 0) (.var 1)) (.var 1),
        Term.a2 ":-" (Term.a3 "select" (.var 0) (Term.consT (.var 1) (.var 2)) (Term.consT (.var 1) (.var 3)))
          (Term.a3 "select" (.var 0) (.var 2) (.var 3)) ] :=
  bootstrap_tie

/-- split into (head, body goals) these are the clause lists the theorems below are about -/
theorem C16_clause_pairs :
    (bootClauses "member" 2).map clauseParts = memberClauses ∧
    (bootClauses "select" 3).map clauseParts = selectClauses ∧
    appendClauses.map clauseParts = appendClausePairs :=
  clause_pairs

/-- each of these clauses (and the two clauses quoted in `appendLists`) is valid for the specified
    relations: this is what makes every SLD answer a tuple of the relation -/
theorem C16_clauses_valid :
    (∀ c ∈ memberClauses, ClauseValid Meaning c) ∧ (∀ c ∈ selectClauses, ClauseValid Meaning c) ∧
    (∀ c ∈ appendClausePairs, ClauseValid Meaning c) :=
  ⟨member_clauses_valid, select_clauses_valid, append_clauses_valid⟩

/-- member/2, all arguments arbitrary terms (partial lists, non-ground elements included): every
    answer is an instance of the call in which the first argument is an element of the second -/
theorem C16_member_sound {fuel : Nat} {x l : Term} {ans : Answers} (h : Rel.member fuel x l = .ok ans) :
    ∀ t ∈ ans, memberT t ∧ IsInstance [x, l] t := by
  unfold Rel.member at h
  rw [clause_pairs.1] at h
  cases h
  intro t ht
  obtain ⟨Δ, rfl, hΔ⟩ := sld_sound member_clauses_valid _ _ _ t ht
  have := hΔ _ (List.mem_singleton.mpr rfl)
  simp only [Term.a2, substT, substA, Meaning] at this
  exact ⟨this, ⟨Δ, rfl⟩⟩

/-- select/3, all arguments arbitrary terms -/
theorem C16_select_sound {fuel : Nat} {e l r : Term} {ans : Answers} (h : Rel.select fuel e l r = .ok ans) :
    ∀ t ∈ ans, selectT t ∧ IsInstance [e, l, r] t := by
  unfold Rel.select at h
  rw [clause_pairs.2.1] at h
  cases h
  intro t ht
  obtain ⟨Δ, rfl, hΔ⟩ := sld_sound select_clauses_valid _ _ _ t ht
  have := hΔ _ (List.mem_singleton.mpr rfl)
  simp only [Term.a3, substT, substA, Meaning] at this
  exact ⟨this, ⟨Δ, rfl⟩⟩

/-- append/3, all arguments arbitrary terms, both code paths (the fast path for an instantiated
    first list and the two-clause definition) -/
theorem C16_append_sound {fuel : Nat} {xs ys zs : Term} {ans : Answers} (h : Rel.append fuel xs ys zs = .ok ans) :
    ∀ t ∈ ans, appendT t ∧ IsInstance [xs, ys, zs] t := by
  unfold Rel.append at h
  split at h
  · rename_i hfast
    cases h
    intro t ht
    have hxs : xs = Term.list xs.spine.1 := by
      have : xs.spine.2 = Term.nilT := by
        unfold appendFast at hfast
        cases xs <;> simp_all
      have h2 := list_spine xs
      rw [this] at h2
      exact h2.symm
    unfold unifyAns at ht
    split at ht
    · rename_i δ hδ
      simp only [List.mem_singleton] at ht
      subst ht
      refine ⟨?_, ⟨δ, rfl⟩⟩
      have hs := unifyM_sound hδ
      simp only [List.map, appendT]
      have : asList (substT δ xs) = some (xs.spine.1.map (substT δ)) := by
        rw [asList_eq_some_iff]
        conv => lhs; rw [hxs, substT_list]
        simp [Term.nilT, substT]
      rw [this]
      simp only
      rw [hs, substT_list]
    · cases ht
  · rw [clause_pairs.2.2] at h
    cases h
    intro t ht
    obtain ⟨Δ, rfl, hΔ⟩ := sld_sound append_clauses_valid _ _ _ t ht
    have := hΔ _ (List.mem_singleton.mpr rfl)
    simp only [Term.a3, substT, substA, Meaning] at this
    exact ⟨this, ⟨Δ, rfl⟩⟩

/-- append/3 concatenating two ground lists (mode +,+,?): exactly the concatenation, whatever the
    third argument is -/
theorem C16_append_exact_concat_partial {fuel : Nat} {e : Term} {es : List Term} {ys zs : Term} {ans : Answers}
    (hg : groundT (Term.list (e :: es)) = true) (hgy : groundT ys = true)
    (h : Rel.append fuel (Term.list (e :: es)) ys zs = .ok ans) :
    ExactInst appendT [Term.list (e :: es), ys, zs] ans := by
  unfold Rel.append at h
  have hsp : (Term.list (e :: es)).spine = (e :: es, Term.nilT) := spine_list_nil _
  have hfast : appendFast (Term.list (e :: es)) = true := by
    unfold appendFast
    rw [hsp]; simp [Term.consT]
  simp only [hfast, if_true, hsp] at h
  cases h
  have hgl : groundT (Term.list (e :: es) ys) = true := by
    rw [groundT_list] at hg ⊢
    simp only [Bool.and_eq_true] at hg ⊢
    exact ⟨hg.1, hgy⟩
  apply exactInst_unifyAns hgl
  · intro σ hσ
    simp only [List.map, substT_ground σ _ hg, substT_ground σ _ hgy, hσ, appendT, asList_list]
  · intro σ hr
    simp only [List.map, substT_ground σ _ hg, substT_ground σ _ hgy, appendT, asList_list] at hr
    exact hr


/-! ## arg/3, =../2, nth0/3, nth1/3 on arbitrary (also non-ground) data

  Here the call is unified with possibly non-ground data, which goes through the Robinson unifier
  of the model.  `UnifyDefined a b` says that this unification finished within its fuel (it always
  does when one side is ground; the fuel is generous, the driver never ran out of it); under it the
  unifier is proved to return a most general unifier (`unifyM_mgu`). -/

/-- arg/3 in full: any index, any compound term, any pattern for the argument -/
theorem C16_arg_exact {n t a : Term} {ans : Answers}
    (hd : ∀ f as i e, t = .app f as → n = .int i → as.toList[(i - 1).toNat]? = some e → UnifyDefined a e)
    (h : Rel.arg n t a = .ok ans) : ExactInst argT [n, t, a] ans := by
  unfold Rel.arg at h
  simp only at h
  split at h
  · cases h
  · rename_i f as
    split at h
    · cases h
    · rename_i nv
      split at h
      · rename_i hout
        cases h
        apply exactInst_nil
        rintro t' hr ⟨σ, rfl⟩
        simp only [List.map, substT_int, substT, argT, toList_substA] at hr
        obtain ⟨h1, h2⟩ := hr
        have := (List.getElem?_eq_some_iff.mp h2).1
        simp only [List.length_map, Args.length_toList] at this
        simp only [Int.ofNat_eq_natCast] at hout
        omega
      · rename_i hin
        split at h
        · cases h
        · rename_i hpos
          split at h
          · rename_i e he
            cases h
            apply exactInst_unifyAns_general (hd f as nv e rfl rfl he)
            · intro σ hσ
              simp only [List.map, substT_int, substT, argT, toList_substA, List.getElem?_map, he,
                Option.map_some, hσ]
              exact ⟨by omega, trivial⟩
            · intro σ hr
              simp only [List.map, substT_int, substT, argT, toList_substA, List.getElem?_map, he,
                Option.map_some] at hr
              simpa using hr.2.symm
          · rename_i hnone
            cases h
            have := List.getElem?_eq_none_iff.mp hnone
            simp only [Args.length_toList] at this
            simp only [Int.ofNat_eq_natCast] at hin
            omega
    · cases h
  · cases h

/-- =../2 decomposing any compound term (ground or not) against any list pattern -/
theorem C16_univ_exact_compound {f : String} {as : Args} {l : Term} {ans : Answers}
    (hwf : 0 < as.length) (hd : UnifyDefined l (Term.list (.atom f :: as.toList)))
    (h : Rel.univ (.app f as) l = .ok ans) : ExactInst univT [.app f as, l] ans := by
  unfold Rel.univ at h
  simp only at h
  split at h
  · cases h
  · cases h
    apply exactInst_unifyAns_general hd
    · intro σ hσ
      simp only [List.map, substT, univT, length_substA, hwf, true_and, toList_substA, hσ, substT_list]
      simp [substT, Term.nilT]
    · intro σ hr
      simp only [List.map, substT, univT, length_substA, toList_substA] at hr
      rw [hr.2, substT_list]
      simp [substT, Term.nilT]

/-- nth0/3, nth1/3 in full: lists with arbitrary (also non-ground) elements, index bound or unbound,
    any element pattern; with a bound index the list may be partial behind the element -/
theorem C16_nth_exact {base : Int} {n list elem : Term} {ans : Answers}
    (hd : ∀ i e, list.spine.1[i]? = some e →
      UnifyDefined (tuple [n, elem]) (tuple [.int (base + Int.ofNat i), e]) ∧ UnifyDefined elem e)
    (h : Rel.nth base n list elem = .ok ans) :
    ExactInst (nthT base) [n, list, elem] ans := by
  unfold Rel.nth at h
  simp only at h
  have hspine : ∀ σ : Nat → Term, ∀ i, i < list.spine.1.length →
      (substT σ list).spine.1[i]? = (list.spine.1[i]?).map (substT σ) := by
    intro σ i hi
    conv => lhs; rw [← list_spine list, substT_list, spine_list]
    simp only
    rw [List.getElem?_append_left (by simpa using hi), List.getElem?_map]
  split at h
  · rename_i v
    split at h
    · cases h
    · rename_i hproper
      cases h
      have hl : list = Term.list list.spine.1 := list_eq_of_spine rfl (listErr_false_none hproper)
      have := nth_var_general (base := base) (v := v) (es := list.spine.1) (elem := elem)
        (fun i e he => (hd i e he).1)
      rw [← hl] at this
      exact this
  · rename_i nv
    split at h
    · rename_i hlt
      cases h
      apply exactInst_nil
      rintro t hr ⟨σ, rfl⟩
      simp only [List.map, substT_int, nthT, Relations.nth] at hr
      omega
    · rename_i hge
      split at h
      · rename_i e he
        cases h
        have hi := (List.getElem?_eq_some_iff.mp he).1
        apply exactInst_unifyAns_general (hd _ e he).2
        · intro σ hσ
          simp only [List.map, substT_int, nthT, Relations.nth, hspine σ _ hi, he, Option.map_some, hσ, and_true]
          omega
        · intro σ hr
          simp only [List.map, substT_int, nthT, Relations.nth, hspine σ _ hi, he, Option.map_some] at hr
          simpa using hr.2.symm
      · rename_i hnone
        split at h
        · cases h
        · rename_i hproper
          cases h
          have hl : list = Term.list list.spine.1 := list_eq_of_spine rfl (listErr_false_none hproper)
          apply exactInst_nil
          rintro t hr ⟨σ, rfl⟩
          simp only [List.map, substT_int, nthT, Relations.nth] at hr
          have hsp : (substT σ list).spine.1 = list.spine.1.map (substT σ) := by
            conv => lhs; rw [hl, substT_list]
            have : substT σ Term.nilT = Term.nilT := by simp [Term.nilT, substT]
            rw [this, spine_list_nil]
          rw [hsp, List.getElem?_map, hnone] at hr
          exact absurd hr.2 (by simp)
  · cases h


/-! ## further "consequently" corollaries -/

theorem C16_atom_chars_monotone {a l a' l' : Term} {ans ans' : Answers}
    (h : Rel.atomChars a l = .ok ans) (h' : Rel.atomChars a' l' = .ok ans') (hi : IsInstance [a, l] [a', l']) :
    ans'.Perm (ans.filter fun t => decide (IsInstance [a', l'] t)) :=
  C16_monotone (C16_atom_chars_exact h) (C16_atom_chars_exact h') hi

theorem C16_atom_codes_monotone {a l a' l' : Term} {ans ans' : Answers}
    (h : Rel.atomCodes a l = .ok ans) (h' : Rel.atomCodes a' l' = .ok ans') (hi : IsInstance [a, l] [a', l']) :
    ans'.Perm (ans.filter fun t => decide (IsInstance [a', l'] t)) :=
  C16_monotone (C16_atom_codes_exact h) (C16_atom_codes_exact h') hi

theorem C16_char_code_monotone {c n c' n' : Term} {ans ans' : Answers}
    (h : Rel.charCode c n = .ok ans) (h' : Rel.charCode c' n' = .ok ans') (hi : IsInstance [c, n] [c', n']) :
    ans'.Perm (ans.filter fun t => decide (IsInstance [c', n'] t)) :=
  C16_monotone (C16_char_code_exact h) (C16_char_code_exact h') hi

theorem C16_between_monotone {k : Nat} {l u x l' u' x' : Term} {ans ans' : Answers}
    (hk : BetweenFuel k l u) (hk' : BetweenFuel k l' u')
    (h : Rel.between k l u x = .ok ans) (h' : Rel.between k l' u' x' = .ok ans')
    (hi : IsInstance [l, u, x] [l', u', x']) :
    ans'.Perm (ans.filter fun t => decide (IsInstance [l', u', x'] t)) :=
  C16_monotone (C16_between_exact hk h) (C16_between_exact hk' h') hi

/-- the same for answers that may contain variables: the answers of the more instantiated call are
    covered by answers of the more general one, and every answer of the general call that still
    has an instance matching the instantiated call is represented -/
theorem C16_monotone_inst {R : List Term → Prop} {args args' : List Term} {ans ans' : Answers}
    (h : ExactInst R args ans) (h' : ExactInst R args' ans') (hi : IsInstance args args') :
    (∀ t' ∈ ans', ∃ t ∈ ans, IsInstance t t') ∧
    (∀ t, R t → IsInstance args' t → ∃ t' ∈ ans', IsInstance t' t) :=
  ⟨fun t' ht' => h.complete t' (h'.sound t' ht').1 (hi.trans (h'.sound t' ht').2),
   fun t hr hi' => h'.complete t hr hi'⟩

/-! ### completeness of the clause-defined predicates

  `SldDefined … fuel goals args`: every unification of the run finished within the unifier's fuel
  (a decidable side condition on the run; trivially true for all runs observed by the driver).
  `fuel` must exceed the length of the derivation (the position of the element + 1). -/

/-- member/2 is complete, for arbitrary arguments (partial lists and non-ground elements included):
    every instance of the call in which the first argument is an element of the second is an
    instance of an answer -/
theorem C16_member_complete {fuel : Nat} {x l : Term} {ans : Answers} (h : Rel.member fuel x l = .ok ans)
    (hdef : SldDefined memberClauses fuel [Term.a2 "member" x l] [x, l])
    (σ : Nat → Term) (hm : memberT [substT σ x, substT σ l]) (hf : (substT σ l).spine.1.length < fuel) :
    ∃ a ∈ ans, IsInstance a [substT σ x, substT σ l] := by
  unfold Rel.member at h
  rw [clause_pairs.1] at h
  cases h
  simp only [memberT] at hm
  have hres := resolves_member (substT σ x) (substT σ l).spine.2 (substT σ l).spine.1 hm
  rw [list_spine] at hres
  exact sld_complete fuel [Term.a2 "member" x l] [x, l] σ _
    (by simpa [Term.a2, substT, substA] using hres) hf hdef

/-- select/3 is complete, for arbitrary arguments -/
theorem C16_select_complete {fuel : Nat} {e l r : Term} {ans : Answers} (h : Rel.select fuel e l r = .ok ans)
    (hdef : SldDefined selectClauses fuel [Term.a3 "select" e l r] [e, l, r])
    (σ : Nat → Term) (hs : selectT [substT σ e, substT σ l, substT σ r])
    (hf : (substT σ l).spine.1.length + 1 < fuel) :
    ∃ a ∈ ans, IsInstance a [substT σ e, substT σ l, substT σ r] := by
  unfold Rel.select at h
  rw [clause_pairs.2.1] at h
  cases h
  simp only [selectT] at hs
  obtain ⟨i, hi, he, hr⟩ := hs
  have hres := resolves_select (substT σ e) (substT σ l).spine.2 (substT σ l).spine.1 i he
  rw [list_spine, ← hr] at hres
  exact sld_complete fuel [Term.a3 "select" e l r] [e, l, r] σ _
    (by simpa [Term.a3, substT, substA] using hres) (by omega) hdef

/-- append/3 is complete, for arbitrary arguments, on both code paths -/
theorem C16_append_complete {fuel : Nat} {xs ys zs : Term} {ans : Answers}
    (h : Rel.append fuel xs ys zs = .ok ans)
    (hdef : if appendFast xs = true then UnifyDefined zs (Term.list xs.spine.1 ys)
            else SldDefined appendClausePairs fuel [Term.a3 "append" xs ys zs] [xs, ys, zs])
    (σ : Nat → Term) (ha : appendT [substT σ xs, substT σ ys, substT σ zs])
    (hf : (substT σ xs).spine.1.length + 1 < fuel) :
    ∃ a ∈ ans, IsInstance a [substT σ xs, substT σ ys, substT σ zs] := by
  unfold Rel.append at h
  simp only [appendT] at ha
  split at ha
  · rename_i es hes
    have hxs := asList_eq_some_iff.mp hes
    split at h
    · rename_i hfast
      simp only [hfast, if_true] at hdef
      cases h
      have hl : xs = Term.list xs.spine.1 := by
        have : xs.spine.2 = Term.nilT := by
          unfold appendFast at hfast
          cases xs <;> simp_all
        exact list_eq_of_spine rfl this
      obtain ⟨δ, hδ, habs⟩ := (unifyAns_general (args := [xs, ys, zs]) hdef).2 σ (by
        rw [ha, substT_list]
        congr 1
        have := hxs
        rw [hl, substT_list] at this
        have hnil : substT σ Term.nilT = Term.nilT := by simp [Term.nilT, substT]
        rw [hnil] at this
        exact (list_inj_nil this).symm)
      refine ⟨[xs, ys, zs].map (substT δ), by rw [hδ]; simp, σ, ?_⟩
      simp [List.map, habs]
    · rename_i hfast
      simp only [hfast] at hdef
      rw [clause_pairs.2.2] at h
      cases h
      have hres := resolves_append (substT σ ys) es
      rw [← hxs, ← ha] at hres
      have hlen : es.length = (substT σ xs).spine.1.length := by rw [hxs, spine_list_nil]
      exact sld_complete fuel [Term.a3 "append" xs ys zs] [xs, ys, zs] σ _
        (by simpa [Term.a3, substT, substA] using hres) (by omega) (by simpa using hdef)
  · exact ha.elim


/-- the side conditions `UnifyDefined` / `SldDefined` of the theorems above are decided by the
    executable checks that the driver evaluates on every case of the stream -/
theorem C16_side_conditions_checked :
    (∀ a b, unifyDefinedB a b = true → UnifyDefined a b) ∧
    (∀ clauses f goals args, sldDefinedB clauses f goals args = true → SldDefined clauses f goals args) :=
  ⟨fun _ _ h => unifyDefined_of_B h, fun _ f goals args h => sldDefined_of_B f goals args h⟩

/-! ## no position is answered twice

  Proved above for member/2, select/3, append/3: soundness and completeness for arbitrary
  arguments.  The three statements below ("no position answered twice") were open; they are proved
  here for EVERY fuel and all arguments (no side condition), together with the stronger facts
  * the split points of the answers of append/3 strictly increase (`C16_append_splits_increasing`),
  * the exact number of answers under the side conditions of the completeness theorems
    (`C16_member_count`, `C16_select_count`, `C16_append_count`). -/

/-- member/2 on a proper list: at most one answer per position -/
def C16_member_once_statement : Prop :=
  ∀ (fuel : Nat) (x : Term) (es : List Term) (ans : Answers),
    Rel.member fuel x (Term.list es) = .ok ans → ans.length ≤ es.length

theorem C16_member_once : C16_member_once_statement := by
  intro fuel x es ans h
  unfold Rel.member at h
  rw [clause_pairs.1] at h
  cases h
  exact member_len fuel es x _

/-- the bound is attained, and the two answers may be the same tuple (an element that occurs twice
    is answered twice: no `Nodup` of the answers of member/2) -/
example : Rel.member 9 (.var 0) (Term.list [.atom "a", .atom "a"]) =
    .ok [[.atom "a", Term.list [.atom "a", .atom "a"]], [.atom "a", Term.list [.atom "a", .atom "a"]]] := by
  decide +kernel

/-- select/3 on a proper list: at most one answer per position -/
def C16_select_once_statement : Prop :=
  ∀ (fuel : Nat) (e r : Term) (es : List Term) (ans : Answers),
    Rel.select fuel e (Term.list es) r = .ok ans → ans.length ≤ es.length

theorem C16_select_once : C16_select_once_statement := by
  intro fuel e r es ans h
  unfold Rel.select at h
  rw [clause_pairs.2.1] at h
  cases h
  exact select_len fuel es e r _

example : Rel.select 9 (.atom "a") (Term.list [.atom "a", .var 0, .atom "b"]) (Term.list [.var 1, .atom "b"]) =
    .ok [[.atom "a", Term.list [.atom "a", .var 0, .atom "b"], Term.list [.var 0, .atom "b"]],
         [.atom "a", Term.list [.atom "a", .atom "a", .atom "b"], Term.list [.atom "a", .atom "b"]]] := by
  decide +kernel

/-- append/3 splitting a proper list: every split once -/
def C16_append_nodup_statement : Prop :=
  ∀ (fuel : Nat) (xs ys : Term) (zs : List Term) (ans : Answers),
    Rel.append fuel xs ys (Term.list zs) = .ok ans → ans.Nodup ∧ ans.length ≤ zs.length + 1

/-- append/3 splitting a proper list, both code paths, any fuel, any first and second argument:
    the split point (`splitAt`: the number of elements of the answer's first argument) strictly
    increases from one answer to the next and never exceeds the length of the list -/
theorem C16_append_splits_increasing {fuel : Nat} {xs ys : Term} {zs : List Term} {ans : Answers}
    (h : Rel.append fuel xs ys (Term.list zs) = .ok ans) :
    ans.Pairwise (fun s t => splitAt s < splitAt t) ∧ (∀ t ∈ ans, splitAt t ≤ zs.length) ∧
      ans.length ≤ zs.length + 1 := by
  unfold Rel.append at h
  split at h
  · rename_i hfast
    cases h
    have hxs : xs = Term.list xs.spine.1 := by
      have : xs.spine.2 = Term.nilT := by
        unfold appendFast at hfast
        cases xs <;> simp_all
      exact list_eq_of_spine rfl this
    unfold unifyAns
    split
    · rename_i δ hδ
      refine ⟨by simp, ?_, by simp⟩
      intro t ht
      simp only [List.mem_singleton] at ht
      subst ht
      have hs := unifyM_sound hδ
      rw [substT_list, substT_list, substT_nilT] at hs
      obtain ⟨r, hr, _⟩ := list_eq_list_tail hs
      have hlen : zs.length = xs.spine.1.length + r.length := by
        have := congrArg List.length hr
        simpa using this
      have : (substT δ xs).spine.1.length = xs.spine.1.length := by
        conv => lhs; rw [hxs, substT_list, substT_nilT, spine_list_nil]
        simp
      simp only [List.map_cons, splitAt, this]
      omega
    · simp
  · rw [clause_pairs.2.2] at h
    cases h
    have := append_keys fuel zs xs ys [] [ys, Term.list zs]
    simp only [list_nil, List.length_nil, Nat.zero_add] at this
    exact ⟨this.1, fun t ht => (this.2.1 t ht).2, this.2.2⟩

theorem C16_append_nodup : C16_append_nodup_statement := by
  intro fuel xs ys zs ans h
  obtain ⟨hp, _, hl⟩ := C16_append_splits_increasing h
  refine ⟨hp.imp ?_, hl⟩
  intro s t hlt hst
  subst hst
  exact Nat.lt_irrefl _ hlt

example : Rel.append 9 (.var 0) (.var 1) (Term.list [.atom "a", .atom "é"]) =
    .ok [[Term.list [], Term.list [.atom "a", .atom "é"], Term.list [.atom "a", .atom "é"]],
         [Term.list [.atom "a"], Term.list [.atom "é"], Term.list [.atom "a", .atom "é"]],
         [Term.list [.atom "a", .atom "é"], Term.list [], Term.list [.atom "a", .atom "é"]]] := by
  decide +kernel

/-! ### the exact number of answers

  `Unifiable a b`: the two terms have a common instance.  The side conditions are those of the
  completeness theorems: `SldDefined` (every unification of the run finished within the unifier's
  fuel) and enough fuel for the longest derivation. -/

open Classical in
/-- member/2 on a proper list answers once for EVERY element that unifies with the first argument,
    and only for those: the number of answers is the number of such positions -/
theorem C16_member_count {fuel : Nat} {x : Term} {es : List Term} {ans : Answers}
    (h : Rel.member fuel x (Term.list es) = .ok ans)
    (hdef : SldDefined memberClauses fuel [Term.a2 "member" x (Term.list es)] [x, Term.list es])
    (hf : es.length < fuel) :
    ans.length = es.countP (fun e => decide (Unifiable x e)) := by
  unfold Rel.member at h
  rw [clause_pairs.1] at h
  cases h
  exact member_count es fuel x _ hf hdef

/-- the same count with the model's unifier as the (decidable) test -/
theorem C16_member_count_computed {fuel : Nat} {x : Term} {es : List Term} {ans : Answers}
    (h : Rel.member fuel x (Term.list es) = .ok ans)
    (hdef : SldDefined memberClauses fuel [Term.a2 "member" x (Term.list es)] [x, Term.list es])
    (hf : es.length < fuel) (hu : ∀ e ∈ es, UnifyDefined x e) :
    ans.length = es.countP (fun e => (unifyM x e).isSome) := by
  rw [C16_member_count h hdef hf]
  apply List.countP_congr
  intro e he
  simp only [decide_eq_true_eq]
  exact unifiable_iff_unifyM (hu e he)

/-- f(X, b) against [f(a, Y), c, f(Z, Z)]: positions 0 and 2 unify, two answers -/
example : Rel.member 9 (Term.a2 "f" (.var 0) (.atom "b"))
      (Term.list [Term.a2 "f" (.atom "a") (.var 1), .atom "c", Term.a2 "f" (.var 2) (.var 2)]) =
    .ok [[Term.a2 "f" (.atom "a") (.atom "b"),
            Term.list [Term.a2 "f" (.atom "a") (.atom "b"), .atom "c", Term.a2 "f" (.var 2) (.var 2)]],
         [Term.a2 "f" (.atom "b") (.atom "b"),
            Term.list [Term.a2 "f" (.atom "a") (.var 1), .atom "c", Term.a2 "f" (.atom "b") (.atom "b")]]] := by
  decide +kernel

open Classical in
example : ([Term.a2 "f" (.atom "a") (.var 1), .atom "c", Term.a2 "f" (.var 2) (.var 2)] : List Term).countP
    (fun e => decide (Unifiable (Term.a2 "f" (.var 0) (.atom "b")) e)) = 2 :=
  (C16_member_count (fuel := 9) rfl (sldDefined_of_B _ _ _ (by decide +kernel)) (by decide)).symm.trans
    (by decide +kernel)

open Classical in
/-- select/3 on a proper list answers once for every position `i` that can be selected
    (`SelectAt`: an instance of the call has its first argument at position `i` of the list and the
    list without that position as its third argument) -/
theorem C16_select_count {fuel : Nat} {e r : Term} {es : List Term} {ans : Answers}
    (h : Rel.select fuel e (Term.list es) r = .ok ans)
    (hdef : SldDefined selectClauses fuel [Term.a3 "select" e (Term.list es) r] [e, Term.list es, r])
    (hf : es.length < fuel) :
    ans.length = (List.range es.length).countP (fun i => decide (SelectAt e r es i)) := by
  unfold Rel.select at h
  rw [clause_pairs.2.1] at h
  cases h
  exact select_count es fuel e r _ hf hdef

open Classical in
/-- select(a, [a, X, b], [Y, b]): positions 0 and 1 can be selected, position 2 cannot -/
example : (List.range 3).countP (fun i => decide
    (SelectAt (.atom "a") (Term.list [.var 1, .atom "b"]) [.atom "a", .var 0, .atom "b"] i)) = 2 :=
  (C16_select_count (fuel := 9) rfl (sldDefined_of_B _ _ _ (by decide +kernel)) (by decide)).symm.trans
    (by decide +kernel)

open Classical in
/-- append/3 splitting a proper list answers once for every split point `k ≤ length` that is
    compatible with the first two arguments (`AppendAt`), on both code paths -/
theorem C16_append_count {fuel : Nat} {xs ys : Term} {zs : List Term} {ans : Answers}
    (h : Rel.append fuel xs ys (Term.list zs) = .ok ans)
    (hdef : if appendFast xs = true then UnifyDefined (Term.list zs) (Term.list xs.spine.1 ys)
            else SldDefined appendClausePairs fuel [Term.a3 "append" xs ys (Term.list zs)] [xs, ys, Term.list zs])
    (hf : zs.length + 1 < fuel) :
    ans.length = (List.range (zs.length + 1)).countP (fun k => decide (AppendAt xs ys zs k)) := by
  unfold Rel.append at h
  split at h
  · rename_i hfast
    simp only [hfast, if_true] at hdef
    cases h
    have hxs : xs = Term.list xs.spine.1 := by
      have : xs.spine.2 = Term.nilT := by
        unfold appendFast at hfast
        cases xs <;> simp_all
      exact list_eq_of_spine rfl this
    rw [unifyAns_length hdef]
    conv => rhs; rw [hxs]
    rw [appendAt_list_count]
  · rename_i hfast
    simp only [hfast] at hdef
    rw [clause_pairs.2.2] at h
    cases h
    exact append_count fuel zs xs ys _ hf (by simpa using hdef)

open Classical in
/-- append([X|T], Y, [a, b]) (the two clauses): the splits after 1 and 2 elements, not the one after 0 -/
example : (List.range 3).countP (fun k => decide
    (AppendAt (Term.list [.var 0] (.var 1)) (.var 2) [.atom "a", .atom "b"] k)) = 2 :=
  (C16_append_count (fuel := 9) (xs := Term.list [.var 0] (.var 1)) (ys := .var 2) (zs := [.atom "a", .atom "b"]) rfl
    (by rw [if_neg (by decide +kernel)]; exact sldDefined_of_B _ _ _ (by decide +kernel)) (by decide)).symm.trans
    (by decide +kernel)

open Classical in
/-- append([X, Y], Z, [a, b, c]) (the fast path): the single split after 2 elements -/
example : (List.range 4).countP (fun k => decide
    (AppendAt (Term.list [.var 0, .var 1]) (.var 2) [.atom "a", .atom "b", .atom "c"] k)) = 1 :=
  (C16_append_count (fuel := 9) (xs := Term.list [.var 0, .var 1]) (ys := .var 2)
    (zs := [.atom "a", .atom "b", .atom "c"]) rfl
    (by rw [if_pos (by decide +kernel)]; exact unifyDefined_of_B (by decide +kernel)) (by decide)).symm.trans
    (by decide +kernel)

end PrologVerif.C16
