package main

// C13 (runtime half): looping / long-running programs are cancelled at spread instants; measured:
// the latency from cancel() to the return of Next/Exec, the returned error (must be the context's),
// and that the same interpreter answers a follow-up query correctly afterwards.

import (
	"context"
	"errors"
	"fmt"
	"math/rand"
	"strings"
	"testing/fstest"
	"time"

	"github.com/ichiban/prolog"
)

func init() {
	register(&stream{name: "c13.latency", gen: genC13, run: runC13, serial: true})
}

var c13Programs = []struct{ name, prog, query, post string }{
	{"recursion", "loop :- loop.", "loop.", ""},
	{"repeat", "", "repeat, fail.", ""},
	{"between", "", "between(1, 1000000000, X), X < 0.", ""},
	{"length", "", "length(L, N), N < 0.", ""},
	{"findall", "gen(X) :- repeat, X = 1.", "findall(X, (gen(X), fail), L).", ""},
	{"negation", "lp :- lp.", "\\+ lp.", ""},
	{"catch", "lq :- lq.", "catch(lq, _, true).", ""},
	{"catchall", "", "catch((repeat, fail), _, true).", ""},
	{"deepconj", "cnt(N) :- N1 is N + 1, cnt(N1).", "cnt(0).", ""},
	{"member", "", "repeat, member(X, [a,b,c]), X == d.", ""},
	{"append", "", "append(X, Y, Z), fail.", ""},
	{"assert", ":- dynamic(c/1).", "repeat, assertz(c(1)), retract(c(1)), fail.", ""},
	{"atomgc", "", "repeat, atom_length(abc, N), N > 5.", ""},
	{"nested", "in :- \\+ \\+ findall(X, (repeat, X = 1, fail), _).", "in.", ""},
	{"initialization", "main :- main.", "EXEC::- initialization(main).", ""},
	{"directive", "spin :- spin.", "EXEC::- spin.", ""},
	// file loads (consult/1, ensure_loaded/1) run nested trampolines for the file's directives and
	// initialization goals: they must inherit the caller's context
	{"consult", "spin :- spin.", "consult(loopdir).", ""},
	{"consultinit", "spin :- spin.", "findall(x, consult(loopinit), _).", ""},
	{"ensureloaded", "spin :- spin.", "EXEC::- ensure_loaded(nested).", ""},
	// include/1 cycles through two and three files: each load must END (permission_error) - file inclusion is
	// plain recursion in the loader, nothing polls the context there - so that the loop around it stays
	// cancellable
	{"includecycle2", "spin :- catch(consult(cyca), _, true), spin.", "spin.", ""},
	{"includecycle3", "spin :- catch(consult(cycx), _, true), spin.", "spin.", ""},
	// built-ins walking CYCLIC lists (created by an unchecked unification) with and without a bound on
	// the walk: each call must come back (error, failure) so that the loop around it stays cancellable
	{"lengthcyclic", "spin :- \\+ (L = [a|L], length(L, 4611686018427387904)), spin.", "spin.", ""},
	{"lengthcyclicvar", "spin :- catch((L = [a|L], length(L, _)), _, true), spin.", "spin.", ""},
	{"lengthcyclicsmall", "spin :- \\+ (L = [a,b|L], length(L, 7)), spin.", "spin.", ""},
	{"atomcharscyclic", "spin :- catch((L = [a|L], atom_chars(_, L)), _, true), spin.", "spin.", ""},
	{"atomcodescyclic", "spin :- catch((L = [0'a|L], atom_codes(_, L)), _, true), spin.", "spin.", ""},
	{"sortcyclic", "spin :- catch((L = [a|L], sort(L, _)), _, true), spin.", "spin.", ""},
	{"keysortcyclic", "spin :- catch((L = [a-1|L], keysort(L, _)), _, true), spin.", "spin.", ""},
	{"appendcyclic", "spin :- catch((L = [a|L], append(L, [x], _)), _, true), spin.", "spin.", ""},
	{"nth0cyclicsmall", "spin :- L = [a,b,c|L], nth0(1000, L, E), E == b, spin.", "spin.", ""},
	{"membercyclic", "", "L = [a|L], member(z, L).", ""},
	{"univcyclic", "spin :- catch((L = [f|L], _ =.. L), _, true), spin.", "spin.", ""},
	{"lengthpartial", "", "length([a,b|T], N), N < 0.", ""},
	{"subatom", "", "repeat, sub_atom(abcdefghij, B, L, A, S), S == zz.", ""},
	{"atomconcat", "", "repeat, atom_concat(X, Y, abcdefghij), X == zz.", ""},
	{"setof", "g(X) :- repeat, X = 1.", "setof(X, g(X), L).", ""},
	{"bagof", "g(X) :- repeat, X = 1.", "bagof(X, g(X), L).", ""},
	{"callN", "lp :- lp.", "call(call, call, lp).", ""},
	{"once", "lp :- lp.", "once(lp).", ""},
	{"ifthenelse", "lp :- lp.", "( lp -> true ; true ).", ""},
	{"phrase", "s --> s.", "phrase(s, [a], _).", ""},
	{"retractloop", ":- dynamic(c/1). c(0).", "repeat, retract(c(N)), N1 is N + 1, assertz(c(N1)), fail.", ""},
	{"copyterm", "", "repeat, copy_term(f(X, Y, X), Z), Z == a.", ""},
	{"readterm", "", "repeat, catch(read_term(user_input, T, []), _, true), T == zz.", ""},
	{"writeloop", "", "repeat, write(a), fail.", ""},
	{"oploop", "", "repeat, op(200, xfx, foo), current_op(_, _, foo), fail.", ""},
	{"charconv", "", "repeat, current_char_conversion(_, _), fail.", ""},
	{"termvars", "", "repeat, term_variables(f(_, _, _), _), fail.", ""},
	{"arith", "", "repeat, X is 2 ** 10 + max(1, 2) * 3 mod 7, X < 0.", ""},
	{"throwloop", "", "repeat, catch(throw(x), x, fail).", ""},
	{"halt0no", "lp :- lp.", "catch(lp, _, true).", ""},
	// a looping user-defined term_expansion/2, reached by a load and by expand_term/2 (finding C13/F2)
	{"termexpansion", "term_expansion(_, _) :- lp. lp :- lp.", "EXEC:foo.", ""},
	{"expandterm", "term_expansion(_, _) :- lp. lp :- lp.", "expand_term(a, _).", ""},
	// boundary values of enumerating built-ins inside a loop
	{"betweenmax", "", "repeat, between(9223372036854775806, 9223372036854775807, X), X < 0.", ""},
	{"betweenneg", "", "repeat, between(-1, 9223372036854775807, X), X < -1.", ""},
	{"betweenwide", "", "between(-9223372036854775808, 9223372036854775807, X), X > 0, X < 0.", ""},
	// what follows a goal that was being executed when the context ended must NOT run: the side effect
	// behind it is checked by the post query
	{"negthen", ":- dynamic(reached/1). lp :- lp.", "\\+ lp, assertz(reached(1)).", "\\+ reached(_)."},
	{"negnegthen", ":- dynamic(reached/1). lp :- lp.", "\\+ \\+ lp, assertz(reached(1)).", "\\+ reached(_)."},
	{"findallthen", ":- dynamic(reached/1). lp :- lp.", "findall(x, lp, _), assertz(reached(1)).", "\\+ reached(_)."},
	{"catchthen", ":- dynamic(reached/1). lp :- lp.", "catch(lp, _, true), assertz(reached(1)).", "\\+ reached(_)."},
	{"oncethen", ":- dynamic(reached/1). lp :- lp.", "once(lp), assertz(reached(1)).", "\\+ reached(_)."},
	{"itethen", ":- dynamic(reached/1). lp :- lp.", "( lp -> true ; true ), assertz(reached(1)).", "\\+ reached(_)."},
	{"negthendir", ":- dynamic(reached/1). lp :- lp.", "EXEC::- \\+ lp, assertz(reached(1)).", "\\+ reached(_)."},
	{"bagofthen", ":- dynamic(reached/1). lp :- lp.", "( bagof(x, lp, _) ; true ), assertz(reached(1)).", "\\+ reached(_)."},
}

// programs on which the UNCHANGED code does not come back (known finding C13/K1): only in the corpus,
// never drawn by the generator
var c13KnownStuck = []struct{ name, prog, query, post string }{
	{"nth0cyclichuge", "", "L = [a|L], nth0(4611686018427387904, L, _).", ""},
}

var c13Files = fstest.MapFS{
	"loopdir.pl":  {Data: []byte(":- spin.\n")},
	"loopinit.pl": {Data: []byte(":- initialization(spin).\n")},
	"nested.pl":   {Data: []byte(":- ensure_loaded(loopdir).\n")},
	"cyca.pl":     {Data: []byte("a1.\n:- include(cycb).\n")},
	"cycb.pl":     {Data: []byte("b1.\n:- include(cyca).\n")},
	"cycx.pl":     {Data: []byte(":- include(cycy).\n")},
	"cycy.pl":     {Data: []byte(":- include(cycz).\n")},
	"cycz.pl":     {Data: []byte(":- include(cycx).\n")},
}

func genC13(r *rand.Rand, n int, tier string) []string {
	var out []string
	for i := 0; i < n; i++ {
		p := r.Intn(len(c13Programs))
		var when string
		switch k := r.Intn(10); {
		case k == 0:
			when = "before" // already cancelled
		case k == 1:
			when = "deadline" // context.WithTimeout
		default:
			when = fmt.Sprintf("%dus", []int{0, 10, 100, 500, 1000, 3000, 10000, 30000}[r.Intn(8)]+r.Intn(50))
		}
		out = append(out, fmt.Sprintf("%s | %s", c13Programs[p].name, when))
	}
	return out
}

func runC13(payload string) string {
	f := strings.Split(payload, " | ")
	var prog, query string
	var post string
	for _, p := range c13Programs {
		if p.name == f[0] {
			prog, query, post = p.prog, p.query, p.post
		}
	}
	for _, p := range c13KnownStuck {
		if p.name == f[0] {
			prog, query, post = p.prog, p.query, p.post
		}
	}
	i := prolog.New(nil, nil)
	i.FS = c13Files
	if prog != "" {
		if err := i.Exec(prog); err != nil {
			return "setup-" + errWire(err)
		}
	}
	var ctx context.Context
	var cancel context.CancelFunc
	var delay time.Duration
	switch f[1] {
	case "before":
		ctx, cancel = context.WithCancel(context.Background())
		cancel()
	case "deadline":
		ctx, cancel = context.WithTimeout(context.Background(), 2*time.Millisecond)
	default:
		var us int
		fmt.Sscanf(f[1], "%dus", &us)
		delay = time.Duration(us) * time.Microsecond
		ctx, cancel = context.WithCancel(context.Background())
	}
	defer cancel()
	type res struct {
		err      error
		returned time.Time
	}
	done := make(chan res, 1)
	go func() {
		if strings.HasPrefix(query, "EXEC:") {
			err := i.ExecContext(ctx, strings.TrimPrefix(query, "EXEC:"))
			done <- res{err, time.Now()}
			return
		}
		sols, err := i.QueryContext(ctx, query)
		if err != nil {
			done <- res{err, time.Now()}
			return
		}
		for sols.Next() {
		}
		err = sols.Err()
		_ = sols.Close()
		done <- res{err, time.Now()}
	}()
	var cancelled time.Time
	switch f[1] {
	case "before":
		cancelled = time.Now()
	case "deadline":
		cancelled = time.Now().Add(2 * time.Millisecond)
	default:
		time.Sleep(delay)
		cancelled = time.Now()
		cancel()
	}
	var r res
	select {
	case r = <-done:
	case <-time.After(5 * time.Second):
		return "NOT-STOPPED after 5s ### nt=1 prog=" + f[0]
	}
	lat := r.returned.Sub(cancelled)
	if lat < 0 {
		lat = 0
	}
	errKind := "none"
	switch {
	case r.err == nil:
		errKind = "none"
	case errors.Is(r.err, context.Canceled):
		errKind = "canceled"
	case errors.Is(r.err, context.DeadlineExceeded):
		errKind = "deadline"
	default:
		errKind = "other:" + encName(r.err.Error())
	}
	// the interpreter must still be usable and consistent
	follow := "bad"
	sol := i.QuerySolution("X = f(Y), Y = 1, atom_length(abc, N).")
	var s struct {
		N int
	}
	if err := sol.Scan(&s); err == nil && s.N == 3 {
		follow = "ok"
	}
	if post != "" && follow == "ok" {
		// nothing behind the interrupted goal may have run
		if err := i.QuerySolution(post).Err(); err != nil {
			follow = "bad-post"
		}
	}
	bucket := "fast"
	if lat > 100*time.Millisecond {
		bucket = "slow"
	}
	return fmt.Sprintf("err=%s latency_ms=%d follow=%s ### nt=1 prog=%s when=%s lat=%s", errKind, lat.Milliseconds(), follow, f[0], strings.TrimRight(f[1], "0123456789us"), bucket)
}
