package main

// C05, streams c05.text and c05.parse.
//
//   c05.text   byte strings handed to Interpreter.Query, Interpreter.Exec and (as user_input) to read/1 (real code, fresh
//              interpreters, isolated worker): grammar-generated valid text, mutated; raw bytes; every
//              string of ≤ k tokens over a 16-token alphabet.  Oracle (Lean driver): both calls
//              returned, nothing is a panic residue, run-time errors are ISO error terms.
//   c05.parse  token sequences read by the real engine.Parser (the loop of text.go: `for p.More()
//              { p.Term() }`), compared with the Lean model of the token-level parser
//              (Model/Read0.lean: ring buffer, backup counts) result by result.

import (
	"context"
	"errors"
	"fmt"
	"io"
	"math/rand"
	"strings"
	"sync"
	"testing/fstest"

	"github.com/ichiban/prolog"
	"github.com/ichiban/prolog/engine"
)

func init() {
	register(&stream{name: "c05.text", gen: genC05Text, run: runC05Text, serial: true})
	register(&stream{name: "c05.parse", gen: genC05Parse, run: runC05Parse})
}

// ---------------------------------------------------------------------------
// token alphabet shared by both streams
// ---------------------------------------------------------------------------

// c05Tok is a token as the payload of c05.parse names it: kind code + text.
type c05Tok struct {
	kind string // payload code
	val  string
}

// payload kind code -> tokenKind.String() of lexer.go
var c05KindNames = map[string]string{
	"inv": "invalid", "ld": "letter digit", "gr": "graphic", "q": "quoted", "semi": "semicolon", "cut": "cut",
	"var": "variable", "int": "integer", "flt": "float number", "dq": "double quoted list",
	"op": "open", "ct": "open ct", "cl": "close", "ol": "open list", "cll": "close list",
	"oc": "open curly", "cc": "close curly", "bar": "bar", "cm": "comma", "end": "end",
}

var c05KindCodes = func() map[string]string {
	m := map[string]string{}
	for k, v := range c05KindNames {
		m[v] = k
	}
	return m
}()

// the small alphabet of the exhaustive enumerations (16 tokens; `ct` is "(" glued to its left neighbour)
var c05Small = []c05Tok{
	{"ld", "a"}, {"gr", "-"}, {"gr", "*"}, {"op", "("}, {"ct", "("}, {"cl", ")"}, {"ol", "["}, {"cll", "]"},
	{"oc", "{"}, {"cc", "}"}, {"cm", ","}, {"bar", "|"}, {"var", "X"}, {"int", "1"}, {"end", "."}, {"dq", `"s"`},
}

// the wider alphabet of the random sequences
var c05Wide = append(append([]c05Tok{}, c05Small...), []c05Tok{
	{"ld", "b"}, {"ld", "foo"}, {"gr", "+"}, {"gr", "="}, {"gr", ":-"}, {"gr", "-->"}, {"gr", "\\+"}, {"gr", "->"}, {"gr", "^"},
	{"ld", "is"}, {"ld", "mod"}, {"semi", ";"}, {"cut", "!"}, {"var", "_"}, {"var", "Y"}, {"var", "_G1"}, {"int", "0"}, {"int", "42"},
	{"flt", "1.5"}, {"flt", "2.0"}, {"q", "'[]'"}, {"q", "'{}'"}, {"q", "'a b'"}, {"q", "'-'"}, {"dq", `"ab"`}, {"dq", `""`},
	{"gr", "."}, {"gr", "?-"}, {"ld", "dynamic"}, {"inv", "`"},
	{"q", "''"}, {"q", "''"}, {"gr", "\\"}, {"gr", "/"}, {"q", "'!'"}, {"q", "';'"}, {"q", "'|'"}, {"q", "','"}, {"q", "'A'"}, {"q", "'é'"},
}...)

// render joins the tokens: one blank before every token except an `open ct`, which is glued.
func c05Render(toks []c05Tok) string {
	var sb strings.Builder
	for i, t := range toks {
		if t.kind != "ct" && (i > 0 || t.kind == "op") { // a "(" at the very start is an `open ct` unless layout precedes it
			sb.WriteByte(' ')
		}
		sb.WriteString(t.val)
	}
	if len(toks) > 0 && toks[len(toks)-1].kind == "end" {
		sb.WriteByte('\n')
	}
	return sb.String()
}

// c05LexOK: does the real lexer read the rendered text back as exactly these tokens?
func c05LexOK(toks []c05Tok) bool {
	real, _ := engine.VerifTokens(c05Render(toks))
	if len(real) != len(toks) {
		return false
	}
	for i, t := range toks {
		if real[i].Kind != c05KindNames[t.kind] || real[i].Val != t.val {
			return false
		}
	}
	return true
}

func c05EncToks(toks []c05Tok) string {
	if len(toks) == 0 {
		return "empty"
	}
	parts := make([]string, len(toks))
	for i, t := range toks {
		parts[i] = t.kind + ":" + encName(t.val)
	}
	return strings.Join(parts, " ")
}

func c05DecToks(payload string) []c05Tok {
	var out []c05Tok
	if strings.TrimSpace(payload) == "empty" {
		return nil
	}
	for _, f := range strings.Fields(payload) {
		k := strings.IndexByte(f, ':')
		if k < 0 {
			panic("bad token " + f)
		}
		v, err := decName(f[k+1:])
		must(err)
		if _, ok := c05KindNames[f[:k]]; !ok {
			panic("bad token kind " + f)
		}
		out = append(out, c05Tok{f[:k], v})
	}
	return out
}

// all sequences of exactly n tokens over alpha (only those the lexer reads back unchanged)
func c05Enumerate(alpha []c05Tok, n int, visit func([]c05Tok)) {
	cur := make([]c05Tok, n)
	var rec func(k int)
	rec = func(k int) {
		if k == n {
			if c05LexOK(cur) {
				visit(append([]c05Tok{}, cur...))
			}
			return
		}
		for _, t := range alpha {
			cur[k] = t
			rec(k + 1)
		}
	}
	rec(0)
}

// ---------------------------------------------------------------------------
// grammar-based generation of valid text, as token slices
// ---------------------------------------------------------------------------

type c05Gen struct {
	r *rand.Rand
}

var c05Atoms = []string{"a", "b", "foo", "bar", "[]", "{}", "'hello world'", "'\\n'", "'don''t'", "+", "-", "*", "é", "'[]'",
	// edge atoms: empty, single graphic / solo characters, operators of each class, atoms that need quotes
	"''", "''", "'\\\\'", "\\", "!", ";", "','", "'|'", "'.'", "mod", "\\+", "(:-)", "'A'", "'/*'", "'%'", "' '", "'\\x0\\'",
	"'" + strings.Repeat("xy", 300) + "'"}
var c05Functors = []string{"f", "g", "foo", "point", "'a b'", "-", "+", "''", "'\\\\'", "'[]'", "'{}'", "';'", "'!'", "mod", "'|'"}
var c05Vars = []string{"X", "Y", "_", "_Z", "Xs"}
var c05Ints = []string{"0", "1", "42", "0'a", "0' ", "0'''", "0x1F", "0b101", "0o17", "9223372036854775807", "9223372036854775808", "123456789012345678901234567890", "007"}
var c05Floats = []string{"1.5", "0.0", "1.0e10", "2.5E-3", "1.0Inf", "1.7976931348623157e308", "1.0e400"}
var c05Strings = []string{`"abc"`, `""`, `"a\nb"`, `"q""q"`, `"\x41\"`}
var c05Infix = []string{"+", "-", "*", "/", "=", "is", "mod", ":-", "-->", ",", ";", "->", "^", "**", "<", "=..", "|", ">>", "\\=="}
var c05Prefix = []string{"-", "+", "\\+", "\\", ":-", "?-"}

func (g *c05Gen) term(depth int) []string {
	r := g.r
	if depth <= 0 {
		switch r.Intn(6) {
		case 0:
			return []string{pick(r, c05Vars)}
		case 1:
			return []string{pick(r, c05Ints)}
		case 2:
			return []string{pick(r, c05Floats)}
		case 3:
			return []string{pick(r, c05Strings)}
		default:
			return []string{pick(r, c05Atoms)}
		}
	}
	switch r.Intn(10) {
	case 0, 1: // compound in functional notation
		out := []string{pick(r, c05Functors), "(CT"}
		n := 1 + r.Intn(3)
		for i := 0; i < n; i++ {
			if i > 0 {
				out = append(out, ",")
			}
			out = append(out, g.arg(depth-1)...)
		}
		return append(out, ")")
	case 2: // list
		out := []string{"["}
		n := r.Intn(4)
		for i := 0; i < n; i++ {
			if i > 0 {
				out = append(out, ",")
			}
			out = append(out, g.arg(depth-1)...)
		}
		if n > 0 && r.Intn(3) == 0 {
			out = append(out, "|")
			out = append(out, g.arg(depth-1)...)
		}
		return append(out, "]")
	case 3: // curly
		return append(append([]string{"{"}, g.term(depth-1)...), "}")
	case 4: // parenthesised
		return append(append([]string{"("}, g.term(depth-1)...), ")")
	case 5: // prefix operator
		return append([]string{pick(r, c05Prefix)}, g.term(depth-1)...)
	case 6, 7: // infix operator (operands parenthesised half of the time, so most texts are valid)
		l, rr := g.term(depth-1), g.term(depth-1)
		if r.Intn(2) == 0 {
			l = append(append([]string{"("}, l...), ")")
			rr = append(append([]string{"("}, rr...), ")")
		}
		return append(append(l, pick(r, c05Infix)), rr...)
	default:
		return g.term(0)
	}
}

func (g *c05Gen) arg(depth int) []string {
	t := g.term(depth)
	if g.r.Intn(3) == 0 {
		return append(append([]string{"("}, t...), ")")
	}
	return t
}

// safe goals only: nothing that ends the process, loops, or touches files
var c05Goals = []string{"true", "fail", "X = Y", "atom ( X )", "X is 1 + 2", "atom_length ( abc , N )", "member ( X , [ a , b ] )",
	"append ( X , Y , [ a ] )", "\\+ fail", "findall ( X , member ( X , [ 1 , 2 ] ) , L )", "catch ( throw ( e ) , _ , true )",
	"call ( true )", "length ( L , 2 )", "foo ( X )", "X = \"abc\"", "atom_codes ( A , \"ab\" )", "number_codes ( N , \" 12\" )",
	"dynamic ( foo / 1 )", "assertz ( foo ( 1 ) )", "op ( 700 , xfx , === )", "X == Y", "functor ( T , f , 3 )",
	// the empty atom and other edge atoms as goal, evaluable, operand, functor, predicate indicator
	"''", "'' ( a )", "X is '' + 1", "X is - ''", "write ( a = '' )", "write ( '' / 0 )", "print ( - '' )", "X = '' / 0", "atom_length ( '' , N )",
	"catch ( '' , E , true )", "atom_to_term ( '' , T , B )", "X = [ '' :- '' ]", "write_canonical ( [ '' , ! , ; , '|' , {} ] )",
	"'\\\\' ( a )", "X = 'hello_World' ( '' )", "dynamic ( '' / 0 )", "assertz ( '' )", "assertz ( '' ( '' ) )",
	// lists / compounds holding variables bound by an earlier goal of the conjunction, the result traversed afterwards
	"T = [ b ] , append ( [ a | T ] , [ c ] , Z )", "T = [ b ] , append ( [ a | T ] , [ c ] , Z ) , length ( Z , N )",
	"T = [ b | U ] , U = [ c ] , append ( [ a | T ] , Y , Z ) , Y = [ d ] , sort ( Z , S )", "T = \"bc\" , atom_chars ( A , [ a | T ] )",
	"T = [ ] , append ( [ a | T ] , [ c ] , Z ) , Z =.. L", "E = b , sort ( [ c , E , a ] , L ) , atom_chars ( A , L )", "T = [ 2 ] , length ( [ 1 | T ] , N )",
	"V = g ( x ) , X = f ( V ) , X =.. L , copy_term ( X , C )", "T = [ b ] , findall ( Z , append ( [ a | T ] , [ c ] , Z ) , L )",
	"assertz ( ( q ( X , Z ) :- append ( [ a | X ] , [ c ] , Z ) , length ( Z , _ ) ) ) , q ( [ b ] , R )",
	"T = [ b ] , append ( X , [ c ] , [ a | T ] )", "T = [ b - 2 ] , keysort ( [ a - 1 | T ] , L )", "T = [ b ] , nth0 ( 1 , [ a | T ] , E )", "T = [ b ] , member ( M , [ a | T ] )",
	// enumeration up to a boundary integer, exhausted
	"between ( 9223372036854775806 , 9223372036854775807 , X )", "findall ( X , between ( 9223372036854775806 , 9223372036854775807 , X ) , L )",
	"\\+ call ( ( between ( 9223372036854775807 , 9223372036854775807 , X ) , X < 0 ) )", "length ( L , 0 )", "succ ( X , 9223372036854775807 )"}

// goalToks: the tokens of a goal; "(" after a name is functional notation
func goalToks(g string) []string { return strings.Fields(strings.ReplaceAll(g, " ( ", " (CT ")) }

func (g *c05Gen) clause() []string {
	r := g.r
	var out []string
	switch r.Intn(6) {
	case 0: // directive
		out = append([]string{":-"}, goalToks(pick(r, c05Goals))...)
	case 1: // goal-like (query text)
		out = goalToks(pick(r, c05Goals))
		for r.Intn(2) == 0 {
			out = append(append(out, ","), goalToks(pick(r, c05Goals))...)
		}
	case 2: // DCG rule
		out = append([]string{pick(r, c05Functors[:4]), "-->"}, g.term(1)...)
	default:
		head := []string{pick(r, c05Functors[:4])}
		if r.Intn(3) > 0 {
			head = append(head, "(CT")
			n := 1 + r.Intn(3)
			for i := 0; i < n; i++ {
				if i > 0 {
					head = append(head, ",")
				}
				head = append(head, g.arg(1+r.Intn(2))...)
			}
			head = append(head, ")")
		}
		out = head
		if r.Intn(2) == 0 {
			out = append(out, ":-")
			out = append(out, goalToks(pick(r, c05Goals))...)
			for r.Intn(3) == 0 {
				out = append(append(out, ","), g.term(1)...)
			}
		}
	}
	return append(out, ".")
}

// join renders generator tokens: "(CT" is "(" glued to the functor; layout between the others varies
func c05Join(r *rand.Rand, toks []string) string {
	var sb strings.Builder
	for i, t := range toks {
		if t == "(CT" {
			sb.WriteString("(")
			continue
		}
		if i > 0 {
			switch r.Intn(12) {
			case 0:
				sb.WriteString("\n")
			case 1:
				sb.WriteString(" /* c */ ")
			case 2:
				sb.WriteString(" % c\n")
			case 3:
				sb.WriteString("\t")
			default:
				sb.WriteString(" ")
			}
		}
		sb.WriteString(t)
	}
	return sb.String()
}

var c05Inject = []string{"(", ")", "[", "]", "{", "}", ",", "|", "'", "\"", "`", "!", ";", "%", "/*", "*/", ".", "0'", "\\", "0x", "1.", "e", "\x00", " "}

func (g *c05Gen) mutateTokens(toks []string) []string {
	r := g.r
	out := append([]string{}, toks...)
	if len(out) == 0 {
		return out
	}
	k := r.Intn(len(out))
	switch r.Intn(5) {
	case 0: // delete
		out = append(out[:k], out[k+1:]...)
	case 1: // duplicate
		out = append(out[:k+1], out[k:]...)
	case 2: // replace by another token of the text or of the alphabet
		if r.Intn(2) == 0 {
			out[k] = out[r.Intn(len(out))]
		} else {
			out[k] = pick(r, c05Wide).val
		}
	case 3: // inject a solo / bracket / quote character
		out = append(out[:k], append([]string{pick(r, c05Inject)}, out[k:]...)...)
	default: // swap
		j := r.Intn(len(out))
		out[k], out[j] = out[j], out[k]
	}
	return out
}

func c05RawBytes(r *rand.Rand) string {
	n := r.Intn(24)
	b := make([]byte, n)
	for i := range b {
		switch r.Intn(4) {
		case 0:
			b[i] = byte(r.Intn(256)) // includes invalid UTF-8
		case 1:
			const solo = "()[]{},|'\"`!;%. \n\\"
			b[i] = solo[r.Intn(len(solo))]
		default:
			const plain = "abcXY_019+-*/=:<>.e"
			b[i] = plain[r.Intn(len(plain))]
		}
	}
	return string(b)
}

func genC05Text(r *rand.Rand, n int, tier string) []string {
	g := &c05Gen{r: r}
	seen := map[string]bool{}
	var out []string
	add := func(kind, s string) {
		if strings.Contains(s, "halt") || strings.Contains(s, "repeat") { // never generated on purpose; belt and braces
			return
		}
		if !seen[s] {
			seen[s] = true
			out = append(out, kind+" T"+encName(s))
		}
	}
	// exhaustive small scope: every token string of length ≤ k over the 16-token alphabet
	k := 3
	if tier == "thorough" {
		k = 4
	}
	add("ex", "")
	for l := 1; l <= k; l++ {
		c05Enumerate(c05Small, l, func(toks []c05Tok) { add("ex", c05Render(toks)) })
	}
	nload := 150
	if tier == "thorough" {
		nload = 3000
	}
	out = append(out, genC05Load(r, nload)...)
	base := len(out)
	for len(out)-base < n {
		toks := g.clause()
		for r.Intn(3) == 0 {
			toks = append(toks, g.clause()...)
		}
		text := c05Join(r, toks)
		switch r.Intn(20) {
		case 0, 1, 2, 3, 4:
			add("valid", text)
		case 5: // truncation at every byte offset (quick tier: 10 random offsets)
			if tier == "thorough" && r.Intn(4) == 0 {
				for cut := 0; cut < len(text) && len(out)-base < n; cut++ {
					add("trunc", text[:cut])
				}
			} else {
				for k := 0; k < 10; k++ {
					add("trunc", text[:r.Intn(len(text)+1)])
				}
			}
		case 6, 7:
			add("raw", c05RawBytes(r))
		case 8, 9, 10: // a raw byte inserted / replaced at a random offset
			b := []byte(text)
			if len(b) > 0 {
				p := r.Intn(len(b))
				if r.Intn(2) == 0 {
					b[p] = byte(r.Intn(256))
				} else {
					b = append(b[:p], append([]byte{byte(r.Intn(256))}, b[p:]...)...)
				}
			}
			add("byte", string(b))
		case 11: // truncation at one random offset
			add("trunc", text[:r.Intn(len(text)+1)])
		default:
			m := g.mutateTokens(toks)
			for r.Intn(3) == 0 {
				m = g.mutateTokens(m)
			}
			add("mut", c05Join(r, m))
		}
	}
	return out
}

// c05TextResult classifies the outcome of Query / Exec on a text.
func c05TextResult(ok bool, err error) string {
	if err == nil {
		if ok {
			return "ok"
		}
		return "fail"
	}
	if errors.Is(err, context.DeadlineExceeded) {
		return "TIMEOUT"
	}
	var ex engine.Exception
	if errors.As(err, &ex) {
		return c05ErrWire(err)
	}
	msg := err.Error()
	switch {
	case msg == "not enough arguments for placeholders": // the text contains the atom `?` and no arguments were passed
		return "syn"
	case strings.HasPrefix(msg, "panic:"):
		return "panic " + encName(msg)
	case err == io.EOF, strings.HasPrefix(msg, "unexpected token"), msg == "expectation error":
		return "syn"
	case strings.HasPrefix(msg, "failed initialization goal"), strings.HasPrefix(msg, "failed directive"):
		return "faildir"
	case strings.HasSuffix(msg, " is discontiguous"): // text.go discontiguousError: the loader's own report
		return "loaderr"
	}
	return "goerr " + encName(msg)
}

func runC05Text(payload string) string {
	c05Dir()
	f := strings.Fields(payload)
	if len(f) > 0 && f[0] == "load" {
		return runC05Load(f[1:])
	}
	if len(f) != 2 || !strings.HasPrefix(f[1], "T") {
		panic("bad c05.text case: " + payload)
	}
	text, err := decName(f[1][1:])
	must(err)

	// the host-side API surface on everything that comes back (first problem wins)
	host := ""
	note := func(r string) {
		if host == "" && r != "" {
			host = r
		}
	}
	// Query: up to 20 answers and one more Next after the last; every answer scanned as the caller would
	var q string
	{
		i, _ := newInterp("")
		ctx, cancel := context.WithTimeout(context.Background(), c05GoalTimeout)
		sols, err := i.QueryContext(ctx, text)
		if err != nil {
			q = c05TextResult(false, err)
			note(hostRenderErr(err))
		} else {
			n := 0
			for n < 20 && sols.Next() {
				n++
				if n <= 3 {
					note(hostDo("Solutions.Scan(map[string]TermString)", func() {
						m := map[string]prolog.TermString{}
						_ = sols.Scan(m)
						_ = fmt.Sprintf("%v %s", m, m)
					}))
					note(hostDo("Solutions.Scan(map[string]interface{})", func() {
						m := map[string]interface{}{}
						_ = sols.Scan(m)
						_ = fmt.Sprintf("%v %+v", m, m)
					}))
					// every other destination type Scan supports (a value that does not fit is a conversion error)
					note(hostDo("Solutions.Scan(map[string][]interface{})", func() { _ = sols.Scan(map[string][]interface{}{}) }))
					note(hostDo("Solutions.Scan(map[string][]string)", func() { _ = sols.Scan(map[string][]string{}) }))
					note(hostDo("Solutions.Scan(map[string][]int)", func() { _ = sols.Scan(map[string][]int{}) }))
					note(hostDo("Solutions.Scan(map[string]string)", func() { _ = sols.Scan(map[string]string{}) }))
					note(hostDo("Solutions.Scan(map[string]int64)", func() { _ = sols.Scan(map[string]int64{}) }))
					note(hostDo("Solutions.Scan(map[string]float64)", func() { _ = sols.Scan(map[string]float64{}) }))
					note(hostDo("Solutions.Scan(map[string]engine.Term)", func() {
						m := map[string]engine.Term{}
						_ = sols.Scan(m)
						for _, t := range m {
							var ts prolog.TermString
							_ = ts.Scan(&i.VM, t, nil)
						}
					}))
				}
			}
			q = c05TextResult(n > 0, sols.Err())
			note(hostRenderErr(sols.Err()))
			// a host that keeps polling after the end (or cleans up twice) must get its calls back: Next,
			// Err and Close after the search is over return at once, whatever ended it
			if n < 20 {
				note(hostReturns("Solutions.Next/Err/Close after the end", func() {
					for k := 0; k < 3; k++ {
						_ = sols.Next()
						_ = sols.Err()
					}
					_ = sols.Close()
					_ = sols.Next()
					_ = sols.Close()
				}))
			} else {
				_ = sols.Close()
			}
		}
		cancel()
	}
	// Exec
	var e string
	{
		i, _ := newInterp("")
		ctx, cancel := context.WithTimeout(context.Background(), c05GoalTimeout)
		err := i.ExecContext(ctx, text)
		e = c05TextResult(true, err)
		note(hostRenderErr(err))
		cancel()
	}
	// read/1 from user_input holding the text (twice: the second read continues where the first stopped)
	var rd string
	{
		i, _ := newInterp(text)
		ctx, cancel := context.WithTimeout(context.Background(), c05GoalTimeout)
		ok := false
		_, err := engine.Call(&i.VM, compound(",", compound("read", engine.NewVariable()), compound("read", engine.NewVariable())),
			func(*engine.Env) *engine.Promise { ok = true; return engine.Bool(true) }, nil).Force(ctx)
		rd = c05TextResult(ok, err)
		note(hostRenderErr(err))
		cancel()
	}
	if host == "" {
		host = "ok"
	}
	nt := 0
	if q != "ok" || e != "ok" || rd != "ok" {
		nt = 1 // an error path of the reader or of the loader was taken
	}
	qc, ec, rc := strings.Fields(q)[0], strings.Fields(e)[0], strings.Fields(rd)[0]
	return fmt.Sprintf("q %s ; e %s ; r %s ; host %s ### nt=%d kind=%s q=%s e=%s r=%s host=%s", q, e, rd, host, nt, f[0], qc, ec, rc, strings.Fields(host)[0])
}

// ---------------------------------------------------------------------------
// c05.parse
// ---------------------------------------------------------------------------

func (g *c05Gen) wideSeq() []c05Tok {
	r := g.r
	// mostly-valid: render a generated clause to text and lex it back; else a random walk over the alphabet
	if r.Intn(3) > 0 {
		toks := g.clause()
		for r.Intn(3) == 0 {
			toks = g.mutateTokens(toks)
		}
		real, _ := engine.VerifTokens(c05Join(rand.New(rand.NewSource(1)), toks))
		var out []c05Tok
		for _, t := range real {
			out = append(out, c05Tok{c05KindCodes[t.Kind], t.Val})
		}
		return out
	}
	n := 1 + r.Intn(10)
	out := make([]c05Tok, n)
	for i := range out {
		if r.Intn(3) == 0 {
			out[i] = pick(r, c05Small)
		} else {
			out[i] = pick(r, c05Wide)
		}
	}
	return out
}

// c05ModelOK: restrict c05.parse to token values whose conversion the token-level model covers
// (no escapes in quoted items, small decimal integers, the listed float literals).
func c05ModelOK(toks []c05Tok) bool {
	for _, t := range toks {
		switch t.kind {
		case "q", "dq":
			if strings.ContainsAny(t.val[1:len(t.val)-1], "\\'\"") {
				return false
			}
		case "int":
			if len(t.val) > 15 || strings.Trim(t.val, "0123456789") != "" {
				return false
			}
		case "flt":
			if t.val != "1.5" && t.val != "2.0" {
				return false
			}
		}
	}
	return true
}

func genC05Parse(r *rand.Rand, n int, tier string) []string {
	g := &c05Gen{r: r}
	seen := map[string]bool{}
	var out []string
	add := func(toks []c05Tok) {
		if !c05ModelOK(toks) || !c05LexOK(toks) {
			return
		}
		s := c05EncToks(toks)
		if !seen[s] {
			seen[s] = true
			out = append(out, s)
		}
	}
	k := 3
	if tier == "thorough" {
		k = 4
	}
	add(nil)
	for l := 1; l <= k; l++ {
		c05Enumerate(c05Small, l, add)
	}
	base := len(out)
	for tries := 0; len(out)-base < n && tries < 50*n+1000; tries++ {
		add(g.wideSeq())
	}
	return out
}

func c05ParseErr(err error) string {
	var ex engine.Exception
	switch {
	case err == io.EOF:
		return "eof"
	case errors.As(err, &ex):
		return errWire(err)
	}
	msg := err.Error()
	if strings.HasPrefix(msg, "unexpected token: ") {
		// "unexpected token: <kind>(<val>)"
		rest := strings.TrimPrefix(msg, "unexpected token: ")
		k := strings.IndexByte(rest, '(')
		return "unexp " + encName(rest[:k]) + " " + encName(rest[k+1:len(rest)-1]) + "$"
	}
	return "goerr " + encName(msg)
}

var c05ParseVMOnce sync.Once
var c05ParseVMv *engine.VM

// one shared VM (default operator table); the parser only reads it
func c05ParseVM() *engine.VM {
	c05ParseVMOnce.Do(func() {
		i, _ := newInterp("")
		c05ParseVMv = &i.VM
	})
	return c05ParseVMv
}

func runC05Parse(payload string) string {
	toks := c05DecToks(payload)
	text := c05Render(toks)
	if !c05LexOK(toks) {
		return "LEXDIFF ### nt=0"
	}
	p := engine.NewParser(c05ParseVM(), strings.NewReader(text))
	var res []string
	oks, errs := 0, 0
	for n := 0; n < 6 && p.More(); n++ {
		t, err := p.Term()
		if err != nil {
			res = append(res, c05ParseErr(err))
			errs++
			break
		}
		res = append(res, "ok "+wire(t, nil, newVarNamer()))
		oks++
	}
	if len(res) == 0 {
		res = append(res, "none")
	}
	nt := 0
	if len(toks) >= 2 {
		nt = 1
	}
	return fmt.Sprintf("%s ### nt=%d len=%d oks=%d errs=%d", strings.Join(res, " ; "), nt, len(toks), oks, errs)
}

// ---------------------------------------------------------------------------
// loader cases of c05.text: a file system in memory (fstest.MapFS assigned to the interpreter's FS) and an
// action — consult(File) or Exec(text) — over files that include / ensure_loaded / consult each other.
//   payload:  load F<name>:T<enc text> … (C<file> | X<enc text>)
// ---------------------------------------------------------------------------

func c05LoadCase(files map[string]string, order []string, action string) string {
	var sb strings.Builder
	sb.WriteString("load")
	for _, n := range order {
		sb.WriteString(" F" + n + ":T" + encName(files[n]))
	}
	sb.WriteString(" " + action)
	return sb.String()
}

func genC05Load(r *rand.Rand, n int) []string {
	var out []string
	fixed := []struct {
		files  map[string]string
		action string
	}{
		{map[string]string{"a.pl": ":- include(a)."}, "Ca"},                                                        // self include
		{map[string]string{"a.pl": ":- include(a)."}, "X" + encName(":- include(a).")},                             // … from Exec
		{map[string]string{"a.pl": "p(1). :- include('a.pl'). p(2)."}, "Ca"},                                       // … by its full name
		{map[string]string{"a.pl": ":- include(b).", "b.pl": ":- include(a)."}, "Ca"},                              // 2-cycle
		{map[string]string{"a.pl": "a. :- include(b).", "b.pl": "b. :- include(c).", "c.pl": "c. :- include(a)."}, "Ca"}, // 3-cycle
		{map[string]string{"a.pl": ":- include(b).", "b.pl": ":- ensure_loaded(a)."}, "Ca"},                        // include of a file that ensure_loaded's the includer
		{map[string]string{"a.pl": ":- ensure_loaded(b).", "b.pl": ":- include(a)."}, "Ca"},
		{map[string]string{"a.pl": ":- include(b).", "b.pl": ":- consult(a)."}, "Ca"},
		{map[string]string{"a.pl": ":- initialization(consult(a))."}, "Ca"},
		{map[string]string{"a.pl": "a. :- include(b). a2.", "b.pl": "b. :- include(c).", "c.pl": "c."}, "Ca"},      // a chain, no cycle
		{map[string]string{"a.pl": ":- include(b). :- include(c).", "b.pl": ":- include(d).", "c.pl": ":- include(d).", "d.pl": "d."}, "Ca"}, // diamond
		{map[string]string{"a.pl": ":- include(b). :- include(b).", "b.pl": ":- dynamic(q/1). q(1)."}, "Ca"},       // the same file twice, no cycle
		{map[string]string{"a.pl": ":- include(nofile)."}, "Ca"},
		{map[string]string{"a.pl": ":- include(X)."}, "Ca"},
		{map[string]string{"a.pl": ":- include(1)."}, "Ca"},
		{map[string]string{"a.pl": ":- include([a])."}, "Ca"},
		{map[string]string{"a.pl": ":- include('')."}, "Ca"},
		{map[string]string{"a.pl": ":- ensure_loaded(a)."}, "Ca"},
		{map[string]string{"a.pl": ":- consult(a)."}, "Ca"},
		{map[string]string{"a.pl": ":- [a]."}, "Ca"},
	}
	for _, c := range fixed {
		var order []string
		for _, nm := range []string{"a.pl", "b.pl", "c.pl", "d.pl"} {
			if _, ok := c.files[nm]; ok {
				order = append(order, nm)
			}
		}
		out = append(out, c05LoadCase(c.files, order, c.action))
	}
	// random load graphs over four files
	names := []string{"a", "b", "c", "d"}
	for k := 0; k < n; k++ {
		files := map[string]string{}
		var order []string
		nf := 1 + r.Intn(4)
		for fi := 0; fi < nf; fi++ {
			var sb strings.Builder
			for l := r.Intn(4); l >= 0; l-- {
				target := names[r.Intn(nf)]
				switch r.Intn(9) {
				case 0, 1, 2:
					fmt.Fprintf(&sb, ":- include(%s). ", target)
				case 3:
					fmt.Fprintf(&sb, ":- ensure_loaded(%s). ", target)
				case 4:
					fmt.Fprintf(&sb, ":- consult(%s). ", target)
				case 5:
					fmt.Fprintf(&sb, ":- initialization(consult(%s)). ", target)
				case 6:
					fmt.Fprintf(&sb, ":- include('%s.pl'). ", target)
				default:
					fmt.Fprintf(&sb, "%s(%d). ", names[fi], l)
				}
			}
			files[names[fi]+".pl"] = sb.String()
			order = append(order, names[fi]+".pl")
		}
		action := "C" + names[r.Intn(nf)]
		if r.Intn(4) == 0 {
			action = "X" + encName(fmt.Sprintf(":- include(%s).", names[r.Intn(nf)]))
		}
		out = append(out, c05LoadCase(files, order, action))
	}
	return out
}

func runC05Load(f []string) string {
	fsys := fstest.MapFS{}
	action := ""
	for _, w := range f {
		switch {
		case strings.HasPrefix(w, "F"):
			k := strings.Index(w, ":T")
			if k < 0 {
				panic("bad load case: " + w)
			}
			text, err := decName(w[k+2:])
			must(err)
			fsys[w[1:k]] = &fstest.MapFile{Data: []byte(text)}
		default:
			action = w
		}
	}
	i, _ := newInterp("")
	i.FS = fsys
	ctx, cancel := context.WithTimeout(context.Background(), c05GoalTimeout)
	defer cancel()
	var res string
	var err error
	switch {
	case strings.HasPrefix(action, "C"):
		ok := false
		_, err = engine.Call(&i.VM, compound("consult", atom(action[1:])), func(*engine.Env) *engine.Promise {
			ok = true
			return engine.Bool(true)
		}, nil).Force(ctx)
		res = c05TextResult(ok, err)
	case strings.HasPrefix(action, "X"):
		text, derr := decName(action[1:])
		must(derr)
		err = i.ExecContext(ctx, text)
		res = c05TextResult(true, err)
	default:
		panic("bad load action: " + action)
	}
	host := hostRenderErr(err)
	if host == "" {
		host = "ok"
	}
	nt := 0
	if res != "ok" {
		nt = 1
	}
	return fmt.Sprintf("l %s ; host %s ### nt=%d kind=load l=%s files=%d", res, host, nt, strings.Fields(res)[0], len(fsys))
}
