/-
  Integers: `strconv.FormatInt` followed by the lexer and `integer()` is the identity on int64.
-/
import PrologVerif.Proofs.LexerSpec
import PrologVerif.Model.Write
set_option linter.unusedSimpArgs false
set_option linter.unusedVariables false
namespace PrologVerif.Write
open PrologVerif PrologVerif.Lexer PrologVerif.Read

/-- a decimal digit character -/
def DecD (d : Char) : Prop := ∃ k, k < 10 ∧ d = Char.ofNat (48 + k)

theorem decD_facts (k : Nat) (h : k < 10) :
    isDecimalDigitChar (Char.ofNat (48 + k)) = true ∧ hexDigitVal (Char.ofNat (48 + k)) = k ∧
    Char.ofNat (48 + k) ≠ '\'' ∧ Char.ofNat (48 + k) ≠ 'b' ∧ Char.ofNat (48 + k) ≠ 'o' ∧
    Char.ofNat (48 + k) ≠ 'x' ∧ Char.ofNat (48 + k) ≠ '.' := by
  have h10 : k = 0 ∨ k = 1 ∨ k = 2 ∨ k = 3 ∨ k = 4 ∨ k = 5 ∨ k = 6 ∨ k = 7 ∨ k = 8 ∨ k = 9 := by omega
  rcases h10 with h|h|h|h|h|h|h|h|h|h <;> subst h <;> exact ⟨rfl, rfl, by decide, by decide, by decide, by decide, by decide⟩

def decVal (ds : List Char) : Nat := ds.foldl (fun acc c => acc * 10 + hexDigitVal c) 0

theorem foldl_dec (ds : List Char) (a : Nat) :
    ds.foldl (fun acc c => acc * 10 + hexDigitVal c) a = a * 10 ^ ds.length + decVal ds := by
  induction ds generalizing a with
  | nil => simp [decVal]
  | cons d ds ih =>
    simp only [List.foldl_cons, List.length_cons, decVal]
    rw [ih, ih (0 * 10 + hexDigitVal d)]
    simp [Nat.pow_succ, Nat.add_mul, Nat.mul_assoc, Nat.mul_comm 10, Nat.add_assoc]

theorem decVal_append (xs ys : List Char) : decVal (xs ++ ys) = decVal xs * 10 ^ ys.length + decVal ys := by
  unfold decVal
  rw [List.foldl_append, foldl_dec]
  rfl

theorem decDigitsAux_spec (fuel n : Nat) (acc : List Char) (h : n < 10 ^ fuel) (hf : 0 < fuel) :
    ∃ ds, decDigitsAux fuel n acc = ds ++ acc ∧ ds ≠ [] ∧ (∀ d ∈ ds, DecD d) ∧ decVal ds = n := by
  induction fuel generalizing n acc with
  | zero => omega
  | succ fuel ih =>
    unfold decDigitsAux
    split
    · rename_i hlt
      refine ⟨[Char.ofNat (48 + n)], rfl, by simp, ?_, ?_⟩
      · intro d hd; simp at hd; exact ⟨n, hlt, hd⟩
      · simp [decVal, (decD_facts n hlt).2.1]
    · rename_i hge
      have hn : n / 10 < 10 ^ fuel := by
        rw [Nat.div_lt_iff_lt_mul (by decide)]
        rw [Nat.pow_succ] at h; exact h
      have hfu : 0 < fuel := by
        rcases fuel with _ | f
        · simp at h; omega
        · omega
      obtain ⟨ds, h1, h2, h3, h4⟩ := ih (n / 10) (Char.ofNat (48 + n % 10) :: acc) hn hfu
      have hm : n % 10 < 10 := Nat.mod_lt _ (by decide)
      refine ⟨ds ++ [Char.ofNat (48 + n % 10)], by simp [h1], by simp, ?_, ?_⟩
      · intro d hd
        simp at hd
        rcases hd with hd | hd
        · exact h3 d hd
        · exact ⟨n % 10, hm, hd⟩
      · rw [decVal_append, h4]
        simp [decVal, (decD_facts _ hm).2.1]
        omega

theorem decDigits_spec (n : Nat) (h : n < 10 ^ 20) :
    decDigits n ≠ [] ∧ (∀ d ∈ decDigits n, DecD d) ∧ decVal (decDigits n) = n := by
  obtain ⟨ds, h1, h2, h3, h4⟩ := decDigitsAux_spec 20 n [] h (by decide)
  simp only [List.append_nil] at h1
  unfold decDigits
  rw [h1]
  exact ⟨h2, h3, h4⟩

/-! ## `integer()` on decimal digits -/

theorem decD_not (d : Char) (h : DecD d) :
    d ≠ '\'' ∧ d ≠ 'b' ∧ d ≠ 'o' ∧ d ≠ 'x' ∧ d ≠ '.' ∧ isDecimalDigitChar d = true := by
  obtain ⟨k, hk, rfl⟩ := h
  obtain ⟨a, _, b, c, d, e, f⟩ := decD_facts k hk
  exact ⟨b, c, d, e, f, a⟩

theorem radixOf_decimal (s : List Char) (hs : ∀ d ∈ s, DecD d) : radixOf s = (10, s) := by
  unfold radixOf
  split
  · exact absurd rfl (decD_not 'b' (hs _ (by simp))).2.1
  · exact absurd rfl (decD_not 'o' (hs _ (by simp))).2.2.1
  · exact absurd rfl (decD_not 'x' (hs _ (by simp))).2.2.2.1
  · rfl

theorem trunc64_small (v : Nat) (h : v < 2 ^ 64) : trunc64 v = v := by
  unfold trunc64
  have : Nat.log2 v + 1 - 64 = 0 := by
    by_cases h0 : v = 0
    · subst h0; decide
    · have := (Nat.log2_lt h0).2 h; omega
  simp [this]

theorem natOfDigits_dec (s : List Char) : natOfDigits 10 s = decVal s := rfl

/-- `integer(sign, digits)` on the decimal digits of `n < 2^64` is `sign·n`, range-checked -/
theorem integer_decDigits (sign : Int) (n : Nat) (h : n < 2 ^ 64) :
    integer sign (decDigits n) = toInt64 (sign * (n : Nat)) := by
  obtain ⟨h1, h2, h3⟩ := decDigits_spec n (by omega)
  have hrad := radixOf_decimal _ h2
  unfold integer
  split
  · rename_i cs heq
    have : ('\'' : Char) ∈ decDigits n := by rw [heq]; simp
    exact absurd rfl (decD_not '\'' (h2 _ this)).1
  · rw [hrad]
    simp only [natOfDigits_dec, h3, trunc64_small n h]

/-- P0: `parseInteger (formatInt i) = i` for every 64-bit integer: the digits `FormatInt` prints, read
    by `integer()` with the sign the parser passes (`-1` when the digits follow the atom `-`) -/
theorem integer_formatInt (i : Int) (hlo : -9223372036854775808 ≤ i) (hhi : i ≤ 9223372036854775807) :
    integer (if i < 0 then -1 else 1) (decDigits i.natAbs) = .ok i := by
  rw [integer_decDigits _ _ (by omega)]
  unfold toInt64
  by_cases hneg : i < 0
  · have e : (-1 : Int) * (i.natAbs : Nat) = i := by omega
    simp only [hneg, if_true, e]
    rw [if_neg (by omega), if_neg (by omega)]
  · have e : (1 : Int) * (i.natAbs : Nat) = i := by omega
    simp only [hneg, if_false, e]
    rw [if_neg (by omega), if_neg (by omega)]

end PrologVerif.Write
