/-
  Model/Api — Go values crossing the API.

  * `termOf`            engine/parser.go `Parser.termOf` (called by `SetPlaceholder` for every argument)
  * `unDQ`              engine/parser.go `unDoubleQuote` (the regexp `doubleQuotedEscapePattern` + `doubleQuotedUnescape`)
  * `term0 … parseTop`  the operand level of engine/parser.go: `term0`, `term0Atom` (with the placeholder
                        queue `Parser.args`), `functionalNotation`, `list`, `openClose`, `integer`, and the
                        end / left-over checks of `Parser.Term`, over an already tokenised input and with an
                        EMPTY operator table (operators are the business of the reader model of C06)
  * `conv`              solutions.go `convertAssign*` with explicit integer widths

  Core Lean only.
-/
import PrologVerif.Basic
namespace PrologVerif.Api
open PrologVerif

deriving instance DecidableEq for Except

/-! ## Go values -/

/-- the `double_quotes` flag (`doubleQuotes` of parser.go) -/
inductive DQ where
  | chars | codes | atom
  deriving DecidableEq, Repr

/-- signed integer kinds -/
inductive IntKind where
  | int | int8 | int16 | int32 | int64
  deriving DecidableEq, Repr

/-- width in bits (`int` is 64 bits on the platforms the check runs on; recorded as an assumption) -/
def IntKind.bits : IntKind → Nat
  | .int => 64 | .int8 => 8 | .int16 => 16 | .int32 => 32 | .int64 => 64

def minOf (bits : Nat) : Int := -(2 ^ (bits - 1) : Nat)
def maxOf (bits : Nat) : Int := (2 ^ (bits - 1) : Nat) - 1

def InRange (bits : Nat) (v : Int) : Prop := minOf bits ≤ v ∧ v ≤ maxOf bits

instance (bits : Nat) (v : Int) : Decidable (InRange bits v) := by unfold InRange; infer_instance

/-- Go's integer conversion `intN(x)`: keep the low `bits` bits, two's complement -/
def wrap (bits : Nat) (v : Int) : Int :=
  (v + (2 ^ (bits - 1) : Nat)) % (2 ^ bits : Nat) - (2 ^ (bits - 1) : Nat)

mutual
  inductive GoVal where
    | int (k : IntKind) (v : Int)
    | uint (v : Nat)                 -- any unsigned kind
    | float (bits : UInt64)          -- float64 (a float32 argument is widened exactly by reflect's Float())
    | str (s : String)
    | slice (vs : GoVals)            -- slice or array
    | nil                            -- nil interface (what Scan stores for an unbound variable)
    | other                          -- bool, map, struct, pointer, chan, func …
  inductive GoVals where
    | nil
    | cons (v : GoVal) (vs : GoVals)
end

deriving instance DecidableEq for GoVal, GoVals

def GoVals.ofList : List GoVal → GoVals
  | [] => .nil
  | v :: vs => .cons v (GoVals.ofList vs)

def GoVals.toList : GoVals → List GoVal
  | .nil => []
  | .cons v vs => v :: vs.toList

/-! ## termOf -/

/-- `CharList(s)` as an abstract term -/
def charList (s : List Char) : Term := Term.list (s.map fun c => .atom (String.singleton c))
/-- `CodeList(s)` as an abstract term -/
def codeList (s : List Char) : Term := Term.list (s.map fun c => .int c.toNat)

/-- what a double-quoted text means under the flag (term0 / atom of parser.go, and termOf) -/
def dqTerm (dq : DQ) (s : List Char) : Term :=
  match dq with
  | .codes => codeList s
  | .atom => .atom (String.ofList s)
  | .chars => charList s

mutual
  /-- `Parser.termOf` -/
  def termOf (dq : DQ) : GoVal → Except String Term
    | .float b => .ok (.flt b)
    | .int _ v => .ok (.int v)
    | .str s => .ok (dqTerm dq s.toList)
    | .slice vs => (termsOf dq vs).map fun ts => Term.list ts
    | .uint _ => .error "can't convert to term"
    | .nil => .error "can't convert to term"
    | .other => .error "can't convert to term"
  def termsOf (dq : DQ) : GoVals → Except String (List Term)
    | .nil => .ok []
    | .cons v vs =>
      match termOf dq v with
      | .error e => .error e
      | .ok t =>
        match termsOf dq vs with
        | .error e => .error e
        | .ok ts => .ok (t :: ts)
end

/-- `SetPlaceholder`: all arguments are converted before parsing starts; the first failure aborts -/
def setPlaceholder (dq : DQ) : List GoVal → Except String (List Term)
  | [] => .ok []
  | v :: vs =>
    match termOf dq v with
    | .error e => .error e
    | .ok t =>
      match setPlaceholder dq vs with
      | .error e => .error e
      | .ok ts => .ok (t :: ts)

/-! ## unDoubleQuote -/

def isHex (c : Char) : Bool := (hexVal c).isSome
/-- the character class `[0-8]` of the pattern (sic: 8 is accepted by the pattern) -/
def isOct8 (c : Char) : Bool := '0' ≤ c && c ≤ '8'

def hexNum (cs : List Char) : Nat := cs.foldl (fun a c => a * 16 + (hexVal c).getD 0) 0
/-- `strconv.ParseInt(s, 8, 32)`: on a digit 8 the parse fails and Go returns 0 -/
def octNum (cs : List Char) : Nat :=
  if cs.any (· == '8') then 0 else cs.foldl (fun a c => a * 8 + (c.toNat - 48)) 0

/-- `string(rune(r))`: values that are not Unicode scalars become U+FFFD -/
def runeChar (n : Nat) : Char :=
  if h : n.isValidChar then ⟨n.toUInt32, by
    have : n < UInt32.size := by
      rcases h with h | h <;> simp [UInt32.size] at * <;> omega
    simpa [Nat.toUInt32, UInt32.isValidChar, UInt32.toNat_ofNat, Nat.mod_eq_of_lt this] using h⟩
  else '�'

/-- one-character escapes of `doubleQuotedUnescape` -/
def simpleEscape (c : Char) : Option (List Char) :=
  if c = '\n' then some []
  else if c = 'a' then some ['\x07'] else if c = 'b' then some ['\x08'] else if c = 'f' then some ['\x0c']
  else if c = 'n' then some ['\n'] else if c = 'r' then some ['\r'] else if c = 't' then some ['\t']
  else if c = 'v' then some ['\x0b']
  else if c = '\\' ∨ c = '\'' ∨ c = '"' ∨ c = '`' then some [c]
  else none

/-- `doubleQuotedEscapePattern.ReplaceAllStringFunc(body, doubleQuotedUnescape)`: scan left to right;
    where the pattern matches replace the match, otherwise copy one character -/
def unDQ : Nat → List Char → List Char
  | 0, cs => cs
  | _ + 1, [] => []
  | fuel + 1, c :: rest =>
    if c = '"' then
      match rest with
      | d :: rest' => if d = '"' then '"' :: unDQ fuel rest' else c :: unDQ fuel rest
      | [] => [c]
    else if c = '\\' then
      match rest with
      | [] => [c]
      | d :: rest' =>
        match simpleEscape d with
        | some out => out ++ unDQ fuel rest'
        | none =>
          if d = 'x' then
            let hs := rest'.takeWhile isHex
            match rest'.dropWhile isHex with
            | e :: rest'' =>
              if e = '\\' ∧ hs ≠ [] then runeChar (hexNum hs) :: unDQ fuel rest'' else c :: unDQ fuel rest
            | [] => c :: unDQ fuel rest
          else if isOct8 d then
            let os := rest.takeWhile isOct8
            match rest.dropWhile isOct8 with
            | e :: rest'' =>
              if e = '\\' then runeChar (octNum os) :: unDQ fuel rest'' else c :: unDQ fuel rest
            | [] => c :: unDQ fuel rest
          else c :: unDQ fuel rest
    else c :: unDQ fuel rest

/-- `unDoubleQuote` applied to the text between the quotes -/
def unDoubleQuote (body : List Char) : List Char := unDQ (body.length + 1) body

/-! ## tokens and the operand level of the reader -/

inductive Tok where
  | name (s : String)     -- letter-digit, graphic, `;`, `!` or quoted token (already unquoted)
  | var (n : Nat)         -- variable token (numbered by first occurrence)
  | int (n : Nat)         -- integer token (magnitude)
  | float (bits : UInt64) -- float token (non-negative)
  | dq (body : String)    -- double quoted list token: the raw text between the quotes
  | open | openCT | close | openList | closeList | comma | bar | end_
  deriving DecidableEq, Repr

inductive PErr where
  | unexpected            -- unexpectedTokenError / errExpectation / end of input
  | representation        -- integer literal outside the 64-bit range
  | fewArgs               -- errPlaceholder: "not enough arguments for placeholders"
  | manyArgs              -- "too many arguments for placeholders"
  | convert               -- termOf: "can't convert to term"
  deriving DecidableEq, Repr

/-- the parser state that matters here: remaining tokens and the argument queue `Parser.args` -/
structure PState where
  toks : List Tok
  args : List Term
  deriving DecidableEq

structure Cfg where
  dq : DQ
  /-- `Parser.placeholder` (none = no placeholder registered) -/
  ph : Option String

abbrev PRes := Except PErr (Term × PState)

/-- `integer(sign, s)`: representation error outside the 64-bit range -/
def integer (neg : Bool) (n : Nat) : Except PErr Term :=
  if neg then (if n ≤ 2 ^ 63 then .ok (.int (-(n : Int))) else .error .representation)
  else (if n < 2 ^ 63 then .ok (.int n) else .error .representation)

def negFloat (b : UInt64) : UInt64 := b ^^^ 0x8000000000000000

/-- the placeholder step at the end of `term0Atom` -/
def placeholderStep (cfg : Cfg) (t : Term) (st : PState) : PRes :=
  match t, cfg.ph with
  | .atom a, some p =>
    if a = p then
      match st.args with
      | [] => .error .fewArgs
      | x :: rest => .ok (x, { st with args := rest })
    else .ok (t, st)
  | _, _ => .ok (t, st)

abbrev LRes := Except PErr (List Term × PState)

mutual
  /-- `Parser.term0` (operand), with `arg` = `term(999)` = `term0` for an empty operator table -/
  def term0 (cfg : Cfg) : Nat → PState → PRes
    | 0, _ => .error .unexpected
    | fuel + 1, st =>
      match st.toks with
      | [] => .error .unexpected
      | .open :: r => openClose cfg fuel { st with toks := r }
      | .openCT :: r => openClose cfg fuel { st with toks := r }
      | .int n :: r => (integer false n).map fun t => (t, { st with toks := r })
      | .float b :: r => .ok (.flt b, { st with toks := r })
      | .var n :: r => .ok (.var n, { st with toks := r })
      | .openList :: r =>
        match r with
        | .closeList :: r' => term0Atom cfg fuel "[]" { st with toks := r' }
        | _ =>
          -- Parser.list: arg (`,` arg)* [`|` arg] `]`
          match term0 cfg fuel { st with toks := r } with
          | .error e => .error e
          | .ok (a, st') =>
            match listTail cfg fuel st' with
            | .error e => .error e
            | .ok (xs, st'') =>
              match st''.toks with
              | .closeList :: r' => .ok (Term.list (a :: xs), { st'' with toks := r' })
              | .bar :: r' =>
                match term0 cfg fuel { st'' with toks := r' } with
                | .error e => .error e
                | .ok (tl, st3) =>
                  match st3.toks with
                  | .closeList :: r'' => .ok (Term.list (a :: xs) tl, { st3 with toks := r'' })
                  | _ => .error .unexpected
              | _ => .error .unexpected
      | .dq body :: r =>
        match cfg.dq with
        | .chars => .ok (charList (unDoubleQuote body.toList), { st with toks := r })
        | .codes => .ok (codeList (unDoubleQuote body.toList), { st with toks := r })
        | .atom => term0Atom cfg fuel (String.ofList (unDoubleQuote body.toList)) { st with toks := r }
      | .name a :: r => term0Atom cfg fuel a { st with toks := r }
      | _ => .error .unexpected
  /-- `Parser.openClose` -/
  def openClose (cfg : Cfg) : Nat → PState → PRes
    | 0, _ => .error .unexpected
    | fuel + 1, st =>
      match term0 cfg fuel st with
      | .error e => .error e
      | .ok (t, st') =>
        match st'.toks with
        | .close :: r => .ok (t, { st' with toks := r })
        | _ => .error .unexpected
  /-- `Parser.term0Atom` after `p.atom()` delivered `a` -/
  def term0Atom (cfg : Cfg) : Nat → String → PState → PRes
    | 0, _, _ => .error .unexpected
    | fuel + 1, a, st =>
      let cont : PRes :=
        -- functionalNotation: `(` arg (`,` arg)* `)`.  A compound is never a placeholder.
        match st.toks with
        | .openCT :: r =>
          match term0 cfg fuel { st with toks := r } with
          | .error e => .error e
          | .ok (x, st') =>
            match listTail cfg fuel st' with
            | .error e => .error e
            | .ok (xs, st'') =>
              match st''.toks with
              | .close :: r' => .ok (.app a (Args.ofList (x :: xs)), { st'' with toks := r' })
              | _ => .error .unexpected
        | _ => placeholderStep cfg (.atom a) st
      if a = "-" then
        match st.toks with
        | .int n :: r => (integer true n).map fun t => (t, { st with toks := r })
        | .float b :: r => .ok (.flt (negFloat b), { st with toks := r })
        | _ => cont
      else cont
  /-- the `for { case tokenComma: arg … }` loops of `functionalNotation` and `list`: the arguments
      that follow, up to (not including) the token that ends the loop -/
  def listTail (cfg : Cfg) : Nat → PState → LRes
    | 0, _ => .error .unexpected
    | fuel + 1, st =>
      match st.toks with
      | .comma :: r =>
        match term0 cfg fuel { st with toks := r } with
        | .error e => .error e
        | .ok (x, st') =>
          match listTail cfg fuel st' with
          | .error e => .error e
          | .ok (xs, st'') => .ok (x :: xs, st'')
      | _ => .ok ([], st)
end

/-- `Parser.Term`: a term, the end token, and no argument left over -/
def parseTop (cfg : Cfg) (toks : List Tok) (args : List Term) : Except PErr Term :=
  match term0 cfg (2 * toks.length + 2) ⟨toks, args⟩ with
  | .error e => .error e
  | .ok (t, st) =>
    match st.toks with
    | [.end_] => if st.args = [] then .ok t else .error .manyArgs
    | _ => .error .unexpected

/-- the API: `SetPlaceholder(?, args…)` then `Term()` -/
def query (dq : DQ) (toks : List Tok) (args : List GoVal) : Except PErr Term :=
  match setPlaceholder dq args with
  | .error _ => .error .convert
  | .ok ts => parseTop ⟨dq, some "?"⟩ toks ts

/-! ## the literal denoting a Go value (the specification side of "placeholder = literal") -/

/-- text between the quotes of the double-quoted literal for `s`: only `"` and `\` need escaping,
    the lexer accepts every other character raw inside a double-quoted token -/
def escape (s : List Char) : List Char :=
  s.flatMap fun c => if c = '"' then ['\\', '"'] else if c = '\\' then ['\\', '\\'] else [c]

mutual
  /-- the token sequence of the literal denoting a value (none: the value has no literal that termOf accepts) -/
  def litToks : GoVal → Option (List Tok)
    | .int _ v => some (if v < 0 then [.name "-", .int v.natAbs] else [.int v.natAbs])
    | .float b => some (if b &&& 0x8000000000000000 ≠ 0 then [.name "-", .float (negFloat b)] else [.float b])
    | .str s => some [.dq (String.ofList (escape s.toList))]
    | .slice vs =>
      match vs with
      | .nil => some [.openList, .closeList]
      | .cons v vs' =>
        match litToks v, litElems vs' with
        | some a, some b => some (.openList :: a ++ b)
        | _, _ => none
    | .uint _ => none
    | .nil => none
    | .other => none
  /-- `, e2, e3 … ]` -/
  def litElems : GoVals → Option (List Tok)
    | .nil => some [.closeList]
    | .cons v vs =>
      match litToks v, litElems vs with
      | some a, some b => some (.comma :: a ++ b)
      | _, _ => none
end

mutual
  /-- integers lie within the range of their Go type (true of every Go value) -/
  def GoVal.wf : GoVal → Bool
    | .int k v => decide (InRange k.bits v)
    | .slice vs => GoVals.wf vs
    | _ => true
  def GoVals.wf : GoVals → Bool
    | .nil => true
    | .cons v vs => GoVal.wf v && GoVals.wf vs
end

mutual
  /-- recursion depth (fuel) the reader needs for the literal of a value -/
  def need : GoVal → Nat
    | .slice vs => 1 + needTail vs
    | _ => 2
  def needTail : GoVals → Nat
    | .nil => 1
    | .cons v vs => 1 + max (need v) (needTail vs)
end

/-- a token that may follow a literal without changing how the literal itself is read: not an opening
    parenthesis glued to it (functional notation) and not a number (after the atom `-`) -/
def Follows : List Tok → Prop
  | .openCT :: _ => False
  | .int _ :: _ => False
  | .float _ :: _ => False
  | _ => True

/-! ## placeholders are data: instantiation of holes (the specification of "never re-interpreted")

  A *hole* is the term `.str i` (a stream handle — no token can produce one).  `inst σ` plugs `σ i`
  into hole `i` and changes nothing else.  The property "arguments are data" is then: parsing with
  the arguments `hs.map (inst σ)` is parsing with the holes `hs` followed by `inst σ`. -/

mutual
  def inst (σ : Nat → Term) : Term → Term
    | .str i => σ i
    | .app f as => .app f (instArgs σ as)
    | t => t
  def instArgs (σ : Nat → Term) : Args → Args
    | .nil => .nil
    | .cons t ts => .cons (inst σ t) (instArgs σ ts)
end

/-- the holes `0 … n-1` -/
def holes (n : Nat) : List Term := (List.range n).map .str

/-- the argument list as a hole assignment -/
def assign (args : List Term) : Nat → Term := fun i => args.getD i (.str i)

/-! ## Scan: convertAssign -/

inductive Dest where
  | any                       -- *interface{}
  | string
  | int (k : IntKind)
  | float32
  | float64
  | slice (elem : Dest)       -- *[]T
  | unsupported               -- unsigned kinds, bool, arrays, … : the default branch ends in errConversion
  deriving DecidableEq, Repr

/-- the IEEE-754 double with these bits is +Inf or -Inf -/
def isInfBits (b : UInt64) : Bool := b &&& 0x7fffffffffffffff == 0x7ff0000000000000

/-- text of a list of one-character atoms (`charList.String()`) -/
def charsOf : List Term → Option (List Char)
  | [] => some []
  | .atom a :: rest =>
    match a.toList, charsOf rest with
    | [c], some cs => some (c :: cs)
    | _, _ => none
  | _ => none

/-- text of a list of character codes (`codeList.String()`) -/
def codesOf : List Term → Option (List Char)
  | [] => some []
  | .int i :: rest =>
    match codesOf rest with
    | some cs => if 0 ≤ i ∧ i.toNat.isValidChar then some (runeChar i.toNat :: cs) else none
    | none => none
  | _ => none

mutual
  /-- `convertAssign` for destination `d`.
      `fixed = false`: the pinned tree (plain conversions for int8/16/32); `round32`: `float32(x)` widened back;
      `rep t`: the Go value holding the list `t` is a `charList`/`codeList` (an `fmt.Stringer`) — the Go
      representation of lists is not part of the abstract term, so it is a parameter. -/
  def conv (fixed : Bool) (round32 : UInt64 → UInt64) (rep : Term → Bool) : Dest → Term → Except Unit GoVal
    | .int k, .int v =>
      if k.bits = 64 then .ok (.int k (wrap 64 v))
      else if fixed then (if InRange k.bits v then .ok (.int k v) else .error ())
      else .ok (.int k (wrap k.bits v))
    | .int _, _ => .error ()
    | .float64, .flt b => .ok (.float b)
    | .float64, _ => .error ()
    | .float32, .flt b =>
      -- D20 repair: a finite answer that overflows single precision is an error, not ±Inf
      if fixed = true ∧ isInfBits (round32 b) = true ∧ isInfBits b = false then .error ()
      else .ok (.float (round32 b))
    | .float32, _ => .error ()
    | .string, .atom a => .ok (.str a)
    | .string, .app f as =>
      if rep (.app f as) then
        match (Term.app f as).spine with
        | (elems, .atom "[]") =>
          match charsOf elems with
          | some cs => .ok (.str (String.ofList cs))
          | none =>
            match codesOf elems with
            | some cs => .ok (.str (String.ofList cs))
            | none => .error ()
        | _ => .error ()
      else .error ()
    | .string, _ => .error ()
    | .any, .var _ => .ok .nil
    | .any, .atom a => if a = "[]" then .ok (.slice .nil) else .ok (.str a)
    | .any, .int v => .ok (.int .int (wrap 64 v))
    | .any, .flt b => .ok (.float b)
    | .any, .app f as => if f = "." then convCell fixed round32 rep .any as else .error ()
    | .any, .str _ => .error ()
    | .slice _, .atom a => if a = "[]" then .ok (.slice .nil) else .error ()
    | .slice e, .app f as => if f = "." then convCell fixed round32 rep e as else .error ()
    | .slice _, _ => .error ()
    | .unsupported, _ => .error ()
  /-- one list cell: convert the head with the element destination, continue with the tail -/
  def convCell (fixed : Bool) (round32 : UInt64 → UInt64) (rep : Term → Bool) : Dest → Args → Except Unit GoVal
    | e, .cons h (.cons tl .nil) =>
      match conv fixed round32 rep e h with
      | .error _ => .error ()
      | .ok v =>
        match conv fixed round32 rep (.slice e) tl with
        | .ok (.slice vs) => .ok (.slice (.cons v vs))
        | _ => .error ()
    | _, _ => .error ()
end

/-! ## what "exactly the value of the answer" means -/

mutual
  /-- the Go value `v` is exactly the value of the term `t` -/
  def exact : GoVal → Term → Bool
    | .int _ v, t => t == .int v
    | .float b, t => t == .flt b
    | .str s, t => t == .atom s || (s ≠ "" && (t == charList s.toList || t == codeList s.toList))
    | .nil, .var _ => true
    | .nil, _ => false
    | .slice vs, t => exactList vs t
    | .uint _, _ => false
    | .other, _ => false
  def exactList : GoVals → Term → Bool
    | .nil, t => t == .atom "[]"
    | .cons v vs, .app f (.cons h (.cons tl .nil)) => f == "." && exact v h && exactList vs tl
    | .cons _ _, _ => false
end

mutual
  /-- the Go value fits the destination type (integers within the width of their kind) -/
  def fits : Dest → GoVal → Bool
    | .int k, .int k' v => k == k' && decide (InRange k.bits v)
    | .float64, .float _ => true
    | .float32, .float _ => true
    | .string, .str _ => true
    | .any, .nil => true
    | .any, .str _ => true
    | .any, .int .int v => decide (InRange 64 v)
    | .any, .float _ => true
    | .any, .slice vs => fitsAll .any vs
    | .slice e, .slice vs => fitsAll e vs
    | _, _ => false
  def fitsAll : Dest → GoVals → Bool
    | _, .nil => true
    | e, .cons v vs => fits e v && fitsAll e vs
end

/-- destinations named in the property (`float32` is not: it rounds) -/
def Dest.noFloat32 : Dest → Bool
  | .float32 => false
  | .slice e => e.noFloat32
  | _ => true

mutual
  /-- all integers of the term are `engine.Integer`s, i.e. 64-bit -/
  def Term.i64 : Term → Bool
    | .int v => decide (InRange 64 v)
    | .app _ as => Args.i64 as
    | _ => true
  def Args.i64 : Args → Bool
    | .nil => true
    | .cons t ts => Term.i64 t && Args.i64 ts
end

end PrologVerif.Api
