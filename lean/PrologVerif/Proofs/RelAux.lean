/-
  C16 helper lemmas used by Properties/C16.lean: unfolding equations of the ISO error table,
  auxiliary cases of char_code/between/succ/nth/length.
-/
import PrologVerif.Proofs.RelErrors
import PrologVerif.Proofs.RelList
import PrologVerif.Proofs.RelUnify
import PrologVerif.Proofs.RelSld
namespace PrologVerif.Rel
open PrologVerif PrologVerif.Relations

theorem modeErrors_atom_length (a l : Term) : modeErrors "atom_length" [a, l] =
    (if isVar a then [instErr] else mustBeAtomOrVar a) ++ notLessThanZero l := rfl

theorem modeErrors_atom_concat (a b c : Term) : modeErrors "atom_concat" [a, b, c] =
    (if isVar c ∧ (isVar a ∨ isVar b) then [instErr] else []) ++
      mustBeAtomOrVar a ++ mustBeAtomOrVar b ++ mustBeAtomOrVar c := rfl

theorem modeErrors_sub_atom (w b l a s : Term) : modeErrors "sub_atom" [w, b, l, a, s] =
    (if isVar w then [instErr] else mustBeAtomOrVar w) ++ notLessThanZero b ++ notLessThanZero l ++
      notLessThanZero a ++ mustBeAtomOrVar s := rfl

theorem charCode_atom_aux {s : String} {n : Term} {ans : Answers}
    (h : charCodeOfAtom (.atom s) n s = Except.ok ans) :
    Exact charCodeT [.atom s, n] ans := by
  unfold charCodeOfAtom at h
  split at h
  · rename_i ch hs
    cases h
    apply exact_selectCands
    · intro t ht; simp at ht; subst ht
      simp [charCodeT, Relations.charCode, hs]
    · intro t hr hi
      obtain ⟨σ, rfl⟩ := hi
      simp only [List.map, substT_atom] at hr ⊢
      obtain ⟨s', ch', ht, hs'⟩ := charCodeT_inv hr
      simp only [List.cons.injEq, Term.atom.injEq, and_true] at ht
      obtain ⟨rfl, hn⟩ := ht
      rw [hs] at hs'
      simp at hs'
      simp [hn, hs']
    · simp
  · cases h

theorem modeErrors_atom_chars (a l : Term) : modeErrors "atom_chars" [a, l] =
    if isVar a then listErrors false l ++ charElemErrors true l.spine.1
    else mustBeAtomOrVar a ++ listErrors true l ++ charElemErrors false l.spine.1 := rfl

theorem modeErrors_atom_codes (a l : Term) : modeErrors "atom_codes" [a, l] =
    if isVar a then listErrors false l ++ codeElemErrors true l.spine.1
    else mustBeAtomOrVar a ++ listErrors true l ++ codeElemErrors false l.spine.1 := rfl

theorem modeErrors_char_code (c n : Term) : modeErrors "char_code" [c, n] =
    (if isVar c ∧ isVar n then [instErr] else []) ++
      (match c with
        | .var _ => []
        | .atom s => if s.toList.length = 1 then [] else [typeErr "character" c]
        | _ => [typeErr "character" c]) ++
      (match n with
        | .var _ => []
        | .int i => if isVar c ∧ !isCharCode i then [representationErr "character_code"] else []
        | _ => [typeErr "integer" n]) := rfl

theorem charCodeOfAtom_cases (s : String) (n : Term) :
    (s.toList.length = 1 ∧ ∃ ans, charCodeOfAtom (.atom s) n s = .ok ans) ∨
    (¬ s.toList.length = 1 ∧ charCodeOfAtom (.atom s) n s = .error (typeErr "character" (.atom s))) := by
  unfold charCodeOfAtom
  split
  · rename_i ch hs; left; simp [hs]
  · rename_i hne
    right
    refine ⟨?_, rfl⟩
    rw [length_one_iff]; rintro ⟨ch, hc⟩; exact hne ch hc

/-- per prefix: the first `k` alternatives are `low, low+1, …` (never beyond `high`, no wrap-around
    at max_integer: the successor is only computed while `low < high`) -/
theorem betweenAlts_prefix : (k : Nat) → (low high : Int) → low ≤ high →
    betweenAlts k low high = (List.range (min k (high - low + 1).toNat)).map fun i => low + Int.ofNat i
  | 0, low, high, _ => by simp [betweenAlts]
  | k + 1, low, high, h => by
    unfold betweenAlts
    by_cases hlt : low < high
    · simp only [hlt, if_true]
      rw [betweenAlts_prefix k (low + 1) high (by omega)]
      have : min (k + 1) (high - low + 1).toNat = min k (high - (low + 1) + 1).toNat + 1 := by omega
      rw [this, List.range_succ_eq_map]
      simp [List.map_map, Function.comp_def]
      intro a _
      omega
    · have : high = low := by omega
      subst this
      simp

theorem mem_betweenAlts {k : Nat} {low high x : Int} (h : low ≤ high) (hk : (high - low + 1).toNat ≤ k) :
    x ∈ betweenAlts k low high ↔ low ≤ x ∧ x ≤ high := by
  rw [betweenAlts_prefix k low high h, Nat.min_eq_right hk]
  simp only [List.mem_map, List.mem_range]
  constructor
  · rintro ⟨i, hi, rfl⟩; simp only [Int.ofNat_eq_natCast]; omega
  · rintro ⟨h1, h2⟩; exact ⟨(x - low).toNat, by omega, by simp only [Int.ofNat_eq_natCast]; omega⟩

theorem betweenAlts_nodup (k : Nat) (low high : Int) (h : low ≤ high) : (betweenAlts k low high).Nodup := by
  rw [betweenAlts_prefix k low high h]
  apply nodup_map_on _ List.nodup_range
  intro i _ j _ hij
  simp only [Int.ofNat_eq_natCast] at hij
  omega

theorem modeErrors_between (l h x : Term) : modeErrors "between" [l, h, x] =
    (if isVar l ∨ isVar h then [instErr] else []) ++ mustBeIntOrVar l ++ mustBeIntOrVar h ++ mustBeIntOrVar x := rfl

theorem succ_single_aux {x s : Term} {a b : Int} (hr : b = a + 1) (ha : 0 ≤ a)
    (hdet : ∀ σ : Nat → Term, succT [substT σ x, substT σ s] → substT σ x = .int a ∧ substT σ s = .int b) :
    Exact succT [x, s] (selectCands [x, s] [[.int a, .int b]]) := by
  apply exact_selectCands
  · intro c hc; simp at hc; subst hc
    simp [succT, Relations.succ, hr, ha]
  · intro t hr' hi
    obtain ⟨σ, rfl⟩ := hi
    obtain ⟨h1, h2⟩ := hdet σ hr'
    simp [h1, h2]
  · simp

theorem modeErrors_succ (x s : Term) : modeErrors "succ" [x, s] =
    (if isVar x ∧ isVar s then [instErr] else []) ++ notLessThanZero x ++ notLessThanZero s := rfl

theorem optionalErrors_succ_int (x : Int) (s : Term) : optionalErrors "succ" [.int x, s] =
    if x = 9223372036854775807 then [evaluationErr "int_overflow"] else [] := rfl

theorem modeErrors_functor_var (v : Nat) (n a : Term) : modeErrors "functor" [.var v, n, a] =
      (if isVar n ∨ isVar a then [instErr] else []) ++ mustBeIntOrVar a ++
        (match a with | .int i => if i < 0 then [domainErr "not_less_than_zero" a] else [] | _ => []) ++
        (if isCompound n then [typeErr "atomic" n] else []) ++
        (match a with | .int i => if i > 0 ∧ isAtomic n ∧ !isAtom n then [typeErr "atom" n] else [] | _ => []) := rfl

theorem optionalErrors_functor_var (v : Nat) (n : Term) (i : Int) : optionalErrors "functor" [.var v, n, .int i] =
    if i > 1048576 then [resourceErr "memory"] else [] := rfl

theorem modeErrors_arg (n t a : Term) : modeErrors "arg" [n, t, a] =
    (if isVar n ∨ isVar t then [instErr] else []) ++ notLessThanZero n ++
      (if isVar t || isCompound t then [] else [typeErr "compound" t]) := rfl

theorem modeErrors_univ_var (v : Nat) (l : Term) : modeErrors "univ" [.var v, l] =
      listErrors false l ++
        (match l.spine.1, l.spine.2 with
          | [], .atom "[]" => [domainErr "non_empty_list" l]
          | [h], .atom "[]" => if isVar h then [instErr] else if isCompound h then [typeErr "atomic" h] else []
          | h :: _ :: _, .atom "[]" =>
            if isVar h then [instErr] else if isAtom h then [] else [typeErr "atom" h]
          | h :: _, .var _ => if isVar h then [] else if isCompound h then [typeErr "atomic" h, typeErr "atom" h] else
              if isAtom h then [] else [typeErr "atom" h]
          | _, _ => []) := rfl

theorem modeErrors_univ_nonvar (t l : Term) (h : isVar t = false) : modeErrors "univ" [t, l] = listErrors true l := by
  cases t <;> simp_all [isVar] <;> rfl

theorem nth_var_aux {base : Int} {v : Nat} {list elem : Term} (hg : groundT list = true) :
    ExactInst (nthT base) [.var v, list, elem]
      ((List.range list.spine.1.length).flatMap fun i =>
        match list.spine.1[i]? with
        | some e => unifyAns [.var v, list, elem] (tuple [.var v, elem]) (tuple [.int (base + Int.ofNat i), e])
        | none => []) := by
  have hges := ground_spine hg
  have hkey : ∀ i e, list.spine.1[i]? = some e →
      groundT (tuple [Term.int (base + Int.ofNat i), e]) = true := by
    intro i e he
    simp [groundT_tuple, groundT, hges e (List.mem_of_getElem? he)]
  refine ⟨?_, ?_, ?_⟩
  · intro t ht
    simp only [List.mem_flatMap, List.mem_range] at ht
    obtain ⟨i, hi, ht⟩ := ht
    cases he : list.spine.1[i]? with
    | none => simp [he] at ht
    | some e =>
      simp only [he] at ht
      obtain ⟨θ, rfl, hθ, _⟩ := (unifyAns_ground (hkey i e he)).1 t ht
      refine ⟨?_, ⟨θ.fn, rfl⟩⟩
      rw [substT_tuple] at hθ
      have := tuple_inj hθ
      simp only [List.map, List.cons.injEq, and_true] at this
      simp only [List.map, this.1, this.2, substT_ground _ _ hg, nthT, Relations.nth]
      refine ⟨by simp only [Int.ofNat_eq_natCast]; omega, ?_⟩
      have : (base + Int.ofNat i - base).toNat = i := by simp only [Int.ofNat_eq_natCast]; omega
      rw [this, he]
  · rintro t hr ⟨σ, rfl⟩
    simp only [List.map, substT_ground _ _ hg] at hr ⊢
    cases hn : substT σ (Term.var v) <;> simp only [hn, nthT] at hr
    rename_i m
    obtain ⟨hb, he⟩ := hr
    have hi := (List.getElem?_eq_some_iff.mp he).1
    have hσ : substT σ (tuple [Term.var v, elem]) =
        tuple [.int (base + Int.ofNat (m - base).toNat), substT σ elem] := by
      rw [substT_tuple]
      simp only [List.map, hn]
      congr 3
      simp only [Int.ofNat_eq_natCast]; omega
    obtain ⟨θ, hθ, habs⟩ := (unifyAns_ground (args := [.var v, list, elem]) (hkey _ _ he)).2.1 σ hσ
    refine ⟨List.map (substT θ.fn) [Term.var v, list, elem], ?_, σ, ?_⟩
    · simp only [List.mem_flatMap, List.mem_range]
      exact ⟨(m - base).toNat, hi, by rw [he]; simp only; rw [hθ]; simp⟩
    · simp [List.map, habs, hn, substT_ground _ _ hg]
  · rw [List.Nodup, List.pairwise_flatMap]
    constructor
    · intro i _
      split
      · unfold unifyAns; split <;> simp
      · simp
    · apply List.Pairwise.imp_of_mem _ (List.nodup_range (n := list.spine.1.length))
      intro i j _ _ hij x hx y hy hxy
      subst hxy
      cases hei : list.spine.1[i]? with
      | none => simp [hei] at hx
      | some ei =>
        cases hej : list.spine.1[j]? with
        | none => simp [hej] at hy
        | some ej =>
          simp only [hei] at hx
          simp only [hej] at hy
          obtain ⟨θ, rfl, hθ, _⟩ := (unifyAns_ground (hkey i ei hei)).1 _ hx
          obtain ⟨θ', hxy, hθ', _⟩ := (unifyAns_ground (hkey j ej hej)).1 _ hy
          rw [substT_tuple] at hθ hθ'
          have h1 := tuple_inj hθ
          have h2 := tuple_inj hθ'
          simp only [List.map, List.cons.injEq, and_true] at h1 h2 hxy
          rw [hxy.1, h2.1] at h1
          simp only [Term.int.injEq, Int.ofNat_eq_natCast] at h1
          omega

theorem nth_errors_aux (base : Int) (n l e : Term) :
    let M := mustBeIntOrVar n ++ (if isVar n then listErrors false l else [])
    let O := match n with | .int _ => listErrors false l | _ => []
    (∀ err, Rel.nth base n l e = .error err → err ∈ M ++ O) ∧
    (M = [] → O = [] → ∃ ans, Rel.nth base n l e = .ok ans) ∧
    (instErr ∈ M → ∃ err, Rel.nth base n l e = .error err) := by
  intro M O
  simp only [M, O]
  unfold Rel.nth
  rw [listErrors_eq]
  cases n with
  | var v =>
    simp only [mustBeIntOrVar, isVar, isInt]
    cases hl : listErr false l l.spine.2 <;> simp
  | int i =>
    simp only [mustBeIntOrVar, isVar, isInt]
    by_cases hlt : i < base
    · simp [hlt]
    · simp only [hlt, if_false]
      cases he : l.spine.1[(i - base).toNat]? with
      | some x => simp
      | none => cases hl : listErr false l l.spine.2 <;> simp
  | atom _ => simp [mustBeIntOrVar, isVar, isInt]
  | flt _ => simp [mustBeIntOrVar, isVar, isInt]
  | str _ => simp [mustBeIntOrVar, isVar, isInt]
  | app _ _ => simp [mustBeIntOrVar, isVar, isInt]

theorem lengthT_partial_iff (es : List Term) (s : Nat) (σ : Nat → Term) (m : Int) :
    lengthT [substT σ (Term.list es (.var s)), .int m] ↔
      ∃ r, σ s = Term.list r ∧ m = Int.ofNat (es.length + r.length) := by
  rw [substT_list]
  simp only [lengthT, substT]
  constructor
  · intro h
    split at h
    · rename_i es' hes'
      obtain ⟨r, hr, rfl⟩ := asList_list_tail hes'
      exact ⟨r, asList_eq_some_iff.mp hr, by simp [h]⟩
    · exact h.elim
  · rintro ⟨r, hr, rfl⟩
    rw [hr, ← list_append]
    simp

/-- the j-th answer substitution of `lengthAddendum` -/
def addendum (b s nv skipped j : Nat) : Nat → Term := fun v =>
  if v = s then Term.list (freshVars b j)
  else if v = nv then .int (Int.ofNat (skipped + j))
  else .var v

theorem suffix_var {es : List Term} {k : Nat} {tl : Term} {s : Nat}
    (h : Term.list (es.drop k) tl = .var s) : es.length ≤ k ∧ tl = .var s := by
  by_cases hk : k < es.length
  · obtain ⟨e, rest, he⟩ := list_drop_of_lt tl hk
    rw [he] at h; simp [Term.consT] at h
  · rw [list_drop_of_ge tl (by omega)] at h
    exact ⟨by omega, h⟩

theorem modeErrors_length (l n : Term) : modeErrors "length" [l, n] = notLessThanZero n := rfl

theorem optionalErrors_length_int (l : Term) (n : Int) : optionalErrors "length" [l, .int n] =
    match l.spine.2 with
    | .var _ => if n - Int.ofNat l.spine.1.length > 1048576 then [resourceErr "memory"] else []
    | _ => [] := rfl

theorem optionalErrors_length_var (l : Term) (n : Nat) : optionalErrors "length" [l, .var n] =
    if l.spine.2 = .var n then [resourceErr "finite_memory"] else [] := rfl

/-! ### `unifyM` on arbitrary terms -/

/-- `unifyM a b` is defined: one side is ground (matching, no fuel involved) or the Robinson
    unifier finished within its fuel -/
def UnifyDefined (a b : Term) : Prop :=
  groundT b = true ∨ groundT a = true ∨ unifyE (unifyFuel a b) [(a, b)] ≠ none

theorem unifyM_general {a b : Term} (hb : groundT b = false) (ha : groundT a = false) :
    unifyM a b = (match unifyE (unifyFuel a b) [(a, b)] with | some r => r | none => none) := by
  simp only [unifyM, hb, ha, Bool.false_eq_true, if_false]
  split <;> rename_i h <;> simp [h]

/-- `unifyM` computes a most general unifier, and fails only when there is none -/
theorem unifyM_mgu {a b : Term} (hd : UnifyDefined a b) :
    (∀ δ, unifyM a b = some δ → substT δ a = substT δ b ∧
      ∀ σ : Nat → Term, substT σ a = substT σ b → ∀ u, substT σ (substT δ u) = substT σ u) ∧
    (unifyM a b = none → ∀ σ : Nat → Term, substT σ a ≠ substT σ b) := by
  by_cases hb : groundT b = true
  · rw [unifyM_ground_right hb]
    constructor
    · intro δ hδ
      simp only [Option.map_eq_some_iff] at hδ
      obtain ⟨θ, hθ, rfl⟩ := hδ
      refine ⟨by rw [(matchT_sound a b [] θ hθ).2 θ (Extends.refl _), substT_ground _ _ hb], ?_⟩
      intro σ hσ u
      rw [substT_ground σ b hb] at hσ
      obtain ⟨θ', hθ', ha⟩ := matchT_complete σ a b [] (fun _ _ h => by cases h) hσ
      rw [hθ] at hθ'; cases hθ'
      exact subst_absorb ha (matchT_rangeGround a b [] θ hθ hb rangeGround_nil) u
    · intro hnone σ hσ
      rw [substT_ground σ b hb] at hσ
      obtain ⟨θ', hθ', _⟩ := matchT_complete σ a b [] (fun _ _ h => by cases h) hσ
      simp [hθ'] at hnone
  · have hb' : groundT b = false := by simpa using hb
    by_cases ha : groundT a = true
    · have : unifyM a b = (matchT b a []).map Subst.fn := by simp [unifyM, hb', ha]
      rw [this]
      constructor
      · intro δ hδ
        simp only [Option.map_eq_some_iff] at hδ
        obtain ⟨θ, hθ, rfl⟩ := hδ
        refine ⟨by rw [(matchT_sound b a [] θ hθ).2 θ (Extends.refl _), substT_ground _ _ ha], ?_⟩
        intro σ hσ u
        rw [substT_ground σ a ha] at hσ
        obtain ⟨θ', hθ', hag⟩ := matchT_complete σ b a [] (fun _ _ h => by cases h) hσ.symm
        rw [hθ] at hθ'; cases hθ'
        exact subst_absorb hag (matchT_rangeGround b a [] θ hθ ha rangeGround_nil) u
      · intro hnone σ hσ
        rw [substT_ground σ a ha] at hσ
        obtain ⟨θ', hθ', _⟩ := matchT_complete σ b a [] (fun _ _ h => by cases h) hσ.symm
        simp [hθ'] at hnone
    · have ha' : groundT a = false := by simpa using ha
      have hne : unifyE (unifyFuel a b) [(a, b)] ≠ none := by
        rcases hd with h | h | h
        · exact absurd h hb
        · exact absurd h ha
        · exact h
      rw [unifyM_general hb' ha']
      have hc := unifyE_complete (unifyFuel a b) [(a, b)]
      have hu : ∀ σ : Nat → Term, substT σ a = substT σ b → Unifies σ [(a, b)] := by
        intro σ h p hp; simp at hp; subst hp; exact h
      cases hr : unifyE (unifyFuel a b) [(a, b)] with
      | none => exact absurd hr hne
      | some r =>
        cases r with
        | none =>
          refine ⟨fun δ h => (by simp at h), fun _ σ hσ => hc.2 hr σ (hu σ hσ)⟩
        | some δ' =>
          refine ⟨?_, fun h => (by simp at h)⟩
          intro δ hδ
          simp only [Option.some.injEq] at hδ
          subst hδ
          exact ⟨unifyE_sound _ _ _ hr (a, b) (by simp), fun σ hσ u => hc.1 _ hr σ (hu σ hσ) u⟩

/-- a deterministic builtin `Unify(a, b)` on arbitrary terms, where the relation holds for an
    instance of the call iff that instance unifies `a` with `b` -/
theorem exactInst_unifyAns_general {R : List Term → Prop} {args : List Term} {a b : Term}
    (hd : UnifyDefined a b)
    (h1 : ∀ σ : Nat → Term, substT σ a = substT σ b → R (args.map (substT σ)))
    (h2 : ∀ σ : Nat → Term, R (args.map (substT σ)) → substT σ a = substT σ b) :
    ExactInst R args (unifyAns args a b) := by
  obtain ⟨k1, k2⟩ := unifyM_mgu hd
  unfold unifyAns
  cases hm : unifyM a b with
  | none =>
    apply exactInst_nil
    rintro t hr ⟨σ, rfl⟩
    exact k2 hm σ (h2 σ hr)
  | some δ =>
    obtain ⟨hs, hmgu⟩ := k1 δ hm
    refine ⟨?_, ?_, by simp⟩
    · intro t ht
      simp at ht; subst ht
      exact ⟨h1 δ hs, ⟨δ, rfl⟩⟩
    · rintro t hr ⟨σ, rfl⟩
      refine ⟨args.map (substT δ), by simp, σ, ?_⟩
      simp [List.map_map, Function.comp_def, hmgu σ (h2 σ hr)]

theorem unifyAns_general {args : List Term} {a b : Term} (hd : UnifyDefined a b) :
    (∀ t ∈ unifyAns args a b, ∃ δ : Nat → Term, t = args.map (substT δ) ∧ substT δ a = substT δ b) ∧
    (∀ σ : Nat → Term, substT σ a = substT σ b → ∃ δ : Nat → Term, unifyAns args a b = [args.map (substT δ)] ∧
        ∀ t, substT σ (substT δ t) = substT σ t) := by
  obtain ⟨k1, k2⟩ := unifyM_mgu hd
  unfold unifyAns
  cases hm : unifyM a b with
  | none => exact ⟨by simp, fun σ hσ => absurd hσ (k2 hm σ)⟩
  | some δ =>
    obtain ⟨hs, hmgu⟩ := k1 δ hm
    exact ⟨fun t ht => ⟨δ, by simpa using ht, hs⟩, fun σ hσ => ⟨δ, rfl, hmgu σ hσ⟩⟩

theorem unifyAns_nodup (args : List Term) (a b : Term) : (unifyAns args a b).Nodup := by
  unfold unifyAns; split <;> simp

theorem nth_var_general {base : Int} {v : Nat} {es : List Term} {elem : Term}
    (hd : ∀ i e, es[i]? = some e →
      UnifyDefined (tuple [.var v, elem]) (tuple [.int (base + Int.ofNat i), e])) :
    ExactInst (nthT base) [.var v, Term.list es, elem]
      ((List.range es.length).flatMap fun i =>
        match es[i]? with
        | some e => unifyAns [.var v, Term.list es, elem] (tuple [.var v, elem]) (tuple [.int (base + Int.ofNat i), e])
        | none => []) := by
  have hsp : ∀ σ : Nat → Term, (substT σ (Term.list es)).spine.1 = es.map (substT σ) := by
    intro σ
    rw [substT_list]
    have : substT σ Term.nilT = Term.nilT := by simp [Term.nilT, substT]
    rw [this, spine_list_nil]
  refine ⟨?_, ?_, ?_⟩
  · intro t ht
    simp only [List.mem_flatMap, List.mem_range] at ht
    obtain ⟨i, hi, ht⟩ := ht
    cases he : es[i]? with
    | none => simp [he] at ht
    | some e =>
      simp only [he] at ht
      obtain ⟨δ, rfl, hδ⟩ := (unifyAns_general (hd i e he)).1 t ht
      refine ⟨?_, ⟨δ, rfl⟩⟩
      rw [substT_tuple, substT_tuple] at hδ
      have := tuple_inj hδ
      simp only [List.map, substT_int, List.cons.injEq, and_true] at this
      simp only [List.map, this.1, this.2, nthT, Relations.nth, hsp]
      refine ⟨by simp only [Int.ofNat_eq_natCast]; omega, ?_⟩
      have hi' : (base + Int.ofNat i - base).toNat = i := by simp only [Int.ofNat_eq_natCast]; omega
      rw [hi', List.getElem?_map, he]; rfl
  · rintro t hr ⟨σ, rfl⟩
    simp only [List.map] at hr ⊢
    cases hn : substT σ (Term.var v) <;> simp only [hn, nthT] at hr
    rename_i m
    obtain ⟨hb, he⟩ := hr
    rw [hsp, List.getElem?_map] at he
    cases hes : es[(m - base).toNat]? with
    | none => simp [hes] at he
    | some e =>
      simp only [hes, Option.map_some, Option.some.injEq] at he
      have hi := (List.getElem?_eq_some_iff.mp hes).1
      have hσ : substT σ (tuple [Term.var v, elem]) =
          substT σ (tuple [.int (base + Int.ofNat (m - base).toNat), e]) := by
        rw [substT_tuple, substT_tuple]
        simp only [List.map, hn, substT_int, he]
        congr 3
        simp only [Int.ofNat_eq_natCast]; omega
      obtain ⟨δ, hδ, habs⟩ := (unifyAns_general (args := [.var v, Term.list es, elem]) (hd _ _ hes)).2 σ hσ
      refine ⟨List.map (substT δ) [Term.var v, Term.list es, elem], ?_, σ, ?_⟩
      · simp only [List.mem_flatMap, List.mem_range]
        exact ⟨(m - base).toNat, hi, by rw [hes]; simp only; rw [hδ]; simp⟩
      · simp [List.map, habs, hn]
  · rw [List.Nodup, List.pairwise_flatMap]
    constructor
    · intro i _
      split
      · exact unifyAns_nodup _ _ _
      · simp
    · apply List.Pairwise.imp_of_mem _ (List.nodup_range (n := es.length))
      intro i j _ _ hij x hx y hy hxy
      subst hxy
      cases hei : es[i]? with
      | none => simp [hei] at hx
      | some ei =>
        cases hej : es[j]? with
        | none => simp [hej] at hy
        | some ej =>
          simp only [hei] at hx
          simp only [hej] at hy
          obtain ⟨δ, rfl, hδ⟩ := (unifyAns_general (hd i ei hei)).1 _ hx
          obtain ⟨δ', hxy, hδ'⟩ := (unifyAns_general (hd j ej hej)).1 _ hy
          rw [substT_tuple, substT_tuple] at hδ hδ'
          have h1 := tuple_inj hδ
          have h2 := tuple_inj hδ'
          simp only [List.map, substT_int, List.cons.injEq, and_true] at h1 h2 hxy
          rw [hxy.1, h2.1] at h1
          simp only [Term.int.injEq, Int.ofNat_eq_natCast] at h1
          omega

/-! ### SLD resolution is complete -/

/-- the goals can all be resolved, left to right, in `n` steps by instances of the clauses -/
inductive Resolves (clauses : List Clause) : Nat → List Term → Prop
  | nil (n : Nat) : Resolves clauses n []
  | step {n : Nat} {g : Term} {gs : List Term} (c : Clause) (hc : c ∈ clauses) (ρ : Nat → Term)
      (hg : g = substT ρ c.1) (h : Resolves clauses n (c.2.map (substT ρ) ++ gs)) :
      Resolves clauses (n + 1) (g :: gs)

theorem Resolves.mono {clauses : List Clause} {n m : Nat} {gs : List Term} (h : Resolves clauses n gs)
    (hnm : n ≤ m) : Resolves clauses m gs := by
  induction h generalizing m with
  | nil n => exact Resolves.nil m
  | step c hc ρ hg _ ih =>
    cases m with
    | zero => omega
    | succ m => exact Resolves.step c hc ρ hg (ih (by omega))

/-- every unification performed by the run of the engine finished within its fuel -/
def SldDefined (clauses : List Clause) : Nat → List Term → List Term → Prop
  | 0, _, _ => True
  | _ + 1, [], _ => True
  | f + 1, g :: gs, args =>
    ∀ c ∈ clauses,
      UnifyDefined g (substT (shift (boundL (g :: gs ++ args))) c.1) ∧
      ∀ δ, unifyM g (substT (shift (boundL (g :: gs ++ args))) c.1) = some δ →
        SldDefined clauses f ((c.2.map (substT (shift (boundL (g :: gs ++ args)))) ++ gs).map (substT δ))
          (args.map (substT δ))

theorem substT_agree_below {σ σ' : Nat → Term} {n : Nat} (h : ∀ v, v < n → σ' v = σ v) (t : Term)
    (ht : boundT t ≤ n) : substT σ' t = substT σ t := by
  apply substT_congr
  intro v hv
  exact h v (Nat.lt_of_lt_of_le (occursT_lt_bound v t hv) ht)

/-- lifting: if the σ-instances of the goals can be resolved in fewer than `f` steps, the engine
    finds an answer of which the σ-instance of the call is an instance -/
theorem sld_complete {clauses : List Clause} :
    (f : Nat) → (goals args : List Term) → (σ : Nat → Term) → (n : Nat) →
    Resolves clauses n (goals.map (substT σ)) → n < f → SldDefined clauses f goals args →
    ∃ a ∈ sld clauses f goals args, IsInstance a (args.map (substT σ))
  | 0, _, _, _, _, _, h, _ => by omega
  | f + 1, [], args, σ, _, _, _, _ => ⟨args, by simp [sld], ⟨σ, rfl⟩⟩
  | f + 1, g :: gs, args, σ, n, hres, hn, hdef => by
    cases hres with
    | step c hc ρ hg hrest =>
      rename_i n'
      generalize hnext : boundL (g :: gs ++ args) = next at *
      -- σ extended to the renamed clause
      let σ' : Nat → Term := fun v => if v < next then σ v else ρ (v - next)
      have hlow : ∀ t, boundT t ≤ next → substT σ' t = substT σ t :=
        fun t ht => substT_agree_below (fun v hv => by simp [σ', hv]) t ht
      have hshift : ∀ u, substT σ' (substT (shift next) u) = substT ρ u := by
        intro u
        rw [substT_comp]
        apply substT_congr
        intro v _
        have : ¬ (v + next < next) := by omega
        simp [shift, substT, σ', this]
      have hbound : ∀ t ∈ g :: gs ++ args, boundT t ≤ next := fun t ht => hnext ▸ boundT_le_boundL ht
      have hunif : substT σ' g = substT σ' (substT (shift next) c.1) := by
        rw [hlow g (hbound g (by simp)), hshift]; exact hg
      simp only [SldDefined] at hdef
      obtain ⟨hd, hdrec⟩ := hdef c hc
      rw [hnext] at hd hdrec
      obtain ⟨k1, k2⟩ := unifyM_mgu hd
      cases hm : unifyM g (substT (shift next) c.1) with
      | none => exact absurd hunif (k2 hm σ')
      | some δ =>
        obtain ⟨_, habs⟩ := k1 δ hm
        have habs' := habs σ' hunif
        have hgoals : ((c.2.map (substT (shift next)) ++ gs).map (substT δ)).map (substT σ') =
            c.2.map (substT ρ) ++ gs.map (substT σ) := by
          simp only [List.map_map, List.map_append, Function.comp_def, habs', hshift]
          congr 1
          apply List.map_congr_left
          intro t ht
          exact hlow t (hbound t (by simp [ht]))
        obtain ⟨a, ha, hinst⟩ := sld_complete f _ (args.map (substT δ)) σ' n'
          (by rw [hgoals]; exact hrest) (by omega) (hdrec δ hm)
        refine ⟨a, ?_, ?_⟩
        · simp only [sld, List.mem_flatMap]
          refine ⟨c, hc, ?_⟩
          rw [hnext, hm]
          exact ha
        · have : (args.map (substT δ)).map (substT σ') = args.map (substT σ) := by
            simp only [List.map_map, Function.comp_def, habs']
            apply List.map_congr_left
            intro t ht
            exact hlow t (hbound t (by simp [ht]))
          rw [this] at hinst
          exact hinst

/-- substitution given by the first values, identity elsewhere -/
def assignList (ts : List Term) : Nat → Term := fun v => match ts[v]? with | some t => t | none => .var v

theorem resolves_member (y : Term) (tl : Term) : (ys : List Term) → y ∈ ys →
    Resolves memberClauses ys.length [Term.a2 "member" y (Term.list ys tl)]
  | [], h => by cases h
  | z :: rest, h => by
    by_cases hyz : y = z
    · subst hyz
      refine Resolves.mono (Resolves.step (n := 0) memberClauses[0] (by simp [memberClauses])
        (assignList [y, Term.list rest tl]) ?_ (Resolves.nil 0)) (by simp)
      simp [memberClauses, Term.a2, Term.consT, substT, substA, assignList]
    · have hy : y ∈ rest := by
        rcases List.mem_cons.mp h with h | h
        · exact absurd h hyz
        · exact h
      refine Resolves.step memberClauses[1] (by simp [memberClauses])
        (assignList [y, z, Term.list rest tl]) ?_ ?_
      · simp [memberClauses, Term.a2, Term.consT, substT, substA, assignList]
      · have := resolves_member y tl rest hy
        simpa [memberClauses, Term.a2, substT, substA, assignList] using this

theorem resolves_select (e : Term) (tl : Term) : (ys : List Term) → (i : Nat) → ys[i]? = some e →
    Resolves selectClauses (i + 1)
      [Term.a3 "select" e (Term.list ys tl) (Term.list (ys.eraseIdx i) tl)]
  | [], i, h => by simp at h
  | z :: rest, 0, h => by
    simp only [List.getElem?_cons_zero, Option.some.injEq] at h
    subst h
    refine Resolves.step selectClauses[0] (by simp [selectClauses])
      (assignList [z, Term.list rest tl]) ?_ (Resolves.nil 0)
    simp [selectClauses, Term.a3, Term.consT, substT, substA, assignList]
  | z :: rest, i + 1, h => by
    simp only [List.getElem?_cons_succ] at h
    refine Resolves.step selectClauses[1] (by simp [selectClauses])
      (assignList [e, z, Term.list rest tl, Term.list (rest.eraseIdx i) tl]) ?_ ?_
    · simp [selectClauses, Term.a3, Term.consT, substT, substA, assignList]
    · have := resolves_select e tl rest i h
      simpa [selectClauses, Term.a3, substT, substA, assignList] using this

theorem resolves_append (y : Term) : (xs : List Term) →
    Resolves appendClausePairs (xs.length + 1) [Term.a3 "append" (Term.list xs) y (Term.list xs y)]
  | [] => by
    refine Resolves.step appendClausePairs[0] (by simp [appendClausePairs]) (assignList [y]) ?_ (Resolves.nil 0)
    simp [appendClausePairs, Term.a3, substT, substA, assignList, Term.nilT]
  | a :: rest => by
    refine Resolves.step appendClausePairs[1] (by simp [appendClausePairs])
      (assignList [a, Term.list rest, y, Term.list rest y]) ?_ ?_
    · simp [appendClausePairs, Term.a3, Term.consT, substT, substA, assignList]
    · have := resolves_append y rest
      simpa [appendClausePairs, Term.a3, substT, substA, assignList] using this

/-! ### the executable side conditions imply the propositional ones -/

theorem unifyDefined_of_B {a b : Term} (h : unifyDefinedB a b = true) : UnifyDefined a b := by
  simp only [unifyDefinedB, Bool.or_eq_true] at h
  rcases h with (h | h) | h
  · exact Or.inl h
  · exact Or.inr (Or.inl h)
  · refine Or.inr (Or.inr ?_)
    intro hn; rw [hn] at h; cases h

theorem sldDefined_of_B {clauses : List Clause} : (f : Nat) → (goals args : List Term) →
    sldDefinedB clauses f goals args = true → SldDefined clauses f goals args
  | 0, _, _, _ => trivial
  | _ + 1, [], _, _ => trivial
  | f + 1, g :: gs, args, h => by
    simp only [sldDefinedB, List.all_eq_true, Bool.and_eq_true] at h
    intro c hc
    obtain ⟨h1, h2⟩ := h c hc
    refine ⟨unifyDefined_of_B h1, ?_⟩
    intro δ hδ
    rw [hδ] at h2
    exact sldDefined_of_B f _ _ h2
end PrologVerif.Rel
