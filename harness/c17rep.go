package main

// C17, stream c17.rep: representation independence of the DCG translation.
//
// A grammar body (or a rule handed to expand_term/2) whose parts are BUILT AT RUN TIME, in the
// same query as the phrase/2,3 or expand_term/2 call: non-terminals with many arguments made by
// =.., read/1 or functor/3 (argument slices with spare capacity), the same term object reached
// twice through one variable (sequence, both branches of ;, inside \+, call//N, phrase//1),
// terminal and push-back lists whose spine runs through variables bound by another goal (tails
// bound later / earlier, aliases, a string as tail, chains of '.'/2 compounds, append/3,
// atom_chars/2, findall/3).  The abstract term is ordinary, so the expected answers are those of
// the substituted body: the Lean driver only sees "template + steps" and substitutes.
//
// payload:  flags ; ITEM ; ITEM …      ITEM = wire(template) wire(step(How, V, T)) …
//   mode=phrase: first item = start body, the others = rules (loaded from text);
//                every input list up to len over {x,y,z}, phrase/3 and phrase/2, and generation
//   mode=expand: one item = a rule; expand_term/2 is called TWICE on it in one query

import (
	"fmt"
	"math/rand"
	"runtime/debug"
	"strconv"
	"strings"
	"sync"

	"github.com/ichiban/prolog/engine"
)

func init() {
	register(&stream{name: "c17.rep", gen: genC17Rep, run: runC17Rep})
}

// ---------------------------------------------------------------------------------------------
// generator
// ---------------------------------------------------------------------------------------------

type repGen struct {
	r       *rand.Rand
	vars    []engine.Variable // ordinary variables of the query
	steps   []engine.Term
	arities map[int]bool
	twice   bool
	isNT    map[engine.Term]bool // placeholders bound to a non-terminal (usable with call//1)
}

func (g *repGen) ordVar() engine.Term {
	if len(g.vars) > 0 && g.r.Intn(2) == 0 {
		return pick(g.r, g.vars)
	}
	v := engine.NewVariable()
	g.vars = append(g.vars, v)
	return v
}

func (g *repGen) letter() engine.Term { return atom(pick(g.r, c17Alphabet)) }

// arity of a non-terminal: the interesting ones are those whose argument slice, as the parser or
// =.. builds it, has at least two spare slots (4..6, 9..14)
func (g *repGen) arity() int {
	switch k := g.r.Intn(20); {
	case k < 3:
		return g.r.Intn(4)
	case k < 11:
		return 4 + g.r.Intn(3)
	case k < 13:
		return 7 + g.r.Intn(2)
	default:
		return 9 + g.r.Intn(6)
	}
}

// ntTerm: n<k>(args); ground = no variables (needed for read/1)
func (g *repGen) ntTerm(k int, ground bool) engine.Term {
	g.arities[k] = true
	name := "n" + strconv.Itoa(k)
	if k == 0 {
		return atom(name)
	}
	as := make([]engine.Term, k)
	used := map[engine.Term]bool{}
	for i := range as {
		if !ground && i < 2 && g.r.Intn(4) == 0 {
			v := g.ordVar()
			if used[v] { // at most once per argument list
				v = g.letter()
			}
			used[v] = true
			as[i] = v
		} else {
			as[i] = g.letter()
		}
	}
	return compound(name, as...)
}

func (g *repGen) place(how string, t engine.Term) engine.Term {
	v := engine.NewVariable()
	g.steps = append(g.steps, compound("step", atom(how), v, t))
	return v
}

// a non-terminal built at run time
func (g *repGen) placeNT() engine.Term {
	k := g.arity()
	if k == 0 {
		return g.place(pick(g.r, []string{"lit", "alias", "aliasrev"}), g.ntTerm(0, true))
	}
	switch c := g.r.Intn(10); {
	case c < 5:
		return g.place("univ", g.ntTerm(k, false))
	case c < 7:
		return g.place("read", g.ntTerm(k, true))
	case c < 8:
		return g.place("functor", g.ntTerm(k, false))
	case c < 9:
		return g.place("alias", g.ntTerm(k, false))
	default:
		return g.place("lit", g.ntTerm(k, false))
	}
}

func (g *repGen) elems(n int, allowVar bool) []engine.Term {
	es := make([]engine.Term, n)
	for i := range es {
		if allowVar && g.r.Intn(8) == 0 {
			es[i] = g.ordVar()
		} else {
			es[i] = g.letter()
		}
	}
	return es
}

// a terminal (or push-back) list built at run time
func (g *repGen) placeTL() engine.Term {
	n := 1 + g.r.Intn(3)
	switch c := g.r.Intn(20); {
	case c < 6:
		return g.place("tails", engine.List(g.elems(n, true)...))
	case c < 9:
		return g.place("tailsrev", engine.List(g.elems(n, true)...))
	case c < 10:
		return g.place("tailstr", engine.List(g.elems(1+n, false)...))
	case c < 11: // the same with character codes (double_quotes = codes)
		cs := make([]engine.Term, 1+n)
		for i := range cs {
			cs[i] = engine.Integer(120 + g.r.Intn(3))
		}
		return g.place("tailcodes", engine.List(cs...))
	case c < 13:
		return g.place(pick(g.r, []string{"alias", "aliasrev"}), engine.List(g.elems(n, true)...))
	case c < 15:
		return g.place("append", engine.List(g.elems(n, true)...))
	case c < 16:
		return g.place("chars", engine.List(g.elems(n, false)...))
	case c < 18:
		return g.place("dot", engine.List(g.elems(n, true)...))
	case c < 19:
		return g.place("findall", engine.List(g.elems(n, false)...))
	default:
		return g.place("lit", engine.List(g.elems(n, true)...))
	}
}

func (g *repGen) terminal() engine.Term { return engine.List(g.letter()) }

// a composite body built at run time from (possibly run-time built) parts
func (g *repGen) placeCB(parts []engine.Term) engine.Term {
	p := func() engine.Term {
		if len(parts) > 0 && g.r.Intn(3) != 0 {
			return pick(g.r, parts)
		}
		return g.terminal()
	}
	var t engine.Term
	switch g.r.Intn(5) {
	case 0:
		t = compound(",", p(), p())
	case 1:
		t = compound(";", p(), p())
	case 2:
		t = compound("\\+", p())
	case 3:
		t = compound(",", p(), compound(";", p(), g.terminal()))
	default:
		t = compound("|", p(), p())
	}
	return g.place(pick(g.r, []string{"univ", "univ", "lit", "alias"}), t)
}

// a template over the placeholders: every pattern reaches some placeholder twice
func (g *repGen) pattern(ps []engine.Term) engine.Term {
	p := pick(g.r, ps)
	q := pick(g.r, ps)
	t, u := g.terminal(), g.terminal()
	g.twice = true
	switch g.r.Intn(18) {
	case 0:
		return compound(",", p, p)
	case 1:
		return compound(";", compound(",", p, t), compound(",", p, u))
	case 2:
		return compound(",", compound("\\+", p), p)
	case 3:
		return compound(";", compound("\\+", compound(",", p, p)), p)
	case 4:
		return compound(";", p, p)
	case 5:
		return compound(",", p, compound(",", q, p))
	case 6:
		return compound(";", compound("->", p, q), p)
	case 7:
		if !g.isNT[p] { // call//1 adds two arguments to its closure: only for a non-terminal
			return compound(",", compound("phrase", p), p)
		}
		return compound(",", compound("call", p), p)
	case 8:
		return compound(",", compound("phrase", p), compound(";", p, t))
	case 9:
		return compound(",", t, compound(",", p, compound(",", u, p)))
	case 10:
		return compound("|", compound(",", p, q), compound(",", q, p))
	case 11:
		return compound(",", p, compound(",", atom("!"), p))
	case 12:
		return compound(",", compound("kw", p), p)
	case 13:
		return compound(",", compound("{}", atom("true")), compound(",", p, compound("\\+", compound(",", p, compound(",", p, p)))))
	case 14:
		g.twice = false
		return p
	case 15: // control constructs that are themselves built at run time
		switch g.r.Intn(4) {
		case 0: // ( If -> Then ; Else ) whose left side is only known at run time
			th := g.place(pick(g.r, []string{"univ", "alias", "lit"}), compound("->", p, q))
			return compound(";", th, compound(",", p, t))
		case 1: // a cut (as a direct element of the top-level sequence)
			c := g.place(pick(g.r, []string{"alias", "aliasrev", "lit"}), atom("!"))
			return compound(",", p, compound(",", c, compound(";", p, t)))
		case 2:
			e := g.place(pick(g.r, []string{"alias", "lit"}), atom("[]"))
			return compound(",", p, compound(",", e, p))
		default:
			b := g.place(pick(g.r, []string{"univ", "lit"}), compound("{}", atom("true")))
			return compound(",", b, compound(",", p, compound(",", b, p)))
		}
	default:
		g.twice = p == q
		return compound(",", p, q)
	}
}

// call//N with a closure built at run time, twice
func (g *repGen) closurePattern() engine.Term {
	k := 2 + g.arity()
	if k > 14 {
		k = 14
	}
	full := g.ntTerm(k, false).(engine.Compound)
	extra := 1 + g.r.Intn(2)
	cargs := make([]engine.Term, k-extra)
	for i := range cargs {
		cargs[i] = full.Arg(i)
	}
	rest := make([]engine.Term, extra)
	for i := range rest {
		rest[i] = full.Arg(k - extra + i)
	}
	how := pick(g.r, []string{"univ", "univ", "lit", "functor"})
	if len(cargs) == 0 {
		how = pick(g.r, []string{"lit", "alias", "univ"})
	}
	cl := g.place(how, compound("n"+strconv.Itoa(k), cargs...))
	call := compound("call", append([]engine.Term{cl}, rest...)...)
	g.twice = true
	if g.r.Intn(2) == 0 {
		return compound(",", call, call)
	}
	return compound(";", compound(",", call, g.terminal()), call)
}

func (g *repGen) placeholders() []engine.Term {
	var ps []engine.Term
	n := 1 + g.r.Intn(2)
	for i := 0; i < n; i++ {
		switch c := g.r.Intn(10); {
		case c < 5:
			p := g.placeNT()
			g.isNT[p] = true
			ps = append(ps, p)
		case c < 9:
			ps = append(ps, g.placeTL())
		default:
			ps = append(ps, g.placeCB(ps))
		}
	}
	return ps
}

func repRules(arities map[int]bool) []engine.Term {
	var rules []engine.Term
	for k := 0; k <= 16; k++ {
		if !arities[k] {
			continue
		}
		name := "n" + strconv.Itoa(k)
		if k == 0 {
			rules = append(rules, compound("-->", atom(name), engine.List(atom("x"))))
			continue
		}
		as := make([]engine.Term, k)
		for i := range as {
			as[i] = engine.NewVariable()
		}
		rules = append(rules, compound("-->", compound(name, as...), engine.List(as[0])))
		if k >= 2 && k%2 == 0 {
			bs := make([]engine.Term, k)
			for i := range bs {
				bs[i] = engine.NewVariable()
			}
			rules = append(rules, compound("-->", compound(name, bs...), compound(",", engine.List(bs[1]), engine.List(bs[0]))))
		}
	}
	v := engine.NewVariable()
	rules = append(rules, compound("-->", compound("kw", v), v))
	return rules
}

func repItem(template engine.Term, steps []engine.Term) string {
	vn := newVarNamer()
	ws := []string{wire(template, nil, vn)}
	for _, s := range steps {
		ws = append(ws, wire(s, nil, vn))
	}
	return strings.Join(ws, " ")
}

func genC17RepCase(r *rand.Rand) string {
	g := &repGen{r: r, arities: map[int]bool{}, isNT: map[engine.Term]bool{}}
	if r.Intn(10) < 3 { // expand_term/2 twice on a rule with run-time built parts
		var head engine.Term
		switch r.Intn(3) {
		case 0:
			head = atom("h")
		case 1:
			k := 4 + r.Intn(3)
			as := make([]engine.Term, k)
			for i := range as {
				as[i] = g.ordVar()
			}
			head = g.place(pick(r, []string{"univ", "univ", "functor", "lit"}), compound("item", as...))
		default:
			head = compound("h", g.ordVar())
		}
		ps := g.placeholders()
		var body engine.Term
		if r.Intn(5) == 0 {
			body = g.closurePattern()
		} else {
			body = g.pattern(ps)
		}
		if r.Intn(3) == 0 { // push-back
			var pb engine.Term
			if r.Intn(4) == 0 {
				pb = engine.List(g.elems(1+r.Intn(2), false)...)
			} else {
				pb = g.placeTL()
			}
			head = compound(",", head, pb)
			if r.Intn(3) == 0 { // the pair (Head, PushBack) itself
				head = g.place(pick(r, []string{"univ", "alias", "lit"}), head)
			}
		}
		rule := compound("-->", head, body)
		if r.Intn(5) == 0 { // the whole rule
			rule = g.place(pick(r, []string{"univ", "alias", "aliasrev"}), rule)
		}
		return "mode=expand ; " + repItem(rule, g.steps)
	}
	ps := g.placeholders()
	var start engine.Term
	if r.Intn(6) == 0 {
		start = g.closurePattern()
	} else {
		start = g.pattern(ps)
	}
	via := "top"
	if r.Intn(4) == 0 {
		via = "clause"
	}
	parts := []string{fmt.Sprintf("len=3 gen=1 mode=phrase via=%s", via), repItem(start, g.steps)}
	for _, rule := range repRules(g.arities) {
		parts = append(parts, repItem(rule, nil))
	}
	return strings.Join(parts, " ; ")
}

func genC17Rep(r *rand.Rand, n int, tier string) []string {
	var out []string
	for i := 0; i < n; i++ {
		out = append(out, genC17RepCase(r))
	}
	return out
}

// ---------------------------------------------------------------------------------------------
// runner
// ---------------------------------------------------------------------------------------------

type repStep struct {
	how string
	v   engine.Variable
	t   engine.Term
}

func repSubst(t engine.Term, m map[engine.Variable]engine.Term, depth int) engine.Term {
	switch t := t.(type) {
	case engine.Variable:
		if u, ok := m[t]; ok && depth > 0 {
			return repSubst(u, m, depth-1)
		}
		return t
	case engine.Compound:
		args := make([]engine.Term, t.Arity())
		for i := range args {
			args[i] = repSubst(t.Arg(i), m, depth)
		}
		return t.Functor().Apply(args...)
	}
	return t
}

func repListElems(t engine.Term) []engine.Term {
	var es []engine.Term
	for {
		c, ok := t.(engine.Compound)
		if !ok || c.Functor().String() != "." || c.Arity() != 2 {
			return es
		}
		es = append(es, c.Arg(0))
		t = c.Arg(1)
	}
}

// goals builds the construction goals of one step; reads: texts that must be on user_input
func (s repStep) goals(reads *[]string) []engine.Term {
	eq := func(a, b engine.Term) engine.Term { return compound("=", a, b) }
	univ := func(v, t engine.Term) engine.Term {
		if c, ok := t.(engine.Compound); ok {
			l := []engine.Term{c.Functor()}
			for i := 0; i < c.Arity(); i++ {
				l = append(l, c.Arg(i))
			}
			return compound("=..", v, engine.List(l...))
		}
		return compound("=..", v, engine.List(t))
	}
	switch s.how {
	case "lit":
		return []engine.Term{eq(s.v, s.t)}
	case "alias":
		w := engine.NewVariable()
		return []engine.Term{eq(s.v, w), eq(w, s.t)}
	case "aliasrev":
		w := engine.NewVariable()
		return []engine.Term{eq(w, s.t), eq(s.v, w)}
	case "univ":
		return []engine.Term{univ(s.v, s.t)}
	case "functor":
		c := s.t.(engine.Compound)
		return []engine.Term{compound("functor", s.v, c.Functor(), engine.Integer(c.Arity())), eq(s.v, s.t)}
	case "read":
		*reads = append(*reads, c17Text(s.t, false, map[engine.Variable]string{})+".")
		return []engine.Term{compound("read", s.v)}
	case "tails", "tailsrev":
		es := repListElems(s.t)
		var gs []engine.Term
		cur := engine.Term(s.v)
		for i, e := range es {
			if i == len(es)-1 {
				gs = append(gs, eq(cur, engine.List(e)))
			} else {
				tl := engine.NewVariable()
				gs = append(gs, eq(cur, engine.PartialList(tl, e)))
				cur = tl
			}
		}
		if s.how == "tailsrev" {
			for i, j := 0, len(gs)-1; i < j; i, j = i+1, j-1 {
				gs[i], gs[j] = gs[j], gs[i]
			}
		}
		return gs
	case "tailstr":
		es := repListElems(s.t)
		var sb strings.Builder
		for _, e := range es[1:] {
			sb.WriteString(e.(engine.Atom).String())
		}
		tl := engine.NewVariable()
		return []engine.Term{eq(s.v, engine.PartialList(tl, es[0])), eq(tl, engine.CharList(sb.String()))}
	case "tailcodes":
		es := repListElems(s.t)
		var sb strings.Builder
		for _, e := range es[1:] {
			sb.WriteByte(byte(e.(engine.Integer)))
		}
		tl := engine.NewVariable()
		return []engine.Term{eq(s.v, engine.PartialList(tl, es[0])), eq(tl, engine.CodeList(sb.String()))}
	case "append":
		es := repListElems(s.t)
		k := len(es) / 2
		return []engine.Term{compound("append", engine.List(es[:k]...), engine.List(es[k:]...), s.v)}
	case "chars":
		var sb strings.Builder
		for _, e := range repListElems(s.t) {
			sb.WriteString(e.(engine.Atom).String())
		}
		return []engine.Term{compound("atom_chars", atom(sb.String()), s.v)}
	case "dot":
		es := repListElems(s.t)
		var gs []engine.Term
		tail := engine.Term(atom("[]"))
		for i := len(es) - 1; i >= 0; i-- {
			var c engine.Term = engine.NewVariable()
			if i == 0 {
				c = s.v
			}
			gs = append(gs, compound("=..", c, engine.List(atom("."), es[i], tail)))
			tail = c
		}
		return gs
	case "findall":
		x := engine.NewVariable()
		return []engine.Term{compound("findall", x, compound("member", x, s.t), s.v)}
	}
	panic("c17.rep: unknown step " + s.how)
}

type repItemT struct {
	template engine.Term
	steps    []repStep
}

func repParseItem(text string) repItemT {
	ts, err := newTermDecoder().terms(text)
	must(err)
	it := repItemT{template: ts[0]}
	for _, s := range ts[1:] {
		c := s.(engine.Compound)
		it.steps = append(it.steps, repStep{how: c.Arg(0).(engine.Atom).String(), v: c.Arg(1).(engine.Variable), t: c.Arg(2)})
	}
	return it
}

func (it repItemT) abstract() engine.Term {
	m := map[engine.Variable]engine.Term{}
	for _, s := range it.steps {
		m[s.v] = s.t
	}
	return repSubst(it.template, m, len(it.steps)+1)
}

func repConj(gs ...engine.Term) engine.Term {
	t := gs[len(gs)-1]
	for i := len(gs) - 2; i >= 0; i-- {
		t = compound(",", gs[i], t)
	}
	return t
}

var repStackOnce sync.Once

func runC17Rep(payload string) string {
	// a translation that aliases its source term can build a cyclic term, on which the engine's
	// unification recurses without end: die quickly (the check attributes the crash to the case)
	// instead of filling the default 1 GB stack first
	repStackOnce.Do(func() { debug.SetMaxStack(64 << 20) })
	parts := strings.Split(payload, " ; ")
	flags := map[string]string{}
	for _, kv := range strings.Fields(parts[0]) {
		if i := strings.IndexByte(kv, '='); i > 0 {
			flags[kv[:i]] = kv[i+1:]
		}
	}
	first := repParseItem(parts[1])
	var reads []string
	var stepGoals []engine.Term
	hows := map[string]bool{}
	for _, s := range first.steps {
		stepGoals = append(stepGoals, s.goals(&reads)...)
		hows[s.how] = true
	}
	// enough copies of the read/1 input for every query of the case
	input := strings.Repeat(strings.Join(reads, " ")+"\n", 200)
	if len(reads) == 0 {
		input = ""
	}
	i, _ := newInterp(input)
	abs := first.abstract()
	maxAr := 0
	for k := 0; k <= 16; k++ {
		if strings.Contains(payload, fmt.Sprintf(":n%d ", k)) && k > maxAr {
			maxAr = k
		}
	}
	howTags := ""
	for _, h := range []string{"univ", "read", "functor", "tails", "tailsrev", "tailstr", "tailcodes", "alias", "aliasrev", "append", "chars", "dot", "findall", "lit"} {
		if hows[h] {
			howTags += " how_" + h + "=1"
		}
	}
	twice := 0
	counts := map[engine.Variable]int{}
	var countVars func(t engine.Term)
	countVars = func(t engine.Term) {
		switch t := t.(type) {
		case engine.Variable:
			counts[t]++
		case engine.Compound:
			for k := 0; k < t.Arity(); k++ {
				countVars(t.Arg(k))
			}
		}
	}
	countVars(first.template)
	for _, s := range first.steps {
		countVars(s.t)
	}
	for _, s := range first.steps {
		if counts[s.v] >= 2 {
			twice = 1
		}
	}
	nt := 0
	if twice == 1 || hows["tails"] || hows["tailsrev"] || hows["tailstr"] || hows["tailcodes"] || hows["alias"] || hows["aliasrev"] || hows["dot"] {
		nt = 1
	}
	tags := fmt.Sprintf(" ### nt=%d mode=%s via=%s twice=%d max_arity=%d steps=%d%s", nt, flags["mode"], flags["via"], twice, maxAr, len(first.steps), howTags)

	if flags["mode"] == "expand" {
		c1, c2 := engine.NewVariable(), engine.NewVariable()
		goal := repConj(append(append([]engine.Term{}, stepGoals...),
			compound("expand_term", first.template, c1), compound("expand_term", first.template, c2))...)
		rows, err := solveAll(&i.VM, goal, compound("p", first.template, c1, c2), 4)
		if err != nil {
			return "x2 " + strings.Join(append(rows, errWire(err)), " | ") + tags
		}
		return "x2 " + strings.Join(rows, " | ") + tags
	}

	// mode=phrase: the rules are loaded from text
	var sb strings.Builder
	for _, p := range parts[2:] {
		sb.WriteString(c17Text(repParseItem(p).abstract(), false, map[engine.Variable]string{}))
		sb.WriteString(".\n")
	}
	if err := i.Exec(sb.String()); err != nil {
		return "loaderr " + errWire(err) + " ### nt=0 mode=phrase"
	}
	maxLen, _ := strconv.Atoi(flags["len"])
	var vars []engine.Term
	c17Vars(abs, map[engine.Variable]bool{}, &vars)

	// the query: construction goals and the phrase call in ONE conjunction (or one stored clause)
	call3 := func(lt, r engine.Term) engine.Term {
		return repConj(append(append([]engine.Term{}, stepGoals...), compound("phrase", first.template, lt, r))...)
	}
	call2 := func(lt engine.Term) engine.Term {
		return repConj(append(append([]engine.Term{}, stepGoals...), compound("phrase", first.template, lt))...)
	}
	if flags["via"] == "clause" {
		l, rem := engine.NewVariable(), engine.NewVariable()
		q3, q2 := call3(l, rem), call2(l)
		h3 := compound("$rep3", append([]engine.Term{l, rem}, vars...)...)
		h2 := compound("$rep2", append([]engine.Term{l}, vars...)...)
		for _, cl := range []engine.Term{compound(":-", h3, q3), compound(":-", h2, q2)} {
			if res := solveOnce(&i.VM, compound("assertz", cl)); res != "true" {
				return "loaderr " + res + " ### nt=0 mode=phrase"
			}
		}
		call3 = func(lt, r engine.Term) engine.Term {
			return compound("$rep3", append([]engine.Term{lt, r}, vars...)...)
		}
		call2 = func(lt engine.Term) engine.Term {
			return compound("$rep2", append([]engine.Term{lt}, vars...)...)
		}
	}
	bud := &c17Budget{}
	var res []string
	for k, lst := range c17Lists(maxLen) {
		lt := engine.List(lst...)
		r := engine.NewVariable()
		if out := c17Solve(&i.VM, call3(lt, r), compound("t", append(append([]engine.Term{}, vars...), r)...), bud); out != "" {
			res = append(res, fmt.Sprintf("m%d %s", k, out))
		}
		if out := c17Solve(&i.VM, call2(lt), compound("t", append([]engine.Term{atom("-")}, vars...)...), bud); out != "" {
			res = append(res, fmt.Sprintf("r%d %s", k, out))
		}
	}
	if flags["gen"] == "1" {
		gl, gr := engine.NewVariable(), engine.NewVariable()
		if out := c17Solve(&i.VM, call2(gl), compound("t", append(append([]engine.Term{}, vars...), gl)...), bud); out != "" {
			res = append(res, "g "+out)
		}
		if out := c17Solve(&i.VM, call3(gl, gr), compound("t", append(append([]engine.Term{}, vars...), gl, gr)...), bud); out != "" {
			res = append(res, "h "+out)
		}
	}
	return strings.Join(res, " ; ") + tags
}
