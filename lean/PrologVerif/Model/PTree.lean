/-
  Pure promise trees: the instance of the trampoline model used by the `c03.force` stream, where
  the harness builds REAL promises (engine.Delay/Bool/Error and the hook wrappers of cut/catch/
  repeat) from the same description and forces them on the real trampoline.

  A thunk is a tree description; calling it allocates the promise of its root (after performing
  the side effects `log`/`set` sitting on top of it).  The user state records those side effects.
-/
import PrologVerif.Model.Promise
namespace PrologVerif.PTree
open PrologVerif.Promise

mutual
  inductive PT where
    | ok
    | fail
    | err (e : Nat)
    | delay (id : Nat) (alts : PTs)                 -- Delay(k…); id ≥ 1 identifies the promise
    | cut (parent : Nat) (k : PT)                   -- cut(parent, k)
    | catch_ (flag : Nat) (handles : Handles) (k : PT)  -- catch(recover, k); recover consults `flag`
    | rep (k : PT)                                  -- repeat(k)
    | log (n : Nat) (k : PT)                        -- thunk side effect: append n to the trace
    | set (flag : Nat) (b : Bool) (k : PT)          -- thunk side effect: flag := b
  inductive PTs where
    | nil
    | cons (t : PT) (ts : PTs)
  inductive Handles where
    | nil
    | cons (e : Nat) (t : PT) (hs : Handles)
end

def PTs.toList : PTs → List PT
  | .nil => []
  | .cons t ts => t :: ts.toList

def Handles.find : Handles → Nat → Option PT
  | .nil, _ => none
  | .cons e t hs, x => if e = x then some t else hs.find x

/-- user state of the pure model -/
structure St where
  trace : List Nat := []          -- newest first
  flags : List (Nat × Bool) := [] -- newest first; unset = true (a catch is born active)
  created : List Nat := []        -- ids of the delay promises allocated so far

def St.flag (s : St) (f : Nat) : Bool := (s.flags.lookup f).getD true

/-- recovery handler of a catch node -/
structure Handler where
  flag : Nat
  handles : Handles

abbrev Pr := P PT Handler Nat

/-- calling a thunk: perform the side effects on top, then allocate the promise of the node -/
def evalThunk : PT → M St → Pr × M St
  | .ok, m => ({ ok := true }, m)
  | .fail, m => ({ }, m)
  | .err e, m => ({ err := some e }, m)
  | .delay id alts, m =>
    ({ id := id, delayed := alts.toList }, { m with user := { m.user with created := id :: m.user.created } })
  | .cut parent k, m =>
    -- the harness passes the real *Promise of `parent` if it has been allocated, else nil (= dummy)
    ({ delayed := [k], cutParent := some (if m.user.created.contains parent then parent else 0) }, m)
  | .catch_ flag hs k, m => ({ delayed := [k], recover := some ⟨flag, hs⟩ }, m)
  | .rep k, m => ({ delayed := [k], rep := true }, m)
  | .log n k, m => evalThunk k { m with user := { m.user with trace := n :: m.user.trace } }
  | .set f b k, m => evalThunk k { m with user := { m.user with flags := (f, b) :: m.user.flags } }

def evalRecover (h : Handler) (e : Nat) (m : M St) : Option Pr × M St :=
  if m.user.flag h.flag then
    match h.handles.find e with
    | some t => let r := evalThunk t m; (some r.1, r.2)
    | none => (none, m)
  else (none, m)

def sem : Sem PT Handler Nat St where
  evalThunk := fun _ t m => some (evalThunk t m)
  evalRecover := evalRecover

/-- force the promise of a tree from the initial state -/
def run (fuel : Nat) (cancelAt : Option Nat) (t : PT) : Option (Res Nat × M St) :=
  let r := evalThunk t { user := {} }
  force sem cancelAt fuel [r.1] r.2

end PrologVerif.PTree
