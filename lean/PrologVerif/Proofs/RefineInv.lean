/-
  Refine, part 3 — the invariant of the VM's environment and its preservation by `unify`.

  `MG N e σ`: every binding of `e` is below the counter `N` and binds to a term whose variables are
  non-zero and below `N` (`EOk`); σ is THE idempotent most general solution of `e` (`IsMGU`), also
  general in infinite trees (`IGeneral`).  The VM unifies without occurs check; the invariant is
  nevertheless preserved by a successful `unify` WHENEVER THE NEW ENVIRONMENT HAS A SOLUTION IN
  FINITE TERMS (then no binding of the run can have closed a cycle) — `unify_mg`, and along a chain
  of unifications `uchain_mg`.  Rebinding the context variable 0 (what `arrive` does) preserves it too.
-/
import PrologVerif.Proofs.RefineHead
import PrologVerif.Proofs.RefineRobinson
namespace PrologVerif.Refine
open PrologVerif PrologVerif.VM PrologVerif.Activation PrologVerif.RefineITree PrologVerif.RefineRobinson

def TOkA (N : Nat) (as : Args) : Prop := ∀ v, as.hasVar v = true → 0 < v ∧ v < N

/-- bindings are below `N`, bound terms have their variables in `(0, N)` -/
def EOk (N : Nat) (e : Env) : Prop := ∀ v t, e.lookup v = some t → v < N ∧ TOk N t

theorem EOk.mono {N N' : Nat} {e : Env} (h : EOk N e) (hN : N ≤ N') : EOk N' e :=
  fun v t hl => ⟨Nat.lt_of_lt_of_le (h v t hl).1 hN, (h v t hl).2.mono hN⟩

theorem EOk.solBelow {N : Nat} {e : Env} (h : EOk N e) : SolBelow N e :=
  SolBelow.of_vars (fun v t hl => ⟨(h v t hl).1, fun w hw => ((h v t hl).2 w hw).2⟩)

theorem eok_nil (N : Nat) : EOk N [] := fun v t h => by simp [Env.lookup] at h

theorem resolve_tok {N : Nat} : ∀ (n : Nat) (e : Env) (t t' : Term),
    resolve n e t = some t' → EOk N e → TOk N t → TOk N t'
  | 0, e, .var v, t', h, _, _ => by simp [resolve] at h
  | n + 1, e, .var v, t', h, he, ht => by
    simp only [resolve] at h
    split at h
    · simp at h; subst h; exact ht
    · rename_i t2 hl
      exact resolve_tok n e t2 t' h he (he v t2 hl).2
  | _, e, .atom s, t', h, _, ht => by simp [resolve] at h; subst h; exact ht
  | _, e, .int s, t', h, _, ht => by simp [resolve] at h; subst h; exact ht
  | _, e, .flt s, t', h, _, ht => by simp [resolve] at h; subst h; exact ht
  | _, e, .str s, t', h, _, ht => by simp [resolve] at h; subst h; exact ht
  | _, e, .app f as, t', h, _, ht => by simp [resolve] at h; subst h; exact ht

structure MG (N : Nat) (e : Env) (σ : Subst) : Prop where
  eok : EOk N e
  mgu : IsMGU e σ
  igen : IGeneral e σ
  /-- the context variable 0 is unbound or bound to a term without variables -/
  zero : ∀ t, e.lookup 0 = some t → ∀ x, t.hasVar x = false

theorem MG.mono {N N' : Nat} {e : Env} {σ : Subst} (h : MG N e σ) (hN : N ≤ N') : MG N' e σ :=
  ⟨h.eok.mono hN, h.mgu, h.igen, h.zero⟩

theorem mg_nil (N : Nat) : MG N [] (fun v => .var v) :=
  ⟨eok_nil N, isMGU_empty, igeneral_nil, fun t h => by simp [Env.lookup] at h⟩

/-- binding an unbound variable to a resolved term, when the result is solvable -/
theorem mg_bind {N : Nat} {e : Env} {σ : Subst} (h : MG N e σ) (v : Nat) (y' : Term)
    (hv : e.lookup v = none) (hvN : 0 < v ∧ v < N) (hy : TOk N y')
    (hres : ∀ w, y' = .var w → e.lookup w = none) (hne : y' ≠ .var v)
    (hsol : ∃ θ, Sol (e.bind v y') θ) : ∃ σ', MG N (e.bind v y') σ' := by
  obtain ⟨θ, hθ⟩ := hsol
  rw [sol_bind e v y' θ hv] at hθ
  have hocc : (y'.subst σ).hasVar v = false := by
    cases hh : (y'.subst σ).hasVar v with
    | false => rfl
    | true =>
      exfalso
      have hne' : y'.subst σ ≠ .var v := by
        intro heq
        cases y' with
        | var w =>
          have := h.mgu.idUnbound w (hres w rfl)
          simp only [Term.subst, this, Term.var.injEq] at heq
          exact hne (by rw [heq])
        | _ => simp [Term.subst] at heq
      have := occurs_no_solution hh hne' θ
      rw [h.mgu.subst_general θ hθ.1 y'] at this
      exact this hθ.2
  refine ⟨_, ?_, isMGU_bind e σ v y' h.mgu hv hocc, igeneral_bind v y' h.igen hv, ?_⟩
  · intro w t hl
    rw [Env.lookup_bind] at hl
    by_cases hvw : v = w
    · subst hvw
      simp only [if_true, Option.some.injEq] at hl
      subst hl
      exact ⟨hvN.2, hy⟩
    · simp only [hvw, if_false] at hl
      exact h.eok w t hl
  · intro t hl
    rw [Env.lookup_bind, if_neg (by omega)] at hl
    exact h.zero t hl

mutual
  /-- **one unification**: the invariant survives a successful unchecked `unify` whose resulting
      environment is solvable in finite terms -/
  theorem unify_mg {N : Nat} : ∀ (n : Nat) (e : Env) (x y : Term) (e' : Env),
      unify n false e x y = some (e', .ok) → (∃ σ, MG N e σ) → TOk N x → TOk N y →
      (∃ θ, Sol e' θ) → ∃ σ', MG N e' σ'
    | 0, _, _, _, _, h, _, _, _, _ => by simp [unify] at h
    | n + 1, e, x, y, e', h, ⟨σ, hσ⟩, hx, hy, hsol => by
      simp only [unify] at h
      split at h
      · rename_i x' y' hrx hry
        have hx' : TOk N x' := resolve_tok n e x x' hrx hσ.eok hx
        have hy' : TOk N y' := resolve_tok n e y y' hry hσ.eok hy
        split at h
        · rename_i v
          have hv : e.lookup v = none := resolve_var_unbound n e x v hrx
          split at h
          · simp only [Option.some.injEq, Prod.mk.injEq] at h; exact ⟨σ, h.1 ▸ hσ⟩
          · rename_i hne
            simp only [Bool.false_eq_true, if_false, Option.some.injEq, Prod.mk.injEq, and_true] at h
            subst h
            exact mg_bind hσ v y' hv (hx' v (by simp [Term.hasVar])) hy'
              (fun w hw => resolve_var_unbound n e y w (hw ▸ hry)) hne hsol
        · exact unify_mg n e _ x' e' h ⟨σ, hσ⟩ hy' hx' hsol
        · rename_i f as g bs
          split at h
          · simp at h
          · split at h
            · simp at h
            · exact unifyArgs_mg n e as bs e' h ⟨σ, hσ⟩
                (fun v hv => hx' v (by simpa [Term.hasVar] using hv))
                (fun v hv => hy' v (by simpa [Term.hasVar] using hv)) hsol
        · simp only [Option.some.injEq, Prod.mk.injEq] at h; exact ⟨σ, h.1 ▸ hσ⟩
      · simp at h
  theorem unifyArgs_mg {N : Nat} : ∀ (n : Nat) (e : Env) (xs ys : Args) (e' : Env),
      unifyArgs n false e xs ys = some (e', .ok) → (∃ σ, MG N e σ) → TOkA N xs → TOkA N ys →
      (∃ θ, Sol e' θ) → ∃ σ', MG N e' σ'
    | 0, _, _, _, _, h, _, _, _, _ => by simp [unifyArgs] at h
    | n + 1, e, .nil, .nil, e', h, hσ, _, _, _ => by
      simp only [unifyArgs, Option.some.injEq, Prod.mk.injEq] at h; exact h.1 ▸ hσ
    | n + 1, e, .nil, .cons _ _, e', h, _, _, _, _ => by simp [unifyArgs] at h
    | n + 1, e, .cons _ _, .nil, e', h, _, _, _, _ => by simp [unifyArgs] at h
    | n + 1, e, .cons a as, .cons b bs, e', h, hσ, hx, hy, hsol => by
      simp only [unifyArgs] at h
      split at h
      · simp at h
      · rename_i e1 h1
        have hsol1 : ∃ θ, Sol e1 θ := by
          obtain ⟨θ, hθ⟩ := hsol
          exact ⟨θ, ((unifyArgs_spec n false e1 as bs e' .ok h θ).1 hθ).1⟩
        exact unifyArgs_mg n e1 as bs e' h
          (unify_mg n e a b e1 h1 hσ (fun v hv => hx v (by simp [Args.hasVar, hv]))
            (fun v hv => hy v (by simp [Args.hasVar, hv])) hsol1)
          (fun v hv => hx v (by simp [Args.hasVar, hv])) (fun v hv => hy v (by simp [Args.hasVar, hv])) hsol
      · rename_i e1 r1 hne h1
        simp only [Option.some.injEq, Prod.mk.injEq] at h
        exact absurd h.2 (fun hr => hne (by rw [hr]))
end

/-! ### along a chain -/

theorem UChain.sol_back {N N' : Nat} {e e' : Env} (h : UChain N e N' e') {θ : Subst} (hs : Sol e' θ) :
    Sol e θ := by
  induction h with
  | refl _ => exact hs
  | step _ _ _ hu _ ih => exact ((unify_spec _ _ _ _ _ _ _ hu _).1 (ih hs)).1

theorem UChain.isol_back {N N' : Nat} {e e' : Env} (h : UChain N e N' e') {θ : IAsg} (hs : ISol e' θ) :
    ISol e θ := by
  induction h with
  | refl _ => exact hs
  | step _ _ _ hu _ ih => exact (unify_isound _ _ _ _ _ _ hu _ (ih hs)).1

theorem UChain.chainOK {N N' : Nat} {e e' : Env} (h : UChain N e N' e') (hc : ChainOK e) : ChainOK e' := by
  induction h with
  | refl _ => exact hc
  | step _ _ _ hu _ ih => exact ih (unify_chainOK _ _ _ _ _ _ hc hu)

/-- **along a chain of unifications** ending in a solvable environment -/
theorem uchain_mg {N N' : Nat} {e e' : Env} (h : UChain N e N' e') (hσ : ∃ σ, MG N e σ)
    (hsol : ∃ θ, Sol e' θ) : ∃ σ', MG N' e' σ' := by
  induction h with
  | refl hN => obtain ⟨σ, hσ⟩ := hσ; exact ⟨σ, hσ.mono hN⟩
  | step hN ha hb hu hc ih =>
    obtain ⟨σ, hσ⟩ := hσ
    obtain ⟨θ, hθ⟩ := hsol
    exact ih (unify_mg _ _ _ _ _ hu ⟨σ, hσ.mono hN⟩ ha hb ⟨θ, hc.sol_back hθ⟩) ⟨θ, hθ⟩

/-! ### the idempotent solution only mentions what the environment mentions -/

/-- σ is the identity on the variables in its range -/
theorem _root_.PrologVerif.IsMGU.fixes {e : Env} {σ : Subst} (h : IsMGU e σ) {v x : Nat} (hx : (σ v).hasVar x = true) :
    σ x = .var x := by
  have hg := h.general σ h.sol v
  -- (σ v).subst σ = σ v: σ fixes every variable of σ v
  have key : ∀ t : Term, t.subst σ = t → ∀ x, t.hasVar x = true → σ x = .var x := by
    intro t
    refine Term.rec (motive_1 := fun t => t.subst σ = t → ∀ x, t.hasVar x = true → σ x = .var x)
      (motive_2 := fun as => as.subst σ = as → ∀ x, as.hasVar x = true → σ x = .var x)
      ?_ ?_ ?_ ?_ ?_ ?_ ?_ ?_ t
    · intro w hw x hx
      simp only [Term.hasVar, beq_iff_eq] at hx
      subst hx
      simpa [Term.subst] using hw
    · intro _ _ x hx; simp [Term.hasVar] at hx
    · intro _ _ x hx; simp [Term.hasVar] at hx
    · intro _ _ x hx; simp [Term.hasVar] at hx
    · intro _ _ x hx; simp [Term.hasVar] at hx
    · intro f as ih hw x hx
      simp only [Term.subst, Term.app.injEq, true_and] at hw
      exact ih hw x (by simpa [Term.hasVar] using hx)
    · intro _ x hx; simp [Args.hasVar] at hx
    · intro t ts iht ihts hw x hx
      simp only [Args.subst, Args.cons.injEq] at hw
      simp only [Args.hasVar, Bool.or_eq_true] at hx
      rcases hx with hx | hx
      · exact iht hw.1 x hx
      · exact ihts hw.2 x hx
  exact key (σ v) hg.symm x hx

/-- a variable that is neither bound nor mentioned by a bound term does not occur in σ v (v ≠ x) -/
theorem _root_.PrologVerif.IsMGU.not_in_range {e : Env} {σ : Subst} (h : IsMGU e σ) {x v : Nat} (hxv : x ≠ v)
    (hran : ∀ w s, e.lookup w = some s → s.hasVar x = false)
    (hx : e.lookup x = none ∨ σ x ≠ .var x) : (σ v).hasVar x = false := by
  cases hh : (σ v).hasVar x with
  | false => rfl
  | true =>
    exfalso
    have hfix := h.fixes hh
    rcases hx with hx | hx
    · -- change the value at x: still a solution
      let θ' : Subst := fun u => if u = x then .atom "" else σ u
      have hs' : Sol e θ' := by
        intro w s hl
        have hwx : w ≠ x := by rintro rfl; rw [hx] at hl; cases hl
        show (if w = x then _ else σ w) = _
        rw [if_neg hwx, h.sol w s hl]
        exact subst_congr s _ _ (fun u hu => by
          have : u ≠ x := by rintro rfl; rw [hran w s hl] at hu; cases hu
          simp [θ', this])
      have hg := h.general θ' hs' v
      have e1 : θ' v = σ v := by simp [θ', Ne.symm hxv]
      have e2 : (σ v).subst θ' = (σ v).subst (upd x (.atom "")) := by
        apply subst_congr
        intro u hu
        by_cases hux : u = x
        · simp [θ', upd, hux]
        · simp [θ', upd, hux, h.fixes hu]
      rw [e1, e2] at hg
      have : ((σ v).subst (upd x (.atom ""))).hasVar x = false := by
        cases h3 : ((σ v).subst (upd x (.atom ""))).hasVar x with
        | false => rfl
        | true =>
          rcases hasVar_subst_upd h3 with ⟨_, h4⟩ | h4
          · exact absurd rfl h4
          · simp [Term.hasVar] at h4
      rw [← hg, hh] at this
      cases this
    · exact hx hfix

/-! ### rebinding the context variable -/

theorem closed_tok {N : Nat} {t : Term} (h : ∀ x, t.hasVar x = false) : TOk N t :=
  fun v hv => by rw [h v] at hv; cases hv

theorem closed_subst {t : Term} (h : ∀ x, t.hasVar x = false) (θ : Subst) : t.subst θ = t := by
  have := subst_congr t θ (fun v => .var v) (fun v hv => by rw [h v] at hv; cases hv)
  rw [this, Term.subst_id]

/-- `arrive` rebinds variable 0 to a ground term -/
theorem mg_rebind0 {N : Nat} {e : Env} {σ : Subst} (h : MG N e σ) (hN : 0 < N) (t : Term)
    (ht : ∀ x, t.hasVar x = false) :
    MG N (e.bind 0 t) (fun u => if u = 0 then t else σ u) := by
  have hσ0 : e.lookup 0 = none ∨ σ 0 ≠ .var 0 := by
    cases hl : e.lookup 0 with
    | none => exact Or.inl rfl
    | some t0 =>
      right
      rw [h.mgu.sol 0 t0 hl, closed_subst (h.zero t0 hl)]
      intro he
      have := h.zero t0 hl 0
      rw [he] at this
      simp [Term.hasVar] at this
  have hran : ∀ w s, e.lookup w = some s → s.hasVar 0 = false := by
    intro w s hl
    cases hh : s.hasVar 0 with
    | false => rfl
    | true => exact absurd ((h.eok w s hl).2 0 hh).1 (Nat.lt_irrefl 0)
  have hσ : ∀ u, u ≠ 0 → (σ u).hasVar 0 = false := fun u hu => h.mgu.not_in_range (Ne.symm hu) hran hσ0
  refine ⟨?_, ?_, igeneral_rebind 0 t h.igen hran hσ ht, ?_⟩
  · intro w s hl
    rw [Env.lookup_bind] at hl
    by_cases hw : 0 = w
    · subst hw
      simp only [if_true, Option.some.injEq] at hl
      subst hl
      exact ⟨hN, closed_tok ht⟩
    · simp only [hw, if_false] at hl
      exact h.eok w s hl
  rotate_left
  · intro t' hl
    rw [Env.lookup_bind] at hl
    simp only [if_true, Option.some.injEq] at hl
    subst hl
    exact ht
  · have hsub : ∀ s : Term, s.hasVar 0 = false →
        s.subst (fun u => if u = 0 then t else σ u) = s.subst σ := by
      intro s hs
      exact subst_congr s _ _ (fun u hu => by
        have : u ≠ 0 := by rintro rfl; rw [hs] at hu; cases hu
        simp [this])
    refine ⟨?_, ?_, ?_⟩
    · intro w s hl
      rw [Env.lookup_bind] at hl
      by_cases hw : 0 = w
      · subst hw
        simp only [if_true, Option.some.injEq] at hl
        subst hl
        simp [closed_subst ht]
      · simp only [hw, if_false] at hl
        have hw' : w ≠ 0 := fun h => hw h.symm
        simp only [hw', if_false]
        rw [h.mgu.sol w s hl, hsub s (hran w s hl)]
    · intro w hl
      rw [Env.lookup_bind] at hl
      by_cases hw : 0 = w
      · simp [hw] at hl
      · simp only [hw, if_false] at hl
        have hw' : w ≠ 0 := fun h => hw h.symm
        simp only [hw', if_false]
        exact h.mgu.idUnbound w hl
    · intro θ hθ w
      by_cases hw : w = 0
      · subst hw
        simp only [if_true]
        have := hθ 0 t (by simp [Env.lookup_bind])
        rw [this]
      · simp only [hw, if_false]
        -- θ with 0 reset to its old value solves e
        let θ' : Subst := fun u => if u = 0 then (match e.lookup 0 with | some s => s.subst θ | none => θ 0) else θ u
        have hagree : ∀ s : Term, s.hasVar 0 = false → s.subst θ' = s.subst θ := by
          intro s hs
          exact subst_congr s _ _ (fun u hu => by
            have : u ≠ 0 := by rintro rfl; rw [hs] at hu; cases hu
            simp [θ', this])
        have hs' : Sol e θ' := by
          intro u s hl
          rw [hagree s (hran u s hl)]
          by_cases hu : u = 0
          · subst hu
            simp [θ', hl]
          · have := hθ u s (by rw [Env.lookup_bind]; simp [Ne.symm hu, hl])
            simp [θ', hu, this]
        have hg := h.mgu.general θ' hs' w
        rw [hagree (σ w) (hσ w hw)] at hg
        simpa [θ', hw] using hg

end PrologVerif.Refine
