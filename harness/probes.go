package main

import (
	"bytes"
	"strings"

	"github.com/ichiban/prolog"
	"github.com/ichiban/prolog/engine"
)

// readProbe: does the query text parse (and succeed) under the interpreter's current table?
func readProbe(i *prolog.Interpreter, text string) string {
	sols, err := i.Query(text + ".")
	if err != nil {
		return "synerr"
	}
	defer sols.Close()
	if sols.Next() {
		return "ok"
	}
	if sols.Err() != nil {
		return "err"
	}
	return "fail"
}

// writeProbe: writeq(name(a,b)), writeq(name(a)) on the interpreter's current table.
func writeProbe(i *prolog.Interpreter, name string) string {
	var buf bytes.Buffer
	i.SetUserOutput(engine.NewOutputTextStream(&buf))
	a := engine.NewAtom(name)
	_ = solveOnce(&i.VM, compound("writeq", a.Apply(atom("a"), atom("b"))))
	buf.WriteString("~")
	_ = solveOnce(&i.VM, compound("writeq", a.Apply(atom("a"))))
	return encName(strings.TrimSpace(buf.String()))
}
