/-
  C11: the comparison used by the model of `Env.set` (`compareStd`, the `Compare` methods on
  resolved terms) is a total order.  (The standard order itself is property C08; this is only what
  C11_setof needs to be unconditional for the model's own comparison.)
-/
import PrologVerif.Proofs.Collect
set_option linter.unusedSimpArgs false
namespace PrologVerif.Collect
open PrologVerif PrologVerif.CollectSpec Std

/-- a comparison with the core order laws is a total order in the sense of the specification -/
theorem isTotalOrder_of_laws {α : Type} (cmp : α → α → Ordering) [TransCmp cmp] [LawfulEqCmp cmp] :
    IsTotalOrder cmp where
  eq_iff _ _ := LawfulEqCmp.compare_eq_iff_eq
  gt_iff _ _ := OrientedCmp.gt_iff_lt
  trans _ _ _ := TransCmp.lt_trans

theorem natOrder : IsTotalOrder (compare : Nat → Nat → Ordering) := isTotalOrder_of_laws _
theorem intOrder : IsTotalOrder (compare : Int → Int → Ordering) := isTotalOrder_of_laws _
theorem stringOrder : IsTotalOrder (compare : String → String → Ordering) := isTotalOrder_of_laws _

/-- terms of different kinds are ordered by kind -/
theorem compareStd_rank (x y : Term) (h : typeRank x ≠ typeRank y) :
    compareStd x y = compare (typeRank x) (typeRank y) := by
  cases x <;> cases y <;> simp [typeRank] at h <;> simp [compareStd, typeRank]

/-! ### equality -/

theorem then_eq_iff {p q : Ordering} : p.then q = .eq ↔ p = .eq ∧ q = .eq := Ordering.then_eq_eq

mutual
  theorem compareStd_eq_iff : ∀ (x y : Term), compareStd x y = .eq ↔ x = y
    | .var a, y => by
      cases y <;> simp [compareStd, typeRank, Nat.compare_eq_eq]
    | .atom a, y => by
      cases y <;> simp [compareStd, typeRank, Nat.compare_eq_eq, stringOrder.eq_iff]
    | .int a, y => by
      cases y <;> simp [compareStd, typeRank, Nat.compare_eq_eq, intOrder.eq_iff]
    | .flt a, y => by
      cases y <;> simp [compareStd, typeRank, Nat.compare_eq_eq, UInt64.toNat_inj]
    | .str a, y => by
      cases y <;> simp [compareStd, typeRank, Nat.compare_eq_eq]
    | .app f as, y => by
      cases y with
      | app g bs =>
        simp only [compareStd, then_eq_iff, Nat.compare_eq_eq, stringOrder.eq_iff, Term.app.injEq]
        constructor
        · rintro ⟨hl, hf, ha⟩
          exact ⟨hf, (compareArgs_eq_iff as bs hl).mp ha⟩
        · rintro ⟨hf, ha⟩
          subst ha
          exact ⟨rfl, hf, (compareArgs_eq_iff as as rfl).mpr rfl⟩
      | _ => simp [compareStd, typeRank, Nat.compare_eq_eq]
  theorem compareArgs_eq_iff : ∀ (as bs : Args), as.length = bs.length → (compareArgs as bs = .eq ↔ as = bs)
    | .nil, .nil, _ => by simp [compareArgs]
    | .nil, .cons _ _, h => by simp [Args.length] at h
    | .cons _ _, .nil, h => by simp [Args.length] at h
    | .cons a as, .cons b bs, h => by
      simp only [compareArgs, then_eq_iff, compareStd_eq_iff a b, Args.cons.injEq,
        compareArgs_eq_iff as bs (by simpa [Args.length] using h)]
end

theorem compareStd_refl (x : Term) : compareStd x x = .eq := (compareStd_eq_iff x x).mpr rfl

/-! ### orientation -/

theorem then_gt_iff_lt {p q p' q' : Ordering} (hp : p = .gt ↔ p' = .lt) (hpe : p = .eq ↔ p' = .eq)
    (hq : q = .gt ↔ q' = .lt) : p.then q = .gt ↔ p'.then q' = .lt := by
  rw [Ordering.then_eq_gt, Ordering.then_eq_lt, hp, hpe, hq]

theorem eq_comm_of_eq_iff {α : Type} {cmp : α → α → Ordering} (h : ∀ a b, cmp a b = .eq ↔ a = b) (a b : α) :
    cmp a b = .eq ↔ cmp b a = .eq := by
  rw [h a b, h b a]; exact eq_comm

mutual
  theorem compareStd_gt_iff : ∀ (x y : Term), compareStd x y = .gt ↔ compareStd y x = .lt
    | .var a, y => by
      cases y <;> simp [compareStd, typeRank, Nat.compare_eq_gt, Nat.compare_eq_lt]
    | .atom a, y => by
      cases y <;> simp [compareStd, typeRank, Nat.compare_eq_gt, Nat.compare_eq_lt, stringOrder.gt_iff]
    | .int a, y => by
      cases y <;> simp [compareStd, typeRank, Nat.compare_eq_gt, Nat.compare_eq_lt, intOrder.gt_iff]
    | .flt a, y => by
      cases y <;> simp [compareStd, typeRank, Nat.compare_eq_gt, Nat.compare_eq_lt]
    | .str a, y => by
      cases y <;> simp [compareStd, typeRank, Nat.compare_eq_gt, Nat.compare_eq_lt]
    | .app f as, y => by
      cases y with
      | app g bs =>
        simp only [compareStd]
        refine then_gt_iff_lt (natOrder.gt_iff _ _) (eq_comm_of_eq_iff natOrder.eq_iff _ _) ?_
        exact then_gt_iff_lt (stringOrder.gt_iff _ _) (eq_comm_of_eq_iff stringOrder.eq_iff _ _)
          (compareArgs_gt_iff as bs)
      | _ => simp [compareStd, typeRank, Nat.compare_eq_gt, Nat.compare_eq_lt]
  theorem compareArgs_gt_iff : ∀ (as bs : Args), compareArgs as bs = .gt ↔ compareArgs bs as = .lt
    | .nil, .nil => by simp [compareArgs]
    | .nil, .cons _ _ => by simp [compareArgs]
    | .cons _ _, .nil => by simp [compareArgs]
    | .cons a as, .cons b bs => by
      simp only [compareArgs]
      exact then_gt_iff_lt (compareStd_gt_iff a b) (eq_comm_of_eq_iff compareStd_eq_iff a b)
        (compareArgs_gt_iff as bs)
end

/-! ### transitivity -/

theorem then_lt_trans {p1 p2 p3 q1 q2 q3 : Ordering}
    (hp : p1 = .lt → p2 = .lt → p3 = .lt) (he1 : p1 = .eq → p3 = p2) (he2 : p2 = .eq → p3 = p1)
    (hq : q1 = .lt → q2 = .lt → q3 = .lt)
    (h1 : p1.then q1 = .lt) (h2 : p2.then q2 = .lt) : p3.then q3 = .lt := by
  rw [Ordering.then_eq_lt] at h1 h2 ⊢
  rcases h1 with h1 | ⟨h1, k1⟩
  · rcases h2 with h2 | ⟨h2, _⟩
    · exact Or.inl (hp h1 h2)
    · exact Or.inl (by rw [he2 h2]; exact h1)
  · rcases h2 with h2 | ⟨h2, k2⟩
    · exact Or.inl (by rw [he1 h1]; exact h2)
    · exact Or.inr ⟨by rw [he1 h1]; exact h2, hq k1 k2⟩

theorem rank_le_of_lt {x y : Term} (h : compareStd x y = .lt) : typeRank x ≤ typeRank y := by
  by_cases hr : typeRank x = typeRank y
  · omega
  · rw [compareStd_rank x y hr, Nat.compare_eq_lt] at h; omega

/-- substitution of equals in a total order given by `eq_iff` -/
theorem subst_left {α : Type} {cmp : α → α → Ordering} (h : ∀ a b, cmp a b = .eq ↔ a = b) {a b c : α}
    (hab : cmp a b = .eq) : cmp a c = cmp b c := by rw [(h a b).mp hab]
theorem subst_right {α : Type} {cmp : α → α → Ordering} (h : ∀ a b, cmp a b = .eq ↔ a = b) {a b c : α}
    (hbc : cmp b c = .eq) : cmp a c = cmp a b := by rw [(h b c).mp hbc]

mutual
  theorem compareStd_trans : ∀ (x y z : Term), compareStd x y = .lt → compareStd y z = .lt →
      compareStd x z = .lt
    | .app f as, y, z, h1, h2 => by
      have r1 := rank_le_of_lt h1
      have r2 := rank_le_of_lt h2
      by_cases hlt : typeRank (.app f as) < typeRank z
      · rw [compareStd_rank _ _ (by omega), Nat.compare_eq_lt]; exact hlt
      · cases y <;> simp [typeRank] at r1 r2 hlt <;> cases z <;> simp [typeRank] at r2 hlt
        rename_i g bs k cs
        simp only [compareStd] at h1 h2 ⊢
        refine then_lt_trans (natOrder.trans _ _ _) (subst_left natOrder.eq_iff) (subst_right natOrder.eq_iff) ?_ h1 h2
        exact then_lt_trans (stringOrder.trans _ _ _) (subst_left stringOrder.eq_iff) (subst_right stringOrder.eq_iff)
          (compareArgs_trans as bs cs)
    | .var a, y, z, h1, h2 => by
      have r1 := rank_le_of_lt h1
      have r2 := rank_le_of_lt h2
      by_cases hlt : typeRank (.var a) < typeRank z
      · rw [compareStd_rank _ _ (by omega), Nat.compare_eq_lt]; exact hlt
      · cases y <;> simp [typeRank] at r1 r2 hlt <;> cases z <;> simp [typeRank] at r2 hlt
        simp only [compareStd] at h1 h2 ⊢
        exact natOrder.trans _ _ _ h1 h2
    | .atom a, y, z, h1, h2 => by
      have r1 := rank_le_of_lt h1
      have r2 := rank_le_of_lt h2
      by_cases hlt : typeRank (.atom a) < typeRank z
      · rw [compareStd_rank _ _ (by omega), Nat.compare_eq_lt]; exact hlt
      · cases y <;> simp [typeRank] at r1 r2 hlt <;> cases z <;> simp [typeRank] at r2 hlt
        simp only [compareStd] at h1 h2 ⊢
        exact stringOrder.trans _ _ _ h1 h2
    | .int a, y, z, h1, h2 => by
      have r1 := rank_le_of_lt h1
      have r2 := rank_le_of_lt h2
      by_cases hlt : typeRank (.int a) < typeRank z
      · rw [compareStd_rank _ _ (by omega), Nat.compare_eq_lt]; exact hlt
      · cases y <;> simp [typeRank] at r1 r2 hlt <;> cases z <;> simp [typeRank] at r2 hlt
        simp only [compareStd] at h1 h2 ⊢
        exact intOrder.trans _ _ _ h1 h2
    | .flt a, y, z, h1, h2 => by
      have r1 := rank_le_of_lt h1
      have r2 := rank_le_of_lt h2
      by_cases hlt : typeRank (.flt a) < typeRank z
      · rw [compareStd_rank _ _ (by omega), Nat.compare_eq_lt]; exact hlt
      · cases y <;> simp [typeRank] at r1 r2 hlt <;> cases z <;> simp [typeRank] at r2 hlt
        simp only [compareStd] at h1 h2 ⊢
        exact natOrder.trans _ _ _ h1 h2
    | .str a, y, z, h1, h2 => by
      have r1 := rank_le_of_lt h1
      have r2 := rank_le_of_lt h2
      by_cases hlt : typeRank (.str a) < typeRank z
      · rw [compareStd_rank _ _ (by omega), Nat.compare_eq_lt]; exact hlt
      · cases y <;> simp [typeRank] at r1 r2 hlt <;> cases z <;> simp [typeRank] at r2 hlt
        simp only [compareStd] at h1 h2 ⊢
        exact natOrder.trans _ _ _ h1 h2
  theorem compareArgs_trans : ∀ (as bs cs : Args), compareArgs as bs = .lt → compareArgs bs cs = .lt →
      compareArgs as cs = .lt
    | .cons a as, .cons b bs, .cons c cs, h1, h2 => by
      simp only [compareArgs] at h1 h2 ⊢
      exact then_lt_trans (compareStd_trans a b c) (subst_left compareStd_eq_iff) (subst_right compareStd_eq_iff)
        (compareArgs_trans as bs cs) h1 h2
    | .nil, _, _, h1, _ => by simp [compareArgs] at h1
    | .cons _ _, .nil, _, h1, _ => by simp [compareArgs] at h1
    | .cons _ _, .cons _ _, .nil, _, h2 => by simp [compareArgs] at h2
end

/-- the comparison of the model of `Env.set` is a total order on (resolved) terms -/
theorem compareStd_isTotalOrder : IsTotalOrder compareStd :=
  ⟨compareStd_eq_iff, compareStd_gt_iff, compareStd_trans⟩

end PrologVerif.Collect
