/-
  C15 — Go values cross the API as data: placeholders = literals, Scan exact or error.

  Property theorems only (lemmas: Proofs/Api.lean).  Everything is about Model/Api.lean:
  `termOf`/`setPlaceholder` (engine/parser.go), `unDoubleQuote`, the operand level of the reader with the
  placeholder queue (`term0`, `term0Atom`, `functionalNotation`, `list`, `Parser.Term`; empty operator
  table), and `conv` = solutions.go `convertAssign*` (`fixed = true`: the repaired tree, D15).
-/
import PrologVerif.Proofs.Api
namespace PrologVerif.C15
open PrologVerif PrologVerif.Api

/-! ### a Go value becomes the term its literal denotes -/

/-- **C15_unDoubleQuote_escape**: for EVERY string, un-quoting the double-quoted literal text written by
    `escape` (only `"` and `\` are escaped) gives the string back — whatever characters it contains. -/
theorem C15_unDoubleQuote_escape (s : List Char) : unDoubleQuote (escape s) = s :=
  unDoubleQuote_escape s

/-- **C15_termOf_is_literal**: for every Go value `v` (integers of every width, floats, strings over all
    of Unicode, nested slices/arrays) and every `double_quotes` setting, the term `termOf` hands to the
    parser is exactly the term the reader produces for the literal denoting `v` (`litToks v`:
    `"…"` with the string's characters escaped, `-`number, `[…]`) under that setting — consuming exactly
    the literal, whatever follows it (as long as what follows is not glued on as `(` or a number). -/
theorem C15_termOf_is_literal (dq : DQ) (v : GoVal) (t : Term) (hw : GoVal.wf v = true)
    (ht : termOf dq v = .ok t) :
    ∃ toks, litToks v = some toks ∧
      ∀ (fuel : Nat), need v ≤ fuel → ∀ (rest : List Tok) (args : List Term), Follows rest →
        term0 ⟨dq, none⟩ fuel ⟨toks ++ rest, args⟩ = .ok (t, ⟨rest, args⟩) := by
  have hl := litToks_of_termOf dq v t ht
  obtain ⟨toks, htoks⟩ := hl
  exact ⟨toks, htoks, fun fuel hf rest args hfo => read_literal dq v t toks hw ht htoks fuel hf rest args hfo⟩

/-- **C15_placeholder_equals_literal**: the query `f(?)` with the Go value `v` as argument and the query
    `f(<literal denoting v>)` without placeholders are read as the same term `f(termOf v)` — for every
    value, functor and `double_quotes` setting (the context the stream c15.args drives on the real code). -/
theorem C15_placeholder_equals_literal (dq : DQ) (f : String) (v : GoVal) (t : Term)
    (hw : GoVal.wf v = true) (ht : termOf dq v = .ok t) :
    ∃ toks, litToks v = some toks ∧
      query dq [.name f, .openCT, .name "?", .close, .end_] [v] = .ok (.app f (.cons t .nil)) ∧
      parseTop ⟨dq, none⟩ ([.name f, .openCT] ++ toks ++ [.close, .end_]) [] = .ok (.app f (.cons t .nil)) := by
  obtain ⟨toks, hl⟩ := litToks_of_termOf dq v t ht
  exact ⟨toks, hl, query_arg dq f v t ht, parse_literal_arg dq f v t toks hw ht hl⟩

/-- `termOf` never builds syntax from the characters of a string: the result is the atom with exactly that
    text, or the list of its characters / character codes — by definition, for every string and flag. -/
theorem C15_string_is_data (dq : DQ) (s : String) :
    termOf dq (.str s) = .ok (match dq with
      | .chars => Term.list (s.toList.map fun c => .atom (String.singleton c))
      | .codes => Term.list (s.toList.map fun c => .int c.toNat)
      | .atom => .atom s) := by
  cases dq <;> simp [termOf, dqTerm, charList, codeList, String.ofList_toList]

/-! ### placeholders are data -/

/-- **C15_placeholder_is_data** (naturality): parsing with the argument queue `hs.map (inst σ)` is parsing
    with the queue `hs` followed by `inst σ` — for every token sequence, every hole assignment `σ`, every
    flag and placeholder.  The reader moves arguments around as opaque values; it never inspects them. -/
theorem C15_placeholder_is_data (cfg : Cfg) (σ : Nat → Term) (toks : List Tok) (hs : List Term) :
    parseTop cfg toks (hs.map (inst σ)) = (parseTop cfg toks hs).map (inst σ) :=
  parseTop_nat cfg σ toks hs

/-- hence: the result for ANY arguments is one fixed template — computed from the text alone, with holes in
    place of the arguments — with the arguments plugged into the holes; and the error, if any, is the
    template's.  No character of a string argument can reach the reader: injection safety for all strings. -/
theorem C15_placeholder_template (cfg : Cfg) (toks : List Tok) (args : List Term) :
    parseTop cfg toks args = (parseTop cfg toks (holes args.length)).map (inst (assign args)) :=
  parseTop_template cfg toks args

/-- the same through `SetPlaceholder`: Go values are converted first (`termOf`), then plugged in -/
theorem C15_query_template (dq : DQ) (toks : List Tok) (vals : List GoVal) (ts : List Term)
    (h : setPlaceholder dq vals = .ok ts) :
    query dq toks vals = (parseTop ⟨dq, some "?"⟩ toks (holes ts.length)).map (inst (assign ts)) := by
  simp only [query, h]
  exact parseTop_template _ toks ts

/-- **C15_placeholder_count**: if a text parses with some arguments, then passing any other number of
    arguments is an error: fewer — "not enough arguments for placeholders"; more — "too many arguments
    for placeholders".  (So the number of arguments a text accepts is unique: its number of placeholders.) -/
theorem C15_placeholder_count (cfg : Cfg) (toks : List Tok) (args args' : List Term) (t : Term)
    (h : parseTop cfg toks args = .ok t) :
    (args'.length < args.length → parseTop cfg toks args' = .error .fewArgs) ∧
    (args.length < args'.length → parseTop cfg toks args' = .error .manyArgs) :=
  ⟨parseTop_shorter cfg toks args args' t h, parseTop_longer cfg toks args args' t h⟩

/-- a value `termOf` cannot convert (unsigned integers, bool, maps, structs, nil …) is rejected before
    parsing starts — it never turns into something else -/
theorem C15_unsupported_is_error (dq : DQ) (toks : List Tok) (pre post : List GoVal) (v : GoVal)
    (hv : termOf dq v = .error "can't convert to term")
    (hpre : ∃ ts, setPlaceholder dq pre = .ok ts) :
    query dq toks (pre ++ v :: post) = .error .convert := by
  obtain ⟨ts, hts⟩ := hpre
  have : ∀ (pre : List GoVal) (ts : List Term), setPlaceholder dq pre = .ok ts →
      ∃ e, setPlaceholder dq (pre ++ v :: post) = .error e := by
    intro pre
    induction pre with
    | nil => intro _ _; exact ⟨"can't convert to term", by simp [setPlaceholder, hv]⟩
    | cons x xs ih =>
      intro ts h
      simp only [setPlaceholder] at h
      split at h
      · simp at h
      · rename_i t1 h1
        split at h
        · simp at h
        · rename_i ts' h2
          obtain ⟨e, he⟩ := ih ts' h2
          exact ⟨e, by simp [setPlaceholder, h1, he]⟩
  obtain ⟨e, he⟩ := this pre ts hts
  simp [query, he]

/-! ### Scan stores exactly the value of the answer, or fails -/

/-- **C15_scan_exact_or_error** (repaired tree): for every destination type named in the property
    (`interface{}`, `string`, `int`, `int8` … `int64`, `float64`, slices of these, nested), every answer
    term (its integers being 64-bit `engine.Integer`s), whatever Go representation the lists have: if
    `convertAssign` succeeds, the stored Go value is exactly the value of the term (`exact`) and lies within
    the destination type (`fits`: no wrap, no truncation).  Otherwise it returns an error. -/
theorem C15_scan_exact_or_error (round32 : UInt64 → UInt64) (rep : Term → Bool) (d : Dest) (t : Term) (v : GoVal)
    (hd : d.noFloat32 = true) (ht : Term.i64 t = true) (h : conv true round32 rep d t = .ok v) :
    exact v t = true ∧ fits d v = true :=
  conv_exact round32 rep t d v hd ht h

/-- the full-strength statement for an arbitrary variant of the conversion code -/
def ScanExact (fixed : Bool) : Prop :=
  ∀ (round32 : UInt64 → UInt64) (rep : Term → Bool) (d : Dest) (t : Term) (v : GoVal),
    d.noFloat32 = true → Term.i64 t = true → conv fixed round32 rep d t = .ok v → exact v t = true ∧ fits d v = true

theorem C15_scan_exact_or_error_fixed : ScanExact true := C15_scan_exact_or_error

/-- **D15 on the pinned tree**: scanning 300 into an int8 stores 44, no error -/
theorem C15_scan_exact_or_error_pinned_witness : ¬ ScanExact false := by
  intro h
  have hc : conv false id (fun _ => false) (.int .int8) (.int 300) = .ok (.int .int8 44) := by decide +kernel
  have := (h id (fun _ => false) (.int .int8) (.int 300) (.int .int8 44) rfl (by decide +kernel) hc).1
  revert this
  decide +kernel

/-- outside an integer destination's range the repaired code returns the conversion error -/
theorem C15_scan_out_of_range_is_error (round32 : UInt64 → UInt64) (rep : Term → Bool) (k : IntKind) (v : Int)
    (hk : k.bits ≠ 64) (hv : ¬ InRange k.bits v) : conv true round32 rep (.int k) (.int v) = .error () := by
  simp [conv, hk, hv]

/-- `float32` destinations (not among the destination types the property names; they cannot hold every
    answer exactly): what is stored is `float32(x)` — the nearest single-precision value, `round32` — and,
    on the repaired tree (D20), never an infinity for a finite answer: overflow is the conversion error. -/
theorem C15_scan_float32_rounds (round32 : UInt64 → UInt64) (rep : Term → Bool) (b : UInt64) (v : GoVal)
    (h : conv true round32 rep .float32 (.flt b) = .ok v) :
    v = .float (round32 b) ∧ (isInfBits (round32 b) = true → isInfBits b = true) := by
  simp only [conv] at h
  split at h
  · simp at h
  · rename_i hc
    simp at h; subst h
    refine ⟨rfl, fun hi => ?_⟩
    cases hb : isInfBits b with
    | true => rfl
    | false => exact absurd (by simp [hi, hb]) hc

/-- **D20 on the pinned tree**: no check at all — whatever `float32(x)` is gets stored, also ±Inf for a finite x
    (observed on the real code: 1.0e300 → +Inf) -/
theorem C15_scan_float32_pinned_witness (round32 : UInt64 → UInt64) (rep : Term → Bool) (b : UInt64) :
    conv false round32 rep .float32 (.flt b) = .ok (.float (round32 b)) := by
  simp [conv]

/-- unsigned kinds, bool, arrays …: always the conversion error, nothing is stored -/
theorem C15_scan_unsupported_is_error (fixed : Bool) (round32 : UInt64 → UInt64) (rep : Term → Bool) (t : Term) :
    conv fixed round32 rep .unsupported t = .error () := by
  cases t <;> simp [conv]

/-! ### non-vacuity -/

example : query .chars [.name "p", .openCT, .name "?", .comma, .openList, .name "?", .bar, .name "?", .closeList, .close, .end_]
    [.str "a.b", .int .int8 (-3), .slice (.cons (.float 0) .nil)] =
    .ok (.app "p" (.cons (Term.list [.atom "a", .atom ".", .atom "b"])
      (.cons (Term.consT (.int (-3)) (Term.list [.flt 0])) .nil))) := by decide +kernel
example : query .codes [.name "p", .openCT, .name "?", .close, .end_] [] = .error .fewArgs := by decide +kernel
example : query .codes [.name "p", .openCT, .name "?", .close, .end_] [.int .int 1, .int .int 2] = .error .manyArgs := by
  decide +kernel
example : query .atom [.name "p", .openCT, .name "?", .close, .end_] [.uint 3] = .error .convert := by decide +kernel
/-- the double-quoted literal of the 5-character string  a"b\.  read back under `atom` -/
example : term0 ⟨.atom, none⟩ 5 ⟨[.dq "a\\\"b\\\\."], []⟩ = .ok (.atom "a\"b\\.", ⟨[], []⟩) := by decide +kernel
example : litToks (.str "a\"b\\.") = some [.dq "a\\\"b\\\\."] := by decide +kernel
example : conv true id (fun _ => false) (.slice (.int .int8)) (Term.list [.int 127, .int (-128)]) =
    .ok (.slice (.cons (.int .int8 127) (.cons (.int .int8 (-128)) .nil))) := by decide +kernel
example : conv true id (fun _ => false) (.slice (.int .int8)) (Term.list [.int 127, .int 128]) = .error () := by
  decide +kernel
example : conv true id (fun _ => true) .string (Term.list [.atom "h", .atom "i"]) = .ok (.str "hi") := by decide +kernel

end PrologVerif.C15
