/-
  P2: `writeq` with operators reads back — assembly.
-/
import PrologVerif.Proofs.OpRoundtripParse6
import PrologVerif.Proofs.OpRoundtripLex
import PrologVerif.Proofs.FloatSign
import PrologVerif.Proofs.Ops
import PrologVerif.Driver.C06
set_option linter.unusedSimpArgs false
set_option linter.unusedVariables false
namespace PrologVerif.Write
open PrologVerif PrologVerif.Lexer PrologVerif.Ops PrologVerif.Read

/-- the invariant of the operator table (every table reachable from the default table through op/3,
    Properties/C18) implies what the round trip needs -/
theorem tableOK_of_valid {ops : Table} (h : Valid ops) : tableOK ops = true := by
  unfold tableOK
  rw [List.all_eq_true]
  intro o ho
  have hr := (h.range o ho).2
  have hnb := h.noBrackets o ho
  have hip := h.noInfixPostfix o.name
  simp only [Bool.and_eq_true, decide_eq_true_eq, Bool.not_eq_true', Bool.and_eq_false_iff,
    decide_eq_false_iff_not]
  refine ⟨⟨⟨⟨⟨hr, ?_⟩, ?_⟩, ?_⟩, ?_⟩, hnb⟩
  · by_cases hc : o.spec.cls = .inf
    · right
      cases hd : definedInClass ops o.name .post with
      | false => rfl
      | true =>
        exfalso
        refine hip ⟨?_, hd⟩
        rw [definedInClass_iff]
        exact ⟨o, ho, rfl, hc⟩
    · exact .inl hc
  · by_cases hc : o.spec.cls = .post
    · right
      cases hd : definedInClass ops o.name .inf with
      | false => rfl
      | true =>
        exfalso
        refine hip ⟨hd, ?_⟩
        rw [definedInClass_iff]
        exact ⟨o, ho, rfl, hc⟩
    · exact .inl hc
  · intro hn
    have := h.comma o ho hn
    rw [this]
    exact ⟨rfl, rfl⟩
  · intro hn
    exact h.bar o ho hn

/-- the decidable check that the text of `writeq(T)` followed by ` .` lexes to the expected tokens -/
def lexOK (e : Env) (G : UInt64 → GText) (ops : Table) (t : Term) : Bool :=
  decide ((tokens e.cfg ((writeq e ops t ++ [' ', '.']).length + 1) (Lexer.ofList (writeq e ops t ++ [' ', '.']))).1 =
    qt e G t (qopts ops) ++ [⟨.end_, ['.']⟩])

/-- the reader half of P2: if the text lexes to the tokens `qt`, `read_term` returns the term -/
theorem readTerm_writeq_of_lexOK (e : Env) (G : UInt64 → GText) (P : UInt64 → Bool) (he : EnvOK e G P)
    (ops : Table) (hops : tableOK ops = true) (dq : DoubleQuotes) (t : Term) (hw : wfTerm t = true)
    (hn : numsOK P t = true) (hlex : lexOK e G ops t = true) :
    readTerm e.cfg ops dq (writeq e ops t ++ [' ', '.']) = .ok t.canon :=
  readTerm_of_tokens e G P ops dq he (signOK_of_envOK he) hops t hw hn _ (by simpa [lexOK] using hlex)

/-- P2: `writeq(T)` followed by ` .` is read back as `T` -/
theorem readTerm_writeq (e : Env) (G : UInt64 → GText) (P : UInt64 → Bool) (he : EnvOK e G P)
    (hcap : CapOK e.cfg) (ops : Table) (hops : tableOK ops = true) (dq : DoubleQuotes) (t : Term)
    (hw : wfTerm t = true) (hn : numsOK P t = true) (hv : noVAR t = true) :
    readTerm e.cfg ops dq (writeq e ops t ++ [' ', '.']) = .ok t.canon :=
  readTerm_of_lexSeq e G P ops dq he (signOK_of_envOK he) hops t hw hn _
    (lexSeq_writeq e G P he (signOK_of_envOK he) hcap ops hops t hw hn hv)

/-! ## the hypothesis on the character-class oracle -/

theorem capOK_of_upper (cfg : Cfg)
    (h : ∀ c : Char, (0x2200 ≤ c.toNat ∧ c.toNat ≤ 0x22FF) ∨ (0x2A00 ≤ c.toNat ∧ c.toNat ≤ 0x2AFF) → cfg.upper c = false) :
    CapOK cfg := by
  intro c hc
  unfold isCapitalLetterChar
  simp only [isGraphicChar, Bool.or_eq_true, decide_eq_true_eq] at hc
  split
  · rename_i hlt
    rcases hc with (hc | hc) | hc
    · simp only [graphicAscii, List.mem_cons, List.mem_nil_iff, or_false] at hc
      rcases hc with rfl | rfl | rfl | rfl | rfl | rfl | rfl | rfl | rfl | rfl | rfl | rfl | rfl | rfl | rfl | rfl <;> decide
    · omega
    · omega
  · rename_i hlt
    rcases hc with (hc | hc) | hc
    · simp only [graphicAscii, List.mem_cons, List.mem_nil_iff, or_false] at hc
      rcases hc with rfl | rfl | rfl | rfl | rfl | rfl | rfl | rfl | rfl | rfl | rfl | rfl | rfl | rfl | rfl | rfl <;>
        exact absurd hlt (by decide)
    · exact h c (.inl hc)
    · exact h c (.inr hc)

theorem capOK_ascii : CapOK Cfg.ascii := capOK_of_upper _ (fun _ _ => rfl)

set_option maxRecDepth 100000 in
theorem upper_ranges_1' : (List.range 256).all (fun n => !Driver.C06.inRanges Generated.upperRanges (0x2200 + n)) = true := by
  decide +kernel
set_option maxRecDepth 100000 in
theorem upper_ranges_2' : (List.range 256).all (fun n => !Driver.C06.inRanges Generated.upperRanges (0x2A00 + n)) = true := by
  decide +kernel

theorem upper_ranges_1 (n : Nat) (h : n < 256) : Driver.C06.inRanges Generated.upperRanges (0x2200 + n) = false := by
  have := List.all_eq_true.mp upper_ranges_1' n (List.mem_range.mpr h)
  exact (Bool.not_eq_true' _).mp this
theorem upper_ranges_2 (n : Nat) (h : n < 256) : Driver.C06.inRanges Generated.upperRanges (0x2A00 + n) = false := by
  have := List.all_eq_true.mp upper_ranges_2' n (List.mem_range.mpr h)
  exact (Bool.not_eq_true' _).mp this

set_option maxRecDepth 100000 in
/-- the oracle the driver runs with (tables regenerated from Go's package unicode) has `CapOK` -/
theorem capOK_driver : CapOK Driver.C06.cfg := by
  apply capOK_of_upper
  intro c hc
  show Driver.C06.inRanges Generated.upperRanges c.toNat = false
  rcases hc with ⟨h1, h2⟩ | ⟨h1, h2⟩
  · have := upper_ranges_1 (c.toNat - 0x2200) (by omega)
    rwa [show 0x2200 + (c.toNat - 0x2200) = c.toNat by omega] at this
  · have := upper_ranges_2 (c.toNat - 0x2A00) (by omega)
    rwa [show 0x2A00 + (c.toNat - 0x2A00) = c.toNat by omega] at this

end PrologVerif.Write
