/-
  C16 helper lemmas: soundness of unification (`unifyE`, `unifyM`) and of the SLD engine `sld`
  with respect to any interpretation in which the clauses are valid.
-/
import PrologVerif.Proofs.RelUnify
namespace PrologVerif.Rel
open PrologVerif PrologVerif.Relations

/-! ### unification is sound -/

def Unifies (σ : Nat → Term) (eqs : List (Term × Term)) : Prop :=
  ∀ p ∈ eqs, substT σ p.1 = substT σ p.2

theorem zipArgs_unifies (σ : Nat → Term) : (as bs : Args) → as.length = bs.length →
    Unifies σ (zipArgs as bs) → substA σ as = substA σ bs
  | .nil, .nil, _, _ => rfl
  | .nil, .cons _ _, h, _ => by simp [Args.length] at h
  | .cons _ _, .nil, h, _ => by simp [Args.length] at h
  | .cons a as, .cons b bs, h, hu => by
    simp only [Args.length, Nat.add_right_cancel_iff] at h
    simp only [zipArgs] at hu
    simp only [substA]
    rw [hu (a, b) (by simp), zipArgs_unifies σ as bs h (fun p hp => hu p (by simp [hp]))]

theorem unifies_elim {x : Nat} {t : Term} {rest : List (Term × Term)} {δ : Nat → Term}
    (hocc : occursT x t = false)
    (h : Unifies δ (rest.map fun p => (substT (bind1 x t) p.1, substT (bind1 x t) p.2))) :
    let δ' := fun v => substT δ (bind1 x t v)
    substT δ' (.var x) = substT δ' t ∧ Unifies δ' rest := by
  intro δ'
  have hcomp : ∀ u, substT δ' u = substT δ (substT (bind1 x t) u) := fun u => (substT_comp _ _ u).symm
  constructor
  · rw [hcomp, hcomp, substT_bind1_not_occurs x t t hocc]
    simp [substT, bind1]
  · intro p hp
    rw [hcomp, hcomp]
    exact h _ (List.mem_map.mpr ⟨p, hp, rfl⟩)

theorem unifyE_sound : (f : Nat) → (eqs : List (Term × Term)) → (δ : Nat → Term) →
    unifyE f eqs = some (some δ) → Unifies δ eqs
  | 0, _, _, h => by simp [unifyE] at h
  | _ + 1, [], _, _ => fun _ hp => by cases hp
  | f + 1, (a, b) :: rest, δ, h => by
    -- the elimination step
    have helim : ∀ x t, occursT x t = false →
        (match unifyE f (rest.map fun p => (substT (bind1 x t) p.1, substT (bind1 x t) p.2)) with
          | some (some δ') => some (some fun v => substT δ' (bind1 x t v))
          | r => r) = some (some δ) →
        substT δ (.var x) = substT δ t ∧ Unifies δ rest := by
      intro x t hocc he
      split at he
      · rename_i δ' hδ'
        cases he
        exact unifies_elim hocc (unifyE_sound f _ δ' hδ')
      · rename_i r hr
        exact (hr δ he).elim
    have hcons : ∀ {a b}, substT δ a = substT δ b → Unifies δ rest → Unifies δ ((a, b) :: rest) := by
      intro a b h1 h2 p hp
      rcases List.mem_cons.mp hp with rfl | hp
      · exact h1
      · exact h2 p hp
    unfold unifyE at h
    simp only at h
    split at h
    · -- var, var
      rename_i x y
      split at h
      · rename_i hxy; subst hxy
        exact hcons rfl (unifyE_sound f rest δ h)
      · split at h
        · cases h
        · rename_i hocc
          obtain ⟨h1, h2⟩ := helim x (.var y) (by simpa using hocc) h
          exact hcons h1 h2
    · -- var, t
      rename_i x _
      split at h
      · cases h
      · rename_i hocc
        obtain ⟨h1, h2⟩ := helim x b (by simpa using hocc) h
        exact hcons h1 h2
    · -- t, var
      rename_i x _
      split at h
      · cases h
      · rename_i hocc
        obtain ⟨h1, h2⟩ := helim x a (by simpa using hocc) h
        exact hcons h1.symm h2
    · -- app, app
      rename_i g as g' bs
      split at h
      · rename_i hg
        obtain ⟨rfl, hlen⟩ := hg
        have hu := unifyE_sound f _ δ h
        have h1 : Unifies δ (zipArgs as bs) := fun p hp => hu p (by simp [hp])
        have h2 : Unifies δ rest := fun p hp => hu p (by simp [hp])
        exact hcons (by simp only [substT]; rw [zipArgs_unifies δ as bs hlen h1]) h2
      · cases h
    · -- other
      split at h
      · rename_i hst; subst hst
        exact hcons rfl (unifyE_sound f rest δ h)
      · cases h

theorem unifyM_sound {a b : Term} {δ : Nat → Term} (h : unifyM a b = some δ) :
    substT δ a = substT δ b := by
  unfold unifyM at h
  split at h
  · rename_i hb
    simp only [Option.map_eq_some_iff] at h
    obtain ⟨θ, hθ, rfl⟩ := h
    rw [(matchT_sound a b [] θ hθ).2 θ (Extends.refl _), substT_ground _ _ hb]
  · split at h
    · rename_i ha
      simp only [Option.map_eq_some_iff] at h
      obtain ⟨θ, hθ, rfl⟩ := h
      rw [(matchT_sound b a [] θ hθ).2 θ (Extends.refl _), substT_ground _ _ ha]
    · split at h
      · rename_i r hr
        subst h
        exact unifyE_sound _ _ δ hr (a, b) (by simp)
      · cases h

/-! ### unification is complete: the result is a most general unifier, failure means not unifiable -/

mutual
  theorem size_subst_ge (σ : Nat → Term) (x : Nat) : (t : Term) → occursT x t = true →
      (σ x).size ≤ (substT σ t).size
    | .var v => by
      intro h; simp only [occursT, beq_iff_eq] at h; subst h; simp [substT]
    | .app _ as => by
      intro h; simp only [occursT] at h
      have := sizeA_subst_ge σ x as h
      simp only [substT, Term.size]; omega
    | .atom _ => by simp [occursT]
    | .int _ => by simp [occursT]
    | .flt _ => by simp [occursT]
    | .str _ => by simp [occursT]
  theorem sizeA_subst_ge (σ : Nat → Term) (x : Nat) : (as : Args) → occursA x as = true →
      (σ x).size ≤ (substA σ as).size
    | .nil => by simp [occursA]
    | .cons t ts => by
      intro h
      simp only [occursA, Bool.or_eq_true] at h
      simp only [substA, Args.size]
      rcases h with h | h
      · have := size_subst_ge σ x t h; omega
      · have := sizeA_subst_ge σ x ts h; omega
end

/-- occurs check: a variable cannot be unified with a proper superterm -/
theorem occurs_not_unifiable {x : Nat} {t : Term} (hocc : occursT x t = true) (hne : ∀ v, t ≠ .var v)
    (σ : Nat → Term) : σ x ≠ substT σ t := by
  intro h
  cases t with
  | var v => exact hne v rfl
  | app g as =>
    simp only [occursT] at hocc
    have := sizeA_subst_ge σ x as hocc
    have h2 := congrArg Term.size h
    simp only [substT, Term.size] at h2
    omega
  | atom _ => simp [occursT] at hocc
  | int _ => simp [occursT] at hocc
  | flt _ => simp [occursT] at hocc
  | str _ => simp [occursT] at hocc

theorem subst_bind1_absorb {σ : Nat → Term} {x : Nat} {t : Term} (h : σ x = substT σ t) (u : Term) :
    substT σ (substT (bind1 x t) u) = substT σ u := by
  rw [substT_comp]
  apply substT_congr
  intro v _
  by_cases hv : v = x
  · subst hv; simp [bind1, h]
  · simp [bind1, hv, substT]

theorem unifies_zipArgs (σ : Nat → Term) : (as bs : Args) → substA σ as = substA σ bs →
    Unifies σ (zipArgs as bs)
  | .nil, _, _ => by intro p hp; simp [zipArgs] at hp
  | .cons _ _, .nil, _ => by intro p hp; simp [zipArgs] at hp
  | .cons a as, .cons b bs, h => by
    simp only [substA, Args.cons.injEq] at h
    intro p hp
    simp only [zipArgs, List.mem_cons] at hp
    rcases hp with rfl | hp
    · exact h.1
    · exact unifies_zipArgs σ as bs h.2 p hp

theorem length_eq_of_substA_eq (σ : Nat → Term) {as bs : Args} (h : substA σ as = substA σ bs) :
    as.length = bs.length := by
  have := congrArg Args.length h
  simpa [length_substA] using this

/-- partial correctness of `unifyE` (whenever the fuel suffices): a returned substitution is more
    general than every unifier (`σ = σ ∘ δ`), and `some none` means there is no unifier -/
theorem unifyE_complete : (f : Nat) → (eqs : List (Term × Term)) →
    (∀ δ, unifyE f eqs = some (some δ) → ∀ σ, Unifies σ eqs → ∀ u, substT σ (substT δ u) = substT σ u) ∧
    (unifyE f eqs = some none → ∀ σ, ¬ Unifies σ eqs)
  | 0, _ => by simp [unifyE]
  | _ + 1, [] => by
    refine ⟨?_, by simp [unifyE]⟩
    intro δ h σ _ u
    simp only [unifyE, Option.some.injEq] at h
    subst h; simp
  | f + 1, (a, b) :: rest => by
    have hhead : ∀ {σ : Nat → Term}, Unifies σ ((a, b) :: rest) → substT σ a = substT σ b ∧ Unifies σ rest :=
      fun hu => ⟨hu (a, b) (by simp), fun p hp => hu p (by simp [hp])⟩
    -- the elimination step `x := t`
    have helimA : ∀ x t, (∀ v, t ≠ .var v ∨ v ≠ x) → occursT x t = true → ∀ σ : Nat → Term, σ x ≠ substT σ t := by
      intro x t hxt hocc σ
      have hne : ∀ v, t ≠ .var v := by
        intro v hv
        subst hv
        simp only [occursT, beq_iff_eq] at hocc
        rcases hxt v with h | h
        · exact h rfl
        · exact h hocc
      exact occurs_not_unifiable hocc hne σ
    have helimB : ∀ x t,
        (∀ δ, (match unifyE f (rest.map fun p => (substT (bind1 x t) p.1, substT (bind1 x t) p.2)) with
            | some (some δ') => some (some fun v => substT δ' (bind1 x t v))
            | r => r) = some (some δ) →
          ∀ σ, σ x = substT σ t → Unifies σ rest → ∀ u, substT σ (substT δ u) = substT σ u) ∧
        ((match unifyE f (rest.map fun p => (substT (bind1 x t) p.1, substT (bind1 x t) p.2)) with
            | some (some δ') => some (some fun v => substT δ' (bind1 x t v))
            | r => r) = some none →
          ∀ σ, σ x = substT σ t → ¬ Unifies σ rest) := by
      intro x t
      have ih := unifyE_complete f (rest.map fun p => (substT (bind1 x t) p.1, substT (bind1 x t) p.2))
      have hrest : ∀ σ, σ x = substT σ t → Unifies σ rest →
          Unifies σ (rest.map fun p => (substT (bind1 x t) p.1, substT (bind1 x t) p.2)) := by
        intro σ hσ hu p hp
        obtain ⟨q, hq, rfl⟩ := List.mem_map.mp hp
        simp only [subst_bind1_absorb hσ]
        exact hu q hq
      constructor
      · intro δ hδ σ hσ hu u
        split at hδ
        · rename_i δ' hδ'
          cases hδ
          have := ih.1 δ' hδ' σ (hrest σ hσ hu)
          rw [← substT_comp, this, subst_bind1_absorb hσ]
        · rename_i r' hr'
          exact (hr' δ hδ).elim
      · intro hnone σ hσ hu
        split at hnone
        · cases hnone
        · exact ih.2 hnone σ (hrest σ hσ hu)
    have helim : ∀ x t, (∀ v, t ≠ .var v ∨ v ≠ x) →
        (∀ δ, (if occursT x t = true then some none else
            (match unifyE f (rest.map fun p => (substT (bind1 x t) p.1, substT (bind1 x t) p.2)) with
              | some (some δ') => some (some fun v => substT δ' (bind1 x t v))
              | r => r)) = some (some δ) →
          ∀ σ, σ x = substT σ t → Unifies σ rest → ∀ u, substT σ (substT δ u) = substT σ u) ∧
        ((if occursT x t = true then some none else
            (match unifyE f (rest.map fun p => (substT (bind1 x t) p.1, substT (bind1 x t) p.2)) with
              | some (some δ') => some (some fun v => substT δ' (bind1 x t v))
              | r => r)) = some none →
          ∀ σ, σ x = substT σ t → ¬ Unifies σ rest) := by
      intro x t hxt
      by_cases hocc : occursT x t = true
      · simp only [hocc, if_true]
        exact ⟨fun δ h => (by cases h), fun _ σ hσ _ => helimA x t hxt hocc σ hσ⟩
      · simp only [hocc]
        exact helimB x t
    clear helimA helimB
    unfold unifyE
    simp only
    split
    · -- var, var
      rename_i x y
      split
      · rename_i hxy; subst hxy
        have ih := unifyE_complete f rest
        exact ⟨fun δ h σ hu u => ih.1 δ h σ (hhead hu).2 u, fun h σ hu => ih.2 h σ (hhead hu).2⟩
      · rename_i hxy
        have := helim x (.var y) (fun v => by
          by_cases hv : v = x
          · left; intro h; simp only [Term.var.injEq] at h; exact hxy (hv ▸ h.symm)
          · right; exact hv)
        exact ⟨fun δ h σ hu u => this.1 δ h σ (by simpa [substT] using (hhead hu).1) (hhead hu).2 u,
          fun h σ hu => this.2 h σ (by simpa [substT] using (hhead hu).1) (hhead hu).2⟩
    · -- var, t
      rename_i x hnv
      have := helim x b (fun v => Or.inl (fun h => hnv v h))
      exact ⟨fun δ h σ hu u => this.1 δ h σ (by simpa [substT] using (hhead hu).1) (hhead hu).2 u,
        fun h σ hu => this.2 h σ (by simpa [substT] using (hhead hu).1) (hhead hu).2⟩
    · -- t, var
      rename_i x hnv
      have := helim x a (fun v => Or.inl (fun h => hnv v h))
      exact ⟨fun δ h σ hu u => this.1 δ h σ (by simpa [substT] using (hhead hu).1.symm) (hhead hu).2 u,
        fun h σ hu => this.2 h σ (by simpa [substT] using (hhead hu).1.symm) (hhead hu).2⟩
    · -- app, app
      rename_i g as g' bs
      clear helim
      split
      · rename_i hg
        have ih := unifyE_complete f (zipArgs as bs ++ rest)
        have hu' : ∀ σ, Unifies σ ((Term.app g as, Term.app g' bs) :: rest) → Unifies σ (zipArgs as bs ++ rest) := by
          intro σ hu p hp
          have h1 := (hhead hu).1
          simp only [substT, Term.app.injEq] at h1
          rcases List.mem_append.mp hp with hp | hp
          · exact unifies_zipArgs σ as bs h1.2 p hp
          · exact (hhead hu).2 p hp
        exact ⟨fun δ h σ hu u => ih.1 δ h σ (hu' σ hu) u, fun h σ hu => ih.2 h σ (hu' σ hu)⟩
      · rename_i hg
        refine ⟨fun δ h => (by cases h), ?_⟩
        intro _ σ hu
        have h1 := (hhead hu).1
        simp only [substT, Term.app.injEq] at h1
        exact hg ⟨h1.1, length_eq_of_substA_eq σ h1.2⟩
    · -- other
      rename_i hvv hvt htv happ
      clear helim
      split
      · rename_i hst; subst hst
        have ih := unifyE_complete f rest
        exact ⟨fun δ h σ hu u => ih.1 δ h σ (hhead hu).2 u, fun h σ hu => ih.2 h σ (hhead hu).2⟩
      · rename_i hst
        refine ⟨fun δ h => (by cases h), ?_⟩
        intro _ σ hu
        have h1 := (hhead hu).1
        apply hst
        cases a with
        | app g as =>
          cases b with
          | app g' bs => exact (happ g as g' bs rfl rfl).elim
          | var v => simp_all
          | atom _ => simp [substT] at h1
          | int _ => simp [substT] at h1
          | flt _ => simp [substT] at h1
          | str _ => simp [substT] at h1
        | var v => simp_all
        | atom _ => cases b <;> simp_all [substT]
        | int _ => cases b <;> simp_all [substT]
        | flt _ => cases b <;> simp_all [substT]
        | str _ => cases b <;> simp_all [substT]

/-! ### SLD resolution is sound -/

/-- the clause is valid in the interpretation `I`: every instance of the head holds if the
    instances of the body goals hold -/
def ClauseValid (I : Term → Prop) (c : Clause) : Prop :=
  ∀ ρ : Nat → Term, (∀ b ∈ c.2, I (substT ρ b)) → I (substT ρ c.1)

/-- every answer of the SLD engine is the call under a substitution that makes all goals true -/
theorem sld_sound {I : Term → Prop} {clauses : List Clause} (hvalid : ∀ c ∈ clauses, ClauseValid I c) :
    (f : Nat) → (goals args : List Term) → (t : List Term) → t ∈ sld clauses f goals args →
    ∃ Δ : Nat → Term, t = args.map (substT Δ) ∧ ∀ g ∈ goals, I (substT Δ g)
  | 0, _, _, _, h => by simp [sld] at h
  | _ + 1, [], args, t, h => by
    simp only [sld, List.mem_singleton] at h
    exact ⟨Term.var, by rw [h, show substT Term.var = id from funext substT_var_id]; simp, fun _ hg => by cases hg⟩
  | f + 1, g :: gs, args, t, h => by
    simp only [sld, List.mem_flatMap] at h
    obtain ⟨c, hc, ht⟩ := h
    split at ht
    · rename_i δ hδ
      obtain ⟨Δ', rfl, hΔ'⟩ := sld_sound hvalid f _ _ t ht
      refine ⟨fun v => substT Δ' (δ v), by simp [List.map_map, Function.comp_def, substT_comp], ?_⟩
      have hcomp : ∀ u, substT (fun v => substT Δ' (δ v)) u = substT Δ' (substT δ u) :=
        fun u => (substT_comp _ _ u).symm
      intro g' hg'
      rw [hcomp]
      rcases List.mem_cons.mp hg' with rfl | hg'
      · rw [unifyM_sound hδ, substT_comp, substT_comp]
        apply hvalid c hc
        intro b hb
        have := hΔ' (substT δ (substT (shift (boundL (g' :: gs ++ args))) b))
          (List.mem_map.mpr ⟨_, List.mem_append_left _ (List.mem_map.mpr ⟨b, hb, rfl⟩), rfl⟩)
        rw [substT_comp, substT_comp] at this
        exact this
      · exact hΔ' _ (List.mem_map.mpr ⟨g', by simp [hg'], rfl⟩)
    · cases ht

/-! ### the clauses of member/2, select/3, append/3 are valid for the specified relations -/

/-- the clauses of member/2 and select/3 that the model resolves over are those of bootstrap.pl
    (regenerated from the source on every run) -/
theorem bootstrap_tie :
    bootClauses "member" 2 =
      [ Term.a2 "member" (.var 0) (Term.consT (.var 0) (.var 1)),
        Term.a2 ":-" (Term.a2 "member" (.var 0) (Term.consT (.var 1) (.var 2))) (Term.a2 "member" (.var 0) (.var 2)) ] ∧
    bootClauses "select" 3 =
      [ Term.a3 "select" (.var 0) (Term.consT (.var 0) (.var 1)) (.var 1),
        Term.a2 ":-" (Term.a3 "select" (.var 0) (Term.consT (.var 1) (.var 2)) (Term.consT (.var 1) (.var 3)))
          (Term.a3 "select" (.var 0) (.var 2) (.var 3)) ] := by
  decide +kernel

/-- the clauses as (head, body) pairs -/
def memberClauses : List Clause :=
  [ (Term.a2 "member" (.var 0) (Term.consT (.var 0) (.var 1)), []),
    (Term.a2 "member" (.var 0) (Term.consT (.var 1) (.var 2)), [Term.a2 "member" (.var 0) (.var 2)]) ]

def selectClauses : List Clause :=
  [ (Term.a3 "select" (.var 0) (Term.consT (.var 0) (.var 1)) (.var 1), []),
    (Term.a3 "select" (.var 0) (Term.consT (.var 1) (.var 2)) (Term.consT (.var 1) (.var 3)),
      [Term.a3 "select" (.var 0) (.var 2) (.var 3)]) ]

def appendClausePairs : List Clause :=
  [ (Term.a3 "append" Term.nilT (.var 0) (.var 0), []),
    (Term.a3 "append" (Term.consT (.var 0) (.var 1)) (.var 2) (Term.consT (.var 0) (.var 3)),
      [Term.a3 "append" (.var 1) (.var 2) (.var 3)]) ]

theorem clause_pairs :
    (bootClauses "member" 2).map clauseParts = memberClauses ∧
    (bootClauses "select" 3).map clauseParts = selectClauses ∧
    appendClauses.map clauseParts = appendClausePairs := by
  decide +kernel

/-- the intended meaning of the goals -/
def Meaning : Term → Prop
  | .app "member" (.cons x (.cons l .nil)) => memberT [x, l]
  | .app "select" (.cons e (.cons l (.cons r .nil))) => selectT [e, l, r]
  | .app "append" (.cons x (.cons y (.cons z .nil))) => appendT [x, y, z]
  | _ => False

theorem spine_cons' (h t : Term) :
    (Term.app "." (.cons h (.cons t .nil))).spine = (h :: t.spine.1, t.spine.2) := spine_consT h t

theorem member_clauses_valid : ∀ c ∈ memberClauses, ClauseValid Meaning c := by
  intro c hc
  simp only [memberClauses, List.mem_cons, List.not_mem_nil, or_false] at hc
  rcases hc with rfl | rfl
  · intro ρ _
    simp [Term.a2, Term.consT, substT, substA, Meaning, memberT, spine_cons']
  · intro ρ hb
    have := hb _ (List.mem_singleton.mpr rfl)
    simp only [Term.a2, Term.consT, substT, substA, Meaning, memberT, spine_cons'] at this ⊢
    simp [this]

theorem select_clauses_valid : ∀ c ∈ selectClauses, ClauseValid Meaning c := by
  intro c hc
  simp only [selectClauses, List.mem_cons, List.not_mem_nil, or_false] at hc
  rcases hc with rfl | rfl
  · intro ρ _
    simp only [Term.a3, Term.consT, substT, substA, Meaning, selectT, spine_cons']
    exact ⟨0, by simp, by simp, by simp [list_spine]⟩
  · intro ρ hb
    have := hb _ (List.mem_singleton.mpr rfl)
    simp only [Term.a3, Term.consT, substT, substA, Meaning, selectT, spine_cons'] at this ⊢
    obtain ⟨i, hi, he, hr⟩ := this
    exact ⟨i + 1, by simp [hi], by simp [he], by simp [hr, Term.consT]⟩

theorem append_clauses_valid : ∀ c ∈ appendClausePairs, ClauseValid Meaning c := by
  intro c hc
  simp only [appendClausePairs, List.mem_cons, List.not_mem_nil, or_false] at hc
  rcases hc with rfl | rfl
  · intro ρ _
    simp only [Term.a3, Term.nilT, substT, substA, Meaning, appendT]
    have : asList (Term.atom "[]") = some [] := asList_list []
    simp [this]
  · intro ρ hb
    have := hb _ (List.mem_singleton.mpr rfl)
    simp only [Term.a3, Term.consT, substT, substA, Meaning, appendT] at this ⊢
    split at this
    · rename_i xs hxs
      have hx := asList_eq_some_iff.mp hxs
      have h2 : asList (Term.app "." (Args.cons (ρ 0) (Args.cons (ρ 1) Args.nil))) = some (ρ 0 :: xs) := by
        rw [asList_eq_some_iff, hx]; rfl
      rw [h2]
      simp only [list_cons, Term.consT]
      rw [this]
    · exact this.elim

end PrologVerif.Rel
