package main

import (
	"fmt"
	"math"
	"os"
	"path/filepath"
	"strings"

	"github.com/ichiban/prolog"
	"github.com/ichiban/prolog/engine"
)

func init() {
	extractors = append(extractors, extractor{file: "Bootstrap.lean", run: genBootstrap})
}

func leanString(s string) string {
	var sb strings.Builder
	sb.WriteByte('"')
	for _, r := range s {
		switch {
		case r == '"':
			sb.WriteString("\\\"")
		case r == '\\':
			sb.WriteString("\\\\")
		case r == '\n':
			sb.WriteString("\\n")
		case r == '\t':
			sb.WriteString("\\t")
		case r < 0x20 || r == 0x7f:
			fmt.Fprintf(&sb, "\\x%02x", r)
		default:
			sb.WriteRune(r)
		}
	}
	sb.WriteByte('"')
	return sb.String()
}

type leanTermWriter struct {
	vars map[engine.Variable]int
}

func (w *leanTermWriter) term(t engine.Term) string {
	switch t := t.(type) {
	case engine.Variable:
		n, ok := w.vars[t]
		if !ok {
			n = len(w.vars)
			w.vars[t] = n
		}
		return fmt.Sprintf("(.var %d)", n)
	case engine.Atom:
		return "(.atom " + leanString(t.String()) + ")"
	case engine.Integer:
		if t < 0 {
			return fmt.Sprintf("(.int (%d))", int64(t))
		}
		return fmt.Sprintf("(.int %d)", int64(t))
	case engine.Float:
		return fmt.Sprintf("(.flt 0x%016x)", math.Float64bits(float64(t)))
	case engine.Compound:
		var sb strings.Builder
		sb.WriteString("(.app " + leanString(t.Functor().String()) + " ")
		for i := 0; i < t.Arity(); i++ {
			sb.WriteString("(.cons " + w.term(t.Arg(i)) + " ")
		}
		sb.WriteString(".nil")
		sb.WriteString(strings.Repeat(")", t.Arity()))
		sb.WriteString(")")
		return sb.String()
	}
	return fmt.Sprintf("(.atom \"$unknown %T\")", t)
}

// genBootstrap parses bootstrap.pl with the real parser (on an interpreter that has already
// loaded it, so that the operators the text defines for itself are known) and prints every
// term, variables numbered per term by first occurrence.
func genBootstrap(repo string) (string, error) {
	src, err := os.ReadFile(filepath.Join(repo, "bootstrap.pl"))
	if err != nil {
		return "", err
	}
	i := prolog.New(nil, nil)
	p := engine.NewParser(&i.VM, strings.NewReader(string(src)))
	var sb strings.Builder
	sb.WriteString("import PrologVerif.Basic\nnamespace PrologVerif.Generated\nopen PrologVerif\n\n")
	sb.WriteString("/-- every term of bootstrap.pl in source order -/\ndef bootstrapTerms : List Term := [\n")
	n := 0
	for p.More() {
		t, err := p.Term()
		if err != nil {
			return "", fmt.Errorf("bootstrap.pl term %d: %v", n, err)
		}
		w := leanTermWriter{vars: map[engine.Variable]int{}}
		if n > 0 {
			sb.WriteString(",\n")
		}
		sb.WriteString("  " + w.term(t))
		n++
	}
	sb.WriteString("\n]\n\nend PrologVerif.Generated\n")
	if n < 50 {
		return "", fmt.Errorf("only %d terms read from bootstrap.pl", n)
	}
	return sb.String(), nil
}
