/-
  Helper lemmas for C11: variables of terms, renamings, and the `variant` test
  (model: Model/Collect.lean, specification: Spec/Collect.lean).
-/
import PrologVerif.Model.Collect
import PrologVerif.Spec.Collect
namespace PrologVerif.Collect
open PrologVerif PrologVerif.CollectSpec

/-! ## variables -/

@[simp] theorem vars_var (v : Nat) : vars (.var v) = [v] := by simp [vars]
@[simp] theorem vars_app (f : String) (as : Args) : vars (.app f as) = varsArgs as := by simp [vars]
@[simp] theorem vars_atom (s : String) : vars (.atom s) = [] := by simp [vars]
@[simp] theorem vars_int (i : Int) : vars (.int i) = [] := by simp [vars]
@[simp] theorem vars_flt (b : UInt64) : vars (.flt b) = [] := by simp [vars]
@[simp] theorem vars_str (n : Nat) : vars (.str n) = [] := by simp [vars]
@[simp] theorem varsArgs_nil : varsArgs .nil = [] := by simp [varsArgs]
@[simp] theorem varsArgs_cons (t : Term) (ts : Args) : varsArgs (.cons t ts) = vars t ++ varsArgs ts := by
  simp [varsArgs]

theorem mem_varsArgs {v : Nat} : ∀ {as : Args}, v ∈ varsArgs as ↔ ∃ t ∈ as.toList, v ∈ vars t
  | .nil => by simp [Args.toList]
  | .cons t ts => by
    simp only [varsArgs_cons, List.mem_append, Args.toList, List.mem_cons, exists_eq_or_imp,
      mem_varsArgs (as := ts)]

mutual
  theorem occurs_of_mem_vars {v : Nat} : ∀ (t : Term), v ∈ vars t → Occurs v t
    | .var x, h => by
      simp at h; subst h; exact .var
    | .app f as, h => by
      simp at h
      obtain ⟨t, ht, hv⟩ := occursArgs_of_mem as h
      exact .arg ht hv
    | .atom _, h => by simp at h
    | .int _, h => by simp at h
    | .flt _, h => by simp at h
    | .str _, h => by simp at h
  theorem occursArgs_of_mem {v : Nat} : ∀ (as : Args), v ∈ varsArgs as → ∃ t ∈ as.toList, Occurs v t
    | .nil, h => by simp at h
    | .cons t ts, h => by
      simp at h
      rcases h with h | h
      · exact ⟨t, by simp [Args.toList], occurs_of_mem_vars t h⟩
      · obtain ⟨u, hu, hv⟩ := occursArgs_of_mem ts h
        exact ⟨u, by simp [Args.toList, hu], hv⟩
end

theorem mem_vars_of_occurs {v : Nat} {t : Term} (h : Occurs v t) : v ∈ vars t := by
  induction h with
  | var => simp
  | arg ht _ ih => simp; exact mem_varsArgs.mpr ⟨_, ht, ih⟩

/-- the model's variable list and the specification's `Occurs` agree -/
theorem occurs_iff {v : Nat} {t : Term} : Occurs v t ↔ v ∈ vars t :=
  ⟨mem_vars_of_occurs, occurs_of_mem_vars t⟩

/-! ## renamings -/

@[simp] theorem rename_var (ρ : Nat → Nat) (v : Nat) : rename ρ (.var v) = .var (ρ v) := by simp [rename]
@[simp] theorem rename_app (ρ : Nat → Nat) (f : String) (as : Args) :
    rename ρ (.app f as) = .app f (renameArgs ρ as) := by simp [rename]
@[simp] theorem rename_atom (ρ : Nat → Nat) (s : String) : rename ρ (.atom s) = .atom s := by simp [rename]
@[simp] theorem rename_int (ρ : Nat → Nat) (i : Int) : rename ρ (.int i) = .int i := by simp [rename]
@[simp] theorem rename_flt (ρ : Nat → Nat) (b : UInt64) : rename ρ (.flt b) = .flt b := by simp [rename]
@[simp] theorem rename_str (ρ : Nat → Nat) (n : Nat) : rename ρ (.str n) = .str n := by simp [rename]
@[simp] theorem renameArgs_nil (ρ : Nat → Nat) : renameArgs ρ .nil = .nil := by simp [renameArgs]
@[simp] theorem renameArgs_cons (ρ : Nat → Nat) (t : Term) (ts : Args) :
    renameArgs ρ (.cons t ts) = .cons (rename ρ t) (renameArgs ρ ts) := by simp [renameArgs]

mutual
  theorem rename_congr {ρ σ : Nat → Nat} : ∀ (t : Term), (∀ v ∈ vars t, ρ v = σ v) → rename ρ t = rename σ t
    | .var x, h => by simp [h x (by simp)]
    | .app f as, h => by simp [renameArgs_congr as (by simpa using h)]
    | .atom _, _ => by simp
    | .int _, _ => by simp
    | .flt _, _ => by simp
    | .str _, _ => by simp
  theorem renameArgs_congr {ρ σ : Nat → Nat} :
      ∀ (as : Args), (∀ v ∈ varsArgs as, ρ v = σ v) → renameArgs ρ as = renameArgs σ as
    | .nil, _ => by simp
    | .cons t ts, h => by
      simp only [renameArgs_cons]
      rw [rename_congr t (fun v hv => h v (by simp [hv])), renameArgs_congr ts (fun v hv => h v (by simp [hv]))]
end

mutual
  theorem rename_rename (ρ σ : Nat → Nat) : ∀ (t : Term), rename σ (rename ρ t) = rename (σ ∘ ρ) t
    | .var x => by simp
    | .app f as => by simp [renameArgs_rename ρ σ as]
    | .atom _ => by simp
    | .int _ => by simp
    | .flt _ => by simp
    | .str _ => by simp
  theorem renameArgs_rename (ρ σ : Nat → Nat) :
      ∀ (as : Args), renameArgs σ (renameArgs ρ as) = renameArgs (σ ∘ ρ) as
    | .nil => by simp
    | .cons t ts => by simp [rename_rename ρ σ t, renameArgs_rename ρ σ ts]
end

mutual
  theorem rename_id : ∀ (t : Term), rename id t = t
    | .var x => by simp
    | .app f as => by simp [renameArgs_id as]
    | .atom _ => by simp
    | .int _ => by simp
    | .flt _ => by simp
    | .str _ => by simp
  theorem renameArgs_id : ∀ (as : Args), renameArgs id as = as
    | .nil => by simp
    | .cons t ts => by simp [rename_id t, renameArgs_id ts]
end

mutual
  theorem vars_rename (ρ : Nat → Nat) : ∀ (t : Term), vars (rename ρ t) = (vars t).map ρ
    | .var x => by simp
    | .app f as => by simp [varsArgs_rename ρ as]
    | .atom _ => by simp
    | .int _ => by simp
    | .flt _ => by simp
    | .str _ => by simp
  theorem varsArgs_rename (ρ : Nat → Nat) : ∀ (as : Args), varsArgs (renameArgs ρ as) = (varsArgs as).map ρ
    | .nil => by simp
    | .cons t ts => by simp [vars_rename ρ t, varsArgs_rename ρ ts]
end

/-! ## `Variant` is an equivalence relation -/

/-- `Variant` phrased with the model's variable lists -/
theorem variant_def {t1 t2 : Term} :
    Variant t1 t2 ↔ ∃ ρ : Nat → Nat, (∀ a ∈ vars t1, ∀ b ∈ vars t1, ρ a = ρ b → a = b) ∧ rename ρ t1 = t2 := by
  constructor
  · rintro ⟨ρ, hinj, h⟩
    exact ⟨ρ, fun a ha b hb => hinj a b (occurs_iff.mpr ha) (occurs_iff.mpr hb), h⟩
  · rintro ⟨ρ, hinj, h⟩
    exact ⟨ρ, fun a b ha hb => hinj a (occurs_iff.mp ha) b (occurs_iff.mp hb), h⟩

theorem Variant.refl (t : Term) : Variant t t :=
  variant_def.mpr ⟨id, fun _ _ _ _ h => h, rename_id t⟩

theorem Variant.trans {t1 t2 t3 : Term} (h12 : Variant t1 t2) (h23 : Variant t2 t3) : Variant t1 t3 := by
  obtain ⟨ρ, hρ, e1⟩ := variant_def.mp h12
  obtain ⟨σ, hσ, e2⟩ := variant_def.mp h23
  refine variant_def.mpr ⟨σ ∘ ρ, ?_, by rw [← rename_rename, e1, e2]⟩
  intro a ha b hb hab
  have ha' : ρ a ∈ vars t2 := by rw [← e1, vars_rename]; exact List.mem_map_of_mem ha
  have hb' : ρ b ∈ vars t2 := by rw [← e1, vars_rename]; exact List.mem_map_of_mem hb
  exact hρ a ha b hb (hσ _ ha' _ hb' hab)

theorem Variant.symm {t1 t2 : Term} (h : Variant t1 t2) : Variant t2 t1 := by
  obtain ⟨ρ, hρ, e⟩ := variant_def.mp h
  -- the inverse renaming, found by searching the variables of t1
  let σ : Nat → Nat := fun b => match (vars t1).find? (fun a => ρ a = b) with | some a => a | none => b
  have hσ : ∀ a ∈ vars t1, σ (ρ a) = a := by
    intro a ha
    show (match (vars t1).find? (fun a' => ρ a' = ρ a) with | some a => a | none => ρ a) = a
    cases hf : (vars t1).find? (fun a' => decide (ρ a' = ρ a)) with
    | none =>
      have := List.find?_eq_none.mp hf a ha
      simp at this
    | some a' =>
      have h1 := List.find?_some hf
      have h2 := List.mem_of_find?_eq_some hf
      simp at h1
      simp [hρ a' h2 a ha h1]
  refine variant_def.mpr ⟨σ, ?_, ?_⟩
  · intro b hb b' hb' hbb
    rw [← e, vars_rename] at hb hb'
    obtain ⟨a, ha, rfl⟩ := List.mem_map.mp hb
    obtain ⟨a', ha', rfl⟩ := List.mem_map.mp hb'
    rw [hσ a ha, hσ a' ha'] at hbb
    rw [hbb]
  · rw [← e, rename_rename]
    rw [rename_congr (σ := id) t1 (fun v hv => by simp [hσ v hv]), rename_id]

/-! ## the model's `variant` decides `Variant` -/

/-- the two maps kept by the repaired `variant` are inverse to each other -/
def Inv (s r : VMap) : Prop := ∀ a b, s.lookup a = some b ↔ r.lookup b = some a

def Agrees (ρ : Nat → Nat) (s : VMap) : Prop := ∀ a b, s.lookup a = some b → ρ a = b

theorem lookup_cons {α : Type} (a x : Nat) (y : α) (s : List (Nat × α)) :
    ((x, y) :: s).lookup a = if a = x then some y else s.lookup a := by
  simp only [List.lookup]
  by_cases h : a = x
  · subst h; simp
  · have : (a == x) = false := by simpa using h
    simp [this, h]

theorem stepFixed_some {s r s' r' : VMap} {x y : Nat} (hinv : Inv s r)
    (h : stepFixed (s, r) x y = some (s', r')) :
    Inv s' r' ∧ s'.lookup x = some y ∧ (∀ a b, s.lookup a = some b → s'.lookup a = some b) ∧
    (∀ a b, s'.lookup a = some b → s.lookup a = some b ∨ (a = x ∧ b = y)) := by
  unfold stepFixed stepMap at h
  simp only at h
  cases hs : s.lookup x with
  | some z =>
    simp only [hs] at h
    by_cases hz : z = y
    · subst hz
      have hr : r.lookup z = some x := (hinv x z).mp hs
      simp [hr] at h
      obtain ⟨rfl, rfl⟩ := h
      exact ⟨hinv, hs, fun _ _ h => h, fun _ _ h => Or.inl h⟩
    · simp [hz] at h
  | none =>
    simp only [hs] at h
    cases hr : r.lookup y with
    | some z =>
      simp only [hr] at h
      by_cases hz : z = x
      · subst hz
        have := (hinv z y).mpr hr
        simp [this] at hs
      · simp [hz] at h
    | none =>
      simp [hr] at h
      obtain ⟨rfl, rfl⟩ := h
      refine ⟨?_, by simp, ?_, ?_⟩
      · intro a b
        simp only [lookup_cons]
        by_cases hax : a = x
        · subst hax
          by_cases hby : b = y
          · subst hby; simp
          · simp only [if_true, hby, if_false]
            constructor
            · intro h; exact absurd (Option.some.inj h).symm hby
            · intro h; have := (hinv a b).mpr h; simp [this] at hs
        · simp only [hax, if_false]
          by_cases hby : b = y
          · subst hby
            simp only [if_true]
            constructor
            · intro h; have := (hinv a b).mp h; simp [this] at hr
            · intro h; exact absurd (Option.some.inj h).symm hax
          · simp only [hby, if_false]; exact hinv a b
      · intro a b h
        simp only [lookup_cons]
        by_cases hax : a = x
        · subst hax; simp [h] at hs
        · simp [hax, h]
      · intro a b h
        simp only [lookup_cons] at h
        by_cases hax : a = x
        · subst hax; simp at h; exact Or.inr ⟨rfl, h.symm⟩
        · simp [hax] at h; exact Or.inl h

/-- soundness: a successful run yields a one-to-one map under which t1 becomes t2 -/
structure Sound (t1vars : List Nat) (s r s' r' : VMap) : Prop where
  inv : Inv s' r'
  ext : ∀ a b, s.lookup a = some b → s'.lookup a = some b
  dom : ∀ a ∈ t1vars, ∃ b, s'.lookup a = some b

mutual
  theorem variantAux_sound : ∀ (t1 t2 : Term) (s r s' r' : VMap), Inv s r →
      variantAux stepFixed t1 t2 (s, r) = some (s', r') →
      Sound (vars t1) s r s' r' ∧ ∀ ρ, Agrees ρ s' → rename ρ t1 = t2
    | .var x, t2, s, r, s', r', hinv, h => by
      cases t2 with
      | var y =>
        simp only [variantAux] at h
        obtain ⟨h1, h2, h3, _⟩ := stepFixed_some hinv h
        exact ⟨⟨h1, h3, by simp [h2]⟩, fun ρ hρ => by simp [hρ x y h2]⟩
      | _ => simp [variantAux] at h
    | .app f as, t2, s, r, s', r', hinv, h => by
      cases t2 with
      | app g bs =>
        simp only [variantAux] at h
        split at h
        · rename_i hfg
          subst hfg
          obtain ⟨h1, h2⟩ := variantArgs_sound as bs s r s' r' hinv h
          exact ⟨by simpa using h1, fun ρ hρ => by simp [h2 ρ hρ]⟩
        · simp at h
      | _ => simp [variantAux] at h
    | .atom a, t2, s, r, s', r', hinv, h => by
      simp only [variantAux] at h
      split at h
      · rename_i he; subst he
        simp at h; obtain ⟨rfl, rfl⟩ := h
        exact ⟨⟨hinv, fun _ _ h => h, by simp⟩, fun _ _ => by simp⟩
      · simp at h
    | .int a, t2, s, r, s', r', hinv, h => by
      simp only [variantAux] at h
      split at h
      · rename_i he; subst he
        simp at h; obtain ⟨rfl, rfl⟩ := h
        exact ⟨⟨hinv, fun _ _ h => h, by simp⟩, fun _ _ => by simp⟩
      · simp at h
    | .flt a, t2, s, r, s', r', hinv, h => by
      simp only [variantAux] at h
      split at h
      · rename_i he; subst he
        simp at h; obtain ⟨rfl, rfl⟩ := h
        exact ⟨⟨hinv, fun _ _ h => h, by simp⟩, fun _ _ => by simp⟩
      · simp at h
    | .str a, t2, s, r, s', r', hinv, h => by
      simp only [variantAux] at h
      split at h
      · rename_i he; subst he
        simp at h; obtain ⟨rfl, rfl⟩ := h
        exact ⟨⟨hinv, fun _ _ h => h, by simp⟩, fun _ _ => by simp⟩
      · simp at h
  theorem variantArgs_sound : ∀ (as bs : Args) (s r s' r' : VMap), Inv s r →
      variantArgs stepFixed as bs (s, r) = some (s', r') →
      Sound (varsArgs as) s r s' r' ∧ ∀ ρ, Agrees ρ s' → renameArgs ρ as = bs
    | .nil, bs, s, r, s', r', hinv, h => by
      cases bs with
      | nil =>
        simp [variantArgs] at h; obtain ⟨rfl, rfl⟩ := h
        exact ⟨⟨hinv, fun _ _ h => h, by simp⟩, fun _ _ => by simp⟩
      | cons _ _ => simp [variantArgs] at h
    | .cons a as, bs, s, r, s', r', hinv, h => by
      cases bs with
      | nil => simp [variantArgs] at h
      | cons b bs =>
        simp only [variantArgs] at h
        cases h1 : variantAux stepFixed a b (s, r) with
        | none => simp [h1] at h
        | some sr1 =>
          obtain ⟨s1, r1⟩ := sr1
          simp only [h1] at h
          obtain ⟨ha, ha2⟩ := variantAux_sound a b s r s1 r1 hinv h1
          obtain ⟨hb, hb2⟩ := variantArgs_sound as bs s1 r1 s' r' ha.inv h
          refine ⟨⟨hb.inv, fun x y hxy => hb.ext _ _ (ha.ext _ _ hxy), ?_⟩, ?_⟩
          · intro v hv
            simp at hv
            rcases hv with hv | hv
            · obtain ⟨w, hw⟩ := ha.dom v hv
              exact ⟨w, hb.ext _ _ hw⟩
            · exact hb.dom v hv
          · intro ρ hρ
            have hρ1 : Agrees ρ s1 := fun x y hxy => hρ x y (hb.ext _ _ hxy)
            simp [ha2 ρ hρ1, hb2 ρ hρ]
end

theorem stepFixed_complete {ρ : Nat → Nat} {D : Nat → Prop} {s r : VMap} {x : Nat}
    (hinj : ∀ a b, D a → D b → ρ a = ρ b → a = b) (hD : ∀ a b, s.lookup a = some b → D a)
    (hx : D x) (hag : Agrees ρ s) (hinv : Inv s r) :
    ∃ s' r', stepFixed (s, r) x (ρ x) = some (s', r') ∧ Agrees ρ s' ∧ Inv s' r' ∧
      (∀ a b, s'.lookup a = some b → D a) := by
  cases hs : s.lookup x with
  | some z =>
    have hz : ρ x = z := hag x z hs
    subst hz
    have hr : r.lookup (ρ x) = some x := (hinv x _).mp hs
    exact ⟨s, r, by simp [stepFixed, stepMap, hs, hr], hag, hinv, hD⟩
  | none =>
    cases hr : r.lookup (ρ x) with
    | some z =>
      have hz : s.lookup z = some (ρ x) := (hinv z _).mpr hr
      have : z = x := hinj z x (hD z _ hz) hx (hag z _ hz)
      subst this
      simp [hz] at hs
    | none =>
      have hstep : stepFixed (s, r) x (ρ x) = some ((x, ρ x) :: s, (ρ x, x) :: r) := by
        simp [stepFixed, stepMap, hs, hr]
      obtain ⟨h1, _, _, h4⟩ := stepFixed_some hinv hstep
      refine ⟨_, _, hstep, ?_, h1, ?_⟩
      · intro a b hab
        rcases h4 a b hab with h | ⟨rfl, rfl⟩
        · exact hag a b h
        · rfl
      · intro a b hab
        rcases h4 a b hab with h | ⟨rfl, rfl⟩
        · exact hD a b h
        · exact hx

mutual
  theorem variantAux_complete {ρ : Nat → Nat} {D : Nat → Prop}
      (hinj : ∀ a b, D a → D b → ρ a = ρ b → a = b) :
      ∀ (t1 : Term) (s r : VMap), (∀ a b, s.lookup a = some b → D a) → (∀ a ∈ vars t1, D a) →
        Agrees ρ s → Inv s r →
        ∃ s' r', variantAux stepFixed t1 (rename ρ t1) (s, r) = some (s', r') ∧ Agrees ρ s' ∧ Inv s' r' ∧
          (∀ a b, s'.lookup a = some b → D a)
    | .var x, s, r, hD, hv, hag, hinv => by
      simp only [rename_var, variantAux]
      exact stepFixed_complete hinj hD (hv x (by simp)) hag hinv
    | .app f as, s, r, hD, hv, hag, hinv => by
      simp only [rename_app, variantAux, if_true]
      exact variantArgs_complete hinj as s r hD (by simpa using hv) hag hinv
    | .atom a, s, r, hD, _, hag, hinv => ⟨s, r, by simp [variantAux], hag, hinv, hD⟩
    | .int a, s, r, hD, _, hag, hinv => ⟨s, r, by simp [variantAux], hag, hinv, hD⟩
    | .flt a, s, r, hD, _, hag, hinv => ⟨s, r, by simp [variantAux], hag, hinv, hD⟩
    | .str a, s, r, hD, _, hag, hinv => ⟨s, r, by simp [variantAux], hag, hinv, hD⟩
  theorem variantArgs_complete {ρ : Nat → Nat} {D : Nat → Prop}
      (hinj : ∀ a b, D a → D b → ρ a = ρ b → a = b) :
      ∀ (as : Args) (s r : VMap), (∀ a b, s.lookup a = some b → D a) → (∀ a ∈ varsArgs as, D a) →
        Agrees ρ s → Inv s r →
        ∃ s' r', variantArgs stepFixed as (renameArgs ρ as) (s, r) = some (s', r') ∧ Agrees ρ s' ∧ Inv s' r' ∧
          (∀ a b, s'.lookup a = some b → D a)
    | .nil, s, r, hD, _, hag, hinv => ⟨s, r, by simp [variantArgs], hag, hinv, hD⟩
    | .cons t ts, s, r, hD, hv, hag, hinv => by
      obtain ⟨s1, r1, h1, hag1, hinv1, hD1⟩ :=
        variantAux_complete hinj t s r hD (fun a ha => hv a (by simp [ha])) hag hinv
      obtain ⟨s2, r2, h2, hag2, hinv2, hD2⟩ :=
        variantArgs_complete hinj ts s1 r1 hD1 (fun a ha => hv a (by simp [ha])) hag1 hinv1
      exact ⟨s2, r2, by simp [variantArgs, h1, h2], hag2, hinv2, hD2⟩
end

theorem inv_nil : Inv [] [] := by intro a b; simp

/-- the repaired `variant` is exactly ISO's "variant" -/
theorem variant_iff (t1 t2 : Term) : variant t1 t2 = true ↔ Variant t1 t2 := by
  constructor
  · intro h
    unfold variant at h
    cases hv : variantAux stepFixed t1 t2 ([], []) with
    | none => simp [hv] at h
    | some sr =>
      obtain ⟨s', r'⟩ := sr
      obtain ⟨hs, hren⟩ := variantAux_sound t1 t2 [] [] s' r' inv_nil hv
      let ρ : Nat → Nat := fun a => match s'.lookup a with | some b => b | none => a
      have hag : Agrees ρ s' := by intro a b hab; simp [ρ, hab]
      refine variant_def.mpr ⟨ρ, ?_, hren ρ hag⟩
      intro a ha b hb hab
      obtain ⟨a', ha'⟩ := hs.dom a ha
      obtain ⟨b', hb'⟩ := hs.dom b hb
      have e1 : ρ a = a' := hag a a' ha'
      have e2 : ρ b = b' := hag b b' hb'
      have : a' = b' := by rw [← e1, ← e2, hab]
      subst this
      have r1 := (hs.inv a a').mp ha'
      have r2 := (hs.inv b a').mp hb'
      rw [r1] at r2
      exact Option.some.inj r2
  · intro h
    obtain ⟨ρ, hinj, e⟩ := variant_def.mp h
    obtain ⟨s', r', hv, _⟩ := variantAux_complete (ρ := ρ) (D := fun a => a ∈ vars t1)
      (fun a b ha hb => hinj a ha b hb) t1 [] [] (by simp) (fun a ha => ha) (by intro a b; simp) inv_nil
    rw [e] at hv
    simp [variant, hv]

end PrologVerif.Collect
