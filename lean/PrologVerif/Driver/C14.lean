import PrologVerif.Driver.Common
import PrologVerif.Model.Shared
import PrologVerif.Spec.SharedLin
namespace PrologVerif.Driver.C14
open PrologVerif PrologVerif.Shared PrologVerif.Driver

/-! ## c14.table — the real NewAtom / Atom.String / NewVariable against Model/Shared -/

/-- names interned by the harness before any case (harness/c14.go `c14OldNames`) -/
def oldNames : List String := ["[]", "foo", "bar", "append", "c14_old_1", "c14_old_2", "user_input"]

def oldState : State :=
  { names := oldNames, atoms := oldNames.zipIdx.map (fun (s, i) => (s, i + base)), counter := 0 }

/-- the harness makes multi-rune names fresh by appending U+0001 and a per-case number -/
def marker : Char := Char.ofNat 1

def stripMarker (s : String) : String := String.ofList (s.toList.takeWhile (· != marker))

def parseAsk (tok : String) : Option SharedLin.Ask :=
  match tok.toList with
  | 'n' :: ':' :: cs => (decName cs).map fun s => .intern s false
  | 'o' :: ':' :: cs => (decName cs).map fun s => .intern s true
  | 's' :: ':' :: cs => (natOfChars cs).map .nameOf
  | 'r' :: ':' :: cs => (natOfChars cs).map .nameRune
  | ['v'] => some .newVar
  | _ => none

def kv (hdr : String) (key : String) : String :=
  match (words hdr).filterMap (fun w => match w.splitOn "=" with | [k, v] => if k = key then some v else none | _ => none) with
  | v :: _ => v
  | [] => ""

structure TableCase where
  mode : String
  clients : List (List SharedLin.Ask)
  sched : List Nat

def parseTable (payload : String) : Option TableCase := do
  match payload.splitOn " ;; " with
  | [] => none
  | hdr :: rest =>
    let (schedParts, clientParts) := rest.partition (fun p => p.startsWith "sched")
    let clients ← clientParts.mapM fun p => (words p).mapM parseAsk
    let sched := match schedParts with
      | s :: _ => ((words s).drop 1).filterMap (fun w => natOfChars w.toList)
      | [] => []
    pure { mode := kv hdr "mode", clients := clients, sched := sched }

/-- one operation of client `c` on the model; `mine` = the client's results so far -/
def doAsk (σ : State) (mine : List Res) : SharedLin.Ask → State × Res
  | .intern name old =>
    let actual := if old ∨ (oneRune name).isSome then name else (name.push marker).push '#'
    step σ (.newAtom actual)
  | .nameOf k =>
    match mine[k]? with
    | some (.atom a) => step σ (.atomName a)
    | _ => (σ, .name none)
  | .nameRune cp => step σ (.atomName cp)
  | .newVar => step σ .newVar

/-- run the clients' programs in the given interleaving (a list of client numbers);
    returns per client the results in program order -/
def runSched (clients : List (List SharedLin.Ask)) (sched : List Nat) : List (List Res) :=
  let init : State × List (List Res) := (oldState, clients.map fun _ => [])
  (sched.foldl (fun (st : State × List (List Res)) c =>
    let (σ, rs) := st
    match clients[c]?, rs[c]? with
    | some prog, some mine =>
      match prog[mine.length]? with
      | some ask =>
        let (σ', r) := doAsk σ mine ask
        (σ', rs.set c (mine ++ [r]))
      | none => st
    | _, _ => st) init).2

def n0 : Nat := oldNames.length

def rawTok : Res → String
  | .atom a => if a < base then s!"R{a}" else if a - base < n0 then "O" else s!"N{a - base - n0}"
  | .name (some s) => "=" ++ encName (stripMarker s)
  | .name none => "=!panic"
  | .var v => s!"V{v}"

/-- a client's view: table ids renamed by first occurrence, variables by rank -/
def viewToks (rs : List Res) : List String :=
  (rs.foldl (fun (st : List String × List Nat × Nat) r =>
    let (out, seen, nv) := st
    match r with
    | .atom a =>
      if a < base ∨ a - base < n0 then (out ++ [rawTok r], seen, nv)
      else match indexOf? seen a with
        | some j => (out ++ [s!"T{j}"], seen, nv)
        | none => (out ++ [s!"T{seen.length}"], seen ++ [a], nv)
    | .var _ => (out ++ [s!"W{nv}"], seen, nv + 1)
    | _ => (out ++ [rawTok r], seen, nv)) ([], [], 0)).1

def joinClients (f : List Res → List String) (rs : List (List Res)) : String :=
  " / ".intercalate (rs.map fun r => " ".intercalate (f r))

def parseObs (tok : String) : SharedLin.Obs :=
  match tok.toList with
  | ['O'] => .old
  | 'R' :: cs => match natOfChars cs with | some n => .rune n | none => .bad tok
  | 'N' :: cs => match natOfChars cs with | some n => .fresh n | none => .bad tok
  | 'V' :: cs => match natOfChars cs with | some n => .var n | none => .bad tok
  | '=' :: cs => match decName cs with | some s => .name s | none => .bad tok
  | _ => .bad tok

def tableHandler : Handler := fun payload impl =>
  match parseTable payload with
  | none => ("BAD-CASE", "FAIL unparsable case")
  | some tc =>
    let implRaw := match impl.splitOn " ;; " with | [_, r] => r | _ => ""
    -- model: the given interleaving, or (mode=par) ANY interleaving — here: one client after the other;
    -- C14_view_as_alone is why the views do not depend on the choice
    let sched := if tc.mode = "seq" then tc.sched
      else (tc.clients.zipIdx.map fun (p, c) => List.replicate p.length c).flatten
    let rs := runSched tc.clients sched
    let model := joinClients viewToks rs ++ " ;; " ++ (if tc.mode = "seq" then joinClients (·.map rawTok) rs else implRaw)
    -- specification: linearizability of what the implementation answered
    let obs := (implRaw.splitOn " / ").map fun c => (words c).map parseObs
    let verdict :=
      if impl.startsWith "CRASH" ∨ impl.startsWith "HANG" then "FAIL " ++ (impl.take 300).toString
      else if obs.length ≠ tc.clients.length ∨ (obs.zip tc.clients).any (fun (o, a) => o.length ≠ a.length) then
        "FAIL output does not have one answer per operation"
      else match SharedLin.check ((tc.clients.zip obs).map fun (a, o) => a.zip o) with
        | none => "ok"
        | some e => "FAIL " ++ e
    (model, verdict)

/-! ## c14.race — whole interpreters: the concurrent answers must be the sequential ones -/

def firstDiff (xs ys : List String) : Option Nat :=
  let rec go (i : Nat) : List String → List String → Option Nat
    | [], [] => none
    | x :: xs, y :: ys => if x = y then go (i + 1) xs ys else some i
    | _, _ => some i
  go 0 xs ys

def raceHandler : Handler := fun _payload impl =>
  match impl.splitOn " ;; seq " with
  | [c, s] =>
    let conc := (c.drop 5).toString
    -- model of isolation: every interpreter answers as it does alone
    let model := "conc " ++ s ++ " ;; seq " ++ s
    match firstDiff (conc.splitOn " ## ") (s.splitOn " ## ") with
    | none => (model, "ok")
    | some k => (model, s!"FAIL interpreter #{k} gives different answers when other interpreters run concurrently")
  | _ => ("BAD-OUTPUT", "FAIL " ++ (impl.take 300).toString)

/-! ## c14.isolation — a state change in interpreter A must not be observable in interpreter B -/

def isoHandler : Handler := fun _payload impl =>
  match impl.splitOn " ; pristine=" with
  | [mres, rest0] =>
    match rest0.splitOn " ; before=" with
    | [pristine, rest] =>
      match rest.splitOn " ; after=" with
      | [before, rest2] =>
        match rest2.splitOn " ; own=" with
        | [after, own] =>
          -- model of isolation: B (and any fresh interpreter) observes what a fresh interpreter observed
          -- before anything was changed anywhere
          let model := mres ++ " ; pristine=" ++ pristine ++ " ; before=" ++ pristine ++ " ; after=" ++ pristine ++ " ; own=" ++ own
          if before ≠ pristine then
            (model, "FAIL a fresh interpreter is affected by changes made earlier in other interpreters: expected " ++ pristine)
          else if after ≠ before then
            (model, "FAIL a change made in one interpreter is observable in another: expected " ++ before)
          else (model, "ok")
        | _ => ("BAD-OUTPUT", "FAIL unparsable output")
      | _ => ("BAD-OUTPUT", "FAIL unparsable output")
    | _ => ("BAD-OUTPUT", "FAIL unparsable output")
  | _ => ("BAD-OUTPUT", "FAIL " ++ (impl.take 200).toString)

end PrologVerif.Driver.C14
