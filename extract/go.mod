module verif/extract

go 1.19

require github.com/ichiban/prolog v0.0.0

replace github.com/ichiban/prolog => /tmp/wP4/repo
