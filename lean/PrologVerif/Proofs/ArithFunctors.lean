/-
  Proofs/ArithFunctors — the evaluable functors of number.go (the translated Number-level dispatchers)
  on integer arguments, against Spec/ExactArith: + - * // rem mod div - abs sign + max min, bitwise
  /\ \/ xor \, shifts, ^.
-/
import PrologVerif.Proofs.ArithPow
import PrologVerif.Proofs.ArithBits
namespace PrologVerif.ArithProofs
open PrologVerif.Arith PrologVerif.Generated.Arith
open PrologVerif.Spec.ExactArith (Outcome inRange checked bit ofBits)

variable {F : Type} [FloatOps F]

/-- the outcome of an evaluable functor applied to numbers, read as an outcome of the integer
    specification (a float result, a float culprit or a panic is none) -/
def outcomeN : Except Err (Num F) → Option Outcome
  | .ok (.int v) => some (.value v.val)
  | .ok (.flt _) => none
  | .error (.ev e) => some (.evalError e.atom)
  | .error (.typeError t (.int c)) => some (.typeError t c)
  | .error _ => none

omit [FloatOps F] in
theorem outcomeN_liftI (r : Except Err I64) : outcomeN (liftI r : Except Err (Num F)) = outcome r := by
  unfold liftI
  cases r with
  | ok v => rfl
  | error e =>
    cases e with
    | panic p => rfl
    | ev e => rfl
    | typeError t c => cases c <;> rfl

/-! ### the integer functors on integers -/

theorem add_exact (x y : I64) : outcomeN (add (F := F) (.int x) (.int y)) = some (S.add x.val y.val) := by
  show outcomeN (liftI (addI x y)) = _; rw [outcomeN_liftI, addI_exact]
theorem sub_exact (x y : I64) : outcomeN (sub (F := F) (.int x) (.int y)) = some (S.sub x.val y.val) := by
  show outcomeN (liftI (subI x y)) = _; rw [outcomeN_liftI, subI_exact]
theorem mul_exact (x y : I64) : outcomeN (mul (F := F) (.int x) (.int y)) = some (S.mul x.val y.val) := by
  show outcomeN (liftI (mulI x y)) = _; rw [outcomeN_liftI, mulI_exact]
theorem intDiv_exact (x y : I64) : outcomeN (intDiv (F := F) (.int x) (.int y)) = some (S.intDiv x.val y.val) := by
  show outcomeN (liftI (intDivI x y)) = _; rw [outcomeN_liftI, intDivI_exact]
theorem rem_exact (x y : I64) : outcomeN (rem (F := F) (.int x) (.int y)) = some (S.rem x.val y.val) := by
  show outcomeN (liftI (remI x y)) = _; rw [outcomeN_liftI, remI_exact]
theorem mod_exact (x y : I64) : outcomeN (mod (F := F) (.int x) (.int y)) = some (S.mod x.val y.val) := by
  show outcomeN (liftI (modI x y)) = _; rw [outcomeN_liftI, modI_exact]
theorem intFloorDiv_exact (x y : I64) :
    outcomeN (intFloorDiv (F := F) (.int x) (.int y)) = some (S.floorDiv x.val y.val) := by
  show outcomeN (liftI (intFloorDivI x y)) = _; rw [outcomeN_liftI, intFloorDivI_exact]
theorem neg_exact (x : I64) : outcomeN (neg (F := F) (.int x)) = some (S.neg x.val) := by
  show outcomeN (liftI (negI x)) = _; rw [outcomeN_liftI, negI_exact]
theorem abs_exact (x : I64) : outcomeN (abs (F := F) (.int x)) = some (S.abs x.val) := by
  show outcomeN (liftI (absI x)) = _; rw [outcomeN_liftI, absI_exact]
omit [FloatOps F] in
theorem pos_exact (x : I64) : outcomeN (pos (F := F) (.int x)) = some (S.pos x.val) := by
  show outcomeN (liftI (posI x)) = _; rw [outcomeN_liftI, posI_exact]
theorem sign_exact (x : I64) : outcomeN (sign (F := F) (.int x)) = some (S.sign x.val) := by
  show outcomeN (.ok (.int (signI x))) = _
  have := signI_exact x
  simpa [outcome, outcomeN] using this

theorem max_exact (x y : I64) : outcomeN (Generated.Arith.max (F := F) (.int x) (.int y)) = some (S.max x.val y.val) := by
  unfold Generated.Arith.max S.max Spec.ExactArith.max
  simp only []
  split
  · rename_i h; rw [I64.lt_def] at h; rw [if_pos h]; rfl
  · rename_i h; rw [I64.lt_def] at h; rw [if_neg h]; rfl

theorem min_exact (x y : I64) : outcomeN (Generated.Arith.min (F := F) (.int x) (.int y)) = some (S.min x.val y.val) := by
  unfold Generated.Arith.min S.min Spec.ExactArith.min
  simp only []
  split
  · rename_i h; rw [I64.gt_def] at h; rw [if_pos h]; rfl
  · rename_i h; rw [I64.gt_def] at h; rw [if_neg h]; rfl

/-! ### bitwise -/

theorem bitwiseAnd_exact (x y : I64) :
    outcomeN (bitwiseAnd (F := F) (.int x) (.int y)) = some (Spec.ExactArith.bitAnd x.val y.val) := by
  show some (Outcome.value (I64.and x y).val) = _
  unfold Spec.ExactArith.bitAnd
  rw [ofBits_bit _ (I64.and x y).val (I64.and x y).inRange (fun i => (bit_and x y i).symm)]

theorem bitwiseOr_exact (x y : I64) :
    outcomeN (bitwiseOr (F := F) (.int x) (.int y)) = some (Spec.ExactArith.bitOr x.val y.val) := by
  show some (Outcome.value (I64.or x y).val) = _
  unfold Spec.ExactArith.bitOr
  rw [ofBits_bit _ (I64.or x y).val (I64.or x y).inRange (fun i => (bit_or x y i).symm)]

theorem xor_exact (x y : I64) :
    outcomeN (xor (F := F) (.int x) (.int y)) = some (Spec.ExactArith.bitXor x.val y.val) := by
  show some (Outcome.value (I64.xor x y).val) = _
  unfold Spec.ExactArith.bitXor
  rw [ofBits_bit _ (I64.xor x y).val (I64.xor x y).inRange (fun i => (bit_xor x y i).symm)]

theorem bitwiseComplement_exact (x : I64) :
    outcomeN (bitwiseComplement (F := F) (.int x)) = some (Spec.ExactArith.bitNot x.val) := by
  show some (Outcome.value (I64.not x).val) = _
  rw [val_not]; rfl

/-! ### shifts -/

theorem shiftLeft_exact (x s : I64) (o : Outcome) (h : Spec.ExactArith.shiftLeft x.val s.val = some o) :
    outcomeN (bitwiseLeftShift (F := F) (.int x) (.int s)) = some o := by
  unfold Spec.ExactArith.shiftLeft at h
  split at h
  · rename_i hc
    obtain ⟨h0, h63, hr⟩ := hc
    injection h with h; subst h
    unfold bitwiseLeftShift
    simp only []
    rw [if_neg (by rw [I64.lt_def, I64.val_zero]; omega)]
    unfold goShl
    rw [if_neg (by omega), if_neg (by omega)]
    simp only [liftP_ok, Except.bind, outcomeN, I64.val_ofInt]
    rw [wrap_eq_self hr]
  · simp at h

theorem ediv_pow_inRange (x : Int) (hx : InRange x) (n : Nat) : InRange (x / 2 ^ n) := by
  have hp := two_pow_pos n
  have h1 : 1 ≤ (2 : Int) ^ n := hp
  unfold InRange at *
  constructor
  · by_cases hneg : x < 0
    · have : x ≤ x / 2 ^ n := by
        apply Int.le_ediv_of_mul_le hp
        have : x * 2 ^ n ≤ x * 1 := Int.mul_le_mul_of_nonpos_left (by omega) h1
        omega
      omega
    · have := Int.ediv_nonneg (a := x) (b := 2 ^ n) (by omega) (by omega)
      omega
  · by_cases hneg : x < 0
    · have := Int.ediv_neg_of_neg_of_pos hneg hp
      omega
    · have : x / 2 ^ n ≤ x := Int.ediv_le_self _ (by omega)
      omega

theorem shiftRight_exact (x s : I64) (o : Outcome) (h : Spec.ExactArith.shiftRight x.val s.val = some o) :
    outcomeN (bitwiseRightShift (F := F) (.int x) (.int s)) = some o := by
  unfold Spec.ExactArith.shiftRight at h
  split at h
  · rename_i hc
    obtain ⟨h0, h63⟩ := hc
    injection h with h; subst h
    unfold bitwiseRightShift
    simp only []
    rw [if_neg (by rw [I64.lt_def, I64.val_zero]; omega)]
    unfold goShr
    rw [if_neg (by omega), if_neg (by omega)]
    simp only [liftP_ok, Except.bind, outcomeN, I64.val_ofInt]
    rw [wrap_eq_self (ediv_pow_inRange x.val x.inRange _)]
  · simp at h

/-! ### ^ -/

theorem neg_one_pow (n : Nat) : (-1 : Int) ^ n = if n % 2 = 0 then 1 else -1 := by
  obtain ⟨m, hm | hm⟩ : ∃ m, n = 2 * m ∨ n = 2 * m + 1 := ⟨n / 2, by omega⟩
  · rw [hm, pow_even]; simp [Int.one_pow]
  · rw [hm, pow_odd]; simp [Int.one_pow]

/-- `^` on integers, all bases and exponents except the test-pinned corner (±1) ^ minInt (D21) -/
theorem integerPower_exact (x y : I64)
    (hcorner : ¬ (y.val = -9223372036854775808 ∧ (x.val = 1 ∨ x.val = -1))) :
    outcomeN (integerPower (F := F) (.int x) (.int y)) = some (S.pow x.val y.val) := by
  have hy := y.inRange
  unfold integerPower S.pow Spec.ExactArith.pow
  simp only []
  by_cases hneg : y.val < 0
  · -- negative exponent
    rw [if_pos (show y < (0 : I64) by rw [I64.lt_def, I64.val_zero]; exact hneg),
      if_neg (show ¬ (0 ≤ y.val) by omega)]
    by_cases h0 : x.val = 0
    · rw [if_pos (show x = (0 : I64) by rw [I64.ext_iff, I64.val_zero]; exact h0)]
      rw [if_neg (show ¬ (x.val = 1) by omega), if_neg (show ¬ (x.val = -1) by omega), if_pos h0]; rfl
    rw [if_neg (show ¬ (x = (0 : I64)) by rw [I64.ext_iff, I64.val_zero]; exact h0)]
    by_cases h1 : x.val = 1 ∨ x.val = -1
    · rw [if_pos (show x = (1 : I64) ∨ x = I64.ofInt (-1) by
        simp only [I64.ext_iff, I64.val_one, I64.val_negOne]; exact h1)]
      -- the exponent can be negated
      have hne : y.val ≠ -9223372036854775808 := fun e => hcorner ⟨e, h1⟩
      have hn := negI_exact y
      unfold S.neg Spec.ExactArith.neg at hn
      have hnr : inRange (-y.val) := by rw [inRange_iff]; unfold InRange at hy; omega
      rw [checked_pos hnr] at hn
      obtain ⟨y', hy', hy'v⟩ := outcome_ok_iff hn
      rw [hy']
      simp only [Except.bind]
      have hp := intPow_exact x y' (by omega)
      unfold S.pow Spec.ExactArith.pow at hp
      rw [if_pos (show 0 ≤ y'.val by omega), hy'v] at hp
      have hpow : x.val ^ (-y.val).toNat = if x.val = 1 then 1 else if y.val % 2 = 0 then 1 else -1 := by
        rcases h1 with h1 | h1
        · rw [h1, Int.one_pow]; simp
        · rw [h1, neg_one_pow]
          have : ¬ ((-1 : Int) = 1) := by decide
          rw [if_neg this]
          by_cases hp : y.val % 2 = 0
          · rw [if_pos hp, if_pos (by omega)]
          · rw [if_neg hp, if_neg (by omega)]
      have hr : inRange (x.val ^ (-y.val).toNat) := by
        rw [hpow]; split
        · decide
        · split <;> decide
      rw [checked_pos hr] at hp
      obtain ⟨r, hr', hrv⟩ := outcome_ok_iff hp
      rw [hr']
      simp only [ignoreErr]
      rw [outcomeN_liftI, intDivI_exact]
      unfold S.intDiv Spec.ExactArith.intDiv
      rw [hrv, hpow, I64.val_one]
      rcases h1 with h1 | h1
      · rw [h1]; simp; decide
      · rw [h1]
        by_cases hp : y.val % 2 = 0
        · simp [hp]; decide
        · simp [hp]; decide
    · rw [if_neg (show ¬ (x = (1 : I64) ∨ x = I64.ofInt (-1)) by
        simp only [I64.ext_iff, I64.val_one, I64.val_negOne]; exact h1)]
      rw [if_neg (show ¬ (x.val = 1) by omega), if_neg (show ¬ (x.val = -1) by omega), if_neg h0]; rfl
  · rw [if_neg (show ¬ (y < (0 : I64)) by rw [I64.lt_def, I64.val_zero]; exact hneg),
      if_pos (show 0 ≤ y.val by omega)]
    rw [outcomeN_liftI, intPow_exact x y (by omega)]
    unfold S.pow Spec.ExactArith.pow
    rw [if_pos (show 0 ≤ y.val by omega)]

/-- the corner itself: the code answers int_overflow where the exact result 1 is representable -/
theorem integerPower_corner :
    outcomeN (integerPower (F := F) (.int (I64.ofInt (-1))) (.int I64.minInt)) = some (.evalError "int_overflow") ∧
    S.pow (-1) (-9223372036854775808) = .value 1 := by
  constructor
  · rfl
  · decide

end PrologVerif.ArithProofs
