/-
  force_dfs — the trampoline (Model/Promise.lean `force`, instance Model/PTree.lean) finds exactly
  what the recursive reference search (Spec/DFS.lean `dfs`) finds: same result, same order of thunk
  evaluations (trace), same side effects, for every well-scoped promise tree, on top of any stack.

  STATEMENTS ONLY in this header section; the proofs follow.
-/
import PrologVerif.Spec.DFS
import PrologVerif.Proofs.Promise
namespace PrologVerif.ForceDFS
open PrologVerif.Promise PrologVerif.PTree PrologVerif.DFS

/-- ids of the identified frames of a stack (delay promises and markers), top first -/
def ids (stack : List Pr) : List Nat :=
  stack.filterMap fun p => if p.id = 0 then none else some p.id

def cutOpt : Option Nat → List Pr → List Pr
  | none, st => st
  | some c, st => cutStack c st

/-- where the machine is once the subtree that sat on top of `stack` has signalled `sig`:
    `n` is the fuel left, `m` the machine state at that moment -/
def after (sig : Sig) (stack : List Pr) (m : M St) (n : Nat) : Option (Res Nat × M St) :=
  match sig with
  | .found => some (.yes, m)
  | .exhausted co => force sem none n (cutOpt co stack) m
  | .raised e co =>
    match recoverStack sem e (cutOpt co stack) m with
    | (none, m') => some (.error e, m')
    | (some st', m') => force sem none n st' m'
  | .illScoped => none

/-- the statement of force_dfs for a subtree `t` whose promise sits on top of `stack` -/
def ForceDfsStatement : Prop :=
  ∀ (k : Nat) (t : PT) (live : List Nat) (s s' : St) (sig : Sig),
    dfs k t live s = some (sig, s') → sig ≠ .illScoped →
    ∀ (stack : List Pr), ids stack = live → live.Nodup →
      ∃ cost di, ∀ n i,
        force sem none (n + cost) ((evalThunk t ⟨s, i⟩).1 :: stack) (evalThunk t ⟨s, i⟩).2
          = after sig stack ⟨s', i + di⟩ n


/-! ## Proofs

### one iteration of `force` on each shape of promise -/

theorem sem_evalThunk (n : Nat) (t : PT) (m : M St) : sem.evalThunk n t m = some (evalThunk t m) := rfl

theorem step_empty (n : Nat) (p : Pr) (stack : List Pr) (s : St) (i : Nat)
    (hd : p.delayed = []) (he : p.err = none) (ho : p.ok = false) :
    force sem none (n + 1) (p :: stack) ⟨s, i⟩ = force sem none n stack ⟨s, i + 1⟩ := by
  simp [force, isCancelled, hd, he, ho]

theorem step_ok (n : Nat) (p : Pr) (stack : List Pr) (s : St) (i : Nat)
    (hd : p.delayed = []) (he : p.err = none) (ho : p.ok = true) :
    force sem none (n + 1) (p :: stack) ⟨s, i⟩ = some (.yes, ⟨s, i + 1⟩) := by
  simp [force, isCancelled, hd, he, ho]

theorem step_err (n : Nat) (p : Pr) (e : Nat) (stack : List Pr) (s : St) (i : Nat)
    (hd : p.delayed = []) (he : p.err = some e) :
    force sem none (n + 1) (p :: stack) ⟨s, i⟩ = after (.raised e none) stack ⟨s, i + 1⟩ n := by
  simp only [force, isCancelled, hd, he, after, cutOpt]
  rcases recoverStack sem e stack _ with ⟨_ | st', m'⟩ <;> rfl

theorem step_cut (n : Nat) (k : PT) (c : Nat) (stack : List Pr) (s : St) (i : Nat) :
    force sem none (n + 1) ({ delayed := [k], cutParent := some c } :: stack) ⟨s, i⟩ =
      force sem none n ((evalThunk k ⟨s, i + 1⟩).1 :: { } :: cutStack c stack) (evalThunk k ⟨s, i + 1⟩).2 := by
  simp [force, isCancelled, sem_evalThunk, afterChild]

theorem step_catch (n : Nat) (k : PT) (h : Handler) (stack : List Pr) (s : St) (i : Nat) :
    force sem none (n + 1) ({ delayed := [k], recover := some h } :: stack) ⟨s, i⟩ =
      force sem none n ((evalThunk k ⟨s, i + 1⟩).1 :: { recover := some h } :: stack) (evalThunk k ⟨s, i + 1⟩).2 := by
  simp [force, isCancelled, sem_evalThunk, afterChild]

theorem step_rep (n : Nat) (k : PT) (stack : List Pr) (s : St) (i : Nat) :
    force sem none (n + 1) ({ delayed := [k], rep := true } :: stack) ⟨s, i⟩ =
      force sem none n ((evalThunk k ⟨s, i + 1⟩).1 :: { delayed := [k], rep := true } :: stack) (evalThunk k ⟨s, i + 1⟩).2 := by
  simp [force, isCancelled, sem_evalThunk, afterChild]

theorem step_alts (n : Nat) (id : Nat) (t : PT) (ts : List PT) (stack : List Pr) (s : St) (i : Nat) :
    force sem none (n + 1) ({ id := id, delayed := t :: ts } :: stack) ⟨s, i⟩ =
      force sem none n ((evalThunk t ⟨s, i + 1⟩).1 :: { id := id, delayed := ts } :: stack) (evalThunk t ⟨s, i + 1⟩).2 := by
  simp [force, isCancelled, sem_evalThunk, afterChild]


/-! ### `ids`, `popUntil`, `cutStack` -/

theorem ids_nil : ids [] = [] := rfl

theorem ids_cons_zero (p : Pr) (st : List Pr) (h : p.id = 0) : ids (p :: st) = ids st := by
  simp [ids, h]

theorem ids_cons_pos (p : Pr) (st : List Pr) (h : p.id ≠ 0) : ids (p :: st) = p.id :: ids st := by
  simp [ids, h]

theorem zero_not_mem_ids : ∀ st : List Pr, 0 ∉ ids st
  | [] => by simp [ids]
  | p :: st => by
    by_cases h : p.id = 0
    · rw [ids_cons_zero p st h]; exact zero_not_mem_ids st
    · rw [ids_cons_pos p st h]
      intro hm
      rcases List.mem_cons.1 hm with h0 | h0
      · exact h h0.symm
      · exact zero_not_mem_ids st h0

theorem cutStack_skip (c : Nat) (p : Pr) (st : List Pr) (h : p.id ≠ c ∨ c = 0) :
    cutStack c (p :: st) = cutStack c st := by
  unfold cutStack
  by_cases hc : c = 0
  · simp [hc]
  · rcases h with h | h
    · simp [hc, popUntil, h]
    · exact absurd h hc

theorem cutStack_hit (c : Nat) (p : Pr) (st : List Pr) (h : p.id = c) (hc : c ≠ 0) :
    cutStack c (p :: st) = marker c :: st := by
  simp [cutStack, hc, popUntil, h]

/-- after the cut step the identified frames are those from the cut parent downwards -/
theorem ids_cutStack (c : Nat) : ∀ st : List Pr, c ∈ ids st →
    ids (cutStack c st) = (ids st).dropWhile (· ≠ c)
  | [], h => by simp [ids] at h
  | p :: st, h => by
    have hc : c ≠ 0 := fun h0 => zero_not_mem_ids (p :: st) (h0 ▸ h)
    by_cases hp : p.id = 0
    · rw [ids_cons_zero p st hp] at h ⊢
      rw [cutStack_skip c p st (Or.inl (by omega))]
      exact ids_cutStack c st h
    · rw [ids_cons_pos p st hp] at h ⊢
      by_cases hpc : p.id = c
      · rw [cutStack_hit c p st hpc hc, ids_cons_pos _ _ (by simpa [marker] using hc)]
        simp [marker, hpc]
      · rw [cutStack_skip c p st (Or.inl hpc)]
        have : c ∈ ids st := by
          rcases List.mem_cons.1 h with h0 | h0
          · exact absurd h0.symm hpc
          · exact h0
        rw [ids_cutStack c st this]
        simp [List.dropWhile, hpc]

/-- a second cut, to a parent below the first one, ends where it would have ended without the first -/
theorem popUntil_popUntil (c c' : Nat) : ∀ st : List Pr, (ids st).Nodup →
    c' ∈ (ids st).dropWhile (· ≠ c) → c' ≠ c → popUntil c' (popUntil c st) = popUntil c' st
  | [], _, h, _ => by simp [ids] at h
  | p :: st, hn, h, hne => by
    have hc' : c' ≠ 0 := fun h0 =>
      zero_not_mem_ids (p :: st) (h0 ▸ (List.dropWhile_sublist _).subset h)
    by_cases hp : p.id = 0
    · rw [ids_cons_zero p st hp] at h hn
      by_cases hpc : p.id = c
      · -- c = 0: nothing below
        have : c' ∈ ids st := (List.dropWhile_sublist _).subset h
        have hpc' : p.id ≠ c' := by omega
        show popUntil c' (if p.id = c then st else popUntil c st) = (if p.id = c' then st else popUntil c' st)
        rw [if_pos hpc, if_neg hpc']
      · have hpc' : p.id ≠ c' := by omega
        simp only [popUntil, hpc, hpc', if_false]
        exact popUntil_popUntil c c' st hn h hne
    · rw [ids_cons_pos p st hp] at h hn
      have hnd := List.nodup_cons.1 hn
      by_cases hpc : p.id = c
      · simp only [List.dropWhile, hpc, ne_eq, not_true_eq_false, decide_false] at h
        have hm : c' ∈ ids st := by
          rcases List.mem_cons.1 h with h0 | h0
          · exact absurd h0 hne
          · exact h0
        have hpc' : p.id ≠ c' := fun h0 => hnd.1 (h0 ▸ hm)
        show popUntil c' (if p.id = c then st else popUntil c st) = (if p.id = c' then st else popUntil c' st)
        rw [if_pos hpc, if_neg hpc']
      · simp only [List.dropWhile, ne_eq, hpc, not_false_eq_true, decide_true] at h
        have hm : c' ∈ ids st := (List.dropWhile_sublist _).subset h
        have hpc' : p.id ≠ c' := fun h0 => hnd.1 (h0 ▸ hm)
        simp only [popUntil, hpc, hpc', if_false]
        exact popUntil_popUntil c c' st hnd.2 h hne


/-! ### the cut parent carried by a signal is live -/

/-- the cut parent carried by a signal is live -/
def sigIn : Sig → List Nat → Prop
  | .exhausted (some c), live => c ∈ live
  | .raised _ (some c), live => c ∈ live
  | _, _ => True

theorem sigIn_mono {sig : Sig} {l l' : List Nat} (h : ∀ x, x ∈ l → x ∈ l') : sigIn sig l → sigIn sig l' := by
  cases sig with
  | found => exact id
  | illScoped => exact id
  | exhausted co => cases co with
    | none => exact id
    | some c => exact h c
  | raised e co => cases co with
    | none => exact id
    | some c => exact h c

theorem sigIn_afterCut {c : Nat} {r : Sig} {live : List Nat} (hc : c ∈ live) (h : sigIn r live) :
    sigIn (afterCut c r) live := by
  cases r with
  | found => exact h
  | illScoped => exact h
  | exhausted co => cases co with
    | none => exact hc
    | some c => exact h
  | raised e co => cases co with
    | none => exact hc
    | some c => exact h

theorem sigIn_absorb {id : Nat} {r : Sig} {live : List Nat} (h : sigIn r (id :: live)) :
    sigIn (absorb id r) live := by
  cases r with
  | found => trivial
  | illScoped => trivial
  | exhausted co => cases co with
    | none => trivial
    | some c =>
      simp only [absorb]
      split
      · trivial
      · rename_i hne
        rcases List.mem_cons.1 h with h0 | h0
        · exact absurd h0 hne
        · exact h0
  | raised e co => cases co with
    | none => trivial
    | some c =>
      simp only [absorb]
      split
      · trivial
      · rename_i hne
        rcases List.mem_cons.1 h with h0 | h0
        · exact absurd h0 hne
        · exact h0

theorem sigIn_both : ∀ k : Nat,
    (∀ t live s sig s', dfs k t live s = some (sig, s') → sigIn sig live) ∧
    (∀ id ts live0 s sig s', dfsAlts k id ts (id :: live0) s = some (sig, s') → sigIn sig live0) := by
  intro k
  induction k with
  | zero => exact ⟨fun _ _ _ _ _ h => by simp [dfs] at h, fun _ _ _ _ _ _ h => by simp [dfsAlts] at h⟩
  | succ k ih =>
    obtain ⟨ihD, ihA⟩ := ih
    constructor
    · intro t live s sig s' h
      cases t with
      | ok => simp only [dfs, Option.some.injEq, Prod.mk.injEq] at h; obtain ⟨rfl, rfl⟩ := h; trivial
      | fail => simp only [dfs, Option.some.injEq, Prod.mk.injEq] at h; obtain ⟨rfl, rfl⟩ := h; trivial
      | err e => simp only [dfs, Option.some.injEq, Prod.mk.injEq] at h; obtain ⟨rfl, rfl⟩ := h; trivial
      | log x t => simp only [dfs] at h; exact ihD _ _ _ _ _ h
      | set f b t => simp only [dfs] at h; exact ihD _ _ _ _ _ h
      | delay id alts =>
        simp only [dfs] at h
        split at h
        · simp only [Option.some.injEq, Prod.mk.injEq] at h; obtain ⟨rfl, rfl⟩ := h; trivial
        · exact ihA _ _ _ _ _ _ h
      | cut parent t =>
        simp only [dfs] at h
        generalize (if s.created.contains parent = true then parent else 0) = c at h
        split at h
        · rename_i hc
          split at h
          · simp at h
          · rename_i r s1 h1
            simp only [Option.some.injEq, Prod.mk.injEq] at h; obtain ⟨rfl, rfl⟩ := h
            have := ihD _ _ _ _ _ h1
            exact sigIn_afterCut (by simpa using hc)
              (sigIn_mono (fun x hx => (List.dropWhile_sublist _).subset hx) this)
        · simp only [Option.some.injEq, Prod.mk.injEq] at h; obtain ⟨rfl, rfl⟩ := h; trivial
      | catch_ flag hs t =>
        simp only [dfs] at h
        split at h
        · simp at h
        · rename_i e s1 h1
          split at h
          · split at h
            · exact ihD _ _ _ _ _ h
            · simp only [Option.some.injEq, Prod.mk.injEq] at h; obtain ⟨rfl, rfl⟩ := h; trivial
          · simp only [Option.some.injEq, Prod.mk.injEq] at h; obtain ⟨rfl, rfl⟩ := h; trivial
        · rename_i r hr h1
          simp only [Option.some.injEq] at h; subst h
          exact ihD _ _ _ _ _ h1
      | rep t =>
        simp only [dfs] at h
        split at h
        · simp at h
        · exact ihD _ _ _ _ _ h
        · rename_i r hr h1
          simp only [Option.some.injEq] at h; subst h
          exact ihD _ _ _ _ _ h1
    · intro id ts live0 s sig s' h
      cases ts with
      | nil => simp only [dfsAlts, Option.some.injEq, Prod.mk.injEq] at h; obtain ⟨rfl, rfl⟩ := h; trivial
      | cons t ts =>
        simp only [dfsAlts] at h
        split at h
        · simp at h
        · exact ihA _ _ _ _ _ _ h
        · rename_i r s1 hr h1
          simp only [Option.some.injEq, Prod.mk.injEq] at h; obtain ⟨rfl, rfl⟩ := h
          exact sigIn_absorb (ihD _ _ _ _ _ h1)

/-! ### how a signal passes the frames the constructs leave on the stack -/

theorem after_cutsig_skip_exh (c : Nat) (p : Pr) (st : List Pr) (m : M St) (n : Nat) (h : p.id ≠ c ∨ c = 0) :
    after (.exhausted (some c)) (p :: st) m n = after (.exhausted (some c)) st m n := by
  simp only [after, cutOpt, cutStack_skip c p st h]

theorem after_cutsig_skip_raised (e c : Nat) (p : Pr) (st : List Pr) (m : M St) (n : Nat) (h : p.id ≠ c ∨ c = 0) :
    after (.raised e (some c)) (p :: st) m n = after (.raised e (some c)) st m n := by
  simp only [after, cutOpt, cutStack_skip c p st h]

theorem after_raised_skip (e : Nat) (p : Pr) (st : List Pr) (m : M St) (n : Nat) (h : p.recover = none) :
    after (.raised e none) (p :: st) m n = after (.raised e none) st m n := by
  simp only [after, cutOpt, recoverStack_no_handler sem e p st m h]

theorem id0_skip (p : Pr) (c : Nat) (h : p.id = 0) : p.id ≠ c ∨ c = 0 := by omega

/-- one more iteration is needed exactly when the frame itself has to be popped -/
def extra (r : Sig) : Nat := if r = .exhausted none then 1 else 0

theorem extra_of_ne {r : Sig} (h : r ≠ .exhausted none) : extra r = 0 := by simp [extra, h]
theorem extra_exh : extra (.exhausted none) = 1 := rfl

/-- a frame without identity and without handler is invisible to every signal except plain exhaustion -/
theorem after_transparent (sig : Sig) (p : Pr) (st : List Pr) (m : M St) (n : Nat)
    (hid : p.id = 0) (hr : p.recover = none) (hs : sig ≠ .exhausted none) :
    after sig (p :: st) m n = after sig st m n := by
  cases sig with
  | found => rfl
  | illScoped => rfl
  | exhausted co => cases co with
    | none => exact absurd rfl hs
    | some c => exact after_cutsig_skip_exh c p st m n (id0_skip p c hid)
  | raised e co => cases co with
    | none => exact after_raised_skip e p st m n hr
    | some c => exact after_cutsig_skip_raised e c p st m n (id0_skip p c hid)

/-- an exhausted frame without identity and without handler -/
theorem after_spent (sig : Sig) (p : Pr) (st : List Pr) (s : St) (i n : Nat)
    (hid : p.id = 0) (hr : p.recover = none) (hd : p.delayed = []) (he : p.err = none) (ho : p.ok = false) :
    after sig (p :: st) ⟨s, i⟩ (n + extra sig) = after sig st ⟨s, i + extra sig⟩ n := by
  by_cases hs : sig = .exhausted none
  · subst hs
    rw [extra_exh]
    exact step_empty n p st s i hd he ho
  · rw [extra_of_ne hs]
    exact after_transparent sig p st _ n hid hr hs

/-- the exhausted frame of a catch: it only matters to an error that still looks for a handler -/
theorem after_catch_pass (sig : Sig) (h : Handler) (st : List Pr) (s : St) (i n : Nat)
    (hs : ∀ e, sig ≠ .raised e none) :
    after sig ({ recover := some h } :: st) ⟨s, i⟩ (n + extra sig) = after sig st ⟨s, i + extra sig⟩ n := by
  cases sig with
  | found => rfl
  | illScoped => rfl
  | exhausted co => cases co with
    | none =>
      rw [extra_exh]
      exact step_empty n ({ recover := some h } : Pr) st s i rfl rfl rfl
    | some c =>
      rw [extra_of_ne (by simp)]
      exact after_cutsig_skip_exh c _ st _ n (id0_skip _ c rfl)
  | raised e co => cases co with
    | none => exact absurd rfl (hs e)
    | some c =>
      rw [extra_of_ne (by simp)]
      exact after_cutsig_skip_raised e c _ st _ n (id0_skip _ c rfl)

theorem after_catch_decline (e : Nat) (h : Handler) (st : List Pr) (m : M St) (n : Nat)
    (hd : m.user.flag h.flag = false ∨ h.handles.find e = none) :
    after (.raised e none) ({ recover := some h } :: st) m n = after (.raised e none) st m n := by
  have : evalRecover h e m = (none, m) := by
    unfold evalRecover
    rcases hd with hd | hd
    · simp [hd]
    · simp [hd]
  simp only [after, cutOpt, recoverStack, sem, this]

theorem after_catch_accept (e : Nat) (h : Handler) (t : PT) (st : List Pr) (m : M St) (n : Nat)
    (hf : m.user.flag h.flag = true) (ht : h.handles.find e = some t) :
    after (.raised e none) ({ recover := some h } :: st) m n =
      force sem none n ((evalThunk t m).1 :: st) (evalThunk t m).2 := by
  have : evalRecover h e m = (some (evalThunk t m).1, (evalThunk t m).2) := by
    unfold evalRecover
    simp [hf, ht]
  simp only [after, cutOpt, recoverStack, sem, this]

/-- the delay frame `id` absorbs a cut whose parent it is -/
def extraAbs (id : Nat) (r : Sig) : Nat := if r = .exhausted (some id) then 1 else 0

theorem after_delay_pass (id : Nat) (ts : List PT) (sig : Sig) (st : List Pr) (s : St) (i n : Nat)
    (hid : id ≠ 0) (hs : sig ≠ .exhausted none) :
    after sig ({ id := id, delayed := ts } :: st) ⟨s, i⟩ (n + extraAbs id sig)
      = after (absorb id sig) st ⟨s, i + extraAbs id sig⟩ n := by
  cases sig with
  | found => rfl
  | illScoped => rfl
  | exhausted co => cases co with
    | none => exact absurd rfl hs
    | some c =>
      by_cases hc : c = id
      · subst hc
        simp only [extraAbs, if_true, absorb, after, cutOpt]
        rw [cutStack_hit c _ st rfl hid]
        exact step_empty n _ st s i rfl rfl rfl
      · have : Sig.exhausted (some c) ≠ Sig.exhausted (some id) := by
          intro h0; injection h0 with h0; injection h0 with h0; exact hc h0
        simp only [extraAbs, if_neg this, absorb, if_neg hc, Nat.add_zero]
        exact after_cutsig_skip_exh c _ st _ n (Or.inl (fun h0 => hc h0.symm))
  | raised e co => cases co with
    | none =>
      simp only [extraAbs, absorb, reduceCtorEq, if_false, Nat.add_zero]
      exact after_raised_skip e _ st _ n rfl
    | some c =>
      simp only [extraAbs, reduceCtorEq, if_false, Nat.add_zero]
      by_cases hc : c = id
      · subst hc
        simp only [absorb, if_true, after, cutOpt]
        rw [cutStack_hit c _ st rfl hid, recoverStack_no_handler sem e (marker c) st _ rfl]
      · simp only [absorb, if_neg hc]
        exact after_cutsig_skip_raised e c _ st _ n (Or.inl (fun h0 => hc h0.symm))

/-- a cut executed below an executed cut -/
theorem cutStack_cutStack (c c' : Nat) (st : List Pr)
    (hn : (ids st).Nodup) (hc : c ∈ ids st) (hc' : c' ∈ (ids st).dropWhile (· ≠ c)) :
    cutStack c' (cutStack c st) = cutStack c' st := by
  have hc0 : c ≠ 0 := fun h0 => zero_not_mem_ids st (h0 ▸ hc)
  have hc'0 : c' ≠ 0 := fun h0 => zero_not_mem_ids st (h0 ▸ (List.dropWhile_sublist _).subset hc')
  by_cases h : c' = c
  · subst h
    simp only [cutStack, if_neg hc'0, popUntil, marker, if_true]
  · have h2 : ¬ c = c' := fun h0 => h h0.symm
    simp only [cutStack, if_neg hc'0, if_neg hc0, popUntil, marker, if_neg h2]
    rw [popUntil_popUntil c c' st hn hc' h]

/-- the exhausted frame of a cut, sitting on the stack the cut has left -/
theorem after_cut_pass (c : Nat) (r : Sig) (st : List Pr) (s : St) (i n : Nat)
    (hn : (ids st).Nodup) (hc : c ∈ ids st) (hin : sigIn r ((ids st).dropWhile (· ≠ c))) :
    after r ({ } :: cutStack c st) ⟨s, i⟩ (n + extra r) = after (afterCut c r) st ⟨s, i + extra r⟩ n := by
  rw [after_spent r _ _ s i n rfl rfl rfl rfl rfl]
  cases r with
  | found => rfl
  | illScoped => rfl
  | exhausted co => cases co with
    | none => rfl
    | some c' => simp only [after, cutOpt, afterCut, cutStack_cutStack c c' st hn hc hin]
  | raised e co => cases co with
    | none => rfl
    | some c' => simp only [after, cutOpt, afterCut, cutStack_cutStack c c' st hn hc hin]
/-! ### the simulation -/

/-- `ForceDfsStatement` at dfs fuel `k` -/
def StmtD (k : Nat) : Prop :=
  ∀ (t : PT) (live : List Nat) (s s' : St) (sig : Sig),
    dfs k t live s = some (sig, s') → sig ≠ .illScoped →
    ∀ (stack : List Pr), ids stack = live → live.Nodup →
      ∃ cost di, ∀ n i,
        force sem none (n + cost) ((evalThunk t ⟨s, i⟩).1 :: stack) (evalThunk t ⟨s, i⟩).2
          = after sig stack ⟨s', i + di⟩ n

/-- the same for the remaining alternatives `ts` of the delay promise `id` -/
def StmtA (k : Nat) : Prop :=
  ∀ (id : Nat) (ts : PTs) (live0 : List Nat) (s s' : St) (sig : Sig),
    dfsAlts k id ts (id :: live0) s = some (sig, s') → sig ≠ .illScoped →
    ∀ (stack0 : List Pr), ids stack0 = live0 → (id :: live0).Nodup → id ≠ 0 →
      ∃ cost di, ∀ n i,
        force sem none (n + cost) ({ id := id, delayed := ts.toList } :: stack0) ⟨s, i⟩
          = after sig stack0 ⟨s', i + di⟩ n

theorem afterCut_illScoped {c : Nat} {r : Sig} (h : afterCut c r ≠ .illScoped) : r ≠ .illScoped := by
  rintro rfl; exact h rfl

theorem absorb_illScoped {id : Nat} {r : Sig} (h : absorb id r ≠ .illScoped) : r ≠ .illScoped := by
  rintro rfl; exact h rfl

theorem stmtD_succ (k : Nat) (ihD : StmtD k) (ihA : StmtA k) : StmtD (k + 1) := by
  intro t live s s' sig h hsig stack hlive hnd
  cases t with
  | ok =>
    simp only [dfs, Option.some.injEq, Prod.mk.injEq] at h; obtain ⟨rfl, rfl⟩ := h
    refine ⟨1, 1, fun n i => ?_⟩
    simp only [evalThunk]
    exact step_ok n ({ ok := true } : Pr) stack s i rfl rfl rfl
  | fail =>
    simp only [dfs, Option.some.injEq, Prod.mk.injEq] at h; obtain ⟨rfl, rfl⟩ := h
    refine ⟨1, 1, fun n i => ?_⟩
    simp only [evalThunk]
    exact step_empty n ({ } : Pr) stack s i rfl rfl rfl
  | err e =>
    simp only [dfs, Option.some.injEq, Prod.mk.injEq] at h; obtain ⟨rfl, rfl⟩ := h
    refine ⟨1, 1, fun n i => ?_⟩
    simp only [evalThunk]
    exact step_err n ({ err := some e } : Pr) e stack s i rfl rfl
  | log x t =>
    simp only [dfs] at h
    obtain ⟨c1, d1, ih⟩ := ihD t live _ s' sig h hsig stack hlive hnd
    exact ⟨c1, d1, fun n i => by simpa only [evalThunk] using ih n i⟩
  | set f b t =>
    simp only [dfs] at h
    obtain ⟨c1, d1, ih⟩ := ihD t live _ s' sig h hsig stack hlive hnd
    exact ⟨c1, d1, fun n i => by simpa only [evalThunk] using ih n i⟩
  | delay id alts =>
    simp only [dfs] at h
    split at h
    · simp only [Option.some.injEq, Prod.mk.injEq] at h; obtain ⟨rfl, rfl⟩ := h
      exact absurd rfl hsig
    · rename_i hid
      have hid0 : id ≠ 0 := fun h0 => hid (Or.inl h0)
      have hnin : id ∉ live := fun h0 => hid (Or.inr (by simpa using h0))
      obtain ⟨c1, d1, ih⟩ := ihA id alts live _ s' sig h hsig stack hlive
        (List.nodup_cons.2 ⟨hnin, hnd⟩) hid0
      exact ⟨c1, d1, fun n i => by simpa only [evalThunk] using ih n i⟩
  | cut parent t =>
    simp only [dfs] at h
    generalize hcdef : (if s.created.contains parent = true then parent else 0) = c at h
    split at h
    · rename_i hc
      split at h
      · simp at h
      · rename_i r s1 h1
        simp only [Option.some.injEq, Prod.mk.injEq] at h; obtain ⟨rfl, rfl⟩ := h
        subst hlive
        have hcm : c ∈ ids stack := by simpa using hc
        have hin := (sigIn_both k).1 _ _ _ _ _ h1
        obtain ⟨c1, d1, ih⟩ := ihD t _ s s1 r h1 (afterCut_illScoped hsig) ({ } :: cutStack c stack)
          (by rw [ids_cons_zero _ _ rfl, ids_cutStack c stack hcm])
          ((List.dropWhile_sublist _).nodup hnd)
        refine ⟨extra r + c1 + 1, 1 + d1 + extra r, fun n i => ?_⟩
        have hev : evalThunk (.cut parent t) ⟨s, i⟩ = ({ delayed := [t], cutParent := some c }, ⟨s, i⟩) := by
          simp only [evalThunk, hcdef]
        have e1 : n + (extra r + c1 + 1) = (n + extra r + c1) + 1 := by omega
        have e2 : i + (1 + d1 + extra r) = i + 1 + d1 + extra r := by omega
        rw [hev, e1, e2, step_cut, ih, after_cut_pass c r stack s1 _ n hnd hcm hin]
    · simp only [Option.some.injEq, Prod.mk.injEq] at h; obtain ⟨rfl, rfl⟩ := h
      exact absurd rfl hsig
  | catch_ flag hs t =>
    simp only [dfs] at h
    have hev : ∀ i, evalThunk (.catch_ flag hs t) ⟨s, i⟩
        = ({ delayed := [t], recover := some ⟨flag, hs⟩ }, ⟨s, i⟩) := fun i => by simp only [evalThunk]
    have hids : ids (({ recover := some ⟨flag, hs⟩ } : Pr) :: stack) = live := by
      rw [ids_cons_zero _ _ rfl, hlive]
    split at h
    · simp at h
    · -- the goal raised an error that still looks for a handler
      rename_i e s1 h1
      obtain ⟨c1, d1, ih⟩ := ihD t live s s1 _ h1 (by simp) _ hids hnd
      have decline : s1.flag flag = false ∨ hs.find e = none → sig = .raised e none → s' = s1 →
          ∃ cost di, ∀ n i,
            force sem none (n + cost) ((evalThunk (.catch_ flag hs t) ⟨s, i⟩).1 :: stack)
                (evalThunk (.catch_ flag hs t) ⟨s, i⟩).2
              = after sig stack ⟨s', i + di⟩ n := by
        intro hd hs1 hs2
        subst hs1 hs2
        refine ⟨c1 + 1, 1 + d1, fun n i => ?_⟩
        have e1 : n + (c1 + 1) = (n + c1) + 1 := by omega
        have e2 : i + (1 + d1) = i + 1 + d1 := by omega
        rw [hev, e1, e2, step_catch, ih, after_catch_decline e ⟨flag, hs⟩ stack _ n hd]
      split at h
      · rename_i hf
        split at h
        · rename_i t2 ht2
          obtain ⟨c2, d2, ih2⟩ := ihD t2 live s1 s' sig h hsig stack hlive hnd
          refine ⟨c2 + c1 + 1, 1 + d1 + d2, fun n i => ?_⟩
          have e1 : n + (c2 + c1 + 1) = (n + c2 + c1) + 1 := by omega
          have e2 : i + (1 + d1 + d2) = i + 1 + d1 + d2 := by omega
          rw [hev, e1, e2, step_catch, ih,
            after_catch_accept e ⟨flag, hs⟩ t2 stack _ _ hf ht2, ih2]
        · rename_i hnone
          simp only [Option.some.injEq, Prod.mk.injEq] at h
          exact decline (Or.inr hnone) h.1.symm h.2.symm
      · rename_i hf
        simp only [Option.some.injEq, Prod.mk.injEq] at h
        exact decline (Or.inl (by simpa using hf)) h.1.symm h.2.symm
    · rename_i r hr h1
      simp only [Option.some.injEq] at h; subst h
      obtain ⟨c1, d1, ih⟩ := ihD t live s s' sig h1 hsig _ hids hnd
      refine ⟨extra sig + c1 + 1, 1 + d1 + extra sig, fun n i => ?_⟩
      have e1 : n + (extra sig + c1 + 1) = (n + extra sig + c1) + 1 := by omega
      have e2 : i + (1 + d1 + extra sig) = i + 1 + d1 + extra sig := by omega
      rw [hev, e1, e2, step_catch, ih, after_catch_pass sig ⟨flag, hs⟩ stack s' _ n
        (fun e he => hr e s' (by rw [he]))]
  | rep t =>
    simp only [dfs] at h
    have hev : ∀ s i, evalThunk (.rep t) ⟨s, i⟩
        = ({ delayed := [t], rep := true }, ⟨s, i⟩) := fun s i => by simp only [evalThunk]
    have hids : ids (({ delayed := [t], rep := true } : Pr) :: stack) = live := by
      rw [ids_cons_zero _ _ rfl, hlive]
    split at h
    · simp at h
    · rename_i s1 h1
      obtain ⟨c1, d1, ih⟩ := ihD t live s s1 _ h1 (by simp) _ hids hnd
      obtain ⟨c2, d2, ih2⟩ := ihD (.rep t) live s1 s' sig h hsig stack hlive hnd
      refine ⟨c2 + c1 + 1, 1 + d1 + d2, fun n i => ?_⟩
      have e1 : n + (c2 + c1 + 1) = (n + c2 + c1) + 1 := by omega
      have e2 : i + (1 + d1 + d2) = i + 1 + d1 + d2 := by omega
      have := ih2 n (i + 1 + d1)
      rw [hev] at this
      rw [hev, e1, e2, step_rep, ih]
      exact this
    · rename_i r hr h1
      simp only [Option.some.injEq] at h; subst h
      obtain ⟨c1, d1, ih⟩ := ihD t live s s' sig h1 hsig _ hids hnd
      refine ⟨c1 + 1, 1 + d1, fun n i => ?_⟩
      have e1 : n + (c1 + 1) = (n + c1) + 1 := by omega
      have e2 : i + (1 + d1) = i + 1 + d1 := by omega
      rw [hev, e1, e2, step_rep, ih, after_transparent sig _ stack _ n rfl rfl
        (fun he => hr s' (by rw [he]))]

theorem stmtA_succ (k : Nat) (ihD : StmtD k) (ihA : StmtA k) : StmtA (k + 1) := by
  intro id ts live0 s s' sig h hsig stack0 hlive hnd hid
  cases ts with
  | nil =>
    simp only [dfsAlts, Option.some.injEq, Prod.mk.injEq] at h; obtain ⟨rfl, rfl⟩ := h
    refine ⟨1, 1, fun n i => ?_⟩
    exact step_empty n ({ id := id, delayed := [] } : Pr) stack0 s i rfl rfl rfl
  | cons t ts =>
    simp only [dfsAlts] at h
    have hids : ids (({ id := id, delayed := ts.toList } : Pr) :: stack0) = id :: live0 := by
      rw [ids_cons_pos _ _ hid, hlive]
    split at h
    · simp at h
    · rename_i s1 h1
      obtain ⟨c1, d1, ih⟩ := ihD t _ s s1 _ h1 (by simp) _ hids hnd
      obtain ⟨c2, d2, ih2⟩ := ihA id ts live0 s1 s' sig h hsig stack0 hlive hnd hid
      refine ⟨c2 + c1 + 1, 1 + d1 + d2, fun n i => ?_⟩
      have e1 : n + (c2 + c1 + 1) = (n + c2 + c1) + 1 := by omega
      have e2 : i + (1 + d1 + d2) = i + 1 + d1 + d2 := by omega
      simp only [PTs.toList]
      rw [e1, e2, step_alts, ih]
      exact ih2 n (i + 1 + d1)
    · rename_i r s1 hr h1
      simp only [Option.some.injEq, Prod.mk.injEq] at h; obtain ⟨rfl, rfl⟩ := h
      obtain ⟨c1, d1, ih⟩ := ihD t _ s s1 r h1 (absorb_illScoped hsig) _ hids hnd
      refine ⟨extraAbs id r + c1 + 1, 1 + d1 + extraAbs id r, fun n i => ?_⟩
      have e1 : n + (extraAbs id r + c1 + 1) = (n + extraAbs id r + c1) + 1 := by omega
      have e2 : i + (1 + d1 + extraAbs id r) = i + 1 + d1 + extraAbs id r := by omega
      simp only [PTs.toList]
      rw [e1, e2, step_alts, ih, after_delay_pass id ts.toList r stack0 s1 _ n hid hr]

theorem stmt_both : ∀ k : Nat, StmtD k ∧ StmtA k
  | 0 => ⟨fun _ _ _ _ _ h => by simp [dfs] at h, fun _ _ _ _ _ _ h => by simp [dfsAlts] at h⟩
  | k + 1 => ⟨stmtD_succ k (stmt_both k).1 (stmt_both k).2, stmtA_succ k (stmt_both k).1 (stmt_both k).2⟩

/-- **force_dfs**: the trampoline finds exactly what the recursive reference search finds -/
theorem force_dfs : ForceDfsStatement :=
  fun k t live s s' sig h hsig stack hlive hnd => (stmt_both k).1 t live s s' sig h hsig stack hlive hnd

/-- the same for the alternatives of a delay promise that is already on the stack -/
theorem force_dfsAlts (k : Nat) : StmtA k := (stmt_both k).2
end PrologVerif.ForceDFS
