package main

// C05: (1) the HOST-side API surface, exercised on every outcome of c05.matrix / c05.text —
// what an embedding program does with an error or an answer: err.Error(), fmt verbs, Exception.Term()
// written with the public writers, Scan into TermString — in the host goroutine, where no recover()
// of the engine protects the caller (a panic there is "crashes the host"); here it runs under the
// harness's recover and is reported as `panic-host …`.  (2) the edge atoms and the positions they are put in.

import (
	"bytes"
	"context"
	"errors"
	"fmt"
	"strings"
	"time"

	"github.com/ichiban/prolog"
	"github.com/ichiban/prolog/engine"
)

// hostDo runs f as the host would (no engine frame around it) and reports a Go panic.
func hostDo(what string, f func()) (out string) {
	defer func() {
		if r := recover(); r != nil {
			out = "panic-host " + what + ": " + encName(fmt.Sprint(r))
		}
	}()
	f()
	return ""
}

// hostRenderErr: everything a caller may do with the error value it got back.
func hostRenderErr(err error) string {
	if err == nil {
		return ""
	}
	steps := []struct {
		what string
		f    func()
	}{
		{"err.Error()", func() { _ = err.Error() }},
		{"fmt.Sprintf(%v,err)", func() { _ = fmt.Sprintf("%v", err) }},
		{"fmt.Sprintf(%s,err)", func() { _ = fmt.Sprintf("%s", err) }},
		{"fmt.Sprintf(%+v,err)", func() { _ = fmt.Sprintf("%+v", err) }},
		{"fmt.Sprintf(%q,err)", func() { _ = fmt.Sprintf("%q", err) }},
	}
	for _, s := range steps {
		if r := hostDo(s.what, s.f); r != "" {
			return r
		}
	}
	return ""
}

// hostRenderTerm: a term (the term of an Exception, or the goal as an answer instantiates it) rendered by the
// public writers in the host goroutine: TermString.Scan (= engine.WriteTerm forced by the caller) and
// Term.WriteTerm with the zero options.
func hostRenderTerm(vm *engine.VM, t engine.Term, env *engine.Env) string {
	if r := hostDo("TermString.Scan", func() {
		var ts prolog.TermString
		_ = ts.Scan(vm, t, env)
	}); r != "" {
		return r
	}
	if r := hostDo("Term.WriteTerm", func() {
		var buf bytes.Buffer
		_ = env.Resolve(t).WriteTerm(&buf, &engine.WriteOptions{}, env)
	}); r != "" {
		return r
	}
	return hostDo("fmt.Sprintf(%v,term)", func() { _ = fmt.Sprintf("%v", env.Resolve(t)) })
}

var c05WriteGoals = []func(t engine.Term) engine.Term{
	func(t engine.Term) engine.Term { return compound("write", t) },
	func(t engine.Term) engine.Term { return compound("writeq", t) },
	func(t engine.Term) engine.Term { return compound("write_canonical", t) },
	func(t engine.Term) engine.Term {
		return compound("write_term", t, engine.List(compound("quoted", atom("false")), compound("ignore_ops", atom("false")), compound("numbervars", atom("true"))))
	},
	func(t engine.Term) engine.Term {
		return compound("write_term", t, engine.List(compound("max_depth", engine.Integer(3))))
	},
}

// prologRenderTerm: the same term written from inside Prolog (write, writeq, write_canonical, write_term with
// options) to a scratch stream; a failure of the writer is reported like any other outcome (`panic …` is the
// residue of a recovered Go panic).
func prologRenderTerm(vm *engine.VM, t engine.Term, env *engine.Env) string {
	for k, mk := range c05WriteGoals {
		var sb strings.Builder
		s := engine.NewOutputTextStream(&sb)
		g := mk(t)
		c := g.(engine.Compound)
		// write*(S, T …) on the scratch stream
		args := []engine.Term{s}
		for j := 0; j < c.Arity(); j++ {
			args = append(args, c.Arg(j))
		}
		g = c.Functor().Apply(args...)
		ctx, cancel := context.WithTimeout(context.Background(), 2*time.Second)
		ok, err := engine.Call(vm, g, engine.Success, env).Force(ctx)
		cancel()
		switch {
		case err != nil:
			return fmt.Sprintf("writer%d %s", k, c05Result(false, err))
		case !ok:
			return fmt.Sprintf("writer%d false", k)
		}
	}
	return ""
}

func asException(err error, ex *engine.Exception) bool { return errors.As(err, ex) }

// hostSurface: the error of a call (if any) and one term, through all of the above.  "ok" or the first problem.
// termWithin: does the term have at most `budget` nodes?  (The writer is quadratic in the nesting depth — for
// write_canonical also in the length of a list — so an answer such as length([a|_], 1114112) is not rendered:
// slow, but the property does not bound time.)
func termWithin(t engine.Term, env *engine.Env, budget *int) bool {
	*budget--
	if *budget < 0 {
		return false
	}
	if c, ok := env.Resolve(t).(engine.Compound); ok {
		for i := 0; i < c.Arity(); i++ {
			if !termWithin(c.Arg(i), env, budget) {
				return false
			}
		}
	}
	return true
}

const hostTermBudget = 3000

func hostSurface(vm *engine.VM, err error, t engine.Term, env *engine.Env) string {
	var ex engine.Exception
	isEx := err != nil && asException(err, &ex)
	if isEx {
		if b := hostTermBudget; !termWithin(ex.Term(), nil, &b) {
			isEx = false // only the error value itself, not its term through the writers
		}
	}
	if t != nil {
		if b := hostTermBudget; !termWithin(t, env, &b) {
			t = nil
		}
	}
	if err != nil {
		key := "goerr " + fmt.Sprintf("%T", err)
		if isEx {
			key = "ex " + wire(ex.Term(), nil, newVarNamer())
		}
		r, ok := hostSeen[key]
		if !ok {
			r = hostRenderErr(err)
			if r == "" && isEx {
				if r = hostRenderTerm(vm, ex.Term(), nil); r == "" {
					r = prologRenderTerm(vm, ex.Term(), nil)
				}
				if r != "" {
					r += " (term of the exception)"
				}
			}
			hostSeen[key] = r
		}
		if r != "" {
			return r
		}
	}
	if t != nil {
		key := "t " + wire(t, env, newVarNamer())
		r, ok := hostSeen[key]
		if !ok {
			if r = hostRenderTerm(vm, t, env); r == "" {
				r = prologRenderTerm(vm, t, env)
			}
			hostSeen[key] = r
		}
		if r != "" {
			return r
		}
	}
	return "ok"
}

// the same error terms and answers come back thousands of times: each distinct one (by its text in the
// line protocol) goes through the surface once per worker process
var hostSeen = map[string]string{}

// ---------------------------------------------------------------------------
// edge atoms × positions
// ---------------------------------------------------------------------------

type c05EdgeAtom struct{ name, text string }

var c05EdgeAtoms = []c05EdgeAtom{
	{"empty", ""}, {"plus", "+"}, {"minus", "-"}, {"bslash", "\\"}, {"dot", "."}, {"curly", "{}"}, {"cut", "!"},
	{"semi", ";"}, {"comma", ","}, {"bar", "|"}, {"mod", "mod"}, {"naf", "\\+"}, {"neck", ":-"}, {"space", "hello world"},
	{"upper", "A"}, {"uni", "é"}, {"quote", "don't"}, {"nl", "a\nb"}, {"long", strings.Repeat("ab", 1000)},
}

// the positions an edge atom A is put in: as the argument itself, as a functor, in a predicate indicator,
// as the left / right operand of a graphic infix operator, as the operand of a prefix operator, in a list,
// and as operator (functor) applied in operator notation to ordinary operands
var c05EdgeKinds = []struct {
	name string
	mk   func(a engine.Term, text string) engine.Term
}{
	{"bare", func(a engine.Term, _ string) engine.Term { return a }},
	{"fun", func(_ engine.Term, text string) engine.Term { return compound(text, atom("x")) }},
	{"pi", func(a engine.Term, _ string) engine.Term { return compound("/", a, engine.Integer(0)) }},
	{"inl", func(a engine.Term, _ string) engine.Term { return compound("+", a, engine.Integer(1)) }},
	{"inr", func(a engine.Term, _ string) engine.Term { return compound("=", atom("a"), a) }},
	{"pre", func(a engine.Term, _ string) engine.Term { return compound("-", a) }},
	{"lst", func(a engine.Term, _ string) engine.Term { return engine.List(a) }},
	{"op2", func(_ engine.Term, text string) engine.Term { return compound(text, atom("a"), engine.Integer(1)) }},
}

var c05EdgeShapeNames []string

// evaluable expressions over the boundary integers (exact results are C07's subject; here: the call returns,
// with a number or an evaluation/type error, never a wedge or a panic) — shapes x.0 … x.N, parsed by the real reader
var c05Exprs = []string{
	"9223372036854775807 + 1", "-9223372036854775808 - 1", "9223372036854775807 * 9223372036854775807", "-9223372036854775808 // -1",
	"-9223372036854775808 mod -1", "-9223372036854775808 rem -1", "-9223372036854775808 div -1", "abs(-9223372036854775808)",
	"- (-9223372036854775808)", "sign(-9223372036854775808)", "2 ** 9223372036854775807", "2 ^ 9223372036854775807",
	"2 ^ -9223372036854775808", "1 ^ -9223372036854775808", "-1 ^ 9223372036854775807", "0 ^ -1", "2 ^ -1", "2 ** -1", "0 ** 0", "0.0 ** -1",
	"1 << 9223372036854775807", "1 >> 9223372036854775807", "1 << -9223372036854775808", "-1 >> 64", "1 << 63", "1 << 64",
	"2.0 ** 9223372036854775807", "truncate(1.0e300)", "ceiling(-1.0e300)", "round(9.3e18)", "float_integer_part(1.0e300)", "float(9223372036854775807)",
	"9223372036854775807 / 0", "1 / 0.0", "0 / 0", "9223372036854775807 / -1", "-9223372036854775808 / -1", "max(9223372036854775807, 9.3e18)",
	"min(-9223372036854775808, -9.3e18)", "\\ 9223372036854775807", "xor(9223372036854775807, -9223372036854775808)", "9223372036854775807 /\\ -1",
	"atan2(0, 0)", "log(0)", "sqrt(-1)", "acos(2)", "exp(1000)", "sin(1.0e308)", "pi", "foo", "'' + 1", "- ''", "[1]", "\"a\"", "1 + a", "X + 1",
}

func init() {
	for k, e := range c05Exprs {
		e := e
		name := "x." + fmt.Sprint(k)
		c05ExprShapeNames = append(c05ExprShapeNames, name)
		c05ShapeIdxLate = append(c05ShapeIdxLate, c05Shape{name, func(c *c05Ctx) engine.Term {
			t, err := engine.NewParser(&c.i.VM, strings.NewReader(e+" .")).Term()
			if err != nil {
				panic("c05Exprs: " + e + ": " + err.Error())
			}
			return t
		}})
	}
}

var c05ExprShapeNames []string
var c05ShapeIdxLate []c05Shape

// c05BaseCount: the shapes of c05.go (the cross-product matrix runs over these only)
var c05BaseCount int

func init() {
	c05BaseCount = len(c05Shapes)
	for _, ea := range c05EdgeAtoms {
		for _, k := range c05EdgeKinds {
			ea, k := ea, k
			name := "e." + ea.name + "." + k.name
			c05EdgeShapeNames = append(c05EdgeShapeNames, name)
			c05ShapeIdx[name] = len(c05Shapes)
			c05Shapes = append(c05Shapes, c05Shape{name, func(*c05Ctx) engine.Term { return k.mk(atom(ea.text), ea.text) }})
		}
	}
	for _, sh := range c05ShapeIdxLate {
		c05ShapeIdx[sh.name] = len(c05Shapes)
		c05Shapes = append(c05Shapes, sh)
	}
}
