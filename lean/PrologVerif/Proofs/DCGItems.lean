/-
  Proofs/DCGItems — the goals seqIterator (with the rotation of left-nested conjunctions) yields
  are exactly the ISO conjuncts of the body; hence a `!` that is an element of a grammar-body
  sequence is compiled as a clause-level cut.
-/
import PrologVerif.Proofs.DCGThreads
namespace PrologVerif.DCG
open PrologVerif PrologVerif.Grammar

def isConj : Term → Bool
  | .app "," (.cons _ (.cons _ .nil)) => true
  | _ => false

theorem conjuncts_nonconj (t : Term) (h : isConj t = false) : conjuncts t = [t] := by
  unfold conjuncts
  split
  · simp [isConj] at h
  · rfl

theorem size_pos (t : Term) : 0 < t.size := by
  cases t <;> simp [Term.size] <;> omega

theorem size_conj (a b : Term) : (Term.a2 "," a b).size = 1 + (a.size + b.size) := by
  simp [Term.a2, Term.size, Args.size]

/-- the rotation loop: what comes out is the first ISO conjunct and a body holding the others -/
theorem seqRotate_spec (a rest : Term) :
    conjuncts a ++ conjuncts rest = (seqRotate a rest).1 :: conjuncts (seqRotate a rest).2 ∧
    isConj (seqRotate a rest).1 = false ∧
    (seqRotate a rest).1.size + (seqRotate a rest).2.size = a.size + rest.size := by
  fun_induction seqRotate a rest with
  | case1 x y rest ih =>
    obtain ⟨h1, h2, h3⟩ := ih
    refine ⟨?_, h2, ?_⟩
    · rw [← h1]; simp [conjuncts, Term.a2]
    · rw [h3, size_conj]; simp [Term.size, Args.size]; omega
  | case2 first rest hne =>
    have hc : isConj first = false := by
      unfold isConj
      split
      · exact absurd rfl (hne _ _)
      · rfl
    exact ⟨by simp [conjuncts_nonconj first hc], hc, rfl⟩

theorem isConj_false_of_ne (t : Term)
    (hne : ∀ a b : Term, t = .app "," (.cons a (.cons b .nil)) → False) : isConj t = false := by
  unfold isConj
  split
  · exact absurd rfl (hne _ _)
  · rfl

theorem seqItems_conj (k : Nat) (a b : Term) :
    seqItems (k + 1) (.app "," (.cons a (.cons b .nil))) =
      (seqRotate a b).1 :: seqItems k (seqRotate a b).2 := by
  simp [seqItems]

theorem seqItems_nonconj (k : Nat) (t : Term) (h : isConj t = false) : seqItems (k + 1) t = [t] := by
  unfold seqItems
  split
  · rename_i heq; cases heq
  · rename_i heq; simp [isConj] at h
  · rfl

/-- **seqIterator yields the ISO conjuncts** (any fuel ≥ the size of the body) -/
theorem seqItems_eq_conjuncts : ∀ (fuel : Nat) (t : Term), t.size ≤ fuel → seqItems fuel t = conjuncts t := by
  intro fuel
  induction fuel with
  | zero => intro t h; have := size_pos t; omega
  | succ k ih =>
    intro t h
    by_cases hc : isConj t = true
    · unfold isConj at hc
      split at hc
      · rename_i a b
        obtain ⟨h1, h2, h3⟩ := seqRotate_spec a b
        have hs : (seqRotate a b).2.size ≤ k := by
          have := size_pos (seqRotate a b).1
          simp [Term.size, Args.size] at h
          omega
        rw [seqItems_conj, ih _ hs]
        simp only [conjuncts]
        rw [h1]
      · simp at hc
    · have hc' : isConj t = false := by simpa using hc
      rw [seqItems_nonconj k t hc', conjuncts_nonconj t hc']

end PrologVerif.DCG
