/-
  Helper lemmas for C11 about the environment: Resolve, unify, full resolution.
-/
import PrologVerif.Proofs.Collect
namespace PrologVerif.Collect
open PrologVerif PrologVerif.CollectSpec

theorem lookup_mem {α : Type} {v : Nat} {t : α} : ∀ {e : List (Nat × α)}, e.lookup v = some t → (v, t) ∈ e
  | [], h => by simp at h
  | (x, y) :: e, h => by
    rw [lookup_cons] at h
    split at h
    · rename_i hx; subst hx; simp at h; subst h; simp
    · exact List.mem_cons_of_mem _ (lookup_mem h)

/-! ## Resolve -/

@[simp] theorem resolve_app (e : Env) (fuel : Nat) (f : String) (as : Args) :
    resolve e fuel (.app f as) = some (.app f as) := by cases fuel <;> simp [resolve]
@[simp] theorem resolve_atom (e : Env) (fuel : Nat) (s : String) :
    resolve e fuel (.atom s) = some (.atom s) := by cases fuel <;> simp [resolve]
@[simp] theorem resolve_int (e : Env) (fuel : Nat) (i : Int) :
    resolve e fuel (.int i) = some (.int i) := by cases fuel <;> simp [resolve]
@[simp] theorem resolve_flt (e : Env) (fuel : Nat) (b : UInt64) :
    resolve e fuel (.flt b) = some (.flt b) := by cases fuel <;> simp [resolve]
@[simp] theorem resolve_str (e : Env) (fuel : Nat) (n : Nat) :
    resolve e fuel (.str n) = some (.str n) := by cases fuel <;> simp [resolve]

/-- the result of Resolve is the term itself or a term some variable is bound to -/
theorem resolve_cases (e : Env) : ∀ (fuel : Nat) (t r : Term), resolve e fuel t = some r →
    r = t ∨ ∃ v, (v, r) ∈ e
  | 0, t, r, h => by
    cases t with
    | var v =>
      simp only [resolve] at h
      cases hl : e.lookup v with
      | none => simp [hl] at h; exact Or.inl h.symm
      | some u => simp [hl] at h
    | _ => simp at h; exact Or.inl h.symm
  | fuel + 1, t, r, h => by
    cases t with
    | var v =>
      simp only [resolve] at h
      cases hl : e.lookup v with
      | none => simp [hl] at h; exact Or.inl h.symm
      | some u =>
        simp only [hl] at h
        rcases resolve_cases e fuel u r h with rfl | h'
        · exact Or.inr ⟨v, lookup_mem hl⟩
        · exact Or.inr h'
    | _ => simp at h; exact Or.inl h.symm

/-! ## which bindings unify adds -/

/-- every variable occurring in a bound term satisfies `R` -/
def Closed (R : Nat → Prop) (e : Env) : Prop := ∀ p ∈ e, ∀ v ∈ vars p.2, R v

theorem resolve_closed {R : Nat → Prop} {e : Env} {fuel : Nat} {t r : Term} (hc : Closed R e)
    (ht : ∀ v ∈ vars t, R v) (h : resolve e fuel t = some r) : ∀ v ∈ vars r, R v := by
  rcases resolve_cases e fuel t r h with rfl | ⟨v, hv⟩
  · exact ht
  · exact hc _ hv

/-- the bindings of `e'` are those of `e` plus bindings whose variables all satisfy `R` -/
def NewIn (R : Nat → Prop) (e e' : Env) : Prop := ∀ p ∈ e', p ∈ e ∨ (R p.1 ∧ ∀ v ∈ vars p.2, R v)

theorem newIn_refl (R : Nat → Prop) (e : Env) : NewIn R e e := fun _ hp => Or.inl hp

theorem newIn_bind {R : Nat → Prop} {e : Env} {a : Nat} {t : Term} (ha : R a) (ht : ∀ v ∈ vars t, R v) :
    NewIn R e (bind e a t) := by
  intro p hp
  simp only [bind, List.mem_cons] at hp
  rcases hp with rfl | hp
  · exact Or.inr ⟨ha, ht⟩
  · exact Or.inl hp

theorem closed_of_newIn {R : Nat → Prop} {e e' : Env} (hc : Closed R e) (hn : NewIn R e e') : Closed R e' := by
  intro p hp
  rcases hn p hp with h | h
  · exact hc p h
  · exact h.2

theorem newIn_trans {R : Nat → Prop} {e e1 e2 : Env} (h1 : NewIn R e e1) (h2 : NewIn R e1 e2) : NewIn R e e2 := by
  intro p hp
  rcases h2 p hp with h | h
  · exact h1 p h
  · exact Or.inr h

mutual
  /-- unify only binds variables of the two terms (or of terms already bound), to such terms -/
  theorem unify_newIn (R : Nat → Prop) : ∀ (fuel : Nat) (e : Env) (x y : Term) (e' : Env) (ok : Bool),
      unify e fuel x y = some (e', ok) → (∀ v ∈ vars x, R v) → (∀ v ∈ vars y, R v) → Closed R e →
      NewIn R e e'
    | 0, e, x, y, e', ok, h, _, _, _ => by simp [unify] at h
    | fuel + 1, e, x, y, e', ok, h, hx, hy, hc => by
      simp only [unify] at h
      cases hrx : resolve e fuel x with
      | none => simp [hrx] at h
      | some x' =>
        cases hry : resolve e fuel y with
        | none => simp [hrx, hry] at h
        | some y' =>
          have hx' := resolve_closed hc hx hrx
          have hy' := resolve_closed hc hy hry
          simp only [hrx, hry] at h
          cases x' with
          | var a =>
            simp only at h
            split at h
            · simp at h; obtain ⟨rfl, _⟩ := h; exact newIn_refl R e
            · simp at h; obtain ⟨rfl, _⟩ := h
              exact newIn_bind (hx' a (by simp)) hy'
          | app f as =>
            cases y' with
            | var b =>
              simp at h; obtain ⟨rfl, _⟩ := h
              exact newIn_bind (hy' b (by simp)) hx'
            | app g bs =>
              simp only at h
              split at h
              · simp at h; obtain ⟨rfl, _⟩ := h; exact newIn_refl R e
              · split at h
                · simp at h; obtain ⟨rfl, _⟩ := h; exact newIn_refl R e
                · exact unifyArgs_newIn R fuel e as bs e' ok h (by simpa using hx') (by simpa using hy') hc
            | atom _ => simp at h; obtain ⟨rfl, _⟩ := h; exact newIn_refl R e
            | int _ => simp at h; obtain ⟨rfl, _⟩ := h; exact newIn_refl R e
            | flt _ => simp at h; obtain ⟨rfl, _⟩ := h; exact newIn_refl R e
            | str _ => simp at h; obtain ⟨rfl, _⟩ := h; exact newIn_refl R e
          | atom s =>
            cases y' with
            | var b => simp at h; obtain ⟨rfl, _⟩ := h; exact newIn_bind (hy' b (by simp)) hx'
            | _ => simp at h; obtain ⟨rfl, _⟩ := h; exact newIn_refl R e
          | int s =>
            cases y' with
            | var b => simp at h; obtain ⟨rfl, _⟩ := h; exact newIn_bind (hy' b (by simp)) hx'
            | _ => simp at h; obtain ⟨rfl, _⟩ := h; exact newIn_refl R e
          | flt s =>
            cases y' with
            | var b => simp at h; obtain ⟨rfl, _⟩ := h; exact newIn_bind (hy' b (by simp)) hx'
            | _ => simp at h; obtain ⟨rfl, _⟩ := h; exact newIn_refl R e
          | str s =>
            cases y' with
            | var b => simp at h; obtain ⟨rfl, _⟩ := h; exact newIn_bind (hy' b (by simp)) hx'
            | _ => simp at h; obtain ⟨rfl, _⟩ := h; exact newIn_refl R e
  theorem unifyArgs_newIn (R : Nat → Prop) : ∀ (fuel : Nat) (e : Env) (as bs : Args) (e' : Env) (ok : Bool),
      unifyArgs e fuel as bs = some (e', ok) → (∀ v ∈ varsArgs as, R v) → (∀ v ∈ varsArgs bs, R v) →
      Closed R e → NewIn R e e'
    | 0, e, as, bs, e', ok, h, _, _, _ => by simp [unifyArgs] at h
    | fuel + 1, e, .nil, .nil, e', ok, h, _, _, _ => by
      simp [unifyArgs] at h; obtain ⟨rfl, _⟩ := h; exact newIn_refl R e
    | fuel + 1, e, .nil, .cons _ _, e', ok, h, _, _, _ => by
      simp [unifyArgs] at h; obtain ⟨rfl, _⟩ := h; exact newIn_refl R e
    | fuel + 1, e, .cons _ _, .nil, e', ok, h, _, _, _ => by
      simp [unifyArgs] at h; obtain ⟨rfl, _⟩ := h; exact newIn_refl R e
    | fuel + 1, e, .cons a as, .cons b bs, e', ok, h, hx, hy, hc => by
      simp only [unifyArgs] at h
      have hxa : ∀ v ∈ vars a, R v := fun v hv => hx v (by simp [hv])
      have hyb : ∀ v ∈ vars b, R v := fun v hv => hy v (by simp [hv])
      cases hu : unify e fuel a b with
      | none => simp [hu] at h
      | some r =>
        obtain ⟨e1, ok1⟩ := r
        have h1 := unify_newIn R fuel e a b e1 ok1 hu hxa hyb hc
        cases ok1 with
        | false => simp [hu] at h; obtain ⟨rfl, _⟩ := h; exact h1
        | true =>
          simp only [hu] at h
          have h2 := unifyArgs_newIn R fuel e1 as bs e' ok h (fun v hv => hx v (by simp [hv]))
            (fun v hv => hy v (by simp [hv])) (closed_of_newIn hc h1)
          exact newIn_trans h1 h2
end

theorem vars_list (xs : List Term) (tail : Term) :
    vars (Term.list xs tail) = xs.flatMap vars ++ vars tail := by
  induction xs with
  | nil => simp [Term.list]
  | cons x xs ih =>
    simp only [Term.list, List.foldr_cons] at ih ⊢
    simp [Term.consT, ih]

/-! ## full resolution -/

mutual
  /-- what `applyEnv` (the resolution done when an answer is written) returns is the value of the
      term under the bindings -/
  theorem applyEnv_value (e : Env) : ∀ (fuel : Nat) (path : List Nat) (t r : Term),
      applyEnv e fuel path t = some r → Value e t r
    | 0, _, _, _, h => by simp [applyEnv] at h
    | fuel + 1, path, .var v, r, h => by
      simp only [applyEnv] at h
      split at h
      · simp at h
      · cases hl : e.lookup v with
        | none => simp [hl] at h; subst h; exact .unbound hl
        | some t =>
          simp only [hl] at h
          exact .bound hl (applyEnv_value e fuel _ t r h)
    | fuel + 1, path, .app f as, r, h => by
      simp only [applyEnv] at h
      cases ha : applyArgs e fuel path as with
      | none => simp [ha] at h
      | some rs =>
        simp [ha] at h; subst h
        exact .app (applyArgs_value e fuel path as rs ha)
    | fuel + 1, _, .atom _, r, h => by simp [applyEnv] at h; subst h; exact .atom
    | fuel + 1, _, .int _, r, h => by simp [applyEnv] at h; subst h; exact .int
    | fuel + 1, _, .flt _, r, h => by simp [applyEnv] at h; subst h; exact .flt
    | fuel + 1, _, .str _, r, h => by simp [applyEnv] at h; subst h; exact .str
  theorem applyArgs_value (e : Env) : ∀ (fuel : Nat) (path : List Nat) (as rs : Args),
      applyArgs e fuel path as = some rs → ValueArgs e as rs
    | 0, _, _, _, h => by simp [applyArgs] at h
    | fuel + 1, _, .nil, rs, h => by simp [applyArgs] at h; subst h; exact .nil
    | fuel + 1, path, .cons t ts, rs, h => by
      simp only [applyArgs] at h
      cases h1 : applyEnv e fuel path t with
      | none => simp [h1] at h
      | some t' =>
        cases h2 : applyArgs e fuel path ts with
        | none => simp [h1, h2] at h
        | some ts' =>
          simp [h1, h2] at h; subst h
          exact .cons (applyEnv_value e fuel path t t' h1) (applyArgs_value e fuel path ts ts' h2)
end

end PrologVerif.Collect
