/-
  C16, "no position answered twice": member/2, select/3 over a proper list give at most one answer
  per position, append/3 splitting a proper list gives every split at most once (the lengths of the
  first list strictly increase along the answers); under the side conditions of the completeness
  theorems (enough fuel, every unification of the run defined) the exact NUMBER of answers.

  The SLD engine of the model is unfolded one resolution step at a time (`step`): with a single goal
  and the two clauses of each predicate a run is   step c₁ ++ step c₂ .
-/
import PrologVerif.Proofs.RelAux
namespace PrologVerif.Rel
open PrologVerif PrologVerif.Relations

/-! ### one resolution step of a single goal -/

/-- the answers that `sld` derives through clause `c` for the single goal `g` -/
def step (cl : List Clause) (f : Nat) (g : Term) (args : List Term) (c : Clause) : Answers :=
  match unifyM g (substT (shift (boundL (g :: args))) c.1) with
  | some δ =>
    sld cl f ((c.2.map (substT (shift (boundL (g :: args))))).map (substT δ)) (args.map (substT δ))
  | none => []

theorem sld_single (cl : List Clause) (f : Nat) (g : Term) (args : List Term) :
    sld cl (f + 1) [g] args = cl.flatMap (step cl f g args) := by
  simp only [sld, List.append_nil]
  rfl

theorem sld_two {cl : List Clause} {c1 c2 : Clause} (h : cl = [c1, c2]) (f : Nat) (g : Term) (args : List Term) :
    sld cl (f + 1) [g] args = step cl f g args c1 ++ step cl f g args c2 := by
  rw [sld_single]
  subst h
  simp

theorem sld_nil_length (cl : List Clause) (f : Nat) (args : List Term) : (sld cl f [] args).length ≤ 1 := by
  cases f <;> simp [sld]

theorem sld_nil_succ (cl : List Clause) (f : Nat) (args : List Term) : sld cl (f + 1) [] args = [args] := by
  simp [sld]

/-- a step either yields nothing or continues under a unifier of the goal with the renamed head -/
theorem step_cases (cl : List Clause) (f : Nat) (g : Term) (args : List Term) (c : Clause) :
    step cl f g args c = [] ∨
    ∃ (N : Nat) (δ : Nat → Term), N = boundL (g :: args) ∧ unifyM g (substT (shift N) c.1) = some δ ∧
      substT δ g = substT δ (substT (shift N) c.1) ∧
      step cl f g args c = sld cl f ((c.2.map (substT (shift N))).map (substT δ)) (args.map (substT δ)) := by
  unfold step
  cases h : unifyM g (substT (shift (boundL (g :: args))) c.1) with
  | none => exact Or.inl rfl
  | some δ => exact Or.inr ⟨_, δ, rfl, h, unifyM_sound h, rfl⟩

theorem nilT_ne_consT (h t : Term) : Term.nilT ≠ Term.consT h t := by
  simp [Term.nilT, Term.consT]

theorem a2_inj {f : String} {a b a' b' : Term} (h : Term.a2 f a b = Term.a2 f a' b') : a = a' ∧ b = b' := by
  simpa [Term.a2] using h

theorem a3_inj {f : String} {a b c a' b' c' : Term} (h : Term.a3 f a b c = Term.a3 f a' b' c') :
    a = a' ∧ b = b' ∧ c = c' := by
  simpa [Term.a3] using h

theorem substT_a2 (σ : Nat → Term) (f : String) (a b : Term) :
    substT σ (Term.a2 f a b) = Term.a2 f (substT σ a) (substT σ b) := by
  simp [Term.a2, substT, substA]

theorem substT_a3 (σ : Nat → Term) (f : String) (a b c : Term) :
    substT σ (Term.a3 f a b c) = Term.a3 f (substT σ a) (substT σ b) (substT σ c) := by
  simp [Term.a3, substT, substA]

theorem substT_var (σ : Nat → Term) (v : Nat) : substT σ (.var v) = σ v := by simp [substT]

theorem substT_nilT (σ : Nat → Term) : substT σ Term.nilT = Term.nilT := by simp [Term.nilT]

/-! ### member/2: at most one answer per element -/

def mC1 : Clause := (Term.a2 "member" (.var 0) (Term.consT (.var 0) (.var 1)), [])
def mC2 : Clause := (Term.a2 "member" (.var 0) (Term.consT (.var 1) (.var 2)), [Term.a2 "member" (.var 0) (.var 2)])
theorem memberClauses_eq : memberClauses = [mC1, mC2] := rfl

theorem member_len : (f : Nat) → (es : List Term) → (x : Term) → (args : List Term) →
    (sld memberClauses f [Term.a2 "member" x (Term.list es)] args).length ≤ es.length
  | 0, _, _, _ => by simp [sld]
  | f + 1, es, x, args => by
    rw [sld_two memberClauses_eq, List.length_append]
    have h1 : (step memberClauses f (Term.a2 "member" x (Term.list es)) args mC1).length ≤ min 1 es.length := by
      rcases step_cases memberClauses f (Term.a2 "member" x (Term.list es)) args mC1 with h | ⟨N, δ, _, _, hs, he⟩
      · simp [h]
      · rw [he]
        simp only [mC1, substT_a2, substT_consT, substT_var] at hs
        have hs := (a2_inj hs).2
        cases es with
        | nil => exact absurd hs (by rw [list_nil, substT_nilT]; exact nilT_ne_consT _ _)
        | cons e es =>
          have := sld_nil_length memberClauses f (args.map (substT δ))
          simp only [mC1, List.map_nil, List.length_cons]
          omega
    have h2 : (step memberClauses f (Term.a2 "member" x (Term.list es)) args mC2).length ≤ es.length - 1 := by
      rcases step_cases memberClauses f (Term.a2 "member" x (Term.list es)) args mC2 with h | ⟨N, δ, _, _, hs, he⟩
      · simp [h]
      · rw [he]
        simp only [mC2, substT_a2, substT_consT, substT_var] at hs
        have hs := (a2_inj hs).2
        cases es with
        | nil => exact absurd hs (by rw [list_nil, substT_nilT]; exact nilT_ne_consT _ _)
        | cons e es =>
          rw [list_cons, substT_consT] at hs
          have hl := (consT_inj hs).2
          simp only [mC2, List.map_cons, List.map_nil, substT_a2, substT_var]
          rw [← hl, substT_list, substT_nilT]
          have := member_len f (es.map (substT δ)) (substT δ (shift N 0)) (args.map (substT δ))
          simpa using this
    omega

/-! ### select/3: at most one answer per element -/

def sC1 : Clause := (Term.a3 "select" (.var 0) (Term.consT (.var 0) (.var 1)) (.var 1), [])
def sC2 : Clause :=
  (Term.a3 "select" (.var 0) (Term.consT (.var 1) (.var 2)) (Term.consT (.var 1) (.var 3)),
    [Term.a3 "select" (.var 0) (.var 2) (.var 3)])
theorem selectClauses_eq : selectClauses = [sC1, sC2] := rfl

theorem select_len : (f : Nat) → (es : List Term) → (x r : Term) → (args : List Term) →
    (sld selectClauses f [Term.a3 "select" x (Term.list es) r] args).length ≤ es.length
  | 0, _, _, _, _ => by simp [sld]
  | f + 1, es, x, r, args => by
    rw [sld_two selectClauses_eq, List.length_append]
    have h1 : (step selectClauses f (Term.a3 "select" x (Term.list es) r) args sC1).length ≤ min 1 es.length := by
      rcases step_cases selectClauses f (Term.a3 "select" x (Term.list es) r) args sC1 with h | ⟨N, δ, _, _, hs, he⟩
      · simp [h]
      · rw [he]
        simp only [sC1, substT_a3, substT_consT, substT_var] at hs
        have hs := (a3_inj hs).2.1
        cases es with
        | nil => exact absurd hs (by rw [list_nil, substT_nilT]; exact nilT_ne_consT _ _)
        | cons e es =>
          have := sld_nil_length selectClauses f (args.map (substT δ))
          simp only [sC1, List.map_nil, List.length_cons]
          omega
    have h2 : (step selectClauses f (Term.a3 "select" x (Term.list es) r) args sC2).length ≤ es.length - 1 := by
      rcases step_cases selectClauses f (Term.a3 "select" x (Term.list es) r) args sC2 with h | ⟨N, δ, _, _, hs, he⟩
      · simp [h]
      · rw [he]
        simp only [sC2, substT_a3, substT_consT, substT_var] at hs
        have hs := (a3_inj hs).2.1
        cases es with
        | nil => exact absurd hs (by rw [list_nil, substT_nilT]; exact nilT_ne_consT _ _)
        | cons e es =>
          rw [list_cons, substT_consT] at hs
          have hl := (consT_inj hs).2
          simp only [sC2, List.map_cons, List.map_nil, substT_a3, substT_var]
          rw [← hl, substT_list, substT_nilT]
          have := select_len f (es.map (substT δ)) (substT δ (shift N 0)) (substT δ (shift N 3)) (args.map (substT δ))
          simpa using this
    omega

/-! ### append/3 splitting a proper list: the split point strictly increases along the answers -/

def aC1 : Clause := (Term.a3 "append" Term.nilT (.var 0) (.var 0), [])
def aC2 : Clause :=
  (Term.a3 "append" (Term.consT (.var 0) (.var 1)) (.var 2) (Term.consT (.var 0) (.var 3)),
    [Term.a3 "append" (.var 1) (.var 2) (.var 3)])
theorem appendClausePairs_eq : appendClausePairs = [aC1, aC2] := rfl

/-- the split point of an answer of append/3: the number of elements of its first argument -/
def splitAt (t : List Term) : Nat :=
  match t with
  | x :: _ => x.spine.1.length
  | [] => 0

/-- the run of append/3 after `pre.length` elements have been moved into the first list -/
theorem append_keys : (f : Nat) → (zs : List Term) → (x y : Term) → (pre rest : List Term) →
    (sld appendClausePairs f [Term.a3 "append" x y (Term.list zs)] (Term.list pre x :: rest)).Pairwise
        (fun s t => splitAt s < splitAt t) ∧
    (∀ t ∈ sld appendClausePairs f [Term.a3 "append" x y (Term.list zs)] (Term.list pre x :: rest),
        pre.length ≤ splitAt t ∧ splitAt t ≤ pre.length + zs.length) ∧
    (sld appendClausePairs f [Term.a3 "append" x y (Term.list zs)] (Term.list pre x :: rest)).length
        ≤ zs.length + 1
  | 0, _, _, _, _, _ => by simp [sld]
  | f + 1, zs, x, y, pre, rest => by
    rw [sld_two appendClausePairs_eq]
    have h1 : ∀ t ∈ step appendClausePairs f (Term.a3 "append" x y (Term.list zs)) (Term.list pre x :: rest) aC1,
        splitAt t = pre.length := by
      intro t ht
      rcases step_cases appendClausePairs f (Term.a3 "append" x y (Term.list zs)) (Term.list pre x :: rest) aC1
        with h | ⟨N, δ, _, _, hs, he⟩
      · rw [h] at ht; cases ht
      · rw [he] at ht
        simp only [aC1, substT_a3, substT_var, substT_nilT] at hs
        have hx := (a3_inj hs).1
        simp only [aC1, List.map_nil] at ht
        cases f with
        | zero => simp [sld] at ht
        | succ f =>
          rw [sld_nil_succ, List.mem_singleton] at ht
          subst ht
          simp [splitAt, substT_list, hx, spine_list_nil]
    have h1l : (step appendClausePairs f (Term.a3 "append" x y (Term.list zs)) (Term.list pre x :: rest) aC1).length
        ≤ 1 := by
      rcases step_cases appendClausePairs f (Term.a3 "append" x y (Term.list zs)) (Term.list pre x :: rest) aC1
        with h | ⟨N, δ, _, _, hs, he⟩
      · simp [h]
      · rw [he]; exact sld_nil_length _ _ _
    have h2 : (step appendClausePairs f (Term.a3 "append" x y (Term.list zs)) (Term.list pre x :: rest) aC2).Pairwise
          (fun s t => splitAt s < splitAt t) ∧
        (∀ t ∈ step appendClausePairs f (Term.a3 "append" x y (Term.list zs)) (Term.list pre x :: rest) aC2,
          pre.length + 1 ≤ splitAt t ∧ splitAt t ≤ pre.length + zs.length) ∧
        (step appendClausePairs f (Term.a3 "append" x y (Term.list zs)) (Term.list pre x :: rest) aC2).length
          ≤ zs.length := by
      rcases step_cases appendClausePairs f (Term.a3 "append" x y (Term.list zs)) (Term.list pre x :: rest) aC2
        with h | ⟨N, δ, _, _, hs, he⟩
      · simp [h]
      · rw [he]
        simp only [aC2, substT_a3, substT_consT, substT_var] at hs
        obtain ⟨hx, _, hz⟩ := a3_inj hs
        cases zs with
        | nil => exact absurd hz (by rw [list_nil, substT_nilT]; exact nilT_ne_consT _ _)
        | cons z zs =>
          rw [list_cons, substT_consT] at hz
          have hl := (consT_inj hz).2
          simp only [aC2, List.map_cons, List.map_nil, substT_a3, substT_var]
          rw [← hl, substT_list, substT_nilT, substT_list, hx]
          have hpre : Term.list (pre.map (substT δ)) (Term.consT (δ (0 + N)) (δ (1 + N))) =
              Term.list (pre.map (substT δ) ++ [δ (0 + N)]) (δ (1 + N)) := by
            rw [list_append]; rfl
          simp only [shift, substT_var]
          rw [hpre]
          have := append_keys f (zs.map (substT δ)) (δ (1 + N)) (δ (2 + N)) (pre.map (substT δ) ++ [δ (0 + N)])
            (rest.map (substT δ))
          simp only [List.length_append, List.length_map, List.length_cons, List.length_nil] at this ⊢
          refine ⟨this.1, fun t ht => ?_, this.2.2⟩
          have := this.2.1 t ht
          omega
    refine ⟨List.pairwise_append.mpr ⟨?_, h2.1, ?_⟩, ?_, ?_⟩
    · generalize step appendClausePairs f (Term.a3 "append" x y (Term.list zs)) (Term.list pre x :: rest) aC1 = l
        at h1 h1l
      match l, h1l with
      | [], _ => simp
      | [_], _ => simp
    · intro s hs t ht
      have := h1 s hs
      have := (h2.2.1 t ht).1
      omega
    · intro t ht
      rcases List.mem_append.mp ht with ht | ht
      · have := h1 t ht; omega
      · have := h2.2.1 t ht; omega
    · rw [List.length_append]
      have := h2.2.2
      omega

/-! ### the exact number of answers

  Under the side conditions of the completeness theorems (`SldDefined`: every unification of the run
  finished within the unifier's fuel; enough fuel for the derivations) a resolution step through a
  clause succeeds exactly when the goal unifies with a variant of the head, and its unifier is most
  general; this determines the number of answers. -/

/-- the two terms have a common instance -/
def Unifiable (a b : Term) : Prop := ∃ σ : Nat → Term, substT σ a = substT σ b

theorem Unifiable.of_inst {a b a' b' : Term} (σ : Nat → Term) (ha : a = substT σ a') (hb : b = substT σ b')
    (h : Unifiable a b) : Unifiable a' b' := by
  obtain ⟨τ, hτ⟩ := h
  refine ⟨fun v => substT τ (σ v), ?_⟩
  rw [← substT_comp, ← substT_comp, ← ha, ← hb, hτ]

/-- `τ` on the variables of the goal (below `N`), `ρ` on the variables of the renamed clause -/
def ext (N : Nat) (τ ρ : Nat → Term) : Nat → Term := fun v => if v < N then τ v else ρ (v - N)

theorem ext_low (N : Nat) (τ ρ : Nat → Term) {t : Term} (ht : boundT t ≤ N) :
    substT (ext N τ ρ) t = substT τ t :=
  substT_agree_below (fun v hv => by simp [ext, hv]) t ht

theorem ext_shift (N : Nat) (τ ρ : Nat → Term) (u : Term) :
    substT (ext N τ ρ) (substT (shift N) u) = substT ρ u := by
  rw [substT_comp]
  apply substT_congr
  intro v _
  have : ¬ (v + N < N) := by omega
  simp [shift, substT, ext, this]

/-- a resolution step of a defined run: it fails only if the goal unifies with no variant of the
    head; otherwise it continues under a most general unifier -/
theorem step_defined {cl : List Clause} {f : Nat} {g : Term} {args : List Term} {c : Clause}
    (hdef : SldDefined cl (f + 1) [g] args) (hc : c ∈ cl) :
    ∃ N, boundT g ≤ N ∧
    ((step cl f g args c = [] ∧ ∀ τ ρ : Nat → Term, substT τ g ≠ substT ρ c.1) ∨
     ∃ δ : Nat → Term, substT δ g = substT δ (substT (shift N) c.1) ∧
       (∀ τ ρ : Nat → Term, substT τ g = substT ρ c.1 →
          ∀ u, substT (ext N τ ρ) (substT δ u) = substT (ext N τ ρ) u) ∧
       step cl f g args c = sld cl f ((c.2.map (substT (shift N))).map (substT δ)) (args.map (substT δ)) ∧
       SldDefined cl f ((c.2.map (substT (shift N))).map (substT δ)) (args.map (substT δ))) := by
  have hg : boundT g ≤ boundL (g :: args) := boundT_le_boundL (by simp)
  refine ⟨boundL (g :: args), hg, ?_⟩
  simp only [SldDefined] at hdef
  obtain ⟨hd, hrec⟩ := hdef c hc
  have e1 : [g] ++ args = g :: args := rfl
  simp only [e1, List.append_nil] at hd hrec
  obtain ⟨k1, k2⟩ := unifyM_mgu hd
  have hext : ∀ τ ρ : Nat → Term, substT τ g = substT ρ c.1 →
      substT (ext (boundL (g :: args)) τ ρ) g =
        substT (ext (boundL (g :: args)) τ ρ) (substT (shift (boundL (g :: args))) c.1) := by
    intro τ ρ h
    rw [ext_low _ _ _ hg, ext_shift, h]
  cases hm : unifyM g (substT (shift (boundL (g :: args))) c.1) with
  | none =>
    refine Or.inl ⟨by simp [step, hm], fun τ ρ h => k2 hm _ (hext τ ρ h)⟩
  | some δ =>
    obtain ⟨hs, hmgu⟩ := k1 δ hm
    exact Or.inr ⟨δ, hs, fun τ ρ h => hmgu _ (hext τ ρ h), by simp only [step, hm], hrec δ hm⟩

theorem map_eq_self {α : Type} {f : α → α} : {l : List α} → l.map f = l → ∀ a ∈ l, f a = a
  | [], _, _, h => by cases h
  | b :: l, h, a, ha => by
    simp only [List.map_cons, List.cons.injEq] at h
    rcases List.mem_cons.mp ha with rfl | ha
    · exact h.1
    · exact map_eq_self h.2 a ha

/-! #### member/2 -/

open Classical in
/-- member/2 over a proper list: one answer for every element that unifies with the first argument -/
theorem member_count : (es : List Term) → (f : Nat) → (x : Term) → (args : List Term) → es.length < f →
    SldDefined memberClauses f [Term.a2 "member" x (Term.list es)] args →
    (sld memberClauses f [Term.a2 "member" x (Term.list es)] args).length =
      es.countP (fun e => decide (Unifiable x e))
  | [], f, x, args, _, _ => by
    have := member_len f [] x args
    simpa using this
  | e :: es, f + 1, x, args, hf, hdef => by
    rw [sld_two memberClauses_eq, List.length_append]
    have h1 : (step memberClauses f (Term.a2 "member" x (Term.list (e :: es))) args mC1).length =
        if Unifiable x e then 1 else 0 := by
      obtain ⟨N, hN, h | ⟨δ, hs, hmgu, he, _⟩⟩ := step_defined hdef (c := mC1) (by simp [memberClauses_eq])
      · have : ¬ Unifiable x e := by
          rintro ⟨σ, hσ⟩
          exact h.2 σ (assignList [substT σ x, substT σ (Term.list es)])
            (by simp [mC1, substT_a2, substT_consT, substT_var, assignList, hσ])
        rw [h.1]; simp [this]
      · have : Unifiable x e := by
          simp only [mC1, substT_a2, substT_consT, substT_var, list_cons] at hs
          obtain ⟨h1, h2⟩ := a2_inj hs
          exact ⟨δ, by rw [h1, (consT_inj h2).1]⟩
        rw [he]
        obtain ⟨f', rfl⟩ : ∃ f', f = f' + 1 := ⟨f - 1, by simp at hf; omega⟩
        simp [mC1, sld_nil_succ, this]
    have h2 : (step memberClauses f (Term.a2 "member" x (Term.list (e :: es))) args mC2).length =
        es.countP (fun e => decide (Unifiable x e)) := by
      have hvar : substT Term.var (Term.a2 "member" x (Term.list (e :: es))) =
          substT (assignList [x, e, Term.list es]) mC2.1 := by
        simp [mC2, substT_a2, substT_consT, substT_var, assignList]
      obtain ⟨N, hN, h | ⟨δ, hs, hmgu, he, hd'⟩⟩ := step_defined hdef (c := mC2) (by simp [memberClauses_eq])
      · exact absurd hvar (h.2 _ _)
      · have hσ := hmgu _ _ hvar
        have hg := hσ (Term.a2 "member" x (Term.list (e :: es)))
        rw [ext_low _ _ _ hN, substT_var_id] at hg
        generalize ext N Term.var (assignList [x, e, Term.list es]) = σ at hσ hg
        simp only [substT_a2, list_cons, substT_consT] at hg
        obtain ⟨hx, hl⟩ := a2_inj hg
        have hl := (consT_inj hl).2
        rw [substT_list, substT_list, substT_nilT, substT_nilT] at hl
        have hl := map_eq_self (by simpa [List.map_map, Function.comp_def] using list_inj_nil hl :
          es.map (fun t => substT σ (substT δ t)) = es)
        simp only [mC2, substT_a2, substT_consT, substT_var, list_cons] at hs
        obtain ⟨h1, h2⟩ := a2_inj hs
        have h2 := (consT_inj h2).2
        rw [he]
        simp only [mC2, List.map_cons, List.map_nil, substT_a2, substT_var] at hd' ⊢
        rw [← h1, ← h2, substT_list, substT_nilT] at hd' ⊢
        rw [member_count (es.map (substT δ)) f (substT δ x) _ (by simpa using hf) hd', List.countP_map]
        apply List.countP_congr
        intro e' he'
        simp only [Function.comp_apply, decide_eq_true_eq]
        exact ⟨Unifiable.of_inst δ rfl rfl, Unifiable.of_inst σ hx.symm (hl e' he').symm⟩
    rw [h1, h2, List.countP_cons]
    simp only [decide_eq_true_eq]
    omega

/-! #### select/3 -/

theorem eraseIdx_map' {α β : Type} (f : α → β) : (l : List α) → (i : Nat) →
    (l.map f).eraseIdx i = (l.eraseIdx i).map f
  | [], _ => by simp
  | _ :: _, 0 => by simp
  | a :: l, i + 1 => by simp [eraseIdx_map' f l i]

/-- the element at position `i` of the list `es` can be selected by the call `select(x, es, r)`:
    some instance of the call takes the element there -/
def SelectAt (x r : Term) (es : List Term) (i : Nat) : Prop :=
  ∃ (σ : Nat → Term) (e : Term), es[i]? = some e ∧ substT σ x = substT σ e ∧
    substT σ r = substT σ (Term.list (es.eraseIdx i))

open Classical in
/-- select/3 over a proper list: one answer for every position that can be selected -/
theorem select_count : (es : List Term) → (f : Nat) → (x r : Term) → (args : List Term) → es.length < f →
    SldDefined selectClauses f [Term.a3 "select" x (Term.list es) r] args →
    (sld selectClauses f [Term.a3 "select" x (Term.list es) r] args).length =
      (List.range es.length).countP (fun i => decide (SelectAt x r es i))
  | [], f, x, r, args, _, _ => by
    have := select_len f [] x r args
    simpa using this
  | e :: es, f + 1, x, r, args, hf, hdef => by
    rw [sld_two selectClauses_eq, List.length_append]
    have h1 : (step selectClauses f (Term.a3 "select" x (Term.list (e :: es)) r) args sC1).length =
        if SelectAt x r (e :: es) 0 then 1 else 0 := by
      obtain ⟨N, hN, h | ⟨δ, hs, hmgu, he, _⟩⟩ := step_defined hdef (c := sC1) (by simp [selectClauses_eq])
      · have : ¬ SelectAt x r (e :: es) 0 := by
          rintro ⟨σ, e', h1, h2, h3⟩
          simp only [List.getElem?_cons_zero, Option.some.injEq] at h1
          subst h1
          simp only [List.eraseIdx_cons_zero] at h3
          exact h.2 σ (assignList [substT σ x, substT σ (Term.list es)])
            (by simp [sC1, substT_a3, substT_consT, substT_var, assignList, h2, h3])
        rw [h.1]; simp [this]
      · have : SelectAt x r (e :: es) 0 := by
          simp only [sC1, substT_a3, substT_consT, substT_var, list_cons] at hs
          obtain ⟨h1, h2, h3⟩ := a3_inj hs
          obtain ⟨h2, h4⟩ := consT_inj h2
          exact ⟨δ, e, by simp, by rw [h1, h2], by simp only [List.eraseIdx_cons_zero]; rw [h3, h4]⟩
        rw [he]
        obtain ⟨f', rfl⟩ : ∃ f', f = f' + 1 := ⟨f - 1, by simp at hf; omega⟩
        simp [sC1, sld_nil_succ, this]
    have h2 : (step selectClauses f (Term.a3 "select" x (Term.list (e :: es)) r) args sC2).length =
        (List.range es.length).countP (fun i => decide (SelectAt x r (e :: es) (i + 1))) := by
      -- an instance of the call that selects position `i + 1` unifies the goal with the second head
      have hunif : ∀ (σ : Nat → Term) (i : Nat), substT σ r = substT σ (Term.list ((e :: es).eraseIdx (i + 1))) →
          substT σ (Term.a3 "select" x (Term.list (e :: es)) r) =
            substT (assignList [substT σ x, substT σ e, substT σ (Term.list es),
              substT σ (Term.list (es.eraseIdx i))]) sC2.1 := by
        intro σ i h3
        simp [sC2, substT_a3, substT_consT, substT_var, assignList, h3]
      obtain ⟨N, hN, h | ⟨δ, hs, hmgu, he, hd'⟩⟩ := step_defined hdef (c := sC2) (by simp [selectClauses_eq])
      · rw [h.1]
        symm
        rw [List.length_nil, List.countP_eq_zero]
        rintro i _ hi
        simp only [decide_eq_true_eq] at hi
        obtain ⟨σ, e', _, _, h3⟩ := hi
        exact h.2 _ _ (hunif σ i h3)
      · simp only [sC2, substT_a3, substT_consT, substT_var, list_cons] at hs
        obtain ⟨hs1, hs2, hs3⟩ := a3_inj hs
        obtain ⟨hs2, hs4⟩ := consT_inj hs2
        rw [he]
        simp only [sC2, List.map_cons, List.map_nil, substT_a3, substT_var] at hd' ⊢
        rw [← hs1, ← hs4, substT_list, substT_nilT] at hd' ⊢
        rw [select_count (es.map (substT δ)) f (substT δ x) _ _ (by simpa using hf) hd', List.length_map]
        apply List.countP_congr
        intro i _
        simp only [decide_eq_true_eq]
        constructor
        · rintro ⟨σ, e'', h1, h2, h3⟩
          simp only [List.getElem?_map, Option.map_eq_some_iff] at h1
          obtain ⟨e', h1, rfl⟩ := h1
          refine ⟨fun v => substT σ (δ v), e', by simpa using h1, ?_, ?_⟩
          · rw [← substT_comp, ← substT_comp, h2]
          · rw [← substT_comp, ← substT_comp, hs3, List.eraseIdx_cons_succ, list_cons, substT_consT, substT_consT,
              substT_consT, hs2, h3, eraseIdx_map']
            simp only [substT_list, substT_nilT]
        · rintro ⟨σ, e', h1, h2, h3⟩
          simp only [List.getElem?_cons_succ] at h1
          have hσ := hmgu _ _ (hunif σ i h3)
          have hg := hσ (Term.a3 "select" x (Term.list (e :: es)) r)
          rw [ext_low _ _ _ hN] at hg
          have hD := hσ (substT (shift N) (.var 3))
          rw [ext_shift] at hD
          simp only [substT_var, assignList, List.getElem?_cons_zero, List.getElem?_cons_succ] at hD
          generalize ext N σ _ = σ' at hσ hg hD
          simp only [substT_a3, list_cons, substT_consT] at hg
          obtain ⟨hx, hl, hr⟩ := a3_inj hg
          have hl := (consT_inj hl).2
          rw [substT_list, substT_list, substT_list, substT_nilT, substT_nilT, substT_nilT] at hl
          have hl := list_inj_nil hl
          refine ⟨σ', substT δ e', by simp [h1], ?_, ?_⟩
          · rw [hx, h2]
            have := congrArg (·[i]?) hl
            simp only [List.getElem?_map, h1, Option.map_some, Option.some.injEq] at this
            exact this.symm
          · rw [substT_list, substT_nilT, ← eraseIdx_map', hl, eraseIdx_map']
            rw [hD, substT_list, substT_nilT]
    rw [h1, h2, List.length_cons, List.range_succ_eq_map, List.countP_cons, List.countP_map]
    simp only [decide_eq_true_eq, Function.comp_def, Nat.succ_eq_add_one]
    omega

/-! #### append/3 -/

/-- the list `zs` can be split after `k` elements by the call `append(x, y, zs)`: some instance of
    the call has the first `k` elements as its first argument and the rest as its second -/
def AppendAt (x y : Term) (zs : List Term) (k : Nat) : Prop :=
  ∃ σ : Nat → Term, substT σ x = substT σ (Term.list (zs.take k)) ∧
    substT σ y = substT σ (Term.list (zs.drop k))

open Classical in
/-- the two clauses of append/3 splitting a proper list: one answer for every possible split -/
theorem append_count : (f : Nat) → (zs : List Term) → (x y : Term) → (args : List Term) → zs.length + 1 < f →
    SldDefined appendClausePairs f [Term.a3 "append" x y (Term.list zs)] args →
    (sld appendClausePairs f [Term.a3 "append" x y (Term.list zs)] args).length =
      (List.range (zs.length + 1)).countP (fun k => decide (AppendAt x y zs k))
  | 0, _, _, _, _, hf, _ => by omega
  | f + 1, zs, x, y, args, hf, hdef => by
    rw [sld_two appendClausePairs_eq, List.length_append]
    have h1 : (step appendClausePairs f (Term.a3 "append" x y (Term.list zs)) args aC1).length =
        if AppendAt x y zs 0 then 1 else 0 := by
      obtain ⟨N, hN, h | ⟨δ, hs, hmgu, he, _⟩⟩ := step_defined hdef (c := aC1) (by simp [appendClausePairs_eq])
      · have : ¬ AppendAt x y zs 0 := by
          rintro ⟨σ, h1, h2⟩
          simp only [List.take_zero, List.drop_zero, list_nil, substT_nilT] at h1 h2
          exact h.2 σ (assignList [substT σ y])
            (by simp [aC1, substT_a3, substT_var, substT_nilT, assignList, h1, h2])
        rw [h.1]; simp [this]
      · have : AppendAt x y zs 0 := by
          simp only [aC1, substT_a3, substT_var, substT_nilT] at hs
          obtain ⟨h1, h2, h3⟩ := a3_inj hs
          exact ⟨δ, by simpa [substT_nilT] using h1, by rw [List.drop_zero, h2, h3]⟩
        rw [he]
        obtain ⟨f', rfl⟩ : ∃ f', f = f' + 1 := ⟨f - 1, by omega⟩
        simp [aC1, sld_nil_succ, this]
    have h2 : (step appendClausePairs f (Term.a3 "append" x y (Term.list zs)) args aC2).length =
        (List.range zs.length).countP (fun k => decide (AppendAt x y zs (k + 1))) := by
      cases zs with
      | nil =>
        rcases step_cases appendClausePairs f (Term.a3 "append" x y (Term.list [])) args aC2
          with h | ⟨N, δ, _, _, hs, _⟩
        · rw [h]; simp
        · simp only [aC2, substT_a3, substT_consT, substT_var] at hs
          exact absurd (a3_inj hs).2.2 (by rw [list_nil, substT_nilT]; exact nilT_ne_consT _ _)
      | cons z zs =>
      have hunif : ∀ (σ : Nat → Term) (k : Nat),
          substT σ x = substT σ (Term.list ((z :: zs).take (k + 1))) →
          substT σ (Term.a3 "append" x y (Term.list (z :: zs))) =
            substT (assignList [substT σ z, substT σ (Term.list (zs.take k)), substT σ y,
              substT σ (Term.list zs)]) aC2.1 := by
        intro σ k h1
        simp [aC2, substT_a3, substT_consT, substT_var, assignList, h1]
      obtain ⟨N, hN, h | ⟨δ, hs, hmgu, he, hd'⟩⟩ := step_defined hdef (c := aC2) (by simp [appendClausePairs_eq])
      · rw [h.1]
        symm
        rw [List.length_nil, List.countP_eq_zero]
        rintro k _ hk
        simp only [decide_eq_true_eq] at hk
        obtain ⟨σ, h1, _⟩ := hk
        exact h.2 _ _ (hunif σ k h1)
      · simp only [aC2, substT_a3, substT_consT, substT_var, list_cons] at hs
        obtain ⟨hs1, hs2, hs3⟩ := a3_inj hs
        obtain ⟨hs3, hs4⟩ := consT_inj hs3
        rw [he]
        simp only [aC2, List.map_cons, List.map_nil, substT_a3, substT_var] at hd' ⊢
        rw [← hs2, ← hs4, substT_list, substT_nilT] at hd' ⊢
        rw [append_count f (zs.map (substT δ)) _ (substT δ y) _ (by simpa using hf) hd', List.length_map]
        apply List.countP_congr
        intro k _
        simp only [decide_eq_true_eq]
        constructor
        · rintro ⟨σ, h1, h2⟩
          refine ⟨fun v => substT σ (δ v), ?_, ?_⟩
          · rw [← substT_comp, ← substT_comp, hs1, List.take_succ_cons, list_cons, substT_consT, substT_consT,
              substT_consT, hs3, h1, ← List.map_take]
            simp only [substT_list, substT_nilT]
          · rw [← substT_comp, ← substT_comp, h2, List.drop_succ_cons, ← List.map_drop]
            simp only [substT_list, substT_nilT]
        · rintro ⟨σ, h1, h2⟩
          have hσ := hmgu _ _ (hunif σ k h1)
          have hg := hσ (Term.a3 "append" x y (Term.list (z :: zs)))
          rw [ext_low _ _ _ hN] at hg
          have hX := hσ (substT (shift N) (.var 1))
          rw [ext_shift] at hX
          simp only [substT_var, assignList, List.getElem?_cons_zero, List.getElem?_cons_succ] at hX
          generalize ext N σ _ = σ' at hσ hg hX
          simp only [substT_a3, list_cons, substT_consT] at hg
          obtain ⟨_, hy, hl⟩ := a3_inj hg
          have hl := (consT_inj hl).2
          rw [substT_list, substT_list, substT_list, substT_nilT, substT_nilT, substT_nilT] at hl
          have hl := list_inj_nil hl
          refine ⟨σ', ?_, ?_⟩
          · rw [hX, substT_list, substT_list, substT_nilT, substT_nilT, List.map_take, List.map_take, hl]
          · rw [hy, h2, List.drop_succ_cons, substT_list, substT_list, substT_nilT, substT_nilT, List.map_drop,
              List.map_drop, hl]
    rw [h1, h2, List.range_succ_eq_map, List.countP_cons, List.countP_map]
    simp only [decide_eq_true_eq, Function.comp_def, Nat.succ_eq_add_one]
    omega

/-! the fast path of append/3: a first argument that is a proper list admits a single split -/

open Classical in
theorem unifyAns_length {args : List Term} {a b : Term} (hd : UnifyDefined a b) :
    (unifyAns args a b).length = if Unifiable a b then 1 else 0 := by
  obtain ⟨k1, k2⟩ := unifyM_mgu hd
  unfold unifyAns
  cases hm : unifyM a b with
  | none =>
    have : ¬ Unifiable a b := fun ⟨σ, hσ⟩ => k2 hm σ hσ
    simp [this]
  | some δ =>
    have : Unifiable a b := ⟨δ, (k1 δ hm).1⟩
    simp [this]

theorem countP_range_eq {n k0 : Nat} (p : Nat → Bool) (hk : k0 < n) (hp : ∀ k, k < n → (p k = true ↔ k = k0)) :
    (List.range n).countP p = 1 := by
  have : (List.range n).countP p = (List.range n).countP (fun k => k == k0) := by
    apply List.countP_congr
    intro k hk'
    rw [hp k (List.mem_range.mp hk')]
    simp
  rw [this, ← List.count_eq_countP, List.Nodup.count List.nodup_range]
  simp [hk]

/-- a proper list has the form `[b₁,…,bₙ|t]` only if `t` is the proper list of the remaining elements -/
theorem list_eq_list_tail {as bs : List Term} {t : Term} (h : Term.list as = Term.list bs t) :
    ∃ r, as = bs ++ r ∧ t = Term.list r := by
  have := asList_eq_some_iff.mpr h.symm
  obtain ⟨r, hr, has⟩ := asList_list_tail this
  exact ⟨r, has, asList_eq_some_iff.mp hr⟩

open Classical in
theorem appendAt_list_count (xs : List Term) (y : Term) (zs : List Term) :
    (List.range (zs.length + 1)).countP (fun k => decide (AppendAt (Term.list xs) y zs k)) =
      if Unifiable (Term.list zs) (Term.list xs y) then 1 else 0 := by
  have hb : ∀ k, AppendAt (Term.list xs) y zs k → Unifiable (Term.list zs) (Term.list xs y) := by
    rintro k ⟨σ, h1, h2⟩
    refine ⟨σ, ?_⟩
    rw [substT_list, substT_list, substT_nilT] at h1
    rw [substT_list σ xs y, h2, list_inj_nil h1, substT_list, substT_list, substT_nilT, ← list_append,
      ← List.map_append, List.take_append_drop]
  have ha : ∀ k, k ≤ zs.length → AppendAt (Term.list xs) y zs k → k = xs.length := by
    rintro k hk ⟨σ, h1, _⟩
    rw [substT_list, substT_list, substT_nilT] at h1
    have := congrArg List.length (list_inj_nil h1)
    simp only [List.length_map, List.length_take] at this
    omega
  split
  · rename_i hu
    obtain ⟨σ, hσ⟩ := hu
    rw [substT_list, substT_list, substT_nilT] at hσ
    obtain ⟨r, hr, hy⟩ := list_eq_list_tail hσ
    have hlen : zs.length = xs.length + r.length := by
      have := congrArg List.length hr
      simpa using this
    have hat : AppendAt (Term.list xs) y zs xs.length := by
      refine ⟨σ, ?_, ?_⟩
      · rw [substT_list, substT_list, List.map_take, hr, List.take_left' (by simp)]
      · rw [hy, substT_list, substT_nilT, List.map_drop, hr, List.drop_left' (by simp)]
    apply countP_range_eq (k0 := xs.length) _ (by omega)
    intro k hk
    simp only [decide_eq_true_eq]
    exact ⟨ha k (by omega), fun h => h ▸ hat⟩
  · rename_i hu
    rw [List.countP_eq_zero]
    intro k _ hk
    simp only [decide_eq_true_eq] at hk
    exact hu (hb k hk)

/-- when the unification is defined, "has a common instance" is what `unifyM` decides -/
theorem unifiable_iff_unifyM {a b : Term} (hd : UnifyDefined a b) :
    Unifiable a b ↔ (unifyM a b).isSome = true := by
  obtain ⟨k1, k2⟩ := unifyM_mgu hd
  cases hm : unifyM a b with
  | none => simpa using fun ⟨σ, hσ⟩ => k2 hm σ hσ
  | some δ => simpa using ⟨δ, (k1 δ hm).1⟩

end PrologVerif.Rel
