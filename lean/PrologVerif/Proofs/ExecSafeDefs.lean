/-
  exec_safe — DEFINITIONS: the length-abstract interpretation `safe` of `VM.exec`, and the
  well-formedness invariants of continuations, thunks, promises and states.  The statements and the
  theorems are in `Proofs/ExecSafe.lean`.
-/
import PrologVerif.Model.VM
namespace PrologVerif.ExecSafe
open PrologVerif PrologVerif.VM PrologVerif.Promise

/-- abstract shape of an `astack` entry: how many arguments the outer level holds -/
inductive Shape where
  | get (rest : Nat)
  | put (outer : Nat)
  deriving DecidableEq

def shapeOf : Frame → Shape
  | .get rest => .get rest.length
  | .put outer _ => .put outer.length

/-- abstract interpretation of `exec` on the LENGTHS only: is every access in range until the
    clause exits?  `nvars` = size of the variable table, `nargs` = current length of `args`. -/
def safe : List Op → Nat → Nat → List Shape → Bool
  | [], _, _, _ => false
  | op :: pc, nvars, nargs, st =>
    match op with
    | .getConst _ => nargs ≥ 1 && safe pc nvars (nargs - 1) st
    | .putConst _ => safe pc nvars (nargs + 1) st
    | .getVar i => i < nvars && nargs ≥ 1 && safe pc nvars (nargs - 1) st
    | .putVar i => i < nvars && safe pc nvars (nargs + 1) st
    | .getFunctor _ ar => nargs ≥ 1 && safe pc nvars ar (.get (nargs - 1) :: st)
    | .putFunctor _ _ => safe pc nvars 0 (.put nargs :: st)
    | .pop =>
      match st with
      | .get r :: st' => safe pc nvars r st'
      | .put o :: st' => safe pc nvars (o + 1) st'
      | [] => false
    | .enter => safe pc nvars nargs st
    | .call _ _ => safe pc nvars 0 []      -- the continuation restarts with no args and an empty astack
    | .exit => true
    | .cut => safe pc nvars nargs st
    | .getList l => nargs ≥ 1 && safe pc nvars l (.get (nargs - 1) :: st)
    | .putList _ => safe pc nvars 0 (.put nargs :: st)
    | .getPartial l => nargs ≥ 1 && safe pc nvars (l + 1) (.get (nargs - 1) :: st)
    | .putPartial _ => safe pc nvars 0 (.put nargs :: st)
    | .unsupported _ => true              -- not a panic: reported as "unsupported encoding"

/-- a clause whose code is safe when entered with `arity` arguments -/
def ClauseOK (c : Clause) : Prop := safe c.code c.vars.length c.arity [] = true

/-- "this promise is the residue of a Go panic inside exec" -/
def IsPanic (p : Pr) : Prop := ∃ msg, p.err = some (.goErr msg) ∧ msg.startsWith "panic" = true

/-- well-formedness of everything exec can meet -/
inductive ContOK : Cont → Prop
  | done : ContOK .done
  | exec (pc vars cp k) : safe pc vars.length 0 [] = true → ContOK k → ContOK (.exec pc vars cp k)
  | collect (t mx) : ContOK (.collect t mx)
  | findallK (t s) : ContOK (.findallK t s)
  | catchExit (f k) : ContOK k → ContOK (.catchExit f k)

inductive ThunkOK : Thunk → Prop
  | clause (c args k env parent) : ClauseOK c → args.length = c.arity → ContOK k → ThunkOK (.clause c args k env parent)
  | afterCut (pc vars k args astack env cp) :
      safe pc vars.length args.length (astack.map shapeOf) = true → ContOK k →
      ThunkOK (.afterCut pc vars k args astack env cp)
  | contK (k env) : ContOK k → ThunkOK (.contK k env)
  | exitAltSome (f b k env) : ContOK k → ThunkOK (.exitAlt f b (some k) env)
  | exitAltNone (f b env) : ThunkOK (.exitAlt f b none env)
  | negate (g k env) : ContOK k → ThunkOK (.negate g k env)
  | findall (t g i k env) : ContOK k → ThunkOK (.findall t g i k env)
  | catchBody (g f k env) : ContOK k → ThunkOK (.catchBody g f k env)
  | unifyK (x y k env) : ContOK k → ThunkOK (.unifyK x y k env)
  | betweenNext (l u v k env) : ContOK k → ThunkOK (.betweenNext l u v k env)
  | appendRec (x y z k env) : ContOK k → ThunkOK (.appendRec x y z k env)

def PrOK (p : Pr) : Prop :=
  (∀ t ∈ p.delayed, ThunkOK t) ∧ (∀ h, p.recover = some h → ContOK h.k) ∧ ¬ IsPanic p

/-- every stored clause is safe and stored under its own name/arity -/
def StOK (s : St) : Prop :=
  ∀ f n p, lookupProc s f n = some p → ∀ c ∈ p.clauses, ClauseOK c ∧ c.arity = n

end PrologVerif.ExecSafe
