/-
  Proofs/StreamOrder.lean — "nothing lost, nothing delivered twice" spelled out for the bytes a
  binary stream delivers: the specification's judgement implies that the bytes handed out by the
  get_byte goals are, in program order, a prefix of the source.  Used by C19_bytes_in_order.
-/
import PrologVerif.Spec.Cursor
namespace PrologVerif.Stream
open Spec

variable {σ : Type}

/-- the bytes delivered by the get_byte goals of one query, in program order -/
def gotBytesConj : List Op → List Result → List Nat
  | .getByte :: os, .byte b :: rs => b :: gotBytesConj os rs
  | _ :: os, _ :: rs => gotBytesConj os rs
  | _, _ => []

/-- … of a sequence of queries -/
def gotBytes : List (List Op) → List (List Result) → List Nat
  | q :: qs, r :: rs => gotBytesConj q r ++ gotBytes qs rs
  | _, _ => []

theorem pastAction_idx' (a : EofAction) (cu : Cursor) : (pastAction a cu).2.idx = cu.idx := by
  unfold pastAction; split
  · cases a <;> rfl
  · rfl

/-- the result a passing `check` accepted, for the operations whose result the specification fixes -/
theorem check_exact_getChar (c : SCfg) (sc : Scanner σ) (cu cu' : Cursor) (r : Result)
    (h : Spec.check c sc .getChar cu r = some cu') : Spec.readChar c true cu = (r, cu') := by
  simp only [Spec.check] at h
  split at h
  · rename_i heq; simp at h; rw [heq, ← h]
  · simp at h

theorem check_exact_peekChar (c : SCfg) (sc : Scanner σ) (cu cu' : Cursor) (r : Result)
    (h : Spec.check c sc .peekChar cu r = some cu') : Spec.readChar c false cu = (r, cu') := by
  simp only [Spec.check] at h
  split at h
  · rename_i heq; simp at h; rw [heq, ← h]
  · simp at h

theorem check_exact_getByte (c : SCfg) (sc : Scanner σ) (cu cu' : Cursor) (r : Result)
    (h : Spec.check c sc .getByte cu r = some cu') : Spec.readByte c true cu = (r, cu') := by
  simp only [Spec.check] at h
  split at h
  · rename_i heq; simp at h; rw [heq, ← h]
  · simp at h

theorem check_exact_peekByte (c : SCfg) (sc : Scanner σ) (cu cu' : Cursor) (r : Result)
    (h : Spec.check c sc .peekByte cu r = some cu') : Spec.readByte c false cu = (r, cu') := by
  simp only [Spec.check] at h
  split at h
  · rename_i heq; simp at h; rw [heq, ← h]
  · simp at h

theorem check_exact_readTerm (c : SCfg) (sc : Scanner σ) (cu cu' : Cursor) (r : Result)
    (h : Spec.check c sc .readTerm cu r = some cu') : Spec.readTerm c sc cu = (r, cu') := by
  simp only [Spec.check] at h
  split at h
  · rename_i heq; simp at h; rw [heq, ← h]
  · simp at h

theorem readChar_binary_idx (c : SCfg) (hb : c.typ = .binary) (consume : Bool) (cu : Cursor) :
    (Spec.readChar c consume cu).2.idx = cu.idx := by
  have hpi := pastAction_idx' c.action cu
  unfold Spec.readChar
  split
  · rename_i heq; rw [heq] at hpi; exact hpi
  · rename_i heq; rw [heq] at hpi
    rw [if_pos (by rw [hb]; decide)]; exact hpi

theorem readTerm_binary_idx (c : SCfg) (hb : c.typ = .binary) (sc : Scanner σ) (cu : Cursor) :
    (Spec.readTerm c sc cu).2.idx = cu.idx := by
  have hpi := pastAction_idx' c.action cu
  unfold Spec.readTerm
  split
  · rename_i heq; rw [heq] at hpi; exact hpi
  · rename_i heq; rw [heq] at hpi
    rw [if_pos (by rw [hb]; decide)]; exact hpi

theorem readByte_peek_idx (c : SCfg) (cu : Cursor) : (Spec.readByte c false cu).2.idx = cu.idx := by
  have hpi := pastAction_idx' c.action cu
  unfold Spec.readByte
  split
  · rename_i heq; rw [heq] at hpi; exact hpi
  · rename_i heq; rw [heq] at hpi
    split
    · exact hpi
    · split <;> simpa [advance, deliverEOF] using hpi

/-- get_byte on a binary stream: the byte at the cursor and one step forward, or no step -/
theorem readByte_get_binary (c : SCfg) (hb : c.typ = .binary) (cu : Cursor) :
    (∃ b, (Spec.readByte c true cu).1 = .byte b ∧ c.bytes[cu.idx]? = some b ∧ (Spec.readByte c true cu).2.idx = cu.idx + 1) ∨
    ((∀ b, (Spec.readByte c true cu).1 ≠ .byte b) ∧ (Spec.readByte c true cu).2.idx = cu.idx) := by
  have hpi := pastAction_idx' c.action cu
  unfold Spec.readByte
  split
  · rename_i heq; rw [heq] at hpi
    right; exact ⟨by intro b; simp, hpi⟩
  · rename_i cu1 heq; rw [heq] at hpi
    simp only at hpi
    rw [if_neg (by rw [hb]; decide)]
    cases hx : c.bytes[cu1.idx]? with
    | some x =>
      left
      refine ⟨x, rfl, ?_, ?_⟩
      · rw [← hpi]; exact hx
      · simp [advance, hpi]
    | none =>
      right
      exact ⟨by intro b; simp, by simpa [deliverEOF] using hpi⟩

/-- on a binary stream, an accepted result either is a byte delivered by get_byte — then it is the
    byte at the cursor and the cursor advances by one — or leaves the index where it was -/
theorem check_binary (c : SCfg) (hb : c.typ = .binary) (sc : Scanner σ) (o : Op) (cu cu' : Cursor) (r : Result)
    (h : Spec.check c sc o cu r = some cu') :
    (∃ b, o = .getByte ∧ r = .byte b ∧ c.bytes[cu.idx]? = some b ∧ cu'.idx = cu.idx + 1) ∨
    ((∀ b, ¬ (o = .getByte ∧ r = .byte b)) ∧ cu'.idx = cu.idx) := by
  cases o with
  | getChar =>
    right; refine ⟨by intro b hh; exact absurd hh.1 (by decide), ?_⟩
    have := check_exact_getChar c sc cu cu' r h
    have h2 := readChar_binary_idx c hb true cu
    rw [this] at h2; exact h2
  | peekChar =>
    right; refine ⟨by intro b hh; exact absurd hh.1 (by decide), ?_⟩
    have := check_exact_peekChar c sc cu cu' r h
    have h2 := readChar_binary_idx c hb false cu
    rw [this] at h2; exact h2
  | readTerm =>
    right; refine ⟨by intro b hh; exact absurd hh.1 (by decide), ?_⟩
    have := check_exact_readTerm c sc cu cu' r h
    have h2 := readTerm_binary_idx c hb sc cu
    rw [this] at h2; exact h2
  | peekByte =>
    right; refine ⟨by intro b hh; exact absurd hh.1 (by decide), ?_⟩
    have := check_exact_peekByte c sc cu cu' r h
    have h2 := readByte_peek_idx c cu
    rw [this] at h2; exact h2
  | getByte =>
    have := check_exact_getByte c sc cu cu' r h
    have h2 := readByte_get_binary c hb cu
    rw [this] at h2
    rcases h2 with ⟨b, h3, h4, h5⟩ | ⟨h3, h4⟩
    · left; exact ⟨b, rfl, h3, h4, h5⟩
    · right; exact ⟨by intro b hh; exact h3 b hh.2, h4⟩
  | atEnd =>
    right; refine ⟨by intro b hh; exact absurd hh.1 (by decide), ?_⟩
    simp only [Spec.check] at h
    split at h
    · split at h <;> simp at h; rw [h]
    · split at h <;> simp at h; rw [h]
    · simp at h
  | propPos =>
    right; refine ⟨by intro b hh; exact absurd hh.1 (by decide), ?_⟩
    simp only [Spec.check] at h
    split at h <;> simp at h; rw [h]
  | propEos =>
    right; refine ⟨by intro b hh; exact absurd hh.1 (by decide), ?_⟩
    simp only [Spec.check] at h
    split at h
    · split at h <;> simp at h; rw [h]
    · simp at h

theorem gotBytesConj_cons_other (o : Op) (r : Result) (os : List Op) (rs : List Result)
    (h : ∀ b, ¬ (o = .getByte ∧ r = .byte b)) :
    gotBytesConj (o :: os) (r :: rs) = gotBytesConj os rs := by
  cases o <;> cases r <;> simp_all [gotBytesConj]

theorem take_drop_step (l : List Nat) (i k : Nat) (b : Nat) (hb : l[i]? = some b) (hk : i + 1 ≤ k) :
    (l.drop i).take (k - i) = b :: (l.drop (i + 1)).take (k - (i + 1)) := by
  have hlt : i < l.length := by
    by_cases h : i < l.length
    · exact h
    · have : l[i]? = none := by simp; omega
      rw [this] at hb; exact absurd hb (by simp)
  have hbe : l[i] = b := by
    have := List.getElem?_eq_getElem hlt
    rw [this] at hb; exact Option.some.inj hb
  rw [List.drop_eq_getElem_cons hlt, hbe]
  have : k - i = (k - (i + 1)) + 1 := by omega
  rw [this, List.take_succ_cons]

/-- one query: the bytes its get_byte goals delivered are the source bytes between the cursors -/
theorem judgeConj_bytes (c : SCfg) (hb : c.typ = .binary) (sc : Scanner σ) :
    ∀ (ops : List Op) (rs : List Result) (cu cu' : Cursor), Spec.judgeConj c sc ops rs cu = some cu' →
      cu.idx ≤ cu'.idx ∧ gotBytesConj ops rs = (c.bytes.drop cu.idx).take (cu'.idx - cu.idx) := by
  intro ops
  induction ops with
  | nil =>
    intro rs cu cu' h
    cases rs with
    | nil => simp [Spec.judgeConj] at h; subst h; simp [gotBytesConj]
    | cons r rs => simp [Spec.judgeConj] at h
  | cons o os ih =>
    intro rs cu cu' h
    cases rs with
    | nil => simp [Spec.judgeConj] at h
    | cons r rs =>
      simp only [Spec.judgeConj] at h
      cases hck : Spec.check c sc o cu r with
      | none => simp [hck] at h
      | some cu1 =>
        simp only [hck] at h
        have hrest : cu1.idx ≤ cu'.idx ∧ gotBytesConj os rs = (c.bytes.drop cu1.idx).take (cu'.idx - cu1.idx) := by
          by_cases he : r.isErr = true
          · simp only [he, if_true] at h
            split at h
            · rename_i hrs
              simp at h; subst h; subst hrs
              refine ⟨Nat.le_refl _, ?_⟩
              cases os <;> simp [gotBytesConj]
            · simp at h
          · simp only [he] at h
            exact ih rs cu1 cu' h
        rcases check_binary c hb sc o cu cu1 r hck with ⟨b, ho, hr, hbyte, hidx⟩ | ⟨hno, hidx⟩
        · subst ho; subst hr
          refine ⟨by omega, ?_⟩
          simp only [gotBytesConj]
          rw [hrest.2, hidx]
          exact (take_drop_step c.bytes cu.idx cu'.idx b hbyte (by omega)).symm
        · refine ⟨by omega, ?_⟩
          rw [gotBytesConj_cons_other o r os rs hno, hrest.2, hidx]

theorem take_drop_append (l : List Nat) (i j k : Nat) (h1 : i ≤ j) (h2 : j ≤ k) :
    (l.drop i).take (j - i) ++ (l.drop j).take (k - j) = (l.drop i).take (k - i) := by
  have hj : j = i + (j - i) := by omega
  have : l.drop j = (l.drop i).drop (j - i) := by rw [List.drop_drop]; congr 1
  rw [this]
  have hk : k - i = (j - i) + (k - j) := by omega
  rw [hk, List.take_add]

/-- a sequence of queries -/
theorem judge_bytes (c : SCfg) (hb : c.typ = .binary) (sc : Scanner σ) :
    ∀ (prog : List (List Op)) (rs : List (List Result)) (cu cu' : Cursor), Spec.judge c sc prog rs cu = some cu' →
      cu.idx ≤ cu'.idx ∧ gotBytes prog rs = (c.bytes.drop cu.idx).take (cu'.idx - cu.idx) := by
  intro prog
  induction prog with
  | nil =>
    intro rs cu cu' h
    cases rs with
    | nil => simp [Spec.judge] at h; subst h; simp [gotBytes]
    | cons r rs => simp [Spec.judge] at h
  | cons q qs ih =>
    intro rs cu cu' h
    cases rs with
    | nil => simp [Spec.judge] at h
    | cons r rs =>
      simp only [Spec.judge] at h
      cases hj : Spec.judgeConj c sc q r cu with
      | none => simp [hj] at h
      | some cu1 =>
        simp only [hj] at h
        obtain ⟨l1, e1⟩ := judgeConj_bytes c hb sc q r cu cu1 hj
        obtain ⟨l2, e2⟩ := ih rs cu1 cu' h
        refine ⟨by omega, ?_⟩
        simp only [gotBytes]
        rw [e1, e2]
        exact take_drop_append c.bytes cu.idx cu1.idx cu'.idx l1 l2

end PrologVerif.Stream
