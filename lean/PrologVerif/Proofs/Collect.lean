/-
  Helper lemmas for C11: free variables, renamedCopy / findall, the grouping loop, Env.set.
-/
import PrologVerif.Proofs.CollectVariant
namespace PrologVerif.Collect
open PrologVerif PrologVerif.CollectSpec

/-! ## free variables (engine/variable.go) against ISO 7.1.1.3 / 7.1.1.4 -/

theorem mem_insertVar {v x : Nat} : ∀ {l : List Nat}, v ∈ insertVar x l ↔ v = x ∨ v ∈ l
  | [] => by simp [insertVar]
  | y :: ys => by
    unfold insertVar
    split
    · simp
    · split
      · rename_i h; subst h; simp
      · simp only [List.mem_cons, mem_insertVar (l := ys)]
        constructor
        · rintro (h | h | h) <;> simp [h]
        · rintro (h | h | h) <;> simp [h]

theorem mem_sortVars {v : Nat} : ∀ {l : List Nat}, v ∈ sortVars l ↔ v ∈ l
  | [] => by simp [sortVars]
  | x :: xs => by
    have ih := mem_sortVars (v := v) (l := xs)
    simp only [sortVars, List.foldr_cons] at ih ⊢
    simp [mem_insertVar, ih]

theorem insertVar_sorted {x : Nat} : ∀ {l : List Nat}, l.Pairwise (· < ·) → (insertVar x l).Pairwise (· < ·)
  | [], _ => by simp [insertVar]
  | y :: ys, h => by
    obtain ⟨h1, h2⟩ := List.pairwise_cons.mp h
    unfold insertVar
    split
    · rename_i hxy
      refine List.pairwise_cons.mpr ⟨?_, h⟩
      intro z hz
      rcases List.mem_cons.mp hz with rfl | hz
      · exact hxy
      · exact Nat.lt_trans hxy (h1 z hz)
    · split
      · exact h
      · rename_i hlt hne
        refine List.pairwise_cons.mpr ⟨?_, insertVar_sorted h2⟩
        intro z hz
        rcases mem_insertVar.mp hz with rfl | hz
        · omega
        · exact h1 z hz

theorem sortVars_sorted : ∀ (l : List Nat), (sortVars l).Pairwise (· < ·)
  | [] => by simp [sortVars]
  | x :: xs => by
    have ih := sortVars_sorted xs
    simp only [sortVars, List.foldr_cons] at ih ⊢
    exact insertVar_sorted ih

mutual
  theorem existential_of_mem {v : Nat} : ∀ (t : Term), v ∈ newExistentialVariablesSet t → Existential v t
    | .app f as, h => by
      simp only [newExistentialVariablesSet] at h
      split at h
      · rename_i hf
        subst hf
        obtain ⟨V, G, rfl, hc⟩ := existentialArgs_of_mem as h
        rcases hc with hc | hc
        · exact .here (occurs_iff.mpr hc)
        · exact .there hc
      · simp at h
    | .var _, h => by simp [newExistentialVariablesSet] at h
    | .atom _, h => by simp [newExistentialVariablesSet] at h
    | .int _, h => by simp [newExistentialVariablesSet] at h
    | .flt _, h => by simp [newExistentialVariablesSet] at h
    | .str _, h => by simp [newExistentialVariablesSet] at h
  theorem existentialArgs_of_mem {v : Nat} : ∀ (as : Args), v ∈ existArgs as →
      ∃ V G, as = .cons V (.cons G .nil) ∧ (v ∈ vars V ∨ Existential v G)
    | .cons V (.cons G .nil), h => by
      simp only [existArgs, List.mem_append] at h
      refine ⟨V, G, rfl, ?_⟩
      rcases h with h | h
      · exact Or.inl h
      · exact Or.inr (existential_of_mem G h)
    | .nil, h => by simp [existArgs] at h
    | .cons _ .nil, h => by simp [existArgs] at h
    | .cons _ (.cons _ (.cons _ _)), h => by simp [existArgs] at h
end

theorem mem_of_existential {v : Nat} {t : Term} (h : Existential v t) : v ∈ newExistentialVariablesSet t := by
  induction h with
  | here ho => simp [Term.a2, newExistentialVariablesSet, existArgs, occurs_iff.mp ho]
  | there _ ih => simp [Term.a2, newExistentialVariablesSet, existArgs, ih]

theorem existential_iff {v : Nat} {t : Term} : Existential v t ↔ v ∈ newExistentialVariablesSet t :=
  ⟨mem_of_existential, existential_of_mem t⟩

theorem mem_newFreeVariablesSet {v : Nat} {goal template : Term} :
    v ∈ newFreeVariablesSet goal template ↔ Free v template goal := by
  unfold newFreeVariablesSet Free
  simp only [List.mem_filter, List.mem_append, decide_eq_true_eq, not_or, occurs_iff, existential_iff]

mutual
  theorem iteratedGoalTerm_spec : ∀ (t : Term), IteratedGoal t (iteratedGoalTerm t)
    | .app f as => by
      simp only [iteratedGoalTerm]
      split
      · rename_i hf
        subst hf
        exact iterArgs_spec as
      · rename_i hf
        exact .done (by intro V G h; simp [Term.a2] at h; exact hf h.1)
    | .var _ => by simp only [iteratedGoalTerm]; exact .done (by intro V G h; simp [Term.a2] at h)
    | .atom _ => by simp only [iteratedGoalTerm]; exact .done (by intro V G h; simp [Term.a2] at h)
    | .int _ => by simp only [iteratedGoalTerm]; exact .done (by intro V G h; simp [Term.a2] at h)
    | .flt _ => by simp only [iteratedGoalTerm]; exact .done (by intro V G h; simp [Term.a2] at h)
    | .str _ => by simp only [iteratedGoalTerm]; exact .done (by intro V G h; simp [Term.a2] at h)
  theorem iterArgs_spec : ∀ (as : Args), IteratedGoal (.app "^" as) (iterArgs (.app "^" as) as)
    | .cons V (.cons G .nil) => by
      simp only [iterArgs]
      exact .strip (iteratedGoalTerm_spec G)
    | .nil => by simp only [iterArgs]; exact .done (by intro V G h; simp [Term.a2] at h)
    | .cons _ .nil => by simp only [iterArgs]; exact .done (by intro V G h; simp [Term.a2] at h)
    | .cons _ (.cons _ (.cons _ _)) => by
      simp only [iterArgs]; exact .done (by intro V G h; simp [Term.a2] at h)
end

/-! ## renamedCopy -/

/-- the `copied` map sends distinct variables to distinct fresh variables in `[lo, n)` -/
structure CopyInv (m : CopyMap) (lo n : Nat) : Prop where
  range : ∀ a b, m.lookup a = some b → lo ≤ b ∧ b < n
  inj : ∀ a a' b, m.lookup a = some b → m.lookup a' = some b → a = a'

theorem copyInv_nil (n : Nat) : CopyInv [] n n := ⟨by simp, by simp⟩

structure CopyOut (vs : List Nat) (m : CopyMap) (lo n : Nat) (m' : CopyMap) (n' : Nat) : Prop where
  inv : CopyInv m' lo n'
  mono : n ≤ n'
  ext : ∀ a b, m.lookup a = some b → m'.lookup a = some b
  dom : ∀ a ∈ vs, ∃ b, m'.lookup a = some b

mutual
  theorem renamedCopy_spec : ∀ (t : Term) (m : CopyMap) (lo n : Nat), CopyInv m lo n → lo ≤ n →
      CopyOut (vars t) m lo n (renamedCopy t m n).2.1 (renamedCopy t m n).2.2 ∧
      ∀ ρ, Agrees ρ (renamedCopy t m n).2.1 → rename ρ t = (renamedCopy t m n).1
    | .var v, m, lo, n, hi, hlo => by
      cases hm : m.lookup v with
      | some v' =>
        simp only [renamedCopy, hm]
        exact ⟨⟨hi, Nat.le_refl _, fun _ _ h => h, by simp [hm]⟩, fun ρ hρ => by simp [hρ v v' hm]⟩
      | none =>
        simp only [renamedCopy, hm]
        refine ⟨⟨⟨?_, ?_⟩, Nat.le_succ _, ?_, by simp⟩, fun ρ hρ => by simp [hρ v n (by simp)]⟩
        · intro a b h
          simp only [lookup_cons] at h
          split at h
          · simp at h; omega
          · have := hi.range a b h; omega
        · intro a a' b h h'
          simp only [lookup_cons] at h h'
          split at h <;> split at h'
          · rename_i h1 h2; rw [h1, h2]
          · simp at h; subst h; have := hi.range a' _ h'; omega
          · simp at h'; subst h'; have := hi.range a _ h; omega
          · exact hi.inj a a' b h h'
        · intro a b h
          simp only [lookup_cons]
          split
          · rename_i hav; subst hav; simp [h] at hm
          · exact h
    | .app f as, m, lo, n, hi, hlo => by
      obtain ⟨h1, h2⟩ := renamedCopyArgs_spec as m lo n hi hlo
      simp only [renamedCopy]
      exact ⟨by simpa using h1, fun ρ hρ => by simp [h2 ρ hρ]⟩
    | .atom _, m, lo, n, hi, hlo => by
      simp only [renamedCopy]
      exact ⟨⟨hi, Nat.le_refl _, fun _ _ h => h, by simp⟩, fun _ _ => by simp⟩
    | .int _, m, lo, n, hi, hlo => by
      simp only [renamedCopy]
      exact ⟨⟨hi, Nat.le_refl _, fun _ _ h => h, by simp⟩, fun _ _ => by simp⟩
    | .flt _, m, lo, n, hi, hlo => by
      simp only [renamedCopy]
      exact ⟨⟨hi, Nat.le_refl _, fun _ _ h => h, by simp⟩, fun _ _ => by simp⟩
    | .str _, m, lo, n, hi, hlo => by
      simp only [renamedCopy]
      exact ⟨⟨hi, Nat.le_refl _, fun _ _ h => h, by simp⟩, fun _ _ => by simp⟩
  theorem renamedCopyArgs_spec : ∀ (as : Args) (m : CopyMap) (lo n : Nat), CopyInv m lo n → lo ≤ n →
      CopyOut (varsArgs as) m lo n (renamedCopyArgs as m n).2.1 (renamedCopyArgs as m n).2.2 ∧
      ∀ ρ, Agrees ρ (renamedCopyArgs as m n).2.1 → renameArgs ρ as = (renamedCopyArgs as m n).1
    | .nil, m, lo, n, hi, hlo => by
      simp only [renamedCopyArgs]
      exact ⟨⟨hi, Nat.le_refl _, fun _ _ h => h, by simp⟩, fun _ _ => by simp⟩
    | .cons t ts, m, lo, n, hi, hlo => by
      obtain ⟨h1, h2⟩ := renamedCopy_spec t m lo n hi hlo
      obtain ⟨h3, h4⟩ := renamedCopyArgs_spec ts _ lo _ h1.inv (Nat.le_trans hlo h1.mono)
      simp only [renamedCopyArgs]
      refine ⟨⟨h3.inv, Nat.le_trans h1.mono h3.mono, fun a b h => h3.ext _ _ (h1.ext _ _ h), ?_⟩, ?_⟩
      · intro a ha
        simp at ha
        rcases ha with ha | ha
        · obtain ⟨b, hb⟩ := h1.dom a ha
          exact ⟨b, h3.ext _ _ hb⟩
        · exact h3.dom a ha
      · intro ρ hρ
        have hρ1 : Agrees ρ (renamedCopy t m n).2.1 := fun a b h => hρ a b (h3.ext _ _ h)
        simp [h2 ρ hρ1, h4 ρ hρ]
end

/-- the renaming read off a `copied` map -/
def mapFn (m : CopyMap) : Nat → Nat := fun a => match m.lookup a with | some b => b | none => a

theorem agrees_mapFn (m : CopyMap) : Agrees (mapFn m) m := by
  intro a b h; simp [mapFn, h]

/-- what one call `renamedCopy(t, nil, env)` delivers -/
structure IsCopy (t c : Term) (n n' : Nat) : Prop where
  variant : Variant t c
  fresh : ∀ v ∈ vars c, n ≤ v ∧ v < n'
  mono : n ≤ n'

theorem renamedCopy_fresh_of_out {vs : List Nat} {m m' : CopyMap} {lo n n' : Nat} (h : CopyOut vs m lo n m' n') :
    (∀ a ∈ vs, ∀ b ∈ vs, mapFn m' a = mapFn m' b → a = b) ∧ ∀ a ∈ vs, lo ≤ mapFn m' a ∧ mapFn m' a < n' := by
  constructor
  · intro a ha b hb hab
    obtain ⟨a', ha'⟩ := h.dom a ha
    obtain ⟨b', hb'⟩ := h.dom b hb
    simp only [mapFn, ha', hb'] at hab
    subst hab
    exact h.inv.inj a b a' ha' hb'
  · intro a ha
    obtain ⟨a', ha'⟩ := h.dom a ha
    simp only [mapFn, ha']
    exact h.inv.range a a' ha'

theorem renamedCopy_isCopy (t : Term) (n : Nat) :
    IsCopy t (renamedCopy t [] n).1 n (renamedCopy t [] n).2.2 := by
  obtain ⟨h1, h2⟩ := renamedCopy_spec t [] n n (copyInv_nil n) (Nat.le_refl _)
  obtain ⟨hinj, hrng⟩ := renamedCopy_fresh_of_out h1
  have e := h2 _ (agrees_mapFn _)
  refine ⟨variant_def.mpr ⟨_, hinj, e⟩, ?_, h1.mono⟩
  intro v hv
  rw [← e, vars_rename] at hv
  obtain ⟨a, ha, rfl⟩ := List.mem_map.mp hv
  exact hrng a ha

/-- the collecting loop of FindAll -/
theorem copyAll_spec : ∀ (sols : List Term) (n : Nat),
    n ≤ (copyAll sols n).2 ∧
    (copyAll sols n).1.length = sols.length ∧
    (∀ p ∈ sols.zip (copyAll sols n).1, Variant p.1 p.2) ∧
    (∀ c ∈ (copyAll sols n).1, ∀ v ∈ vars c, n ≤ v ∧ v < (copyAll sols n).2) ∧
    (copyAll sols n).1.Pairwise (fun a b => ∀ v ∈ vars a, v ∉ vars b)
  | [], n => by simp [copyAll]
  | t :: ts, n => by
    have hc := renamedCopy_isCopy t n
    obtain ⟨h1, hl, h2, h3, h4⟩ := copyAll_spec ts (renamedCopy t [] n).2.2
    simp only [copyAll]
    refine ⟨Nat.le_trans hc.mono h1, by simp [hl], ?_, ?_, ?_⟩
    · intro p hp
      simp only [List.zip_cons_cons, List.mem_cons] at hp
      rcases hp with rfl | hp
      · exact hc.variant
      · exact h2 p hp
    · intro c hcm v hv
      rcases List.mem_cons.mp hcm with rfl | hcm
      · have := hc.fresh v hv; omega
      · have := h3 c hcm v hv; have := hc.mono; omega
    · refine List.pairwise_cons.mpr ⟨?_, h4⟩
      intro b hb v hv hvb
      have := hc.fresh v hv
      have := h3 b hb v hvb
      omega

theorem copyAll_length (sols : List Term) (n : Nat) : (copyAll sols n).1.length = sols.length :=
  (copyAll_spec sols n).2.1

/-- `W+T` -/
def plus (p : Term × Term) : Term := Term.a2 "+" p.1 p.2

/-- copying the solutions `W+T` and splitting the copies is `copyPairs` -/
theorem copyAll_plus : ∀ (ps : List (Term × Term)) (n : Nat),
    copyAll (ps.map plus) n = ((copyPairs ps n).1.map plus, (copyPairs ps n).2)
  | [], n => by simp [copyAll, copyPairs]
  | (w, t) :: ps, n => by
    simp only [List.map_cons, copyAll, copyPairs, plus, Term.a2, renamedCopy, renamedCopyArgs]
    rw [copyAll_plus ps]

theorem variant_plus {w t w' t' : Term} (h : Variant (plus (w, t)) (plus (w', t'))) :
    Variant w w' ∧ Variant t t' := by
  obtain ⟨ρ, hinj, e⟩ := variant_def.mp h
  simp [plus, Term.a2] at e hinj
  obtain ⟨e1, e2⟩ := e
  exact ⟨variant_def.mpr ⟨ρ, fun a ha b hb => hinj a (Or.inl ha) b (Or.inl hb), e1⟩,
         variant_def.mpr ⟨ρ, fun a ha b hb => hinj a (Or.inr ha) b (Or.inr hb), e2⟩⟩

theorem vars_plus (p : Term × Term) : vars (plus p) = vars p.1 ++ vars p.2 := by
  simp [plus, Term.a2]

/-! ## the grouping loop -/

structure IsEquivB (test : Term → Term → Bool) : Prop where
  refl : ∀ a, test a a = true
  symm : ∀ a b, test a b = true → test b a = true
  trans : ∀ a b c, test a b = true → test b c = true → test a c = true

structure GroupsOk (test : Term → Term → Bool) (s : List (Term × Term)) (gs : List (List (Term × Term))) : Prop where
  perm : gs.flatten.Perm s
  nonempty : ∀ g ∈ gs, g ≠ []
  order : ∀ g ∈ gs, g.Sublist s
  same : ∀ g ∈ gs, ∀ p ∈ g, ∀ q ∈ g, test p.1 q.1 = true
  different : gs.Pairwise fun g h => ∀ p ∈ g, ∀ q ∈ h, test p.1 q.1 = false

theorem groupsAux_ok {test : Term → Term → Bool} (ht : IsEquivB test) :
    ∀ (fuel : Nat) (s : List (Term × Term)), s.length ≤ fuel → GroupsOk test s (groupsAux test fuel s)
  | fuel, [], _ => by
    cases fuel <;> exact ⟨by simp [groupsAux], by simp [groupsAux], by simp [groupsAux], by simp [groupsAux], by simp [groupsAux]⟩
  | 0, _ :: _, h => by simp at h
  | fuel + 1, (w, t) :: s, h => by
    simp only [groupsAux]
    have hp : s.partition (fun p => test p.1 w) = (s.filter (fun p => test p.1 w), s.filter (fun p => !test p.1 w)) := by
      rw [List.partition_eq_filter_filter]; rfl
    rw [hp]
    simp only
    have hlen : (s.filter (fun p => !test p.1 w)).length ≤ fuel :=
      Nat.le_trans (List.length_filter_le _ _) (by simpa using h)
    have ih := groupsAux_ok ht fuel _ hlen
    have hsub2 : (s.filter (fun p => !test p.1 w)).Sublist ((w, t) :: s) :=
      (List.filter_sublist).trans (List.sublist_cons_self _ _)
    have hhead : ∀ p ∈ (w, t) :: s.filter (fun p => test p.1 w), test p.1 w = true := by
      intro p hp
      rcases List.mem_cons.mp hp with rfl | hp
      · exact ht.refl _
      · exact (List.mem_filter.mp hp).2
    refine ⟨?_, ?_, ?_, ?_, ?_⟩
    · simp only [List.flatten_cons, List.cons_append]
      refine List.Perm.cons _ ?_
      refine (List.Perm.append_left _ ih.perm).trans ?_
      exact List.filter_append_perm _ _
    · intro g hg
      rcases List.mem_cons.mp hg with rfl | hg
      · simp
      · exact ih.nonempty g hg
    · intro g hg
      rcases List.mem_cons.mp hg with rfl | hg
      · exact List.Sublist.cons_cons _ List.filter_sublist
      · exact (ih.order g hg).trans hsub2
    · intro g hg
      rcases List.mem_cons.mp hg with rfl | hg
      · intro p hp q hq
        exact ht.trans _ _ _ (hhead p hp) (ht.symm _ _ (hhead q hq))
      · exact ih.same g hg
    · refine List.pairwise_cons.mpr ⟨?_, ih.different⟩
      intro h hh p hp q hq
      have hq' : q ∈ s.filter (fun p => !test p.1 w) := (ih.order h hh).subset hq
      have hqw : test q.1 w = false := by simpa using (List.mem_filter.mp hq').2
      cases hpq : test p.1 q.1 with
      | false => rfl
      | true =>
        have := ht.trans _ _ _ (ht.symm _ _ hpq) (hhead p hp)
        rw [hqw] at this
        exact absurd this (by simp)

theorem groupsBy_ok {test : Term → Term → Bool} (ht : IsEquivB test) (s : List (Term × Term)) :
    GroupsOk test s (groupsBy test s) :=
  groupsAux_ok ht s.length s (Nat.le_refl _)

theorem variant_isEquivB : IsEquivB variant where
  refl a := (variant_iff a a).mpr (Variant.refl a)
  symm a b h := (variant_iff b a).mpr (Variant.symm ((variant_iff a b).mp h))
  trans a b c h1 h2 := (variant_iff a c).mpr (Variant.trans ((variant_iff a b).mp h1) ((variant_iff b c).mp h2))

/-! ## Env.set -/

section SetLemmas
variable {α : Type} {cmp : α → α → Ordering}

theorem mem_insertSorted {x y : α} : ∀ {l : List α}, y ∈ insertSorted cmp x l ↔ y = x ∨ y ∈ l
  | [] => by simp [insertSorted]
  | z :: zs => by
    unfold insertSorted
    split
    · simp
    · simp only [List.mem_cons, mem_insertSorted (l := zs)]
      constructor
      · rintro (h | h | h) <;> simp [h]
      · rintro (h | h | h) <;> simp [h]

theorem mem_sortBy {y : α} : ∀ {l : List α}, y ∈ sortBy cmp l ↔ y ∈ l
  | [] => by simp [sortBy]
  | x :: xs => by
    have ih := mem_sortBy (y := y) (l := xs)
    simp only [sortBy, List.foldr_cons] at ih ⊢
    simp [mem_insertSorted, ih]

/-- `a ≤ b` in the order given by `cmp` -/
def Le (cmp : α → α → Ordering) (a b : α) : Prop := cmp a b ≠ .gt

theorem le_of_not_lt (h : IsTotalOrder cmp) {a b : α} (hab : cmp a b ≠ .lt) : Le cmp b a := by
  intro hgt
  exact hab ((h.gt_iff b a).mp hgt)

theorem le_trans' (h : IsTotalOrder cmp) {a b c : α} (h1 : Le cmp a b) (h2 : Le cmp b c) : Le cmp a c := by
  unfold Le at *
  cases hab : cmp a b with
  | gt => exact absurd hab h1
  | eq => have := (h.eq_iff a b).mp hab; subst this; exact h2
  | lt =>
    cases hbc : cmp b c with
    | gt => exact absurd hbc h2
    | eq => have := (h.eq_iff b c).mp hbc; subst this; simp [hab]
    | lt => simp [h.trans a b c hab hbc]

theorem insertSorted_sorted (h : IsTotalOrder cmp) {x : α} :
    ∀ {l : List α}, l.Pairwise (Le cmp) → (insertSorted cmp x l).Pairwise (Le cmp)
  | [], _ => by simp [insertSorted]
  | y :: ys, hl => by
    obtain ⟨h1, h2⟩ := List.pairwise_cons.mp hl
    unfold insertSorted
    split
    · rename_i hxy
      refine List.pairwise_cons.mpr ⟨?_, hl⟩
      have hxy' : Le cmp x y := by unfold Le; simp [hxy]
      intro z hz
      rcases List.mem_cons.mp hz with rfl | hz
      · exact hxy'
      · exact le_trans' h hxy' (h1 z hz)
    · rename_i hxy
      refine List.pairwise_cons.mpr ⟨?_, insertSorted_sorted h h2⟩
      intro z hz
      rcases mem_insertSorted.mp hz with rfl | hz
      · exact le_of_not_lt h hxy
      · exact h1 z hz

theorem sortBy_sorted (h : IsTotalOrder cmp) : ∀ (l : List α), (sortBy cmp l).Pairwise (Le cmp)
  | [] => by simp [sortBy]
  | x :: xs => by
    have ih := sortBy_sorted h xs
    simp only [sortBy, List.foldr_cons] at ih ⊢
    exact insertSorted_sorted h ih

theorem dedupFrom_spec (h : IsTotalOrder cmp) : ∀ (ts : List α) (last : α),
    (∀ t ∈ ts, Le cmp last t) → ts.Pairwise (Le cmp) →
    (∀ t ∈ dedupFrom cmp last ts, cmp last t = .lt) ∧
    (dedupFrom cmp last ts).Pairwise (fun a b => cmp a b = .lt) ∧
    (∀ x, x ∈ dedupFrom cmp last ts ∨ x = last ↔ x ∈ ts ∨ x = last)
  | [], last, _, _ => by simp [dedupFrom]
  | t :: ts, last, hle, hs => by
    obtain ⟨hs1, hs2⟩ := List.pairwise_cons.mp hs
    unfold dedupFrom
    split
    · rename_i heq
      have : last = t := (h.eq_iff _ _).mp heq
      subst this
      obtain ⟨i1, i2, i3⟩ := dedupFrom_spec h ts last (fun u hu => hle u (by simp [hu])) hs2
      refine ⟨i1, i2, ?_⟩
      intro x
      rw [i3 x]
      simp only [List.mem_cons]
      constructor
      · rintro (h | h) <;> simp [h]
      · rintro ((h | h) | h) <;> simp [h]
    · rename_i hne
      have hlt : cmp last t = .lt := by
        have := hle t (by simp)
        unfold Le at this
        cases hc : cmp last t with
        | lt => rfl
        | eq => exact absurd hc hne
        | gt => exact absurd hc this
      obtain ⟨i1, i2, i3⟩ := dedupFrom_spec h ts t hs1 hs2
      refine ⟨?_, ?_, ?_⟩
      · intro u hu
        rcases List.mem_cons.mp hu with rfl | hu
        · exact hlt
        · exact h.trans _ _ _ hlt (i1 u hu)
      · exact List.pairwise_cons.mpr ⟨i1, i2⟩
      · intro x
        simp only [List.mem_cons]
        have := i3 x
        constructor
        · rintro ((h | h) | h)
          · simp [h]
          · rcases this.mp (Or.inl h) with h | h <;> simp [h]
          · simp [h]
        · rintro ((h | h) | h)
          · simp [h]
          · rcases this.mpr (Or.inl h) with h | h <;> simp [h]
          · simp [h]

/-- `Env.set` returns the sorted, duplicate-free list of the elements -/
theorem set_isSetOf (h : IsTotalOrder cmp) (l : List α) : IsSetOf cmp l (set cmp l) := by
  unfold set
  have hs := sortBy_sorted h l
  cases hl : sortBy cmp l with
  | nil =>
    have : ∀ x, x ∉ l := by intro x hx; have := (mem_sortBy (cmp := cmp)).mpr hx; simp [hl] at this
    exact ⟨by simp [dedupAdj], by intro x; simp [dedupAdj, this x]⟩
  | cons x xs =>
    rw [hl] at hs
    obtain ⟨hs1, hs2⟩ := List.pairwise_cons.mp hs
    obtain ⟨i1, i2, i3⟩ := dedupFrom_spec h xs x hs1 hs2
    refine ⟨?_, ?_⟩
    · simp only [dedupAdj]
      exact List.pairwise_cons.mpr ⟨i1, i2⟩
    · intro y
      have hm : y ∈ l ↔ y ∈ x :: xs := by rw [← hl]; exact mem_sortBy.symm
      rw [hm]
      simp only [dedupAdj, List.mem_cons]
      have := i3 y
      constructor
      · rintro (h | h)
        · simp [h]
        · rcases this.mp (Or.inl h) with h | h <;> simp [h]
      · rintro (h | h)
        · simp [h]
        · rcases this.mpr (Or.inl h) with h | h <;> simp [h]

/-! the sort only looks at keys: sorting (key, term) pairs by key and projecting the keys is sorting the keys -/

variable {β : Type} (f : β → α)

theorem insertSorted_map (x : β) : ∀ (l : List β),
    (insertSorted (fun a b => cmp (f a) (f b)) x l).map f = insertSorted cmp (f x) (l.map f)
  | [] => by simp [insertSorted]
  | y :: ys => by
    unfold insertSorted
    simp only [List.map_cons]
    split
    · simp
    · simp [insertSorted_map x ys]

theorem sortBy_map : ∀ (l : List β), (sortBy (fun a b => cmp (f a) (f b)) l).map f = sortBy cmp (l.map f)
  | [] => by simp [sortBy]
  | x :: xs => by
    have ih := sortBy_map xs
    simp only [sortBy, List.foldr_cons, List.map_cons] at ih ⊢
    rw [insertSorted_map, ih]

theorem dedupFrom_map : ∀ (l : List β) (last : β),
    (dedupFrom (fun a b => cmp (f a) (f b)) last l).map f = dedupFrom cmp (f last) (l.map f)
  | [], _ => by simp [dedupFrom]
  | y :: ys, last => by
    unfold dedupFrom
    simp only [List.map_cons]
    split
    · exact dedupFrom_map ys last
    · simp [dedupFrom_map ys y]

theorem set_map (l : List β) : (set (fun a b => cmp (f a) (f b)) l).map f = set cmp (l.map f) := by
  unfold set
  rw [← sortBy_map]
  cases sortBy (fun a b => cmp (f a) (f b)) l with
  | nil => simp [dedupAdj]
  | cons x xs => simp [dedupAdj, dedupFrom_map]

theorem mem_dedupFrom {y : β} {c : β → β → Ordering} : ∀ {l : List β} {last : β}, y ∈ dedupFrom c last l → y ∈ l
  | [], _, h => by simp [dedupFrom] at h
  | t :: ts, last, h => by
    unfold dedupFrom at h
    split at h
    · exact List.mem_cons_of_mem _ (mem_dedupFrom h)
    · rcases List.mem_cons.mp h with rfl | h
      · simp
      · exact List.mem_cons_of_mem _ (mem_dedupFrom h)

theorem mem_of_mem_set {y : β} {c : β → β → Ordering} {l : List β} (h : y ∈ set c l) : y ∈ l := by
  unfold set at h
  rw [← mem_sortBy (cmp := c)]
  cases hl : sortBy c l with
  | nil => simp [hl, dedupAdj] at h
  | cons x xs =>
    simp only [hl, dedupAdj] at h
    rcases List.mem_cons.mp h with rfl | h
    · simp
    · exact List.mem_cons_of_mem _ (mem_dedupFrom h)

end SetLemmas

theorem pairwise_mem_cases {α : Type} {R : α → α → Prop} : ∀ {l : List α}, l.Pairwise R →
    ∀ a ∈ l, ∀ b ∈ l, a = b ∨ R a b ∨ R b a
  | [], _, a, ha, _, _ => by simp at ha
  | x :: l, h, a, ha, b, hb => by
    obtain ⟨h1, h2⟩ := List.pairwise_cons.mp h
    rcases List.mem_cons.mp ha with ha' | ha' <;> rcases List.mem_cons.mp hb with hb' | hb'
    · exact Or.inl (ha'.trans hb'.symm)
    · exact Or.inr (Or.inl (ha' ▸ h1 b hb'))
    · exact Or.inr (Or.inr (hb' ▸ h1 a ha'))
    · exact pairwise_mem_cases h2 a ha' b hb'

end PrologVerif.Collect
