package main

// C06: text written by writeq / write_canonical / write_term(quoted(true)) reads back as the same term.
//
//   c06.lex      arbitrary text -> the real lexer's token sequence (tie of Model/Lexer.lean, shared with C05)
//   c06.atoms    atom text -> needQuoted, quote, writeq text, its tokens, the atom read back
//   c06.numbers  integers / floats / numeric text -> writeq text, number_codes / number_chars both ways, read back
//   c06.terms    op/3 history x double_quotes x writer -> written text, term read back with the same table

import (
	"bytes"
	"fmt"
	"math"
	"math/big"
	"math/rand"
	"sort"
	"strconv"
	"strings"
	"sync"
	"unicode"
	"unicode/utf8"

	"github.com/ichiban/prolog"
	"github.com/ichiban/prolog/engine"
)

func init() {
	register(&stream{name: "c06.lex", gen: genC06Lex, run: runC06Lex})
	register(&stream{name: "c06.atoms", gen: genC06Atoms, run: runC06Atoms})
	register(&stream{name: "c06.numbers", gen: genC06Numbers, run: runC06Numbers})
	register(&stream{name: "c06.terms", gen: genC06Terms, run: runC06Terms})
	register(&stream{name: "c06.shared", gen: genC06Shared, run: runC06Shared})
}

// ---------------------------------------------------------------------------------------------
// alphabets
// ---------------------------------------------------------------------------------------------

// one or more representatives of every class lexer.go distinguishes
var c06ClassChars = []rune{
	'a', 'z', 'e', 'x', 'b', 'o', 'n', // small letters (with the ones that matter after 0 and \)
	'A', 'Z', 'E', '_', // capital letters, underscore
	'0', '1', '7', '8', '9', // digits
	'#', '$', '&', '*', '+', '-', '.', '/', ':', '<', '=', '>', '?', '@', '^', '~', '\\', // graphic
	'!', '(', ')', ',', ';', '[', ']', '{', '}', '|', '%', // solo
	'\'', '"', '`', // quotes
	' ', '\t', '\n', '\r', '\v', '\f', // layout
	0, 1, 7, 8, 27, 127, // control
	0x85, 0xA0, 0x2028, 0x3000, // non-ASCII space
	'é', 'ß', 'µ', 'ª', 0x3042 /* あ */, 0x6F22 /* 漢 */, 0x2170, /* small roman numeral: Nl */
	'É', 'Σ', 0x01C5 /* Dž titlecase */, 0x2160, /* roman numeral one: Nl, Other_Uppercase */
	0x2200 /* ∀ */, 0x22FF, 0x2A00, 0x2AFF, 0x21FF, 0x2300, // maths operators and neighbours
	0x20AC /* € */, 0xA3 /* £ */, 0x0301 /* combining acute */, 0x0660 /* arabic-indic digit */, 0x1F600, /* emoji */
	0xFFFD, 0xFEFF, 0x10FFFF, 0xD7FF, 0xE000,
}

// the ~40-character alphabet for exhaustive pairs
var c06PairChars = []rune{
	'a', 'e', 'x', 'b', 'A', '_', '0', '1', '8', '+', '-', '.', '/', '*', ':', '\\', '!', '(', ')', ',', ';', '[', ']', '{', '}', '|', '%',
	'\'', '"', '`', ' ', '\n', '\t', 0, 127, 0x85, 'é', 'Σ', 0x2200, 0x20AC,
}

func randRune(r *rand.Rand) rune {
	switch k := r.Intn(20); {
	case k < 14:
		return pick(r, c06ClassChars)
	case k < 17:
		return rune(r.Intn(128))
	case k < 19:
		return rune(0x80 + r.Intn(0x3000))
	default:
		for {
			c := rune(r.Intn(utf8.MaxRune + 1))
			if c < 0xD800 || c > 0xDFFF {
				return c
			}
		}
	}
}

func randText(r *rand.Rand, maxLen int) string {
	n := r.Intn(maxLen + 1)
	var sb strings.Builder
	for i := 0; i < n; i++ {
		sb.WriteRune(randRune(r))
	}
	return sb.String()
}

// token-shaped fragments the lexer has special paths for
var c06Fragments = []string{
	"0'", "0''", "0'''", "0'a", "0' ", "0'\\n", "0'\\", "0'\\\n", "0'\\x41\\", "0'\\101\\", "0b", "0b1", "0b2", "0o", "0o7", "0o8", "0x", "0xf", "0xg", "0X1",
	"1.", "1.e", "1.5", "1.5e", "1.5e+", "1.5e+3", "1.5E-3", "1.5e3", "1.5ex", "1.5e+x", "1.e5", "12", "0.0", "00", "1.5.", "1..2", "1.5e3e",
	"'", "''", "'a'", "'a''b'", "'\\", "'\\\n'", "'\\x", "'\\x41", "'\\x41\\'", "'\\xg\\'", "'\\101\\'", "'\\8\\'", "'\\108\\'", "'\\q'", "'\\xfffd\\'", "'\\x110000\\'",
	"'\\xd800\\'", "'\\x7fffffff\\'", "'\\x80000000\\'", "'\\\\'", "'\\''", "'\\\"'", "'\\`'", "'\\e'", "'\\s'", "'\t'", "'\n'",
	"\"", "\"\"", "\"a\"\"b\"", "\"\\", "\"\\\n\"", "\"\\x41\\\"", "\"\\q\"", "\"\n\"", "\"\\xfffd\\\"",
	"/*", "/**/", "/* */", "/* * /", "/***/", "/*/", "/", "//", "/ *", "*/", "%", "%\n", "% c\n", "% c",
	".", ". ", ".a", ".%", "..", ".\n", "a.", "a. ", "a.b", "=..", "[]", "[ ]", "{}", "{ }", "(", " (", "a(", "a (", "_", "_a1", "A_b", "aB_1",
	"foo", "[-", "- 1", "-1", "- (1)", "a:-b", "\\+a", "\\", "é", "Σx", "∀", "€", " ", "\t", "\n", "x\x00y",
}

func genC06Text(r *rand.Rand) string {
	switch k := r.Intn(10); {
	case k < 3:
		return randText(r, 10)
	case k < 5:
		return pick(r, c06Fragments) + randText(r, 3)
	case k < 7:
		return randText(r, 3) + pick(r, c06Fragments)
	case k < 9:
		return pick(r, c06Fragments) + pick(r, c06Fragments)
	default:
		return randText(r, 2) + pick(r, c06Fragments) + randText(r, 2) + pick(r, c06Fragments)
	}
}

// c06Boundaries: the first and last code point of every range (and the neighbours just outside) of every character
// class the lexer distinguishes or could be confused with, computed from the tables of Go's package unicode (the
// same tables the real lexer consults; the Lean side has them as an oracle parameter, regenerated into
// Generated/Unicode.lean, so these cases are what ties the two): Ll|Lo|Lm (small letter), each of Ll, Lo, Lm
// (unicode.IsLower is Ll-like: a writer deciding with it disagrees with the lexer exactly on Lo and Lm), IsUpper,
// Lt, Nd, Nl, Mn, IsSpace, the two maths-operator blocks, the surrogate gap.
var c06BoundaryCache []rune

func c06Boundaries() []rune {
	if c06BoundaryCache != nil {
		return c06BoundaryCache
	}
	preds := []func(rune) bool{
		func(r rune) bool { return unicode.In(r, unicode.Ll, unicode.Lo, unicode.Lm) },
		func(r rune) bool { return unicode.Is(unicode.Ll, r) },
		func(r rune) bool { return unicode.Is(unicode.Lo, r) },
		func(r rune) bool { return unicode.Is(unicode.Lm, r) },
		unicode.IsUpper, unicode.IsLower, unicode.IsSpace,
		func(r rune) bool { return unicode.Is(unicode.Lt, r) },
		func(r rune) bool { return unicode.Is(unicode.Nd, r) },
		func(r rune) bool { return unicode.Is(unicode.Nl, r) },
		func(r rune) bool { return unicode.Is(unicode.Mn, r) },
		func(r rune) bool { return (r >= 0x2200 && r <= 0x22FF) || (r >= 0x2A00 && r <= 0x2AFF) },
	}
	set := map[rune]bool{0xD7FF: true, 0xE000: true, unicode.MaxRune: true}
	for _, p := range preds {
		prev := false
		for r := rune(0); r <= unicode.MaxRune; r++ {
			if r >= 0xD800 && r <= 0xDFFF {
				continue
			}
			c := p(r)
			if c != prev {
				if r > 0 && !(r-1 >= 0xD800 && r-1 <= 0xDFFF) {
					set[r-1] = true
				}
				set[r] = true
			}
			prev = c
		}
	}
	for r := range set {
		c06BoundaryCache = append(c06BoundaryCache, r)
	}
	sort.Slice(c06BoundaryCache, func(i, j int) bool { return c06BoundaryCache[i] < c06BoundaryCache[j] })
	return c06BoundaryCache
}

// names whose first character belongs to a class where a writer and the lexer could disagree
var c06ClassNames = []string{"日本", "本", "א", "ב", "ب", "は", "ʰ", "ːa", "ªb", "é1", "λx", "ß", "É", "Σx", "ǅ", "ǅa", "٣", "３", "３x", "ⅰ", "Ⅰ", "e\u0301", "a\u0301b",
	"∀", "∀x", "€", "±", "_日", "x日", "日x1", "日_1", "日A", "a日", "ʰʰ", "1日", "日本語"}

// exhaustive small scopes shared by c06.lex and c06.atoms
func c06Exhaustive(tier string) []string {
	var out []string
	out = append(out, "")
	for c := rune(0); c < 0x250; c++ { // all of ASCII, Latin-1, Latin Extended-A/B
		out = append(out, string(c))
	}
	for _, c := range c06ClassChars {
		out = append(out, string(c))
	}
	out = append(out, c06ClassNames...)
	for _, a := range c06PairChars {
		for _, b := range c06PairChars {
			out = append(out, string(a)+string(b))
		}
	}
	// every class boundary of the unicode tables: alone, continuing a name / a variable, starting a name
	for _, c := range c06Boundaries() {
		out = append(out, string(c), "a"+string(c), "_"+string(c), string(c)+"a")
	}
	if tier == "thorough" {
		small := []rune{'a', 'A', '0', '1', '.', '/', '*', '-', '\'', '\\', '"', ' ', '\n', '(', 'e', 'x', '%', '+'}
		for _, a := range small {
			for _, b := range small {
				for _, c := range small {
					out = append(out, string(a)+string(b)+string(c))
				}
			}
		}
	}
	return out
}

// ---------------------------------------------------------------------------------------------
// c06.lex
// ---------------------------------------------------------------------------------------------

func genC06Lex(r *rand.Rand, n int, tier string) []string {
	var out []string
	for _, s := range c06Exhaustive(tier) {
		out = append(out, encName(s))
	}
	for _, f := range c06Fragments {
		out = append(out, encName(f), encName(f+" "), encName(f+"a"), encName(f+"."))
	}
	for _, c := range c06Boundaries() {
		out = append(out, encName("'"+string(c)+"'"), encName("0'"+string(c)), encName("1"+string(c)), encName("mod"+string(c)+"b"), encName("+"+string(c)))
	}
	for i := 0; i < n; i++ {
		out = append(out, encName(genC06Text(r)))
	}
	return out
}

func tokensWire(text string) (string, int, map[string]bool) {
	toks, errText := engine.VerifTokens(text)
	kinds := map[string]bool{}
	var sb strings.Builder
	for _, t := range toks {
		k := strings.ReplaceAll(t.Kind, " ", "_")
		kinds[k] = true
		fmt.Fprintf(&sb, "%s=%s ", k, encName(t.Val))
	}
	sb.WriteString("!" + encName(errText))
	return sb.String(), len(toks), kinds
}

func runC06Lex(payload string) string {
	text, err := decName(payload)
	must(err)
	w, n, kinds := tokensWire(text)
	nt := 0
	if n >= 2 || kinds["invalid"] || kinds["quoted"] || kinds["float_number"] || kinds["double_quoted_list"] {
		nt = 1
	}
	ks := make([]string, 0, len(kinds))
	for k := range kinds {
		ks = append(ks, k)
	}
	sort.Strings(ks)
	first := "none"
	if len(ks) > 0 {
		first = ks[0]
	}
	return w + fmt.Sprintf(" ### nt=%d ntok=%d akind=%s", nt, minInt(n, 6), first)
}

func minInt(a, b int) int {
	if a < b {
		return a
	}
	return b
}

// ---------------------------------------------------------------------------------------------
// interpreters for the stateless streams
// ---------------------------------------------------------------------------------------------

var c06Pool = sync.Pool{New: func() interface{} {
	return prolog.New(strings.NewReader(""), &bytes.Buffer{})
}}

// writeWith runs goal(Stream, T) on an in-memory output stream and returns the text.
func c06Write(vm *engine.VM, goal string, t engine.Term, extra ...engine.Term) (string, string) {
	var buf bytes.Buffer
	s := engine.NewOutputTextStream(&buf)
	args := append([]engine.Term{s, t}, extra...)
	r := solveOnce(vm, compound(goal, args...))
	return buf.String(), r
}

// c06Read runs read_term(S, X, []) on the text and returns the canonical wire form of X.
func c06Read(vm *engine.VM, text string) string {
	s := engine.NewInputTextStream(strings.NewReader(text))
	x := engine.NewVariable()
	rows, err := solveAll(vm, compound("read_term", s, x, atom("[]")), x, 1)
	if err != nil {
		return "err"
	}
	if len(rows) == 0 {
		return "fail"
	}
	return rows[0]
}

// c06Query runs goal and returns the wire form of x for the first answer.
func c06Query(vm *engine.VM, goal engine.Term, x engine.Term) string {
	rows, err := solveAll(vm, goal, x, 1)
	if err != nil {
		return "err"
	}
	if len(rows) == 0 {
		return "fail"
	}
	return rows[0]
}

// ---------------------------------------------------------------------------------------------
// c06.atoms
// ---------------------------------------------------------------------------------------------

var c06AtomWords = append(append([]string{}, c06ClassNames...), []string{"[]", "{}", "[ ]", "{ }", "[]a", "a[]", "-", "+", "- ", "--", "-->", ":-", "?-", "\\+", "is", "mod", "dynamic", "e", "E", "end_of_file",
	"hello world", "don't", "a\\b", "a\nb", "\a\b\f\n\r\t\v", "/*", "/**/a", "/* */", "%", "a%", "% a", ".", "..", ".a", "a.b", ". ", "=..", "0", "0a", "a0", "_", "_a", "Aa", "aA",
	"'", "''", "'a'", "\"", "\"a\"", "`", "``", "\\", "\\\\", " ", "  ", " a", "a ", ",", "|", "||", ";", "!", "!!", ";;", "a;", "(", ")", "()", "a(", "0'a", "0x1", "1.0", "1e5", "€", "a€", "€a", "é", "éa", "Σ", "aΣ",
	"∀", "∀+", "+∀", "∀a", "\u0085", "a\u0085b", "\u00a0", "\ufffd", "a\ufffdb", "😀", "e\u0301", "\x00", "a\x00b", "\x7f", "$VAR", "$", "#", "&", "@", "^", "~", "?", "<", ">", "=", ":", "*", "/", "//", "/\\", "\\/"}...)

func genC06Atoms(r *rand.Rand, n int, tier string) []string {
	var out []string
	for _, s := range c06Exhaustive(tier) {
		out = append(out, encName(s))
	}
	for _, s := range c06AtomWords {
		out = append(out, encName(s))
	}
	for i := 0; i < n; i++ {
		switch k := r.Intn(10); {
		case k < 4:
			out = append(out, encName(randText(r, 8)))
		case k < 6:
			out = append(out, encName(pick(r, c06AtomWords)+randText(r, 2)))
		case k < 8:
			out = append(out, encName(randText(r, 2)+pick(r, c06AtomWords)))
		default:
			out = append(out, encName(genC06Text(r)))
		}
	}
	return out
}

func runC06Atoms(payload string) string {
	text, err := decName(payload)
	must(err)
	i := c06Pool.Get().(*prolog.Interpreter)
	defer c06Pool.Put(i)
	nq := 0
	if engine.VerifNeedQuoted(text) {
		nq = 1
	}
	q := engine.VerifQuote(text)
	w, wr := c06Write(&i.VM, "writeq", atom(text))
	if wr != "true" {
		w = "!" + wr
	}
	toks, _, _ := tokensWire(w + " .")
	rb := c06Read(&i.VM, w+" .")
	class := "unquoted"
	switch {
	case nq == 1 && strings.ContainsRune(q, '\\'):
		class = "escaped"
	case nq == 1:
		class = "quoted"
	}
	ascii := 1
	for _, c := range text {
		if c >= 0x80 {
			ascii = 0
		}
	}
	nt := 0
	if nq == 1 || utf8.RuneCountInString(text) >= 2 {
		nt = 1
	}
	return fmt.Sprintf("nq=%d q=%s w=%s toks=[%s] rb=%s ### nt=%d class=%s ascii=%d len=%d", nq, encName(q), encName(w), toks, rb, nt, class, ascii, minInt(utf8.RuneCountInString(text), 9))
}

// ---------------------------------------------------------------------------------------------
// c06.numbers
// ---------------------------------------------------------------------------------------------

var c06IntGrid = []int64{0, 1, -1, 2, -2, 7, 8, 9, 10, -10, 11, 99, 100, 101, 255, 256, 999, 1000, 65535, 65536, 1<<31 - 1, 1 << 31, -(1 << 31), 1<<32 - 1, 1 << 32,
	1<<53 - 1, 1 << 53, 1<<53 + 1, 999999999999999999, 1000000000000000000, 1<<62 - 1, 1 << 62, 1<<62 + 1, math.MaxInt64 - 1, math.MaxInt64, math.MinInt64, math.MinInt64 + 1,
	-999999999999999999, -1000000000000000000, 9007199254740993, 9223372036854775806}

var c06NumTexts = []string{"0", "-0", "- 0", "-  1", "- 1", "'-'1", "'-' 1", "+1", "1 ", " 1", "1.", "1.0", "1.0 ", "-1.0", "- 1.0", "0x1F", "0xff", "-0x10", "0o17", "0b101", "0'a", "0''", "0'''", "0'\\n", "- 0'a",
	"1e5", "1.0e5", "1.0e+5", "1.0E-5", "1.0e", "1.0e+", "1.5e400", "1.0e-400", "9223372036854775807", "9223372036854775808", "-9223372036854775808", "-9223372036854775809", "18446744073709551616",
	"18446744073709551617", "36893488147419103232", "00012", "1_000", "1 2", "a", "", "-", "--1", "- -1", "1-", "/*c*/1", "% c\n1", "1/*c*/", "0.1", "0.01779860557410619", "-3.093740475959345e+06",
	"4.9e-324", "2.4703282292062327e-324", "2.4703282292062328e-324", "1.7976931348623157e308", "1.7976931348623159e308", "0.30000000000000004", "123456789012345678901234567890.0", "0.000000000000000000000000000001"}

func randFloatBits(r *rand.Rand) uint64 {
	for {
		var b uint64
		switch k := r.Intn(12); {
		case k < 4:
			b = r.Uint64()
		case k < 6: // subnormals and the smallest normals
			b = r.Uint64()&(1<<53-1) | (r.Uint64() & (1 << 63))
		case k < 7: // powers of two +- a few ulps
			e := uint64(r.Intn(2047))
			b = e<<52 + uint64(r.Intn(7)) - 3
		case k < 8: // powers of ten +- a few ulps
			f := math.Pow(10, float64(r.Intn(617)-308))
			b = math.Float64bits(f) + uint64(r.Intn(7)) - 3
		case k < 9: // small integers and simple fractions
			f := float64(r.Intn(2001)-1000) / float64(pick(r, []int{1, 2, 4, 5, 8, 10, 100, 1000, 3, 7}))
			b = math.Float64bits(f)
		case k < 10: // integers around 2^53 and 1e15..1e22 (where 'g' switches to exponents)
			f := math.Pow(10, float64(14+r.Intn(9))) + float64(r.Intn(5)-2)
			b = math.Float64bits(f)
		case k < 11: // values whose shortest representation is short
			f, _ := strconv.ParseFloat(fmt.Sprintf("%d.%de%d", r.Intn(10), r.Intn(1000), r.Intn(600)-300), 64)
			b = math.Float64bits(f)
		default: // extremes
			b = pick(r, []uint64{0, 1 << 63, 1, 2, 1<<52 - 1, 1 << 52, 1<<52 + 1, 0x7FEFFFFFFFFFFFFF, 0x7FEFFFFFFFFFFFFE, 0x3FF0000000000000, 0xBFF0000000000000, 0x3FB999999999999A})
		}
		f := math.Float64frombits(b)
		if !math.IsNaN(f) && !math.IsInf(f, 0) {
			return b
		}
	}
}

// midpointText returns a decimal just above / below / exactly at the midpoint between two adjacent floats:
// the inputs on which a reader that rounds twice goes wrong.
func midpointText(r *rand.Rand) string {
	b := r.Uint64() & (1<<63 - 1)
	if r.Intn(3) == 0 {
		b &= 1<<56 - 1 // subnormal and small
	}
	f := math.Float64frombits(b)
	g := math.Float64frombits(b + 1)
	if math.IsNaN(f) || math.IsInf(g, 0) || math.IsNaN(g) || f == 0 {
		return "1.5"
	}
	// midpoint exactly, as a big decimal: (f+g)/2 is exact in big.Float with enough precision
	mid := new(bigFloat).midpoint(f, g)
	digits := 30 + r.Intn(20)
	s := mid.text(digits)
	// perturb the last digit so that the text lies just above or below the midpoint, or keep the (truncated) text
	switch r.Intn(3) {
	case 0:
		s = bumpLastDigit(s, +1)
	case 1:
		s = bumpLastDigit(s, -1)
	}
	return s
}

func genC06Numbers(r *rand.Rand, n int, tier string) []string {
	var out []string
	for _, i := range c06IntGrid {
		out = append(out, fmt.Sprintf("int %d", i))
	}
	for _, t := range c06NumTexts {
		out = append(out, "txt "+encName(t))
	}
	for k := 0; k < n; k++ {
		switch c := r.Intn(20); {
		case c < 5:
			var i int64
			switch r.Intn(4) {
			case 0:
				i = pick(r, c06IntGrid) + int64(r.Intn(5)) - 2
			case 1:
				i = int64(r.Intn(2001) - 1000)
			case 2:
				i = int64(r.Uint64() >> uint(r.Intn(64)))
				if r.Intn(2) == 0 {
					i = -i
				}
			default:
				i = int64(r.Uint64())
			}
			out = append(out, fmt.Sprintf("int %d", i))
		case c < 15:
			out = append(out, fmt.Sprintf("flt %016x", randFloatBits(r)))
		case c < 18:
			out = append(out, "txt "+encName(midpointText(r)))
		case c < 19:
			// digit strings around the 64-bit and int64 boundaries, in all bases
			v := pick(r, []uint64{math.MaxInt64, 1 << 63, math.MaxUint64, 1 << 62, 255, 0}) + uint64(r.Intn(5)) - 2
			s := pick(r, []string{strconv.FormatUint(v, 10), "0x" + strconv.FormatUint(v, 16), "0o" + strconv.FormatUint(v, 8), "0b" + strconv.FormatUint(v, 2)})
			if r.Intn(4) == 0 {
				s += strconv.Itoa(r.Intn(10))
			}
			if r.Intn(2) == 0 {
				s = "-" + s
			}
			out = append(out, "txt "+encName(s))
		default:
			out = append(out, "txt "+encName(pick(r, c06NumTexts)+randText(r, 1)))
		}
	}
	return out
}

func codesOf(s string) engine.Term {
	var cs []engine.Term
	for _, c := range s {
		cs = append(cs, engine.Integer(c))
	}
	return engine.List(cs...)
}

func charsOf(s string) engine.Term {
	var cs []engine.Term
	for _, c := range s {
		cs = append(cs, atom(string(c)))
	}
	return engine.List(cs...)
}

// textOfList turns the wire form of a code or char list back into text ("?" if it is not one).
func c06ListText(vm *engine.VM, goal string, n engine.Term) string {
	l := engine.NewVariable()
	var text string
	ok := false
	_, err := solve(vm, compound(goal, n, l), 1, 5e9, func(env *engine.Env) bool {
		var sb strings.Builder
		iter := engine.ListIterator{List: l, Env: env}
		for iter.Next() {
			switch e := env.Resolve(iter.Current()).(type) {
			case engine.Integer:
				sb.WriteRune(rune(e))
			case engine.Atom:
				sb.WriteString(e.String())
			}
		}
		text, ok = sb.String(), iter.Err() == nil
		return false
	})
	if err != nil || !ok {
		return "!err"
	}
	return text
}

func runC06Numbers(payload string) string {
	f := strings.SplitN(payload, " ", 2)
	i := c06Pool.Get().(*prolog.Interpreter)
	defer c06Pool.Put(i)
	vm := &i.VM
	x := engine.NewVariable()
	switch f[0] {
	case "int", "flt":
		var num engine.Term
		kind := "int"
		if f[0] == "int" {
			v, err := strconv.ParseInt(f[1], 10, 64)
			must(err)
			num = engine.Integer(v)
			switch {
			case v < 0:
				kind = "negint"
			case v == 0:
				kind = "zero"
			}
		} else {
			b, err := strconv.ParseUint(f[1], 16, 64)
			must(err)
			fl := math.Float64frombits(b)
			num = engine.Float(fl)
			kind = "float"
			if b&(0x7FF<<52) == 0 {
				kind = "subnormal"
			}
		}
		w, wr := c06Write(vm, "writeq", num)
		if wr != "true" {
			w = "!" + wr
		}
		toks, ntok, _ := tokensWire(w)
		rb := c06Read(vm, w+" .")
		nc := c06ListText(vm, "number_codes", num)
		nch := c06ListText(vm, "number_chars", num)
		nb := c06Query(vm, compound("number_codes", x, codesOf(nc)), x)
		nchb := c06Query(vm, compound("number_chars", x, charsOf(nch)), x)
		shape := "plain"
		if strings.ContainsAny(w, "e") {
			shape = "exp"
		}
		return fmt.Sprintf("w=%s toks=[%s] rb=%s nc=%s nch=%s nb=%s nchb=%s ### nt=1 kind=%s shape=%s ntok=%d", encName(w), toks, rb, encName(nc), encName(nch), nb, nchb, kind, shape, ntok)
	case "txt":
		text, err := decName(f[1])
		must(err)
		nb := c06Query(vm, compound("number_codes", x, codesOf(text)), x)
		nchb := c06Query(vm, compound("number_chars", x, charsOf(text)), x)
		// what the strconv library makes of it (only used by the oracle for float texts)
		res := "err"
		if !strings.HasPrefix(nb, "err") {
			res = nb[:1]
		}
		nt := 0
		if res != "err" {
			nt = 1
		}
		return fmt.Sprintf("nb=%s nchb=%s ### nt=%d kind=text res=%s", nb, nchb, nt, res)
	}
	panic("bad numbers case " + payload)
}

// ---------------------------------------------------------------------------------------------
// c06.terms
// ---------------------------------------------------------------------------------------------

var c06OpNames = []string{"foo", "bar", "baz", "e", "E", "x", "++", "=>", "-", "+", "*", "\\", ":", "$", "=", "mod", "is", "->", "|", "fy", "Q q", "[]", "{}", ",", "'", "\\+", "--", "dynamic", ".", "é", "∀", "€", "e1", "e10x", "E1", "..", ".=.", "b1", "x0", "o7", "日本", "は", "א", "ʰ", "ب", "λ", "ǅ", "٣", "日x1"}
var c06OpPris = []int64{1, 2, 199, 200, 201, 400, 500, 699, 700, 701, 999, 1000, 1001, 1105, 1199, 1200}
var c06OpSpecs = []string{"fx", "fy", "xf", "yf", "xfx", "xfy", "yfx"}

var c06TermAtoms = []string{"日本", "は", "א", "ʰ", "ب", "λx", "ǅ", "٣", "３x", "Ⅰ", "_日", "x日", "Σx", "a", "b", "foo", "bar", "baz", "e", "E", "x", "[]", "{}", "", "-", "+", "*", "=", ":-", "\\+", "is", "mod", ",", "|", ";", "!", "++", "=>", "--", "\\", ":", "$", "->", "fy", "Q q",
	"hello world", "don't", "B", "_x", "a\nb", "/*", "%", ".", "'", "\"", "a\"b", "`", "é", "€", "∀", "\u0085", "\x00", "0", "1e5", "0'a", "e1", "dynamic", "$VAR", "a.b", "[", "(", "}", "end_of_file", "\\\\", "1", "-1", "- 1"}

func genC06Term(r *rand.Rand, depth int, names []string, nvars int, canonical bool) engine.Term {
	atomName := func() string {
		switch k := r.Intn(10); {
		case k < 4:
			return pick(r, names)
		case k < 9:
			return pick(r, c06TermAtoms)
		default:
			return randText(r, 3)
		}
	}
	if depth <= 0 || r.Intn(10) < 3 {
		switch k := r.Intn(20); {
		case k < 8:
			return atom(atomName())
		case k < 12:
			return engine.Integer(pick(r, []int64{0, 1, -1, 2, -2, 10, -10, 123, math.MaxInt64, math.MinInt64, 1 << 53}))
		case k < 15:
			return engine.Float(pick(r, []float64{0, math.Copysign(0, -1), 1, -1, 1.5, -1.5, 1e10, -1e10, 1e22, 1e-7, 0.1, -0.1, 123.456, 1e100, 5e-324, math.MaxFloat64, 0.01779860557410619, math.Float64frombits(randFloatBits(r))}))
		case k < 19:
			return engine.Variable(-(1 + int64(r.Intn(nvars)))) // placeholder, replaced by the decoder's variables
		default:
			return atom("[]")
		}
	}
	switch k := r.Intn(20); {
	case k < 9: // compound with an operator or ordinary name, arity 1..3
		ar := pick(r, []int{1, 1, 2, 2, 2, 3})
		args := make([]engine.Term, ar)
		for j := range args {
			args[j] = genC06Term(r, depth-1, names, nvars, canonical)
		}
		f := atomName()
		if f == "$VAR" && !canonical {
			f = "$VAR0"
		}
		return atom(f).Apply(args...)
	case k < 15: // operators of the default table, nested
		f := pick(r, []string{"-", "+", "*", "-", "\\+", ":-", ",", ";", "->", "=", "is", "^", "**", "mod", "\\", ":", "|", "-->", "?-", "//", "<", "xor", "rem"})
		ar := pick(r, []int{1, 2, 2})
		args := make([]engine.Term, ar)
		for j := range args {
			args[j] = genC06Term(r, depth-1, names, nvars, canonical)
		}
		return atom(f).Apply(args...)
	case k < 18: // lists and partial lists
		m := r.Intn(4)
		elems := make([]engine.Term, m)
		for j := range elems {
			elems[j] = genC06Term(r, depth-1, names, nvars, canonical)
		}
		if m > 0 && r.Intn(3) == 0 {
			return engine.PartialList(genC06Term(r, depth-1, names, nvars, canonical), elems...)
		}
		return engine.List(elems...)
	default: // curly terms
		return atom("{}").Apply(genC06Term(r, depth-1, names, nvars, canonical))
	}
}

// c06FixVars replaces the placeholder variables (negative numbers) by V0..Vn in the wire form.
func c06WireTerm(t engine.Term) string {
	var sb strings.Builder
	var enc func(t engine.Term)
	enc = func(t engine.Term) {
		if sb.Len() > 0 {
			sb.WriteByte(' ')
		}
		switch t := t.(type) {
		case engine.Variable:
			fmt.Fprintf(&sb, "V%d", -int64(t)-1)
		case engine.Compound:
			fmt.Fprintf(&sb, "C%d:%s", t.Arity(), encName(t.Functor().String()))
			for i := 0; i < t.Arity(); i++ {
				enc(t.Arg(i))
			}
		default:
			sb.WriteString(wireRaw(t))
		}
	}
	enc(t)
	return sb.String()
}

// c06TermsPairs: the exhaustive small scope of the property — every pair (context operator, operand operator) over
// the 7 specifiers x 3 priority relations, the operand in every argument position, with plain / operator-atom /
// negative-number / nested leaves; plus atoms that are prefix and infix operators at once.
func c06TermsPairs() []string {
	var out []string
	arity := func(spec string) int { return len(spec) - 1 }
	leafSets := [][]string{{"Aa", "Ab", "Ac"}, {"Afoo", "Abar", "A-"}, {"I-1", "I0", "F8000000000000000"}, {"I1", "Fbff8000000000000", "A%5b%5d"}}
	mk := func(name, spec string, args []string) string {
		return fmt.Sprintf("C%d:%s %s", arity(spec), name, strings.Join(args[:arity(spec)], " "))
	}
	for _, s1 := range c06OpSpecs {
		for _, s2 := range c06OpSpecs {
			for _, pr := range [][2]int{{400, 500}, {500, 500}, {500, 400}} {
				ops := fmt.Sprintf("op I%d A%s Afoo ; op I%d A%s Abar", pr[0], s1, pr[1], s2)
				for li, leaves := range leafSets {
					inner := mk("foo", s1, leaves)
					for pos := 0; pos < arity(s2); pos++ {
						args := []string{leaves[2], leaves[1]}
						args[pos] = inner
						mode := []string{"writeq", "wt"}[(li+pos)%2]
						out = append(out, fmt.Sprintf("hdr %s chars ; %s ; term %s", mode, ops, mk("bar", s2, args)))
					}
					// the operand operator under itself, and under the default minus
					self := []string{inner, inner}
					out = append(out, fmt.Sprintf("hdr writeq chars ; %s ; term %s", ops, mk("foo", s1, self)))
					out = append(out, fmt.Sprintf("hdr writeq chars ; %s ; term C1:- %s", ops, inner))
					out = append(out, fmt.Sprintf("hdr writeq chars ; %s ; term C2:- %s %s", ops, inner, inner))
				}
			}
		}
	}
	// one name as prefix and infix (and prefix and postfix) operator at once
	for _, sp := range []string{"fx", "fy"} {
		for _, si := range []string{"xfx", "xfy", "yfx", "xf", "yf"} {
			for _, pr := range [][2]int{{200, 500}, {500, 500}, {700, 500}} {
				ops := fmt.Sprintf("op I%d A%s Afoo ; op I%d A%s Afoo", pr[0], sp, pr[1], si)
				one := "C1:foo Aa"
				two := "C2:foo Aa Ab"
				terms := []string{one, "C1:foo " + one, "C1:foo Afoo", "C1:foo I-1", "C1:foo C1:- I1", "C2:- " + one + " " + one, "C2:= Afoo " + one, "C1:- " + one}
				if arity(si) == 2 {
					terms = append(terms, two, "C2:foo "+one+" "+one, "C1:foo "+two, "C2:foo Afoo Afoo", "C2:foo "+two+" "+two, "C2:foo I-1 I-1", "C2:foo Afoo "+one)
				}
				for _, t := range terms {
					out = append(out, fmt.Sprintf("hdr writeq chars ; %s ; term %s", ops, t))
				}
			}
		}
	}
	return out
}

// c06TermsClasses: alphanumeric operators (mod, is, user-defined prefix / infix / postfix operators, operators whose
// own name starts with a caseless letter) next to operands of every first-character class: the blank the writer puts
// (or not) between a letter-digit operator and its neighbour is decided by the WRITER's classification of first
// characters, which has to agree with the LEXER's on every class (Ll, Lo, Lm, Lu, Lt, Nd, Nl, Mn, So, Sm, Sc, ...).
func c06TermsClasses() []string {
	var out []string
	atoms := append([]string{"a", "x1", "mod", "neg", "post"}, c06ClassNames...)
	var all []string
	for _, a := range atoms {
		all = append(all, "A"+encName(a))
	}
	all = append(all, "V0", "V1", "I1", "I-1", "I0", "F3ff8000000000000", "Fbff8000000000000", "C1:f Ax", "C2:. Aa A%5b%5d", "C1:%7b%7d Aa", "A%5b%5d")
	core := []string{"Aa", "A" + encName("日本"), "A" + encName("ʰ"), "V0", "I1", "I-1", "F3ff8000000000000"}
	ops := "op I200 Afy Aneg ; op I200 Ayf Apost ; op I700 Axfx A" + encName("は") + " ; op I200 Afy A" + encName("日") + " ; op I200 Ayf A" + encName("ʰ") +
		" ; op I400 Ayfx A" + encName("א") + " ; op I200 Axfy A" + encName("λ") + " ; op I700 Axfx A" + encName("ǅ") + " ; op I200 Afy A" + encName("ب")
	k := 0
	add := func(t string) {
		out = append(out, fmt.Sprintf("hdr %s chars ; %s ; term %s", []string{"writeq", "wt"}[k%2], ops, t))
		k++
	}
	infix := []string{"mod", "is", "xor", "は", "א", "λ", "ǅ"}
	for _, o := range infix {
		f := "C2:" + encName(o)
		for _, x := range all {
			for _, c := range core {
				add(f + " " + x + " " + c)
				add(f + " " + c + " " + x)
			}
		}
	}
	for _, o := range []string{"neg", "日", "ب", "-", "\\+"} {
		for _, x := range all {
			add("C1:" + encName(o) + " " + x)
			add("C2:mod C1:" + encName(o) + " " + x + " Ab")                 // the operand of an unbracketed prefix operator keeps the right-hand context
			add("C2:" + encName("は") + " C1:" + encName(o) + " " + x + " V1")
		}
	}
	for _, o := range []string{"post", "ʰ"} {
		for _, x := range all {
			add("C1:" + encName(o) + " " + x)
			add("C2:mod Aa C1:" + encName(o) + " " + x)
			add("C1:neg C1:" + encName(o) + " " + x)
		}
	}
	return out
}

func genC06Terms(r *rand.Rand, n int, tier string) []string {
	out := c06TermsPairs()
	out = append(out, c06TermsClasses()...)
	for i := 0; i < n; i++ {
		mode := pick(r, []string{"writeq", "writeq", "writeq", "canonical", "canonical", "wt"})
		dq := pick(r, []string{"codes", "chars", "atom"})
		var ops []string
		var names []string
		nops := r.Intn(5)
		if r.Intn(4) == 0 {
			nops = 0
		}
		for j := 0; j < nops; j++ {
			p := pick(r, c06OpPris)
			if r.Intn(12) == 0 {
				p = 0
			}
			nm := pick(r, c06OpNames)
			names = append(names, nm)
			ops = append(ops, fmt.Sprintf("op I%d A%s A%s", p, pick(r, c06OpSpecs), encName(nm)))
		}
		if len(names) == 0 {
			names = []string{"-", "+", "*", "=", ":-", "mod"}
		}
		t := genC06Term(r, 1+r.Intn(4), names, 3, mode == "canonical")
		parts := append([]string{"hdr " + mode + " " + dq}, ops...)
		parts = append(parts, "term "+c06WireTerm(t))
		out = append(out, strings.Join(parts, " ; "))
	}
	return out
}

func c06CollectFloats(t engine.Term, seen map[uint64]bool, out *[]string) {
	switch t := t.(type) {
	case engine.Float:
		b := math.Float64bits(float64(t))
		if !seen[b] {
			seen[b] = true
			*out = append(*out, fmt.Sprintf("%016x:%s", b, encName(strconv.FormatFloat(float64(t), 'g', -1, 64))))
		}
	case engine.Compound:
		for i := 0; i < t.Arity(); i++ {
			c06CollectFloats(t.Arg(i), seen, out)
		}
	}
}

func c06TermStats(t engine.Term, ops map[string]bool, st *struct{ opUse, size, quotedCand int }) {
	st.size++
	if c, ok := t.(engine.Compound); ok {
		if ops[fmt.Sprintf("%s/%d", c.Functor().String(), c.Arity())] {
			st.opUse++
		}
		for i := 0; i < c.Arity(); i++ {
			c06TermStats(c.Arg(i), ops, st)
		}
	}
}

func runC06Terms(payload string) string {
	parts := strings.Split(payload, " ; ")
	hdr := strings.Fields(parts[0])
	mode, dq := hdr[1], hdr[2]
	i, _ := newInterp("")
	vm := &i.VM
	d := newTermDecoder()
	okOps := 0
	var t engine.Term
	for _, p := range parts[1:] {
		f := strings.SplitN(strings.TrimSpace(p), " ", 2)
		ts, err := d.terms(f[1])
		must(err)
		switch f[0] {
		case "op":
			if solveOnce(vm, compound("op", ts...)) == "true" {
				okOps++
			}
		case "term":
			t = ts[0]
		}
	}
	if r := solveOnce(vm, compound("set_prolog_flag", atom("double_quotes"), atom(dq))); r != "true" {
		panic("set_prolog_flag: " + r)
	}
	// the table as the writer and the reader see it: name/arity pairs written in operator notation
	opSet := map[string]bool{}
	{
		p, s, n := engine.NewVariable(), engine.NewVariable(), engine.NewVariable()
		_, _ = solve(vm, compound("current_op", p, s, n), 1<<20, 5e9, func(env *engine.Env) bool {
			sp := env.Resolve(s).(engine.Atom).String()
			opSet[fmt.Sprintf("%s/%d", env.Resolve(n).(engine.Atom).String(), len(sp)-1)] = true
			return true
		})
	}
	var text, wr string
	switch mode {
	case "writeq":
		text, wr = c06Write(vm, "writeq", t)
	case "canonical":
		text, wr = c06Write(vm, "write_canonical", t)
	default:
		text, wr = c06Write(vm, "write_term", t, engine.List(compound("quoted", atom("true"))))
	}
	if wr != "true" {
		text = "!" + wr
	}
	rb := c06Read(vm, text+" .")
	// auxiliary facts the model cannot compute: the run's variable names (in order of first occurrence in the
	// text; the writer emits subterms in argument order) and the shortest float texts
	var vars []string
	{
		toks, _ := engine.VerifTokens(text)
		seen := map[string]bool{}
		for _, tk := range toks {
			if tk.Kind == "variable" && !seen[tk.Val] {
				seen[tk.Val] = true
				vars = append(vars, tk.Val)
			}
		}
	}
	var flts []string
	c06CollectFloats(t, map[uint64]bool{}, &flts)
	var st struct{ opUse, size, quotedCand int }
	c06TermStats(t, opSet, &st)
	nt := 0
	quoted := strings.ContainsRune(text, '\'')
	if quoted || (st.opUse > 0 && mode != "canonical") {
		nt = 1
	}
	okTag := "same"
	if rb != wire(t, nil, newVarNamer()) {
		okTag = "DIFF"
	}
	return fmt.Sprintf("vars=[%s] flts=[%s] text=%s rb=%s ### nt=%d mode=%s dq=%s okops=%d opuse=%d quoted=%v size=%d rt=%s",
		strings.Join(vars, ","), strings.Join(flts, ","), encName(text), rb, nt, mode, dq, okOps, minInt(st.opUse, 5), quoted, minInt(st.size/4, 6), okTag)
}

// ---------------------------------------------------------------------------------------------
// exact midpoints (math/big)
// ---------------------------------------------------------------------------------------------

type bigFloat struct{ f *big.Float }

func (b *bigFloat) midpoint(x, y float64) *bigFloat {
	u := new(big.Float).SetPrec(4000).SetFloat64(x)
	v := new(big.Float).SetPrec(4000).SetFloat64(y)
	u.Add(u, v)
	u.Quo(u, new(big.Float).SetPrec(4000).SetInt64(2))
	b.f = u
	return b
}

// text: d.ddd…e±dd with the given number of fraction digits (a float number token)
func (b *bigFloat) text(digits int) string { return b.f.Text('e', digits) }

// bumpLastDigit moves the decimal a hair above (+1) or below (-1) by changing its mantissa's tail.
func bumpLastDigit(s string, dir int) string {
	i := strings.IndexByte(s, 'e')
	if i < 0 {
		return s
	}
	m, e := s[:i], s[i:]
	if dir > 0 {
		return m + "1" + e
	}
	last := m[len(m)-1]
	if last > '0' && last <= '9' {
		return m[:len(m)-1] + string(last-1) + "9" + e
	}
	return m + e
}

// ---------------------------------------------------------------------------------------------
// c06.shared: terms built WITH SHARING.  The term is constructed by ONE query
//     V100 = f(a), V101 = h(V100,V100), T = g(V101,V100), writeq(S, T)
// so that the same Go value (compound, list, partial list, string) is reached several times through variable
// bindings.  Sharing is invisible in the abstract term: the model judges the tree with the bindings substituted.
// `let` kinds also select the Go representation: eq (compound built by the VM), glist/gpartial/gchars/gcodes (engine.List,
// PartialList, CharList, CodeList values inside the goal), and values produced by builtins (atom_codes, atom_chars,
// append/3, findall/3, =../2, length/2).
// ---------------------------------------------------------------------------------------------

type c06Let struct{ kind, args string }

var c06SharedNodes = []c06Let{
	{"eq", "C1:f Aa"}, {"eq", "C2:- Aa Ab"}, {"eq", "C1:- I1"}, {"eq", "C1:- Aa"}, {"eq", "C1:%7b%7d Ax"}, {"eq", "C2:f V0 V1"}, {"eq", "C3:foo Aa I-1 Ahello%20world"},
	{"eq", "C2:. I1 C2:. I2 A%5b%5d"}, {"glist", "C2:. I1 C2:. I2 A%5b%5d"}, {"glist", "C2:. C2:. I1 A%5b%5d C2:. C2:. I1 A%5b%5d A%5b%5d"},
	{"gpartial", "C2:. Aa C2:. Ab V0"}, {"gpartial", "C2:. Aa Ab"}, {"gchars", "C2:. Aa C2:. Ab A%5b%5d"}, {"gcodes", "C2:. I97 C2:. I98 A%5b%5d"}, {"gchars", "C2:. A- C2:. A%27 A%5b%5d"},
	{"codes", "Aab"}, {"chars", "Aab"}, {"chars", "Aa%20B"}, {"append", "C2:. Aa A%5b%5d C2:. Ab A%5b%5d"}, {"append", "C2:. Aa A%5b%5d V0"}, {"findall", "C2:. Aa C2:. Ab A%5b%5d"},
	{"eq", "A-"}, {"eq", "A%5b%5d"}, {"eq", "Amod"}, {"eq", "I1"},
	{"parse", encName(`g("ab","ab",f(a),f(a))`)}, {"parse", encName(`"ab"-"ab"`)}, {"parse", encName(`["ab","ab"|"ab"]`)}, {"parse", encName(`f("","",'')`)}, {"parse", encName(`"a""b\\n"+"a""b\\n"`)},
	{"parse", encName(`[a,b|T]-[a,b|T]`)}, {"parse", encName(`f(X,Y,X,_,_)`)}, {"parse", encName(`- (1) - (- 1) - (-(1))`)}, {"parse", encName(`{[a|b],"c"}`)},
	{"eq", "A" + encName("日本")}, {"eq", "A" + encName("ʰ")}, {"eq", "C2:mod A" + encName("א") + " A" + encName("ב")}, {"chars", "A" + encName("日本")},
	{"univ", "C2:. Af C2:. Aa A%5b%5d"}, {"univ", "C2:. A- C2:. I1 C2:. I2 A%5b%5d"}, {"length", "I2"}, {"eq", "Aa"}, {"eq", "I-1"}, {"eq", "F8000000000000000"}, {"eq", "C2:: C2:: Aa Ab Ac"},
}

// contexts with at least two occurrences of V100, in argument, operator, list-element, list-tail and curly positions
var c06SharedContexts = []string{
	"C2:g V100 V100", "C2:- V100 V100", "C2:= V100 V100", "C2:. V100 C2:. V100 A%5b%5d", "C2:. V100 V100", "C2:f C1:- V100 V100", "C2:f V100 C1:h V100",
	"C2:+ C2:* V100 Ab C1:h C1:k V100", "C2:- C1:%7b%7d V100 V100", "C3:g V100 V100 V100", "C2:%2c V100 V100", "C2::- V100 V100", "C2:g C2:. Aa V100 V100",
	"C2:mod V100 V100", "C2:is V100 C1:\\+ V100",
	"C2:* C1:- V100 C1:\\+ V100", "C2:^ V100 C2:^ V100 V100", "C1:%7b%7d C2:%2c V100 V100", "C2:g C2:. V100 Ab C2:. Aa C2:. V100 A%5b%5d",
}

func c06SharedExhaustive() []string {
	var out []string
	modes := []string{"writeq", "canonical", "wt"}
	dqs := []string{"codes", "chars", "atom"}
	k := 0
	for _, n := range c06SharedNodes {
		for _, c := range c06SharedContexts {
			out = append(out, fmt.Sprintf("hdr %s %s ; let 100 %s %s ; term %s", modes[k%3], dqs[(k/3)%3], n.kind, n.args, c))
			k++
		}
		// two levels: the shared node inside another shared node; an alias; the node under a user-defined operator
		out = append(out, fmt.Sprintf("hdr %s %s ; let 100 %s %s ; let 101 eq C2:h V100 V100 ; term C2:g V101 V101", modes[k%3], dqs[k%3], n.kind, n.args))
		out = append(out, fmt.Sprintf("hdr %s %s ; let 100 %s %s ; let 101 eq V100 ; term C2:- V100 V101", modes[(k+1)%3], dqs[k%3], n.kind, n.args))
		out = append(out, fmt.Sprintf("hdr writeq %s ; op I700 Axfx Afoo ; op I200 Afy Abar ; let 100 %s %s ; term C2:foo C1:bar V100 C1:bar V100", dqs[k%3], n.kind, n.args))
		out = append(out, fmt.Sprintf("hdr writeq %s ; op I200 Axf Apost ; let 100 %s %s ; let 101 eq C1:post V100 ; term C2:- V101 V101", dqs[k%3], n.kind, n.args))
		out = append(out, fmt.Sprintf("hdr writeq %s ; op I700 Axfx A%s ; op I200 Afy A%s ; let 100 %s %s ; term C2:%s V100 C1:%s V100", dqs[k%3], encName("は"), encName("日"), n.kind, n.args, encName("は"), encName("日")))
		k++
	}
	// '$VAR'(N) with N reached through a binding (numbervars is off under write_canonical and write_term(quoted(true)))
	for m, mode := range []string{"canonical", "wt"} {
		out = append(out, fmt.Sprintf("hdr %s %s ; let 100 eq I1 ; term C2:g C1:$VAR V100 C1:$VAR V100", mode, dqs[m]))
		out = append(out, fmt.Sprintf("hdr %s %s ; let 100 eq C1:$VAR I27 ; term C2:- V100 V100", mode, dqs[m]))
	}
	// equal by value but separate objects (the identity of a string is its value), next to a shared one
	for _, kind := range []string{"gchars", "gcodes", "chars", "codes", "glist", "eq"} {
		arg := map[string]string{"gchars": "C2:. Aa C2:. Ab A%5b%5d", "gcodes": "C2:. I97 C2:. I98 A%5b%5d", "chars": "Aab", "codes": "Aab", "glist": "C2:. Aa C2:. Ab A%5b%5d", "eq": "C1:f Aa"}[kind]
		for m, mode := range modes {
			out = append(out, fmt.Sprintf("hdr %s %s ; let 100 %s %s ; let 101 %s %s ; term C2:g V100 V101", mode, dqs[m], kind, arg, kind, arg))
			out = append(out, fmt.Sprintf("hdr %s %s ; let 100 %s %s ; let 101 %s %s ; term C3:g V100 V101 C2:- V100 V101", mode, dqs[m], kind, arg, kind, arg))
		}
	}
	return out
}

func genC06SharedTerm(r *rand.Rand, depth int, names []string, nlets int, canonical bool) engine.Term {
	if nlets > 0 && r.Intn(100) < 30 {
		return engine.Variable(-(1 + 100 + int64(r.Intn(nlets))))
	}
	if depth <= 0 || r.Intn(10) < 2 {
		return genC06Term(r, 0, names, 3, canonical)
	}
	sub := func() engine.Term { return genC06SharedTerm(r, depth-1, names, nlets, canonical) }
	switch k := r.Intn(10); {
	case k < 4:
		f := pick(r, []string{"-", "+", "*", "=", ",", ":-", "\\+", "^", "mod", ";", "->", "|"})
		if r.Intn(3) == 0 {
			f = pick(r, names)
		}
		if r.Intn(4) == 0 {
			return atom(f).Apply(sub())
		}
		return atom(f).Apply(sub(), sub())
	case k < 7:
		ar := 1 + r.Intn(3)
		args := make([]engine.Term, ar)
		for j := range args {
			args[j] = sub()
		}
		return atom(pick(r, []string{"f", "g", "foo", "-", "[]", "hello world", "{}"})).Apply(args...)
	case k < 9:
		m := 1 + r.Intn(3)
		var t engine.Term = atom("[]")
		if r.Intn(3) == 0 {
			t = sub()
		}
		for j := 0; j < m; j++ {
			t = atom(".").Apply(sub(), t)
		}
		return t
	default:
		return atom("{}").Apply(sub())
	}
}

func genC06Shared(r *rand.Rand, n int, tier string) []string {
	out := c06SharedExhaustive()
	for i := 0; i < n; i++ {
		mode := pick(r, []string{"writeq", "writeq", "canonical", "wt"})
		dq := pick(r, []string{"codes", "chars", "atom"})
		var parts []string
		parts = append(parts, "hdr "+mode+" "+dq)
		names := []string{"-", "+", "*", "=", "mod"}
		if r.Intn(3) == 0 {
			for j := 0; j < 1+r.Intn(3); j++ {
				nm := pick(r, c06OpNames)
				names = append(names, nm)
				parts = append(parts, fmt.Sprintf("op I%d A%s A%s", pick(r, c06OpPris), pick(r, c06OpSpecs), encName(nm)))
			}
		}
		nlets := 1 + r.Intn(3)
		for j := 0; j < nlets; j++ {
			if r.Intn(3) == 0 {
				nd := pick(r, c06SharedNodes)
				parts = append(parts, fmt.Sprintf("let %d %s %s", 100+j, nd.kind, nd.args))
				continue
			}
			// a random compound that may contain the earlier shared nodes
			var t engine.Term
			for {
				t = genC06SharedTerm(r, 1+r.Intn(2), names, j, mode == "canonical")
				if _, ok := t.(engine.Compound); ok {
					break
				}
			}
			parts = append(parts, fmt.Sprintf("let %d eq %s", 100+j, c06WireTerm(t)))
		}
		t := genC06SharedTerm(r, 1+r.Intn(3), names, nlets, mode == "canonical")
		// make sure some shared node occurs twice
		v := engine.Variable(-(1 + 100 + int64(r.Intn(nlets))))
		switch r.Intn(5) {
		case 0:
			t = atom("g").Apply(t, v, v)
		case 1:
			t = atom("-").Apply(atom("-").Apply(t, v), v)
		case 2:
			t = atom(".").Apply(v, atom(".").Apply(t, v))
		case 3:
			t = atom("f").Apply(t, atom("{}").Apply(v), v)
		default:
			t = atom(pick(r, names)).Apply(atom(pick(r, []string{"-", "\\+", "h"})).Apply(v), atom(pick(r, names)).Apply(v, t))
		}
		parts = append(parts, "term "+c06WireTerm(t))
		out = append(out, strings.Join(parts, " ; "))
	}
	return out
}

// c06ListParts splits a '.'/2 spine into elements and tail.
func c06ListParts(t engine.Term) ([]engine.Term, engine.Term) {
	var elems []engine.Term
	for {
		c, ok := t.(engine.Compound)
		if !ok || c.Functor().String() != "." || c.Arity() != 2 {
			return elems, t
		}
		elems = append(elems, c.Arg(0))
		t = c.Arg(1)
	}
}

func c06CollectFloatsEnv(t engine.Term, env *engine.Env, seen map[uint64]bool, out *[]string) {
	switch t := env.Resolve(t).(type) {
	case engine.Float:
		b := math.Float64bits(float64(t))
		if !seen[b] {
			seen[b] = true
			*out = append(*out, fmt.Sprintf("%016x:%s", b, encName(strconv.FormatFloat(float64(t), 'g', -1, 64))))
		}
	case engine.Compound:
		for i := 0; i < t.Arity(); i++ {
			c06CollectFloatsEnv(t.Arg(i), env, seen, out)
		}
	}
}

func runC06Shared(payload string) string {
	parts := strings.Split(payload, " ; ")
	hdr := strings.Fields(parts[0])
	mode, dq := hdr[1], hdr[2]
	i, _ := newInterp("")
	vm := &i.VM
	d := newTermDecoder()
	var goals []engine.Term
	var letVars []engine.Variable
	var t engine.Term
	occ := 0
	for _, p := range parts[1:] {
		f := strings.SplitN(strings.TrimSpace(p), " ", 2)
		switch f[0] {
		case "op":
			ts, err := d.terms(f[1])
			must(err)
			_ = solveOnce(vm, compound("op", ts...))
		case "let":
			g := strings.SplitN(f[1], " ", 3)
			n, err := strconv.Atoi(g[0])
			must(err)
			v := d.variable(n)
			letVars = append(letVars, v)
			if g[1] == "parse" {
				// the value is what the real reader makes of a text (its own list / partial / string representations)
				src, err := decName(g[2])
				must(err)
				in := engine.NewInputTextStream(strings.NewReader(src + " ."))
				goals = append(goals, compound("read_term", in, v, atom("[]")))
				break
			}
			ts, err := d.terms(g[2])
			must(err)
			switch g[1] {
			case "eq":
				goals = append(goals, compound("=", v, ts[0]))
			case "glist":
				es, _ := c06ListParts(ts[0])
				goals = append(goals, compound("=", v, engine.List(es...)))
			case "gpartial":
				es, tail := c06ListParts(ts[0])
				goals = append(goals, compound("=", v, engine.PartialList(tail, es...)))
			case "gchars", "gcodes":
				es, _ := c06ListParts(ts[0])
				var sb strings.Builder
				for _, e := range es {
					switch e := e.(type) {
					case engine.Atom:
						sb.WriteString(e.String())
					case engine.Integer:
						sb.WriteRune(rune(e))
					}
				}
				if g[1] == "gchars" {
					goals = append(goals, compound("=", v, engine.CharList(sb.String())))
				} else {
					goals = append(goals, compound("=", v, engine.CodeList(sb.String())))
				}
			case "codes":
				goals = append(goals, compound("atom_codes", ts[0], v))
			case "chars":
				goals = append(goals, compound("atom_chars", ts[0], v))
			case "append":
				goals = append(goals, compound("append", ts[0], ts[1], v))
			case "findall":
				x := engine.NewVariable()
				goals = append(goals, compound("findall", x, compound("member", x, ts[0]), v))
			case "univ":
				goals = append(goals, compound("=..", v, ts[0]))
			case "length":
				goals = append(goals, compound("length", v, ts[0]))
			default:
				panic("bad let kind " + g[1])
			}
			occ += strings.Count(" "+g[2]+" ", " V1")
		case "term":
			ts, err := d.terms(f[1])
			must(err)
			t = ts[0]
			occ += strings.Count(" "+f[1]+" ", " V1")
		}
	}
	if r := solveOnce(vm, compound("set_prolog_flag", atom("double_quotes"), atom(dq))); r != "true" {
		panic("set_prolog_flag: " + r)
	}
	var buf bytes.Buffer
	out := engine.NewOutputTextStream(&buf)
	tv := engine.NewVariable()
	goals = append(goals, compound("=", tv, t))
	switch mode {
	case "writeq":
		goals = append(goals, compound("writeq", out, tv))
	case "canonical":
		goals = append(goals, compound("write_canonical", out, tv))
	default:
		goals = append(goals, compound("write_term", out, tv, engine.List(compound("quoted", atom("true")))))
	}
	// the very same object written a second time by the same query (nothing may be remembered between two writes)
	var bufAgain bytes.Buffer
	{
		last := goals[len(goals)-1].(engine.Compound)
		args := make([]engine.Term, last.Arity())
		for k := range args {
			args[k] = last.Arg(k)
		}
		args[0] = engine.NewOutputTextStream(&bufAgain)
		goals = append(goals, last.Functor().Apply(args...))
	}
	goal := goals[len(goals)-1]
	for k := len(goals) - 2; k >= 0; k-- {
		goal = compound(",", goals[k], goal)
	}
	// one query: the bindings, the term, the write; then what the engine itself sees as the tree
	var tree string
	var flts []string
	reps := map[string]bool{}
	n, err := solve(vm, goal, 1, 5e9, func(env *engine.Env) bool {
		tree = wire(tv, env, newVarNamer())
		c06CollectFloatsEnv(tv, env, map[uint64]bool{}, &flts)
		for _, v := range letVars {
			reps[engine.VerifTermRep(env.Resolve(v))] = true
		}
		return false
	})
	text := buf.String()
	if err != nil {
		text = "!" + errWire(err)
	} else if n == 0 {
		text = "!false"
	}
	rb := c06Read(vm, text+" .")
	var vars []string
	{
		toks, _ := engine.VerifTokens(text)
		seen := map[string]bool{}
		for _, tk := range toks {
			if tk.Kind == "variable" && !seen[tk.Val] {
				seen[tk.Val] = true
				vars = append(vars, tk.Val)
			}
		}
	}
	// the term the reader returned (in the reader's own representations), written again in one query
	var buf2 bytes.Buffer
	{
		in := engine.NewInputTextStream(strings.NewReader(text + " ."))
		out2 := engine.NewOutputTextStream(&buf2)
		x := engine.NewVariable()
		var wg engine.Term
		switch mode {
		case "writeq":
			wg = compound("writeq", out2, x)
		case "canonical":
			wg = compound("write_canonical", out2, x)
		default:
			wg = compound("write_term", out2, x, engine.List(compound("quoted", atom("true"))))
		}
		if r := solveOnce(vm, compound(",", compound("read_term", in, x, atom("[]")), wg)); r != "true" {
			buf2.Reset()
			buf2.WriteString("!" + r)
		}
	}
	rs := make([]string, 0, len(reps))
	for k := range reps {
		rs = append(rs, strings.NewReplacer("(", "_", ")", "").Replace(k))
	}
	sort.Strings(rs)
	okTag := "same"
	if rb != tree {
		okTag = "DIFF"
	}
	nt := 0
	if occ >= 2 {
		nt = 1
	}
	again := "same"
	if err == nil && n > 0 && bufAgain.String() != text {
		again = "DIFF:" + encName(bufAgain.String())
	}
	return fmt.Sprintf("vars=[%s] flts=[%s] text=%s again=%s w2=%s rb=%s ### nt=%d mode=%s dq=%s reps=%s occ=%d lets=%d rt=%s",
		strings.Join(vars, ","), strings.Join(flts, ","), encName(text), again, encName(buf2.String()), rb, nt, mode, dq, strings.Join(rs, "+"), minInt(occ, 6), len(letVars), okTag)
}
