import PrologVerif.Driver.Common
import PrologVerif.Model.Write
import PrologVerif.Generated.Unicode
namespace PrologVerif.Driver.C06
open PrologVerif PrologVerif.Lexer PrologVerif.Driver

/-! ## the character-class oracle: tables regenerated from the Go toolchain's package unicode -/

def inRanges (t : Array (Nat × Nat)) (c : Nat) : Bool :=
  -- binary search for the last range with lo ≤ c
  let rec go (fuel lo hi : Nat) : Bool :=
    match fuel with
    | 0 => false
    | fuel + 1 =>
      if lo ≥ hi then false
      else
        let mid := (lo + hi) / 2
        let r := t[mid]!
        if c < r.1 then go fuel lo mid
        else if c > r.2 then go fuel (mid + 1) hi
        else true
  go 40 0 t.size

def cfg : Cfg where
  lower := fun c => inRanges Generated.lowerRanges c.toNat
  upper := fun c => inRanges Generated.upperRanges c.toNat
  space := fun c => inRanges Generated.spaceRanges c.toNat
  hexUp := fun c => inRanges Generated.hexUpRanges c.toNat
  conv := id

/-! ## plumbing -/

def enc (cs : List Char) : String := encName (String.ofList cs)

def dec (s : String) : Option (List Char) := (decName s.toList).map String.toList

/-- the text between `start` and the next occurrence of `stop` (or the end of the line) -/
def field (line start stop : String) : String :=
  match line.splitOn start with
  | _ :: rest :: _ => if stop.isEmpty then rest else (rest.splitOn stop).headD ""
  | _ => ""

def tokensWire (text : List Char) : String :=
  let (toks, _) := tokens cfg (text.length + 1) (Lexer.ofList text)
  String.join (toks.map fun t => (t.kind.name.replace " " "_") ++ "=" ++ enc t.val ++ " ") ++ "!EOF"

def termWire (r : Except Read.PErr Term) : String :=
  match r with
  | .ok t => t.canon.wire
  | .error _ => "err"

/-! ## c06.lex -/

def lexHandler : Handler := fun payload _ =>
  match dec payload with
  | some text => (tokensWire text, "-")
  | none => ("BAD-PAYLOAD", "-")

/-! ## c06.atoms -/

def atomsHandler : Handler := fun payload impl =>
  match dec payload with
  | none => ("BAD-PAYLOAD", "-")
  | some s =>
    let nq := Write.needQuoted cfg s
    let q := Write.quote cfg s
    let w := Write.writeAtom ⟨cfg, fun _ => [], fun _ => []⟩ { ops := Ops.defaultTable, numberVars := true } s
    let rb := termWire (Read.readTerm cfg Ops.defaultTable .chars (w ++ [' ', '.']))
    let model := s!"nq={if nq then 1 else 0} q={enc q} w={enc w} toks=[{tokensWire (w ++ [' ', '.'])}] rb={rb}"
    -- the property itself, judged on what the implementation printed
    let want := (Term.atom (String.ofList s)).wire
    let got := field impl " rb=" ""
    (model, if got == want then "ok" else s!"FAIL the written atom does not read back: want {want}")

/-! ## c06.numbers -/

/-- independent reading of an integer literal in the four bases (no big.Float detour) -/
def exactInt (s : List Char) : Option Int :=
  let (neg, s) := match s with | '-' :: r => (true, r) | r => (false, r)
  let (base, ds) : Nat × List Char :=
    match s with
    | '0' :: 'b' :: ds => (2, ds) | '0' :: 'o' :: ds => (8, ds) | '0' :: 'x' :: ds => (16, ds) | ds => (10, ds)
  if ds.isEmpty ∨ ds.any (fun c => !(isHexAscii c) || hexDigitVal c ≥ base) then none
  else
    let v : Int := ds.foldl (fun acc c => acc * base + hexDigitVal c) 0
    some (if neg then -v else v)

/-- spec for a float text: sign, then the correctly rounded value of the decimal -/
def exactFloat (s : List Char) : Option UInt64 :=
  let (neg, s) := match s with | '-' :: r => (true, r) | r => (false, r)
  match FloatDec.decompose s with
  | some _ => some (if neg then FloatDec.parseBits s ||| 0x8000000000000000 else FloatDec.parseBits s)
  | none => none

def numberWire (text : List Char) : String := termWire (Read.number cfg text)

def numbersHandler : Handler := fun payload impl =>
  let (kind, arg) := headWord payload
  match kind with
  | "int" =>
    match intOfChars arg.toList with
    | none => ("BAD-PAYLOAD", "-")
    | some i =>
      let w := Write.formatInt i
      let rb := termWire (Read.readTerm cfg Ops.defaultTable .chars (w ++ [' ', '.']))
      let nb := numberWire w
      let model := s!"w={enc w} toks=[{tokensWire w}] rb={rb} nc={enc w} nch={enc w} nb={nb} nchb={nb}"
      let want := (Term.int i).wire
      let ok := field impl " rb=" " nc=" == want && field impl " nb=" " nchb=" == want && field impl " nchb=" "" == want
      (model, if ok then "ok" else s!"FAIL integer does not read back: want {want}")
  | "flt" =>
    match hexOfChars arg.toList with
    | none => ("BAD-PAYLOAD", "-")
    | some n =>
      let bits := UInt64.ofNat n
      -- the shortest-representation digits come from strconv.FormatFloat: taken from the implementation's line
      let wS := field impl "w=" " toks="
      let ncS := field impl " nc=" " nch="
      let nchS := field impl " nch=" " nb="
      match dec wS, dec ncS, dec nchS with
      | some w, some nc, some nch =>
        let rb := termWire (Read.readTerm cfg Ops.defaultTable .chars (w ++ [' ', '.']))
        let model := s!"w={wS} toks=[{tokensWire w}] rb={rb} nc={ncS} nch={nchS} nb={numberWire nc} nchb={numberWire nch}"
        let want := (Term.flt bits).wire
        -- oracle: the text denotes the float (library law, checked), is one float token after an optional minus, and
        -- every way of reading it back returns the same bits
        let body := match w with | '-' :: r => r | r => r
        let oneTok := match (tokens cfg 4 (Lexer.ofList body)).1 with
          | [t] => t.kind == .floatNumber && t.val == body
          | _ => false
        let verdict :=
          if exactFloat w != some bits then s!"FAIL the written text does not denote the float (want {want})"
          else if !oneTok then "FAIL the written text is not a single float number token"
          else if field impl " rb=" " nc=" != want then s!"FAIL float does not read back bit for bit: want {want}"
          else if field impl " nb=" " nchb=" != want || field impl " nchb=" "" != want then s!"FAIL number_codes/number_chars do not return the float: want {want}"
          else if nc != w || nch != w then "FAIL number_codes text differs from writeq text"
          else "ok"
        (model, verdict)
      | _, _, _ => ("BAD-IMPL-LINE", "FAIL unparsable implementation line")
  | "txt" =>
    match dec arg with
    | none => ("BAD-PAYLOAD", "-")
    | some text =>
      let nb := numberWire text
      let model := s!"nb={nb} nchb={nb}"
      let got := field impl "nb=" " nchb="
      -- oracle only where the text is a plain literal: the value must be the exact / correctly rounded one
      let verdict :=
        match exactInt text, exactFloat text with
        | some i, _ =>
          if -9223372036854775808 ≤ i ∧ i ≤ 9223372036854775807 then
            (if got == (Term.int i).wire then "ok" else s!"FAIL integer literal misread: want {(Term.int i).wire}")
          else (if got == "err" then "ok" else "FAIL out-of-range integer literal accepted")
        | none, some b => if got == (Term.flt b).wire then "ok" else s!"FAIL float literal is not correctly rounded: want {(Term.flt b).wire}"
        | none, none => "-"
      (model, verdict)
  | _ => ("BAD-PAYLOAD", "-")

/-! ## c06.terms -/

def parseDQ : String → Read.DoubleQuotes
  | "codes" => .codes
  | "atom" => .atom
  | _ => .chars

def splitComma (s : String) : List String := (s.splitOn ",").filter (· ≠ "")

/-- model text, model read-back and the round-trip verdict for one tree under a table and flags -/
def judgeTerm (mode : String) (dq : Read.DoubleQuotes) (ops : Ops.Table) (t : Term) (impl : String) : String × String :=
  let varsS := field impl "vars=[" "]"
  let fltsS := field impl "flts=[" "]"
  let names : List (List Char) := (splitComma varsS).map String.toList
  let flts : List (UInt64 × List Char) := (splitComma fltsS).filterMap fun e =>
    match e.splitOn ":" with
    | [b, tx] =>
      match hexOfChars b.toList, dec tx with
      | some n, some tx => some (UInt64.ofNat n, tx)
      | _, _ => none
    | _ => none
  let env : Write.Env := ⟨cfg, fun b => (flts.lookup b).getD ['?'], fun v => names.getD v ['_', '?']⟩
  let tc := t.canon
  let text :=
    match mode with
    | "writeq" => Write.writeq env ops tc
    | "canonical" => Write.writeCanonical env ops tc
    | _ => Write.writeQuoted env ops tc
  let rb := termWire (Read.readTerm cfg ops dq (text ++ [' ', '.']))
  let model := s!"vars=[{varsS}] flts=[{fltsS}] text={enc text} rb={rb}"
  let want := tc.wire
  let got := field impl " rb=" ""
  (model, if got == want then "ok" else s!"FAIL the written term does not read back: want {want}")

def termsHandler : Handler := fun payload impl =>
  let parts := splitOps payload
  match parts with
  | [] => ("BAD-PAYLOAD", "-")
  | hdr :: rest =>
    let hw := words hdr
    let mode := hw.getD 1 ""
    let dq := parseDQ (hw.getD 2 "")
    -- the op/3 history, on the model of C18
    let (ops, term) := rest.foldl (fun (st : Ops.Table × Option Term) o =>
      let (w, r) := headWord o
      match w, parseTerms r with
      | "op", some [p, s, n] => ((Ops.op st.1 p s n).1, st.2)
      | "term", some [t] => (st.1, some t)
      | _, _ => st) (Ops.defaultTable, none)
    match term with
    | none => ("BAD-PAYLOAD", "-")
    | some t => judgeTerm mode dq ops t impl

/-! ## c06.shared: terms built with sharing (the same Go value reached several times through
    variable bindings).  Sharing is invisible in the abstract term: the model substitutes the
    bindings and judges the plain tree. -/

mutual
  def substTerm (m : List (Nat × Term)) : Term → Term
    | .var v => (m.lookup v).getD (.var v)
    | .app f as => .app f (substArgs m as)
    | t => t
  def substArgs (m : List (Nat × Term)) : Args → Args
    | .nil => .nil
    | .cons t ts => .cons (substTerm m t) (substArgs m ts)
end

/-- what a `let` binds its variable to, as a plain tree -/
def letValue (n : Nat) (kind : String) (args : List Term) : Option Term :=
  match kind, args with
  | "eq", [t] | "glist", [t] | "gpartial", [t] | "gchars", [t] | "gcodes", [t] | "findall", [t] => some t
  | "codes", [.atom a] => some (Read.codeList a.toList)
  | "chars", [.atom a] => some (Read.charList a.toList)
  | "append", [t1, t2] => some (Term.list t1.spine.1 t2)
  | "univ", [l] =>
    match l.spine.1 with
    | .atom f :: as => some (Term.mk f as)
    | _ => none
  | "length", [.int k] => some (Term.list ((List.range k.toNat).map fun i => .var (n * 100 + i)))
  | _, _ => none

mutual
  def shiftVars (k : Nat) : Term → Term
    | .var v => .var (k + v)
    | .app f as => .app f (shiftVarsArgs k as)
    | t => t
  def shiftVarsArgs (k : Nat) : Args → Args
    | .nil => .nil
    | .cons t ts => .cons (shiftVars k t) (shiftVarsArgs k ts)
end

/-- texts up to the names of variables: the token sequence with variable tokens numbered by first occurrence -/
def tokensModVars (text : List Char) : List (String × List Char) :=
  let toks := (tokens cfg (text.length + 1) (Lexer.ofList text)).1
  (toks.foldl (fun (st : List (String × List Char) × List (List Char)) t =>
    if t.kind == .variable then
      match st.2.idxOf? t.val with
      | some i => (st.1 ++ [("variable", (toString i).toList)], st.2)
      | none => (st.1 ++ [("variable", (toString st.2.length).toList)], st.2 ++ [t.val])
    else (st.1 ++ [(t.kind.name, t.val)], st.2)) ([], [])).1

def sharedHandler : Handler := fun payload impl =>
  let parts := splitOps payload
  match parts with
  | [] => ("BAD-PAYLOAD", "-")
  | hdr :: rest =>
    let hw := words hdr
    let mode := hw.getD 1 ""
    let dq := parseDQ (hw.getD 2 "")
    let st := rest.foldl (fun (st : Ops.Table × List (Nat × Term) × Option Term × Bool) o =>
      let (ops, m, term, ok) := st
      let (w, r) := headWord o
      match w with
      | "op" =>
        match parseTerms r with
        | some [p, s, n] => ((Ops.op ops p s n).1, m, term, ok)
        | _ => (ops, m, term, false)
      | "let" =>
        let (ns, r1) := headWord r
        let (kind, r2) := headWord r1
        if kind == "parse" then
          match natOfChars ns.toList, dec r2 with
          | some n, some src =>
            match Read.readTerm cfg ops dq (src ++ [' ', '.']) with
            | .ok v => (ops, m ++ [(n, shiftVars (n * 100) v)], term, ok)
            | .error _ => (ops, m, term, false)
          | _, _ => (ops, m, term, false)
        else
        match natOfChars ns.toList, parseTerms r2 with
        | some n, some args =>
          match letValue n kind (args.map (substTerm m)) with
          | some v => (ops, m ++ [(n, v)], term, ok)
          | none => (ops, m, term, false)
        | _, _ => (ops, m, term, false)
      | "term" =>
        match parseTerms r with
        | some [t] => (ops, m, some (substTerm m t), ok)
        | _ => (ops, m, term, false)
      | _ => (ops, m, term, false)) (Ops.defaultTable, [], none, true)
    match st with
    | (ops, _, some t, true) =>
      let (m, v) := judgeTerm mode dq ops t impl
      -- the second write: the text written for the term read back is the first text up to variable names
      let textS := field impl " text=" " again="
      let againS := field impl " again=" " w2="
      let w2S := field impl " w2=" " rb="
      let m2 := (m.replace " rb=" (" again=same w2=" ++ w2S ++ " rb="))
      let v2 :=
        if v != "ok" then v
        else if againS != "same" then "FAIL the same term written twice by one query gives two different texts"
        else
          match dec textS, dec w2S with
          | some t1, some t2 =>
            if tokensModVars t1 == tokensModVars t2 then "ok"
            else "FAIL writing the term that was read back gives a different text"
          | _, _ => "FAIL unparsable implementation line"
      (m2, v2)
    | _ => ("BAD-PAYLOAD", "-")

end PrologVerif.Driver.C06
