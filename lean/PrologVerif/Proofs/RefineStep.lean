/-
  Refine, part 8 — one clause activation on both sides (`thunk_head`): the VM runs the head code of
  the compiled clause on the call's arguments; the reference unifies the goal with the clause head
  renamed apart by `shift nv`.  Either both fail, or both succeed and the simulation relation holds
  again for the body goals followed by the goals of the continuation.
-/
import PrologVerif.Proofs.RefineSim
namespace PrologVerif.Refine
open PrologVerif PrologVerif.VM PrologVerif.DecompileCompile PrologVerif.Activation
  PrologVerif.RefineITree PrologVerif.RefineRobinson

/-! ### shapes -/

theorem hasVar_argList {g a : Term} {v : Nat} (ha : a ∈ argList g) (hv : a.hasVar v = true) :
    g.hasVar v = true := by
  cases g with
  | app f as =>
    simp only [argList] at ha
    simp only [Term.hasVar]
    have := (hasVar_ofList_iff v as.toList).2 ⟨a, ha, hv⟩
    simpa using this
  | _ => simp [argList] at ha

theorem hasVar_of_argList {g : Term} {v : Nat} (hv : g.hasVar v = true) (hg : ∀ w, g ≠ .var w) :
    ∃ a ∈ argList g, a.hasVar v = true := by
  cases g with
  | var w => exact absurd rfl (hg w)
  | app f as =>
    simp only [Term.hasVar] at hv
    exact hasVar_toList hv
  | _ => simp [Term.hasVar] at hv

/-- a callable term of the fragment: an atom, or a compound with at least one argument -/
def Shape (t : Term) : Prop := (∃ f, t = .atom f) ∨ (∃ f as, t = .app f as ∧ 1 ≤ as.length)

theorem shape_of_hornGoal {g : Term} (h : hornGoal g = true) : Shape g := by
  rcases hornGoal_shape h with ⟨f, rfl, _⟩ | ⟨a, b, rfl⟩ | ⟨f, as, rfl, _, hl⟩
  · exact Or.inl ⟨f, rfl⟩
  · exact Or.inr ⟨_, _, rfl, by simp [Args.length]⟩
  · exact Or.inr ⟨f, as, rfl, hl⟩

theorem shape_of_hornHead {h : Term} (hh : hornHead h = true) : Shape h := by
  cases h with
  | atom f => exact Or.inl ⟨f, rfl⟩
  | app f as =>
    simp only [hornHead, Bool.and_eq_true, decide_eq_true_eq] at hh
    exact Or.inr ⟨f, as, rfl, hh.1⟩
  | _ => simp [hornHead] at hh

theorem shape_of_headOK {h : Term} (hh : headOK h = true) : Shape h := by
  cases h with
  | atom f => exact Or.inl ⟨f, rfl⟩
  | app f as =>
    simp only [headOK, Bool.and_eq_true, decide_eq_true_eq] at hh
    exact Or.inr ⟨f, as, rfl, hh.1.1⟩
  | _ => simp [headOK] at hh

theorem shape_rename {t : Term} (ρ : Nat → Nat) (h : Shape t) : Shape (t.rename ρ) := by
  rcases h with ⟨f, rfl⟩ | ⟨f, as, rfl, hl⟩
  · exact Or.inl ⟨f, rfl⟩
  · exact Or.inr ⟨f, _, rfl, by rw [Args.length_subst]; exact hl⟩

theorem args_eq_of_toList {as bs : Args} (h : as.toList = bs.toList) : as = bs := by
  rw [← Args.ofList_toList as, ← Args.ofList_toList bs, h]

/-- unifying two callable terms with the same name and arity = unifying their arguments -/
theorem unifies_shape {g h : Term} (hg : Shape g) (hh : Shape h)
    (hf : functorName g = functorName h) (hl : (argList g).length = (argList h).length) (θ : Subst) :
    UnifiesL θ (argList g) (argList h) ↔ g.subst θ = h.subst θ := by
  rcases hg with ⟨f, rfl⟩ | ⟨f, as, rfl, hla⟩ <;> rcases hh with ⟨f', rfl⟩ | ⟨f', bs, rfl, hlb⟩
  · simp only [functorName] at hf
    subst hf
    simp [UnifiesL, argList, Term.subst]
  · simp [argList] at hl; omega
  · simp [argList] at hl; omega
  · simp only [functorName] at hf
    subst hf
    simp only [UnifiesL, argList, Term.subst, Term.app.injEq, true_and]
    rw [← toList_subst, ← toList_subst]
    exact ⟨args_eq_of_toList, fun h => by rw [h]⟩

theorem interpArgs_of_toList {θ : IAsg} : ∀ {as bs : Args},
    as.toList.map (interp θ) = bs.toList.map (interp θ) → ∀ i, interpArgs θ as i = interpArgs θ bs i
  | .nil, .nil, _, _ => rfl
  | .nil, .cons _ _, h, _ => by simp [Args.toList] at h
  | .cons _ _, .nil, h, _ => by simp [Args.toList] at h
  | .cons a as, .cons b bs, h, i => by
    simp only [Args.toList, List.map_cons, List.cons.injEq] at h
    cases i with
    | zero => simpa [interpArgs] using h.1
    | succ i => simpa [interpArgs] using interpArgs_of_toList h.2 i

theorem iunifies_shape {g h : Term} (hg : Shape g) (hh : Shape h)
    (hf : functorName g = functorName h) (hl : (argList g).length = (argList h).length) (θ : IAsg)
    (hu : IUnifiesL θ (argList g) (argList h)) : interp θ g = interp θ h := by
  rcases hg with ⟨f, rfl⟩ | ⟨f, as, rfl, hla⟩ <;> rcases hh with ⟨f', rfl⟩ | ⟨f', bs, rfl, hlb⟩
  · simp only [functorName] at hf
    subst hf; rfl
  · simp [argList] at hl; omega
  · simp [argList] at hl; omega
  · simp only [functorName] at hf
    subst hf
    simp only [argList, Args.length_toList] at hl
    exact interp_app_congr hl (interpArgs_of_toList hu)

/-! ### the variables of a compiled clause -/

theorem _root_.PrologVerif.Activation.BodySem.varsIn {tbl : List Nat} {ops : List Op} {gs : List Rep} (h : BodySem tbl ops gs) :
    ∀ g ∈ gs, ∀ v, (goalTerm g).hasVar v = true → v ∈ tbl := by
  induction h with
  | nil => intro g hg; simp at hg
  | @cons seg ops g0 gs hg0 _ ih =>
    intro g hg v hv
    rcases List.mem_cons.1 hg with rfl | hg
    · rcases hg0 with ⟨hc, _⟩ | ⟨_, hcs⟩
      · subst hc; simp [goalTerm, Rep.abs, Term.hasVar] at hv
      · exact hcs.1 _ (by simp) v hv
    · exact ih g hg v hv

theorem conjuncts_vars {b t : Term} {x : Nat} (ht : t ∈ SLD.conjuncts b) (hx : t.hasVar x = true) :
    b.hasVar x = true := by
  fun_induction SLD.conjuncts b with
  | case1 a b iha ihb =>
    simp only [Term.hasVar, Args.hasVar, Bool.or_false, Bool.or_eq_true]
    rcases List.mem_append.1 ht with ht | ht
    · exact Or.inl (iha ht)
    · exact Or.inr (ihb ht)
  | case2 t' _ =>
    rw [List.mem_singleton.1 ht] at hx
    cases t' <;> simp_all [SLD.wrapVar, SLD.call1, Term.hasVar, Args.hasVar]

/-- what the simulation needs to know about a compiled clause, uniformly for rules and facts -/
theorem CRel.info {fl : Bool} {cl : Clause} {h b : Term} (hr : CRel fl cl h b) :
    ∃ hargs pre bops gs, HeadLayout h cl hargs ∧
      cl.code = headCode hargs {} ++ (pre ++ (bops ++ [Op.exit])) ∧ (pre = [] ∨ pre = [Op.enter]) ∧
      BodySem cl.vars bops gs ∧ (∀ g ∈ gs, g = .atom "!" ∨ stepGoal fl (goalTerm g) = true) ∧
      (SLD.conjuncts b = gs.map goalTerm ∨ (gs = [] ∧ b = .atom "true")) := by
  cases hr with
  | rule hl hcode hsem hgs hg =>
    exact ⟨_, [.enter], _, _, hl, by simp [hcode], Or.inr rfl, hsem, hg, Or.inl hgs.symm⟩
  | fact hl hcode =>
    exact ⟨_, [], [], [], hl, by simp [hcode], Or.inl rfl, .nil, by simp, Or.inr ⟨rfl, rfl⟩⟩

/-! ### goal lists -/

/-- the level map of the current path: frame ids (innermost first) with the depth of the predicate
    call they stand for on the reference side (`none`: a frame the reference has no level for) -/
abbrev Lv := List (Nat × Option Nat)

/-- the level of a frame id -/
def Lv.lev (lv : Lv) (c : Nat) : Option Nat := (lv.lookup c).getD none

/-- a frame of the reference the VM has no goal for: `call(true)` (what the reference makes of the
    `true` in `once(G)` ≡ `(call(G) -> true)` and `\\+ G` ≡ `(call(G) -> fail ; true)`) -/
abbrev skipF (l : Nat) : SLD.Frame := .goal (SLD.call1 (.atom "true")) l

/-- a pending goal of the VM against a frame of the reference: the frame is the image of the goal,
    possibly inside one more `call/1` (the reference's `once/1` and `\\+` call `call(G)`); the level
    of a cut goal is the level of its cut parent -/
def HRel (lv : Lv) (σ : Subst) (π : Nat → Nat) (D : Nat → Prop) (g : Term × Nat) (fr : SLD.Frame) : Prop :=
  InD D g.1 ∧ ∃ l, (fr = SLD.Frame.goal (img σ π g.1) l ∨
      ((∃ x, g.1 = .app "call" (.cons x .nil)) ∧ fr = SLD.Frame.goal (SLD.call1 (img σ π g.1)) l)) ∧
    (g.1 = .atom "!" → lv.lev g.2 = some l)

/-- the bottom of the resolvent: empty for the search of the query (`mo = none`); for the search
    nested in `\\+ G` — the reference runs `(call(G) -> fail ; true)`, whose cut has level `dN` —
    the rest of the then-branch (`mo = some dN`) -/
def TailOK (mo : Option Nat) (R : List SLD.Frame) : Prop :=
  match mo with
  | none => R = []
  | some dN => ∃ l Rout, R = .goal (.atom "!") dN :: .goal (SLD.call1 (.atom "fail")) l :: Rout

/-- the pending goals `G` of the VM and the resolvent `R` of the reference -/
inductive GRel (mo : Option Nat) (lv : Lv) (σ : Subst) (π : Nat → Nat) (D : Nat → Prop) :
    List (Term × Nat) → List SLD.Frame → Prop
  | nil {R : List SLD.Frame} : TailOK mo R → GRel mo lv σ π D [] R
  | skip {G : List (Term × Nat)} {R : List SLD.Frame} (l : Nat) : GRel mo lv σ π D G R → GRel mo lv σ π D G (skipF l :: R)
  | cons {g : Term × Nat} {G : List (Term × Nat)} {fr : SLD.Frame} {R : List SLD.Frame} :
      HRel lv σ π D g fr → GRel mo lv σ π D G R → GRel mo lv σ π D (g :: G) (fr :: R)

theorem GRel.map {mo : Option Nat} {lv lv' : Lv} {σ σ' : Subst} {π π' : Nat → Nat} {D D' : Nat → Prop} {G : List (Term × Nat)}
    {R : List SLD.Frame} (f : SLD.Frame → SLD.Frame) (hs : ∀ l, f (skipF l) = skipF l)
    (ht : ∀ R, TailOK mo R → TailOK mo (R.map f))
    (h : GRel mo lv σ π D G R) (hH : ∀ g ∈ G, ∀ fr, HRel lv σ π D g fr → HRel lv' σ' π' D' g (f fr)) :
    GRel mo lv' σ' π' D' G (R.map f) := by
  induction h with
  | nil hR => exact .nil (ht _ hR)
  | skip l _ ih => rw [List.map_cons, hs]; exact .skip l (ih hH)
  | cons hd _ ih =>
    exact .cons (hH _ (by simp) _ hd) (ih (fun g hg => hH g (by simp [hg])))

theorem GRel.imp {mo : Option Nat} {lv lv' : Lv} {σ σ' : Subst} {π π' : Nat → Nat} {D D' : Nat → Prop} {G : List (Term × Nat)}
    {R : List SLD.Frame} (h : GRel mo lv σ π D G R)
    (hH : ∀ g ∈ G, ∀ fr, HRel lv σ π D g fr → HRel lv' σ' π' D' g fr) : GRel mo lv' σ' π' D' G R := by
  have := h.map (lv' := lv') (σ' := σ') (π' := π') (D' := D') id (fun _ => rfl) (fun R hR => by simpa using hR) hH
  simpa using this

theorem GRel.append {mo : Option Nat} {lv : Lv} {σ : Subst} {π : Nat → Nat} {D : Nat → Prop} {G1 G2 : List (Term × Nat)}
    {R1 R2 : List SLD.Frame} (h1 : GRel none lv σ π D G1 R1) (h2 : GRel mo lv σ π D G2 R2) :
    GRel mo lv σ π D (G1 ++ G2) (R1 ++ R2) := by
  induction h1 with
  | nil hR =>
    have : _ = [] := hR
    subst this
    exact h2
  | skip l _ ih => exact .skip l ih
  | cons hd _ ih => exact .cons hd ih

theorem GRel.of_forall2 {lv : Lv} {σ : Subst} {π : Nat → Nat} {D : Nat → Prop} {G : List (Term × Nat)}
    {R : List SLD.Frame} (h : Forall2 (HRel lv σ π D) G R) : GRel none lv σ π D G R := by
  induction h with
  | nil => exact .nil rfl
  | cons hd _ ih => exact .cons hd ih

theorem tailOK_subst {mo : Option Nat} (θ : List (Nat × Term)) (R : List SLD.Frame) (h : TailOK mo R) :
    TailOK mo (R.map (SLD.Frame.subst θ)) := by
  cases mo with
  | none =>
    have : R = [] := h
    subst this; exact rfl
  | some dN =>
    obtain ⟨l, Rout, rfl⟩ := h
    exact ⟨l, Rout.map (SLD.Frame.subst θ), by
      simp [SLD.Frame.subst, applySubst_eq, SLD.call1, Term.subst, Args.subst]⟩

theorem skipF_subst (θ : List (Nat × Term)) (l : Nat) : SLD.Frame.subst θ (skipF l) = skipF l := by
  simp [skipF, SLD.Frame.subst, applySubst_eq, SLD.call1, Term.subst, Args.subst]

theorem GRel.step {mo : Option Nat} {lv : Lv} {σ σ' : Subst} {π π' : Nat → Nat} {D D' : Nat → Prop} {G : List (Term × Nat)}
    {R : List SLD.Frame}
    (h : GRel mo lv σ π D G R) (hD : ∀ v, D v → D' v) (θ : List (Nat × Term))
    (heq : ∀ t, InD D t → img σ' π' t = (img σ π t).subst (substOf θ)) :
    GRel mo lv σ' π' D' G (R.map (SLD.Frame.subst θ)) := by
  refine h.map _ (skipF_subst θ) (tailOK_subst θ) ?_
  rintro g _ fr ⟨hg, l, hfr, hl⟩
  refine ⟨fun v hv => hD v (hg v hv), l, ?_, hl⟩
  rcases hfr with rfl | ⟨hne, rfl⟩
  · left
    simp only [SLD.Frame.subst, applySubst_eq, heq _ hg]
  · right
    refine ⟨hne, ?_⟩
    simp only [SLD.Frame.subst, applySubst_eq, heq _ hg, SLD.call1, Term.subst, Args.subst]

/-! ### the activation -/

theorem exec_pre_applyCont {pre bops : List Op} (hpre : pre = [] ∨ pre = [Op.enter]) (fuel : Nat) (vars : List Nat)
    (K : Cont) (env : Env) (cp : Nat) (m : MS) (res : Pr × MS)
    (h : exec fuel (pre ++ (bops ++ [Op.exit])) vars K [] [] env cp m = some res) :
    ∃ f2, applyCont f2 (.exec (bops ++ [.exit]) vars cp K) env m = some res := by
  rcases hpre with rfl | rfl
  · exact ⟨fuel + 1, by rw [continuation_resumes]; simpa using h⟩
  · cases fuel with
    | zero => simp [exec_zero] at h
    | succ n =>
      simp only [List.singleton_append] at h
      rw [exec_enter] at h
      exact ⟨n + 1, by rw [continuation_resumes]; exact h⟩

/-- a substitution that behaves like a most general unifier of `a2`, `b2` -/
structure MguLike (a2 b2 : Term) (τ2 : Subst) : Prop where
  sound : a2.subst τ2 = b2.subst τ2
  general : ∀ β : Subst, a2.subst β = b2.subst β → ∀ v, β v = (τ2 v).subst β
  vars : ∀ y z, (τ2 y).hasVar z = true → z = y ∨ a2.hasVar z = true ∨ b2.hasVar z = true

theorem mguLike_of_solve {a2 b2 : Term} {n : Nat} {θ2 : List (Nat × Term)}
    (hr : Robinson.solve n [(a2, b2)] [] = .mgu θ2) : MguLike a2 b2 (substOf θ2) :=
  ⟨solve_mgu_sound hr, solve_mgu_general hr, (solve_mgu_vars hr).2⟩

/-- **one clause activation**, the clause's variables being sent to the reference's variables by an
    arbitrary renaming-apart κ (for a program clause: `shift nv`) -/
theorem thunk_head' {fl : Bool} {tmpl : Term} {max : Nat} {cl : Clause} {h b : Term} (hcr : CRel fl cl h b)
    {N : Nat} {env : Env} {σ : Subst} {π : Nat → Nat} {D : Nat → Prop} {nv : Nat}
    (hsim : SimW tmpl N env σ π D nv)
    (F : Nat) (g : Term) (K : Cont) (id : Nat) (m : MS) (res : Pr × MS)
    (hN : N ≤ m.user.nextVar) (hg : InD D g) (hgs : Shape g)
    (hkey : functorName g = functorName h ∧ (argList g).length = (argList h).length)
    (hrun : evalThunk F (.clause cl (argList g) K env id) m = some res)
    (κ : Nat → Nat) (nv' : Nat) (hnv : nv ≤ nv')
    (hκ1 : ∀ x y, (h.hasVar x = true ∨ b.hasVar x = true) → (h.hasVar y = true ∨ b.hasVar y = true) →
      κ x = κ y → x = y)
    (hκ2 : ∀ x u, (h.hasVar x = true ∨ b.hasVar x = true) → RV σ D u → π u ≠ κ x)
    (hκ3 : ∀ x, (h.hasVar x = true ∨ b.hasVar x = true) → κ x < nv') :
    (∃ N', m.user.nextVar ≤ N' ∧ res = (failP, bump m N') ∧
        ∀ τ2 : Subst, (img σ π g).subst τ2 ≠ (h.rename κ).subst τ2) ∨
    (∃ fuel' env' N' K1 Bs, m.user.nextVar ≤ N' ∧ applyCont fuel' K1 env' (bump m N') = some res ∧
        (SLD.conjuncts b = Bs ∨ (Bs = [] ∧ b = .atom "true")) ∧
        (∀ n, Robinson.solve n [(img σ π g, h.rename κ)] [] ≠ .clash) ∧
        ∀ τ2, MguLike (img σ π g) (h.rename κ) τ2 →
          ∃ σ' π' D' G1, SimW tmpl N' env' σ' π' D' nv' ∧
            (∀ v, D v → D' v) ∧
            (∀ t, InD D t → img σ' π' t = (img σ π t).subst τ2) ∧
            (∀ G, ContGoals fl mo tmpl max K G → ContGoals fl mo tmpl max K1 (G1 ++ G)) ∧
            Forall2 (fun g1 bg => InD D' g1.1 ∧ g1.2 = id ∧ img σ' π' g1.1 = (bg.rename κ).subst τ2 ∧
              ∃ ρ', g1.1 = bg.rename ρ') G1 Bs ∧
            (∀ v, D' v → D v ∨ ∃ x, (h.hasVar x = true ∨ b.hasVar x = true) ∧
              img σ' π' (.var v) = ((Term.var x).rename κ).subst τ2)) := by
  obtain ⟨hargs, pre, bops, gs, hl, hcode, hpre, hsem, hgoals, hbody⟩ := hcr.info
  -- the clause variables
  let V : Nat → Prop := fun x => h.hasVar x = true ∨ ∃ g0 ∈ gs, (goalTerm g0).hasVar x = true
  have hhs : Shape h := shape_of_headOK hl.horn
  have hhnv : ∀ w, h ≠ .var w := by
    rcases hhs with ⟨f, rfl⟩ | ⟨f, as, rfl, _⟩ <;> simp
  have hV : ∀ x, V x → x ∈ cl.vars ∧ (h.hasVar x = true ∨ b.hasVar x = true) := by
    rintro x (hx | ⟨g0, hg0, hx⟩)
    · constructor
      · obtain ⟨a, ha, hax⟩ := hasVar_of_argList hx hhnv
        rw [← hl.args] at ha
        exact hl.pre.subset ((headCode_spec2 hargs {} hl.wf).1 a ha x hax)
      · exact Or.inl hx
    · constructor
      · exact hsem.varsIn g0 hg0 x hx
      · rcases hbody with hb | ⟨hb, _⟩
        · have : goalTerm g0 ∈ SLD.conjuncts b := by rw [hb]; exact List.mem_map_of_mem hg0
          exact Or.inr (conjuncts_vars this hx)
        · subst hb; simp at hg0
  obtain ⟨π₁, D', hsim1, hDD', himg_old, himg_new, hD'char⟩ :=
    simW_act' hsim hN hl.nodup V κ nv' (fun x hx => (hV x hx).1) hnv
      (fun x y hx hy => hκ1 x y (hV x hx).2 (hV y hy).2)
      (fun x u hx hu => hκ2 x u (hV x hx).2 hu) (fun x hx => hκ3 x (hV x hx).2)
  let ρ := renOf cl.vars (freshL m.user.nextVar cl.vars.length)
  have hren : Renames cl.vars (freshL m.user.nextVar cl.vars.length) ρ := renames_renOf hl.nodup (by simp)
  have hhV : ∀ x, h.hasVar x = true → V x := fun x hx => Or.inl hx
  obtain ⟨hih, hhD⟩ := himg_new h hhV
  have hgi : img σ π₁ g = img σ π g := himg_old g hg
  have hargsEq : (Rep.absArgs hargs).toList.map (Term.rename ρ) = argList (h.rename ρ) := by
    rw [hl.args, argList_rename]
  have hkey' : functorName g = functorName (h.rename ρ) ∧ (argList g).length = (argList (h.rename ρ)).length := by
    rw [functorName_rename _ _ hhnv, argList_rename, List.length_map]; exact hkey
  have hE : ∀ θ, UnifiesL θ (argList g) ((Rep.absArgs hargs).toList.map (Term.rename ρ)) ↔
      g.subst θ = (h.rename ρ).subst θ := by
    intro θ
    rw [hargsEq]
    exact unifies_shape hgs (shape_rename ρ hhs) hkey'.1 hkey'.2 θ
  have hgD' : InD D' g := fun v hv => hDD' v (hg v hv)
  have hrun' := activation_head2 cl hargs (pre ++ (bops ++ [Op.exit])) hl.wf hcode hl.pre hl.nodup F (argList g) K env id m
    res (by rw [hkey.2, ← hl.args, absArgs_toList_length]) (Nat.lt_of_lt_of_le hsim.pos hN)
    (fun a ha v hv => by
      have := hsim.dlt v (hg v (hasVar_argList ha hv))
      omega)
    (hsim.mg.eok.solBelow.mono hN) hrun
  rcases hrun' with ⟨N', hN', hres, hfail⟩ | ⟨fuel', env', N', _, hx, hstep, hchain, hsound⟩
  · left
    refine ⟨N', by omega, hres, ?_⟩
    intro τ2 hu
    rw [← hgi, ← hih] at hu
    exact bridge_fail' hsim1.mg.mgu (fun ⟨θ, hs, hu⟩ => hfail ⟨θ, hs, (hE θ).2 hu⟩) τ2 hu
  · right
    obtain ⟨f2, hcont⟩ := exec_pre_applyCont hpre fuel' _ K env' id _ res hx
    have hstep' : MGUStep (m.user.nextVar + cl.vars.length) env
        (fun θ => g.subst θ = (h.rename ρ).subst θ) N' env' := hstep.congr hE
    have hN' : m.user.nextVar ≤ N' := Nat.le_trans (Nat.le_add_right _ _) hstep.le
    refine ⟨f2, env', N', .exec (bops ++ [.exit]) (freshL m.user.nextVar cl.vars.length) id K,
      gs.map goalTerm, hN', hcont, ?_, ?_, ?_⟩
    · rcases hbody with hb | ⟨hb, hb'⟩
      · exact Or.inl hb
      · exact Or.inr ⟨by rw [hb]; rfl, hb'⟩
    · intro n hr
      rw [← hgi, ← hih] at hr
      refine bridge_clash hsim1.mg hsim1.chain hgD' hhD hsim1.inj hchain ?_ hr
      intro θ hs
      obtain ⟨hs0, hu⟩ := hsound θ hs
      rw [hargsEq] at hu
      exact ⟨hs0, iunifies_shape hgs (shape_rename ρ hhs) hkey'.1 hkey'.2 θ hu⟩
    · intro τ2 hτ
      have hτ' : MguLike (img σ π₁ g) (img σ π₁ (h.rename ρ)) τ2 := by rw [hgi, hih]; exact hτ
      obtain ⟨σ', π', hσ', hinj, heq⟩ := bridge_ok' hsim1.mg (Nat.le_refl _) (fun v hv => (hsim1.dlt v hv).2)
        hgD' hhD hsim1.inj hstep' hchain τ2 hτ'.sound hτ'.general
      have heq' : ∀ t, InD D' t → img σ' π' t = (img σ π₁ t).subst τ2 := heq
      refine ⟨σ', π', D', gs.map (fun g0 => ((goalTerm g0).rename ρ, id)),
        ⟨hσ', hchain.chainOK hsim1.chain, by have := hsim.pos; omega,
          fun v hv => ⟨(hsim1.dlt v hv).1, Nat.lt_of_lt_of_le (hsim1.dlt v hv).2 hchain.le⟩, hinj, ?_,
          hsim1.tmplD⟩, hDD', ?_, ?_, ?_, ?_⟩
      rotate_left 4
      · intro v hv
        rcases hD'char v hv with hv | ⟨x, hx, rfl⟩
        · exact Or.inl hv
        · right
          have hxV : ∀ y, (Term.var x).hasVar y = true → V y := fun y hy => by
            simp only [Term.hasVar, beq_iff_eq] at hy; subst hy; exact hx
          obtain ⟨h1, h2⟩ := himg_new (.var x) hxV
          refine ⟨x, (hV x hx).2, ?_⟩
          have e : (Term.var x).rename ρ = .var (ρ x) := rfl
          rw [e] at h1 h2
          rw [heq' _ h2, h1]
      · refine bnd_step' hτ'.vars ?_ ?_ hsim1.bnd heq
        · intro z hz; exact img_vars_lt hsim1 hgD' hz
        · intro z hz; exact img_vars_lt hsim1 hhD hz
      · intro t ht
        rw [heq' t (fun v hv => hDD' v (ht v hv)), himg_old t ht]
      · intro G hG
        exact .exec hsem hren hgoals hG
      · apply forall2_maps
        intro g0 hg0
        have hgV : ∀ x, (goalTerm g0).hasVar x = true → V x := fun x hx => Or.inr ⟨g0, hg0, hx⟩
        obtain ⟨h1, h2⟩ := himg_new (goalTerm g0) hgV
        exact ⟨h2, rfl, by rw [heq' _ h2, h1], ρ, rfl⟩

theorem maxVar_rule (h b : Term) : SLD.maxVar (SLD.rule h b) = Nat.max (SLD.maxVar h) (SLD.maxVar b) := by
  simp [SLD.rule, SLD.mk2, SLD.maxVar, SLD.maxVarArgs]

theorem thunk_head {fl : Bool} {tmpl : Term} {max : Nat} {cl : Clause} {h b : Term} (hcr : CRel fl cl h b)
    {N : Nat} {env : Env} {σ : Subst} {π : Nat → Nat} {D : Nat → Prop} {nv : Nat}
    (hsim : SimW tmpl N env σ π D nv)
    (F : Nat) (g : Term) (K : Cont) (id : Nat) (m : MS) (res : Pr × MS)
    (hN : N ≤ m.user.nextVar) (hg : InD D g) (hgs : Shape g)
    (hkey : functorName g = functorName h ∧ (argList g).length = (argList h).length)
    (hrun : evalThunk F (.clause cl (argList g) K env id) m = some res) :
    (∃ N', m.user.nextVar ≤ N' ∧ res = (failP, bump m N') ∧
        ∀ n θ2, Robinson.solve n [(img σ π g, SLD.shift nv h)] [] ≠ .mgu θ2) ∨
    (∃ fuel' env' N' K1 Bs, m.user.nextVar ≤ N' ∧ applyCont fuel' K1 env' (bump m N') = some res ∧
        (SLD.conjuncts b = Bs ∨ (Bs = [] ∧ b = .atom "true")) ∧
        (∀ n, Robinson.solve n [(img σ π g, SLD.shift nv h)] [] ≠ .clash) ∧
        ∀ n θ2, Robinson.solve n [(img σ π g, SLD.shift nv h)] [] = .mgu θ2 →
          ∃ σ' π' D' G1, SimW tmpl N' env' σ' π' D' (nv + SLD.maxVar (SLD.rule h b)) ∧
            (∀ v, D v → D' v) ∧
            (∀ t, InD D t → img σ' π' t = (img σ π t).subst (substOf θ2)) ∧
            (∀ G, ContGoals fl mo tmpl max K G → ContGoals fl mo tmpl max K1 (G1 ++ G)) ∧
            Forall2 (fun g1 bg => InD D' g1.1 ∧ g1.2 = id ∧
              img σ' π' g1.1 = (SLD.shift nv bg).subst (substOf θ2) ∧ ∃ ρ', g1.1 = bg.rename ρ') G1 Bs) := by
  have hlt : ∀ x, (h.hasVar x = true ∨ b.hasVar x = true) → x < SLD.maxVar (SLD.rule h b) := by
    intro x hx
    rw [maxVar_rule]
    rcases hx with hx | hx
    · exact Nat.lt_of_lt_of_le (hasVar_lt_maxVar h hx) (Nat.le_max_left _ _)
    · exact Nat.lt_of_lt_of_le (hasVar_lt_maxVar b hx) (Nat.le_max_right _ _)
  rcases thunk_head' (max := max) hcr hsim F g K id m res hN hg hgs hkey hrun (· + nv)
      (nv + SLD.maxVar (SLD.rule h b)) (Nat.le_add_right _ _) (fun x y _ _ hxy => by omega)
      (fun x u _ hu => by have := hsim.bnd u hu; omega) (fun x hx => by have := hlt x hx; omega) with
    ⟨N', hN', hres, hno⟩ | ⟨fuel', env', N', K1, Bs, hN', hcont, hBs, hnoclash, hok⟩
  · left
    refine ⟨N', hN', hres, fun n θ2 hr => ?_⟩
    rw [shift_eq_rename] at hr
    exact hno (substOf θ2) (solve_mgu_sound hr)
  · right
    refine ⟨fuel', env', N', K1, Bs, hN', hcont, hBs, ?_, ?_⟩
    · intro n hr; rw [shift_eq_rename] at hr; exact hnoclash n hr
    · intro n θ2 hr
      rw [shift_eq_rename] at hr
      obtain ⟨σ', π', D', G1, h1, h2, h3, h4, h5, _⟩ := hok (substOf θ2) (mguLike_of_solve hr)
      refine ⟨σ', π', D', G1, h1, h2, h3, h4, h5.imp ?_⟩
      intro g1 bg hgb
      rw [shift_eq_rename]; exact hgb

end PrologVerif.Refine
