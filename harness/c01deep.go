package main

// c01.deep: DEEP runs of tiny programs whose answers are known in closed form (by the obvious induction on
// N in the reference semantics): a variable handed down unbound through N activations and bound at the
// bottom, a result handed back up through N returns, the last element of a list of N, chains of N
// variable-to-variable bindings made in either direction.  The depths straddle every plausible internal
// limit (8, 64, 1024, 4096); the VM model is not run on them (its inner fuel is an artefact of the model).
//
//   payload  "<kind> <N>"      output  "ans <wire of X>, ..." | "err ..."

import (
	"fmt"
	"math/rand"
	"strconv"
	"strings"

	"github.com/ichiban/prolog/engine"
)

func init() {
	register(&stream{name: "c01.deep", gen: genC01Deep, run: runC01Deep})
}

const c01DeepProgram = `
pt([], R) :- R = done.
pt([_|T], R) :- pt(T, R).
len([], 0).
len([_|T], N) :- len(T, M), N is M + 1.
lst([X], X).
lst([_|T], X) :- lst(T, X).
down(z, X, X).
down(s(N), X, Y) :- down(N, X, Z), Y = Z.
both([], A, A).
both([E|T], A, R) :- both(T, A, R0), R = R0, E = R.
`

func genC01Deep(r *rand.Rand, n int, tier string) []string {
	ns := []int{1, 9, 70, 400, 1030, 1500, 2100, 3000, 4200}
	if tier == "thorough" {
		ns = append(ns, 6000, 9000)
	}
	var out []string
	for _, k := range []string{"pass", "len", "last", "down", "both", "chain", "chainr", "chainm"} {
		for _, n := range ns {
			out = append(out, fmt.Sprintf("%s %d", k, n))
		}
	}
	return out
}

func runC01Deep(payload string) string {
	f := strings.Fields(payload)
	n, err := strconv.Atoi(f[1])
	must(err)
	i, _ := newInterp("")
	must(i.Exec(c01DeepProgram))
	ints := make([]engine.Term, n)
	for k := range ints {
		ints[k] = engine.Integer(k + 1)
	}
	x := engine.NewVariable()
	var goal engine.Term
	tmpl := engine.Term(x)
	switch f[0] {
	case "pass":
		goal = compound("pt", engine.List(ints...), x)
	case "len":
		goal = compound("len", engine.List(ints...), x)
	case "last":
		goal = compound("lst", engine.List(ints...), x)
	case "down":
		var p engine.Term = atom("z")
		for k := 0; k < n; k++ {
			p = compound("s", p)
		}
		goal = compound("down", p, atom("done"), x)
	case "both":
		// every element of a list of N unbound variables ends up bound to the accumulator: X = the first one
		vs := make([]engine.Term, n)
		for k := range vs {
			vs[k] = engine.NewVariable()
		}
		goal = compound(",", compound("both", engine.List(vs...), atom("done"), engine.NewVariable()), compound("=", x, vs[0]))
	case "chain", "chainr", "chainm":
		// V0 = V1, ..., V(N-1) = VN and VN = done — made front to back, back to front, or from the middle outwards
		vs := make([]engine.Term, n+1)
		for k := range vs {
			vs[k] = engine.NewVariable()
		}
		var gs []engine.Term
		for k := 0; k < n; k++ {
			gs = append(gs, compound("=", vs[k], vs[k+1]))
		}
		switch f[0] {
		case "chainr":
			for a, b := 0, len(gs)-1; a < b; a, b = a+1, b-1 {
				gs[a], gs[b] = gs[b], gs[a]
			}
		case "chainm":
			var m []engine.Term
			for a, b := n/2, n/2+1; a >= 0 || b < n; a, b = a-1, b+1 {
				if a >= 0 {
					m = append(m, gs[a])
				}
				if b < n {
					m = append(m, gs[b])
				}
			}
			gs = m
		}
		gs = append(gs, compound("=", vs[n], atom("done")))
		goal = compound("=", x, vs[0])
		for k := len(gs) - 1; k >= 0; k-- {
			goal = compound(",", gs[k], goal)
		}
	default:
		panic("bad c01.deep kind " + f[0])
	}
	rows, err := solveAll(&i.VM, goal, tmpl, 3)
	out := "ans " + strings.Join(rows, " , ")
	if err != nil {
		out = errWire(err)
	}
	return out + fmt.Sprintf(" ### nt=1 kind=%s n=%d", f[0], n)
}
