package main

// C08: the standard order of terms (compare/3, the six comparison operators) and the sorting
// built-ins (sort/2, keysort/2, setof/3) on the REAL interpreter.
//
// Case payloads carry, for every term, (a) a RECIPE that says how to build it on the real engine
// (which Go representation: list / partial / charList / codeList / compound cells; or which
// built-in produces it: append/3, atom_chars/2, atom_codes/2, =../2, findall/3, a "..." literal
// read by the real parser under a double_quotes flag, a fact stored and fetched back; optionally
// behind a bound variable) and (b) the ABSTRACT term in the plain wire format, which is all the
// Lean model sees.  The runner checks that the recipe really built the abstract term
// (BUILD-MISMATCH otherwise), so "the answer depends only on the abstract term" is what the
// correspondence with the model establishes.

import (
	"context"
	"errors"
	"fmt"
	"math"
	"math/rand"
	"sort"
	"strconv"
	"strings"
	"time"
	"unicode/utf8"
	"unsafe"

	"github.com/ichiban/prolog"
	"github.com/ichiban/prolog/engine"
)

func init() {
	register(&stream{name: "c08.compare", gen: genC08Compare, run: runC08Compare})
	register(&stream{name: "c08.sort", gen: genC08Sort, run: runC08Sort})
}

// ---------------------------------------------------------------------------------------------
// abstract terms of the generator
// ---------------------------------------------------------------------------------------------

type ot8 struct {
	k    byte // 'V' 'A' 'I' 'F' 'S' 'C'
	n    int64
	bits uint64
	s    string
	args []*ot8
}

func gV(n int) *ot8               { return &ot8{k: 'V', n: int64(n)} }
func gA(s string) *ot8            { return &ot8{k: 'A', s: s} }
func gI(n int64) *ot8             { return &ot8{k: 'I', n: n} }
func gF(f float64) *ot8           { return &ot8{k: 'F', bits: math.Float64bits(f)} }
func gFb(b uint64) *ot8           { return &ot8{k: 'F', bits: b} }
func gS(n int) *ot8               { return &ot8{k: 'S', n: int64(n)} }
func gC(f string, as ...*ot8) *ot8 { return &ot8{k: 'C', s: f, args: as} }
func gCons(h, t *ot8) *ot8         { return gC(".", h, t) }
func ot8List(es []*ot8, tail *ot8) *ot8 {
	t := tail
	if t == nil {
		t = gA("[]")
	}
	for i := len(es) - 1; i >= 0; i-- {
		t = gCons(es[i], t)
	}
	return t
}

func (t *ot8) isCons() bool { return t.k == 'C' && t.s == "." && len(t.args) == 2 }
func (t *ot8) isNil() bool  { return t.k == 'A' && t.s == "[]" }

func (t *ot8) spine() ([]*ot8, *ot8) {
	var es []*ot8
	for t.isCons() {
		es = append(es, t.args[0])
		t = t.args[1]
	}
	return es, t
}

func (t *ot8) ground() bool {
	if t.k == 'V' {
		return false
	}
	for _, a := range t.args {
		if !a.ground() {
			return false
		}
	}
	return true
}

func (t *ot8) hasKind(k byte) bool {
	if t.k == k {
		return true
	}
	for _, a := range t.args {
		if a.hasKind(k) {
			return true
		}
	}
	return false
}

func isNaNBits(b uint64) bool { return b&0x7fffffffffffffff > 0x7ff0000000000000 }

func (t *ot8) hasNaN() bool {
	if t.k == 'F' && isNaNBits(t.bits) {
		return true
	}
	for _, a := range t.args {
		if a.hasNaN() {
			return true
		}
	}
	return false
}

func (t *ot8) depth() int {
	d := 0
	for _, a := range t.args {
		if x := a.depth(); x > d {
			d = x
		}
	}
	return d + 1
}

func (t *ot8) rank() int {
	switch t.k {
	case 'V':
		return 0
	case 'F':
		return 1
	case 'I':
		return 2
	case 'A':
		return 3
	case 'S':
		return 4
	}
	return 5
}

func (t *ot8) wire(sb *strings.Builder) {
	if sb.Len() > 0 {
		sb.WriteByte(' ')
	}
	switch t.k {
	case 'V':
		fmt.Fprintf(sb, "V%d", t.n)
	case 'A':
		sb.WriteString("A" + encName(t.s))
	case 'I':
		fmt.Fprintf(sb, "I%d", t.n)
	case 'F':
		fmt.Fprintf(sb, "F%016x", t.bits)
	case 'S':
		fmt.Fprintf(sb, "S%d", t.n)
	case 'C':
		fmt.Fprintf(sb, "C%d:%s", len(t.args), encName(t.s))
		for _, a := range t.args {
			a.wire(sb)
		}
	}
}

func (t *ot8) String() string {
	var sb strings.Builder
	t.wire(&sb)
	return sb.String()
}

// subst applies a variable aliasing (resolved: every key maps to its final representative)
func (t *ot8) subst(m map[int64]int64) *ot8 {
	switch t.k {
	case 'V':
		if w, ok := m[t.n]; ok {
			return gV(int(w))
		}
		return t
	case 'C':
		as := make([]*ot8, len(t.args))
		for i, a := range t.args {
			as[i] = a.subst(m)
		}
		return &ot8{k: 'C', s: t.s, args: as}
	}
	return t
}

// ---------------------------------------------------------------------------------------------
// recipes: how to build an abstract term on the real engine
// ---------------------------------------------------------------------------------------------

// text of a list of one-character atoms / of code points, if the list is one
func charsText(es []*ot8) (string, bool) {
	var sb strings.Builder
	for _, e := range es {
		if e.k != 'A' || utf8.RuneCountInString(e.s) != 1 || !utf8.ValidString(e.s) {
			return "", false
		}
		sb.WriteString(e.s)
	}
	return sb.String(), len(es) > 0
}

func codesText(es []*ot8) (string, bool) {
	var sb strings.Builder
	for _, e := range es {
		if e.k != 'I' || e.n < 1 || e.n > 0x10ffff || (e.n >= 0xd800 && e.n <= 0xdfff) {
			return "", false
		}
		sb.WriteRune(rune(e.n))
	}
	return sb.String(), len(es) > 0
}

// safe inside a double-quoted literal without escapes
func quotableText(s string) bool {
	for _, r := range s {
		if r == '"' || r == '\\' || r == '`' || r < 0x20 || r == 0x7f || (r >= 0x80 && r < 0xa0) {
			return false
		}
	}
	return true
}

// plainRecipe: compound cells only (used inside stored facts)
func plainRecipe(t *ot8) string { return t.String() }

func recipe(r *rand.Rand, t *ot8, fancy bool) string {
	s := recipe0(r, t, fancy)
	if fancy && t.k != 'V' && r.Intn(8) == 0 {
		return "W " + s
	}
	return s
}

func recipes(r *rand.Rand, ts []*ot8, fancy bool) string {
	parts := make([]string, len(ts))
	for i, t := range ts {
		parts[i] = recipe(r, t, fancy)
	}
	return strings.Join(parts, " ")
}

func recipe0(r *rand.Rand, t *ot8, fancy bool) string {
	if !fancy {
		return t.String()
	}
	switch t.k {
	case 'A':
		if r.Intn(6) == 0 && t.s != "" && quotableText(t.s) {
			return "Datom:" + encName(t.s)
		}
		return t.String()
	case 'C':
	default:
		return t.String()
	}
	if !t.isCons() {
		n := len(t.args)
		if r.Intn(5) == 0 {
			return fmt.Sprintf("U%d:%s %s", n, encName(t.s), recipes(r, t.args, fancy))
		}
		if t.ground() && !t.hasKind('S') && r.Intn(12) == 0 {
			return "St " + plainRecipe(t)
		}
		return fmt.Sprintf("C%d:%s %s", n, encName(t.s), recipes(r, t.args, fancy))
	}
	es, tail := t.spine()
	n := len(es)
	var opts []string
	opts = append(opts, "cells", "univ")
	if tail.isNil() {
		opts = append(opts, "L", "L", "app", "Ptail")
		if _, ok := charsText(es); ok {
			opts = append(opts, "Q", "Q", "Bchars", "Dchars")
		}
		if _, ok := codesText(es); ok {
			opts = append(opts, "K", "K", "Bcodes", "Dcodes")
		}
		if t.ground() && !t.hasKind('S') {
			opts = append(opts, "find", "St")
		}
	} else {
		opts = append(opts, "P", "P", "app")
	}
	for tries := 0; tries < 4; tries++ {
		switch pick(r, opts) {
		case "cells":
			return fmt.Sprintf("C2:. %s %s", recipe(r, t.args[0], fancy), recipe(r, t.args[1], fancy))
		case "univ":
			return fmt.Sprintf("U2:. %s %s", recipe(r, t.args[0], fancy), recipe(r, t.args[1], fancy))
		case "L":
			return fmt.Sprintf("L%d %s", n, recipes(r, es, fancy))
		case "P":
			return fmt.Sprintf("P%d %s %s", n, recipes(r, es, fancy), recipe(r, tail, fancy))
		case "Ptail":
			// a partial whose tail is the rest of the list in yet another representation
			if n < 2 {
				continue
			}
			k := 1 + r.Intn(n-1)
			return fmt.Sprintf("P%d %s %s", k, recipes(r, es[:k], fancy), recipe(r, ot8List(es[k:], nil), fancy))
		case "app":
			k := r.Intn(n + 1)
			return fmt.Sprintf("Bapp%d:%d %s %s", k, n, recipes(r, es, fancy), recipe(r, tail, fancy))
		case "Q":
			s, _ := charsText(es)
			return "Q" + encName(s)
		case "K":
			s, _ := codesText(es)
			return "K" + encName(s)
		case "Bchars":
			s, _ := charsText(es)
			return "Bchars:" + encName(s)
		case "Bcodes":
			s, _ := codesText(es)
			return "Bcodes:" + encName(s)
		case "Dchars":
			s, _ := charsText(es)
			if !quotableText(s) {
				continue
			}
			return "Dchars:" + encName(s)
		case "Dcodes":
			s, _ := codesText(es)
			if !quotableText(s) {
				continue
			}
			return "Dcodes:" + encName(s)
		case "find":
			return fmt.Sprintf("Bfind%d %s", n, recipes(r, es, fancy))
		case "St":
			return "St " + plainRecipe(t)
		}
	}
	return fmt.Sprintf("L%d %s", n, recipes(r, es, fancy))
}

// ---------------------------------------------------------------------------------------------
// building a recipe on the real engine
// ---------------------------------------------------------------------------------------------

type c08ctx struct {
	i       *prolog.Interpreter
	env     *engine.Env
	vars    []engine.Variable
	streams []*engine.Stream // sorted by address: S<k> is the k-th smallest
	strNum  map[*engine.Stream]int
	nstored int
	reps    map[string]bool
}

func newC08ctx(nv int) *c08ctx {
	i, _ := newInterp("")
	c := &c08ctx{i: i, strNum: map[*engine.Stream]int{}, reps: map[string]bool{}}
	for k := 0; k < nv; k++ {
		c.vars = append(c.vars, engine.NewVariable())
	}
	for k := 0; k < 3; k++ {
		c.streams = append(c.streams, engine.NewInputTextStream(strings.NewReader("")))
	}
	sort.Slice(c.streams, func(a, b int) bool {
		return uintptr(unsafe.Pointer(c.streams[a])) < uintptr(unsafe.Pointer(c.streams[b]))
	})
	for k, s := range c.streams {
		c.strNum[s] = k
	}
	return c
}

// varNums numbers the unbound variables reachable from the payload variables under env: an alias
// class gets the number of its smallest member.  (Every engine.Call renames the free variables of
// its goal to fresh ones in order of first occurrence, so variable identity has to be read back
// through the payload variables.)
func (c *c08ctx) varNums(env *engine.Env) map[engine.Variable]int {
	m := map[engine.Variable]int{}
	for k, v := range c.vars {
		if w, ok := env.Resolve(v).(engine.Variable); ok {
			if _, seen := m[w]; !seen {
				m[w] = k
			}
		}
	}
	return m
}

// inOrder prefixes a measured goal with a no-op that mentions the payload variables in order:
// Call renames free variables in order of first occurrence, so inside the goal the standard order
// of the (classes of) payload variables is their numbering.
func (c *c08ctx) inOrder(goal engine.Term) engine.Term {
	if len(c.vars) == 0 {
		return goal
	}
	vs := make([]engine.Term, len(c.vars))
	for k, v := range c.vars {
		vs[k] = v
	}
	t := atom("vs").Apply(vs...)
	return compound(",", compound("=", t, t), goal)
}

// call runs goal in the current env and keeps the env of the first answer.
func (c *c08ctx) call(goal engine.Term) error {
	var got *engine.Env
	ok := false
	ctx, cancel := context.WithTimeout(context.Background(), 10*time.Second)
	defer cancel()
	_, err := engine.Call(&c.i.VM, goal, func(env *engine.Env) *engine.Promise {
		got, ok = env, true
		return engine.Bool(true)
	}, c.env).Force(ctx)
	if err != nil {
		return err
	}
	if !ok {
		return fmt.Errorf("goal failed: %s", c.wire(goal, false))
	}
	c.env = got
	return nil
}

// count runs goal in the current env (bindings are discarded) and counts answers up to max.
func (c *c08ctx) count(goal engine.Term, max int) (int, error) {
	n := 0
	ctx, cancel := context.WithTimeout(context.Background(), 10*time.Second)
	defer cancel()
	_, err := engine.Call(&c.i.VM, c.inOrder(goal), func(env *engine.Env) *engine.Promise {
		n++
		return engine.Bool(n >= max)
	}, c.env).Force(ctx)
	return n, err
}

// first runs goal and returns wire(template) under the first answer ("" if none).
func (c *c08ctx) first(goal, template engine.Term, normZero bool) (string, bool, error) {
	out, ok := "", false
	ctx, cancel := context.WithTimeout(context.Background(), 10*time.Second)
	defer cancel()
	_, err := engine.Call(&c.i.VM, c.inOrder(goal), func(env *engine.Env) *engine.Promise {
		save := c.env
		c.env = env
		out, ok = c.wire(template, normZero), true
		c.env = save
		return engine.Bool(true)
	}, c.env).Force(ctx)
	return out, ok, err
}

func (c *c08ctx) enc(sb *strings.Builder, t engine.Term, normZero bool, vn map[engine.Variable]int) {
	if sb.Len() > 0 {
		sb.WriteByte(' ')
	}
	switch t := c.env.Resolve(t).(type) {
	case engine.Variable:
		if n, ok := vn[t]; ok {
			fmt.Fprintf(sb, "V%d", n)
		} else {
			sb.WriteString("V999999")
		}
	case engine.Atom:
		sb.WriteString("A" + encName(t.String()))
	case engine.Integer:
		fmt.Fprintf(sb, "I%d", int64(t))
	case engine.Float:
		b := math.Float64bits(float64(t))
		if normZero && b == 0x8000000000000000 {
			b = 0
		}
		fmt.Fprintf(sb, "F%016x", b)
	case engine.Compound:
		fmt.Fprintf(sb, "C%d:%s", t.Arity(), encName(t.Functor().String()))
		for i := 0; i < t.Arity(); i++ {
			c.enc(sb, t.Arg(i), normZero, vn)
		}
	case *engine.Stream:
		if n, ok := c.strNum[t]; ok {
			fmt.Fprintf(sb, "S%d", n)
		} else {
			sb.WriteString("S999999")
		}
	default:
		fmt.Fprintf(sb, "A%s", encName(fmt.Sprintf("$unknown(%T)", t)))
	}
}

// errWire: like errWire of run.go (variables renamed by first occurrence, context dropped) but with
// the streams numbered as in the payload.
func (c *c08ctx) errWire(err error) string {
	var ex engine.Exception
	if !errors.As(err, &ex) {
		return errWire(err)
	}
	t := ex.Term()
	kind := "ball "
	if cp, ok := t.(engine.Compound); ok && cp.Functor().String() == "error" && cp.Arity() == 2 {
		t, kind = cp.Arg(0), "err "
	}
	// number the variables by first occurrence
	vn := map[engine.Variable]int{}
	var walk func(t engine.Term)
	walk = func(t engine.Term) {
		switch t := t.(type) {
		case engine.Variable:
			if _, ok := vn[t]; !ok {
				vn[t] = len(vn)
			}
		case engine.Compound:
			for i := 0; i < t.Arity(); i++ {
				walk(t.Arg(i))
			}
		}
	}
	walk(t)
	save := c.env
	c.env = nil // exception terms are already resolved
	var sb strings.Builder
	c.enc(&sb, t, false, vn)
	c.env = save
	return kind + sb.String()
}

func (c *c08ctx) wire(t engine.Term, normZero bool) string {
	var sb strings.Builder
	c.enc(&sb, t, normZero, c.varNums(c.env))
	return sb.String()
}

// noteReps records which Go encodings occur in the (resolved) term.
func (c *c08ctx) noteReps(t engine.Term, depth int) {
	t = c.env.Resolve(t)
	rep := engine.VerifTermRep(t)
	if i := strings.IndexByte(rep, '('); i >= 0 {
		rep = rep[:i]
	}
	switch rep {
	case "list", "partial", "charList", "codeList", "compound":
		c.reps[rep] = true
	}
	if cp, ok := t.(engine.Compound); ok && depth < 40 {
		for i := 0; i < cp.Arity(); i++ {
			c.noteReps(cp.Arg(i), depth+1)
		}
	}
}

func (c *c08ctx) build(toks []string) (engine.Term, []string, error) {
	if len(toks) == 0 {
		return nil, nil, fmt.Errorf("unexpected end of recipe")
	}
	tok, rest := toks[0], toks[1:]
	buildN := func(n int, rest []string) ([]engine.Term, []string, error) {
		out := make([]engine.Term, n)
		for j := 0; j < n; j++ {
			var err error
			out[j], rest, err = c.build(rest)
			if err != nil {
				return nil, nil, err
			}
		}
		return out, rest, nil
	}
	viaGoal := func(mk func(out engine.Variable) engine.Term) (engine.Term, error) {
		out := engine.NewVariable()
		if err := c.call(mk(out)); err != nil {
			return nil, err
		}
		return out, nil
	}
	switch {
	case tok == "W":
		t, rest, err := c.build(rest)
		if err != nil {
			return nil, nil, err
		}
		v, err := viaGoal(func(out engine.Variable) engine.Term { return compound("=", out, t) })
		return v, rest, err
	case tok == "St":
		t, rest, err := c.build(rest)
		if err != nil {
			return nil, nil, err
		}
		c.nstored++
		key := engine.Integer(c.nstored)
		if err := c.call(compound("assertz", compound("c08_stored", key, t))); err != nil {
			return nil, nil, err
		}
		v, err := viaGoal(func(out engine.Variable) engine.Term { return compound("c08_stored", key, out) })
		return v, rest, err
	case tok[0] == 'V':
		n, err := strconv.Atoi(tok[1:])
		if err != nil || n >= len(c.vars) {
			return nil, nil, fmt.Errorf("bad variable %q", tok)
		}
		return c.vars[n], rest, nil
	case tok[0] == 'S':
		n, err := strconv.Atoi(tok[1:])
		if err != nil || n >= len(c.streams) {
			return nil, nil, fmt.Errorf("bad stream %q", tok)
		}
		return c.streams[n], rest, nil
	case tok[0] == 'A' || tok[0] == 'I' || tok[0] == 'F':
		d := newTermDecoder()
		t, _, err := d.dec([]string{tok})
		return t, rest, err
	case tok[0] == 'C' || tok[0] == 'U':
		i := strings.IndexByte(tok, ':')
		n, err := strconv.Atoi(tok[1:i])
		if err != nil {
			return nil, nil, err
		}
		f, err := decName(tok[i+1:])
		if err != nil {
			return nil, nil, err
		}
		args, rest, err := buildN(n, rest)
		if err != nil {
			return nil, nil, err
		}
		if tok[0] == 'C' {
			return engine.NewAtom(f).Apply(args...), rest, nil
		}
		v, err := viaGoal(func(out engine.Variable) engine.Term {
			return compound("=..", out, engine.List(append([]engine.Term{engine.NewAtom(f)}, args...)...))
		})
		return v, rest, err
	case tok[0] == 'L':
		n, err := strconv.Atoi(tok[1:])
		if err != nil {
			return nil, nil, err
		}
		es, rest, err := buildN(n, rest)
		return engine.List(es...), rest, err
	case tok[0] == 'P':
		n, err := strconv.Atoi(tok[1:])
		if err != nil {
			return nil, nil, err
		}
		es, rest, err := buildN(n+1, rest)
		if err != nil {
			return nil, nil, err
		}
		return engine.PartialList(es[n], es[:n]...), rest, nil
	case tok[0] == 'Q':
		s, err := decName(tok[1:])
		return engine.CharList(s), rest, err
	case tok[0] == 'K':
		s, err := decName(tok[1:])
		return engine.CodeList(s), rest, err
	case strings.HasPrefix(tok, "Bapp"):
		var k, n int
		if _, err := fmt.Sscanf(tok, "Bapp%d:%d", &k, &n); err != nil {
			return nil, nil, err
		}
		es, rest, err := buildN(n+1, rest)
		if err != nil {
			return nil, nil, err
		}
		prefix := engine.List(es[:k]...)
		suffix := engine.PartialList(es[n], es[k:n]...)
		v, err := viaGoal(func(out engine.Variable) engine.Term { return compound("append", prefix, suffix, out) })
		return v, rest, err
	case strings.HasPrefix(tok, "Bchars:") || strings.HasPrefix(tok, "Bcodes:"):
		s, err := decName(tok[7:])
		if err != nil {
			return nil, nil, err
		}
		name := "atom_chars"
		if tok[1] == 'c' && tok[2] == 'o' {
			name = "atom_codes"
		}
		v, err := viaGoal(func(out engine.Variable) engine.Term { return compound(name, engine.NewAtom(s), out) })
		return v, rest, err
	case strings.HasPrefix(tok, "Bfind"):
		n, err := strconv.Atoi(tok[5:])
		if err != nil {
			return nil, nil, err
		}
		es, rest, err := buildN(n, rest)
		if err != nil {
			return nil, nil, err
		}
		x := engine.NewVariable()
		v, err := viaGoal(func(out engine.Variable) engine.Term {
			return compound("findall", x, compound("member", x, engine.List(es...)), out)
		})
		return v, rest, err
	case tok[0] == 'D':
		i := strings.IndexByte(tok, ':')
		flag := tok[1:i]
		s, err := decName(tok[i+1:])
		if err != nil {
			return nil, nil, err
		}
		if err := c.call(compound("set_prolog_flag", atom("double_quotes"), atom(flag))); err != nil {
			return nil, nil, err
		}
		p := engine.NewParser(&c.i.VM, strings.NewReader("\""+s+"\"."))
		t, err := p.Term()
		return t, rest, err
	}
	return nil, nil, fmt.Errorf("bad recipe token %q", tok)
}

func (c *c08ctx) buildOne(rec string) (engine.Term, error) {
	t, rest, err := c.build(strings.Fields(rec))
	if err != nil {
		return nil, err
	}
	if len(rest) != 0 {
		return nil, fmt.Errorf("trailing recipe tokens %v", rest)
	}
	return t, nil
}

// buildChecked builds the recipe and verifies that it denotes the abstract term.
func (c *c08ctx) buildChecked(rec, abs string) (engine.Term, string) {
	t, err := c.buildOne(rec)
	if err != nil {
		return nil, "BUILD-ERROR " + encName(err.Error())
	}
	if got := c.wire(t, false); got != abs {
		return nil, "BUILD-MISMATCH got=" + encName(got) + " want=" + encName(abs)
	}
	c.noteReps(t, 0)
	return t, ""
}

func (c *c08ctx) alias(spec string) error {
	if spec == "" || spec == "-" {
		return nil
	}
	for _, p := range strings.Split(spec, ",") {
		var a, b int
		if _, err := fmt.Sscanf(p, "%d>%d", &a, &b); err != nil {
			return err
		}
		if err := c.call(compound("=", c.vars[a], c.vars[b])); err != nil {
			return err
		}
	}
	return nil
}

func (c *c08ctx) repTags() string {
	var ks []string
	for k := range c.reps {
		ks = append(ks, k)
	}
	sort.Strings(ks)
	var sb strings.Builder
	for _, k := range ks {
		sb.WriteString(" rep_" + k + "=1")
	}
	return sb.String()
}

func splitBar(s string) []string {
	parts := strings.Split(s, "|")
	for i := range parts {
		parts[i] = strings.TrimSpace(parts[i])
	}
	return parts
}

func kvField(s, key string) string {
	for _, f := range strings.Fields(s) {
		if strings.HasPrefix(f, key+"=") {
			return f[len(key)+1:]
		}
	}
	return ""
}

// ---------------------------------------------------------------------------------------------
// generators: abstract terms
// ---------------------------------------------------------------------------------------------

var c08Atoms = []string{"a", "b", "c", "ab", "abc", "abd", "aB", "B", "", "[]", "{}", "e", "é", "z", "€", "ÿ", "😀", "ｚ",
	"a b", "-", ".", "~", "f", "g", "foo", "fop", "\u007f", "\u0080", "퟿", "", "\U0010ffff", "é€", "éa"}
var c08Ints = []int64{0, 1, -1, 2, 3, 10, 97, 98, 99, 233, 8364, math.MaxInt64, math.MinInt64, 1 << 53, (1 << 53) + 1}
var c08Floats = []float64{0, math.Copysign(0, -1), 1, -1, 2, 3, 1.5, 10, 97, 0.1, -0.1, math.MaxFloat64, -math.MaxFloat64,
	math.SmallestNonzeroFloat64, -math.SmallestNonzeroFloat64, 1 << 53, 9.223372036854775807e18}
var c08Functors = []string{"f", "g", "foo", "-", ".", "é", "ab", "a", "[]", "{}"}

func genLeaf(r *rand.Rand, nv int) *ot8 {
	switch k := r.Intn(100); {
	case k < 18:
		return gV(r.Intn(nv))
	case k < 36:
		return gI(pick(r, c08Ints))
	case k < 54:
		return gF(pick(r, c08Floats))
	case k < 57:
		return gS(r.Intn(3))
	default:
		return gA(pick(r, c08Atoms))
	}
}

func genListElems(r *rand.Rand, nv, depth int) []*ot8 {
	n := r.Intn(5)
	es := make([]*ot8, n)
	switch r.Intn(5) {
	case 0: // characters
		for i := range es {
			es[i] = gA(pick(r, []string{"a", "b", "c", "é", "€", "z", "😀", " "}))
		}
	case 1: // codes
		for i := range es {
			es[i] = gI(pick(r, []int64{97, 98, 99, 233, 8364, 122, 128512, 32}))
		}
	default:
		for i := range es {
			es[i] = genTerm(r, nv, depth-1)
		}
	}
	return es
}

func genTerm(r *rand.Rand, nv, depth int) *ot8 {
	if depth <= 0 || r.Intn(3) == 0 {
		return genLeaf(r, nv)
	}
	switch r.Intn(4) {
	case 0, 1: // a list (proper, partial or improper)
		es := genListElems(r, nv, depth)
		var tail *ot8
		switch r.Intn(8) {
		case 0:
			tail = gV(r.Intn(nv))
		case 1:
			tail = genLeaf(r, nv)
		}
		return ot8List(es, tail)
	default:
		n := 1 + r.Intn(3)
		as := make([]*ot8, n)
		for i := range as {
			as[i] = genTerm(r, nv, depth-1)
		}
		return gC(pick(r, c08Functors), as...)
	}
}

// mutate returns a term close to t in the standard order: same shape, one place changed
func mutate(r *rand.Rand, t *ot8, nv int) *ot8 {
	switch r.Intn(10) {
	case 0:
		return t // identical (possibly another representation)
	case 1:
		return genTerm(r, nv, 2)
	}
	switch t.k {
	case 'C':
		if t.isCons() && r.Intn(4) == 0 {
			// the same text as a list of characters <-> a list of codes (different terms, similar encodings)
			es, tail := t.spine()
			if tail.isNil() {
				if s, ok := charsText(es); ok {
					var cs []*ot8
					for _, c := range s {
						cs = append(cs, gI(int64(c)))
					}
					return ot8List(cs, nil)
				}
				if s, ok := codesText(es); ok {
					var cs []*ot8
					for _, c := range s {
						cs = append(cs, gA(string(c)))
					}
					return ot8List(cs, nil)
				}
			}
		}
		switch r.Intn(6) {
		case 0: // other functor, same args
			return &ot8{k: 'C', s: pick(r, c08Functors), args: t.args}
		case 1: // drop or add an argument
			if len(t.args) > 1 && r.Intn(2) == 0 {
				return &ot8{k: 'C', s: t.s, args: t.args[:len(t.args)-1]}
			}
			return &ot8{k: 'C', s: t.s, args: append(append([]*ot8{}, t.args...), genLeaf(r, nv))}
		case 2: // swap two arguments
			if len(t.args) >= 2 {
				as := append([]*ot8{}, t.args...)
				i, j := r.Intn(len(as)), r.Intn(len(as))
				as[i], as[j] = as[j], as[i]
				return &ot8{k: 'C', s: t.s, args: as}
			}
		}
		as := append([]*ot8{}, t.args...)
		i := r.Intn(len(as))
		as[i] = mutate(r, as[i], nv)
		return &ot8{k: 'C', s: t.s, args: as}
	case 'A':
		switch r.Intn(4) {
		case 0:
			return gA(t.s + pick(r, []string{"a", "b", "é", " ", "€"})) // t is a proper prefix
		case 1:
			if len(t.s) > 0 {
				_, n := utf8.DecodeLastRuneInString(t.s)
				return gA(t.s[:len(t.s)-n])
			}
		case 2:
			return gA(pick(r, c08Atoms))
		}
		return genLeaf(r, nv)
	case 'I':
		switch r.Intn(4) {
		case 0:
			return gF(float64(t.n)) // numerically equal float
		case 1:
			if t.n < math.MaxInt64 {
				return gI(t.n + 1)
			}
		case 2:
			return gI(pick(r, c08Ints))
		}
		return genLeaf(r, nv)
	case 'F':
		f := math.Float64frombits(t.bits)
		switch r.Intn(5) {
		case 0:
			if f == math.Trunc(f) && math.Abs(f) < 1e18 {
				return gI(int64(f)) // numerically equal integer
			}
		case 1:
			return gF(-f)
		case 2:
			if g := math.Nextafter(f, math.Inf(1)); !math.IsInf(g, 0) {
				return gF(g)
			}
		case 3:
			return gF(pick(r, c08Floats))
		}
		return genLeaf(r, nv)
	case 'V':
		if r.Intn(2) == 0 {
			return gV(r.Intn(nv))
		}
	}
	return genLeaf(r, nv)
}

// aliasing: "a>b" means the goal Va = Vb is run before the terms are built.  In the abstract terms
// an alias class is named by its smallest member (see varNums).
func genAliases(r *rand.Rand, nv int) (string, map[int64]int64) {
	if r.Intn(5) != 0 || nv < 2 {
		return "-", map[int64]int64{}
	}
	cls := make([]int64, nv)
	for k := range cls {
		cls[k] = int64(k)
	}
	var parts []string
	for k := 1 + r.Intn(2); k > 0; k-- {
		a, b := r.Intn(nv), r.Intn(nv)
		parts = append(parts, fmt.Sprintf("%d>%d", a, b))
		ca, cb := cls[a], cls[b]
		lo, hi := ca, cb
		if hi < lo {
			lo, hi = hi, lo
		}
		for j := range cls {
			if cls[j] == hi {
				cls[j] = lo
			}
		}
	}
	m := map[int64]int64{}
	for k, c := range cls {
		if c != int64(k) {
			m[int64(k)] = c
		}
	}
	return strings.Join(parts, ","), m
}

// ---------------------------------------------------------------------------------------------
// c08.compare
// ---------------------------------------------------------------------------------------------

var c08Ops = []string{"@<", "@=<", "@>", "@>=", "==", "\\=="}

// c08Base: a fixed set of (recipe, abstract term) covering every type with near values and the
// list [a,b] / its code list in every representation.  ALL ordered pairs over it are always run
// (every pairing of two Compare methods and of two encodings is hit, not just sampled); the
// thorough tier adds all triples over a sub-set.
func c08Base() [][2]string {
	ab := "C2:. Aa C2:. Ab A%5b%5d"
	abCodes := "C2:. I97 C2:. I98 A%5b%5d"
	plain := []string{"V0", "V1", "Fbff0000000000000", "F8000000000000000", "F0000000000000000", "F3ff0000000000000",
		"I0", "I1", "A", "Aa", "Aab", "A%c3%a9", "S0", "S1", "C1:f Aa", "C1:f Ab", "C1:g Aa", "C2:f Aa Aa",
		ab, "C2:. Aa C2:. Ab C2:. Ac A%5b%5d", "C2:. Aa V0", abCodes}
	var out [][2]string
	for _, t := range plain {
		out = append(out, [2]string{t, t})
	}
	for _, rec := range []string{"Qab", "L2 Aa Ab", "Bchars:ab", "P1 Aa L1 Ab", "Bapp1:2 Aa Ab A%5b%5d", "Dchars:ab", "W U2:. Aa Qb"} {
		out = append(out, [2]string{rec, ab})
	}
	for _, rec := range []string{"Kab", "Bcodes:ab", "Dcodes:ab"} {
		out = append(out, [2]string{rec, abCodes})
	}
	out = append(out, [2]string{"P1 Aa V0", "C2:. Aa V0"})
	return out
}

func genC08Exhaustive(tier string) []string {
	var out []string
	b := c08Base()
	for _, x := range b {
		for _, y := range b {
			out = append(out, fmt.Sprintf("tri | nv=2 al=- | %s | %s | %s | %s | %s | %s", x[0], y[0], x[0], x[1], y[1], x[1]))
		}
	}
	if tier == "thorough" {
		sub := b[:18]
		for _, x := range sub {
			for _, y := range sub {
				for _, z := range sub {
					if x[0] == z[0] {
						continue
					}
					out = append(out, fmt.Sprintf("tri | nv=2 al=- | %s | %s | %s | %s | %s | %s", x[0], y[0], z[0], x[1], y[1], z[1]))
				}
			}
		}
	}
	return out
}

func genC08Compare(r *rand.Rand, n int, tier string) []string {
	out := genC08Exhaustive(tier)
	for i := 0; i < n; i++ {
		if r.Intn(25) == 0 {
			// compare/3 with an arbitrary first argument
			var o *ot8
			switch r.Intn(8) {
			case 0:
				o = gV(0)
			case 1:
				o = gA("<")
			case 2:
				o = gA("=")
			case 3:
				o = gA(">")
			case 4:
				o = gA(pick(r, []string{"=<", "foo", "==", ""}))
			case 5:
				o = gI(pick(r, c08Ints))
			case 6:
				o = gC("f", gA("<"))
			default:
				o = gF(1.5)
			}
			x := genTerm(r, 3, 2)
			y := mutate(r, x, 3)
			out = append(out, fmt.Sprintf("cmp3 | nv=3 | %s | %s | %s", o, x, y))
			continue
		}
		nv := 4
		x := genTerm(r, nv, 3)
		y := mutate(r, x, nv)
		z := mutate(r, y, nv)
		if r.Intn(3) == 0 {
			z = mutate(r, x, nv)
		}
		ts := []*ot8{x, y, z}
		r.Shuffle(3, func(a, b int) { ts[a], ts[b] = ts[b], ts[a] })
		if r.Intn(60) == 0 {
			// a NaN injected directly (not constructible on a correct engine): model correspondence only
			ts[r.Intn(3)] = gFb(pick(r, []uint64{0x7ff8000000000001, 0xfff8000000000000, 0x7ff0000000000001}))
		}
		al, m := genAliases(r, nv)
		fancy := r.Intn(5) != 0
		rec := make([]string, 3)
		abs := make([]string, 3)
		for k, t := range ts {
			rec[k] = recipe(r, t, fancy)
			abs[k] = t.subst(m).String()
		}
		out = append(out, fmt.Sprintf("tri | nv=%d al=%s | %s | %s | %s | %s | %s | %s", nv, al,
			rec[0], rec[1], rec[2], abs[0], abs[1], abs[2]))
	}
	return out
}

func orderChar(t engine.Term, env *engine.Env) string {
	if a, ok := env.Resolve(t).(engine.Atom); ok {
		return a.String()
	}
	return "?"
}

func runC08Compare(payload string) string {
	f := splitBar(payload)
	switch f[0] {
	case "tri":
		if len(f) != 8 {
			panic("bad tri payload")
		}
		nv, _ := strconv.Atoi(kvField(f[1], "nv"))
		c := newC08ctx(nv)
		must(c.alias(kvField(f[1], "al")))
		var ts [3]engine.Term
		for k := 0; k < 3; k++ {
			t, msg := c.buildChecked(f[2+k], f[5+k])
			if msg != "" {
				return fmt.Sprintf("%s term=%d", msg, k+1)
			}
			ts[k] = t
		}
		var res []string
		eqPairs := 0
		for a := 0; a < 3; a++ {
			for b := 0; b < 3; b++ {
				o := engine.NewVariable()
				oc, ok, err := c.first(compound("compare", o, ts[a], ts[b]), o, false)
				if err != nil {
					return errWire(err)
				}
				if !ok {
					oc = "false"
				}
				ch := strings.TrimPrefix(oc, "A")
				if d, err := decName(ch); err == nil {
					ch = d
				}
				if ch == "=" && a != b {
					eqPairs++
				}
				var sb strings.Builder
				sb.WriteString(ch)
				for _, op := range c08Ops {
					n, err := c.count(compound(op, ts[a], ts[b]), 3)
					if err != nil {
						return errWire(err)
					}
					sb.WriteString(strconv.Itoa(n))
				}
				res = append(res, sb.String())
			}
		}
		var sb strings.Builder
		sb.WriteString("b:")
		for _, o := range []string{"<", "=", ">"} {
			n, err := c.count(compound("compare", atom(o), ts[0], ts[1]), 3)
			if err != nil {
				return errWire(err)
			}
			sb.WriteString(strconv.Itoa(n))
		}
		res = append(res, sb.String())
		// tags
		d := newTermDecoder()
		_ = d
		abs := make([]*ot8, 3)
		for k := 0; k < 3; k++ {
			abs[k] = parseOT8(f[5+k])
		}
		sameRank := 0
		ranks := []int{abs[0].rank(), abs[1].rank(), abs[2].rank()}
		for a := 0; a < 3; a++ {
			for b := a + 1; b < 3; b++ {
				if ranks[a] == ranks[b] {
					sameRank++
				}
			}
		}
		nt := 0
		if sameRank > 0 && eqPairs < 6 {
			nt = 1
		}
		sort.Ints(ranks)
		nan := 0
		maxd := 0
		for _, t := range abs {
			if t.hasNaN() {
				nan = 1
			}
			if x := t.depth(); x > maxd {
				maxd = x
			}
		}
		al := 0
		if kvField(f[1], "al") != "-" {
			al = 1
		}
		return strings.Join(res, " ") + fmt.Sprintf(" ### nt=%d kind=tri types=%d%d%d eq_pairs=%d alias=%d nan=%d depth=%d%s",
			nt, ranks[0], ranks[1], ranks[2], eqPairs, al, nan, maxd, c.repTags())
	case "cmp3":
		nv, _ := strconv.Atoi(kvField(f[1], "nv"))
		c := newC08ctx(nv)
		o, err := c.buildOne(f[2])
		must(err)
		x, err := c.buildOne(f[3])
		must(err)
		y, err := c.buildOne(f[4])
		must(err)
		w, ok, err := c.first(compound("compare", o, x, y), o, false)
		kind := "ok"
		var out string
		switch {
		case err != nil:
			out, kind = c.errWire(err), "err"
		case !ok:
			out, kind = "false", "fail"
		default:
			out = "true " + w
		}
		return out + " ### nt=1 kind=cmp3 cmp3=" + kind
	case "arith":
		// probe: can is/2 produce a NaN or an infinity?  (corpus only)
		c := newC08ctx(1)
		src, err := decName(f[1])
		must(err)
		p := engine.NewParser(&c.i.VM, strings.NewReader(src+"."))
		e, err := p.Term()
		must(err)
		x := c.vars[0]
		w, ok, err := c.first(compound("is", x, e), x, false)
		if err != nil {
			return errWire(err) + " ### nt=0 kind=arith"
		}
		if !ok {
			return "false ### nt=0 kind=arith"
		}
		// what compare/3 makes of it
		o1, o2 := engine.NewVariable(), engine.NewVariable()
		w2, _, err := c.first(compound(",", compound("is", x, e), compound(",", compound("compare", o1, x, engine.Float(1)), compound("compare", o2, x, engine.Float(2)))),
			compound("r", o1, o2), false)
		if err != nil {
			return errWire(err) + " ### nt=0 kind=arith"
		}
		return "val " + w + " cmp " + w2 + " ### nt=1 kind=arith"
	}
	panic("bad c08.compare payload kind " + f[0])
}

// parseOT8 parses a plain abstract wire term.
func parseOT8(s string) *ot8 {
	toks := strings.Fields(s)
	t, rest := parseGT0(toks)
	if len(rest) != 0 {
		panic("parseOT8: trailing tokens")
	}
	return t
}

func parseGT0(toks []string) (*ot8, []string) {
	tok, rest := toks[0], toks[1:]
	switch tok[0] {
	case 'V':
		n, _ := strconv.Atoi(tok[1:])
		return gV(n), rest
	case 'A':
		s, _ := decName(tok[1:])
		return gA(s), rest
	case 'I':
		n, _ := strconv.ParseInt(tok[1:], 10, 64)
		return gI(n), rest
	case 'F':
		n, _ := strconv.ParseUint(tok[1:], 16, 64)
		return gFb(n), rest
	case 'S':
		n, _ := strconv.Atoi(tok[1:])
		return gS(n), rest
	case 'C':
		i := strings.IndexByte(tok, ':')
		n, _ := strconv.Atoi(tok[1:i])
		f, _ := decName(tok[i+1:])
		as := make([]*ot8, n)
		for j := 0; j < n; j++ {
			as[j], rest = parseGT0(rest)
		}
		return gC(f, as...), rest
	}
	panic("parseOT8: bad token " + tok)
}

// ---------------------------------------------------------------------------------------------
// c08.sort
// ---------------------------------------------------------------------------------------------

func genSortElems(r *rand.Rand, nv int, pairs bool) []*ot8 {
	var n int
	switch r.Intn(10) {
	case 0:
		n = 0
	case 1:
		n = 1
	case 2, 3:
		n = 13 + r.Intn(18) // beyond Go's insertion-sort threshold (12)
	default:
		n = 2 + r.Intn(11)
	}
	pool := make([]*ot8, 1+r.Intn(6)) // a small pool makes duplicates and `=` keys frequent
	for i := range pool {
		pool[i] = genTerm(r, nv, 2)
	}
	es := make([]*ot8, n)
	for i := range es {
		var k *ot8
		switch r.Intn(6) {
		case 0:
			k = genTerm(r, nv, 2)
		case 1:
			k = mutate(r, pick(r, pool), nv)
		default:
			k = pick(r, pool)
		}
		if pairs {
			es[i] = gC("-", k, pick(r, []*ot8{gI(int64(i)), gA(pick(r, c08Atoms)), gV(r.Intn(nv)), gI(int64(r.Intn(3)))}))
		} else {
			es[i] = k
		}
	}
	return es
}

func genC08Sort(r *rand.Rand, n int, tier string) []string {
	var out []string
	for i := 0; i < n; i++ {
		nv := 6 // V4, V5 are reserved for the Sorted argument (fresh, unbound)
		kind := "sort"
		switch k := r.Intn(10); {
		case k < 4:
			kind = "keysort"
		case k == 4:
			kind = "setof"
		}
		es := genSortElems(r, nv-2, kind == "keysort")
		if kind == "setof" {
			for j := range es {
				if !es[j].ground() || es[j].hasKind('S') {
					es[j] = gA(pick(r, c08Atoms))
				}
			}
		}
		list := ot8List(es, nil)
		sorted := gV(nv - 1)
		// malformed share
		if kind != "setof" {
			switch r.Intn(20) {
			case 0: // partial list
				list = ot8List(es, gV(r.Intn(nv-2)))
			case 1: // improper list / non-list
				list = ot8List(es, pick(r, []*ot8{gA("foo"), gI(1), gC("f", gA("a"))}))
			case 2: // a bad element (keysort) — harmless for sort
				if len(es) > 0 {
					es2 := append([]*ot8{}, es...)
					es2[r.Intn(len(es2))] = pick(r, []*ot8{gV(r.Intn(nv - 2)), gA("a"), gC("-", gA("a")), gC("+", gA("a"), gA("b")), gI(3)})
					list = ot8List(es2, nil)
				}
			case 3: // Sorted is not a list
				sorted = pick(r, []*ot8{gA("foo"), gI(1), gC("f", gA("a")), ot8List([]*ot8{gA("a")}, gA("foo"))})
			case 4, 5: // Sorted is a partial list of fresh variables
				sorted = ot8List([]*ot8{gV(nv - 2)}, gV(nv-1))
			case 6: // Sorted is a partial list with a non-pair (an error for keysort only)
				if kind == "keysort" {
					sorted = ot8List([]*ot8{gA("a")}, gV(nv-1))
				}
			}
		}
		fancy := r.Intn(4) != 0
		out = append(out, fmt.Sprintf("%s | nv=%d | %s | %s | %s | %s", kind, nv,
			recipe(r, list, fancy), recipe(r, sorted, false), list, sorted))
	}
	return out
}

// metamorphic re-runs on the real engine: sorting the answer again changes nothing (sort_idempotent,
// keysort by stability); sorting the reversed input gives the same answer (sort_perm_invariant).
func (c *c08ctx) metamorphic(kind string, list engine.Term, w string) string {
	norm := kind != "keysort"
	pred := kind
	if kind == "setof" {
		pred = "sort"
	}
	s1, s2 := engine.NewVariable(), engine.NewVariable()
	w2, ok, err := c.first(compound(",", compound(pred, list, s1), compound(pred, s1, s2)), s2, norm)
	idem := "same"
	if err != nil || !ok || w2 != w {
		idem = "diff"
	}
	if kind == "keysort" {
		return "idem=" + idem
	}
	var es []engine.Term
	iter := engine.ListIterator{List: list, Env: c.env}
	for iter.Next() {
		es = append(es, iter.Current())
	}
	for i, j := 0, len(es)-1; i < j; i, j = i+1, j-1 {
		es[i], es[j] = es[j], es[i]
	}
	s3 := engine.NewVariable()
	w3, ok, err := c.first(compound(pred, engine.List(es...), s3), s3, norm)
	perm := "same"
	if err != nil || !ok || w3 != w {
		perm = "diff"
	}
	return "idem=" + idem + " perm=" + perm
}

func runC08Sort(payload string) string {
	f := splitBar(payload)
	if len(f) != 6 {
		panic("bad c08.sort payload")
	}
	kind := f[0]
	nv, _ := strconv.Atoi(kvField(f[1], "nv"))
	c := newC08ctx(nv)
	list, msg := c.buildChecked(f[2], f[4])
	if msg != "" {
		return msg + " arg=list"
	}
	sorted, msg := c.buildChecked(f[3], f[5])
	if msg != "" {
		return msg + " arg=sorted"
	}
	var goal engine.Term
	switch kind {
	case "sort", "keysort":
		goal = compound(kind, list, sorted)
	case "setof":
		x := engine.NewVariable()
		goal = compound("setof", x, compound("member", x, list), sorted)
	default:
		panic("bad c08.sort kind " + kind)
	}
	w, ok, err := c.first(goal, sorted, kind != "keysort")
	abs := parseOT8(f[4])
	es, tail := abs.spine()
	res := "ans"
	var out string
	switch {
	case err != nil:
		out, res = c.errWire(err), "err"
	case !ok:
		out, res = "false", "false"
	default:
		out = "ans " + w
		if _, isVar := c.env.Resolve(sorted).(engine.Variable); isVar {
			out += " ; " + c.metamorphic(kind, list, w)
		}
	}
	// non-trivial: a well-formed call on ≥ 3 elements whose answer differs from its input
	// (something had to be moved or removed)
	nt := 0
	if res == "ans" && len(es) >= 3 && !strings.HasPrefix(out, "ans "+f[4]+" ;") && out != "ans "+f[4] {
		nt = 1
	}
	size := "0"
	switch n := len(es); {
	case n == 0:
	case n <= 2:
		size = "1-2"
	case n <= 12:
		size = "3-12"
	default:
		size = "13-30"
	}
	wf := 1
	if !tail.isNil() {
		wf = 0
	}
	vars := 0
	if abs.hasKind('V') {
		vars = 1
	}
	return out + fmt.Sprintf(" ### nt=%d kind=%s result=%s size=%s proper=%d vars=%d%s", nt, kind, res, size, wf, vars, c.repTags())
}
