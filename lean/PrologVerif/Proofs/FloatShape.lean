/-
  Floats: the text `Float.WriteTerm` makes of any 'g'-format output of `strconv.FormatFloat`
  (`-?d+(.d+)?(e[+-]d+)?`) is, after the optional sign, ONE float number token.
-/
import PrologVerif.Proofs.LexTokens
set_option linter.unusedSimpArgs false
set_option linter.unusedVariables false
namespace PrologVerif.Write
open PrologVerif PrologVerif.Lexer

variable (cfg : Cfg)

/-- the grammar of `strconv.FormatFloat(f, 'g', -1, 64)` for finite `f` -/
structure GText where
  neg : Bool
  ip : List Char                     -- integer digits
  fp : List Char                     -- fraction digits; empty = no `.`
  ex : Option (Bool × List Char)     -- exponent: sign (`true` = `-`) and digits

def GText.WF (g : GText) : Prop :=
  g.ip ≠ [] ∧ (∀ d ∈ g.ip, DecD d) ∧ (∀ d ∈ g.fp, DecD d) ∧
  ∀ sg ds, g.ex = some (sg, ds) → ds ≠ [] ∧ ∀ d ∈ ds, DecD d

def expText : Option (Bool × List Char) → List Char
  | none => []
  | some (sg, ds) => 'e' :: (if sg then '-' else '+') :: ds

def signText (neg : Bool) : List Char := if neg then ['-'] else []

/-- the text `FormatFloat` returns -/
def GText.render (g : GText) : List Char :=
  signText g.neg ++ g.ip ++ (if g.fp = [] then [] else '.' :: g.fp) ++ expText g.ex

/-- the number part of what `Float.WriteTerm` writes: always with a fraction -/
def GText.body (g : GText) : List Char :=
  g.ip ++ '.' :: (if g.fp = [] then ['0'] else g.fp) ++ expText g.ex

theorem decD_ne (d : Char) (h : DecD d) : d ≠ '.' ∧ d ≠ 'e' ∧ d ≠ 'E' ∧ d ≠ '-' ∧ d ≠ '+' := by
  obtain ⟨k, hk, rfl⟩ := h
  have h10 : k = 0 ∨ k = 1 ∨ k = 2 ∨ k = 3 ∨ k = 4 ∨ k = 5 ∨ k = 6 ∨ k = 7 ∨ k = 8 ∨ k = 9 := by omega
  rcases h10 with h|h|h|h|h|h|h|h|h|h <;> subst h <;> decide

theorem not_mem_digits (ds : List Char) (h : ∀ d ∈ ds, DecD d) : '.' ∉ ds ∧ 'e' ∉ ds := by
  constructor <;> intro hm
  · exact (decD_ne _ (h _ hm)).1 rfl
  · exact (decD_ne _ (h _ hm)).2.1 rfl

theorem takeWhile_split (p : Char → Bool) (xs : List Char) (c : Char) (rest : List Char)
    (hx : ∀ d ∈ xs, p d = true) (hc : p c = false) :
    (xs ++ c :: rest).takeWhile p = xs ∧ (xs ++ c :: rest).dropWhile p = c :: rest := by
  induction xs with
  | nil => simp [List.takeWhile, List.dropWhile, hc]
  | cons d xs ih =>
    have hd := hx d (by simp)
    obtain ⟨i1, i2⟩ := ih (fun x hx' => hx x (by simp [hx']))
    simp only [List.cons_append, List.takeWhile, List.dropWhile, hd, i1, i2, and_self]

/-- what the patch of `Float.WriteTerm` does to a 'g' text: the sign, then the body -/
theorem patchFloat_render (g : GText) (hg : g.WF) : patchFloat g.render = signText g.neg ++ g.body := by
  obtain ⟨h1, h2, h3, h4⟩ := hg
  obtain ⟨ip1, ip2⟩ := not_mem_digits g.ip h2
  obtain ⟨fp1, fp2⟩ := not_mem_digits g.fp h3
  have sg1 : '.' ∉ signText g.neg := by unfold signText; split <;> simp
  have sg2 : 'e' ∉ signText g.neg := by unfold signText; split <;> simp
  unfold patchFloat GText.render GText.body
  by_cases hfp : g.fp = []
  · simp only [hfp, if_true, List.append_nil]
    cases hex : g.ex with
    | none =>
      simp [expText, sg1, sg2, ip1, ip2]
    | some p =>
      obtain ⟨sg, ds⟩ := p
      obtain ⟨e1, e2⟩ := h4 sg ds hex
      obtain ⟨ds1, ds2⟩ := not_mem_digits ds e2
      have hdot : '.' ∉ signText g.neg ++ g.ip ++ expText (some (sg, ds)) := by
        simp only [expText, List.mem_append, List.mem_cons, not_or]
        refine ⟨⟨sg1, ip1⟩, by decide, ?_, ds1⟩
        split <;> decide
      have he : 'e' ∈ signText g.neg ++ g.ip ++ expText (some (sg, ds)) := by simp [expText]
      simp only [hdot, if_false, he, if_true]
      have hsd : ∀ d ∈ signText g.neg ++ g.ip, d ≠ 'e' := by
        intro d hd
        simp only [List.mem_append] at hd
        rcases hd with hd | hd
        · intro e; subst e; exact sg2 hd
        · exact (decD_ne d (h2 d hd)).2.1
      obtain ⟨t1, t2⟩ := takeWhile_split (· ≠ 'e') (signText g.neg ++ g.ip) 'e' ((if sg then '-' else '+') :: ds)
        (fun d hd => by simpa using hsd d hd) (by simp)
      simp only [expText] at t1 t2 ⊢
      rw [t1, t2]
      simp
  · have : '.' ∈ signText g.neg ++ g.ip ++ (if g.fp = [] then [] else '.' :: g.fp) ++ expText g.ex := by
      simp [hfp]
    simp only [this, if_true, hfp, if_false]
    simp

/-! ## lexing the body -/

/-- what may follow a float without being taken for a part of it -/
def FloatTail (t : Char) : Prop := isDecimalDigitChar t = false ∧ isExponentChar t = false

theorem digitLoop_run (hconv : ∀ c, cfg.conv c = c) (k : Kind) (w : List Char) :
    ∀ (fuel : Nat) (l : Lexer) (tail : List Char), (∀ x ∈ w, DecD x) →
      l.rest = w ++ tail → HeadIs (fun t => isDecimalDigitChar t = false) tail → w.length + 1 ≤ fuel →
      ∃ l', digitLoop cfg isDecimalDigitChar k fuel l = .ok (⟨k, l.chunk ++ w⟩, l') ∧ l'.rest = tail := by
  induction w with
  | nil =>
    intro fuel l tail _ hl ht hf
    rcases l with ⟨hist, r, chunk, ring⟩
    simp only [List.nil_append] at hl
    subst r
    obtain ⟨fuel, rfl⟩ : ∃ f, fuel = f + 1 := ⟨fuel - 1, by simp at hf; omega⟩
    cases tail with
    | nil => exact ⟨_, by simp [digitLoop, next, rawNext, emit]; rfl, rfl⟩
    | cons t tail =>
      have := ht t rfl
      exact ⟨_, by simp [digitLoop, next, rawNext, emit, hconv, this, backup]; rfl, rfl⟩
  | cons x w ih =>
    intro fuel l tail hw hl ht hf
    rcases l with ⟨hist, r, chunk, ring⟩
    simp only [List.cons_append] at hl
    subst hl
    obtain ⟨fuel, rfl⟩ : ∃ f, fuel = f + 1 := ⟨fuel - 1, by simp at hf; omega⟩
    have hx := (decD_not x (hw x (by simp))).2.2.2.2.2
    obtain ⟨l', h1, h2⟩ := ih fuel (accept ⟨x :: hist, w ++ tail, chunk, ring.read⟩ x) tail
      (fun y hy => hw y (by simp [hy])) rfl ht (by simp at hf ⊢; omega)
    refine ⟨l', ?_, h2⟩
    simp only [digitLoop, next, rawNext, hconv, hx, if_true]
    simpa [accept] using h1

def ExpWF (ex : Option (Bool × List Char)) : Prop :=
  ∀ sg ds, ex = some (sg, ds) → ds ≠ [] ∧ ∀ d ∈ ds, DecD d

theorem fraction_run (hconv : ∀ c, cfg.conv c = c) (ex : Option (Bool × List Char)) (hex : ExpWF ex)
    (fs : List Char) :
    ∀ (fuel : Nat) (l : Lexer) (tail : List Char), (∀ x ∈ fs, DecD x) →
      l.rest = fs ++ expText ex ++ tail → HeadIs FloatTail tail → l.rest.length + 1 ≤ fuel →
      ∃ l', fraction cfg fuel l = .ok (⟨.floatNumber, l.chunk ++ fs ++ expText ex⟩, l') ∧ l'.rest = tail := by
  induction fs with
  | nil =>
    intro fuel l tail _ hl ht hf
    rcases l with ⟨hist, r, chunk, ring⟩
    simp only [List.nil_append] at hl
    subst r
    obtain ⟨fuel, rfl⟩ : ∃ f, fuel = f + 1 := ⟨fuel - 1, by simp at hf; omega⟩
    cases ex with
    | none =>
      simp only [expText, List.nil_append, List.append_nil]
      cases tail with
      | nil => exact ⟨_, by simp [fraction, next, rawNext, emit]; rfl, rfl⟩
      | cons t tail =>
        obtain ⟨h1, h2⟩ := ht t rfl
        exact ⟨_, by simp [fraction, next, rawNext, emit, hconv, h1, h2, backup]; rfl, rfl⟩
    | some p =>
      obtain ⟨sg, ds⟩ := p
      obtain ⟨hne, hds⟩ := hex sg ds rfl
      obtain ⟨d, ds', rfl⟩ := List.exists_cons_of_ne_nil hne
      have hd := (decD_not d (hds d (by simp))).2.2.2.2.2
      have hsgn : isSignChar (if sg then '-' else '+') = true := by cases sg <;> rfl
      have hsnd : isDecimalDigitChar (if sg then '-' else '+') = false := by cases sg <;> rfl
      simp only [expText, List.cons_append, List.length_cons, List.length_append] at hf ⊢
      obtain ⟨l', e1, e2⟩ := digitLoop_run cfg hconv .floatNumber (d :: ds') fuel
        (accept (accept ⟨(if sg then '-' else '+') :: 'e' :: hist, d :: ds' ++ tail, chunk, ring.read.read.read.unread⟩ 'e')
          (if sg then '-' else '+')) tail hds rfl (fun t ht' => (ht t ht').1) (by simp; omega)
      refine ⟨l', ?_, e2⟩
      have c1 : isDecimalDigitChar 'e' = false := rfl
      have c2 : isExponentChar 'e' = true := rfl
      simp only [fraction, next, rawNext, hconv, c1, c2, Bool.false_eq_true, if_false, if_true, hsgn, hd,
        Option.isSome, backup, exponent]
      simpa [accept] using e1
  | cons x w ih =>
    intro fuel l tail hw hl ht hf
    rcases l with ⟨hist, r, chunk, ring⟩
    simp only [List.cons_append] at hl
    subst hl
    obtain ⟨fuel, rfl⟩ : ∃ f, fuel = f + 1 := ⟨fuel - 1, by simp at hf; omega⟩
    have hx := (decD_not x (hw x (by simp))).2.2.2.2.2
    obtain ⟨l', h1, h2⟩ := ih fuel (accept ⟨x :: hist, w ++ expText ex ++ tail, chunk, ring.read⟩ x) tail
      (fun y hy => hw y (by simp [hy])) rfl ht (by simp [accept] at hf ⊢; omega)
    refine ⟨l', ?_, h2⟩
    simp only [fraction, next, rawNext, hconv, hx, if_true]
    simpa [accept] using h1

/-- `integerConstant` over the integer digits, then `.`, a digit: continues as a fraction -/
theorem integerConstant_frac (hconv : ∀ c, cfg.conv c = c) (ex : Option (Bool × List Char)) (hex : ExpWF ex)
    (f : Char) (fs : List Char) (hf0 : DecD f) (hfs : ∀ x ∈ fs, DecD x) (is : List Char) :
    ∀ (fuel : Nat) (l : Lexer) (tail : List Char), (∀ x ∈ is, DecD x) →
      l.rest = is ++ '.' :: f :: fs ++ expText ex ++ tail → HeadIs FloatTail tail → l.rest.length + 1 ≤ fuel →
      ∃ l', integerConstant cfg fuel l =
          .ok (⟨.floatNumber, l.chunk ++ is ++ '.' :: f :: fs ++ expText ex⟩, l') ∧ l'.rest = tail := by
  induction is with
  | nil =>
    intro fuel l tail _ hl ht hf
    rcases l with ⟨hist, r, chunk, ring⟩
    simp only [List.nil_append, List.cons_append] at hl
    subst hl
    obtain ⟨fuel, rfl⟩ : ∃ f, fuel = f + 1 := ⟨fuel - 1, by simp at hf; omega⟩
    have hd := (decD_not f hf0).2.2.2.2.2
    obtain ⟨l', e1, e2⟩ := fraction_run cfg hconv ex hex fs fuel
      (accept (accept ⟨f :: '.' :: hist, fs ++ expText ex ++ tail, chunk, ring.read.read⟩ '.') f) tail hfs rfl ht
      (by simp [accept] at hf ⊢; omega)
    refine ⟨l', ?_, e2⟩
    have c1 : isDecimalDigitChar '.' = false := rfl
    simp only [integerConstant, next, rawNext, hconv, c1, Bool.false_eq_true, if_false, if_true, hd]
    simpa [accept] using e1
  | cons x w ih =>
    intro fuel l tail hw hl ht hf
    rcases l with ⟨hist, r, chunk, ring⟩
    simp only [List.cons_append] at hl
    subst hl
    obtain ⟨fuel, rfl⟩ : ∃ f, fuel = f + 1 := ⟨fuel - 1, by simp at hf; omega⟩
    have hx := (decD_not x (hw x (by simp))).2.2.2.2.2
    obtain ⟨l', h1, h2⟩ := ih fuel
      (accept ⟨x :: hist, w ++ '.' :: f :: fs ++ expText ex ++ tail, chunk, ring.read⟩ x) tail
      (fun y hy => hw y (by simp [hy])) (by simp [accept]) ht (by simp [accept] at hf ⊢; omega)
    refine ⟨l', ?_, h2⟩
    simp only [integerConstant, next, rawNext, hconv, hx, if_true]
    simpa [accept] using h1

/-- P0 (lexing half): the body `Float.WriteTerm` writes is ONE float number token -/
theorem lexTok_floatBody (hconv : ∀ c, cfg.conv c = c) (g : GText) (hg : g.WF) (tail : List Char)
    (ht : HeadIs FloatTail tail) : LexTok cfg g.body ⟨.floatNumber, g.body⟩ tail := by
  obtain ⟨h1, h2, h3, h4⟩ := hg
  obtain ⟨d, is, hip⟩ := List.exists_cons_of_ne_nil h1
  -- the fraction actually written
  obtain ⟨f, fs, hfr, hf0, hfs⟩ : ∃ f fs, (if g.fp = [] then ['0'] else g.fp) = f :: fs ∧ DecD f ∧ ∀ x ∈ fs, DecD x := by
    by_cases hfp : g.fp = []
    · exact ⟨'0', [], by simp [hfp], ⟨0, by decide, rfl⟩, by simp⟩
    · obtain ⟨f, fs, e⟩ := List.exists_cons_of_ne_nil hfp
      exact ⟨f, fs, by simp [hfp, e], h3 f (by simp [e]), fun x hx => h3 x (by simp [e, hx])⟩
  have his : ∀ x ∈ is, DecD x := fun x hx => h2 x (by simp [hip, hx])
  have hd : DecD d := h2 d (by simp [hip])
  intro hist chunk ring
  obtain ⟨c1, c2, c3, c4, c5, c6, c7, c8, c9, c10, c11⟩ := decD_class cfg d hd
  unfold GText.body
  rw [hip, hfr]
  simp only [List.cons_append, List.append_assoc]
  rw [lexToken_start cfg hconv d _ hist chunk ring c1 c2 c3]
  simp only [token, next, rawNext, hconv, c4, c5, c6, c7, c8, c9, c10, c11, Bool.false_eq_true, if_false,
    or_self, if_true, integerToken]
  have hex : ExpWF g.ex := h4
  by_cases h0 : d = '0'
  · subst h0
    simp only [if_true, accept, List.nil_append]
    -- the rune after the leading zero is a digit or the dot: not a radix or character-code marker
    obtain ⟨r, rest, hr, hrne⟩ : ∃ r rest, is ++ ('.' :: f :: (fs ++ (expText g.ex ++ tail))) = r :: rest ∧
        (r ≠ '\'' ∧ r ≠ 'b' ∧ r ≠ 'o' ∧ r ≠ 'x') := by
      cases is with
      | nil => exact ⟨'.', _, rfl, by decide⟩
      | cons x w =>
        obtain ⟨a, b, c, d', _⟩ := decD_not x (his x (by simp))
        exact ⟨x, _, rfl, a, b, c, d'⟩
    obtain ⟨l', e1, e2⟩ := integerConstant_frac cfg hconv g.ex hex f fs hf0 hfs is
      (2 * ('0' :: (is ++ ('.' :: f :: (fs ++ (expText g.ex ++ tail))))).length + 7)
      ⟨'0' :: hist, is ++ '.' :: f :: fs ++ expText g.ex ++ tail, ['0'], ring.read.unread.read.read.unread⟩ tail his rfl ht
      (by simp; omega)
    refine ⟨l', ?_, e2⟩
    rw [hr]
    simp only [next, rawNext, hconv, hrne.1, hrne.2.1, hrne.2.2.1, hrne.2.2.2, if_false, backup]
    rw [← hr]
    simpa [List.append_assoc] using e1
  · obtain ⟨l', e1, e2⟩ := integerConstant_frac cfg hconv g.ex hex f fs hf0 hfs is
      (2 * (d :: (is ++ ('.' :: f :: (fs ++ (expText g.ex ++ tail))))).length + 7)
      (accept ⟨d :: hist, is ++ '.' :: f :: fs ++ expText g.ex ++ tail, [], ring.read.unread.read⟩ d) tail his rfl ht
      (by simp [accept]; omega)
    refine ⟨l', ?_, e2⟩
    simp only [h0, if_false]
    simpa [accept, List.append_assoc] using e1

end PrologVerif.Write
