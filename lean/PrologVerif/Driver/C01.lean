import PrologVerif.Driver.Common
import PrologVerif.Model.VM
namespace PrologVerif.Driver.C01
open PrologVerif PrologVerif.Driver PrologVerif.VM

mutual
  def shiftVars (k : Nat) : Term → Term
    | .var v => .var (v + k)
    | .app f as => .app f (shiftArgs k as)
    | t => t
  def shiftArgs (k : Nat) : Args → Args
    | .nil => .nil
    | .cons t ts => .cons (shiftVars k t) (shiftArgs k ts)
end

def fuel : Nat := 60000

/-- payload: `<max> | <Query> | <Clause> | …` -/
def parse (payload : String) : Option (Nat × Term × List Term) :=
  match fields payload with
  | maxS :: qS :: cs =>
    match maxS.toNat?, Term.ofWire qS, cs.mapM Term.ofWire with
    | some mx, some q, some prog => some (mx, shiftVars 10 q, prog)
    | _, _, _ => none
  | _ => none

def showEnd : End → String
  | .exhausted => "end exhausted"
  | .more => "end more"
  | .err f => "end err " ++ f.canon.wire
  | .ball t => "end ball " ++ t.canon.wire
  | .cancelled => "end cancelled"
  | .goErr msg => "end goerr " ++ encName msg

def showRun (answers : List Term) (e : End) : String :=
  " ; ".intercalate (answers.map (fun a => "a " ++ a.canon.wire) ++ [showEnd e])

def modelLine (payload : String) : String :=
  match parse payload with
  | none => "BAD-CASE"
  | some (mx, q, prog) =>
    match runQuery fuel prog q mx with
    | none => "out-of-fuel"
    | some (answers, e) => showRun answers e

def handler : Handler := fun payload _ => (modelLine payload, "-")

end PrologVerif.Driver.C01
