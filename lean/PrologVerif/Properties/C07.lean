/-
  C07 — arithmetic is exact or raises an evaluation error; comparisons are numeric.

  Property theorems only (helper lemmas: Proofs/Arith*.lean).  Every theorem is about
  `PrologVerif.Generated.Arith.*`: the Lean definitions that extract/arith.go TRANSLATES from
  engine/number.go on every run — editing a guard in number.go changes the definition the kernel
  checks these proofs against.  `Spec.ExactArith` is arithmetic over the unbounded integers.

  `outcome r = some o` / `outcomeN r = some o` read: the kernel returned exactly what the specification
  demands (the same value as an unbounded integer, or the same evaluation/type error) — in
  particular it did not panic, wrap, round or flip a sign.  All statements are for ALL operands
  (2^64 resp. 2^128 cases), all expression trees, every instance of the float operations.
-/
import PrologVerif.Proofs.Arith
import PrologVerif.Proofs.ArithPow
import PrologVerif.Proofs.ArithBits
import PrologVerif.Proofs.ArithFunctors
import PrologVerif.Proofs.ArithEval
import PrologVerif.Proofs.ArithNoPanic
import PrologVerif.Proofs.ArithFloat
import PrologVerif.Proofs.ArithCompare
import PrologVerif.Proofs.ArithMore
namespace PrologVerif.C07
open PrologVerif.Arith PrologVerif.Generated.Arith PrologVerif.ArithProofs
open PrologVerif.Spec.ExactArith (Outcome inRange checked Expr bit)
open PrologVerif (Term Args instErr)

variable {F : Type} [FloatOps F]

/-! ### + - * unary minus abs sign: exact, or int_overflow exactly when the exact result does not fit -/

/-- `addI`: x + y exactly if it fits, `int_overflow` otherwise — for all 2^128 operand pairs -/
theorem C07_addI_exact (x y : I64) : outcome (addI x y) = some (Spec.ExactArith.add x.val y.val) :=
  addI_exact x y

theorem C07_subI_exact (x y : I64) : outcome (subI x y) = some (Spec.ExactArith.sub x.val y.val) :=
  subI_exact x y

/-- `mulI`: the `r/y != x` overflow test of the code is exact (never a wrapped product, never a spurious error) -/
theorem C07_mulI_exact (x y : I64) : outcome (mulI x y) = some (Spec.ExactArith.mul x.val y.val) :=
  mulI_exact x y

theorem C07_negI_exact (x : I64) : outcome (negI x) = some (Spec.ExactArith.neg x.val) := negI_exact x

theorem C07_absI_exact (x : I64) : outcome (absI x) = some (Spec.ExactArith.abs x.val) := absI_exact x

theorem C07_signI_exact (x : I64) : outcome (.ok (signI x)) = some (Spec.ExactArith.sign x.val) := signI_exact x

/-! ### // rem mod div -/

/-- `//` truncates; zero_divisor iff y = 0; int_overflow iff minInt // -1 -/
theorem C07_intDivI_exact (x y : I64) : outcome (intDivI x y) = some (Spec.ExactArith.intDiv x.val y.val) :=
  intDivI_exact x y

theorem C07_remI_exact (x y : I64) : outcome (remI x y) = some (Spec.ExactArith.rem x.val y.val) :=
  remI_exact x y

/-- `mod` is the floored remainder (sign of the divisor) for ALL operands — the pinned code went
    through float64 and was wrong above 2^53 (D5: maxInt mod 10 = -513) -/
theorem C07_modI_exact (x y : I64) : outcome (modI x y) = some (Spec.ExactArith.mod x.val y.val) :=
  modI_exact x y

/-- `div` is the floored quotient for ALL operands (D5) -/
theorem C07_intFloorDivI_exact (x y : I64) :
    outcome (intFloorDivI x y) = some (Spec.ExactArith.floorDiv x.val y.val) :=
  intFloorDivI_exact x y

/-! ### ^ -/

/-- `intPow` (the translated square-and-multiply loop): exact power or int_overflow for every base and
    every non-negative exponent; the last squaring never causes a spurious overflow -/
theorem C07_intPow_exact (a b : I64) (hb : 0 ≤ b.val) :
    outcome (intPow a b) = some (Spec.ExactArith.pow a.val b.val) :=
  intPow_exact a b hb

example : ∃ a b : I64, 0 ≤ b.val ∧ a.val = -2 ∧ b.val = 63 := ⟨.ofInt (-2), .ofInt 63, by decide⟩

/-- the fuel bound emitted by the translator (64) is enough: for every non-negative exponent the loop
    ends without exhausting it (running out of fuel is the explicit outcome `outOfFuel`, a "panic") -/
theorem C07_intPow_fuel (a b : I64) (hb : 0 ≤ b.val) : NoPanic (intPow a b) := noPanic_intPow a b hb

/-- `^` on integers for ALL bases and exponents (negative exponents: 1, -1, 0 and the type error of
    ISO Cor.2) — except the corner (±1) ^ minInt, see `C07_integerPower_witness` -/
theorem C07_integerPower_exact_partial (x y : I64)
    (hcorner : ¬ (y.val = -9223372036854775808 ∧ (x.val = 1 ∨ x.val = -1))) :
    outcomeN (integerPower (F := F) (.int x) (.int y)) = some (Spec.ExactArith.pow x.val y.val) :=
  integerPower_exact x y hcorner

example : ¬ ((I64.ofInt (-5)).val = -9223372036854775808 ∧ ((I64.ofInt 2).val = 1 ∨ (I64.ofInt 2).val = -1)) := by
  decide

/-- the full-strength statement for `^` (open: violated by the pinned code at the corner) -/
def C07_integerPower_exact_statement : Prop :=
  ∀ (F : Type) [FloatOps F] (x y : I64),
    outcomeN (integerPower (F := F) (.int x) (.int y)) = some (Spec.ExactArith.pow x.val y.val)

/-- D21 (known finding, pinned by number_test.go "-1 ^ minInt"): (-1) ^ minInt answers int_overflow
    although the exact result 1 is representable -/
theorem C07_integerPower_witness :
    outcomeN (integerPower (F := F) (.int (I64.ofInt (-1))) (.int I64.minInt)) = some (.evalError "int_overflow") ∧
    Spec.ExactArith.pow (-1) (-9223372036854775808) = .value 1 :=
  integerPower_corner

/-- the oracle of the driver evaluates `^` with `powFast` (executable for huge exponents); it is `pow` -/
theorem C07_powFast_eq (x y : Int) : Spec.ExactArith.powFast x y = Spec.ExactArith.pow x y := powFast_eq x y

/-! ### bitwise operations and shifts -/

/-- `/\`: every bit (of the unbounded two's complement representation, also beyond bit 63) of the
    result is the conjunction of the operands' bits -/
theorem C07_bit_and (x y : I64) (i : Nat) : bit (I64.and x y).val i = (bit x.val i && bit y.val i) := bit_and x y i
theorem C07_bit_or (x y : I64) (i : Nat) : bit (I64.or x y).val i = (bit x.val i || bit y.val i) := bit_or x y i
theorem C07_bit_xor (x y : I64) (i : Nat) : bit (I64.xor x y).val i = (bit x.val i != bit y.val i) := bit_xor x y i
/-- `\ x` = -x - 1 -/
theorem C07_bit_not (x : I64) : (I64.not x).val = -x.val - 1 := val_not x

/-- `<<` by 0..63 without overflow is multiplication by 2^s; a negative count is an evaluation error, never a panic (D2) -/
theorem C07_shiftLeft_exact (x s : I64) (o : Outcome) (h : Spec.ExactArith.shiftLeft x.val s.val = some o) :
    outcomeN (bitwiseLeftShift (F := F) (.int x) (.int s)) = some o := shiftLeft_exact x s o h

example : Spec.ExactArith.shiftLeft (I64.ofInt (-3)).val (I64.ofInt 61).val = some (.value (-6917529027641081856)) := by
  decide +kernel

/-- `>>` by 0..63 is the floor division by 2^s -/
theorem C07_shiftRight_exact (x s : I64) (o : Outcome) (h : Spec.ExactArith.shiftRight x.val s.val = some o) :
    outcomeN (bitwiseRightShift (F := F) (.int x) (.int s)) = some o := shiftRight_exact x s o h

example : Spec.ExactArith.shiftRight (I64.ofInt (-7)).val (I64.ofInt 1).val = some (.value (-4)) := by decide +kernel

/-! ### dispatch: every integer functor of the property, through the tables of number.go -/

/-- every binary functor the property lists (+ - * // rem mod div max min ^ /\ \/ xor << >>) is in
    `binaryFunctors` and yields the specified outcome on ALL integer operands (D21 corner excluded) -/
theorem C07_binary_exact (f : String) (x y : I64) (o : Outcome) (hc : ¬ PowCorner f x.val y.val)
    (h : Spec.ExactArith.applyBin f x.val y.val = some o) :
    ∃ g, evalBinary (F := F) f = some g ∧ outcomeN (g (.int x) (.int y)) = some o :=
  binary_exact f x y o hc h

example : ¬ PowCorner "mod" (I64.ofInt 7).val (I64.ofInt (-2)).val ∧
    Spec.ExactArith.applyBin "mod" (I64.ofInt 7).val (I64.ofInt (-2)).val = some (.value (-1)) := by
  constructor
  · intro h; exact absurd h.1 (by decide)
  · decide +kernel

/-- every unary functor the property lists (- + abs sign \) likewise -/
theorem C07_unary_exact (f : String) (x : I64) (o : Outcome)
    (h : Spec.ExactArith.applyUn f x.val = some o) :
    ∃ g, evalUnary (F := F) f = some g ∧ outcomeN (g (.int x)) = some o :=
  unary_exact f x o h

example : Spec.ExactArith.applyUn "abs" I64.minInt.val = some (.evalError "int_overflow") := by decide +kernel

/-! ### whole expressions -/

/-- `eval` (hand model over the translated kernels) on EVERY integer expression tree — any depth, any
    64-bit leaves: the value Spec/ExactArith computes over the unbounded integers, or the first
    evaluation error in left-to-right order; never a wrapped intermediate result.
    (Trees meeting the D21 corner of `^` are excluded.) -/
theorem C07_eval_tree_exact_partial (e : Expr) (o : Outcome) (hl : LitsInRange e) (hp : NoPowCorner e)
    (h : Spec.ExactArith.eval e = some o) : Matches (Eval.eval (F := F) (toTerm e)) o :=
  eval_tree_exact e o hl hp h

example : LitsInRange (.bin "*" (.bin "+" (.lit 9223372036854775807) (.lit 1)) (.lit 0)) ∧
    NoPowCorner (.bin "*" (.bin "+" (.lit 9223372036854775807) (.lit 1)) (.lit 0)) ∧
    Spec.ExactArith.eval (.bin "*" (.bin "+" (.lit 9223372036854775807) (.lit 1)) (.lit 0)) =
      some (.evalError "int_overflow") := by
  refine ⟨⟨⟨by show InRange _; decide, by show InRange _; decide⟩, by show InRange _; decide⟩, ⟨⟨trivial, trivial, ?_⟩, trivial, ?_⟩, by decide +kernel⟩
  · intro x y _ _ h; exact absurd h.1 (by decide)
  · intro x y _ _ h; exact absurd h.1 (by decide)

/-- the full-strength statement for expression trees (open: false at the D21 corner) -/
def C07_eval_tree_exact_statement : Prop :=
  ∀ (F : Type) [FloatOps F] (e : Expr) (o : Outcome), LitsInRange e →
    Spec.ExactArith.eval e = some o → Matches (Eval.eval (F := F) (toTerm e)) o

/-! ### comparisons -/

/-- =:= =\= < =< > >= on integers hold exactly when the unbounded integers stand in that relation -/
theorem C07_cmp_int (op : String) (x y : I64) (b : Bool) (h : Spec.ExactArith.compare op x.val y.val = some b) :
    ∃ k, Eval.cmpKernels (F := F) op = some k ∧ Eval.compareNums k (.int x) (.int y) = b :=
  cmp_int op x y b h

example : Spec.ExactArith.compare "<" I64.minInt.val I64.maxInt.val = some true := by decide +kernel

/-- mixed and float comparisons are the float relation after float64(n) conversion of the integer
    operand (what the property specifies); the code swaps the operands of = and ≠, hence `hsymm` -/
theorem C07_cmp_mixed (op : String) (x y : Num F) (b : Bool)
    (hmixed : ¬ ∃ i j, x = .int i ∧ y = .int j)
    (hsymm : ∀ a c : F, FloatOps.eq a c = FloatOps.eq c a)
    (h : floatRel op (toFloat x) (toFloat y) = some b) :
    ∃ k, Eval.cmpKernels (F := F) op = some k ∧ Eval.compareNums k x y = b :=
  cmp_mixed op x y b hmixed hsymm h

/-! ### no panic -/

/-- every binary evaluable functor of the dispatch table, on ALL numbers (integers and floats in any
    combination): never a Go panic (no division by zero, no negative shift count — D2), and the loop
    of `^` never runs out of fuel -/
theorem C07_no_panic_binary (f : String) (g : Num F → Num F → Except Err (Num F)) (hg : evalBinary f = some g)
    (x y : Num F) : NoPanic (g x y) := noPanic_binary f g hg x y

theorem C07_no_panic_unary (f : String) (g : Num F → Except Err (Num F)) (hg : evalUnary f = some g)
    (x : Num F) : NoPanic (g x) := noPanic_unary f g hg x

/-! ### floats: guard logic, for every instance of the float operations -/

/-- `*`: the IEEE product; float_overflow iff it is infinite, underflow iff it is zero for non-zero
    operands (D4: no sign-blind pre-check any more) -/
theorem C07_mulF_spec (x y : F) :
    mulF x y = ieeeResult (FloatOps.mul x y)
      ((feq (FloatOps.mul x y) (FloatOps.ofInt 0) ∧ fne x (FloatOps.ofInt 0)) ∧ fne y (FloatOps.ofInt 0)) :=
  mulF_spec x y

/-- `/`: zero_divisor iff the divisor is zero, else the IEEE quotient; float_overflow iff infinite,
    underflow iff zero for a non-zero dividend (D4) -/
theorem C07_divF_spec (x y : F) :
    divF x y = if feq y (FloatOps.ofInt 0) then .error (.ev .zeroDivisor) else
      ieeeResult (FloatOps.div x y) (feq (FloatOps.div x y) (FloatOps.ofInt 0) ∧ fne x (FloatOps.ofInt 0)) :=
  divF_spec x y

/-- `+` (and `-` = + of the negation): a returned value is the IEEE sum and is not infinite (D20), an
    infinite sum is always reported, float_overflow is the only error -/
theorem C07_addF_partial (x y : F) :
    (∀ r, addF x y = .ok r → r = FloatOps.add x y ∧ FloatOps.isInf r = false) ∧
    (FloatOps.isInf (FloatOps.add x y) = true → addF x y = .error (.ev .floatOverflow)) ∧
    (∀ e, addF x y = .error e → e = .ev .floatOverflow) := addF_partial x y

/-- the full-strength statement for `+`: float_overflow ONLY when the IEEE sum is infinite
    (open: the pre-check of the pinned code also fires when the sum rounds to ±MaxFloat64 — D22, pinned
    by number_test.go "1.0 + maxFloat") -/
def C07_addF_spec_statement : Prop := ∀ (F : Type) [FloatOps F], addF_spec_statement F

/-- floor/truncate/round/ceiling: the integer value of the rounded float exactly when it is
    representable, int_overflow otherwise — including exactly 2^63 (D6) -/
theorem C07_floorFtoI_exact (L : FloatLaws F) (x : F) (hx : Finite x) :
    outcome (floorFtoI x) = some (checked (L.intVal (FloatOps.floor x))) := floorFtoI_exact L x hx
theorem C07_truncateFtoI_exact (L : FloatLaws F) (x : F) (hx : Finite x) :
    outcome (truncateFtoI x) = some (checked (L.intVal (FloatOps.trunc x))) := truncateFtoI_exact L x hx
theorem C07_roundFtoI_exact (L : FloatLaws F) (x : F) (hx : Finite x) :
    outcome (roundFtoI x) = some (checked (L.intVal (FloatOps.round x))) := roundFtoI_exact L x hx
theorem C07_ceilingFtoI_exact (L : FloatLaws F) (x : F) (hx : Finite x) :
    outcome (ceilingFtoI x) = some (checked (L.intVal (FloatOps.ceil x))) := ceilingFtoI_exact L x hx

/-- no NaN and no infinity is returned as a value by + - * / on finite operands -/
theorem C07_no_nan_no_inf (L : FloatLaws F) (x y r : F) (hx : Finite x) (hy : Finite y) :
    (addF x y = .ok r → Finite r) ∧ (subF x y = .ok r → Finite r) ∧
    (mulF x y = .ok r → Finite r) ∧ (divF x y = .ok r → Finite r) :=
  ⟨addF_finite L x y r hx hy, subF_finite L x y r hx hy, mulF_finite L x y r hx hy, divF_finite L x y r hx hy⟩

/-- mixed mode: the integer operand of + - * / is converted with float64(n) and the float kernel is
    used; `/` on two integers converts both (so the guard theorems above cover every mode) -/
theorem C07_mixed_mode (x : I64) (y : F) :
    add (.int x) (.flt y) = liftF (addF (FloatOps.ofInt x.val) y) ∧
    add (.flt y) (.int x) = liftF (addF y (FloatOps.ofInt x.val)) ∧
    sub (.int x) (.flt y) = liftF (subF (FloatOps.ofInt x.val) y) ∧
    sub (.flt y) (.int x) = liftF (subF y (FloatOps.ofInt x.val)) ∧
    mul (.int x) (.flt y) = liftF (mulF (FloatOps.ofInt x.val) y) ∧
    mul (.flt y) (.int x) = liftF (mulF y (FloatOps.ofInt x.val)) ∧
    div (.int x) (.flt y) = liftF (divF (FloatOps.ofInt x.val) y) ∧
    div (.flt y) (.int x) = liftF (divF y (FloatOps.ofInt x.val)) ∧
    (∀ z : I64, div (F := F) (.int x) (.int z) = liftF (divF (FloatOps.ofInt x.val) (FloatOps.ofInt z.val))) :=
  mixed_mode x y

/-- + - * / on finite numbers in EVERY mode (integer, float, mixed): a float returned as a value is
    finite — the lemma that makes float identity well defined elsewhere -/
theorem C07_no_nan_no_inf_functors (L : FloatLaws F) (x y : Num F) (hx : NumFinite x) (hy : NumFinite y) (r : F) :
    (add x y = .ok (.flt r) → Finite r) ∧ (sub x y = .ok (.flt r) → Finite r) ∧
    (mul x y = .ok (.flt r) → Finite r) ∧ (div x y = .ok (.flt r) → Finite r) :=
  arith_value_finite L x y hx hy r

/-- `**` (and `^` with a float operand): whatever math.Pow returns, a value that is returned is a
    finite float (Inf ↦ float_overflow, NaN ↦ undefined, 0 for a non-zero base ↦ underflow) — the
    guard logic of a library call, for all arguments -/
theorem C07_power_value_finite (x y r : Num F) (h : power x y = .ok r) : ∃ v, r = .flt v ∧ Finite v :=
  power_value_finite x y r h

/-! ### eval's own errors -/

/-- unbound ↦ instantiation_error; a non-evaluable atom/functor ↦ type_error(evaluable, Name/Arity),
    raised before the arguments are evaluated; arity > 2 likewise (hand model of `eval`, tied by
    `C07_tie_sources` and the stream c07.queries) -/
theorem C07_eval_errors (v : Nat) (a f : String) (t u w : Term) (rest : Args) :
    Eval.eval (F := F) (.var v) = .err instErr ∧
    (a ≠ "pi" → Eval.eval (F := F) (.atom a) = .err (Eval.notEvaluable a 0)) ∧
    (evalUnary (F := F) f = none → Eval.eval (F := F) (.app f (.cons t .nil)) = .err (Eval.notEvaluable f 1)) ∧
    (evalBinary (F := F) f = none →
      Eval.eval (F := F) (.app f (.cons t (.cons u .nil))) = .err (Eval.notEvaluable f 2)) ∧
    Eval.eval (F := F) (.app f (.cons t (.cons u (.cons w rest)))) = .err (Eval.notEvaluable f (rest.length + 3)) :=
  eval_errors v a f t u w rest

/-! ### ties: regenerated facts against what the model and the theorems were written for -/

/-- the dispatch tables of number.go: every ISO evaluable functor ↦ the Go function the theorems are about -/
theorem C07_tie_dispatch :
    unaryFunctors = [("-", "neg"), ("abs", "abs"), ("sign", "sign"), ("float_integer_part", "floatIntegerPart"),
      ("float_fractional_part", "floatFractionalPart"), ("float", "asFloat"), ("floor", "floor"),
      ("truncate", "truncate"), ("round", "round"), ("ceiling", "ceiling"), ("sin", "sin"), ("cos", "cos"),
      ("atan", "atan"), ("exp", "exp"), ("log", "log"), ("sqrt", "sqrt"), ("\\", "bitwiseComplement"), ("+", "pos"),
      ("asin", "asin"), ("acos", "acos"), ("tan", "tan")] ∧
    binaryFunctors = [("+", "add"), ("-", "sub"), ("*", "mul"), ("//", "intDiv"), ("/", "div"), ("rem", "rem"),
      ("mod", "mod"), ("**", "power"), (">>", "bitwiseRightShift"), ("<<", "bitwiseLeftShift"),
      ("/\\", "bitwiseAnd"), ("\\/", "bitwiseOr"), ("div", "intFloorDiv"), ("max", "max"), ("min", "min"),
      ("^", "integerPower"), ("atan2", "atan2"), ("xor", "xor")] ∧
    constants = ["pi = Float(math.Pi)"] := ⟨rfl, rfl, rfl⟩

/-- the translator took every function of number.go except the eight that work on terms and promises
    (hand-modelled in Model/Eval), and the only statements it dropped are the
    `return nil, exceptionalValueUndefined` fall-backs for a third implementation of Number -/
theorem C07_tie_translated :
    translated = ["abs", "absF", "absI", "acos", "add", "addF", "addFI", "addI", "addIF", "asFloat", "asin", "atan", "atan2", "bitwiseAnd", "bitwiseComplement", "bitwiseLeftShift", "bitwiseOr", "bitwiseRightShift", "ceiling", "ceilingFtoI", "cos", "div", "divF", "divFI", "divIF", "divII", "eqF", "eqFI", "eqI", "eqIF", "exp", "floatFractionalPart", "floatFtoF", "floatIntegerPart", "floatItoF", "floor", "floorFtoI", "fractPartF", "geqF", "geqFI", "geqI", "geqIF", "gtrF", "gtrFI", "gtrI", "gtrIF", "intDiv", "intDivI", "intFloorDiv", "intFloorDivI", "intPartF", "intPow", "integerPower", "leqF", "leqFI", "leqI", "leqIF", "log", "lssF", "lssFI", "lssI", "lssIF", "max", "min", "mod", "modI", "mul", "mulF", "mulFI", "mulI", "mulIF", "neg", "negF", "negI", "neqF", "neqFI", "neqI", "neqIF", "pos", "posF", "posI", "power", "rem", "remI", "round", "roundFtoI", "sign", "signF", "signI", "sin", "sqrt", "sub", "subF", "subFI", "subI", "subIF", "tan", "truncate", "truncateFtoI", "xor"] ∧
    notKernels = ["eval", "Is", "Equal", "NotEqual", "LessThan", "GreaterThan", "LessThanOrEqual", "GreaterThanOrEqual"] ∧
    droppedStatements = ["return nil, exceptionalValueUndefined"] := ⟨rfl, rfl, rfl⟩

/-- which kernels the six comparison predicates call and under which names is/2 and the comparisons
    are registered — what Model/Eval `cmpKernels` is written against -/
theorem C07_tie_comparisons :
    comparisonKernels = [("Equal", ["eqI", "eqIF", "eqFI", "eqF"]), ("NotEqual", ["neqI", "neqIF", "neqFI", "neqF"]),
      ("LessThan", ["lssI", "lssIF", "lssFI", "lssF"]), ("GreaterThan", ["gtrI", "gtrIF", "gtrFI", "gtrF"]),
      ("LessThanOrEqual", ["leqI", "leqIF", "leqFI", "leqF"]),
      ("GreaterThanOrEqual", ["geqI", "geqIF", "geqFI", "geqF"])] ∧
    arithPredicates = [("is", "Is"), ("=:=", "Equal"), ("=\\=", "NotEqual"), ("<", "LessThan"),
      ("=<", "LessThanOrEqual"), (">", "GreaterThan"), (">=", "GreaterThanOrEqual")] := ⟨rfl, rfl⟩

/-- the source text of eval, Is and Equal is the text Model/Eval was written against -/
theorem C07_tie_sources :
    source_eval = "func eval(expression Term, env *Env) (_ Number, err error) { defer func() { var ev exceptionalValue if errors.As(err, &ev) { err = evaluationError(ev, env) } }() switch t := env.Resolve(expression).(type) { case Variable: return nil, InstantiationError(env) case Atom: c, ok := constants[t] if !ok { return nil, typeError(validTypeEvaluable, atomSlash.Apply(t, Integer(0)), env) } return c, nil case Number: return t, nil case Compound: switch arity := t.Arity(); arity { case 1: f, ok := unaryFunctors[t.Functor()] if !ok { return nil, typeError(validTypeEvaluable, atomSlash.Apply(t.Functor(), Integer(1)), env) } x, err := eval(t.Arg(0), env) if err != nil { return nil, err } return f(x) case 2: f, ok := binaryFunctors[t.Functor()] if !ok { return nil, typeError(validTypeEvaluable, atomSlash.Apply(t.Functor(), Integer(2)), env) } x, err := eval(t.Arg(0), env) if err != nil { return nil, err } y, err := eval(t.Arg(1), env) if err != nil { return nil, err } return f(x, y) default: return nil, typeError(validTypeEvaluable, atomSlash.Apply(t.Functor(), Integer(arity)), env) } default: return nil, typeError(validTypeEvaluable, atomSlash.Apply(t, Integer(0)), env) } }" ∧
    source_Is = "func Is(vm *VM, result, expression Term, k Cont, env *Env) *Promise { v, err := eval(expression, env) if err != nil { return Error(err) } return Unify(vm, result, v, k, env) }" ∧
    source_Equal = "func Equal(_ *VM, e1, e2 Term, k Cont, env *Env) *Promise { ev1, err := eval(e1, env) if err != nil { return Error(err) } ev2, err := eval(e2, env) if err != nil { return Error(err) } var ok bool switch ev1 := ev1.(type) { case Integer: switch ev2 := ev2.(type) { case Integer: ok = eqI(ev1, ev2) case Float: ok = eqIF(ev1, ev2) } case Float: switch ev2 := ev2.(type) { case Integer: ok = eqFI(ev1, ev2) case Float: ok = eqF(ev1, ev2) } } if !ok { return Bool(false) } return k(env) }" := ⟨rfl, rfl, rfl⟩

end PrologVerif.C07
