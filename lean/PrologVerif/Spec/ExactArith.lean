/-
  Spec/ExactArith — what C07 means for integers: exact arithmetic over the UNBOUNDED integers,
  a result outside the 64-bit range is `evaluation_error(int_overflow)`, a zero divisor is
  `evaluation_error(zero_divisor)`; never a wrapped, rounded or sign-flipped value.

  Independent of the model (no I64, no wrap-around, no Go): core Lean `Int` only.  Short on purpose.
-/
namespace PrologVerif.Spec.ExactArith

def minInt : Int := -9223372036854775808      -- -2^63
def maxInt : Int := 9223372036854775807       --  2^63 - 1

/-- representable as a Prolog integer of this implementation -/
def inRange (z : Int) : Prop := minInt ≤ z ∧ z ≤ maxInt

instance (z : Int) : Decidable (inRange z) := inferInstanceAs (Decidable (_ ∧ _))

/-- what evaluating an integer expression yields -/
inductive Outcome where
  | value (z : Int)
  | evalError (e : String)                     -- error(evaluation_error(e), _)
  | typeError (ty : String) (culprit : Int)    -- error(type_error(ty, culprit), _)
  deriving DecidableEq, Repr

/-- the exact result if it is representable, int_overflow otherwise -/
def checked (z : Int) : Outcome := if inRange z then .value z else .evalError "int_overflow"

def add (x y : Int) : Outcome := checked (x + y)
def sub (x y : Int) : Outcome := checked (x - y)
def mul (x y : Int) : Outcome := checked (x * y)
def neg (x : Int) : Outcome := checked (-x)
def abs (x : Int) : Outcome := checked (if x < 0 then -x else x)
def sign (x : Int) : Outcome := .value (if x > 0 then 1 else if x < 0 then -1 else 0)
def pos (x : Int) : Outcome := .value x
def max (x y : Int) : Outcome := .value (if x < y then y else x)
def min (x y : Int) : Outcome := .value (if x > y then y else x)

/-- `//` truncates toward zero -/
def intDiv (x y : Int) : Outcome :=
  if y = 0 then .evalError "zero_divisor" else checked (Int.tdiv x y)

/-- `rem`: remainder of the truncating division (sign of the dividend) -/
def rem (x y : Int) : Outcome :=
  if y = 0 then .evalError "zero_divisor" else .value (Int.tmod x y)

/-- `div` rounds toward negative infinity -/
def floorDiv (x y : Int) : Outcome :=
  if y = 0 then .evalError "zero_divisor" else checked (Int.fdiv x y)

/-- `mod`: remainder of the flooring division (sign of the divisor) -/
def mod (x y : Int) : Outcome :=
  if y = 0 then .evalError "zero_divisor" else .value (Int.fmod x y)

/-- `^` on integers (ISO Cor.2): exact power for a non-negative exponent; for a negative exponent only
    1 and -1 have an integer inverse, 0 is undefined and anything else must be a float -/
def pow (x y : Int) : Outcome :=
  if 0 ≤ y then checked (x ^ y.toNat)
  else if x = 1 then .value 1
  else if x = -1 then .value (if y % 2 = 0 then 1 else -1)
  else if x = 0 then .evalError "undefined"
  else .typeError "float" x

/-- `pow` in a form that can be EXECUTED for huge exponents (the oracle of the driver uses it; Lean cannot
    evaluate 2 ^ (2^62)): a base of magnitude ≥ 2 with an exponent ≥ 64 is out of range, the bases
    0, 1, -1 go by parity.  `powFast = pow` is a theorem (C07_powFast_eq). -/
def powFast (x y : Int) : Outcome :=
  if y < 64 then pow x y
  else if x = 0 then .value 0
  else if x = 1 then .value 1
  else if x = -1 then .value (if y % 2 = 0 then 1 else -1)
  else .evalError "int_overflow"

/-! ### bits: two's complement of unbounded width -/

/-- bit `i` of `z` in two's complement (floor division: negative numbers have infinitely many leading ones) -/
def bit (z : Int) (i : Nat) : Bool := decide ((z / 2 ^ i) % 2 = 1)

/-- the 64-bit two's complement number with the given bits 0..63 -/
def ofBits (b : Nat → Bool) : Int :=
  (List.range 63).foldl (fun acc i => acc + (if b i then 2 ^ i else 0)) 0 - (if b 63 then 2 ^ 63 else 0)

def bitAnd (x y : Int) : Outcome := .value (ofBits fun i => bit x i && bit y i)
def bitOr (x y : Int) : Outcome := .value (ofBits fun i => bit x i || bit y i)
def bitXor (x y : Int) : Outcome := .value (ofBits fun i => bit x i != bit y i)
def bitNot (x : Int) : Outcome := .value (-x - 1)

/-- `<<`: the property covers counts 0..63 whose result is representable (`none` = not covered) -/
def shiftLeft (x s : Int) : Option Outcome :=
  if 0 ≤ s ∧ s ≤ 63 ∧ inRange (x * 2 ^ s.toNat) then some (.value (x * 2 ^ s.toNat)) else none

/-- `>>`: arithmetic shift = floor division by a power of two, counts 0..63 -/
def shiftRight (x s : Int) : Option Outcome :=
  if 0 ≤ s ∧ s ≤ 63 then some (.value (x / 2 ^ s.toNat)) else none

/-! ### expression trees over integer leaves -/

inductive Expr where
  | lit (z : Int)
  | un (f : String) (a : Expr)
  | bin (f : String) (a b : Expr)
  deriving Repr

def applyUn (f : String) (x : Int) : Option Outcome :=
  match f with
  | "-" => some (neg x)
  | "+" => some (pos x)
  | "abs" => some (abs x)
  | "sign" => some (sign x)
  | "\\" => some (bitNot x)
  | _ => none

def applyBin (f : String) (x y : Int) : Option Outcome :=
  match f with
  | "+" => some (add x y)
  | "-" => some (sub x y)
  | "*" => some (mul x y)
  | "//" => some (intDiv x y)
  | "rem" => some (rem x y)
  | "mod" => some (mod x y)
  | "div" => some (floorDiv x y)
  | "max" => some (max x y)
  | "min" => some (min x y)
  | "^" => some (pow x y)
  | "/\\" => some (bitAnd x y)
  | "\\/" => some (bitOr x y)
  | "xor" => some (bitXor x y)
  | "<<" => shiftLeft x y
  | ">>" => shiftRight x y
  | _ => none

def unaryCovered : List String := ["-", "+", "abs", "sign", "\\"]
def binaryCovered : List String :=
  ["+", "-", "*", "//", "rem", "mod", "div", "max", "min", "^", "/\\", "\\/", "xor", "<<", ">>"]

/-- Value of an integer expression: sub-expressions left to right, the first error wins.
    `none`: the tree leaves the fragment the property speaks about (a functor that is not one of the
    integer functors above, a shift outside 0..63 or an overflowing shift). -/
def eval : Expr → Option Outcome
  | .lit z => some (.value z)
  | .un f a =>
    if f ∈ unaryCovered then
      match eval a with
      | some (.value x) => applyUn f x
      | r => r
    else none
  | .bin f a b =>
    if f ∈ binaryCovered then
      match eval a with
      | some (.value x) =>
        match eval b with
        | some (.value y) => applyBin f x y
        | r => r
      | r => r
    else none

/-! ### comparison -/

def compare (op : String) (x y : Int) : Option Bool :=
  match op with
  | "=:=" => some (decide (x = y))
  | "=\\=" => some (decide (x ≠ y))
  | "<" => some (decide (x < y))
  | "=<" => some (decide (x ≤ y))
  | ">" => some (decide (x > y))
  | ">=" => some (decide (x ≥ y))
  | _ => none

end PrologVerif.Spec.ExactArith
