/-
  Proofs/SharedParam — nothing above the atom table depends on the numeric value of an id:
  id-level terms (`ITerm`) are read through a naming; equality, standard order and canonical
  answers are invariant under renamings of atom ids that are injective and name-preserving, and
  renamings of variable numbers that preserve order.
-/
import PrologVerif.Model.Shared
namespace PrologVerif.Shared

/-! ### abstraction commutes with renaming -/

mutual
  theorem ITerm.abs_ren (nm nm' : Nat → String) (ρ μ : Nat → Nat) : ∀ t : ITerm,
      (∀ a ∈ t.atoms, nm' (ρ a) = nm a) → (t.ren ρ μ).abs nm' = (t.abs nm).mapVars μ
    | .var v, _ => by simp [ITerm.ren, ITerm.abs, Term.mapVars]
    | .atom a, h => by simp [ITerm.ren, ITerm.abs, Term.mapVars, h a (by simp [ITerm.atoms])]
    | .int i, _ => by simp [ITerm.ren, ITerm.abs, Term.mapVars]
    | .app f as, h => by
      simp only [ITerm.ren, ITerm.abs, Term.mapVars, h f (by simp [ITerm.atoms])]
      rw [IArgs.abs_ren nm nm' ρ μ as (fun a ha => h a (by simp [ITerm.atoms, ha]))]
  theorem IArgs.abs_ren (nm nm' : Nat → String) (ρ μ : Nat → Nat) : ∀ ts : IArgs,
      (∀ a ∈ ts.atoms, nm' (ρ a) = nm a) → (ts.ren ρ μ).abs nm' = (ts.abs nm).mapVars μ
    | .nil, _ => by simp [IArgs.ren, IArgs.abs, Args.mapVars]
    | .cons t ts, h => by
      simp only [IArgs.ren, IArgs.abs, Args.mapVars]
      rw [ITerm.abs_ren nm nm' ρ μ t (fun a ha => h a (by simp [IArgs.atoms, ha])),
        IArgs.abs_ren nm nm' ρ μ ts (fun a ha => h a (by simp [IArgs.atoms, ha]))]
end

mutual
  theorem ITerm.vars_abs (nm : Nat → String) : ∀ t : ITerm, (t.abs nm).varsL = t.vars
    | .var v => by simp [ITerm.abs, Term.varsL, ITerm.vars]
    | .atom a => by simp [ITerm.abs, Term.varsL, ITerm.vars]
    | .int i => by simp [ITerm.abs, Term.varsL, ITerm.vars]
    | .app f as => by simp [ITerm.abs, Term.varsL, ITerm.vars, IArgs.vars_abs nm as]
  theorem IArgs.vars_abs (nm : Nat → String) : ∀ ts : IArgs, (ts.abs nm).varsL = ts.vars
    | .nil => by simp [IArgs.abs, Args.varsL, IArgs.vars]
    | .cons t ts => by simp [IArgs.abs, Args.varsL, IArgs.vars, ITerm.vars_abs nm t, IArgs.vars_abs nm ts]
end

/-! ### equality: comparing ids is comparing names (as long as interning is injective) -/

mutual
  theorem ITerm.ren_inj (ρ μ : Nat → Nat) : ∀ t u : ITerm,
      (∀ a ∈ t.atoms ++ u.atoms, ∀ b ∈ t.atoms ++ u.atoms, ρ a = ρ b → a = b) →
      (∀ v ∈ t.vars ++ u.vars, ∀ w ∈ t.vars ++ u.vars, μ v = μ w → v = w) →
      t.ren ρ μ = u.ren ρ μ → t = u
    | .var v, .var w, _, hμ, h => by
      simp only [ITerm.ren, ITerm.var.injEq] at h
      rw [hμ v (by simp [ITerm.vars]) w (by simp [ITerm.vars]) h]
    | .atom a, .atom b, hρ, _, h => by
      simp only [ITerm.ren, ITerm.atom.injEq] at h
      rw [hρ a (by simp [ITerm.atoms]) b (by simp [ITerm.atoms]) h]
    | .int i, .int j, _, _, h => by simpa [ITerm.ren] using h
    | .app f as, .app g bs, hρ, hμ, h => by
      simp only [ITerm.ren, ITerm.app.injEq] at h
      have hf := hρ f (by simp [ITerm.atoms]) g (by simp [ITerm.atoms]) h.1
      have has := IArgs.ren_inj ρ μ as bs
        (fun a ha b hb => hρ a (by simp only [ITerm.atoms, List.mem_append, List.mem_cons] at ha ⊢; grind)
          b (by simp only [ITerm.atoms, List.mem_append, List.mem_cons] at hb ⊢; grind))
        (fun v hv w hw => hμ v (by simpa [ITerm.vars] using hv) w (by simpa [ITerm.vars] using hw)) h.2
      rw [hf, has]
    | .var _, .atom _, _, _, h | .var _, .int _, _, _, h | .var _, .app _ _, _, _, h
    | .atom _, .var _, _, _, h | .atom _, .int _, _, _, h | .atom _, .app _ _, _, _, h
    | .int _, .var _, _, _, h | .int _, .atom _, _, _, h | .int _, .app _ _, _, _, h
    | .app _ _, .var _, _, _, h | .app _ _, .atom _, _, _, h | .app _ _, .int _, _, _, h => by
      simp [ITerm.ren] at h
  theorem IArgs.ren_inj (ρ μ : Nat → Nat) : ∀ ts us : IArgs,
      (∀ a ∈ ts.atoms ++ us.atoms, ∀ b ∈ ts.atoms ++ us.atoms, ρ a = ρ b → a = b) →
      (∀ v ∈ ts.vars ++ us.vars, ∀ w ∈ ts.vars ++ us.vars, μ v = μ w → v = w) →
      ts.ren ρ μ = us.ren ρ μ → ts = us
    | .nil, .nil, _, _, _ => rfl
    | .cons t ts, .cons u us, hρ, hμ, h => by
      simp only [IArgs.ren, IArgs.cons.injEq] at h
      have h1 := ITerm.ren_inj ρ μ t u
        (fun a ha b hb => hρ a (by simp only [IArgs.atoms, List.mem_append] at ha ⊢; grind)
          b (by simp only [IArgs.atoms, List.mem_append] at hb ⊢; grind))
        (fun v hv w hw => hμ v (by simp only [IArgs.vars, List.mem_append] at hv ⊢; grind)
          w (by simp only [IArgs.vars, List.mem_append] at hw ⊢; grind)) h.1
      have h2 := IArgs.ren_inj ρ μ ts us
        (fun a ha b hb => hρ a (by simp only [IArgs.atoms, List.mem_append] at ha ⊢; grind)
          b (by simp only [IArgs.atoms, List.mem_append] at hb ⊢; grind))
        (fun v hv w hw => hμ v (by simp only [IArgs.vars, List.mem_append] at hv ⊢; grind)
          w (by simp only [IArgs.vars, List.mem_append] at hw ⊢; grind)) h.2
      rw [h1, h2]
    | .nil, .cons _ _, _, _, h | .cons _ _, .nil, _, _, h => by simp [IArgs.ren] at h
end

mutual
  /-- Go compares atoms with `==` on ids; the models of the other properties compare names.
      With an injective naming the two agree. -/
  theorem ITerm.abs_inj (nm : Nat → String) : ∀ t u : ITerm,
      (∀ a ∈ t.atoms ++ u.atoms, ∀ b ∈ t.atoms ++ u.atoms, nm a = nm b → a = b) →
      t.abs nm = u.abs nm → t = u
    | .var v, .var w, _, h => by simpa [ITerm.abs] using h
    | .atom a, .atom b, hn, h => by
      simp only [ITerm.abs, Term.atom.injEq] at h
      rw [hn a (by simp [ITerm.atoms]) b (by simp [ITerm.atoms]) h]
    | .int i, .int j, _, h => by simpa [ITerm.abs] using h
    | .app f as, .app g bs, hn, h => by
      simp only [ITerm.abs, Term.app.injEq] at h
      have hf := hn f (by simp [ITerm.atoms]) g (by simp [ITerm.atoms]) h.1
      have has := IArgs.abs_inj nm as bs
        (fun a ha b hb => hn a (by simp only [ITerm.atoms, List.mem_append, List.mem_cons] at ha ⊢; grind)
          b (by simp only [ITerm.atoms, List.mem_append, List.mem_cons] at hb ⊢; grind)) h.2
      rw [hf, has]
    | .var _, .atom _, _, h | .var _, .int _, _, h | .var _, .app _ _, _, h
    | .atom _, .var _, _, h | .atom _, .int _, _, h | .atom _, .app _ _, _, h
    | .int _, .var _, _, h | .int _, .atom _, _, h | .int _, .app _ _, _, h
    | .app _ _, .var _, _, h | .app _ _, .atom _, _, h | .app _ _, .int _, _, h => by
      simp [ITerm.abs] at h
  theorem IArgs.abs_inj (nm : Nat → String) : ∀ ts us : IArgs,
      (∀ a ∈ ts.atoms ++ us.atoms, ∀ b ∈ ts.atoms ++ us.atoms, nm a = nm b → a = b) →
      ts.abs nm = us.abs nm → ts = us
    | .nil, .nil, _, _ => rfl
    | .cons t ts, .cons u us, hn, h => by
      simp only [IArgs.abs, Args.cons.injEq] at h
      have h1 := ITerm.abs_inj nm t u
        (fun a ha b hb => hn a (by simp only [IArgs.atoms, List.mem_append] at ha ⊢; grind)
          b (by simp only [IArgs.atoms, List.mem_append] at hb ⊢; grind)) h.1
      have h2 := IArgs.abs_inj nm ts us
        (fun a ha b hb => hn a (by simp only [IArgs.atoms, List.mem_append] at ha ⊢; grind)
          b (by simp only [IArgs.atoms, List.mem_append] at hb ⊢; grind)) h.2
      rw [h1, h2]
    | .nil, .cons _ _, _, h | .cons _ _, .nil, _, h => by simp [IArgs.abs] at h
end

/-! ### standard order -/

theorem IArgs.length_ren (ρ μ : Nat → Nat) : ∀ ts : IArgs, (ts.ren ρ μ).length = ts.length
  | .nil => rfl
  | .cons _ ts => by simp [IArgs.ren, IArgs.length, IArgs.length_ren ρ μ ts]

mutual
  theorem ITerm.cmp_ren (nm nm' : Nat → String) (ρ μ : Nat → Nat) : ∀ t u : ITerm,
      (∀ a ∈ t.atoms ++ u.atoms, nm' (ρ a) = nm a) →
      (∀ v ∈ t.vars ++ u.vars, ∀ w ∈ t.vars ++ u.vars, compare (μ v) (μ w) = compare v w) →
      ITerm.cmp nm' (t.ren ρ μ) (u.ren ρ μ) = ITerm.cmp nm t u
    | .var v, .var w, _, hμ => by
      simp only [ITerm.ren, ITerm.cmp]; exact hμ v (by simp [ITerm.vars]) w (by simp [ITerm.vars])
    | .atom a, .atom b, hn, _ => by
      simp only [ITerm.ren, ITerm.cmp, hn a (by simp [ITerm.atoms]), hn b (by simp [ITerm.atoms])]
    | .app f as, .app g bs, hn, hμ => by
      simp only [ITerm.ren, ITerm.cmp, IArgs.length_ren, hn f (by simp [ITerm.atoms]),
        hn g (by simp [ITerm.atoms])]
      rw [IArgs.cmp_ren nm nm' ρ μ as bs
        (fun a ha => hn a (by simp only [ITerm.atoms, List.mem_append, List.mem_cons] at ha ⊢; grind))
        (fun v hv w hw => hμ v (by simpa [ITerm.vars] using hv) w (by simpa [ITerm.vars] using hw))]
    | .int _, .int _, _, _ => by simp [ITerm.ren, ITerm.cmp]
    | .var _, .atom _, _, _ | .var _, .int _, _, _ | .var _, .app _ _, _, _
    | .atom _, .var _, _, _ | .atom _, .int _, _, _ | .atom _, .app _ _, _, _
    | .int _, .var _, _, _ | .int _, .atom _, _, _ | .int _, .app _ _, _, _
    | .app _ _, .var _, _, _ | .app _ _, .atom _, _, _ | .app _ _, .int _, _, _ => by
      simp [ITerm.ren, ITerm.cmp]
  theorem IArgs.cmp_ren (nm nm' : Nat → String) (ρ μ : Nat → Nat) : ∀ ts us : IArgs,
      (∀ a ∈ ts.atoms ++ us.atoms, nm' (ρ a) = nm a) →
      (∀ v ∈ ts.vars ++ us.vars, ∀ w ∈ ts.vars ++ us.vars, compare (μ v) (μ w) = compare v w) →
      IArgs.cmp nm' (ts.ren ρ μ) (us.ren ρ μ) = IArgs.cmp nm ts us
    | .nil, .nil, _, _ => by simp [IArgs.ren, IArgs.cmp]
    | .nil, .cons _ _, _, _ => by simp [IArgs.ren, IArgs.cmp]
    | .cons _ _, .nil, _, _ => by simp [IArgs.ren, IArgs.cmp]
    | .cons t ts, .cons u us, hn, hμ => by
      simp only [IArgs.ren, IArgs.cmp]
      rw [ITerm.cmp_ren nm nm' ρ μ t u
          (fun a ha => hn a (by simp only [IArgs.atoms, List.mem_append] at ha ⊢; grind))
          (fun v hv w hw => hμ v (by simp only [IArgs.vars, List.mem_append] at hv ⊢; grind)
            w (by simp only [IArgs.vars, List.mem_append] at hw ⊢; grind)),
        IArgs.cmp_ren nm nm' ρ μ ts us
          (fun a ha => hn a (by simp only [IArgs.atoms, List.mem_append] at ha ⊢; grind))
          (fun v hv w hw => hμ v (by simp only [IArgs.vars, List.mem_append] at hv ⊢; grind)
            w (by simp only [IArgs.vars, List.mem_append] at hw ⊢; grind))]
end

/-! ### canonical answers (variables renamed by first occurrence) -/

theorem indexOf?_go_map (μ : Nat → Nat) (v : Nat) : ∀ (xs : List Nat) (i : Nat),
    (∀ x ∈ xs, μ x = μ v → x = v) →
    indexOf?.go (μ v) (xs.map μ) i = indexOf?.go v xs i := by
  intro xs
  induction xs with
  | nil => intro i _; simp [indexOf?.go]
  | cons x xs ih =>
    intro i h
    simp only [List.map_cons, indexOf?.go]
    by_cases hx : x = v
    · simp [hx]
    · have : μ x ≠ μ v := fun e => hx (h x (by simp) e)
      simp only [this, hx, if_false]
      exact ih (i + 1) (fun y hy => h y (by simp [hy]))

theorem indexOf?_map (μ : Nat → Nat) (v : Nat) (xs : List Nat) (h : ∀ x ∈ xs, μ x = μ v → x = v) :
    indexOf? (xs.map μ) (μ v) = indexOf? xs v := indexOf?_go_map μ v xs 0 h

mutual
  /-- the variables `canonAux` has seen afterwards are those seen before plus the term's own -/
  theorem Term.canonAux_seen : ∀ (t : Term) (seen : List Nat),
      ∀ x ∈ (t.canonAux seen).2, x ∈ seen ++ t.varsL
    | .var v, seen => by
      intro x hx
      simp only [Term.canonAux] at hx
      split at hx
      · simp only at hx; simp [hx]
      · simp only [List.mem_append, List.mem_singleton] at hx; simp [Term.varsL]; exact hx
    | .atom _, seen | .int _, seen | .flt _, seen | .str _, seen => by
      intro x hx; simp only [Term.canonAux] at hx; simp [hx]
    | .app f as, seen => by
      intro x hx
      simp only [Term.canonAux] at hx
      have := Args.canonAux_seen as seen x hx
      simpa [Term.varsL] using this
  theorem Args.canonAux_seen : ∀ (ts : Args) (seen : List Nat),
      ∀ x ∈ (ts.canonAux seen).2, x ∈ seen ++ ts.varsL
    | .nil, seen => by intro x hx; simp only [Args.canonAux] at hx; simp [hx]
    | .cons t ts, seen => by
      intro x hx
      simp only [Args.canonAux] at hx
      have h1 := Args.canonAux_seen ts (t.canonAux seen).2 x hx
      rcases List.mem_append.mp h1 with h | h
      · have h2 := Term.canonAux_seen t seen x h
        simp only [Args.varsL, List.mem_append] at h2 ⊢; grind
      · simp only [Args.varsL, List.mem_append]; grind
end

mutual
  theorem Term.canonAux_mapVars (μ : Nat → Nat) : ∀ (t : Term) (seen : List Nat),
      (∀ v ∈ seen ++ t.varsL, ∀ w ∈ seen ++ t.varsL, μ v = μ w → v = w) →
      (t.mapVars μ).canonAux (seen.map μ) = ((t.canonAux seen).1, (t.canonAux seen).2.map μ)
    | .var v, seen, h => by
      simp only [Term.mapVars, Term.canonAux]
      rw [indexOf?_map μ v seen (fun x hx e => h x (by simp [hx]) v (by simp [Term.varsL]) e)]
      split <;> simp
    | .atom _, seen, _ | .int _, seen, _ | .flt _, seen, _ | .str _, seen, _ => by
      simp [Term.mapVars, Term.canonAux]
    | .app f as, seen, h => by
      simp only [Term.mapVars, Term.canonAux]
      rw [Args.canonAux_mapVars μ as seen (by simpa [Term.varsL] using h)]
  theorem Args.canonAux_mapVars (μ : Nat → Nat) : ∀ (ts : Args) (seen : List Nat),
      (∀ v ∈ seen ++ ts.varsL, ∀ w ∈ seen ++ ts.varsL, μ v = μ w → v = w) →
      (ts.mapVars μ).canonAux (seen.map μ) = ((ts.canonAux seen).1, (ts.canonAux seen).2.map μ)
    | .nil, seen, _ => by simp [Args.mapVars, Args.canonAux]
    | .cons t ts, seen, h => by
      simp only [Args.mapVars, Args.canonAux]
      have ht := Term.canonAux_mapVars μ t seen
        (fun v hv w hw => h v (by simp only [Args.varsL, List.mem_append] at hv ⊢; grind)
          w (by simp only [Args.varsL, List.mem_append] at hw ⊢; grind))
      rw [ht]
      have hsub : ∀ x ∈ (t.canonAux seen).2 ++ ts.varsL, x ∈ seen ++ (Args.cons t ts).varsL := by
        intro x hx
        rcases List.mem_append.mp hx with hx | hx
        · have := Term.canonAux_seen t seen x hx
          simp only [Args.varsL, List.mem_append] at this ⊢; grind
        · simp only [Args.varsL, List.mem_append]; grind
      have hts := Args.canonAux_mapVars μ ts (t.canonAux seen).2
        (fun v hv w hw => h v (hsub v hv) w (hsub w hw))
      simp only at hts ⊢
      rw [hts]
end

/-- first-occurrence canonicalisation forgets the variable numbers: any renaming that is injective
    on the term's variables gives the same canonical form -/
theorem Term.canon_mapVars (μ : Nat → Nat) (t : Term)
    (h : ∀ v ∈ t.varsL, ∀ w ∈ t.varsL, μ v = μ w → v = w) : (t.mapVars μ).canon = t.canon := by
  have := Term.canonAux_mapVars μ t [] (by simpa using h)
  simp only [List.map_nil] at this
  simp [Term.canon, this]

/-! ### unification -/

theorem ISubst.lookup_ren (ρ μ : Nat → Nat) (hμ : ∀ v w, μ v = μ w → v = w) (v : Nat) :
    ∀ s : ISubst, (s.ren ρ μ).lookup (μ v) = (s.lookup v).map (·.ren ρ μ) := by
  intro s
  induction s with
  | nil => simp [ISubst.ren]
  | cons p s ih =>
    obtain ⟨w, t⟩ := p
    simp only [ISubst.ren, List.map_cons, List.lookup_cons] at ih ⊢
    by_cases h : v = w
    · subst h; simp
    · have h' : μ v ≠ μ w := fun e => h (hμ v w e)
      have e1 : (μ v == μ w) = false := by simp [h']
      have e2 : (v == w) = false := by simp [h]
      simp only [e1, e2]
      exact ih

theorem ISubst.walk_ren (ρ μ : Nat → Nat) (hμ : ∀ v w, μ v = μ w → v = w) :
    ∀ (fuel : Nat) (s : ISubst) (t : ITerm),
      ISubst.walk fuel (s.ren ρ μ) (t.ren ρ μ) = (ISubst.walk fuel s t).ren ρ μ := by
  intro fuel
  induction fuel with
  | zero => intro s t; simp [ISubst.walk]
  | succ fuel ih =>
    intro s t
    cases t with
    | var v =>
      simp only [ITerm.ren, ISubst.walk, ISubst.lookup_ren ρ μ hμ v s]
      cases h : s.lookup v with
      | none => simp [ITerm.ren]
      | some t' => simp [ih]
    | atom a => simp [ITerm.ren, ISubst.walk]
    | int i => simp [ITerm.ren, ISubst.walk]
    | app f as => simp [ITerm.ren, ISubst.walk]

mutual
  theorem ITerm.unify_ren (ρ μ : Nat → Nat) (hρ : ∀ a b, ρ a = ρ b → a = b)
      (hμ : ∀ v w, μ v = μ w → v = w) : ∀ (fuel : Nat) (t u : ITerm) (s : ISubst),
      ITerm.unify fuel (t.ren ρ μ) (u.ren ρ μ) (s.ren ρ μ) = (ITerm.unify fuel t u s).map (·.ren ρ μ)
    | 0, _, _, _ => by simp [ITerm.unify]
    | fuel + 1, t, u, s => by
      simp only [ITerm.unify, ISubst.walk_ren ρ μ hμ]
      generalize ISubst.walk fuel s t = t'
      generalize ISubst.walk fuel s u = u'
      cases t' <;> cases u' <;> simp only [ITerm.ren, Option.map_some, Option.map_none]
      · rename_i v w
        by_cases h : v = w
        · subst h; simp
        · have : μ v ≠ μ w := fun e => h (hμ v w e)
          simp [h, this, ISubst.ren, ITerm.ren]
      · simp [ISubst.ren, ITerm.ren]
      · simp [ISubst.ren, ITerm.ren]
      · simp [ISubst.ren, ITerm.ren]
      · simp [ISubst.ren, ITerm.ren]
      · rename_i a b
        by_cases h : a = b
        · subst h; simp
        · have : ρ a ≠ ρ b := fun e => h (hρ a b e)
          simp [h, this]
      · simp [ISubst.ren, ITerm.ren]
      · rename_i i j
        by_cases h : i = j <;> simp [h]
      · simp [ISubst.ren, ITerm.ren]
      · rename_i g as h bs
        by_cases e : g = h
        · subst e
          simp only [if_true]
          exact IArgs.unify_ren ρ μ hρ hμ fuel as bs s
        · have : ρ g ≠ ρ h := fun e' => e (hρ g h e')
          simp [e, this]
  theorem IArgs.unify_ren (ρ μ : Nat → Nat) (hρ : ∀ a b, ρ a = ρ b → a = b)
      (hμ : ∀ v w, μ v = μ w → v = w) : ∀ (fuel : Nat) (ts us : IArgs) (s : ISubst),
      IArgs.unify fuel (ts.ren ρ μ) (us.ren ρ μ) (s.ren ρ μ) = (IArgs.unify fuel ts us s).map (·.ren ρ μ)
    | 0, _, _, _ => by simp [IArgs.unify]
    | fuel + 1, .nil, .nil, s => by simp [IArgs.unify, IArgs.ren]
    | fuel + 1, .cons t ts, .cons u us, s => by
      simp only [IArgs.unify, IArgs.ren]
      rw [ITerm.unify_ren ρ μ hρ hμ fuel t u s]
      cases ITerm.unify fuel t u s with
      | none => simp
      | some s' => simp only [Option.map_some]; exact IArgs.unify_ren ρ μ hρ hμ fuel ts us s'
    | fuel + 1, .nil, .cons _ _, s => by simp [IArgs.unify, IArgs.ren]
    | fuel + 1, .cons _ _, .nil, s => by simp [IArgs.unify, IArgs.ren]
end

/-! ### a renaming that is injective on a finite set extends to a globally injective one -/

def extend (f : Nat → Nat) (L : List Nat) (x : Nat) : Nat :=
  if x ∈ L then f x else x + ((L.map f).foldr max 0 + 1)

theorem le_foldr_max {M : List Nat} {y : Nat} (h : y ∈ M) : y ≤ M.foldr max 0 := by
  induction M with
  | nil => simp at h
  | cons z M ih =>
    simp only [List.foldr_cons]
    rcases List.mem_cons.mp h with rfl | h
    · exact Nat.le_max_left _ _
    · exact Nat.le_trans (ih h) (Nat.le_max_right _ _)

theorem extend_agrees (f : Nat → Nat) (L : List Nat) {x : Nat} (h : x ∈ L) : extend f L x = f x := by
  simp [extend, h]

theorem extend_injective (f : Nat → Nat) (L : List Nat)
    (hf : ∀ a ∈ L, ∀ b ∈ L, f a = f b → a = b) : ∀ a b, extend f L a = extend f L b → a = b := by
  intro a b h
  unfold extend at h
  by_cases ha : a ∈ L <;> by_cases hb : b ∈ L <;> simp only [ha, hb, if_true, if_false] at h
  · exact hf a ha b hb h
  · have := le_foldr_max (List.mem_map_of_mem (f := f) ha); omega
  · have := le_foldr_max (List.mem_map_of_mem (f := f) hb); omega
  · omega

mutual
  theorem ITerm.ren_congr (ρ ρ' μ μ' : Nat → Nat) : ∀ t : ITerm,
      (∀ a ∈ t.atoms, ρ a = ρ' a) → (∀ v ∈ t.vars, μ v = μ' v) → t.ren ρ μ = t.ren ρ' μ'
    | .var v, _, hv => by simp [ITerm.ren, hv v (by simp [ITerm.vars])]
    | .atom a, ha, _ => by simp [ITerm.ren, ha a (by simp [ITerm.atoms])]
    | .int _, _, _ => by simp [ITerm.ren]
    | .app f as, ha, hv => by
      simp only [ITerm.ren, ha f (by simp [ITerm.atoms])]
      rw [IArgs.ren_congr ρ ρ' μ μ' as (fun a h => ha a (by simp [ITerm.atoms, h]))
        (fun v h => hv v (by simpa [ITerm.vars] using h))]
  theorem IArgs.ren_congr (ρ ρ' μ μ' : Nat → Nat) : ∀ ts : IArgs,
      (∀ a ∈ ts.atoms, ρ a = ρ' a) → (∀ v ∈ ts.vars, μ v = μ' v) → ts.ren ρ μ = ts.ren ρ' μ'
    | .nil, _, _ => by simp [IArgs.ren]
    | .cons t ts, ha, hv => by
      simp only [IArgs.ren]
      rw [ITerm.ren_congr ρ ρ' μ μ' t (fun a h => ha a (by simp [IArgs.atoms, h]))
          (fun v h => hv v (by simp [IArgs.vars, h])),
        IArgs.ren_congr ρ ρ' μ μ' ts (fun a h => ha a (by simp [IArgs.atoms, h]))
          (fun v h => hv v (by simp [IArgs.vars, h]))]
end

end PrologVerif.Shared
