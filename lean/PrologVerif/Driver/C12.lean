import PrologVerif.Driver.Common
import PrologVerif.Model.Solutions
namespace PrologVerif.Driver.C12
open PrologVerif PrologVerif.Iter PrologVerif.Solutions PrologVerif.Driver

/-- "fin K" / "err J" / "inf" -/
def parseQuery (s : String) : Option Query :=
  match words s with
  | ["fin", k] => (natOfChars k.toList).map fun k => Query.ofList ((List.range k).map fun i => .answer (i + 1))
  | ["err", j] => (natOfChars j.toList).map fun j =>
      Query.ofList ((List.range j).map (fun i => Event.answer (i + 1)) ++ [.error 0])
  -- the endless query under a context cancelled right after its J-th answer: from then on it HAS ended in
  -- an error — the outcome stream of "err J"
  | ["can", j] => (natOfChars j.toList).map fun j =>
      Query.ofList ((List.range j).map (fun i => Event.answer (i + 1)) ++ [.error 0])
  | ["mix", k] => (natOfChars k.toList).map fun k =>
      -- answers 1, unbound (0), 3, unbound, …
      Query.ofList ((List.range k).map fun i => .answer (if i % 2 = 0 then i + 1 else 0))
  | ["inf"] => some fun i => .answer (i + 1)
  -- a query made only of cuts: ONE answer that binds nothing and calls no predicate (the engine hands
  -- the untouched nil environment to the continuation); answer number 0 = "X unbound"
  | ["cut"] => some (Query.ofList [.answer 0])
  | _ => none

def parseOp : Char → Option Op
  | 'N' => some .next | 'S' => some .scan | 'E' => some .err | 'C' => some .close
  | _ => none

def opLetter : Op → String
  | .next => "N" | .scan => "S" | .err => "E" | .close => "C"

def parseOps (s : String) : Option (List Op) :=
  (words s).mapM fun w => match w.toList with
    | [c] => parseOp c
    | _ => none

def showRet : Ret → String
  | .bool b => "N:" ++ (if b then "true" else "false")
  | .ans none => "S:-"
  | .ans (some a) => if a = 0 then "S:-" else "S:" ++ toString a
  | .err none => "E:-"
  | .err (some _) => "E:ball%20Aoops"
  | .closed false => "C:nil"
  | .closed true => "C:closed"

/-- the items a terminal state of the model shows: its log, plus the call that never returned -/
def items (s : Sys) : List String :=
  s.out.map showRet ++
    (match s.c with
     | .idle => (match s.todo with | [] => [] | op :: _ => [opLetter op ++ ":BLOCKED"])
     | .nextSend | .nextRecv => ["N:BLOCKED"]
     | .crashed => ["PANIC"])

def alive (s : Sys) : Nat := if s.p = .exited then 0 else 1

def dedup (xs : List String) : List String :=
  xs.foldl (fun acc x => if x ∈ acc then acc else acc ++ [x]) []

def oneOf (xs : List String) : String :=
  match dedup xs with
  | [x] => x
  | ys => "NONDET " ++ " // ".intercalate ys

/-! ### c12.seq -/

def seqModel (q : Query) (ops : List Op) : String :=
  oneOf ((terminals true q ops).map fun s =>
    " ".intercalate (items s) ++ s!" | work={s.work} g={alive s}")

/-- compare the implementation's items with the specification's return values -/
def judgeItems (want : List String) (got : List String) (label : Nat → String) : Option String :=
  let rec go : List String → List String → Nat → Option String
    | [], [], _ => none
    | w :: ws, g :: gs, i =>
      if g.endsWith ":BLOCKED" then some s!"call #{i}{label i} did not return within the watchdog; specification: {w}"
      else if w == g then go ws gs (i + 1)
      else some s!"call #{i}{label i}: specification {w}, implementation {g}"
    | _, _, i => some s!"output has the wrong number of items at #{i}"
  go want got 0

def splitBar (s : String) : String × String :=
  match s.splitOn "|" with
  | [a, b] => (trim a, trim b)
  | [a] => (trim a, "")
  | _ => ("", "")

def seqJudge (q : Query) (ops : List Op) (impl : String) : String :=
  let (its, tail) := splitBar impl
  let st := (run q ops).1
  match judgeItems ((outs q ops).map showRet) (words its) (fun _ => "") with
  | some e => "FAIL " ++ e
  | none =>
    let work := st.pos + (if st.finished then 1 else 0)
    let g := if st.closed || st.finished then 0 else 1
    let want := s!"work={work} g={g}"
    if tail == want then "ok"
    else s!"FAIL after the sequence: specification {want} (search steps = answers delivered, +1 if the end was reported; goroutine gone iff closed or ended), implementation {tail}"

/-- the harness stops running cases once several calls have blocked (each costs a watchdog period) -/
def skipped (impl : String) : Bool := impl.startsWith "SKIPPED"

/-- the cut-only query runs no tick goal: its work counter is always 0 -/
def zeroWork (s : String) : String :=
  match s.splitOn "work=" with
  | [a, b] => a ++ "work=0" ++ String.ofList (b.toList.dropWhile Char.isDigit)
  | _ => s

/-- what Err shows for a cancelled context -/
def canceledItem : String := "E:goerr%20context%2520canceled"

def mapWork (f : Nat → Nat) (s : String) : String :=
  match s.splitOn "work=" with
  | [a, b] =>
    let ds := b.toList.takeWhile Char.isDigit
    a ++ "work=" ++ toString (f ((natOfChars ds).getD 0)) ++ String.ofList (b.toList.dropWhile Char.isDigit)
  | _ => s

def seqHandler : Handler := fun payload impl =>
  let (qs, os) := splitBar payload
  match parseQuery qs, parseOps os with
  | some q, some ops =>
    if (words qs).head? == some "can" then
      -- as "err J", except that the error is the context's and that the search step which would have found
      -- the end never runs (the cancelled context is seen first)
      let st := (run q ops).1
      let fin := st.finished
      let model := (seqModel q ops).replace "E:ball%20Aoops" canceledItem
      let implAsErr := impl.replace canceledItem "E:ball%20Aoops"
      -- once the context is cancelled the search goroutine MAY go away on its own, before the iterator is
      -- told (it is no longer needed): both counts are accepted between the cancellation and the end
      let j := (natOfChars ((words qs).getD 1 "").toList).getD 0
      let gFree := !fin && !st.closed && st.pos ≥ j && (impl.splitOn " g=0").length == 2
      let model := if gFree then model.replace " g=1" " g=0" else model
      let implAsErr := if gFree then implAsErr.replace " g=0" " g=1" else implAsErr
      (if fin then mapWork (· - 1) model else model,
       if skipped impl then "-" else seqJudge q ops (if fin then mapWork (· + 1) implAsErr else implAsErr))
    else if trim qs == "cut" then
      -- judge with the work counter the specification would show for a one-answer query
      let implAsFin := match impl.splitOn "work=0" with
        | [a, b] =>
          let st := (run q ops).1
          a ++ s!"work={st.pos + (if st.finished then 1 else 0)}" ++ b
        | _ => impl
      (zeroWork (seqModel q ops), if skipped impl then "-" else seqJudge q ops implAsFin)
    else (seqModel q ops, if skipped impl then "-" else seqJudge q ops impl)
  | _, _ => ("BAD-CASE", "FAIL unparsable case")

/-! ### c12.inter: two Solutions, calls interleaved -/

def parseSteps (s : String) : Option (List (Bool × Op)) :=
  (words s).mapM fun w => match w.toList with
    | ['a', c] => (parseOp c).map fun o => (false, o)
    | ['b', c] => (parseOp c).map fun o => (true, o)
    | _ => none

def proj (side : Bool) (steps : List (Bool × Op)) : List Op :=
  (steps.filter (·.1 == side)).map (·.2)

/-- merge the two per-side result lists back into the order of the calls -/
def merge : List (Bool × Op) → List String → List String → List String
  | [], _, _ => []
  | (false, _) :: rest, a :: as, bs => ("a" ++ a) :: merge rest as bs
  | (true, _) :: rest, as, b :: bs => ("b" ++ b) :: merge rest as bs
  | _ :: _, _, _ => ["MISSING"]

def interModel (qa qb : Query) (steps : List (Bool × Op)) : String :=
  let ta := terminals true qa (proj false steps)
  let tb := terminals true qb (proj true steps)
  oneOf (ta.flatMap fun sa => tb.map fun sb =>
    if sa.c = .idle ∧ sa.todo = [] ∧ sb.c = .idle ∧ sb.todo = [] then
      " ".intercalate (merge steps (sa.out.map showRet) (sb.out.map showRet)) ++
        s!" | work={sa.work},{sb.work} g={alive sa + alive sb}"
    else "BLOCKED-IN-MODEL")

def interJudge (qa qb : Query) (steps : List (Bool × Op)) (impl : String) : String :=
  let (its, tail) := splitBar impl
  let oa := proj false steps
  let ob := proj true steps
  let want := merge steps ((outs qa oa).map showRet) ((outs qb ob).map showRet)
  match judgeItems want (words its) (fun _ => "") with
  | some e => "FAIL " ++ e ++ " (each Solutions must return what it returns alone)"
  | none =>
    let sa := (run qa oa).1
    let sb := (run qb ob).1
    let w := fun (st : State) => st.pos + (if st.finished then 1 else 0)
    let g := fun (st : State) => if st.closed || st.finished then 0 else 1
    let wantTail := s!"work={w sa},{w sb} g={g sa + g sb}"
    if tail == wantTail then "ok" else s!"FAIL after the sequence: specification {wantTail}, implementation {tail}"

def interHandler : Handler := fun payload impl =>
  let (qs, os) := splitBar payload
  match qs.splitOn ";" with
  | [a, b] =>
    match parseQuery a, parseQuery b, parseSteps os with
    | some qa, some qb, some steps => (interModel qa qb steps, if skipped impl then "-" else interJudge qa qb steps impl)
    | _, _, _ => ("BAD-CASE", "FAIL unparsable case")
  | _ => ("BAD-CASE", "FAIL unparsable case")

end PrologVerif.Driver.C12
