/-
  Proofs/ArithBits — Go's & | ^ ^x on int64 (through BitVec 64 in Model/ArithBase) are the bitwise
  operations on the two's complement representations of UNBOUNDED width: every bit i (also i ≥ 64) of
  the result is the operation applied to bit i of the operands.
-/
import PrologVerif.Proofs.Arith
namespace PrologVerif.ArithProofs
open PrologVerif.Arith PrologVerif.Generated.Arith
open PrologVerif.Spec.ExactArith (Outcome inRange checked bit ofBits)

theorem two_pow_pos (i : Nat) : (0 : Int) < 2 ^ i := Int.pow_pos (by decide)

theorem emod_pow_ediv (z : Int) (i n : Nat) (h : i < n) : ((z % 2 ^ n) / 2 ^ i) % 2 = (z / 2 ^ i) % 2 := by
  have hn : (2 : Int) ^ n = 2 ^ i * (2 * 2 ^ (n - i - 1)) := by
    rw [← Int.pow_succ', ← Int.pow_add]; congr 1; omega
  have hi : (2 : Int) ^ i ≠ 0 := Int.ne_of_gt (two_pow_pos i)
  have base := Int.emod_add_mul_ediv z (2 ^ n)
  generalize z % 2 ^ n = r at *
  generalize z / 2 ^ n = q at base
  rw [← base, hn, Int.mul_assoc, Int.add_mul_ediv_left _ _ hi, Int.mul_assoc, Int.add_mul_emod_self_left]

/-- bits below 64 of an in-range number are the bits of its 64-bit pattern -/
theorem getLsbD_toBV (v : I64) (i : Nat) (h : i < 64) : v.toBV.getLsbD i = bit v.val i := by
  unfold I64.toBV bit
  rw [BitVec.getLsbD, BitVec.toNat_ofInt, Nat.testBit_eq_decide_div_mod_eq]
  have hnn : 0 ≤ v.val % ((2 ^ 64 : Nat) : Int) := Int.emod_nonneg _ (by decide)
  have : (((v.val % ((2 ^ 64 : Nat) : Int)).toNat / 2 ^ i % 2 : Nat) : Int) = (v.val / 2 ^ i) % 2 := by
    rw [Int.natCast_emod, Int.natCast_ediv, Int.toNat_of_nonneg hnn, Int.natCast_pow]
    exact emod_pow_ediv v.val i 64 h
  congr 1
  apply propext
  constructor
  · intro h1; rw [← this, h1]; rfl
  · intro h1; rw [h1] at this; exact_mod_cast this

theorem toInt_inRange (w : BitVec 64) : InRange w.toInt := by
  have h1 := BitVec.toInt_le (x := w)
  have h2 := BitVec.le_toInt w
  simp at h1 h2
  unfold InRange; omega

theorem toBV_ofBV (w : BitVec 64) : (I64.ofBV w).toBV = w := by
  unfold I64.ofBV I64.toBV
  rw [I64.val_ofInt, wrap_eq_self (toInt_inRange w), BitVec.ofInt_toInt]

theorem val_ofBV (w : BitVec 64) : (I64.ofBV w).val = w.toInt := by
  unfold I64.ofBV
  rw [I64.val_ofInt, wrap_eq_self (toInt_inRange w)]

/-- above bit 62 an in-range number only repeats its sign -/
theorem bit_high (v : Int) (hv : InRange v) (i : Nat) (hi : 63 ≤ i) : bit v i = decide (v < 0) := by
  unfold bit
  have hp : (2 : Int) ^ 63 ≤ 2 ^ i := by
    rcases Nat.lt_or_ge 63 i with h | h
    · exact Int.le_of_lt (Int.pow_lt_pow_of_lt (by decide) h)
    · have : i = 63 := by omega
      subst this; exact Int.le_refl _
  have h63 : (2 : Int) ^ 63 = 9223372036854775808 := by decide
  by_cases hneg : v < 0
  · rw [Int.ediv_eq_neg_one_of_neg_of_le hneg (by unfold InRange at hv; omega)]
    simp [hneg]
  · rw [Int.ediv_eq_zero_of_lt (by omega) (by unfold InRange at hv; omega)]
    simp [hneg]

/-- a binary bit operation on the 64-bit patterns is that operation on ALL bits of the two's
    complement representations of unbounded width -/
theorem bit_binop (op : BitVec 64 → BitVec 64 → BitVec 64) (f : Bool → Bool → Bool)
    (hop : ∀ a b i, (op a b).getLsbD i = f (a.getLsbD i) (b.getLsbD i))
    (x y : I64) (i : Nat) :
    bit (I64.ofBV (op x.toBV y.toBV)).val i = f (bit x.val i) (bit y.val i) := by
  have key : ∀ j, j < 64 → bit (I64.ofBV (op x.toBV y.toBV)).val j = f (bit x.val j) (bit y.val j) := by
    intro j hj
    rw [← getLsbD_toBV _ j hj, toBV_ofBV, hop, getLsbD_toBV _ j hj, getLsbD_toBV _ j hj]
  by_cases hi : i < 64
  · exact key i hi
  · have h63 := key 63 (by decide)
    rw [bit_high _ (I64.ofBV _).inRange i (by omega), bit_high _ x.inRange i (by omega),
      bit_high _ y.inRange i (by omega)]
    rw [bit_high _ (I64.ofBV _).inRange 63 (by omega), bit_high _ x.inRange 63 (by omega),
      bit_high _ y.inRange 63 (by omega)] at h63
    exact h63

theorem bit_and (x y : I64) (i : Nat) : bit (I64.and x y).val i = (bit x.val i && bit y.val i) :=
  bit_binop (· &&& ·) (· && ·) (fun a b i => by simp) x y i

theorem bit_or (x y : I64) (i : Nat) : bit (I64.or x y).val i = (bit x.val i || bit y.val i) :=
  bit_binop (· ||| ·) (· || ·) (fun a b i => by simp) x y i

theorem bit_xor (x y : I64) (i : Nat) : bit (I64.xor x y).val i = (bit x.val i != bit y.val i) :=
  bit_binop (· ^^^ ·) (· != ·) (fun a b i => by simp) x y i

/-- Go's `^x` is -x-1 -/
theorem val_not (x : I64) : (I64.not x).val = -x.val - 1 := by
  have hx := x.inRange
  unfold I64.not
  rw [val_ofBV, BitVec.toInt_not]
  have h2 : x.toBV.toNat = (x.val % 18446744073709551616).toNat := by
    unfold I64.toBV; simp [BitVec.toNat_ofInt]
  rw [h2]
  unfold Int.bmod
  unfold InRange at hx
  simp only [Int.reducePow, Int.natCast_pow, Int.cast_ofNat_Int]
  omega


theorem emod_mul_two (z m : Int) (hm : 0 < m) : z % (m * 2) = z % m + m * ((z / m) % 2) := by
  have h1 := Int.emod_add_mul_ediv z m
  have h2 := Int.emod_add_mul_ediv (z / m) 2
  have ha0 := Int.emod_nonneg z (Int.ne_of_gt hm)
  have ha1 := Int.emod_lt_of_pos z hm
  have he0 := Int.emod_nonneg (z / m) (by decide : (2 : Int) ≠ 0)
  have he1 := Int.emod_lt_of_pos (z / m) (by decide : (0 : Int) < 2)
  have := (Int.ediv_emod_unique (a := z) (b := m * 2) (r := z % m + m * ((z / m) % 2)) (q := (z / m) / 2)
    (by omega)).2
  refine (this ⟨?_, ?_, ?_⟩).2
  · generalize z % m = a at *
    generalize hd : z / m = d at *
    generalize d % 2 = e at *
    generalize d / 2 = h at *
    rw [← h1, ← h2, Int.mul_add, Int.mul_assoc, Int.add_assoc]
  · have : 0 ≤ m * ((z / m) % 2) := Int.mul_nonneg (by omega) he0
    omega
  · have : m * ((z / m) % 2) ≤ m * 1 := Int.mul_le_mul_of_nonneg_left (by omega) (by omega)
    omega

theorem foldl_bits (b : Nat → Bool) (z : Int) (hb : ∀ i, b i = bit z i) (k : Nat) :
    (List.range k).foldl (fun acc i => acc + (if b i then 2 ^ i else 0)) (0 : Int) = z % 2 ^ k := by
  induction k with
  | zero => simp [Int.emod_one]
  | succ k ih =>
    rw [List.range_succ, List.foldl_append, ih]
    simp only [List.foldl_cons, List.foldl_nil]
    rw [Int.pow_succ, emod_mul_two z (2 ^ k) (two_pow_pos k), hb k]
    unfold bit
    have he0 := Int.emod_nonneg (z / 2 ^ k) (by decide : (2 : Int) ≠ 0)
    have he1 := Int.emod_lt_of_pos (z / 2 ^ k) (by decide : (0 : Int) < 2)
    by_cases h : z / 2 ^ k % 2 = 1
    · simp [h]
    · have : z / 2 ^ k % 2 = 0 := by omega
      simp [this]

/-- reading the 64 low bits back as a two's complement number gives the number -/
theorem ofBits_bit (b : Nat → Bool) (z : Int) (hz : InRange z) (hb : ∀ i, b i = bit z i) : ofBits b = z := by
  unfold ofBits
  rw [foldl_bits b z hb 63, hb 63, bit_high z hz 63 (Nat.le_refl _)]
  unfold InRange at hz
  by_cases h : z < 0
  · simp [h]; omega
  · simp [h]; omega

end PrologVerif.ArithProofs
