"""Per-property configuration of bin/check (streams, sizes, trusted base). See DESIGN.md §6."""

COMMON_TRUSTED = [
    "Lean 4.33.0 kernel (thorough tier: re-checked with leanchecker); axioms allowed in property theorems: propext, Classical.choice, Quot.sound only (audited on every run by PrologVerif/Audit.lean); no sorry/admit/native_decide/bv_decide/own axioms (grep on every run)",
    "hand-written Lean model mirrors the Go code: CHECKED by the correspondence streams (differential testing, bounded by the generators; distributions are in this file), not proved",
    "/verif/extract (regenerated facts / translated definitions) and /verif/harness (in-process runner, canonicalisation: variables renamed by first occurrence, map-ordered output sorted, error context dropped)",
    "Go compiler/runtime and standard library behave as documented",
]

NOT_APPLICABLE = {}

PROPS = {
    "C06": dict(
        level_text="Proof (partial): the lexer (engine/lexer.go, whole file), the reader (engine/parser.go: Pratt parser, integer(), float()) and the writer (Atom/Integer/Float/Variable.WriteTerm, WriteCompound with all operator cases) are modelled in Lean. Kernel-checked for ALL inputs: termination of tokenisation and soundness of the 4-slot rune ring buffer (C06_token_progress, C06_ring_sound, C06_tokens_terminate), the atom round trip (C06_atom_roundtrip: unquote after quote is the identity, the lexer accepts whatever quote emits as one quoted token, an atom written unquoted lexes as the name token with that text), the integer round trip over all 64-bit integers through lexer and parser under every operator table (C06_integer_roundtrip), the shape of float texts (C06_float_text_shape), and the write_canonical round trip (C06_canonical_roundtrip: for every finite term, every operator table and every double_quotes flag, read_term of the written text returns the term up to variable renaming - by induction over terms through the full lexer and the Pratt parser model). Operator notation (writeq with a non-empty operator context: C06_op_roundtrip_statement stays open) and float bits are not proved; they are checked by the property's own oracle on the real interpreter (c06.terms, c06.numbers: write to a stream, read back with the same table, compare) and by model/implementation correspondence of text and read-back term.",
        level_note="Trusted: Lean kernel; the hand-written models (checked by c06.lex / c06.atoms / c06.numbers / c06.terms, not proved); Unicode character classes as an oracle parameter (theorems hold for every oracle; the driver uses the tables regenerated from Go's package unicode); strconv.FormatFloat/ParseFloat round trip (library law, checked per case against an exact rational conversion); char_conversion never reaches the lexer (Lexer.charConversions is only set by tests) - round-trip theorems assume the identity conversion.",
        technique="Lean 4: Hoare-style specifications of every lexer function (ring-buffer credit invariant, consumption accounting, fuel adequacy), structural induction over atom texts / digit strings / terms (mutual Term/Args induction through lexer and parser for write_canonical), model/implementation correspondence, property oracle on the real reader and writer",
        lean_module="PrologVerif.Properties.C06",
        ns="PrologVerif.C06",
        streams=[dict(name="c06.lex", quick=4000, thorough=30000),
                 dict(name="c06.atoms", quick=3000, thorough=20000),
                 dict(name="c06.numbers", quick=6000, thorough=40000),
                 dict(name="c06.terms", quick=5000, thorough=30000)],
        rule="c06.lex: exhaustive code points < 0x250 and a class-covering set, all pairs over a 40-character alphabet (thorough: all triples over 18), token-shaped fragments with suffixes, random texts over all of Unicode; non-trivial = at least two tokens or an invalid/quoted/float/double-quoted token. c06.atoms: the same scopes as atom texts plus a word list and random texts; non-trivial = the atom needs quotes or has at least two characters. c06.numbers: boundary grid and random 64-bit integers, floats from random bits / subnormals / powers of two and ten +-3 ulp / short decimals / extremes, decimal texts at and next to exact midpoints of adjacent floats, literals in all bases around 2^63 and 2^64; non-trivial = the text denotes a number. c06.terms: exhaustive small scope first (every pair context operator x operand operator over the 7 specifiers x 3 priority relations x argument positions x 4 leaf sets incl. operator atoms, negative numbers and -0.0; one name as prefix and infix/postfix operator at once: 2986 cases), then random terms (depth <= 5) over atoms of every lexical class, operators of the current table as atoms/functors, negative numbers, -0.0, lists, partial lists, curly terms, variables x 0..4 random op/3 directives (any specifier, 16 priorities, 32 names incl. ',' '|' [] {} e E) x double_quotes in {codes, chars, atom} x {writeq, write_canonical, write_term quoted(true)}; '$VAR'(N) only under write_canonical; non-trivial = the text contains a quoted atom or the term has a compound written in operator notation; distinct = distinct case text",
        trusted=[
            "modelled (hand-written, correspondence-checked): engine/lexer.go (all of it), engine/parser.go Parser.Term/term/prefix/infix/op/term0/term0Atom/variable/openClose/atom/name/list/curlyBracketedTerm/functionalNotation/arg/number, integer, float, unquote/unDoubleQuote/validEscapeSequences, tokenRingBuffer; engine/atom.go Atom.WriteTerm/needQuoted/quote/quotedIdentEscape/letterDigit/graphic; engine/integer.go, float.go, variable.go WriteTerm; engine/compound.go WriteCompound and all writeCompound* functions",
            "regenerated from source on every run: Unicode classes (Ll|Lo|Lm, IsUpper, IsSpace, ToUpper-hex) for all code points >= 0x80 from the Go toolchain's package unicode (Generated/Unicode.lean); the default operator table from bootstrap.pl (Generated/Bootstrap.lean)",
            "parameters (not modelled): strconv.FormatFloat(f,'g',-1,64) digits (taken from the implementation's line, checked to denote the float by exact rational arithmetic in Model/FloatDec.lean); variable names _<n> (taken from the written text in order of first occurrence)",
            "not modelled: max_depth, cyclic terms (visited), variable_names, placeholders of Parser; streams and read_term's option handling (observed through the harness only)",
        ],
        modelled={"hand_modelled": ["Lexer.Token and all lexer methods", "runeRingBuffer (ghost)", "Parser.Term and all parser methods", "integer", "float", "unquote", "validEscapeSequences", "Atom.WriteTerm", "needQuoted", "quote", "Integer.WriteTerm", "Float.WriteTerm", "Variable.WriteTerm", "WriteCompound", "writeCompoundOpPrefix/Postfix/Infix", "writeCompoundList", "writeCompoundCurlyBracketed", "writeCompoundFunctionalNotation"],
                  "regenerated": ["unicode tables", "bootstrap.pl op/3 directives"], "observed_only": ["write_term/3 option parsing", "read_term/3", "number_codes/2", "number_chars/2", "strconv.FormatFloat"]},
        assumptions=["the lexer applies no char_conversion (Lexer.charConversions is never set by the engine outside tests)", "atom texts are valid UTF-8 (List Char)", "terms are finite trees; floats are finite (no NaN/Inf)"],
    ),
    "C18": dict(
        level_text="Proof: the operator-table state machine (Op/validateOp/CurrentOp and the operators methods) is modelled in Lean; for ALL histories of op/3 calls with arbitrary argument terms the ISO invariant (C18_inv), atomicity of failed updates (C18_atomic), the exact effect of successful updates (C18_update_exact: latest wins, 0 removes, other classes kept) and exactness of current_op/3 (C18_current_op_exact) are kernel-checked theorems, the default table being regenerated from bootstrap.pl. The model is tied to the Go code by the c18.hist correspondence stream (impl vs model, plus an independent executable ISO specification as oracle, plus reader/writer probes).",
        level_note="Trusted: Lean kernel; the hand-written model of Op/validateOp/CurrentOp (checked by differential runs, not proved); harness canonicalisation; reader/writer use of the table is only probed, not modelled. Pattern variables of current_op/3 assumed pairwise distinct.",
        technique="Lean 4 invariant proof by induction over op/3 histories + regenerated default table + model/implementation correspondence",
        lean_module="PrologVerif.Properties.C18",
        ns="PrologVerif.C18",
        streams=[dict(name="c18.hist", quick=3000, thorough=40000)],
        rule="histories of 1..8 operations over op/3 (valid and invalid priorities, specifiers, names, lists with invalid members, partial lists, special names , | [] {}), current_op/3 in every instantiation pattern, and a reader/writer probe; generated from one PRNG (VERIF_SEED); non-trivial = at least two op/3 calls in the history changed the table, or one changed it and another was rejected; distinct = distinct case text",
        trusted=[
            "modelled (hand-written, correspondence-checked): engine/builtin.go Op, validateOp, appendUniqNewAtom, CurrentOp; engine/parser.go operators.define/remove/definedInClass; ListIterator as used by Op",
            "regenerated from source on every run: the default operator table = the op/3 directives of bootstrap.pl read by the real parser (Generated/Bootstrap.lean); C18_default_valid is re-proved against it by kernel evaluation",
            "not modelled: the reader and writer themselves (only probed: 'a n b', 'n a', 'a n' parse / writeq(n(a,b)), writeq(n(a)) print according to the table); Go map iteration order (answers compared as sets)",
        ],
        modelled={"hand_modelled": ["Op", "validateOp", "appendUniqNewAtom", "CurrentOp", "operators.define", "operators.remove", "operators.definedInClass"],
                  "regenerated": ["bootstrap.pl op/3 directives"], "observed_only": ["Parser (probe)", "WriteCompound (probe)"]},
        assumptions=["pattern variables of current_op/3 calls are pairwise distinct (the model matches argument-wise)"],
    ),
}
