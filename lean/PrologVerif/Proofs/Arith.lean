/-
  Proofs/Arith — helper definitions and lemmas for C07: the integer kernels of Generated/Arith
  (the translation of engine/number.go) against Spec/ExactArith.
-/
import PrologVerif.Generated.Arith
import PrologVerif.Spec.ExactArith
namespace PrologVerif.ArithProofs
open PrologVerif.Arith PrologVerif.Generated.Arith
open PrologVerif.Spec.ExactArith (Outcome inRange checked)

/-- the specification functions under a prefix that cannot be confused with the kernels -/
abbrev S.add := Spec.ExactArith.add
abbrev S.sub := Spec.ExactArith.sub
abbrev S.mul := Spec.ExactArith.mul
abbrev S.neg := Spec.ExactArith.neg
abbrev S.abs := Spec.ExactArith.abs
abbrev S.sign := Spec.ExactArith.sign
abbrev S.pos := Spec.ExactArith.pos
abbrev S.max := Spec.ExactArith.max
abbrev S.min := Spec.ExactArith.min
abbrev S.intDiv := Spec.ExactArith.intDiv
abbrev S.rem := Spec.ExactArith.rem
abbrev S.floorDiv := Spec.ExactArith.floorDiv
abbrev S.mod := Spec.ExactArith.mod
abbrev S.pow := Spec.ExactArith.pow

/-- What a kernel returned, read as an outcome of the specification: the value as an UNBOUNDED integer,
    the evaluation error, the type error.  A panic (or a float culprit) is no outcome. -/
def outcome : Except Err I64 → Option Outcome
  | .ok v => some (.value v.val)
  | .error (.ev e) => some (.evalError e.atom)
  | .error (.typeError t (.int c)) => some (.typeError t c)
  | _ => none

theorem inRange_iff (z : Int) : inRange z ↔ -9223372036854775808 ≤ z ∧ z ≤ 9223372036854775807 := Iff.rfl
theorem checked_pos {z : Int} (h : inRange z) : checked z = .value z := by simp [checked, h]
theorem checked_neg {z : Int} (h : ¬ inRange z) : checked z = .evalError "int_overflow" := by simp [checked, h]

/-- rewrite comparisons and operations on I64 into statements about `Int` and `wrap` -/
macro "i64_norm" : tactic =>
  `(tactic| simp only [I64.gt_def, I64.lt_def, I64.ge_def, I64.le_def, I64.ext_iff, I64.val_wsub, I64.val_wadd,
      I64.val_wmul, I64.val_wneg, I64.val_maxInt, I64.val_minInt, I64.val_zero, I64.val_one, I64.val_negOne,
      I64.val_ofInt, ne_eq] at *)

/-! ### truncated division -/

/-- everything omega needs to know about truncated division -/
theorem tdiv_tmod_facts (a b : Int) (hb : b ≠ 0) :
    a.tdiv b * b + a.tmod b = a ∧
    (0 < b → -b < a.tmod b ∧ a.tmod b < b) ∧ (b < 0 → b < a.tmod b ∧ a.tmod b < -b) ∧
    (0 ≤ a → 0 ≤ a.tmod b) ∧ (a ≤ 0 → a.tmod b ≤ 0) ∧
    (a.tdiv b).natAbs ≤ a.natAbs := by
  refine ⟨Int.tdiv_mul_add_tmod a b, ?_, ?_, ?_, ?_, Int.natAbs_tdiv_le_natAbs a b⟩
  · intro h
    have := Int.tmod_eq_emod (a := a) (b := b)
    have h1 := Int.emod_nonneg a hb
    have h2 := Int.emod_lt_of_pos a h
    split at this <;> omega
  · intro h
    have := Int.tmod_eq_emod (a := a) (b := b)
    have h1 := Int.emod_nonneg a hb
    have h2 := Int.emod_lt a hb
    split at this <;> omega
  · intro h; exact Int.tmod_nonneg b h
  · intro h
    have := Int.tmod_eq_emod (a := a) (b := b)
    have h1 := Int.emod_nonneg a hb
    have h2 := Int.emod_lt a hb
    split at this
    · rename_i h3
      rcases h3 with h3 | h3
      · have : a = 0 := by omega
        subst this; simp
      · rw [Int.dvd_iff_emod_eq_zero] at h3; omega
    · omega

/-- the quotient is representable unless it is `minInt / -1` -/
theorem tdiv_inRange (x y : Int) (hx : InRange x) (hy : InRange y) (hy0 : y ≠ 0)
    (h1 : ¬ (x = -9223372036854775808 ∧ y = -1)) : InRange (x.tdiv y) := by
  obtain ⟨hdiv, hpos, hneg, _, _, habs⟩ := tdiv_tmod_facts x y hy0
  generalize hq : x.tdiv y = q at *
  generalize hm : x.tmod y = m at *
  by_cases hbig : q = 9223372036854775808
  · subst hbig; exfalso; unfold InRange at *; omega
  · unfold InRange at *; omega

theorem tmod_inRange (x y : Int) (hy : InRange y) (hy0 : y ≠ 0) : InRange (x.tmod y) := by
  obtain ⟨_, hpos, hneg, _, _, _⟩ := tdiv_tmod_facts x y hy0
  unfold InRange at *; omega

theorem dvd_iff_tmod (x y : Int) : y ∣ x ↔ x.tmod y = 0 := by
  constructor
  · intro h; exact Int.tmod_eq_zero_of_dvd h
  · intro h; exact Int.dvd_of_tmod_eq_zero h

/-- the overflow test of mulI: `r/y != x` with `r` the wrapped product -/
theorem mul_check (x y : Int) (hx : InRange x) (hy : InRange y) (hy0 : y ≠ 0)
    (h1 : ¬ (x = -9223372036854775808 ∧ y = -1)) :
    wrap ((wrap (x * y)).tdiv y) = x ↔ InRange (x * y) := by
  constructor
  · intro h
    obtain ⟨hdiv, hpos, hneg, _, _, habs⟩ := tdiv_tmod_facts (wrap (x * y)) y hy0
    have hr := wrap_inRange (x * y)
    generalize hq : (wrap (x * y)).tdiv y = q at *
    generalize hm : (wrap (x * y)).tmod y = m at *
    by_cases hbig : q = 9223372036854775808
    · subst hbig
      exfalso
      unfold wrap at h hr hdiv
      omega
    · have hqr : InRange q := by unfold InRange at *; omega
      rw [wrap_eq_self hqr] at h
      subst h
      generalize hp : q * y = p at *
      unfold wrap at hdiv hr
      unfold InRange at *
      omega
  · intro h
    rw [wrap_eq_self h, Int.mul_tdiv_cancel _ hy0, wrap_eq_self hx]

theorem wrap_negOne : wrap (-1) = -1 := by decide

theorem goDiv_ok {a b : I64} (h : b.val ≠ 0) : liftP (goDiv a b) = .ok (.ofInt (Int.tdiv a.val b.val)) := by
  simp [goDiv, h]

theorem goRem_ok {a b : I64} (h : b.val ≠ 0) : liftP (goRem a b) = .ok (.ofInt (Int.tmod a.val b.val)) := by
  simp [goRem, h]

/-! ### + - * -/

theorem addI_exact (x y : I64) : outcome (addI x y) = some (S.add x.val y.val) := by
  have hx := x.inRange; have hy := y.inRange
  unfold S.add Spec.ExactArith.add addI
  by_cases h : inRange (x.val + y.val)
  · rw [checked_pos h]; rw [inRange_iff] at h
    split
    · exfalso; i64_norm; unfold wrap InRange at *; omega
    split
    · exfalso; i64_norm; unfold wrap InRange at *; omega
    simp only [outcome, I64.val_wadd]
    rw [wrap_eq_self h]
  · rw [checked_neg h]; rw [inRange_iff] at h
    split
    · rfl
    split
    · rfl
    exfalso; i64_norm; unfold wrap InRange at *; omega

theorem subI_exact (x y : I64) : outcome (subI x y) = some (S.sub x.val y.val) := by
  have hx := x.inRange; have hy := y.inRange
  unfold S.sub Spec.ExactArith.sub subI
  by_cases h : inRange (x.val - y.val)
  · rw [checked_pos h]; rw [inRange_iff] at h
    split
    · exfalso; i64_norm; unfold wrap InRange at *; omega
    split
    · exfalso; i64_norm; unfold wrap InRange at *; omega
    simp only [outcome, I64.val_wsub]
    rw [wrap_eq_self h]
  · rw [checked_neg h]; rw [inRange_iff] at h
    split
    · rfl
    split
    · rfl
    exfalso; i64_norm; unfold wrap InRange at *; omega

theorem mulI_exact (x y : I64) : outcome (mulI x y) = some (S.mul x.val y.val) := by
  have hx := x.inRange; have hy := y.inRange
  unfold S.mul Spec.ExactArith.mul mulI
  split
  · rename_i h; i64_norm; obtain ⟨h1, h2⟩ := h
    rw [h1, h2, checked_neg (by decide)]; rfl
  split
  · rename_i h; i64_norm; obtain ⟨h1, h2⟩ := h
    rw [h1, h2, checked_neg (by decide)]; rfl
  split
  · rename_i h; i64_norm
    rw [h, Int.mul_zero, checked_pos (by decide)]; rfl
  rename_i h1 h2 h3
  i64_norm
  rw [wrap_negOne] at h1 h2
  rw [goDiv_ok h3]
  simp only [Except.bind]
  have key := mul_check x.val y.val hx hy h3 h2
  by_cases h : inRange (x.val * y.val)
  · rw [checked_pos h]
    split
    · rename_i hc; i64_norm; exact absurd (key.2 h) hc
    · simp only [outcome, I64.val_wmul]
      rw [wrap_eq_self h]
  · rw [checked_neg h]
    split
    · rfl
    · rename_i hc; i64_norm; exact absurd (key.1 (Classical.not_not.1 hc)) h

theorem negI_exact (x : I64) : outcome (negI x) = some (S.neg x.val) := by
  have hx := x.inRange
  unfold S.neg Spec.ExactArith.neg negI
  split
  · rename_i h; i64_norm; rw [h, checked_neg (by decide)]; rfl
  · rename_i h; i64_norm
    have hr : inRange (-x.val) := by rw [inRange_iff]; unfold InRange at hx; omega
    rw [checked_pos hr]
    simp only [outcome, I64.val_wneg]
    rw [wrap_eq_self hr]

theorem absI_exact (x : I64) : outcome (absI x) = some (S.abs x.val) := by
  have hx := x.inRange
  unfold S.abs Spec.ExactArith.abs absI
  split
  · rename_i h; i64_norm; rw [h, checked_neg (by decide)]; rfl
  · rename_i h
    split
    · rename_i h2; i64_norm
      have hr : inRange (-x.val) := by rw [inRange_iff]; unfold InRange at hx; omega
      rw [if_pos h2, checked_pos hr]
      simp only [outcome, I64.val_wneg]
      rw [wrap_eq_self hr]
    · rename_i h2; i64_norm
      rw [if_neg h2, checked_pos hx]; rfl

theorem signI_exact (x : I64) : outcome (.ok (signI x)) = some (S.sign x.val) := by
  unfold S.sign Spec.ExactArith.sign signI
  split
  · rename_i h; i64_norm; rw [if_pos h]; rfl
  · rename_i h
    split
    · rename_i h2; i64_norm; rw [if_neg h, if_pos h2]; rfl
    · rename_i h2; i64_norm; rw [if_neg h, if_neg h2]; rfl

theorem posI_exact (x : I64) : outcome (posI x) = some (S.pos x.val) := rfl

/-! ### // rem mod div -/

theorem tdiv_special : Int.tdiv (-9223372036854775808) (-1) = 9223372036854775808 := by decide

theorem intDivI_exact (x y : I64) : outcome (intDivI x y) = some (S.intDiv x.val y.val) := by
  have hx := x.inRange; have hy := y.inRange
  unfold S.intDiv Spec.ExactArith.intDiv intDivI
  split
  · rename_i h; i64_norm; rw [if_pos h]; rfl
  rename_i h0
  split
  · rename_i h; i64_norm; obtain ⟨h1, h2⟩ := h
    rw [wrap_negOne] at h2
    rw [if_neg h0, h1, h2, tdiv_special, checked_neg (by decide)]; rfl
  rename_i h1
  i64_norm
  rw [wrap_negOne] at h1
  rw [goDiv_ok h0, if_neg h0]
  have hr := tdiv_inRange x.val y.val hx hy h0 h1
  rw [checked_pos hr]
  simp only [Except.bind, outcome, I64.val_ofInt]
  rw [wrap_eq_self hr]

theorem remI_exact (x y : I64) : outcome (remI x y) = some (S.rem x.val y.val) := by
  have hx := x.inRange; have hy := y.inRange
  unfold S.rem Spec.ExactArith.rem remI
  split
  · rename_i h; i64_norm; rw [if_pos h]; rfl
  rename_i h0
  i64_norm
  rw [goDiv_ok h0, if_neg h0]
  simp only [Except.bind, outcome, I64.val_wsub, I64.val_wmul, I64.val_ofInt]
  congr 2
  by_cases hs : x.val = -9223372036854775808 ∧ y.val = -1
  · obtain ⟨h1, h2⟩ := hs; rw [h1, h2]; decide
  · have hq := tdiv_inRange x.val y.val hx hy h0 hs
    rw [wrap_eq_self hq]
    obtain ⟨hdiv, hpos, hneg, hnn, hnp, _⟩ := tdiv_tmod_facts x.val y.val h0
    generalize x.val.tdiv y.val * y.val = p at *
    generalize x.val.tmod y.val = m at *
    unfold wrap; unfold InRange at *; omega

theorem modI_exact (x y : I64) : outcome (modI x y) = some (S.mod x.val y.val) := by
  have hx := x.inRange; have hy := y.inRange
  unfold S.mod Spec.ExactArith.mod modI
  split
  · rename_i h; i64_norm; rw [if_pos h]; rfl
  rename_i h0
  i64_norm
  rw [goRem_ok h0, if_neg h0]
  have hm := tmod_inRange x.val y.val hy h0
  obtain ⟨hdiv, hpos, hneg, hnn, hnp, _⟩ := tdiv_tmod_facts x.val y.val h0
  have hf := Int.fmod_eq_tmod (a := x.val) (b := y.val)
  simp only [dvd_iff_tmod] at hf
  simp only [Except.bind]
  split
  · rename_i hc
    i64_norm
    rw [wrap_eq_self hm] at hc
    simp only [outcome, I64.val_wadd, I64.val_ofInt]
    rw [wrap_eq_self hm]
    congr 2
    generalize x.val.tmod y.val = m at *
    generalize x.val.fmod y.val = f at *
    generalize x.val.tdiv y.val * y.val = p at *
    unfold wrap; unfold InRange at *
    split at hf <;> omega
  · rename_i hc
    i64_norm
    rw [wrap_eq_self hm] at hc
    simp only [outcome, I64.val_ofInt]
    rw [wrap_eq_self hm]
    congr 2
    generalize x.val.tmod y.val = m at *
    generalize x.val.fmod y.val = f at *
    generalize x.val.tdiv y.val * y.val = p at *
    unfold InRange at *
    split at hf <;> omega

theorem intFloorDivI_exact (x y : I64) : outcome (intFloorDivI x y) = some (S.floorDiv x.val y.val) := by
  have hx := x.inRange; have hy := y.inRange
  unfold S.floorDiv Spec.ExactArith.floorDiv intFloorDivI
  split
  · rename_i h; i64_norm; obtain ⟨h1, h2⟩ := h
    rw [wrap_negOne] at h2
    rw [h1, h2, if_neg (by decide), checked_neg (by decide)]; rfl
  rename_i h1
  split
  · rename_i h; i64_norm; rw [if_pos h]; rfl
  rename_i h0
  i64_norm
  rw [wrap_negOne] at h1
  rw [goDiv_ok h0, if_neg h0]
  simp only [Except.bind]
  rw [goRem_ok h0]
  simp only []
  have hq := tdiv_inRange x.val y.val hx hy h0 h1
  have hm := tmod_inRange x.val y.val hy h0
  obtain ⟨hdiv, hpos, hneg, hnn, hnp, _⟩ := tdiv_tmod_facts x.val y.val h0
  have hf := Int.fdiv_eq_tdiv (a := x.val) (b := y.val)
  simp only [dvd_iff_tmod] at hf
  have hs1 : 0 < y.val → y.val.sign = 1 := Int.sign_eq_one_of_pos
  have hs2 : y.val < 0 → y.val.sign = -1 := Int.sign_eq_neg_one_of_neg
  generalize y.val.sign = sg at *
  -- the floor quotient is representable
  have hfr : inRange (x.val.fdiv y.val) := by
    rw [inRange_iff]
    generalize x.val.tmod y.val = m at *
    generalize x.val.fdiv y.val = f at *
    generalize hqq : x.val.tdiv y.val = q at *
    by_cases hbig : q = -9223372036854775808
    · subst hbig; unfold InRange at *; split at hf <;> omega
    · unfold InRange at *; split at hf <;> omega
  rw [checked_pos hfr]
  split
  · rename_i hc
    i64_norm
    rw [wrap_eq_self hm] at hc
    simp only [outcome, I64.val_wsub, I64.val_ofInt, I64.val_one]
    rw [wrap_eq_self hq]
    congr 2
    rw [inRange_iff] at hfr
    generalize x.val.tmod y.val = m at *
    generalize x.val.fdiv y.val = f at *
    generalize x.val.tdiv y.val = q at *
    unfold wrap; unfold InRange at *
    split at hf <;> omega
  · rename_i hc
    i64_norm
    rw [wrap_eq_self hm] at hc
    simp only [outcome, I64.val_ofInt]
    rw [wrap_eq_self hq]
    congr 2
    generalize x.val.tmod y.val = m at *
    generalize x.val.fdiv y.val = f at *
    generalize x.val.tdiv y.val = q at *
    unfold InRange at *
    split at hf <;> omega

end PrologVerif.ArithProofs
