/-
  Byte-level model of how the Go code walks over atom text (C16 `text_is_chars`).

  A Go string is its UTF-8 bytes.  `for i := range s` visits the byte offsets at which a rune
  starts (decoding one rune at a time, an invalid sequence counts as U+FFFD of width 1);
  `[]rune(s)` is the list of the decoded runes.  UTF-8 itself is Lean core's
  `String.utf8EncodeChar` / `ByteArray.utf8DecodeChar?`.
-/
namespace PrologVerif.Utf8

/-- the bytes of the Go string holding the text `cs` -/
def encode (cs : List Char) : List UInt8 := cs.flatMap String.utf8EncodeChar

/-- `utf8.DecodeRuneInString`: the first rune of the bytes and its width -/
def decodeRune (bs : List UInt8) : Char × Nat :=
  match bs.toByteArray.utf8DecodeChar? 0 with
  | some c => (c, c.utf8Size)
  | none => ('�', 1)

/-- `for i := range s`: the offsets of the rune starts of `bs`, which begins at offset `i` -/
def rangeStarts : Nat → List UInt8 → Nat → List Nat
  | 0, _, _ => []
  | _ + 1, [], _ => []
  | f + 1, b :: bs, i =>
    let w := (decodeRune (b :: bs)).2
    i :: rangeStarts f ((b :: bs).drop w) (i + w)

/-- `[]rune(s)` -/
def runes : Nat → List UInt8 → List Char
  | 0, _ => []
  | _ + 1, [] => []
  | f + 1, b :: bs =>
    let r := decodeRune (b :: bs)
    r.1 :: runes f ((b :: bs).drop r.2)

/-- `AtomConcat`: `for i := range s { (s[:i], s[i:]) }`, then `(s, "")` -/
def concatSplitsBytes (bs : List UInt8) : List (List UInt8 × List UInt8) :=
  (rangeStarts bs.length bs 0).map (fun i => (bs.take i, bs.drop i)) ++ [(bs, [])]

/-- `AtomLength`: `len([]rune(s))` -/
def runeCount (bs : List UInt8) : Nat := (runes bs.length bs).length

/-- `SubAtom`: `string(rs[i:j])` for `rs := []rune(s)` -/
def runeSlice (bs : List UInt8) (i j : Nat) : List UInt8 :=
  encode (((runes bs.length bs).drop i).take (j - i))

end PrologVerif.Utf8
