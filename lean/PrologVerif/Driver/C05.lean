import PrologVerif.Driver.Common
import PrologVerif.Model.Read0
import PrologVerif.Spec.IsoError
import PrologVerif.Spec.AnswerBound
import PrologVerif.Generated.Builtins
namespace PrologVerif.Driver.C05
open PrologVerif PrologVerif.Driver PrologVerif.Read0 PrologVerif.IsoError

/-! ## the oracle shared by c05.matrix and c05.text: one outcome of a call -/

/-- `who`: the predicate called ("" for text); a ball that is not `error/2` is only legitimate when the
    case itself throws it -/
def judgeOutcome (ballOk : Bool) (res : String) : String :=
  let (w, rest) := headWord res
  if w == "true" || w == "false" || w == "ok" || w == "fail" || w == "syn" || w == "faildir" || w == "loaderr" then "ok"
  else if w == "err" then
    match Term.ofWire rest with
    | some f =>
      if f = .atom "system_error" then "FAIL system_error: a Go error that is not a Prolog exception was wrapped by catch/3"
      else if isIsoFormal f then "ok"
      else "FAIL error(F,_) with F not an ISO formal error term: " ++ rest
    | none => "FAIL unreadable error term: " ++ rest
  else if w == "syserr" then "FAIL system_error wrapping a Go error: " ++ rest
  else if w == "ball" then (if ballOk then "ok" else "FAIL a ball that is not error/2 was raised: " ++ rest)
  else if w == "panic" then "FAIL residue of a recovered Go panic: " ++ rest
  else if w == "goerr" then "FAIL a Go error that is not a Prolog error term: " ++ rest
  else if w == "TIMEOUT" then "FAIL the call did not return (cancelled by the harness after its time limit)"
  else if w == "CRASH" then "FAIL the process died: " ++ rest
  else if w == "HANG" then "FAIL the process hung (killed by the runner)"
  else "FAIL unexpected harness output: " ++ res

/-! ## c05.matrix -/

def piLt (a b : String × Nat) : Bool := a.1 < b.1 || (a.1 == b.1 && a.2 < b.2)

def sortPis (xs : List (String × Nat)) : List (String × Nat) :=
  xs.foldl (fun acc x =>
    if acc.contains x then acc else
    let (lo, hi) := acc.span (fun y => piLt y x)
    lo ++ x :: hi) []

/-- every procedure a fresh interpreter must know: the Register* calls of interpreter.go and the
    predicates bootstrap.pl defines (both regenerated) -/
def expectedProcs : List (String × Nat) :=
  sortPis (Generated.Builtins.registered.map (fun r => (r.1, r.2.1)) ++ Generated.Builtins.bootstrapDefined)

def procsLine : String :=
  "procs " ++ " ".intercalate (expectedProcs.map fun p => encName p.1 ++ "/" ++ toString p.2)

/-- the argument a shape name stands for, where the answer-count spec looks at it -/
def shapeTerm : String → Option Term
  | "var" => some (.var 0)
  | "int1" => some (.int 1) | "int0" => some (.int 0) | "neg" => some (.int (-1))
  | "huge" => some (.int 100000000000000) | "bigcode" => some (.int 1114112)
  | "minint" => some (.int (-9223372036854775808)) | "minint1" => some (.int (-9223372036854775807))
  | "maxint" => some (.int 9223372036854775807) | "maxint1" => some (.int 9223372036854775806)
  | _ => none

def parseCount (s : String) : Option (Nat × Bool) :=
  let cs := s.toList
  let more := cs.getLast? == some '+'
  (natOfChars (if more then cs.dropLast else cs)).map (·, more)

def matrixHandler : Handler := fun payload impl =>
  let (w, rest) := headWord payload
  if w == "procs" then
    ("-", if impl == procsLine then "ok"
          else "FAIL the procedures of a fresh interpreter differ from Generated/Builtins (Register* calls + bootstrap.pl): expected " ++ procsLine)
  else
    let (pred, rest2) := headWord rest
    let (_, shapes) := headWord rest2
    let (w, _) := headWord impl
    if w == "CRASH" || w == "HANG" || w == "HARNESS-PANIC" then ("-", judgeOutcome false impl)
    else
      -- two runs of the goal on one interpreter (all answers up to the cap + one redo, then once more), the
      -- number of answers of the first run, and the host-side API surface
      match impl.splitOn " ; " with
      | [r1, r2, n, host] =>
        let v1 := judgeOutcome (pred == "throw") r1
        let v2 := judgeOutcome (pred == "throw") r2
        let (nw, nr) := headWord n
        let (hw, hr) := headWord host
        let vn : String :=
          match (if nw == "n" then parseCount nr else none), decName pred.toList with
          | some (k, more), some p =>
            match AnswerBound.judge (AnswerBound.bound p ((words shapes).map shapeTerm)) k more ((headWord r1).1 != "true" && (headWord r1).1 != "false") with
            | some why => "FAIL wrong number of answers: " ++ why
            | none => "ok"
          | _, _ => "FAIL unexpected harness output: " ++ n
        let vh := if hw == "host" && hr == "ok" then "ok"
                  else if hw == "host" then
                    (let (k, _) := headWord hr
                     if k == "panic-host" then "FAIL the HOST goroutine panicked using the result (no recover protects the caller): " ++ hr
                     else "FAIL writing the result from Prolog: " ++ (let v := judgeOutcome false ((headWord hr).2); if v == "ok" then hr else (v.drop 5).toString ++ " [" ++ k ++ "]"))
                  else "FAIL unexpected harness output: " ++ host
        ("-", if v1 != "ok" then v1 else if v2 != "ok" then "FAIL second call: " ++ (v2.drop 5).toString
              else if vn != "ok" then vn else vh)
      | _ => ("-", "FAIL unexpected harness output: " ++ impl)

/-! ## c05.text -/

def textHandler : Handler := fun _ impl =>
  let (w, _) := headWord impl
  if w == "CRASH" || w == "HANG" || w == "HARNESS-PANIC" then ("-", judgeOutcome false impl)
  else
    match impl.splitOn " ; " with
    | [l, host] =>
      -- a loader case: consult / Exec over files in memory
      let (lw, lr) := headWord l
      let (hw, hr) := headWord host
      if lw != "l" || hw != "host" then ("-", "FAIL unexpected harness output")
      else
        let vl := judgeOutcome false lr
        ("-", if vl != "ok" then "FAIL loading: " ++ (vl.drop 5).toString
              else if hr != "ok" then "FAIL the HOST goroutine panicked using the result (no recover protects the caller): " ++ hr
              else "ok")
    | [q, e, r, host] =>
      let (qw, qr) := headWord q
      let (ew, er) := headWord e
      let (rw, rr) := headWord r
      let (hw, hr) := headWord host
      if qw != "q" || ew != "e" || rw != "r" || hw != "host" then ("-", "FAIL unexpected harness output")
      else
        let vq := judgeOutcome true qr
        let ve := judgeOutcome true er
        let vr := judgeOutcome true rr
        ("-", if vq != "ok" then "FAIL Query: " ++ (vq.drop 5).toString
              else if ve != "ok" then "FAIL Exec: " ++ (ve.drop 5).toString
              else if vr != "ok" then "FAIL read/1: " ++ (vr.drop 5).toString
              else if (headWord hr).1 == "wedged-host" then "FAIL the HOST goroutine is wedged: a call that has no work to do did not return: " ++ hr
              else if hr != "ok" then "FAIL the HOST goroutine panicked using the result (no recover protects the caller): " ++ hr
              else "ok")
    | _ => ("-", "FAIL unexpected harness output")

/-! ## c05.parse: the token-level reader model against the real Parser -/

def kindOfCode : String → Option Kind
  | "inv" => some .invalid | "ld" => some .letterDigit | "gr" => some .graphic | "q" => some .quoted
  | "semi" => some .semicolon | "cut" => some .cut | "var" => some .variable | "int" => some .integer
  | "flt" => some .floatNumber | "dq" => some .doubleQuotedList | "op" => some .open_ | "ct" => some .openCT
  | "cl" => some .close | "ol" => some .openList | "cll" => some .closeList | "oc" => some .openCurly
  | "cc" => some .closeCurly | "bar" => some .bar | "cm" => some .comma | "end" => some .end_
  | _ => none

/-- `tokenKind.String()` of lexer.go -/
def kindName : Kind → String
  | .invalid => "invalid" | .letterDigit => "letter digit" | .graphic => "graphic" | .quoted => "quoted"
  | .semicolon => "semicolon" | .cut => "cut" | .variable => "variable" | .integer => "integer"
  | .floatNumber => "float number" | .doubleQuotedList => "double quoted list" | .open_ => "open"
  | .openCT => "open ct" | .close => "close" | .openList => "open list" | .closeList => "close list"
  | .openCurly => "open curly" | .closeCurly => "close curly" | .bar => "bar" | .comma => "comma" | .end_ => "end"

def parseTok (w : String) : Option Token :=
  let cs := w.toList
  let k := String.ofList (cs.takeWhile (· != ':'))
  let v := (cs.dropWhile (· != ':')).drop 1
  match kindOfCode k, decName v with
  | some kd, some val => some ⟨kd, val⟩
  | _, _ => none

def parseToks (payload : String) : Option (List Token) :=
  if trim payload == "empty" then some [] else (words payload).mapM parseTok

def showRes : Res Term → String
  | .ok t => "ok " ++ t.canon.wire
  | .err .lex => "eof"
  | .err (.unexpected t) => "unexp " ++ encName (kindName t.kind) ++ " " ++ encName t.val ++ "$"
  | .err (.repr f) => "err " ++ (representationErr f).wire
  | .err .expectation => "goerr expectation%20error"
  | .err .noOp => "goerr no%20op"
  | .fuel => "MODEL-OUT-OF-FUEL"

def parseCfg : Cfg := { ops := Ops.defaultTable }

def parseHandler : Handler := fun payload impl =>
  match parseToks payload with
  | none => ("BAD-PAYLOAD", "FAIL unreadable payload")
  | some toks =>
    -- fuel: Properties/C05 `C05_parser_terminates` shows 6·(tokens) + 6 always suffices
    let fuel := 6 * toks.length + 6
    let r := readAll parseCfg fuel 6 ({ buf := Zip.init toks } : PS Zip)
    let outs := r.1.map showRes
    let line := if outs.isEmpty then "none" else " ; ".intercalate outs
    let (w, _) := headWord impl
    let verdict :=
      if w == "CRASH" || w == "HANG" || w == "HARNESS-PANIC" || w == "LEXDIFF" then judgeOutcome false impl
      else if (impl.splitOn "panic").length > 1 then "FAIL residue of a recovered Go panic"
      else if r.2.buf.bad then "FAIL model: a backup() found nothing to undo (contradicts C05_ring_buffer_sound)"
      else if r.2.buf.tape != toks then "FAIL model: the token tape changed (contradicts C05_ring_buffer_sound)"
      else "ok"
    (line, verdict)

end PrologVerif.Driver.C05
