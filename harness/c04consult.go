package main

// c04.consult: throw/1 abandons a LOAD too. consult/1 of a list of N files f0..f(N-1), each writing a begin
// line, defining a fact, (file F only: throwing b(F) in a directive,) and writing an end line:
// the files before F are loaded completely, file F runs up to its throw and contributes nothing, the files
// after F are not touched, and the ball reaches the innermost catch/3 (mode c) or ends the query (mode u).
//
//   payload  "<c|u> <N> <F>"   (F = N: no file throws)
//   output   "out=<lines joined by ,> ball=<F|none> loaded=<0/1 per file>"

import (
	"bytes"
	"fmt"
	"math/rand"
	"strconv"
	"strings"
	"testing/fstest"

	"github.com/ichiban/prolog/engine"
)

func init() {
	register(&stream{name: "c04.consult", gen: genC04Consult, run: runC04Consult})
}

func genC04Consult(r *rand.Rand, n int, tier string) []string {
	var out []string
	for _, m := range []string{"c", "u"} {
		for n := 1; n <= 4; n++ {
			for f := 0; f <= n; f++ {
				out = append(out, fmt.Sprintf("%s %d %d", m, n, f))
			}
		}
	}
	return out
}

func runC04Consult(payload string) string {
	f := strings.Fields(payload)
	n, err := strconv.Atoi(f[1])
	must(err)
	bad, err := strconv.Atoi(f[2])
	must(err)
	i, _ := newInterp("")
	var buf bytes.Buffer
	i.SetUserOutput(engine.NewOutputTextStream(&buf))
	fs := fstest.MapFS{}
	names := make([]engine.Term, n)
	for k := 0; k < n; k++ {
		text := fmt.Sprintf(":- write(f%d_begin), nl.\nfact%d.\n", k, k)
		if k == bad {
			text += fmt.Sprintf(":- throw(b(%d)).\n", k)
		}
		text += fmt.Sprintf("late%d.\n:- write(f%d_end), nl.\n", k, k)
		fs[fmt.Sprintf("f%d.pl", k)] = &fstest.MapFile{Data: []byte(text)}
		names[k] = atom(fmt.Sprintf("f%d", k))
	}
	i.FS = fs
	b := engine.NewVariable()
	goal := compound("consult", engine.List(names...))
	ball := "none"
	if f[0] == "c" {
		rows, err := solveAll(&i.VM, compound("catch", goal, compound("b", b), atom("true")), b, 2)
		switch {
		case err != nil:
			ball = errWire(err)
		case len(rows) != 1:
			ball = fmt.Sprintf("answers=%d", len(rows))
		case strings.HasPrefix(rows[0], "I"):
			ball = rows[0][1:]
		}
	} else {
		_, err := solveAll(&i.VM, goal, atom("x"), 2)
		if err != nil {
			ball = strings.TrimSuffix(strings.TrimPrefix(errWire(err), "ball C1:b I"), " ")
		}
	}
	loaded := ""
	for k := 0; k < n; k++ {
		a := solveOnce(&i.VM, compound("catch", atom(fmt.Sprintf("fact%d", k)), engine.NewVariable(), atom("fail")))
		c := solveOnce(&i.VM, compound("catch", atom(fmt.Sprintf("late%d", k)), engine.NewVariable(), atom("fail")))
		switch {
		case a == "true" && c == "true":
			loaded += "1"
		case a == "true" || c == "true":
			loaded += "h" // half a file
		default:
			loaded += "0"
		}
	}
	lines := strings.Fields(buf.String())
	return fmt.Sprintf("out=%s ball=%s loaded=%s ### nt=1 mode=%s n=%d bad=%d", strings.Join(lines, ","), ball, loaded, f[0], n, bad)
}
