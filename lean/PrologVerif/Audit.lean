/-
  Audit: for every theorem whose name lives under a given namespace, print one line
    AUDIT <name> | <axioms, comma separated> | <statement hash> | <pretty statement>
  and for every `def … : Prop` ending in `_statement` that has no theorem of the same
  name without the suffix, a line  OPEN <name>.
  Used by bin/check (step "prove"): obligations = AUDIT lines, discharged = those whose
  axioms ⊆ {propext, Classical.choice, Quot.sound} (sorryAx is an axiom and shows up here).
-/
import Lean
open Lean Elab Command Meta

namespace PrologVerif.Audit

def allowed : List Name := [``propext, ``Classical.choice, ``Quot.sound]

elab "#audit_ns " ns:ident : command => do
  let env ← getEnv
  let nsName := ns.getId
  let names : Array Name := env.constants.fold (init := #[]) fun acc n ci =>
    if nsName.isPrefixOf n && !n.isInternal then
      match ci with
      | .thmInfo _ => acc.push n
      | _ => acc
    else acc
  let sorted := names.qsort (fun a b => a.toString < b.toString)
  for n in sorted do
    let axs ← Lean.collectAxioms n
    let ci := (env.find? n).get!
    let stmt ← liftTermElabM do
      let f ← Meta.ppExpr ci.type
      pure (f.pretty 1000000)
    let stmt := stmt.replace "\n" " "
    let axStr := ", ".intercalate (axs.toList.map toString)
    logInfo m!"AUDIT {n} | {axStr} | {hash stmt} | {stmt}"
  -- open statements
  let opens : Array Name := env.constants.fold (init := #[]) fun acc n ci =>
    if nsName.isPrefixOf n && !n.isInternal then
      match ci with
      | .defnInfo _ =>
        let s := n.toString
        if s.endsWith "_statement" then
          let base := (s.dropEnd "_statement".length).toString
          if !(sorted.any (fun t => t.toString == base)) then acc.push n else acc
        else acc
      | _ => acc
    else acc
  for n in opens.qsort (fun a b => a.toString < b.toString) do
    logInfo m!"OPEN {n}"

end PrologVerif.Audit
