/-
  Proofs/Api — lemmas for C15: exactness of convertAssign, unDoubleQuote ∘ escape = id,
  reading the literal of a Go value, and placeholder substitution as a term-level operation.
-/
import PrologVerif.Model.Api
namespace PrologVerif.Api
open PrologVerif

/-! ### integers -/

theorem wrap64 (v : Int) (h : InRange 64 v) : wrap 64 v = v := by
  simp [wrap, InRange, minOf, maxOf] at *
  omega

theorem inRange_mono (k : IntKind) (v : Int) (h : InRange k.bits v) : InRange 64 v := by
  cases k <;> simp [InRange, IntKind.bits, minOf, maxOf] at * <;> omega

theorem runeChar_toNat (n : Nat) (h : n.isValidChar) : (runeChar n).toNat = n := by
  unfold runeChar
  simp [h, Char.toNat]
  rcases h with h | h <;> omega

theorem singleton_of_toList {a : String} {c : Char} (h : a.toList = [c]) : a = String.singleton c := by
  have := congrArg String.ofList h
  rw [String.ofList_toList] at this
  rw [this]
  rfl

/-! ### lists of characters -/

theorem charsOf_eq : ∀ (elems : List Term) (cs : List Char), charsOf elems = some cs →
    elems = cs.map fun c => .atom (String.singleton c)
  | [], cs, h => by simp [charsOf] at h; subst h; rfl
  | .atom a :: rest, cs, h => by
    simp only [charsOf] at h
    split at h
    · rename_i c cs' hc hr
      simp at h; subst h
      simp [singleton_of_toList hc, charsOf_eq rest cs' hr]
    · simp at h
  | .var _ :: _, _, h => by simp [charsOf] at h
  | .int _ :: _, _, h => by simp [charsOf] at h
  | .flt _ :: _, _, h => by simp [charsOf] at h
  | .str _ :: _, _, h => by simp [charsOf] at h
  | .app _ _ :: _, _, h => by simp [charsOf] at h

theorem codesOf_eq : ∀ (elems : List Term) (cs : List Char), codesOf elems = some cs →
    elems = cs.map fun c => .int c.toNat
  | [], cs, h => by simp [codesOf] at h; subst h; rfl
  | .int i :: rest, cs, h => by
    simp only [codesOf] at h
    split at h
    · rename_i cs' hr
      split at h
      · rename_i hv
        simp at h; subst h
        have : ((runeChar i.toNat).toNat : Int) = i := by
          rw [runeChar_toNat _ hv.2]; omega
        simp [this, codesOf_eq rest cs' hr]
      · simp at h
    · simp at h
  | .var _ :: _, _, h => by simp [codesOf] at h
  | .atom _ :: _, _, h => by simp [codesOf] at h
  | .flt _ :: _, _, h => by simp [codesOf] at h
  | .str _ :: _, _, h => by simp [codesOf] at h
  | .app _ _ :: _, _, h => by simp [codesOf] at h


/-! ### convertAssign stores exactly the value or fails -/

mutual
  theorem spine_list : ∀ t : Term, Term.list t.spine.1 t.spine.2 = t
    | .app f as => by
      unfold Term.spine
      split
      · rename_i hf; subst hf; exact spineArgs_list as
      · simp [Term.list]
    | .var _ => by simp [Term.spine, Term.list]
    | .atom _ => by simp [Term.spine, Term.list]
    | .int _ => by simp [Term.spine, Term.list]
    | .flt _ => by simp [Term.spine, Term.list]
    | .str _ => by simp [Term.spine, Term.list]
  theorem spineArgs_list : ∀ as : Args,
      Term.list (Args.spineArgs (.app "." as) as).1 (Args.spineArgs (.app "." as) as).2 = .app "." as
    | .cons h (.cons t .nil) => by
      simp only [Args.spineArgs, Term.list, List.foldr_cons]
      have := spine_list t
      simp only [Term.list] at this
      rw [this]; rfl
    | .nil => by simp [Args.spineArgs, Term.list]
    | .cons _ .nil => by simp [Args.spineArgs, Term.list]
    | .cons _ (.cons _ (.cons _ _)) => by simp [Args.spineArgs, Term.list]
end


theorem exactList_slice_any (vs : GoVals) : fits .any (.slice vs) = fitsAll .any vs := by
  simp [fits]

mutual
  theorem conv_exact (r : UInt64 → UInt64) (rep : Term → Bool) :
      ∀ (t : Term) (d : Dest) (v : GoVal), d.noFloat32 = true → Term.i64 t = true →
        conv true r rep d t = .ok v → exact v t = true ∧ fits d v = true
    | .var n, d, v, hd, hi, h => by
      cases d <;> simp [conv] at h
      subst h; simp [exact, fits]
    | .atom a, d, v, hd, hi, h => by
      cases d <;> simp only [conv] at h <;> (try split at h) <;> simp at h <;> (try subst h) <;>
        simp_all [exact, exactList, fits, fitsAll]
    | .int i, d, v, hd, hi, h => by
      have hi' : InRange 64 i := by simpa [Term.i64] using hi
      cases d <;> simp [conv] at h
      · subst h; simp [exact, fits, wrap64 i hi', hi']
      · rename_i k
        split at h
        · rename_i hk
          simp at h; subst h
          simp [exact, fits, wrap64 i hi', hk, hi']
        · split at h <;> simp at h
          rename_i hr
          subst h; simp [exact, fits, hr]
    | .flt b, d, v, hd, hi, h => by
      cases d <;> simp [conv, Dest.noFloat32] at h hd
      all_goals subst h; simp [exact, fits]
    | .str n, d, v, hd, hi, h => by
      cases d <;> simp [conv] at h
    | .app f as, d, v, hd, hi, h => by
      have hi' : Args.i64 as = true := by simpa [Term.i64] using hi
      cases d <;> simp only [conv] at h
      · -- any
        split at h
        · rename_i hf; subst hf
          obtain ⟨vs, rfl, h1, h2⟩ := convCell_exact r rep as .any v rfl hi' h
          simp [exact, fits, h1, h2]
        · simp at h
      · -- string
        split at h
        · split at h
          · rename_i elems hsp
            have hl := spine_list (.app f as)
            rw [hsp] at hl
            simp only at hl
            have hne : ∀ cs : List Char, (String.ofList cs = "") → cs = [] := by
              intro cs hcs
              have := congrArg String.toList hcs
              simpa using this
            split at h
            · rename_i cs hcs
              simp at h; subst h
              have he := charsOf_eq _ _ hcs
              have hcl : charList cs = .app f as := by rw [← hl, he]; rfl
              have hcs0 : cs ≠ [] := by
                intro h0; subst h0; simp [charList, Term.list, Term.nilT] at hcl
              have : String.ofList cs ≠ "" := fun h0 => hcs0 (hne cs h0)
              simp [exact, fits, String.toList_ofList, hcl, this]
            · split at h
              · rename_i cs hcs
                simp at h; subst h
                have he := codesOf_eq _ _ hcs
                have hcl : codeList cs = .app f as := by rw [← hl, he]; rfl
                have hcs0 : cs ≠ [] := by
                  intro h0; subst h0; simp [codeList, Term.list, Term.nilT] at hcl
                have : String.ofList cs ≠ "" := fun h0 => hcs0 (hne cs h0)
                simp [exact, fits, String.toList_ofList, hcl, this]
              · simp at h
          · simp at h
        · simp at h
      · simp at h
      · simp at h
      · simp at h
      · -- slice
        rename_i e
        split at h
        · rename_i hf; subst hf
          obtain ⟨vs, rfl, h1, h2⟩ := convCell_exact r rep as e v (by simpa [Dest.noFloat32] using hd) hi' h
          simp [exact, fits, h1, h2]
        · simp at h
      · simp at h
  theorem convCell_exact (r : UInt64 → UInt64) (rep : Term → Bool) :
      ∀ (as : Args) (e : Dest) (v : GoVal), e.noFloat32 = true → Args.i64 as = true →
        convCell true r rep e as = .ok v →
        ∃ vs, v = .slice vs ∧ exactList vs (.app "." as) = true ∧ fitsAll e vs = true
    | .cons h (.cons tl .nil), e, v, he, hi, hc => by
      simp only [Args.i64, Bool.and_true, Bool.and_eq_true] at hi
      simp only [convCell] at hc
      split at hc
      · simp at hc
      · rename_i v1 h1
        split at hc
        · rename_i vs h2
          simp at hc; subst hc
          obtain ⟨e1, f1⟩ := conv_exact r rep h e v1 he hi.1 h1
          obtain ⟨e2, f2⟩ := conv_exact r rep tl (.slice e) (.slice vs) (by simpa [Dest.noFloat32] using he) hi.2 h2
          refine ⟨_, rfl, ?_, ?_⟩
          · simp [exactList, e1]; simpa [exact] using e2
          · simp [fitsAll, f1]; simpa [fits] using f2
        · simp at hc
    | .nil, e, v, _, _, hc => by simp [convCell] at hc
    | .cons _ .nil, e, v, _, _, hc => by simp [convCell] at hc
    | .cons _ (.cons _ (.cons _ _)), e, v, _, _, hc => by simp [convCell] at hc
end

/-! ### reading the literal of a Go value -/

theorem unDQ_escape : ∀ (s : List Char) (fuel : Nat), (escape s).length < fuel → unDQ fuel (escape s) = s
  | [], fuel, h => by
    cases fuel with
    | zero => simp at h
    | succ f => simp [escape, unDQ]
  | c :: s, fuel, h => by
    cases fuel with
    | zero => simp at h
    | succ f =>
      have hesc : escape (c :: s) = (if c = '"' then ['\\', '"'] else if c = '\\' then ['\\', '\\'] else [c]) ++ escape s := by
        simp [escape]
      rw [hesc] at h ⊢
      by_cases h1 : c = '"'
      · subst h1
        simp only [if_true, List.cons_append, List.nil_append, List.length_cons] at h ⊢
        have ih := unDQ_escape s f (by omega)
        simp [unDQ, simpleEscape, ih]
      · by_cases h2 : c = '\\'
        · subst h2
          simp only [h1, if_false, if_true, List.cons_append, List.nil_append, List.length_cons] at h ⊢
          have ih := unDQ_escape s f (by omega)
          simp [unDQ, simpleEscape, ih]
        · simp only [h1, h2, if_false, List.cons_append, List.nil_append, List.length_cons] at h ⊢
          have ih := unDQ_escape s f (by omega)
          simp [unDQ, h1, h2, ih]

theorem unDoubleQuote_escape (s : List Char) : unDoubleQuote (escape s) = s :=
  unDQ_escape s _ (by simp)

/-- first token of a literal -/
def LitHead : List Tok → Prop
  | .name _ :: _ => True
  | .int _ :: _ => True
  | .float _ :: _ => True
  | .dq _ :: _ => True
  | .openList :: _ => True
  | _ => False

theorem litToks_head : ∀ (v : GoVal) (toks : List Tok), litToks v = some toks → LitHead toks
  | .int _ v, toks, h => by simp [litToks] at h; subst h; split <;> simp [LitHead]
  | .float b, toks, h => by simp [litToks] at h; subst h; split <;> simp [LitHead]
  | .str s, toks, h => by simp [litToks] at h; subst h; simp [LitHead]
  | .slice .nil, toks, h => by simp [litToks] at h; subst h; simp [LitHead]
  | .slice (.cons v vs), toks, h => by
    simp only [litToks] at h
    split at h
    · simp at h; subst h; simp [LitHead]
    · simp at h
  | .uint _, _, h => by simp [litToks] at h
  | .nil, _, h => by simp [litToks] at h
  | .other, _, h => by simp [litToks] at h

theorem litElems_follows : ∀ (vs : GoVals) (toks : List Tok) (rest : List Tok), litElems vs = some toks →
    Follows (toks ++ rest)
  | .nil, toks, rest, h => by simp [litElems] at h; subst h; simp [Follows]
  | .cons v vs, toks, rest, h => by
    simp only [litElems] at h
    split at h
    · simp at h; subst h; simp [Follows]
    · simp at h

theorem placeholderStep_none (dq : DQ) (t : Term) (st : PState) :
    placeholderStep ⟨dq, none⟩ t st = .ok (t, st) := by
  unfold placeholderStep
  split <;> simp_all

theorem natAbs_cast_nonneg (v : Int) (h : ¬ v < 0) : (v.natAbs : Int) = v := by omega
theorem natAbs_cast_neg (v : Int) (h : v < 0) : -(v.natAbs : Int) = v := by omega



theorem term0_closeList_head (toks rest : List Tok) (h : LitHead toks) {α : Type} (A : List Tok → α) (B : α) :
    (match toks ++ rest with | .closeList :: r' => A r' | _ => B) = B := by
  cases toks with
  | nil => simp [LitHead] at h
  | cons x r => cases x <;> simp [LitHead] at h <;> rfl

mutual
  theorem read_literal (dq : DQ) : ∀ (v : GoVal) (t : Term) (toks : List Tok),
      GoVal.wf v = true → termOf dq v = .ok t → litToks v = some toks →
      ∀ (fuel : Nat), need v ≤ fuel → ∀ (rest : List Tok) (args : List Term), Follows rest →
        term0 ⟨dq, none⟩ fuel ⟨toks ++ rest, args⟩ = .ok (t, ⟨rest, args⟩)
    | .int k v, t, toks, hw, ht, hl, fuel, hf, rest, args, hfo => by
      have hr : InRange 64 v := inRange_mono k v (by simpa [GoVal.wf] using hw)
      simp [InRange, minOf, maxOf] at hr
      simp [termOf] at ht; subst ht
      simp [litToks] at hl; subst hl
      obtain ⟨f, rfl⟩ : ∃ f, fuel = f + 2 := ⟨fuel - 2, by simp [need] at hf; omega⟩
      by_cases hv : v < 0
      · simp [hv, term0, term0Atom, integer]
        have : v.natAbs ≤ 2 ^ 63 := by omega
        simp [this, Except.map, natAbs_cast_neg v hv]
      · simp [hv, term0, integer]
        have : v.natAbs < 2 ^ 63 := by omega
        simp [this, Except.map, natAbs_cast_nonneg v hv]
    | .float b, t, toks, hw, ht, hl, fuel, hf, rest, args, hfo => by
      simp [termOf] at ht; subst ht
      simp [litToks] at hl; subst hl
      obtain ⟨f, rfl⟩ : ∃ f, fuel = f + 2 := ⟨fuel - 2, by simp [need] at hf; omega⟩
      have hnn : negFloat (negFloat b) = b := by
        unfold negFloat
        rw [UInt64.xor_assoc, UInt64.xor_self, UInt64.xor_zero]
      split <;> simp [term0, term0Atom, hnn]
    | .str s, t, toks, hw, ht, hl, fuel, hf, rest, args, hfo => by
      simp [termOf] at ht; subst ht
      simp [litToks] at hl; subst hl
      obtain ⟨f, rfl⟩ : ∃ f, fuel = f + 2 := ⟨fuel - 2, by simp [need] at hf; omega⟩
      cases dq
      · simp [term0, dqTerm, String.toList_ofList, unDoubleQuote_escape]
      · simp [term0, dqTerm, String.toList_ofList, unDoubleQuote_escape]
      · simp only [List.cons_append, List.nil_append, term0, dqTerm, String.toList_ofList, unDoubleQuote_escape,
          term0Atom]
        cases rest with
        | nil => simp [placeholderStep_none]
        | cons x r => cases x <;> simp [Follows] at hfo <;> simp [placeholderStep_none]
    | .slice .nil, t, toks, hw, ht, hl, fuel, hf, rest, args, hfo => by
      simp [termOf, termsOf, Except.map, Term.list] at ht; subst ht
      simp [litToks] at hl; subst hl
      obtain ⟨f, rfl⟩ : ∃ f, fuel = f + 2 := ⟨fuel - 2, by simp [need, needTail] at hf; omega⟩
      simp only [List.cons_append, List.nil_append, term0, term0Atom]
      cases rest with
      | nil => simp [placeholderStep_none, Term.nilT]
      | cons x r => cases x <;> simp [Follows] at hfo <;> simp [placeholderStep_none, Term.nilT]
    | .slice (.cons v vs), t, toks, hw, ht, hl, fuel, hf, rest, args, hfo => by
      simp only [GoVal.wf, GoVals.wf, Bool.and_eq_true] at hw
      simp only [litToks] at hl
      split at hl
      · rename_i a b ha hb
        simp at hl; subst hl
        simp only [termOf, termsOf] at ht
        split at ht
        · simp [Except.map] at ht
        · rename_i t1 ht1
          split at ht
          · simp [Except.map] at ht
          · rename_i ts hts
            simp [Except.map] at ht; subst ht
            obtain ⟨f, rfl⟩ : ∃ f, fuel = f + 1 := ⟨fuel - 1, by simp [need, needTail] at hf; omega⟩
            simp only [need, needTail] at hf
            have h1 := read_literal dq v t1 a hw.1 ht1 ha f (by omega) (b ++ rest) args
              (litElems_follows vs b rest hb)
            have h2 := read_elems dq vs ts b hw.2 hts hb f (by omega) rest args
            simp only [List.cons_append, List.append_assoc, term0]
            split
            · rename_i r' heq
              exfalso
              have hh := litToks_head v a ha
              cases a with
              | nil => simp [LitHead] at hh
              | cons x r => cases x <;> simp [LitHead] at hh <;> simp at heq
            · simp [h1, h2]
      · simp at hl
    | .uint _, _, _, _, ht, _, _, _, _, _, _ => by simp [termOf] at ht
    | .nil, _, _, _, ht, _, _, _, _, _, _ => by simp [termOf] at ht
    | .other, _, _, _, ht, _, _, _, _, _, _ => by simp [termOf] at ht
  theorem read_elems (dq : DQ) : ∀ (vs : GoVals) (ts : List Term) (toks : List Tok),
      GoVals.wf vs = true → termsOf dq vs = .ok ts → litElems vs = some toks →
      ∀ (fuel : Nat), needTail vs ≤ fuel → ∀ (rest : List Tok) (args : List Term),
        listTail ⟨dq, none⟩ fuel ⟨toks ++ rest, args⟩ = .ok (ts, ⟨.closeList :: rest, args⟩)
    | .nil, ts, toks, hw, ht, hl, fuel, hf, rest, args => by
      simp [termsOf] at ht; subst ht
      simp [litElems] at hl; subst hl
      obtain ⟨f, rfl⟩ : ∃ f, fuel = f + 1 := ⟨fuel - 1, by simp [needTail] at hf; omega⟩
      simp [listTail]
    | .cons v vs, ts, toks, hw, ht, hl, fuel, hf, rest, args => by
      simp only [GoVals.wf, Bool.and_eq_true] at hw
      simp only [litElems] at hl
      split at hl
      · rename_i a b ha hb
        simp at hl; subst hl
        simp only [termsOf] at ht
        split at ht
        · simp at ht
        · rename_i t1 ht1
          split at ht
          · simp at ht
          · rename_i ts' hts
            simp at ht; subst ht
            obtain ⟨f, rfl⟩ : ∃ f, fuel = f + 1 := ⟨fuel - 1, by simp [needTail] at hf; omega⟩
            simp only [needTail] at hf
            have h1 := read_literal dq v t1 a hw.1 ht1 ha f (by omega) (b ++ rest) args
              (litElems_follows vs b rest hb)
            have h2 := read_elems dq vs ts' b hw.2 hts hb f (by omega) rest args
            simp [listTail, h1, h2]
      · simp at hl
end

/-! ### placeholders are data: parsing commutes with instantiating the argument queue -/

def instSt (σ : Nat → Term) (st : PState) : PState := ⟨st.toks, st.args.map (inst σ)⟩

def mapRes (σ : Nat → Term) : PRes → PRes
  | .error e => .error e
  | .ok (t, st) => .ok (inst σ t, instSt σ st)

def mapL (σ : Nat → Term) : LRes → LRes
  | .error e => .error e
  | .ok (ts, st) => .ok (ts.map (inst σ), instSt σ st)

@[simp] theorem instSt_toks (σ) (st : PState) : (instSt σ st).toks = st.toks := rfl
@[simp] theorem instSt_args (σ) (st : PState) : (instSt σ st).args = st.args.map (inst σ) := rfl

theorem instArgs_ofList (σ : Nat → Term) : ∀ xs : List Term,
    instArgs σ (Args.ofList xs) = Args.ofList (xs.map (inst σ))
  | [] => rfl
  | x :: xs => by simp [Args.ofList, instArgs, instArgs_ofList σ xs]

theorem inst_list (σ : Nat → Term) (tl : Term) : ∀ xs : List Term,
    inst σ (Term.list xs tl) = Term.list (xs.map (inst σ)) (inst σ tl)
  | [] => rfl
  | x :: xs => by
    have := inst_list σ tl xs
    simp only [Term.list] at this
    simp [Term.list, Term.consT, inst, instArgs, this]

theorem inst_charList (σ : Nat → Term) (s : List Char) : inst σ (charList s) = charList s := by
  unfold charList
  rw [inst_list]
  simp [inst, Term.nilT, Function.comp_def]

theorem inst_codeList (σ : Nat → Term) (s : List Char) : inst σ (codeList s) = codeList s := by
  unfold codeList
  rw [inst_list]
  simp [inst, Term.nilT, Function.comp_def]

theorem placeholderStep_nat (cfg : Cfg) (σ : Nat → Term) (a : String) (st : PState) :
    placeholderStep cfg (.atom a) (instSt σ st) = mapRes σ (placeholderStep cfg (.atom a) st) := by
  rcases st with ⟨toks, args⟩
  unfold placeholderStep
  cases hp : cfg.ph with
  | none => simp [mapRes, inst, instSt]
  | some p =>
    simp only
    by_cases h : a = p
    · simp only [h, if_true]
      cases args with
      | nil => simp [mapRes, instSt]
      | cons x r => simp [mapRes, instSt]
    · simp [h, mapRes, inst, instSt]

theorem integer_nat (σ : Nat → Term) (neg : Bool) (n : Nat) (toks : List Tok) (args : List Term) :
    ((integer neg n).map fun t => (t, (⟨toks, args.map (inst σ)⟩ : PState))) =
      mapRes σ ((integer neg n).map fun t => (t, (⟨toks, args⟩ : PState))) := by
  unfold integer
  cases neg <;> simp <;> split <;> simp [Except.map, mapRes, inst, instSt]


/-- naturality of the four mutually recursive parser functions, at a given fuel -/
def Nat4 (cfg : Cfg) (σ : Nat → Term) (fuel : Nat) : Prop :=
  (∀ st, term0 cfg fuel (instSt σ st) = mapRes σ (term0 cfg fuel st)) ∧
  (∀ st, openClose cfg fuel (instSt σ st) = mapRes σ (openClose cfg fuel st)) ∧
  (∀ a st, term0Atom cfg fuel a (instSt σ st) = mapRes σ (term0Atom cfg fuel a st)) ∧
  (∀ st, listTail cfg fuel (instSt σ st) = mapL σ (listTail cfg fuel st))

theorem listTail_step (cfg : Cfg) (σ : Nat → Term) (fuel : Nat) (ih : Nat4 cfg σ fuel) (st : PState) :
    listTail cfg (fuel + 1) (instSt σ st) = mapL σ (listTail cfg (fuel + 1) st) := by
  obtain ⟨ih0, _, _, ihL⟩ := ih
  rcases st with ⟨toks, args⟩
  simp only [listTail, instSt_toks]
  split
  · rename_i r
    have h0 := ih0 ⟨r, args⟩
    simp only [instSt] at h0 ⊢
    rw [h0]
    cases hr : term0 cfg fuel ⟨r, args⟩ with
    | error e => simp [mapRes, mapL]
    | ok v =>
      obtain ⟨x, st'⟩ := v
      simp only [mapRes]
      have hL := ihL st'
      rw [hL]
      cases hl : listTail cfg fuel st' with
      | error e => simp [mapL]
      | ok w => obtain ⟨xs, st''⟩ := w; simp [mapL]
  · simp [mapL, instSt]

theorem openClose_step (cfg : Cfg) (σ : Nat → Term) (fuel : Nat) (ih : Nat4 cfg σ fuel) (st : PState) :
    openClose cfg (fuel + 1) (instSt σ st) = mapRes σ (openClose cfg (fuel + 1) st) := by
  obtain ⟨ih0, _, _, _⟩ := ih
  simp only [openClose]
  rw [ih0 st]
  cases hr : term0 cfg fuel st with
  | error e => simp [mapRes]
  | ok v =>
    obtain ⟨t, st'⟩ := v
    simp only [mapRes, instSt_toks]
    split <;> simp [mapRes, instSt]

/-- the `functionalNotation` / placeholder continuation of term0Atom -/
theorem cont_step (cfg : Cfg) (σ : Nat → Term) (fuel : Nat) (ih : Nat4 cfg σ fuel) (a : String) (toks : List Tok)
    (args : List Term) :
    (match toks with
      | .openCT :: r =>
        match term0 cfg fuel ⟨r, args.map (inst σ)⟩ with
        | .error e => .error e
        | .ok (x, st') =>
          match listTail cfg fuel st' with
          | .error e => .error e
          | .ok (xs, st'') =>
            match st''.toks with
            | .close :: r' => .ok (.app a (Args.ofList (x :: xs)), { st'' with toks := r' })
            | _ => .error .unexpected
      | _ => placeholderStep cfg (.atom a) ⟨toks, args.map (inst σ)⟩ : PRes) =
    mapRes σ (match toks with
      | .openCT :: r =>
        match term0 cfg fuel ⟨r, args⟩ with
        | .error e => .error e
        | .ok (x, st') =>
          match listTail cfg fuel st' with
          | .error e => .error e
          | .ok (xs, st'') =>
            match st''.toks with
            | .close :: r' => .ok (.app a (Args.ofList (x :: xs)), { st'' with toks := r' })
            | _ => .error .unexpected
      | _ => placeholderStep cfg (.atom a) ⟨toks, args⟩) := by
  obtain ⟨ih0, _, _, ihL⟩ := ih
  split
  · rename_i r
    have h0 := ih0 ⟨r, args⟩
    simp only [instSt] at h0
    rw [h0]
    cases hr : term0 cfg fuel ⟨r, args⟩ with
    | error e => simp [mapRes]
    | ok v =>
      obtain ⟨x, st'⟩ := v
      simp only [mapRes]
      rw [ihL st']
      cases hl : listTail cfg fuel st' with
      | error e => simp [mapL, mapRes]
      | ok w =>
        obtain ⟨xs, st''⟩ := w
        simp only [mapL, instSt_toks]
        split <;> simp [mapRes, instSt, inst, instArgs_ofList]
  · exact placeholderStep_nat cfg σ a ⟨toks, args⟩

theorem term0Atom_step (cfg : Cfg) (σ : Nat → Term) (fuel : Nat) (ih : Nat4 cfg σ fuel) (a : String) (st : PState) :
    term0Atom cfg (fuel + 1) a (instSt σ st) = mapRes σ (term0Atom cfg (fuel + 1) a st) := by
  rcases st with ⟨toks, args⟩
  have hc := cont_step cfg σ fuel ih a toks args
  simp only [term0Atom, instSt]
  by_cases hm : a = "-"
  · simp only [hm, if_true] at hc ⊢
    split
    · rename_i n r
      exact integer_nat σ true n r args
    · simp [mapRes, inst, instSt]
    · exact hc
  · simp only [hm, if_false]
    exact hc

theorem term0_step (cfg : Cfg) (σ : Nat → Term) (fuel : Nat) (ih : Nat4 cfg σ fuel) (st : PState) :
    term0 cfg (fuel + 1) (instSt σ st) = mapRes σ (term0 cfg (fuel + 1) st) := by
  obtain ⟨ih0, ihO, ihA, ihL⟩ := ih
  rcases st with ⟨toks, args⟩
  cases toks with
  | nil => simp [term0, instSt, mapRes]
  | cons x r =>
    cases x with
    | name a => simpa [term0, instSt] using ihA a ⟨r, args⟩
    | var n => simp [term0, instSt, mapRes, inst]
    | int n => simpa [term0, instSt] using integer_nat σ false n r args
    | float b => simp [term0, instSt, mapRes, inst]
    | dq body =>
      simp only [term0, instSt]
      cases cfg.dq with
      | chars => simp [mapRes, inst_charList, instSt]
      | codes => simp [mapRes, inst_codeList, instSt]
      | atom => simpa [instSt] using ihA _ ⟨r, args⟩
    | «open» => simpa [term0, instSt] using ihO ⟨r, args⟩
    | openCT => simpa [term0, instSt] using ihO ⟨r, args⟩
    | close => simp [term0, instSt, mapRes]
    | closeList => simp [term0, instSt, mapRes]
    | comma => simp [term0, instSt, mapRes]
    | bar => simp [term0, instSt, mapRes]
    | end_ => simp [term0, instSt, mapRes]
    | openList =>
      simp only [term0, instSt]
      split
      · rename_i r'
        simpa [instSt] using ihA "[]" ⟨r', args⟩
      · have h0 := ih0 ⟨r, args⟩
        simp only [instSt] at h0
        rw [h0]
        cases hr : term0 cfg fuel ⟨r, args⟩ with
        | error e => simp [mapRes]
        | ok v =>
          obtain ⟨a, st'⟩ := v
          simp only [mapRes]
          rw [ihL st']
          cases hl : listTail cfg fuel st' with
          | error e => simp [mapL, mapRes]
          | ok w =>
            obtain ⟨xs, st''⟩ := w
            simp only [mapL, instSt_toks]
            split
            · simp [mapRes, instSt, inst_list, inst, Term.nilT]
            · rename_i r' _
              have h1 := ih0 ⟨r', st''.args⟩
              simp only [instSt] at h1
              simp only [instSt_args]
              rw [h1]
              cases ht : term0 cfg fuel ⟨r', st''.args⟩ with
              | error e => simp [mapRes]
              | ok u =>
                obtain ⟨tl, st3⟩ := u
                simp only [mapRes, instSt_toks]
                split <;> simp [mapRes, instSt, inst_list]
            · simp [mapRes]

theorem nat4 (cfg : Cfg) (σ : Nat → Term) : ∀ fuel, Nat4 cfg σ fuel
  | 0 => ⟨fun _ => by simp [term0, mapRes], fun _ => by simp [openClose, mapRes],
          fun _ _ => by simp [term0Atom, mapRes], fun _ => by simp [listTail, mapL]⟩
  | fuel + 1 =>
    have ih := nat4 cfg σ fuel
    ⟨term0_step cfg σ fuel ih, openClose_step cfg σ fuel ih, term0Atom_step cfg σ fuel ih,
     listTail_step cfg σ fuel ih⟩

/-- parsing commutes with instantiating the holes of the argument queue -/
theorem parseTop_nat (cfg : Cfg) (σ : Nat → Term) (toks : List Tok) (hs : List Term) :
    parseTop cfg toks (hs.map (inst σ)) = (parseTop cfg toks hs).map (inst σ) := by
  unfold parseTop
  have h := (nat4 cfg σ (2 * toks.length + 2)).1 ⟨toks, hs⟩
  simp only [instSt] at h
  rw [h]
  cases hr : term0 cfg (2 * toks.length + 2) ⟨toks, hs⟩ with
  | error e => simp [mapRes, Except.map]
  | ok v =>
    obtain ⟨t, st⟩ := v
    simp only [mapRes, instSt_toks, instSt_args]
    split
    · by_cases ha : st.args = []
      · simp [ha, Except.map]
      · simp [ha, Except.map]
    · simp [Except.map]

theorem holes_assign (args : List Term) : (holes args.length).map (inst (assign args)) = args := by
  apply List.ext_getElem
  · simp [holes]
  · intro i h1 h2
    simp [holes, inst, assign, List.getD, h2]


/-! ### the number of arguments a text accepts is unique -/

def extSt (ext : List Term) (st : PState) : PState := ⟨st.toks, st.args ++ ext⟩
@[simp] theorem extSt_toks (ext) (st : PState) : (extSt ext st).toks = st.toks := rfl
@[simp] theorem extSt_args (ext) (st : PState) : (extSt ext st).args = st.args ++ ext := rfl

/-- unused arguments at the end of the queue do not change a successful parse -/
def Ext4 (cfg : Cfg) (ext : List Term) (fuel : Nat) : Prop :=
  (∀ st T st', term0 cfg fuel st = .ok (T, st') → term0 cfg fuel (extSt ext st) = .ok (T, extSt ext st')) ∧
  (∀ st T st', openClose cfg fuel st = .ok (T, st') → openClose cfg fuel (extSt ext st) = .ok (T, extSt ext st')) ∧
  (∀ a st T st', term0Atom cfg fuel a st = .ok (T, st') → term0Atom cfg fuel a (extSt ext st) = .ok (T, extSt ext st')) ∧
  (∀ st Ts st', listTail cfg fuel st = .ok (Ts, st') → listTail cfg fuel (extSt ext st) = .ok (Ts, extSt ext st'))

theorem placeholderStep_ext (cfg : Cfg) (ext : List Term) (a : String) (st : PState) (T : Term) (st' : PState)
    (h : placeholderStep cfg (.atom a) st = .ok (T, st')) :
    placeholderStep cfg (.atom a) (extSt ext st) = .ok (T, extSt ext st') := by
  rcases st with ⟨toks, args⟩
  unfold placeholderStep at h ⊢
  cases hp : cfg.ph with
  | none => simp [hp] at h ⊢; obtain ⟨rfl, rfl⟩ := h; simp [extSt]
  | some p =>
    simp only [hp] at h ⊢
    by_cases ha : a = p
    · simp only [ha, if_true] at h ⊢
      cases args with
      | nil => simp at h
      | cons x r => simp [extSt] at h ⊢; obtain ⟨rfl, rfl⟩ := h; simp
    · simp [ha] at h ⊢; obtain ⟨rfl, rfl⟩ := h; simp [extSt]

theorem integer_ext (ext : List Term) (neg : Bool) (n : Nat) (toks : List Tok) (args : List Term) (T : Term) (st' : PState)
    (h : ((integer neg n).map fun t => (t, (⟨toks, args⟩ : PState))) = .ok (T, st')) :
    ((integer neg n).map fun t => (t, (⟨toks, args ++ ext⟩ : PState))) = .ok (T, extSt ext st') := by
  cases hi : integer neg n with
  | error e => simp [hi, Except.map] at h
  | ok t => simp [hi, Except.map] at h ⊢; obtain ⟨rfl, rfl⟩ := h; simp [extSt]

theorem listTail_ext (cfg : Cfg) (ext : List Term) (fuel : Nat) (ih : Ext4 cfg ext fuel) (st : PState) (Ts : List Term)
    (st' : PState) (h : listTail cfg (fuel + 1) st = .ok (Ts, st')) :
    listTail cfg (fuel + 1) (extSt ext st) = .ok (Ts, extSt ext st') := by
  obtain ⟨ih0, _, _, ihL⟩ := ih
  rcases st with ⟨toks, args⟩
  simp only [listTail, extSt_toks] at h ⊢
  split at h
  · rename_i r
    cases hr : term0 cfg fuel ⟨r, args⟩ with
    | error e => simp [hr] at h
    | ok v =>
      obtain ⟨x, st1⟩ := v
      simp only [hr] at h
      cases hl : listTail cfg fuel st1 with
      | error e => simp [hl] at h
      | ok w =>
        obtain ⟨xs, st2⟩ := w
        simp only [hl] at h
        simp at h; obtain ⟨rfl, rfl⟩ := h
        have h0 := ih0 _ _ _ hr
        have h1 := ihL _ _ _ hl
        simp only [extSt] at h0 h1 ⊢
        simp [h0, h1]
  · simp at h; obtain ⟨rfl, rfl⟩ := h
    rfl

theorem openClose_ext (cfg : Cfg) (ext : List Term) (fuel : Nat) (ih : Ext4 cfg ext fuel) (st : PState) (T : Term)
    (st' : PState) (h : openClose cfg (fuel + 1) st = .ok (T, st')) :
    openClose cfg (fuel + 1) (extSt ext st) = .ok (T, extSt ext st') := by
  obtain ⟨ih0, _, _, _⟩ := ih
  simp only [openClose] at h ⊢
  cases hr : term0 cfg fuel st with
  | error e => simp [hr] at h
  | ok v =>
    obtain ⟨t, st1⟩ := v
    simp only [hr] at h
    rw [ih0 _ _ _ hr]
    simp only [extSt_toks]
    split at h
    · rename_i r heq
      simp at h; obtain ⟨rfl, rfl⟩ := h
      simp [heq, extSt]
    · simp at h

/-- the `functionalNotation` / placeholder continuation of term0Atom -/
def contF (cfg : Cfg) (fuel : Nat) (a : String) (st : PState) : PRes :=
  match st.toks with
  | .openCT :: r =>
    match term0 cfg fuel { st with toks := r } with
    | .error e => .error e
    | .ok (x, st') =>
      match listTail cfg fuel st' with
      | .error e => .error e
      | .ok (xs, st'') =>
        match st''.toks with
        | .close :: r' => .ok (.app a (Args.ofList (x :: xs)), { st'' with toks := r' })
        | _ => .error .unexpected
  | _ => placeholderStep cfg (.atom a) st

theorem term0Atom_eq (cfg : Cfg) (fuel : Nat) (a : String) (st : PState) :
    term0Atom cfg (fuel + 1) a st =
      if a = "-" then
        match st.toks with
        | .int n :: r => (integer true n).map fun t => (t, { st with toks := r })
        | .float b :: r => .ok (.flt (negFloat b), { st with toks := r })
        | _ => contF cfg fuel a st
      else contF cfg fuel a st := by
  simp only [term0Atom, contF]
  rfl

theorem cont_ext (cfg : Cfg) (ext : List Term) (fuel : Nat) (ih : Ext4 cfg ext fuel) (a : String) (st : PState)
    (T : Term) (st' : PState) (h : contF cfg fuel a st = .ok (T, st')) :
    contF cfg fuel a (extSt ext st) = .ok (T, extSt ext st') := by
  obtain ⟨ih0, _, _, ihL⟩ := ih
  rcases st with ⟨toks, args⟩
  simp only [contF, extSt_toks] at h ⊢
  split at h
  · rename_i r
    cases hr : term0 cfg fuel ⟨r, args⟩ with
    | error e => simp [hr] at h
    | ok v =>
      obtain ⟨x, st1⟩ := v
      simp only [hr] at h
      cases hl : listTail cfg fuel st1 with
      | error e => simp [hl] at h
      | ok w =>
        obtain ⟨xs, st2⟩ := w
        simp only [hl] at h
        have h0 := ih0 _ _ _ hr
        have h1 := ihL _ _ _ hl
        simp only [extSt] at h0 h1 ⊢
        simp only [h0, h1]
        split at h
        · rename_i r' heq
          simp at h; obtain ⟨rfl, rfl⟩ := h
          simp [heq]
        · simp at h
  · exact placeholderStep_ext cfg ext a ⟨toks, args⟩ T st' h

theorem term0Atom_ext (cfg : Cfg) (ext : List Term) (fuel : Nat) (ih : Ext4 cfg ext fuel) (a : String) (st : PState)
    (T : Term) (st' : PState) (h : term0Atom cfg (fuel + 1) a st = .ok (T, st')) :
    term0Atom cfg (fuel + 1) a (extSt ext st) = .ok (T, extSt ext st') := by
  rw [term0Atom_eq] at h ⊢
  by_cases hm : a = "-"
  · simp only [hm, if_true, extSt_toks] at h ⊢
    rcases st with ⟨toks, args⟩
    simp only at h ⊢
    split at h
    · rename_i n r
      exact integer_ext ext true n r args T st' h
    · simp at h; obtain ⟨rfl, rfl⟩ := h; simp [extSt]
    · exact cont_ext cfg ext fuel ih "-" _ T st' h
  · simp only [hm, if_false] at h ⊢
    exact cont_ext cfg ext fuel ih a st T st' h

theorem term0_ext (cfg : Cfg) (ext : List Term) (fuel : Nat) (ih : Ext4 cfg ext fuel) (st : PState)
    (T : Term) (st' : PState) (h : term0 cfg (fuel + 1) st = .ok (T, st')) :
    term0 cfg (fuel + 1) (extSt ext st) = .ok (T, extSt ext st') := by
  obtain ⟨ih0, ihO, ihA, ihL⟩ := ih
  rcases st with ⟨toks, args⟩
  cases toks with
  | nil => simp [term0] at h
  | cons x r =>
    cases x with
    | name a => simp only [term0, extSt] at h ⊢; exact ihA a _ _ _ h
    | var n => simp [term0, extSt] at h ⊢; obtain ⟨rfl, rfl⟩ := h; simp
    | int n => simp only [term0, extSt] at h ⊢; exact integer_ext ext false n r args T st' h
    | float b => simp [term0, extSt] at h ⊢; obtain ⟨rfl, rfl⟩ := h; simp
    | dq body =>
      simp only [term0, extSt] at h ⊢
      cases hq : cfg.dq with
      | chars => simp [hq] at h ⊢; obtain ⟨rfl, rfl⟩ := h; simp
      | codes => simp [hq] at h ⊢; obtain ⟨rfl, rfl⟩ := h; simp
      | atom => simp only [hq] at h ⊢; exact ihA _ _ _ _ h
    | «open» => simp only [term0, extSt] at h ⊢; exact ihO _ _ _ h
    | openCT => simp only [term0, extSt] at h ⊢; exact ihO _ _ _ h
    | close => simp [term0] at h
    | closeList => simp [term0] at h
    | comma => simp [term0] at h
    | bar => simp [term0] at h
    | end_ => simp [term0] at h
    | openList =>
      simp only [term0, extSt] at h ⊢
      split at h
      · rename_i r'
        exact ihA "[]" _ _ _ h
      · rename_i hne
        cases hr : term0 cfg fuel ⟨r, args⟩ with
        | error e => simp [hr] at h
        | ok v =>
          obtain ⟨a, st1⟩ := v
          simp only [hr] at h
          cases hl : listTail cfg fuel st1 with
          | error e => simp [hl] at h
          | ok w =>
            obtain ⟨xs, st2⟩ := w
            simp only [hl] at h
            have h0 := ih0 _ _ _ hr
            have h1 := ihL _ _ _ hl
            simp only [extSt] at h0 h1
            simp only [h0, h1]
            split at h
            · rename_i r' heq
              simp at h; obtain ⟨rfl, rfl⟩ := h
              simp [heq]
            · rename_i r' heq
              cases ht : term0 cfg fuel ⟨r', st2.args⟩ with
              | error e => simp [ht] at h
              | ok u =>
                obtain ⟨tl, st3⟩ := u
                simp only [ht] at h
                have h2 := ih0 _ _ _ ht
                simp only [extSt] at h2
                simp only [heq, h2]
                split at h
                · rename_i r'' heq'
                  simp at h; obtain ⟨rfl, rfl⟩ := h
                  simp [heq']
                · simp at h
            · simp at h

theorem ext4 (cfg : Cfg) (ext : List Term) : ∀ fuel, Ext4 cfg ext fuel
  | 0 => ⟨fun _ _ _ h => by simp [term0] at h, fun _ _ _ h => by simp [openClose] at h,
          fun _ _ _ _ h => by simp [term0Atom] at h, fun _ _ _ h => by simp [listTail] at h⟩
  | fuel + 1 =>
    have ih := ext4 cfg ext fuel
    ⟨term0_ext cfg ext fuel ih, openClose_ext cfg ext fuel ih, term0Atom_ext cfg ext fuel ih,
     listTail_ext cfg ext fuel ih⟩

/-- if a text parses with the arguments `args`, every longer argument list is rejected as "too many" -/
theorem parseTop_many (cfg : Cfg) (toks : List Tok) (args ext : List Term) (t : Term)
    (h : parseTop cfg toks args = .ok t) (hne : ext ≠ []) :
    parseTop cfg toks (args ++ ext) = .error .manyArgs := by
  unfold parseTop at h ⊢
  cases hr : term0 cfg (2 * toks.length + 2) ⟨toks, args⟩ with
  | error e => simp [hr] at h
  | ok v =>
    obtain ⟨T, st⟩ := v
    simp only [hr] at h
    have he := (ext4 cfg ext _).1 _ _ _ hr
    simp only [extSt] at he
    rw [he]
    split at h
    · rename_i heq
      by_cases ha : st.args = []
      · simp [heq, ha, hne]
      · simp [ha] at h
    · simp at h

theorem parseTop_template (cfg : Cfg) (toks : List Tok) (args : List Term) :
    parseTop cfg toks args = (parseTop cfg toks (holes args.length)).map (inst (assign args)) := by
  have := parseTop_nat cfg (assign args) toks (holes args.length)
  rw [holes_assign] at this
  exact this

theorem holes_add (n k : Nat) : holes (n + k) = holes n ++ ((List.range k).map fun i => Term.str (n + i)) := by
  simp [holes, List.range_add, Function.comp_def]

theorem parseTop_longer (cfg : Cfg) (toks : List Tok) (args args' : List Term) (t : Term)
    (h : parseTop cfg toks args = .ok t) (hl : args.length < args'.length) :
    parseTop cfg toks args' = .error .manyArgs := by
  rw [parseTop_template] at h
  cases hT : parseTop cfg toks (holes args.length) with
  | error e => simp [hT, Except.map] at h
  | ok T =>
    obtain ⟨k, hk⟩ : ∃ k, args'.length = args.length + (k + 1) := ⟨args'.length - args.length - 1, by omega⟩
    have hm := parseTop_many cfg toks (holes args.length) ((List.range (k + 1)).map fun i => Term.str (args.length + i)) T hT
      (by simp)
    rw [← holes_add, ← hk] at hm
    rw [parseTop_template cfg toks args', hm]
    rfl

theorem parseTop_count_unique (cfg : Cfg) (toks : List Tok) (args args' : List Term) (t t' : Term)
    (h : parseTop cfg toks args = .ok t) (h' : parseTop cfg toks args' = .ok t') :
    args.length = args'.length := by
  rcases Nat.lt_trichotomy args.length args'.length with hl | hl | hl
  · rw [parseTop_longer cfg toks args args' t h hl] at h'; simp at h'
  · exact hl
  · rw [parseTop_longer cfg toks args' args t' h' hl] at h; simp at h


/-! ### every value termOf accepts has a literal -/

mutual
  theorem litToks_of_termOf (dq : DQ) : ∀ (v : GoVal) (t : Term), termOf dq v = .ok t → ∃ toks, litToks v = some toks
    | .int _ _, _, _ => ⟨_, rfl⟩
    | .float _, _, _ => ⟨_, rfl⟩
    | .str _, _, _ => ⟨_, rfl⟩
    | .slice .nil, _, _ => ⟨_, rfl⟩
    | .slice (.cons v vs), t, h => by
      simp only [termOf, termsOf] at h
      split at h
      · simp [Except.map] at h
      · rename_i t1 ht1
        split at h
        · simp [Except.map] at h
        · rename_i ts hts
          obtain ⟨a, ha⟩ := litToks_of_termOf dq v t1 ht1
          obtain ⟨b, hb⟩ := litElems_of_termsOf dq vs ts hts
          exact ⟨.openList :: a ++ b, by simp [litToks, ha, hb]⟩
    | .uint _, _, h => by simp [termOf] at h
    | .nil, _, h => by simp [termOf] at h
    | .other, _, h => by simp [termOf] at h
  theorem litElems_of_termsOf (dq : DQ) : ∀ (vs : GoVals) (ts : List Term), termsOf dq vs = .ok ts →
      ∃ toks, litElems vs = some toks
    | .nil, _, _ => ⟨_, rfl⟩
    | .cons v vs, ts, h => by
      simp only [termsOf] at h
      split at h
      · simp at h
      · rename_i t1 ht1
        split at h
        · simp at h
        · rename_i ts' hts'
          obtain ⟨a, ha⟩ := litToks_of_termOf dq v t1 ht1
          obtain ⟨b, hb⟩ := litElems_of_termsOf dq vs ts' hts'
          exact ⟨.comma :: a ++ b, by simp [litElems, ha, hb]⟩
end

/-! ### `f(?)` with a value = `f(<literal of the value>)` -/

theorem litElems_length_pos : ∀ (vs : GoVals) (toks : List Tok), litElems vs = some toks → 1 ≤ toks.length
  | .nil, toks, h => by simp [litElems] at h; subst h; simp
  | .cons v vs, toks, h => by
    simp only [litElems] at h
    split at h
    · simp at h; subst h; simp
    · simp at h

theorem litToks_length_pos (v : GoVal) (toks : List Tok) (h : litToks v = some toks) : 1 ≤ toks.length := by
  have := litToks_head v toks h
  cases toks with
  | nil => simp [LitHead] at this
  | cons _ _ => simp

mutual
  theorem need_le : ∀ (v : GoVal) (toks : List Tok), litToks v = some toks → need v ≤ toks.length + 1
    | .int _ x, toks, h => by simp [litToks] at h; subst h; simp [need]; split <;> simp
    | .float b, toks, h => by simp [litToks] at h; subst h; simp [need]; split <;> simp
    | .str s, toks, h => by simp [litToks] at h; subst h; simp [need]
    | .slice .nil, toks, h => by simp [litToks] at h; subst h; simp [need, needTail]
    | .slice (.cons v vs), toks, h => by
      simp only [litToks] at h
      split at h
      · rename_i a b ha hb
        simp at h; subst h
        have h1 := need_le v a ha
        have h2 := needTail_le vs b hb
        have h3 := litElems_length_pos vs b hb
        simp only [need, needTail, List.length_cons, List.length_append]
        omega
      · simp at h
    | .uint _, _, h => by simp [litToks] at h
    | .nil, _, h => by simp [litToks] at h
    | .other, _, h => by simp [litToks] at h
  theorem needTail_le : ∀ (vs : GoVals) (toks : List Tok), litElems vs = some toks → needTail vs ≤ toks.length
    | .nil, toks, h => by simp [litElems] at h; subst h; simp [needTail]
    | .cons v vs, toks, h => by
      simp only [litElems] at h
      split at h
      · rename_i a b ha hb
        simp at h; subst h
        have h1 := need_le v a ha
        have h2 := needTail_le vs b hb
        have h3 := litElems_length_pos vs b hb
        simp only [needTail, List.length_cons, List.length_append]
        omega
      · simp at h
end

/-- `f(?)` with the value as argument -/
theorem query_arg (dq : DQ) (f : String) (v : GoVal) (t : Term) (ht : termOf dq v = .ok t) :
    query dq [.name f, .openCT, .name "?", .close, .end_] [v] = .ok (.app f (.cons t .nil)) := by
  by_cases hf : f = "-"
  · subst hf
    simp [query, setPlaceholder, ht, parseTop, term0, term0Atom, placeholderStep, listTail, Args.ofList]
  · simp [query, setPlaceholder, ht, parseTop, term0, term0Atom, placeholderStep, listTail, Args.ofList, hf]

/-- `f(<literal>)` without placeholders -/
theorem parse_literal_arg (dq : DQ) (f : String) (v : GoVal) (t : Term) (toks : List Tok)
    (hw : GoVal.wf v = true) (ht : termOf dq v = .ok t) (hl : litToks v = some toks) :
    parseTop ⟨dq, none⟩ ([.name f, .openCT] ++ toks ++ [.close, .end_]) [] = .ok (.app f (.cons t .nil)) := by
  have hn := need_le v toks hl
  have hfuel : ∃ k, 2 * (([Tok.name f, Tok.openCT] ++ toks ++ [Tok.close, Tok.end_] : List Tok)).length + 2 = k + 3 ∧ need v ≤ k + 1 := by
    refine ⟨2 * toks.length + 7, ?_, by omega⟩
    simp only [List.length_append, List.length_cons, List.length_nil]; omega
  obtain ⟨k, hk, hkn⟩ := hfuel
  have hread := read_literal dq v t toks hw ht hl (k + 1) hkn [.close, .end_] [] (by simp [Follows])
  unfold parseTop
  rw [hk]
  simp only [List.cons_append, List.nil_append, List.append_assoc, term0]
  rw [term0Atom_eq]
  by_cases hf : f = "-"
  · subst hf
    simp [contF, hread, listTail, Args.ofList]
  · simp [hf, contF, hread, listTail, Args.ofList]


/-! ### fewer arguments than placeholders: "not enough arguments" -/

/-- outcome of re-running a successful step with the queue cut short by `ext`:
    the same result (the cut part was not needed), or "not enough arguments" -/
def Cut {α : Type} (ext : List Term) (run : List Term → Except PErr (α × PState)) (q : List Term) (T : α) (st' : PState) : Prop :=
  (∃ q', st'.args = q' ++ ext ∧ run q = .ok (T, ⟨st'.toks, q'⟩)) ∨ run q = .error .fewArgs

def Trunc4 (cfg : Cfg) (ext : List Term) (fuel : Nat) : Prop :=
  (∀ toks q T st', term0 cfg fuel ⟨toks, q ++ ext⟩ = .ok (T, st') → Cut ext (fun q => term0 cfg fuel ⟨toks, q⟩) q T st') ∧
  (∀ toks q T st', openClose cfg fuel ⟨toks, q ++ ext⟩ = .ok (T, st') → Cut ext (fun q => openClose cfg fuel ⟨toks, q⟩) q T st') ∧
  (∀ a toks q T st', term0Atom cfg fuel a ⟨toks, q ++ ext⟩ = .ok (T, st') →
    Cut ext (fun q => term0Atom cfg fuel a ⟨toks, q⟩) q T st') ∧
  (∀ toks q Ts st', listTail cfg fuel ⟨toks, q ++ ext⟩ = .ok (Ts, st') → Cut ext (fun q => listTail cfg fuel ⟨toks, q⟩) q Ts st')

theorem placeholderStep_cut (cfg : Cfg) (ext : List Term) (a : String) (toks : List Tok) (q : List Term) (T : Term)
    (st' : PState) (h : placeholderStep cfg (.atom a) ⟨toks, q ++ ext⟩ = .ok (T, st')) :
    Cut ext (fun q => placeholderStep cfg (.atom a) ⟨toks, q⟩) q T st' := by
  unfold placeholderStep at h
  unfold Cut placeholderStep
  cases hp : cfg.ph with
  | none =>
    simp [hp] at h; obtain ⟨rfl, rfl⟩ := h
    exact Or.inl ⟨q, rfl, by simp⟩
  | some p =>
    simp only [hp] at h ⊢
    by_cases ha : a = p
    · simp only [ha, if_true] at h ⊢
      cases q with
      | nil => exact Or.inr rfl
      | cons x r =>
        simp at h; obtain ⟨rfl, rfl⟩ := h
        exact Or.inl ⟨r, rfl, rfl⟩
    · simp [ha] at h; obtain ⟨rfl, rfl⟩ := h
      exact Or.inl ⟨q, rfl, by simp [ha]⟩

theorem integer_cut (ext : List Term) (neg : Bool) (n : Nat) (toks : List Tok) (q : List Term) (T : Term) (st' : PState)
    (h : ((integer neg n).map fun t => (t, (⟨toks, q ++ ext⟩ : PState))) = .ok (T, st')) :
    Cut ext (fun q => (integer neg n).map fun t => (t, (⟨toks, q⟩ : PState))) q T st' := by
  cases hi : integer neg n with
  | error e => simp [hi, Except.map] at h
  | ok t =>
    simp [hi, Except.map] at h; obtain ⟨rfl, rfl⟩ := h
    exact Or.inl ⟨q, rfl, by simp [Except.map]⟩

theorem listTail_cut (cfg : Cfg) (ext : List Term) (fuel : Nat) (ih : Trunc4 cfg ext fuel) (toks : List Tok)
    (q : List Term) (Ts : List Term) (st' : PState)
    (h : listTail cfg (fuel + 1) ⟨toks, q ++ ext⟩ = .ok (Ts, st')) :
    Cut ext (fun q => listTail cfg (fuel + 1) ⟨toks, q⟩) q Ts st' := by
  obtain ⟨ih0, _, _, ihL⟩ := ih
  simp only [listTail] at h
  unfold Cut
  simp only [listTail]
  split at h
  · rename_i r
    cases hr : term0 cfg fuel ⟨r, q ++ ext⟩ with
    | error e => simp [hr] at h
    | ok v =>
      obtain ⟨x, st1⟩ := v
      simp only [hr] at h
      rcases ih0 r q x st1 hr with ⟨q1, hq1, h1⟩ | h1
      · simp only at h1
        rw [h1]
        cases hl : listTail cfg fuel st1 with
        | error e => simp [hl] at h
        | ok w =>
          obtain ⟨xs, st2⟩ := w
          simp only [hl] at h
          simp at h; obtain ⟨rfl, rfl⟩ := h
          have hst1 : st1 = ⟨st1.toks, q1 ++ ext⟩ := by rw [← hq1]
          rw [hst1] at hl
          rcases ihL st1.toks q1 xs st2 hl with ⟨q2, hq2, h2⟩ | h2
          · simp only at h2
            exact Or.inl ⟨q2, hq2, by simp [h2]⟩
          · simp only at h2
            exact Or.inr (by simp [h2])
      · simp only at h1
        exact Or.inr (by simp [h1])
  · simp at h; obtain ⟨rfl, rfl⟩ := h
    exact Or.inl ⟨q, rfl, rfl⟩

theorem openClose_cut (cfg : Cfg) (ext : List Term) (fuel : Nat) (ih : Trunc4 cfg ext fuel) (toks : List Tok)
    (q : List Term) (T : Term) (st' : PState)
    (h : openClose cfg (fuel + 1) ⟨toks, q ++ ext⟩ = .ok (T, st')) :
    Cut ext (fun q => openClose cfg (fuel + 1) ⟨toks, q⟩) q T st' := by
  obtain ⟨ih0, _, _, _⟩ := ih
  simp only [openClose] at h
  unfold Cut
  simp only [openClose]
  cases hr : term0 cfg fuel ⟨toks, q ++ ext⟩ with
  | error e => simp [hr] at h
  | ok v =>
    obtain ⟨t, st1⟩ := v
    simp only [hr] at h
    rcases ih0 toks q t st1 hr with ⟨q1, hq1, h1⟩ | h1
    · simp only at h1
      rw [h1]
      split at h
      · rename_i r heq
        simp at h; obtain ⟨rfl, rfl⟩ := h
        exact Or.inl ⟨q1, hq1, by simp [heq]⟩
      · simp at h
    · simp only at h1
      exact Or.inr (by simp [h1])

theorem cont_cut (cfg : Cfg) (ext : List Term) (fuel : Nat) (ih : Trunc4 cfg ext fuel) (a : String) (toks : List Tok)
    (q : List Term) (T : Term) (st' : PState) (h : contF cfg fuel a ⟨toks, q ++ ext⟩ = .ok (T, st')) :
    Cut ext (fun q => contF cfg fuel a ⟨toks, q⟩) q T st' := by
  obtain ⟨ih0, _, _, ihL⟩ := ih
  simp only [contF] at h
  split at h
  · rename_i r
    unfold Cut
    simp only [contF]
    cases hr : term0 cfg fuel ⟨r, q ++ ext⟩ with
    | error e => simp [hr] at h
    | ok v =>
      obtain ⟨x, st1⟩ := v
      simp only [hr] at h
      rcases ih0 r q x st1 hr with ⟨q1, hq1, h1⟩ | h1
      · simp only at h1
        rw [h1]
        cases hl : listTail cfg fuel st1 with
        | error e => simp [hl] at h
        | ok w =>
          obtain ⟨xs, st2⟩ := w
          simp only [hl] at h
          have hst1 : st1 = ⟨st1.toks, q1 ++ ext⟩ := by rw [← hq1]
          rw [hst1] at hl
          rcases ihL st1.toks q1 xs st2 hl with ⟨q2, hq2, h2⟩ | h2
          · simp only at h2
            simp only [h2]
            split at h
            · rename_i r' heq
              simp at h; obtain ⟨rfl, rfl⟩ := h
              exact Or.inl ⟨q2, hq2, by simp [heq]⟩
            · simp at h
          · simp only at h2
            exact Or.inr (by simp [h2])
      · simp only at h1
        exact Or.inr (by simp [h1])
  · rename_i hne
    have hc := placeholderStep_cut cfg ext a toks q T st' h
    unfold Cut at hc ⊢
    have heq : ∀ q', contF cfg fuel a ⟨toks, q'⟩ = placeholderStep cfg (.atom a) ⟨toks, q'⟩ := by
      intro q'
      simp only [contF]
    simpa [heq] using hc

theorem term0Atom_cut (cfg : Cfg) (ext : List Term) (fuel : Nat) (ih : Trunc4 cfg ext fuel) (a : String)
    (toks : List Tok) (q : List Term) (T : Term) (st' : PState)
    (h : term0Atom cfg (fuel + 1) a ⟨toks, q ++ ext⟩ = .ok (T, st')) :
    Cut ext (fun q => term0Atom cfg (fuel + 1) a ⟨toks, q⟩) q T st' := by
  rw [term0Atom_eq] at h
  have hc := cont_cut cfg ext fuel ih a toks q T st'
  unfold Cut at hc ⊢
  simp only [term0Atom_eq]
  by_cases hm : a = "-"
  · simp only [hm, if_true] at h hc ⊢
    split at h
    · rename_i n r
      have := integer_cut ext true n r q T st' h
      unfold Cut at this
      exact this
    · simp at h; obtain ⟨rfl, rfl⟩ := h
      exact Or.inl ⟨q, rfl, rfl⟩
    · exact hc h
  · simp only [hm, if_false] at h ⊢
    exact hc h

theorem term0_cut (cfg : Cfg) (ext : List Term) (fuel : Nat) (ih : Trunc4 cfg ext fuel) (toks : List Tok)
    (q : List Term) (T : Term) (st' : PState)
    (h : term0 cfg (fuel + 1) ⟨toks, q ++ ext⟩ = .ok (T, st')) :
    Cut ext (fun q => term0 cfg (fuel + 1) ⟨toks, q⟩) q T st' := by
  obtain ⟨ih0, ihO, ihA, ihL⟩ := ih
  have triv : ∀ (r : List Tok) (T : Term), Cut ext (fun q => (.ok (T, ⟨r, q⟩) : PRes)) q T ⟨r, q ++ ext⟩ :=
    fun r T => Or.inl ⟨q, rfl, rfl⟩
  cases toks with
  | nil => simp [term0] at h
  | cons x r =>
    cases x with
    | name a => simp only [term0] at h; have := ihA a r q T st' h; unfold Cut at this ⊢; simpa [term0] using this
    | var n => simp [term0] at h; obtain ⟨rfl, rfl⟩ := h; have := triv r (.var n); unfold Cut at this ⊢; simp [term0]
    | int n => simp only [term0] at h; have := integer_cut ext false n r q T st' h; unfold Cut at this ⊢; simpa [term0] using this
    | float b => simp [term0] at h; obtain ⟨rfl, rfl⟩ := h; have := triv r (.flt b); unfold Cut at this ⊢; simp [term0]
    | dq body =>
      simp only [term0] at h
      unfold Cut
      simp only [term0]
      cases hq : cfg.dq with
      | chars => simp [hq] at h ⊢; obtain ⟨rfl, rfl⟩ := h; simp
      | codes => simp [hq] at h ⊢; obtain ⟨rfl, rfl⟩ := h; simp
      | atom => simp only [hq] at h ⊢; have := ihA _ r q T st' h; unfold Cut at this; exact this
    | «open» => simp only [term0] at h; have := ihO r q T st' h; unfold Cut at this ⊢; simpa [term0] using this
    | openCT => simp only [term0] at h; have := ihO r q T st' h; unfold Cut at this ⊢; simpa [term0] using this
    | close => simp [term0] at h
    | closeList => simp [term0] at h
    | comma => simp [term0] at h
    | bar => simp [term0] at h
    | end_ => simp [term0] at h
    | openList =>
      simp only [term0] at h
      unfold Cut
      simp only [term0]
      split at h
      · rename_i r'
        have := ihA "[]" r' q T st' h; unfold Cut at this; exact this
      · cases hr : term0 cfg fuel ⟨r, q ++ ext⟩ with
        | error e => simp [hr] at h
        | ok v =>
          obtain ⟨a, st1⟩ := v
          simp only [hr] at h
          rcases ih0 r q a st1 hr with ⟨q1, hq1, h1⟩ | h1
          · simp only at h1
            rw [h1]
            cases hl : listTail cfg fuel st1 with
            | error e => simp [hl] at h
            | ok w =>
              obtain ⟨xs, st2⟩ := w
              simp only [hl] at h
              have hst1 : st1 = ⟨st1.toks, q1 ++ ext⟩ := by rw [← hq1]
              rw [hst1] at hl
              rcases ihL st1.toks q1 xs st2 hl with ⟨q2, hq2, h2⟩ | h2
              · simp only at h2
                simp only [h2]
                split at h
                · rename_i r' heq
                  simp at h; obtain ⟨rfl, rfl⟩ := h
                  exact Or.inl ⟨q2, hq2, by simp [heq]⟩
                · rename_i r' heq
                  cases ht : term0 cfg fuel ⟨r', st2.args⟩ with
                  | error e => simp [ht] at h
                  | ok u =>
                    obtain ⟨tl, st3⟩ := u
                    simp only [ht] at h
                    rw [hq2] at ht
                    rcases ih0 r' q2 tl st3 ht with ⟨q3, hq3, h3⟩ | h3
                    · simp only at h3
                      simp only [h3]
                      split at h
                      · rename_i r'' heq'
                        simp at h; obtain ⟨rfl, rfl⟩ := h
                        exact Or.inl ⟨q3, hq3, by simp [heq']⟩
                      · simp at h
                    · simp only at h3
                      exact Or.inr (by simp [h3])
                · simp at h
              · simp only at h2
                exact Or.inr (by simp [h2])
          · simp only at h1
            exact Or.inr (by simp [h1])

theorem trunc4 (cfg : Cfg) (ext : List Term) : ∀ fuel, Trunc4 cfg ext fuel
  | 0 => ⟨fun _ _ _ _ h => by simp [term0] at h, fun _ _ _ _ h => by simp [openClose] at h,
          fun _ _ _ _ _ h => by simp [term0Atom] at h, fun _ _ _ _ h => by simp [listTail] at h⟩
  | fuel + 1 =>
    have ih := trunc4 cfg ext fuel
    ⟨term0_cut cfg ext fuel ih, openClose_cut cfg ext fuel ih, term0Atom_cut cfg ext fuel ih,
     listTail_cut cfg ext fuel ih⟩

/-- if a text parses with `args ++ ext`, `ext ≠ []`, then with `args` alone it is "not enough arguments" -/
theorem parseTop_few (cfg : Cfg) (toks : List Tok) (args ext : List Term) (t : Term)
    (h : parseTop cfg toks (args ++ ext) = .ok t) (hne : ext ≠ []) :
    parseTop cfg toks args = .error .fewArgs := by
  unfold parseTop at h ⊢
  cases hr : term0 cfg (2 * toks.length + 2) ⟨toks, args ++ ext⟩ with
  | error e => simp [hr] at h
  | ok v =>
    obtain ⟨T, st⟩ := v
    simp only [hr] at h
    rcases (trunc4 cfg ext _).1 toks args T st hr with ⟨q', hq', _⟩ | h1
    · split at h
      · by_cases ha : st.args = []
        · rw [ha] at hq'
          have : ext = [] := by
            have := congrArg List.length hq'
            simp at this
            exact List.eq_nil_of_length_eq_zero (by omega)
          exact absurd this hne
        · simp [ha] at h
      · simp at h
    · simp only at h1
      rw [h1]

theorem parseTop_shorter (cfg : Cfg) (toks : List Tok) (args args' : List Term) (t : Term)
    (h : parseTop cfg toks args = .ok t) (hl : args'.length < args.length) :
    parseTop cfg toks args' = .error .fewArgs := by
  rw [parseTop_template] at h
  cases hT : parseTop cfg toks (holes args.length) with
  | error e => simp [hT, Except.map] at h
  | ok T =>
    obtain ⟨k, hk⟩ : ∃ k, args.length = args'.length + (k + 1) := ⟨args.length - args'.length - 1, by omega⟩
    rw [hk, holes_add] at hT
    have hm := parseTop_few cfg toks (holes args'.length) _ T hT (by simp)
    rw [parseTop_template cfg toks args', hm]
    rfl


end PrologVerif.Api
